(* Proofs/FloatWeightsAlias.v — facts about the float WeightedAliasIndex model
   (Model/FloatWeights.v) that hold for ALL weight lists, generic in the format:
   complete characterisation of the result of `new` (alias_float_new_errors), including the
   absence of panics: the pairing loop terminates within its fuel and
   `Uniform::new(0.0, sum).unwrap()` succeeds because the clamped pairwise sum of accepted
   weights is a finite, strictly positive float and the `new_bounded` loop does not fire.   *)
From Coq Require Import ZArith List Bool Arith Lia Reals Lra.
From Flocq Require Import Core.Core IEEE754.Binary IEEE754.Bits IEEE754.BinarySingleNaN.
From RD Require Import Model.Tree Model.Uniform Model.FloatWeights Proofs.FloatWeightsProofs.
Import ListNotations.

Section Fmt.
Variable prec emax : Z.
Context (Hp : Prec_gt_0 prec) (Hpe : Prec_lt_emax prec emax).
Notation float := (BinarySingleNaN.binary_float prec emax).
Notation fzero := (fzero prec emax).
Notation fnzero := (fnzero prec emax).
Notation fone := (fone prec emax Hp Hpe).
Notation fmaxv := (fmaxv prec emax Hp Hpe).
Notation fge := (fge prec emax).
Notation fgt := (fgt prec emax).
Notation flt := (flt prec emax).
Notation fle := (fle prec emax).
Notation feq := (feq prec emax).
Notation fadd := (fadd prec emax Hp Hpe).
Notation fsub := (fsub prec emax Hp Hpe).
Notation fmul := (fmul prec emax Hp Hpe).
Notation fdiv := (fdiv prec emax Hp Hpe).
Notation fbad_w := (fbad_w prec emax).
Notation fneg_strict := (fneg_strict prec emax).
Notation fclamp := (fclamp prec emax Hp Hpe).
Notation rnd := (round radix2 (SpecFloat.fexp prec emax) (round_mode mode_NE)).

Local Instance fexp_valid : Valid_exp (SpecFloat.fexp prec emax) := fexp_correct prec emax Hp.

(* ---- rounding stays inside an interval whose end points are floats ---- *)
Lemma rnd_between : forall (a b : float) x, (B2R a <= x <= B2R b)%R -> (B2R a <= rnd x <= B2R b)%R.
Proof.
  intros a b x [H1 H2]. split.
  - rewrite <- (round_generic radix2 (SpecFloat.fexp prec emax) (round_mode mode_NE) (B2R a)) at 1
      by apply generic_format_B2R.
    apply round_le; auto with typeclass_instances.
  - rewrite <- (round_generic radix2 (SpecFloat.fexp prec emax) (round_mode mode_NE) (B2R b))
      by apply generic_format_B2R.
    apply round_le; auto with typeclass_instances.
Qed.

Lemma rnd_small : forall (b : float) x, (0 <= x <= B2R b)%R ->
  (0 <= rnd x <= B2R b)%R /\ Rlt_bool (Rabs (rnd x)) (bpow radix2 emax) = true.
Proof.
  intros b x H.
  assert (H0 : (0 <= rnd x <= B2R b)%R) by (apply (rnd_between (B754_zero false) b x); exact H).
  split; auto. apply Rlt_bool_true. rewrite Rabs_pos_eq by apply H0.
  apply Rle_lt_trans with (B2R b); [apply H0|].
  apply Rle_lt_trans with (Rabs (B2R b)); [apply Rle_abs | apply abs_B2R_lt_emax].
Qed.

Lemma B2R_pos_finite : forall m e (H : SpecFloat.bounded prec emax m e = true),
  (0 < B2R (B754_finite false m e H : float))%R.
Proof. intros. simpl. apply F2R_gt_0. reflexivity. Qed.

(* a not-bad float is +-0, +inf or a positive finite number; its real value is >= 0 *)
Lemma notbad_B2R : forall x : float, fbad_w x = false -> (0 <= B2R x)%R.
Proof.
  intros [s|s| |s m e H]; simpl; intros Hb; try lra.
  destruct s; [discriminate|]. apply Rlt_le, F2R_gt_0. reflexivity.
Qed.

Lemma finite_nonneg_sign_notbad : forall x : float,
  is_finite x = true -> Bsign x = false -> fbad_w x = false.
Proof. intros [s|s| |s m e H]; simpl; intros F S; try discriminate; subst; reflexivity. Qed.

Lemma overflow_NE_inf : forall x : float, B2SF x = binary_overflow prec emax mode_NE false ->
  x = B754_infinity false.
Proof. intros [s|s| |s m e H]; unfold binary_overflow; simpl; intros E; inversion E; reflexivity. Qed.

(* ---- the sum of two accepted-like values is again such a value: no NaN, no negative ---- *)
Lemma fadd_notbad : forall x y : float, fbad_w x = false -> fbad_w y = false -> fbad_w (fadd x y) = false.
Proof.
  intros x y Hx Hy.
  destruct x as [sx|sx| |sx mx ex Bx]; destruct y as [sy|sy| |sy my ey By];
    try destruct sx; try destruct sy; try discriminate; try reflexivity.
  unfold FloatWeights.fadd.
  set (x := B754_finite false mx ex Bx : float). set (y := B754_finite false my ey By : float).
  pose proof (Bplus_correct prec emax Hp Hpe mode_NE x y eq_refl eq_refl) as H.
  set (r := Bplus mode_NE x y) in *.
  destruct (Rlt_bool _ _) in H.
  - destruct H as [_ [F S]]. apply finite_nonneg_sign_notbad; auto.
    rewrite S. rewrite Rcompare_Gt; auto.
    pose proof (B2R_pos_finite mx ex Bx). pose proof (B2R_pos_finite my ey By). fold x y in H, H0. lra.
  - destruct H as [H _]. change (Bsign x) with false in H. apply overflow_NE_inf in H. rewrite H. reflexivity.
Qed.

Lemma fsum_seq_notbad : forall (l : list float) acc,
  fbad_w acc = false -> Forall (fun w => fbad_w w = false) l ->
  fbad_w (fold_left fadd l acc) = false.
Proof.
  induction l; intros acc Ha Hl; simpl; auto.
  inversion Hl; subst. apply IHl; auto. apply fadd_notbad; auto.
Qed.

Lemma Forall_firstn : forall (A : Type) (P : A -> Prop) n l, Forall P l -> Forall P (firstn n l).
Proof. induction n; intros [|a l] H; simpl; auto. inversion H; auto. Qed.
Lemma Forall_skipn : forall (A : Type) (P : A -> Prop) n l, Forall P l -> Forall P (skipn n l).
Proof. induction n; intros [|a l] H; simpl; auto. inversion H; auto. Qed.

Lemma pairwise_sum_notbad : forall fuel (l : list float),
  Forall (fun w => fbad_w w = false) l -> fbad_w (pairwise_sum prec emax Hp Hpe fuel l) = false.
Proof.
  induction fuel; intros l H; simpl.
  - apply fsum_seq_notbad; auto.
  - destruct (length l <=? 32)%nat.
    + apply fsum_seq_notbad; auto.
    + apply fadd_notbad; apply IHfuel; [apply Forall_firstn | apply Forall_skipn]; auto.
Qed.

(* ---- MAX and the clamp ---- *)
Lemma fmaxv_finite : is_finite fmaxv = true /\ fbad_w fmaxv = false.
Proof. split; reflexivity. Qed.

Lemma fclamp_good : forall x : float, fbad_w x = false ->
  fbad_w (fclamp x) = false /\ is_finite (fclamp x) = true.
Proof.
  intros x Hx. unfold FloatWeights.fclamp.
  destruct x as [s|s| |s m e B]; simpl in Hx; try discriminate.
  - destruct (fgt _ _); split; reflexivity.
  - destruct s; [discriminate|].
    replace (fgt (B754_infinity false) fmaxv) with true by reflexivity. split; reflexivity.
  - destruct (fgt _ _); split; auto.
Qed.

(* a finite, not-bad float that does not compare equal to 0 is strictly positive *)
Lemma pos_of_nonzero : forall x : float, fbad_w x = false -> is_finite x = true -> feq x fzero = false ->
  exists m e B, x = B754_finite false m e B.
Proof.
  intros [s|s| |s m e B]; simpl; intros Hb Hf He; try discriminate.
  destruct s; [compute in Hb; discriminate | eauto].
Qed.

(* ============================================================================================ *)
(* Uniform::new(0.0, S) for a finite positive S is {low = 0.0, scale = S}                      *)

Lemma one_facts : is_finite fone = true /\ B2R fone = 1%R.
Proof. split; [apply is_finite_Bone | apply Bone_correct]. Qed.

Lemma rnd_between01 : forall x, (0 <= x <= 1)%R ->
  (0 <= rnd x <= 1)%R /\ Rlt_bool (Rabs (rnd x)) (bpow radix2 emax) = true.
Proof.
  intros x H. destruct one_facts as [_ E1].
  pose proof (rnd_small fone x) as R. rewrite E1 in R. apply R. exact H.
Qed.

Lemma epsilon_facts : is_finite (fepsilon prec emax Hp Hpe) = true /\
  (0 <= B2R (fepsilon prec emax Hp Hpe) <= 1)%R.
Proof.
  unfold fepsilon, fdy.
  pose proof (binary_normalize_correct prec emax Hp Hpe mode_NE 1 (- (prec - 1)) false) as H.
  cbv zeta in H.
  assert (Hx : (0 <= F2R (Float radix2 1 (- (prec - 1))) <= 1)%R).
  { rewrite F2R_bpow. split; [apply bpow_ge_0|].
    change 1%R with (bpow radix2 0). apply bpow_le. unfold Prec_gt_0 in Hp. lia. }
  destruct (rnd_between01 _ Hx) as [Hr Hlt]. rewrite Hlt in H.
  destruct H as [E [F _]]. split; auto. rewrite E. exact Hr.
Qed.

Lemma max_rand_facts : is_finite (max_rand prec emax Hp Hpe) = true /\
  (0 <= B2R (max_rand prec emax Hp Hpe) <= 1)%R.
Proof.
  unfold max_rand, FloatWeights.fsub.
  destruct one_facts as [F1 E1]. destruct epsilon_facts as [Fe [Ee0 Ee1]].
  pose proof (Bminus_correct prec emax Hp Hpe mode_NE fone (fepsilon prec emax Hp Hpe) F1 Fe) as H.
  assert (Hx : (0 <= B2R fone - B2R (fepsilon prec emax Hp Hpe) <= 1)%R) by (rewrite E1; lra).
  destruct (rnd_between01 _ Hx) as [Hr Hlt]. rewrite Hlt in H.
  destruct H as [E [F _]]. split; auto. rewrite E. exact Hr.
Qed.

Lemma new_bounded_zero_low : forall fuel m e B,
  let S0 := (B754_finite false m e B : float) in
  new_bounded prec emax Hp Hpe (S fuel) fzero S0 S0 = Some S0.
Proof.
  intros fuel m e B S0.
  destruct max_rand_facts as [Fm [M0 M1]].
  assert (FS : is_finite S0 = true) by reflexivity.
  assert (PS : (0 < B2R S0)%R) by apply B2R_pos_finite.
  (* p = S * max_rand *)
  pose proof (Bmult_correct prec emax Hp Hpe mode_NE S0 (max_rand prec emax Hp Hpe)) as Hm.
  assert (Hx : (0 <= B2R S0 * B2R (max_rand prec emax Hp Hpe) <= B2R S0)%R) by nra.
  destruct (rnd_small S0 _ Hx) as [Hr Hlt]. rewrite Hlt in Hm.
  destruct Hm as [Ep [Fp _]]. rewrite FS, Fm in Fp. change (true && true) with true in Fp.
  remember (Bmult mode_NE S0 (max_rand prec emax Hp Hpe)) as p.
  (* q = p + 0.0 *)
  pose proof (Bplus_correct prec emax Hp Hpe mode_NE p fzero Fp eq_refl) as Ha.
  assert (Hq : (0 <= B2R p + B2R fzero <= B2R S0)%R).
  { change (B2R fzero) with 0%R. rewrite Ep. lra. }
  destruct (rnd_small S0 _ Hq) as [Hrq Hltq]. rewrite Hltq in Ha.
  destruct Ha as [Eq [Fq _]].
  remember (Bplus mode_NE p fzero) as q.
  assert (G : fgt q S0 = false).
  { unfold FloatWeights.fgt, fcmp. rewrite (Bcompare_correct prec emax q S0 Fq FS).
    destruct (Rcompare_spec (B2R q) (B2R S0)); auto. rewrite Eq in H. lra. }
  cbn [new_bounded]. unfold FloatWeights.fadd, FloatWeights.fmul.
  rewrite <- Heqp, <- Heqq, G. reflexivity.
Qed.

Lemma uniform_new_zero_low : forall m e B,
  let S := (B754_finite false m e B : float) in
  uniform_new prec emax Hp Hpe fzero S = Some (fzero, S).
Proof.
  intros m e B S. unfold uniform_new.
  replace (f_is_finite prec emax fzero) with true by reflexivity.
  replace (f_is_finite prec emax S) with true by reflexivity.
  replace (FloatWeights.flt prec emax fzero S) with true by reflexivity.
  replace (FloatWeights.fsub prec emax Hp Hpe S fzero) with S by reflexivity.
  replace (f_is_finite prec emax S) with true by reflexivity.
  simpl negb. simpl orb. cbv iota.
  change 64%nat with (Datatypes.S 63).
  pose proof (new_bounded_zero_low 63 m e B) as E. cbv zeta in E. fold S in E. rewrite E. reflexivity.
Qed.

(* ============================================================================================ *)
(* the pairing loop terminates within its fuel                                                  *)

Notation fast := (fast prec emax).
Notation fclassify := (fclassify prec emax).
Notation fpair_loop := (fpair_loop prec emax Hp Hpe).
Definition fcount (s : fast) : nat := (length (fsmalls prec emax s) + length (fbigs prec emax s))%nat.

Lemma setz_length : forall l i v, length (setz l i v) = length l.
Proof. induction l; intros [|i] v; simpl; auto. Qed.

Lemma fclassify_facts : forall SS (s : fast) i,
  fcount (fclassify SS s i) = Datatypes.S (fcount s) /\ length (fodds prec emax (fclassify SS s i)) = length (fodds prec emax s) /\ length (fal prec emax (fclassify SS s i)) = length (fal prec emax s).
Proof.
  intros SS s i. unfold FloatWeights.fclassify, fcount.
  destruct (FloatWeights.flt _ _ _ _); simpl; rewrite setz_length; lia.
Qed.

Lemma fold_classify_facts : forall SS l (s : fast),
  fcount (fold_left (fclassify SS) l s) = (length l + fcount s)%nat /\ length (fodds prec emax (fold_left (fclassify SS) l s)) = length (fodds prec emax s) /\ length (fal prec emax (fold_left (fclassify SS) l s)) = length (fal prec emax s).
Proof.
  induction l; intros s; simpl; auto.
  destruct (IHl (fclassify SS s a)) as [A [B C]].
  destruct (fclassify_facts SS s a) as [A' [B' C']].
  rewrite A, B, C, A', B', C'. repeat split; lia.
Qed.

Lemma fpair_loop_ok : forall fuel SS (s : fast), (fcount s <= fuel)%nat ->
  exists s', fpair_loop fuel SS s = Some s' /\ length (fodds prec emax s') = length (fodds prec emax s) /\ length (fal prec emax s') = length (fal prec emax s).
Proof.
  induction fuel; intros SS [o a sm bg] H; unfold fcount in H; simpl in H.
  - destruct sm, bg; simpl in H; try lia; simpl; eexists; split; eauto.
  - destruct sm as [|s0 sr]; [simpl; eexists; split; eauto|].
    destruct bg as [|b br]; [simpl; eexists; split; eauto|].
    simpl in H. cbn [FloatWeights.fpair_loop fsmalls fbigs fodds fal].
    match goal with |- exists s', FloatWeights.fpair_loop _ _ _ _ _ _ ?st = _ /\ _ =>
      destruct (IHfuel SS st) as [s' [E [L1 L2]]] end.
    { rewrite (proj1 (fclassify_facts _ _ _)). unfold fcount. simpl. lia. }
    exists s'. split; [exact E|].
    rewrite L1, L2.
    match goal with |- context [FloatWeights.fclassify _ _ ?SS0 ?st ?b0] =>
      destruct (fclassify_facts SS0 st b0) as [_ [B' C']] end.
    rewrite B', C'. simpl. unfold seto. rewrite fupd_length, setz_length. auto.
Qed.

Lemma fdrain_lengths : forall SS (s : fast),
  length (fodds prec emax (fdrain prec emax SS s)) = length (fodds prec emax s) /\ fal prec emax (fdrain prec emax SS s) = fal prec emax s.
Proof.
  intros SS s. unfold fdrain. simpl. split; auto. unfold seto.
  rewrite (fold_fupd_length prec emax nat (fun _ i => i) (fun _ _ => SS)).
  rewrite (fold_fupd_length prec emax nat (fun _ i => i) (fun _ _ => SS)). reflexivity.
Qed.

(* ============================================================================================ *)
(* validation and the sum                                                                       *)

Notation falias_maxw := (falias_maxw prec emax Hp Hpe).
Notation falias_sum := (falias_sum prec emax Hp Hpe).
Notation falias_new := (falias_new prec emax Hp Hpe).

Lemma wok_false_iff : forall mw w : float,
  falias_wok prec emax mw w = false <->
  (is_nan w = true \/ fneg_strict w = true \/ fle w mw = false).
Proof.
  intros mw w. unfold falias_wok. rewrite fle_zero_spec. unfold FloatWeightsProofs.fbad_w.
  destruct (is_nan w), (fneg_strict w), (fle w mw); simpl; intuition discriminate.
Qed.

Lemma wok_notbad : forall mw w : float, falias_wok prec emax mw w = true -> fbad_w w = false.
Proof.
  intros mw w. unfold falias_wok. rewrite fle_zero_spec.
  destruct (fbad_w w); simpl; auto.
Qed.

Lemma falias_sum_good : forall (mw : float) ws,
  forallb (falias_wok prec emax mw) ws = true ->
  fbad_w (falias_sum ws) = false /\ is_finite (falias_sum ws) = true.
Proof.
  intros mw ws V. unfold FloatWeights.falias_sum. apply fclamp_good.
  apply pairwise_sum_notbad. apply Forall_forall. intros w Hi.
  rewrite forallb_forall in V. apply (wok_notbad mw). auto.
Qed.

Theorem alias_float_new_errors : forall ws : list float,
  let n := Z.of_nat (length ws) in
  let bad_len := (n = 0 \/ n > 4294967295)%Z in
  let bad_w := exists w, In w ws /\
     (is_nan w = true \/ fneg_strict w = true \/ fle w (falias_maxw ws) = false) in
  let zero_sum := feq (falias_sum ws) fzero = true in
  (bad_len -> falias_new ws = Err InvalidInput) /\
  (~ bad_len -> bad_w -> falias_new ws = Err InvalidWeight) /\
  (~ bad_len -> ~ bad_w -> zero_sum -> falias_new ws = Err InsufficientNonZero) /\
  (~ bad_len -> ~ bad_w -> ~ zero_sum ->
     exists t, falias_new ws = Ok t /\
               length (ft_al prec emax t) = length ws /\ length (ft_odds prec emax t) = length ws /\
               ft_sum prec emax t = falias_sum ws /\
               ft_unif prec emax t = (fzero, falias_sum ws)).
Proof.
  intros ws n bad_len bad_w zero_sum.
  assert (BL : bad_len <-> ((n =? 0)%Z || (FSENT <? n)%Z) = true).
  { unfold bad_len, FSENT. rewrite orb_true_iff, Z.eqb_eq, Z.ltb_lt. lia. }
  assert (BW : bad_w <-> forallb (falias_wok prec emax (falias_maxw ws)) ws = false).
  { unfold bad_w. rewrite forallb_false_ex. split; intros [w [Hi Hw]]; exists w; split; auto;
      apply wok_false_iff; auto. }
  unfold FloatWeights.falias_new. fold n.
  destruct ((n =? 0)%Z || (FSENT <? n)%Z) eqn:EL.
  { repeat split; auto; intros NB; exfalso; apply NB; apply BL; reflexivity. }
  assert (NBL : ~ bad_len) by (intros Hb; apply BL in Hb; discriminate).
  destruct (forallb (falias_wok prec emax (falias_maxw ws)) ws) eqn:EW; simpl negb; cbv iota.
  2:{ repeat split; auto; try (intros Hb; contradiction).
      - intros _ NW. exfalso. apply NW. apply BW. reflexivity.
      - intros _ NW. exfalso. apply NW. apply BW. reflexivity. }
  assert (NBW : ~ bad_w) by (intros Hb; apply BW in Hb; discriminate).
  destruct (falias_sum_good _ _ EW) as [SB SF].
  destruct (feq (falias_sum ws) fzero) eqn:EZ.
  { repeat split; auto; try (intros Hb; contradiction).
    intros _ _ NZ. exfalso. apply NZ. reflexivity. }
  repeat split; try (intros Hb; contradiction).
  { intros _ _ Z. unfold zero_sum in Z. discriminate. }
  intros _ _ _.
  destruct (pos_of_nonzero _ SB SF EZ) as [m [e [B ES]]].
  set (s1 := fold_left _ (seq 0 (length ws)) _).
  destruct (fold_classify_facts (falias_sum ws) (seq 0 (length ws))
              {| fodds := map (fun w => fclamp (fmul w (falias_nconv prec emax Hp Hpe ws))) ws;
                 fal := map (fun _ => 0%Z) ws; fsmalls := []; fbigs := [] |}) as [C1 [C2 C3]].
  fold s1 in C1, C2, C3. rewrite seq_length in C1. unfold fcount in C1 at 2. simpl in C1, C2, C3.
  rewrite map_length in C2, C3.
  destruct (fpair_loop_ok (length ws) (falias_sum ws) s1) as [s2 [E2 [L1 L2]]]; [lia|].
  rewrite E2.
  destruct (fdrain_lengths (falias_sum ws) s2) as [D1 D2].
  assert (U : uniform_new prec emax Hp Hpe fzero (falias_sum ws) = Some (fzero, falias_sum ws))
    by (rewrite ES; apply uniform_new_zero_low).
  rewrite U.
  eexists. split; [reflexivity|]. cbn [ft_al ft_odds ft_sum ft_unif].
  rewrite D2, D1, L1, L2, C2, C3. auto.
Qed.

(* the accepted sum is a finite, strictly positive float *)
Theorem alias_float_sum_pos : forall (ws : list float) t,
  falias_new ws = Ok t ->
  is_finite (ft_sum prec emax t) = true /\ (0 < B2R (ft_sum prec emax t))%R.
Proof.
  intros ws t H.
  destruct (alias_float_new_errors ws) as [A [B [C D]]].
  set (n := Z.of_nat (length ws)) in *.
  destruct (((n =? 0)%Z || (FSENT <? n)%Z)) eqn:EL.
  { rewrite A in H; [discriminate|]. unfold FSENT in EL.
    rewrite orb_true_iff, Z.eqb_eq, Z.ltb_lt in EL. lia. }
  assert (NBL : ~ (n = 0 \/ n > 4294967295)%Z).
  { unfold FSENT in EL. rewrite orb_false_iff, Z.eqb_neq, Z.ltb_ge in EL. lia. }
  destruct (forallb (falias_wok prec emax (falias_maxw ws)) ws) eqn:EW.
  2:{ rewrite B in H; [discriminate|auto|]. apply forallb_false_ex in EW.
      destruct EW as [w [Hi Hw]]. exists w. split; auto. apply wok_false_iff; auto. }
  assert (NBW : ~ (exists w, In w ws /\
     (is_nan w = true \/ fneg_strict w = true \/ fle w (falias_maxw ws) = false))).
  { intros [w [Hi Hw]]. apply wok_false_iff in Hw. rewrite forallb_forall in EW.
    rewrite (EW w Hi) in Hw. discriminate. }
  destruct (falias_sum_good _ _ EW) as [SB SF].
  destruct (feq (falias_sum ws) fzero) eqn:EZ.
  { rewrite C in H; auto. discriminate. }
  destruct D as [t' [E [_ [_ [ES _]]]]]; auto.
  rewrite E in H. inversion H; subst t'. rewrite ES. split; auto.
  destruct (pos_of_nonzero _ SB SF EZ) as [m [e [Bd ->]]]. apply B2R_pos_finite.
Qed.

(* ============================================================================================ *)
(* max_weight_size = MAX / (n as f): finite; meaning of `w <= max_weight_size`                  *)

Theorem alias_float_maxw : forall (ws : list float) (w : float),
  (32 < emax)%Z -> (0 < length ws)%nat -> (Z.of_nat (length ws) <= 4294967295)%Z ->
  is_finite (falias_maxw ws) = true /\
  (is_finite w = true ->
     (fle w (falias_maxw ws) = true <-> (B2R w <= B2R (falias_maxw ws))%R)) /\
  fle (B754_infinity false) (falias_maxw ws) = false.
Proof.
  intros ws w He Hn0 Hn.
  set (n := Z.of_nat (length ws)) in *.
  assert (Hn1 : (1 <= n)%Z) by (unfold n; lia).
  (* nc = n as f is finite and >= 1 *)
  assert (NC : is_finite (falias_nconv prec emax Hp Hpe ws) = true /\
               (1 <= B2R (falias_nconv prec emax Hp Hpe ws))%R).
  { unfold falias_nconv, fdy. fold n.
    pose proof (binary_normalize_correct prec emax Hp Hpe mode_NE n 0 false) as H. cbv zeta in H.
    assert (Ex : F2R (Float radix2 n 0) = IZR n) by (unfold F2R; simpl; ring).
    rewrite Ex in H.
    assert (G32 : generic_format radix2 (SpecFloat.fexp prec emax) (bpow radix2 32)).
    { apply generic_format_bpow. unfold SpecFloat.fexp, SpecFloat.emin.
      unfold Prec_gt_0 in Hp. lia. }
    assert (U : (IZR n <= bpow radix2 32)%R).
    { change (bpow radix2 32) with (IZR (Z.pow_pos 2 32)). apply IZR_le.
      change (Z.pow_pos 2 32) with 4294967296%Z. lia. }
    assert (L : (1 <= IZR n)%R) by (apply IZR_le; exact Hn1).
    assert (R1 : (1 <= rnd (IZR n))%R).
    { destruct one_facts as [_ E1]. rewrite <- E1.
      rewrite <- (round_generic radix2 (SpecFloat.fexp prec emax) (round_mode mode_NE) (B2R fone)) at 1
        by apply generic_format_B2R.
      apply round_le; auto with typeclass_instances. rewrite E1. exact L. }
    assert (R2 : (rnd (IZR n) <= bpow radix2 32)%R).
    { rewrite <- (round_generic radix2 (SpecFloat.fexp prec emax) (round_mode mode_NE) (bpow radix2 32)) by exact G32.
      apply round_le; auto with typeclass_instances. }
    rewrite Rlt_bool_true in H.
    - destruct H as [E [F _]]. split; auto. rewrite E. exact R1.
    - rewrite Rabs_pos_eq by lra. apply Rle_lt_trans with (bpow radix2 32); auto.
      apply bpow_lt. exact He. }
  destruct NC as [NF N1].
  destruct fmaxv_finite as [MF MB]. pose proof (notbad_B2R _ MB) as M0.
  assert (MW : is_finite (falias_maxw ws) = true).
  { unfold FloatWeights.falias_maxw, FloatWeights.fdiv.
    pose proof (Bdiv_correct prec emax Hp Hpe mode_NE fmaxv (falias_nconv prec emax Hp Hpe ws)) as H.
    assert (NZ : B2R (falias_nconv prec emax Hp Hpe ws) <> 0%R) by lra.
    specialize (H NZ).
    assert (I : (0 < / B2R (falias_nconv prec emax Hp Hpe ws) <= 1)%R).
    { split; [apply Rinv_0_lt_compat; lra|]. apply Rle_trans with (/ 1)%R; [apply Rinv_le_contravar; lra | rewrite Rinv_1; lra]. }
    assert (Hx : (0 <= B2R fmaxv / B2R (falias_nconv prec emax Hp Hpe ws) <= B2R fmaxv)%R).
    { unfold Rdiv. nra. }
    destruct (rnd_small fmaxv _ Hx) as [_ Hlt]. rewrite Hlt in H.
    destruct H as [_ [F _]]. rewrite F. exact MF. }
  split; [exact MW|]. split.
  - intros Fw. unfold FloatWeights.fle, fcmp. rewrite (Bcompare_correct prec emax w _ Fw MW).
    destruct (Rcompare_spec (B2R w) (B2R (falias_maxw ws))); split; intros; auto; try lra; discriminate.
  - destruct (falias_maxw ws) as [s|s| |s m e B]; try discriminate; reflexivity.
Qed.

End Fmt.
