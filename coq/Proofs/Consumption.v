(* Proofs/Consumption.v — bounded consumption of random words (property C05), parts that follow from
   the regenerated tables and from the integer models.                                            *)
From Coq Require Import Reals ZArith List Lra Lia Bool.
From Interval Require Import Xreal Interval.
From RD Require Import Base.Expr Gen.ZigTables Proofs.ZigTables Model.Uniform.
Import ListNotations.
Open Scope Z_scope.

(* probability that one ziggurat pass returns from the rectangle test with its first word:
   (1/256) * sum_i X_{i+1}/X_i  (layer index uniform on 0..255; |u| resp. u uniform) *)
Fixpoint ratio_sum (X : list (Z * Z)) (n : nat) : expr :=
  match n with
  | O => num 0
  | S m => Bin Add (ratio_sum X m) (Bin Div (ent X (S m)) (ent X m))
  end.
Definition first_pass (X : list (Z * Z)) : expr := Bin Div (ratio_sum X 256) (num 256).

Lemma norm_first_pass_chk : le_b (Bin Div (num 985) (num 1000)) (first_pass ZIG_NORM_X) = true.
Proof. vm_compute. reflexivity. Qed.
Lemma exp_first_pass_chk : le_b (Bin Div (num 977) (num 1000)) (first_pass ZIG_EXP_X) = true.
Proof. vm_compute. reflexivity. Qed.

Theorem zig_first_pass_norm : RLe (Bin Div (num 985) (num 1000)) (first_pass ZIG_NORM_X).
Proof. exact (le_b_sound _ _ norm_first_pass_chk). Qed.
Theorem zig_first_pass_exp : RLe (Bin Div (num 977) (num 1000)) (first_pass ZIG_EXP_X).
Proof. exact (le_b_sound _ _ exp_first_pass_chk). Qed.

(* rand's Canon range reduction draws at most twice; Lemire with fuel f draws at most f times *)
Definition words_per_draw (b : sbits) : nat := match b with B128 => 2%nat | _ => 1%nat end.

Lemma draw_consumes b ws w r : draw b ws = Some (w, r) -> length ws = (length r + words_per_draw b)%nat.
Proof. destruct b; simpl; destruct ws as [|x [|y xs]]; intros H; inversion H; subst; simpl; lia. Qed.

Theorem canon_words b range ws v rest : canon b range ws = Some (v, rest) ->
  (length ws - length rest <= 2 * words_per_draw b)%nat /\ (length rest <= length ws)%nat.
Proof.
  unfold canon. destruct (draw b ws) as [[w1 r1]|] eqn:D1; [|discriminate].
  apply draw_consumes in D1.
  destruct (_ <? _).
  - destruct (draw b r1) as [[w2 r2]|] eqn:D2; [|discriminate]. apply draw_consumes in D2.
    intros H; inversion H; subst. lia.
  - intros H; inversion H; subst. lia.
Qed.

Theorem lemire_words : forall fuel b range ws v rest, lemire fuel b range ws = Some (v, rest) ->
  (length ws - length rest <= fuel * words_per_draw b)%nat /\ (length rest <= length ws)%nat.
Proof.
  induction fuel as [|f IH]; intros b range ws v rest H; [discriminate|].
  cbn [lemire] in H. destruct (draw b ws) as [[w r]|] eqn:D; [|discriminate]. apply draw_consumes in D.
  destruct (_ <=? _).
  - inversion H; subst. lia.
  - apply IH in H. lia.
Qed.
