(* C15 proofs: derive(Serialize, Deserialize) round-trips through a
   self-describing document for every well-formed type description. *)
From Coq Require Import String ZArith List Bool Lia.
From RD Require Import Model.Serde.
Import ListNotations.
Open Scope Z_scope.

(* ------------------------------------------------------------------ *)
(* Strings, keys                                                        *)
(* ------------------------------------------------------------------ *)
Lemma mem_str_In s l : mem_str s l = true <-> In s l.
Proof.
  induction l as [|x r IH]; simpl.
  - split; [discriminate | contradiction].
  - rewrite orb_true_iff, IH, String.eqb_eq. split; intros [H|H]; auto.
Qed.

Lemma nodupb_NoDup l : nodupb l = true -> NoDup l.
Proof.
  induction l as [|x r IH]; simpl; intros H.
  - constructor.
  - apply andb_true_iff in H as [H1 H2]. constructor; auto.
    intros HI. apply mem_str_In in HI. rewrite HI in H1. discriminate.
Qed.

Lemma NoDup_nodupb l : NoDup l -> nodupb l = true.
Proof.
  induction 1 as [|x r Hn _ IH]; simpl; auto.
  rewrite IH, andb_true_r. destruct (mem_str x r) eqn:E; auto.
  apply mem_str_In in E. contradiction.
Qed.

Lemma entries_for_notin {X} (m : list (string * X)) k :
  ~ In k (map fst m) -> entries_for k m = [].
Proof.
  induction m as [|[k' x'] m IH]; simpl; intros HN; auto.
  destruct (String.eqb k k') eqn:E.
  - apply String.eqb_eq in E. subst. exfalso. apply HN. now left.
  - apply IH. intros HI. apply HN. now right.
Qed.

Lemma entries_for_unique {X} (m : list (string * X)) k x :
  NoDup (map fst m) -> In (k, x) m -> entries_for k m = [(k, x)].
Proof.
  induction m as [|[k' x'] m IH]; simpl; intros ND HI.
  - contradiction.
  - inversion ND as [|? ? Hn ND']; subst. destruct HI as [E|HI].
    + inversion E; subst. rewrite String.eqb_refl. f_equal.
      apply entries_for_notin. exact Hn.
    + destruct (String.eqb k k') eqn:E.
      * apply String.eqb_eq in E. subst. exfalso. apply Hn.
        change k' with (fst (k', x)). apply in_map. exact HI.
      * apply IH; auto.
Qed.

(* ------------------------------------------------------------------ *)
(* with_variant = lookup then continue                                  *)
(* ------------------------------------------------------------------ *)
Definition find_variant {A} (name : string) (vars : list (string * A)) : option A :=
  with_variant name (@Some A) None vars.

Lemma with_variant_find {A C} name (k : A -> C) dflt vars :
  with_variant name k dflt vars =
  match find_variant name vars with Some sh => k sh | None => dflt end.
Proof.
  unfold find_variant. induction vars as [|nv r IH]; simpl; auto.
  destruct (String.eqb name (fst nv)); auto.
Qed.

Lemma find_variant_In {A} name (vars : list (string * A)) sh :
  find_variant name vars = Some sh -> In (name, sh) vars.
Proof.
  unfold find_variant. induction vars as [|[n s] r IH]; simpl; intros H.
  - discriminate.
  - destruct (String.eqb name n) eqn:E.
    + apply String.eqb_eq in E. inversion H; subst. now left.
    + right. auto.
Qed.

Lemma find_variant_Forall {A} (R : A -> Prop) name (vars : list (string * A)) sh :
  Forall (fun nv => R (snd nv)) vars -> find_variant name vars = Some sh -> R sh.
Proof.
  intros HF H. apply find_variant_In in H.
  rewrite Forall_forall in HF. apply (HF _ H).
Qed.

Lemma find_variant_forallb {A} (f : A -> bool) name (vars : list (string * A)) sh :
  forallb (fun nv => f (snd nv)) vars = true -> find_variant name vars = Some sh -> f sh = true.
Proof.
  intros HF H. apply find_variant_In in H.
  rewrite forallb_forall in HF. apply (HF _ H).
Qed.

(* ------------------------------------------------------------------ *)
(* Unfolding equations (keep the combinators folded)                    *)
(* ------------------------------------------------------------------ *)
Definition enc_fields (fs : list (string * tydesc)) (vs : list (string * value)) :=
  zipw (fun ft fv => (fst ft, encode (snd ft) (snd fv))) fs vs.
Definition dec_fields (fs : list (string * tydesc)) (m : list (string * doc)) :=
  opt_map (fun ft => dec_field (decode (snd ft)) (fst ft) m) fs.
Definition type_fields (fs : list (string * tydesc)) (vs : list (string * value)) :=
  all2 (fun ft fv => String.eqb (fst ft) (fst fv) && has_typeb (snd ft) (snd fv)) fs vs.

Lemma encode_enum n vars name p :
  encode (TEnum n vars) (VVariant name p) =
  match find_variant name vars with
  | Some VUnit => DStr name
  | Some sh => DMap [(name, encode_shape sh p)]
  | None => DNull
  end.
Proof.
  change (encode (TEnum n vars) (VVariant name p)) with
    (with_variant name
       (fun sh => match sh with
                  | VUnit => DStr name
                  | _ => DMap [(name, encode_shape sh p)]
                  end) DNull vars).
  rewrite with_variant_find. destruct (find_variant name vars) as [[]|]; reflexivity.
Qed.

Lemma has_type_enum n vars name p :
  has_typeb (TEnum n vars) (VVariant name p) =
  match find_variant name vars with Some sh => shape_typeb sh p | None => false end.
Proof.
  change (has_typeb (TEnum n vars) (VVariant name p)) with
    (with_variant name (fun sh => shape_typeb sh p) false vars).
  apply with_variant_find.
Qed.

Lemma decode_enum_str n vars s :
  decode (TEnum n vars) (DStr s) =
  match find_variant s vars with
  | Some VUnit => Some (VVariant s VUnitv)
  | _ => None
  end.
Proof.
  change (decode (TEnum n vars) (DStr s)) with
    (with_variant s
       (fun sh => match sh with VUnit => Some (VVariant s VUnitv) | _ => None end)
       None vars).
  rewrite with_variant_find. destruct (find_variant s vars) as [[]|]; reflexivity.
Qed.

Lemma decode_enum_map n vars s y :
  decode (TEnum n vars) (DMap [(s, y)]) =
  match find_variant s vars with
  | Some sh => match decode_shape sh y with Some p => Some (VVariant s p) | None => None end
  | None => None
  end.
Proof.
  change (decode (TEnum n vars) (DMap [(s, y)])) with
    (with_variant s
       (fun sh => match decode_shape sh y with
                  | Some p => Some (VVariant s p)
                  | None => None
                  end) None vars).
  apply with_variant_find.
Qed.

(* ------------------------------------------------------------------ *)
(* Generic list lemmas                                                  *)
(* ------------------------------------------------------------------ *)
Lemma all2_length {A B} (p : A -> B -> bool) l l' :
  all2 p l l' = true -> length l = length l'.
Proof.
  revert l'. induction l as [|a r IH]; destruct l' as [|b r']; simpl; try discriminate; auto.
  intros H. apply andb_true_iff in H as [_ H]. f_equal. auto.
Qed.

Lemma zipw_map_fst {A B} (g : string * A -> B -> doc) (fs : list (string * A)) (vs : list B) :
  length fs = length vs ->
  map fst (zipw (fun ft fv => (fst ft, g ft fv)) fs vs) = map fst fs.
Proof.
  revert vs. induction fs as [|ft r IH]; destruct vs as [|fv r']; simpl; try discriminate; auto.
  intros H. f_equal. apply IH. lia.
Qed.

(* ------------------------------------------------------------------ *)
(* Round trip                                                           *)
(* ------------------------------------------------------------------ *)
Definition RT (d : tydesc) : Prop :=
  wf d = true -> forall v, has_typeb d v = true -> finite_floatsb v = true ->
  decode d (encode d v) = Some v.

Definition RTs (s : vshape) : Prop :=
  wf_shape s = true -> forall p, shape_typeb s p = true -> finite_floatsb p = true ->
  decode_shape s (encode_shape s p) = Some p.

Lemma tuple_roundtrip ts : Forall RT ts -> forallb wf ts = true ->
  forall vs, all2 has_typeb ts vs = true -> forallb finite_floatsb vs = true ->
  opt_zip decode ts (zipw encode ts vs) = Some vs.
Proof.
  induction 1 as [|t r Ht _ IH]; intros Hwf [|v vs]; simpl; try discriminate; auto.
  intros HT HF. simpl in Hwf.
  apply andb_true_iff in Hwf as [W1 W2].
  apply andb_true_iff in HT as [T1 T2].
  apply andb_true_iff in HF as [F1 F2].
  rewrite (Ht W1 v T1 F1). rewrite (IH W2 vs T2 F2). reflexivity.
Qed.

Lemma seq_roundtrip t : RT t -> wf t = true ->
  forall vs, forallb (has_typeb t) vs = true -> forallb finite_floatsb vs = true ->
  opt_map (decode t) (map (encode t) vs) = Some vs.
Proof.
  intros Ht W. induction vs as [|v vs IH]; simpl; auto.
  intros HT HF.
  apply andb_true_iff in HT as [T1 T2].
  apply andb_true_iff in HF as [F1 F2].
  rewrite (Ht W v T1 F1), (IH T2 F2). reflexivity.
Qed.

Lemma dec_fields_ok fs vs m :
  NoDup (map fst m) ->
  Forall2 (fun ft fv =>
             fst ft = fst fv /\
             In (fst ft, encode (snd ft) (snd fv)) m /\
             decode (snd ft) (encode (snd ft) (snd fv)) = Some (snd fv)) fs vs ->
  dec_fields fs m = Some vs.
Proof.
  intros ND. unfold dec_fields. induction 1 as [|ft fv fs vs (E & HI & HD) _ IH]; simpl; auto.
  unfold dec_field at 1. rewrite (entries_for_unique m _ _ ND HI). simpl.
  rewrite HD, IH. destruct fv as [k v]. simpl in *. subst. reflexivity.
Qed.

Lemma fields_Forall2 fs : Forall (fun ft => RT (snd ft)) fs ->
  forallb (fun ft => wf (snd ft)) fs = true ->
  forall vs m, type_fields fs vs = true ->
  forallb (fun fv => finite_floatsb (snd fv)) vs = true ->
  (forall e, In e (enc_fields fs vs) -> In e m) ->
  Forall2 (fun ft fv =>
             fst ft = fst fv /\
             In (fst ft, encode (snd ft) (snd fv)) m /\
             decode (snd ft) (encode (snd ft) (snd fv)) = Some (snd fv)) fs vs.
Proof.
  unfold type_fields, enc_fields.
  induction 1 as [|ft r Ht _ IH]; intros Hwf [|fv vs] m; simpl; try discriminate.
  - constructor.
  - intros HT HF Hincl. simpl in Hwf.
    apply andb_true_iff in Hwf as [W1 W2].
    apply andb_true_iff in HT as [T1 T2].
    apply andb_true_iff in T1 as [T0 T1].
    apply andb_true_iff in HF as [F1 F2].
    constructor.
    + split; [now apply String.eqb_eq|]. split.
      * apply Hincl. now left.
      * apply Ht; auto.
    + apply IH; auto.
Qed.

Lemma fields_roundtrip fs : Forall (fun ft => RT (snd ft)) fs ->
  nodupb (map fst fs) = true ->
  forallb (fun ft => wf (snd ft)) fs = true ->
  forall vs, type_fields fs vs = true ->
  forallb (fun fv => finite_floatsb (snd fv)) vs = true ->
  dec_fields fs (enc_fields fs vs) = Some vs.
Proof.
  intros HR ND W vs HT HF.
  apply dec_fields_ok.
  - unfold enc_fields. rewrite zipw_map_fst.
    + now apply nodupb_NoDup.
    + eapply all2_length. exact HT.
  - apply fields_Forall2; auto.
Qed.

Theorem roundtrip_mut : (forall d, RT d) /\ (forall s, RTs s).
Proof.
  apply tydesc_mutind'.
  - (* TFloat *)
    intros w _ [] HT HF; try discriminate. simpl in *.
    apply andb_true_iff in HT as [HT R]. apply andb_true_iff in HT as [E FW].
    apply Z.eqb_eq in E. subst width.
    rewrite HF. cbn [decode]. rewrite FW, R, HF. reflexivity.
  - (* TInt *)
    intros s b _ [] HT _; try discriminate. simpl in *. rewrite HT. reflexivity.
  - (* TBool *)
    intros _ [] HT _; try discriminate. reflexivity.
  - (* TUnitStruct *)
    intros n _ [] HT _; try discriminate. reflexivity.
  - (* TStruct *)
    intros n fs IH W [] HT HF; try discriminate.
    simpl in W. apply andb_true_iff in W as [ND W].
    change (decode (TStruct n fs) (encode (TStruct n fs) (VRecord fields))) with
      (match dec_fields fs (enc_fields fs fields) with
       | Some vs => Some (VRecord vs) | None => None end).
    rewrite (fields_roundtrip fs IH ND W fields HT HF). reflexivity.
  - (* TNewtype *)
    intros n t IH W v HT HF. exact (IH W v HT HF).
  - (* TTupleStruct *)
    intros n ts IH W [] HT HF; try discriminate.
    change (decode (TTupleStruct n ts) (encode (TTupleStruct n ts) (VTup vs))) with
      (match opt_zip decode ts (zipw encode ts vs) with
       | Some vs => Some (VTup vs) | None => None end).
    rewrite (tuple_roundtrip ts IH W vs HT HF). reflexivity.
  - (* TEnum *)
    intros n vars IH W [] HT HF; try discriminate.
    simpl in W. apply andb_true_iff in W as [_ W].
    rewrite has_type_enum in HT. rewrite encode_enum.
    destruct (find_variant name vars) as [sh|] eqn:EF; [|discriminate].
    pose proof (find_variant_Forall RTs _ _ _ IH EF) as Hsh.
    pose proof (find_variant_forallb _ _ _ _ W EF) as Wsh.
    simpl in HF.
    assert (HD : decode_shape sh (encode_shape sh payload) = Some payload)
      by (apply Hsh; auto).
    destruct sh.
    + rewrite decode_enum_str, EF. destruct payload; try discriminate. reflexivity.
    + rewrite decode_enum_map, EF, HD. reflexivity.
    + rewrite decode_enum_map, EF, HD. reflexivity.
    + rewrite decode_enum_map, EF, HD. reflexivity.
  - (* TSeq *)
    intros t IH W [] HT HF; try discriminate.
    change (decode (TSeq t) (encode (TSeq t) (VList vs))) with
      (match opt_map (decode t) (map (encode t) vs) with
       | Some vs => Some (VList vs) | None => None end).
    rewrite (seq_roundtrip t IH W vs HT HF). reflexivity.
  - (* VUnit *)
    intros _ [] HT _; try discriminate. reflexivity.
  - (* VNewtype *)
    intros t IH W p HT HF. exact (IH W p HT HF).
  - (* VTuple *)
    intros ts IH W [] HT HF; try discriminate.
    change (decode_shape (VTuple ts) (encode_shape (VTuple ts) (VTup vs))) with
      (match opt_zip decode ts (zipw encode ts vs) with
       | Some vs => Some (VTup vs) | None => None end).
    rewrite (tuple_roundtrip ts IH W vs HT HF). reflexivity.
  - (* VStruct *)
    intros fs IH W [] HT HF; try discriminate.
    simpl in W. apply andb_true_iff in W as [ND W].
    change (decode_shape (VStruct fs) (encode_shape (VStruct fs) (VRecord fields))) with
      (match dec_fields fs (enc_fields fs fields) with
       | Some vs => Some (VRecord vs) | None => None end).
    rewrite (fields_roundtrip fs IH ND W fields HT HF). reflexivity.
Qed.

Theorem roundtrip : forall d, wf d = true -> forall v, has_type d v -> finite_floats v ->
  decode d (encode d v) = Some v.
Proof. intros d W v HT HF. exact (proj1 roundtrip_mut d W v HT HF). Qed.

(* encode is injective on well-typed finite values *)
Corollary encode_injective : forall d, wf d = true -> forall v1 v2,
  has_type d v1 -> finite_floats v1 -> has_type d v2 -> finite_floats v2 ->
  encode d v1 = encode d v2 -> v1 = v2.
Proof.
  intros d W v1 v2 T1 F1 T2 F2 E.
  pose proof (roundtrip d W v1 T1 F1) as R1.
  pose proof (roundtrip d W v2 T2 F2) as R2.
  rewrite E in R1. rewrite R1 in R2. now inversion R2.
Qed.

(* non-finite floats are written as null and do NOT round-trip *)
Lemma nonfinite_not_roundtrip w p :
  has_type (TFloat w) (VFloat w p) -> finite_pattern w p = false ->
  encode (TFloat w) (VFloat w p) = DNull /\ decode (TFloat w) (encode (TFloat w) (VFloat w p)) = None.
Proof. intros _ H. simpl. rewrite H. split; reflexivity. Qed.

(* ------------------------------------------------------------------ *)
(* Decoded values are well typed (and contain only finite floats)       *)
(* ------------------------------------------------------------------ *)
Definition DT (d : tydesc) : Prop :=
  forall x v, decode d x = Some v -> has_typeb d v = true /\ finite_floatsb v = true.
Definition DTs (s : vshape) : Prop :=
  forall y p, decode_shape s y = Some p -> shape_typeb s p = true /\ finite_floatsb p = true.

Lemma tuple_decode_type ts : Forall DT ts ->
  forall xs vs, opt_zip decode ts xs = Some vs ->
  all2 has_typeb ts vs = true /\ forallb finite_floatsb vs = true.
Proof.
  induction 1 as [|t r Ht _ IH]; intros [|x xs] vs; simpl; try discriminate.
  - intros E. inversion E. auto.
  - destruct (decode t x) as [v|] eqn:E1; try discriminate.
    destruct (opt_zip decode r xs) as [vs'|] eqn:E2; try discriminate.
    intros E. inversion E; subst. simpl.
    destruct (Ht _ _ E1) as [A B]. destruct (IH _ _ E2) as [A' B'].
    rewrite A, B, A', B'. auto.
Qed.

Lemma seq_decode_type t : DT t ->
  forall xs vs, opt_map (decode t) xs = Some vs ->
  forallb (has_typeb t) vs = true /\ forallb finite_floatsb vs = true.
Proof.
  intros Ht. induction xs as [|x xs IH]; intros vs; simpl.
  - intros E. inversion E. auto.
  - destruct (decode t x) as [v|] eqn:E1; try discriminate.
    destruct (opt_map (decode t) xs) as [vs'|] eqn:E2; try discriminate.
    intros E. inversion E; subst. simpl.
    destruct (Ht _ _ E1) as [A B]. destruct (IH _ eq_refl) as [A' B'].
    rewrite A, B, A', B'. auto.
Qed.

Lemma fields_decode_type fs : Forall (fun ft => DT (snd ft)) fs ->
  forall m vs, dec_fields fs m = Some vs ->
  type_fields fs vs = true /\ forallb (fun fv => finite_floatsb (snd fv)) vs = true.
Proof.
  unfold dec_fields, type_fields.
  induction 1 as [|ft r Ht _ IH]; intros m vs; simpl.
  - intros E. inversion E. auto.
  - destruct (dec_field (decode (snd ft)) (fst ft) m) as [fv|] eqn:E1; try discriminate.
    destruct (opt_map (fun ft0 => dec_field (decode (snd ft0)) (fst ft0) m) r) as [vs'|] eqn:E2;
      try discriminate.
    intros E. inversion E; subst. simpl.
    destruct (IH _ _ E2) as [A' B']. rewrite A', B'.
    unfold dec_field in E1.
    destruct (entries_for (fst ft) m) as [|kv [|]]; try discriminate.
    destruct (decode (snd ft) (snd kv)) as [v|] eqn:E3; try discriminate.
    inversion E1; subst. simpl.
    destruct (Ht _ _ E3) as [A B]. rewrite A, B, String.eqb_refl. auto.
Qed.

Theorem decode_type_mut : (forall d, DT d) /\ (forall s, DTs s).
Proof.
  apply tydesc_mutind'.
  - (* TFloat *)
    intros w [] v; simpl; try discriminate.
    destruct (float_width w && pattern_in_range w pattern && finite_pattern w pattern) eqn:E;
      try discriminate.
    intros H. inversion H; subst. simpl.
    apply andb_true_iff in E as [E F]. apply andb_true_iff in E as [E1 E2].
    rewrite Z.eqb_refl, E1, E2, F. auto.
  - (* TInt *)
    intros s b [] v; simpl; try discriminate.
    destruct (int_in_range s b n) eqn:E; try discriminate.
    intros H. inversion H; subst. simpl. auto.
  - intros [] v; simpl; try discriminate. intros H. inversion H. auto.
  - intros n [] v; simpl; try discriminate. intros H. inversion H. auto.
  - (* TStruct *)
    intros n fs IH [] v; try discriminate.
    change (decode (TStruct n fs) (DMap entries)) with
      (match dec_fields fs entries with Some vs => Some (VRecord vs) | None => None end).
    destruct (dec_fields fs entries) as [vs|] eqn:E; try discriminate.
    intros H. inversion H; subst.
    exact (fields_decode_type fs IH _ _ E).
  - (* TNewtype *)
    intros n t IH x v H. exact (IH x v H).
  - (* TTupleStruct *)
    intros n ts IH [] v; try discriminate.
    change (decode (TTupleStruct n ts) (DArr items)) with
      (match opt_zip decode ts items with Some vs => Some (VTup vs) | None => None end).
    destruct (opt_zip decode ts items) as [vs|] eqn:E; try discriminate.
    intros H. inversion H; subst.
    exact (tuple_decode_type ts IH _ _ E).
  - (* TEnum *)
    intros n vars IH [] v; try discriminate.
    + rewrite decode_enum_str.
      destruct (find_variant s vars) as [[]|] eqn:EF; try discriminate.
      intros H. inversion H; subst. rewrite has_type_enum, EF. auto.
    + destruct entries as [|[s y] [|]]; try discriminate.
      rewrite decode_enum_map.
      destruct (find_variant s vars) as [sh|] eqn:EF; try discriminate.
      destruct (decode_shape sh y) as [p|] eqn:ED; try discriminate.
      intros H. inversion H; subst. rewrite has_type_enum, EF. simpl.
      exact (find_variant_Forall DTs _ _ _ IH EF _ _ ED).
  - (* TSeq *)
    intros t IH [] v; try discriminate.
    change (decode (TSeq t) (DArr items)) with
      (match opt_map (decode t) items with Some vs => Some (VList vs) | None => None end).
    destruct (opt_map (decode t) items) as [vs|] eqn:E; try discriminate.
    intros H. inversion H; subst.
    exact (seq_decode_type t IH _ _ E).
  - (* VUnit *)
    intros [] p; simpl; try discriminate. intros H. inversion H. auto.
  - (* VNewtype *)
    intros t IH y p H. exact (IH y p H).
  - (* VTuple *)
    intros ts IH [] p; try discriminate.
    change (decode_shape (VTuple ts) (DArr items)) with
      (match opt_zip decode ts items with Some vs => Some (VTup vs) | None => None end).
    destruct (opt_zip decode ts items) as [vs|] eqn:E; try discriminate.
    intros H. inversion H; subst.
    exact (tuple_decode_type ts IH _ _ E).
  - (* VStruct *)
    intros fs IH [] p; try discriminate.
    change (decode_shape (VStruct fs) (DMap entries)) with
      (match dec_fields fs entries with Some vs => Some (VRecord vs) | None => None end).
    destruct (dec_fields fs entries) as [vs|] eqn:E; try discriminate.
    intros H. inversion H; subst.
    exact (fields_decode_type fs IH _ _ E).
Qed.

Theorem decode_type : forall d x v, decode d x = Some v -> has_type d v.
Proof. intros d x v H. exact (proj1 (proj1 decode_type_mut d x v H)). Qed.

Theorem decode_finite : forall d x v, decode d x = Some v -> finite_floats v.
Proof. intros d x v H. exact (proj2 (proj1 decode_type_mut d x v H)). Qed.

(* On the image of decode, encode is the inverse as well: a decoded value
   re-encodes to a document that decodes to the same value. *)
Corollary decode_encode_decode : forall d, wf d = true -> forall x v,
  decode d x = Some v -> decode d (encode d v) = Some v.
Proof.
  intros d W x v H. apply roundtrip; auto.
  - eapply decode_type; eauto.
  - eapply decode_finite; eauto.
Qed.

(* ------------------------------------------------------------------ *)
(* Examples                                                             *)
(* ------------------------------------------------------------------ *)
Open Scope string_scope.

Definition ex_exp : tydesc := TStruct "Exp" [("lambda_inverse", TFloat 64)].

Definition ex_gamma : tydesc :=
  TStruct "Gamma"
    [("repr",
      TEnum "GammaRepr"
        [("Large", VNewtype (TStruct "GammaLargeShape"
                               [("scale", TFloat 64); ("c", TFloat 64); ("d", TFloat 64)]));
         ("One", VNewtype ex_exp);
         ("Small", VNewtype (TStruct "GammaSmallShape"
                               [("inv_shape", TFloat 64);
                                ("large_shape",
                                 TStruct "GammaLargeShape"
                                   [("scale", TFloat 64); ("c", TFloat 64); ("d", TFloat 64)])]))])].

(* 0x3FF0000000000000 = 1.0, 0x4000000000000000 = 2.0, 0x3FE0000000000000 = 0.5 *)
Definition f64_one : Z := 4607182418800017408.
Definition f64_two : Z := 4611686018427387904.
Definition f64_half : Z := 4602678819172646912.
Definition f64_inf : Z := 9218868437227405312.   (* 0x7FF0000000000000 *)
Definition f64_nan : Z := 9221120237041090560.   (* 0x7FF8000000000000 *)

Definition ex_gamma_small : value :=
  VRecord [("repr",
            VVariant "Small"
              (VRecord [("inv_shape", VFloat 64 f64_two);
                        ("large_shape",
                         VRecord [("scale", VFloat 64 f64_one);
                                  ("c", VFloat 64 f64_half);
                                  ("d", VFloat 64 f64_two)])]))].

Definition ex_gamma_one : value :=
  VRecord [("repr", VVariant "One" (VRecord [("lambda_inverse", VFloat 64 f64_half)]))].

Example ex_gamma_wf : wf ex_gamma = true.
Proof. vm_compute. reflexivity. Qed.

Example ex_gamma_typed : has_typeb ex_gamma ex_gamma_small = true /\ finite_floatsb ex_gamma_small = true.
Proof. vm_compute. auto. Qed.

Example ex_gamma_doc :
  encode ex_gamma ex_gamma_one =
  DMap [("repr", DMap [("One", DMap [("lambda_inverse", DFloat f64_half)])])].
Proof. vm_compute. reflexivity. Qed.

Example ex_gamma_roundtrip :
  decode ex_gamma (encode ex_gamma ex_gamma_small) = Some ex_gamma_small.
Proof. vm_compute. reflexivity. Qed.

(* ... and the same fact as an instance of the theorem *)
Example ex_gamma_roundtrip' :
  decode ex_gamma (encode ex_gamma ex_gamma_small) = Some ex_gamma_small.
Proof. apply roundtrip; vm_compute; reflexivity. Qed.

(* field order in the document is irrelevant, unknown keys are ignored *)
Example ex_field_order :
  decode (TStruct "GammaLargeShape" [("scale", TFloat 64); ("c", TFloat 64); ("d", TFloat 64)])
         (DMap [("d", DFloat f64_two); ("extra", DNull); ("scale", DFloat f64_one); ("c", DFloat f64_half)])
  = Some (VRecord [("scale", VFloat 64 f64_one); ("c", VFloat 64 f64_half); ("d", VFloat 64 f64_two)]).
Proof. vm_compute. reflexivity. Qed.

(* missing and duplicated fields are rejected *)
Example ex_missing_field :
  decode ex_exp (DMap []) = None.
Proof. vm_compute. reflexivity. Qed.

Example ex_duplicate_field :
  decode ex_exp (DMap [("lambda_inverse", DFloat f64_one); ("lambda_inverse", DFloat f64_one)]) = None.
Proof. vm_compute. reflexivity. Qed.

(* unknown variant rejected; unit variants are strings *)
Definition ex_method : tydesc :=
  TEnum "Method" [("Auto", VUnit);
                  ("Knuth", VNewtype (TFloat 64));
                  ("Pair", VTuple [TInt false 64; TBool]);
                  ("Rec", VStruct [("n", TInt true 32)])].

Example ex_unit_variant :
  encode ex_method (VVariant "Auto" VUnitv) = DStr "Auto" /\
  decode ex_method (DStr "Auto") = Some (VVariant "Auto" VUnitv) /\
  decode ex_method (DStr "Nope") = None /\
  decode ex_method (DMap [("Nope", DNull)]) = None.
Proof. vm_compute. auto. Qed.

Example ex_variants :
  encode ex_method (VVariant "Pair" (VTup [VIntv 7; VBoolv true]))
    = DMap [("Pair", DArr [DInt 7; DBool true])] /\
  encode ex_method (VVariant "Rec" (VRecord [("n", VIntv (-3))]))
    = DMap [("Rec", DMap [("n", DInt (-3))])] /\
  decode ex_method (DMap [("Rec", DMap [("n", DInt (-3))])])
    = Some (VVariant "Rec" (VRecord [("n", VIntv (-3))])) /\
  (* out of range for i32 *)
  decode ex_method (DMap [("Rec", DMap [("n", DInt 2147483648)])]) = None.
Proof. vm_compute. auto. Qed.

(* Poisson<F>(Method<F>) is transparent; WeightedIndex-like record with a Vec *)
Definition ex_poisson : tydesc := TNewtype "Poisson" ex_method.
Example ex_newtype :
  encode ex_poisson (VVariant "Knuth" (VFloat 64 f64_two)) = DMap [("Knuth", DFloat f64_two)].
Proof. vm_compute. reflexivity. Qed.

Definition ex_weighted : tydesc :=
  TStruct "WeightedIndex" [("cumulative_weights", TSeq (TInt false 32));
                           ("total_weight", TInt false 32)].
Definition ex_weighted_v : value :=
  VRecord [("cumulative_weights", VList (map (fun n => VIntv (Z.of_nat n)) (seq 1 100)));
           ("total_weight", VIntv 100)].
Example ex_weighted_roundtrip :
  has_typeb ex_weighted ex_weighted_v = true /\
  decode ex_weighted (encode ex_weighted ex_weighted_v) = Some ex_weighted_v.
Proof. vm_compute. auto. Qed.

(* NEGATIVE 1: wf is necessary.  Two fields with the same name: the value is
   well typed and finite, but the document has a duplicate key and is rejected. *)
Definition ex_dup : tydesc := TStruct "Dup" [("x", TFloat 64); ("x", TFloat 64)].
Definition ex_dup_v : value := VRecord [("x", VFloat 64 f64_one); ("x", VFloat 64 f64_two)].
Example ex_dup_not_wf : wf ex_dup = false.
Proof. vm_compute. reflexivity. Qed.
Example ex_dup_no_roundtrip :
  has_type ex_dup ex_dup_v /\ finite_floats ex_dup_v /\
  decode ex_dup (encode ex_dup ex_dup_v) = None.
Proof. vm_compute. auto. Qed.

(* NEGATIVE 2: finiteness is necessary.  Infinity / NaN are written as null
   and null is not accepted for a float. *)
Example ex_inf_no_roundtrip :
  has_type ex_exp (VRecord [("lambda_inverse", VFloat 64 f64_inf)]) /\
  encode ex_exp (VRecord [("lambda_inverse", VFloat 64 f64_inf)]) = DMap [("lambda_inverse", DNull)] /\
  decode ex_exp (encode ex_exp (VRecord [("lambda_inverse", VFloat 64 f64_inf)])) = None /\
  decode ex_exp (encode ex_exp (VRecord [("lambda_inverse", VFloat 64 f64_nan)])) = None.
Proof. vm_compute. auto. Qed.

(* NOTE (outside the universe): a field marked #[serde(skip)] is neither
   written nor read -- on decode it is filled by Default::default(), so a type
   with a skipped field round-trips only if that field always holds its default.
   [tydesc] has no constructor for skipped fields, so the generator must fail
   (not silently drop the field) when it meets #[serde(skip)],
   #[serde(skip_serializing)], #[serde(default)], #[serde(rename)],
   #[serde(flatten)], #[serde(untagged)] / #[serde(tag = ..)], or a hand-written
   impl: [roundtrip] says nothing about those. *)
