(* Proofs/GuardLemmas.v — infrastructure for C04: floats as extended reals, the [agrees] lemmas,
   and the case-analysis tactic [guard_auto].                                                   *)
From Coq Require Import ZArith List Bool String Reals Lra Lia.
From Flocq Require Import Core.Core IEEE754.Binary IEEE754.Bits IEEE754.BinarySingleNaN.
From RD Require Import Model.Guards Model.GuardSpec.
Import ListNotations.
Open Scope R_scope.

Section Fmt.
Variable prec emax : Z.
Context (Hp : Prec_gt_0 prec) (Hpe : Prec_lt_emax prec emax).
Notation float := (binary_float prec emax).

(* M = 2^emax bounds every finite float; +-inf are sent to +-M (GuardSpec.M, GuardSpec.ext). *)
Notation M := (M emax).
Notation ext := (ext prec emax).
Lemma M_gt_1 : 1 < M.
Proof.
  unfold GuardSpec.M. change 1 with (bpow radix2 0). apply bpow_lt.
  unfold Prec_gt_0, Prec_lt_emax in *. lia.
Qed.

Lemma finite_bound (x : float) : is_finite x = true -> - M < B2R x < M.
Proof.
  intros F. generalize (abs_B2R_lt_emax prec emax x). fold (GuardSpec.M emax).
  intros H. apply Rabs_lt_inv in H. exact H.
Qed.

Lemma Bcompare_ext (x y : float) :
  is_nan x = false -> is_nan y = false -> Bcompare x y = Some (Rcompare (ext x) (ext y)).
Proof.
  intros Nx Ny.
  destruct (is_finite x) eqn:Fx; destruct (is_finite y) eqn:Fy.
  - rewrite Bcompare_correct by assumption.
    destruct x as [|[|]| |]; destruct y as [|[|]| |]; try discriminate; reflexivity.
  - pose proof (finite_bound x Fx) as Bx.
    destruct y as [|[|]| |]; try discriminate;
    destruct x as [|[|]| |]; try discriminate; unfold Bcompare, GuardSpec.ext; simpl;
    f_equal; symmetry;
    first [ apply Rcompare_Lt; simpl in Bx; lra | apply Rcompare_Gt; simpl in Bx; lra ].
  - pose proof (finite_bound y Fy) as By.
    destruct x as [|[|]| |]; try discriminate;
    destruct y as [|[|]| |]; try discriminate; unfold Bcompare, GuardSpec.ext; simpl;
    f_equal; symmetry;
    first [ apply Rcompare_Lt; simpl in By; lra | apply Rcompare_Gt; simpl in By; lra ].
  - pose proof M_gt_1.
    destruct x as [|[|]| |]; try discriminate;
    destruct y as [|[|]| |]; try discriminate; unfold Bcompare, GuardSpec.ext; simpl; f_equal; symmetry;
    first [ apply Rcompare_Eq; lra | apply Rcompare_Lt; lra | apply Rcompare_Gt; lra ].
Qed.

Lemma Bcompare_nan_l (y : float) : Bcompare (B754_nan : float) y = None.
Proof. reflexivity. Qed.
Lemma Bcompare_nan_r (x : float) : Bcompare x (B754_nan : float) = None.
Proof. destruct x; reflexivity. Qed.

Lemma Bltb_cmp (x y : float) : Bltb x y = match Bcompare x y with Some Lt => true | _ => false end.
Proof. reflexivity. Qed.
Lemma Bleb_cmp (x y : float) : Bleb x y = match Bcompare x y with Some Lt | Some Eq => true | _ => false end.
Proof. reflexivity. Qed.
Lemma Beqb_cmp (x y : float) : Beqb x y = match Bcompare x y with Some Eq => true | _ => false end.
Proof. reflexivity. Qed.

(* classification of a float *)
Record finite_class (x : float) : Prop := {
  fc_fin : is_finite x = true;
  fc_nan : is_nan x = false;
  fc_ext : ext x = B2R x;
  fc_lo : - M < B2R x;
  fc_hi : B2R x < M;
  fc_pinf : v_pinf prec emax x = false;
  fc_ninf : v_ninf prec emax x = false;
  fc_isinf : f_is_infinite prec emax x = false }.

Lemma finite_class_of (x : float) : is_finite x = true -> finite_class x.
Proof.
  intros F. pose proof (finite_bound x F).
  destruct x as [|[|]| |]; try discriminate; constructor; try reflexivity; tauto.
Qed.

Lemma fclass (x : float) :
  x = B754_nan \/ x = B754_infinity false \/ x = B754_infinity true \/ finite_class x.
Proof.
  destruct (is_finite x) eqn:F.
  - right; right; right. now apply finite_class_of.
  - destruct x as [|[|]| |]; try discriminate; auto.
Qed.

Lemma is_finite_not_nan (x : float) : is_finite x = true -> is_nan x = false.
Proof. destruct x; simpl; congruence. Qed.

(* constants *)
Lemma one_fin : is_finite (one prec emax Hp Hpe) = true.
Proof. apply is_finite_Bone. Qed.
Lemma one_nan : is_nan (one prec emax Hp Hpe) = false.
Proof. apply is_nan_Bone. Qed.
Lemma one_B2R : B2R (one prec emax Hp Hpe) = 1.
Proof. apply Bone_correct. Qed.
Lemma one_class : finite_class (one prec emax Hp Hpe).
Proof. apply finite_class_of, one_fin. Qed.
Lemma zero_nan : is_nan (zero prec emax) = false.
Proof. reflexivity. Qed.
Lemma ext_zero : ext (zero prec emax) = 0.
Proof. reflexivity. Qed.
Lemma ext_one : ext (one prec emax Hp Hpe) = 1.
Proof. rewrite (fc_ext _ one_class). apply one_B2R. Qed.
Lemma ext_pinf : ext (B754_infinity false) = M.
Proof. reflexivity. Qed.
Lemma ext_ninf : ext (B754_infinity true) = - M.
Proof. reflexivity. Qed.
Lemma pinf_nan : is_nan (pinf prec emax) = false.
Proof. reflexivity. Qed.

End Fmt.


(* ---- agrees / spec_of ---------------------------------------------------------------------- *)
Lemma agrees_unspecified_ok : agrees GOk Unspecified.
Proof. exact I. Qed.

(* ---- tactic -------------------------------------------------------------------------------- *)
(* split a float variable into NaN / +inf / -inf / finite (kept abstract, with bounds) *)
Ltac fsplit x :=
  let H := fresh "C" x in
  destruct (fclass _ _ x) as [H|[H|[H|H]]]; [subst x | subst x | subst x | ].

Ltac nonnan :=
  first [ assumption | reflexivity | apply one_nan | apply fc_nan; assumption
        | apply is_finite_not_nan; assumption ].

(* rewrite every comparison into Rcompare on extended reals *)
Ltac to_R :=
  unfold fgt, fge, flt, fle, feq, fne, fcmp, v_lt, v_le, v_eq, le0_or_nan, not_finite_positive,
         v_inf, f_is_nan, f_is_finite, v_nan, v_fin;
  rewrite ?Bltb_cmp, ?Bleb_cmp, ?Beqb_cmp;
  rewrite ?Bcompare_nan_l, ?Bcompare_nan_r;
  repeat (rewrite (Bcompare_ext _ _ _ _) by nonnan);
  repeat match goal with
  | H : finite_class _ _ ?x |- _ =>
      rewrite ?(fc_fin _ _ _ H), ?(fc_nan _ _ _ H), ?(fc_ext _ _ _ H), ?(fc_pinf _ _ _ H),
              ?(fc_ninf _ _ _ H), ?(fc_isinf _ _ _ H);
      let lo := fresh "lo" in let hi := fresh "hi" in
      pose proof (fc_lo _ _ _ H) as lo; pose proof (fc_hi _ _ _ H) as hi; apply fc_fin in H
  end;
  rewrite ?ext_zero, ?ext_one, ?ext_pinf, ?ext_ninf, ?one_fin, ?one_nan.

Ltac rcases :=
  repeat match goal with
  | |- context [Rcompare ?a ?b] => destruct (Rcompare_spec a b); try (exfalso; lra)
  end.

Ltac finish := cbn; try exact I; try tauto; try (exfalso; lra); auto 12.

Ltac add_M :=
  match goal with
  | Hp : Prec_gt_0 ?p, Hpe : Prec_lt_emax ?p ?e |- _ => pose proof (M_gt_1 p e Hp Hpe)
  end.

Ltac guard_auto := to_R; add_M; rcases; finish.
