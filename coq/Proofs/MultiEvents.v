(* Proofs/MultiEvents.v — property C12 on the executable models of the four unit-geometry samplers (Model/Multi.v):
   the rejection stage is characterised completely.  An iteration that draws the candidate (x1, x2[, x3]) returns it
   (resp. its transform) exactly when the candidate passes the test of the code - x1^2+x2^2 <= 1 for the disc,
   < 1 and > 0 for the circle, < 1 for the sphere, x1^2+x2^2+x3^2 <= 1 for the ball - and otherwise behaves as the
   loop on the remaining words.  Hence the output is the first candidate of the stream inside the region: the
   conditional law of the uniform cube/square draw given the region (the uniformity of that conditional law is the
   classical fact not formalised: bridge B1-B4).                                                                  *)
From Coq Require Import Reals ZArith List Lra Lia Bool.
From Interval Require Import Xreal.
From RD Require Import Base.Expr Base.Run Model.Sampler Model.Continuous Model.Multi
  Proofs.LawsInvCdf Proofs.RunSound Proofs.MultiProofs.
Import ListNotations.
Open Scope Z_scope.
Open Scope sampler_scope.

Local Notation "a +. b" := (Bin Add a b) (at level 50, left associativity).
Local Notation "a -. b" := (Bin Sub a b) (at level 50, left associativity).
Local Notation "a *. b" := (Bin Mul a b) (at level 40, left associativity).
Local Notation "a /. b" := (Bin Div a b) (at level 40, left associativity).
Local Open Scope R_scope.

Definition sq2 (t : fty) (w1 w2 : Z) : R := u_pm1_R t w1 * u_pm1_R t w1 + u_pm1_R t w2 * u_pm1_R t w2.
Definition sq3 (t : fty) (w1 w2 w3 : Z) : R := sq2 t w1 w2 + u_pm1_R t w3 * u_pm1_R t w3.

Lemma sq3_eval t w1 w2 w3 :
  evalX (u_pm1 t w1 *. u_pm1 t w1 +. u_pm1 t w2 *. u_pm1 t w2 +. u_pm1 t w3 *. u_pm1 t w3) = Xreal (sq3 t w1 w2 w3).
Proof. cbn [evalX xbin]. rewrite !u_pm1_eval. reflexivity. Qed.
Lemma sq2_eval t w1 w2 : evalX (u_pm1 t w1 *. u_pm1 t w1 +. u_pm1 t w2 *. u_pm1 t w2) = Xreal (sq2 t w1 w2).
Proof. apply sq_sum_eval; apply u_pm1_eval. Qed.

Ltac step1 := cbn [sbind bind draw_pm1 next_word sret sask].

(* ---- UnitDisc ---- *)
Theorem unit_disc_accepts f t w1 w2 ws : sq2 t w1 w2 <= 1 ->
  evals (unit_disc_loop (S f) t (w1 :: w2 :: ws)) ([u_pm1 t w1; u_pm1 t w2], ws).
Proof.
  intros H. cbn [unit_disc_loop]. step1. eapply EvAsk; [apply sq2_eval|apply one_eval|].
  unfold rcmp. destruct (Rle_dec (sq2 t w1 w2) 1); [constructor|contradiction].
Qed.
Theorem unit_disc_rejects f t w1 w2 ws v : 1 < sq2 t w1 w2 ->
  (evals (unit_disc_loop (S f) t (w1 :: w2 :: ws)) v <-> evals (unit_disc_loop f t ws) v).
Proof.
  intros H. cbn [unit_disc_loop]. step1. split.
  - intros E. inversion E as [|c a b k x y v0 Ea Eb Ek|]; subst. rewrite sq2_eval in Ea. rewrite one_eval in Eb.
    injection Ea as <-. injection Eb as <-. unfold rcmp in Ek. destruct (Rle_dec (sq2 t w1 w2) 1); [lra|exact Ek].
  - intros E. eapply EvAsk; [apply sq2_eval|apply one_eval|]. unfold rcmp. destruct (Rle_dec (sq2 t w1 w2) 1); [lra|exact E].
Qed.

(* ---- UnitBall ---- *)
Theorem unit_ball_accepts f t w1 w2 w3 ws : sq3 t w1 w2 w3 <= 1 ->
  evals (unit_ball_loop (S f) t (w1 :: w2 :: w3 :: ws)) ([u_pm1 t w1; u_pm1 t w2; u_pm1 t w3], ws).
Proof.
  intros H. cbn [unit_ball_loop]. step1. eapply EvAsk; [apply sq3_eval|apply one_eval|].
  unfold rcmp. destruct (Rle_dec (sq3 t w1 w2 w3) 1); [constructor|contradiction].
Qed.
Theorem unit_ball_rejects f t w1 w2 w3 ws v : 1 < sq3 t w1 w2 w3 ->
  (evals (unit_ball_loop (S f) t (w1 :: w2 :: w3 :: ws)) v <-> evals (unit_ball_loop f t ws) v).
Proof.
  intros H. cbn [unit_ball_loop]. step1. split.
  - intros E. inversion E as [|c a b k x y v0 Ea Eb Ek|]; subst. rewrite sq3_eval in Ea. rewrite one_eval in Eb.
    injection Ea as <-. injection Eb as <-. unfold rcmp in Ek. destruct (Rle_dec (sq3 t w1 w2 w3) 1); [lra|exact Ek].
  - intros E. eapply EvAsk; [apply sq3_eval|apply one_eval|]. unfold rcmp. destruct (Rle_dec (sq3 t w1 w2 w3) 1); [lra|exact E].
Qed.

(* ---- UnitSphere (Marsaglia): candidates with x1^2 + x2^2 < 1 ---- *)
Theorem unit_sphere_accepts f t w1 w2 ws : sq2 t w1 w2 < 1 ->
  evals (unit_sphere_loop (S f) t (w1 :: w2 :: ws)) (sphere_out (u_pm1 t w1) (u_pm1 t w2), ws).
Proof.
  intros H. cbn [unit_sphere_loop]. step1. eapply EvAsk; [apply sq2_eval|apply one_eval|].
  unfold rcmp. destruct (Rle_dec 1 (sq2 t w1 w2)); [lra|constructor].
Qed.
Theorem unit_sphere_rejects f t w1 w2 ws v : 1 <= sq2 t w1 w2 ->
  (evals (unit_sphere_loop (S f) t (w1 :: w2 :: ws)) v <-> evals (unit_sphere_loop f t ws) v).
Proof.
  intros H. cbn [unit_sphere_loop]. step1. split.
  - intros E. inversion E as [|c a b k x y v0 Ea Eb Ek|]; subst. rewrite sq2_eval in Ea. rewrite one_eval in Eb.
    injection Ea as <-. injection Eb as <-. unfold rcmp in Ek. destruct (Rle_dec 1 (sq2 t w1 w2)); [exact Ek|lra].
  - intros E. eapply EvAsk; [apply sq2_eval|apply one_eval|]. unfold rcmp. destruct (Rle_dec 1 (sq2 t w1 w2)); [exact E|lra].
Qed.

(* ---- UnitCircle (von Neumann): candidates with 0 < x1^2 + x2^2 < 1 (the origin is rejected: repair F18) ---- *)
Theorem unit_circle_accepts f t w1 w2 ws : 0 < sq2 t w1 w2 < 1 ->
  evals (unit_circle_loop (S f) t (w1 :: w2 :: ws)) (circle_out (u_pm1 t w1) (u_pm1 t w2), ws).
Proof.
  intros H. cbn [unit_circle_loop]. step1. eapply EvAsk; [apply sq2_eval|apply one_eval|].
  unfold rcmp at 1. destruct (Rlt_dec (sq2 t w1 w2) 1); [|lra]. step1.
  eapply EvAsk; [apply sq2_eval|apply num_eval|]. unfold rcmp. destruct (Rlt_dec 0 (sq2 t w1 w2)); [constructor|lra].
Qed.
Theorem unit_circle_rejects f t w1 w2 ws v : (1 <= sq2 t w1 w2 \/ sq2 t w1 w2 <= 0) ->
  (evals (unit_circle_loop (S f) t (w1 :: w2 :: ws)) v <-> evals (unit_circle_loop f t ws) v).
Proof.
  intros H. cbn [unit_circle_loop]. step1. split.
  - intros E. inversion E as [|c a b k x y v0 Ea Eb Ek|]; subst. rewrite sq2_eval in Ea. rewrite one_eval in Eb.
    injection Ea as <-. injection Eb as <-. unfold rcmp in Ek at 1. destruct (Rlt_dec (sq2 t w1 w2) 1) as [L|L].
    + cbn [sbind bind sask sret] in Ek. inversion Ek as [|c' a' b' k' x' y' v1 Ea' Eb' Ek'|]; subst.
      rewrite sq2_eval in Ea'. rewrite num_eval in Eb'. injection Ea' as <-. injection Eb' as <-.
      unfold rcmp in Ek'. destruct (Rlt_dec 0 (sq2 t w1 w2)); [lra|exact Ek'].
    + cbn [sbind bind sret] in Ek. exact Ek.
  - intros E. eapply EvAsk; [apply sq2_eval|apply one_eval|]. unfold rcmp at 1. destruct (Rlt_dec (sq2 t w1 w2) 1) as [L|L].
    + step1. eapply EvAsk; [apply sq2_eval|apply num_eval|]. unfold rcmp. destruct (Rlt_dec 0 (sq2 t w1 w2)); [lra|exact E].
    + cbn [sbind bind sret]. exact E.
Qed.
