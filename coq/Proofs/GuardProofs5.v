(* Proofs/GuardProofs5.v — C04, part 5: LogNormal::from_mean_cv (libm `ln` as a parameter with an
   explicit contract; one refutation) and Hypergeometric::new (u64/i64 arithmetic with
   debug-build overflow checks; two refutations).                                               *)
From Coq Require Import ZArith List Bool String Reals Lra Lia.
From Flocq Require Import Core.Core IEEE754.Binary IEEE754.Bits IEEE754.BinarySingleNaN.
From RD Require Import Model.Guards Model.GuardSpec Proofs.GuardLemmas Proofs.GuardArith.
Import ListNotations.
Open Scope R_scope.

Section Fmt.
Variable prec emax : Z.
Context (Hp : Prec_gt_0 prec) (Hpe : Prec_lt_emax prec emax).
Notation float := (binary_float prec emax).
Notation one := (one prec emax Hp Hpe).
Notation zero := (zero prec emax).
Notation pinf := (pinf prec emax).
Notation fmul := (fmul prec emax Hp Hpe).
Notation fadd := (fadd prec emax Hp Hpe).
Notation fsqrt := (fsqrt prec emax Hp Hpe).
Notation fgt := (fgt prec emax).
Notation fge := (fge prec emax).
Notation feq := (feq prec emax).
Notation M := (M emax).
Notation ext := (ext prec emax).
Notation rnd := (rnd prec emax).
Notation clamp := (clamp emax).

Lemma nonnan_class (a : float) :
  is_nan a = false -> is_finite a = true \/ a = B754_infinity false \/ a = B754_infinity true.
Proof. destruct a as [|[|]| |]; try discriminate; auto. Qed.

Lemma rnd_ge1' (x : R) : 1 <= x -> 1 <= rnd x.
Proof. intros H. rewrite <- (rnd_1 prec emax Hp Hpe). now apply rnd_le. Qed.

(* ============================================================================================ *)
(* LogNormal::from_mean_cv *)
Section LogNormal.
Variable ln_f : float -> float.
(* CONTRACT on libm ln: on finite arguments >= 1 the result is finite and >= 0 (possibly -0);
   ln(+inf) = +inf. *)
Hypothesis ln_ge1 : forall a : float, is_finite a = true -> 1 <= B2R a ->
                    is_finite (ln_f a) = true /\ 0 <= B2R (ln_f a).
Hypothesis ln_inf : ln_f pinf = pinf.

Notation LN_a := (LN_a prec emax Hp Hpe).
Notation LN_known := (LN_known prec emax Hp Hpe).

Lemma LN_eq (mean cv : float) :
  LogNormal_from_mean_cv prec emax Hp Hpe ln_f mean cv =
  if feq cv zero then (if negb (fge mean zero) then GErr "MeanTooSmall" else GOk) else
  if negb (fgt mean zero) then GErr "MeanTooSmall" else
  if negb (fge cv zero) then GErr "BadVariance" else
  if is_finite (fsqrt (ln_f (LN_a cv))) then GOk else GErr "BadVariance".
Proof.
  unfold LogNormal_from_mean_cv, LogNormal_from_mean_cv_gen, Normal_new, unwrap, f_is_finite, GuardSpec.LN_a.
  simpl negb. simpl andb.
  destruct (feq cv zero). destruct (negb (fge mean zero)); reflexivity.
  destruct (negb (fgt mean zero)); trivial. destruct (negb (fge cv zero)); trivial.
  destruct (is_finite _); reflexivity.
Qed.

(* `Normal::new(mu, 0).unwrap()` cannot panic *)
Theorem LogNormal_from_mean_cv_no_panic (mean cv : float) :
  LogNormal_from_mean_cv prec emax Hp Hpe ln_f mean cv <> GPanic.
Proof.
  rewrite LN_eq.
  repeat match goal with |- (if ?c then _ else _) <> _ => destruct c; try discriminate end.
Qed.

Lemma sqrt_finite_nonneg (x : float) : is_finite x = true -> 0 <= B2R x -> is_finite (fsqrt x) = true.
Proof.
  intros F P. unfold Guards.fsqrt.
  destruct (Bsqrt_correct prec emax Hp Hpe mode_NE x) as (_ & Fs & _). rewrite Fs.
  destruct x as [|?| |[|] m e H]; try discriminate; try reflexivity.
  exfalso. simpl in P. assert (F2R (Float radix2 (Z.neg m) e) < 0) by (apply F2R_lt_0; simpl; lia). lra.
Qed.

Lemma LN_sigma_finite (cv : float) :
  is_finite cv = true -> LN_known cv = false -> is_finite (fsqrt (ln_f (LN_a cv))) = true.
Proof.
  intros F K. unfold GuardSpec.LN_known, v_fin in K. rewrite F in K. simpl in K.
  pose proof (M_gt_1 prec emax Hp Hpe) as HM.
  destruct (Bmult_ext prec emax Hp Hpe cv cv F F) as (Nc & Ec).
  assert (Pc : 0 <= ext (fmul cv cv)).
  { rewrite Ec. apply (clamp_ge0 prec emax Hp Hpe). apply rnd_ge0; trivial. nra. }
  assert (Fa : is_finite (LN_a cv) = true /\ 1 <= B2R (LN_a cv)).
  { unfold GuardSpec.LN_a in *. set (cc := fmul cv cv) in *.
    destruct (nonnan_class cc Nc) as [Fc|[Ec'|Ec']].
    - destruct (Bplus_ext prec emax Hp Hpe one cc (one_fin _ _ _ _) Fc) as (Na & Ea).
      rewrite (one_B2R prec emax Hp Hpe) in Ea. rewrite ext_finite in Pc by trivial.
      assert (1 <= clamp (rnd (1 + B2R cc))).
      { apply (clamp_ge1 prec emax Hp Hpe). apply rnd_ge1'. lra. }
      set (a := fadd one cc) in *.
      destruct (nonnan_class a Na) as [Fa|[Ea'|Ea']].
      + split; trivial. rewrite <- ext_finite, Ea by trivial. trivial.
      + exfalso. rewrite Ea' in K. discriminate K.
      + exfalso. rewrite Ea' in Ea. unfold GuardSpec.ext in Ea. lra.
    - exfalso. rewrite Ec' in K.
      destruct (one_struct prec emax Hp Hpe) as (m1 & e1 & H1 & E1). rewrite E1 in K. discriminate K.
    - exfalso. rewrite Ec' in Pc. unfold GuardSpec.ext in Pc. lra. }
  destruct Fa as (Fa & Pa). destruct (ln_ge1 _ Fa Pa) as (Fl & Pl).
  now apply sqrt_finite_nonneg.
Qed.

Lemma LN_sigma_inf : is_finite (fsqrt (ln_f (LN_a (B754_infinity false)))) = false.
Proof.
  unfold GuardSpec.LN_a. replace (fmul (B754_infinity false) (B754_infinity false)) with pinf by reflexivity.
  replace (fadd one pinf) with pinf.
  - rewrite ln_inf. reflexivity.
  - destruct (one_struct prec emax Hp Hpe) as (m1 & e1 & H1 & ->). reflexivity.
Qed.

(* Sound everywhere except on LN_known (see LogNormal_from_mean_cv_refuted64/32 below). *)
Theorem LogNormal_from_mean_cv_sound_except (mean cv : float) :
  LN_known cv = false ->
  agrees (LogNormal_from_mean_cv prec emax Hp Hpe ln_f mean cv)
         (spec_LogNormal_from_mean_cv prec emax mean cv).
Proof.
  intros K. rewrite LN_eq. unfold spec_LogNormal_from_mean_cv.
  fsplit cv.
  - destruct (is_finite _); fsplit mean; guard_auto.
  - rewrite LN_sigma_inf. fsplit mean; guard_auto.
  - destruct (is_finite _); fsplit mean; guard_auto.
  - rewrite LN_sigma_finite; trivial. fsplit mean; guard_auto. apply (fc_fin _ _ _ Ccv).
Qed.
End LogNormal.

End Fmt.

(* ---- the refutations (concrete witnesses) ---- *)
(* f64: mean = 1.0, cv = 1e200 (finite, >= 0): documented Ok, real code returns Err(BadVariance)
   because cv*cv overflows, so sigma = sqrt(ln(inf)) = inf is rejected by Normal::new.          *)
Definition cv_1e200 : f64 := dec64 7598807758576447066.      (* 0x6974e718d7d7625a = 1e200 *)
Definition cv_1e20_32 : f32 := dec32 1621981420.              (* 0x60ad78ec = 1e20f32 *)

Theorem LogNormal_from_mean_cv_refuted64 :
  forall ln_f : f64 -> f64, ln_f (pinf 53 1024) = pinf 53 1024 ->
  exists mean cv : f64,
    ~ agrees (LogNormal_from_mean_cv 53 1024 Hp64 Hpe64 ln_f mean cv)
             (spec_LogNormal_from_mean_cv 53 1024 mean cv).
Proof.
  intros ln_f Hinf. exists (one 53 1024 Hp64 Hpe64), cv_1e200.
  rewrite LN_eq.
  replace (feq 53 1024 cv_1e200 (zero 53 1024)) with false by (vm_compute; reflexivity).
  replace (fgt 53 1024 (one 53 1024 Hp64 Hpe64) (zero 53 1024)) with true by (vm_compute; reflexivity).
  replace (fge 53 1024 cv_1e200 (zero 53 1024)) with true by (vm_compute; reflexivity).
  replace (LN_a 53 1024 Hp64 Hpe64 cv_1e200) with (pinf 53 1024) by (vm_compute; reflexivity).
  rewrite Hinf.
  replace (spec_LogNormal_from_mean_cv 53 1024 (one 53 1024 Hp64 Hpe64) cv_1e200) with MustOk
    by (vm_compute; reflexivity).
  simpl. tauto.
Qed.

Theorem LogNormal_from_mean_cv_refuted32 :
  forall ln_f : f32 -> f32, ln_f (pinf 24 128) = pinf 24 128 ->
  exists mean cv : f32,
    ~ agrees (LogNormal_from_mean_cv 24 128 Hp32 Hpe32 ln_f mean cv)
             (spec_LogNormal_from_mean_cv 24 128 mean cv).
Proof.
  intros ln_f Hinf. exists (one 24 128 Hp32 Hpe32), cv_1e20_32.
  rewrite LN_eq.
  replace (feq 24 128 cv_1e20_32 (zero 24 128)) with false by (vm_compute; reflexivity).
  replace (fgt 24 128 (one 24 128 Hp32 Hpe32) (zero 24 128)) with true by (vm_compute; reflexivity).
  replace (fge 24 128 cv_1e20_32 (zero 24 128)) with true by (vm_compute; reflexivity).
  replace (LN_a 24 128 Hp32 Hpe32 cv_1e20_32) with (pinf 24 128) by (vm_compute; reflexivity).
  rewrite Hinf.
  replace (spec_LogNormal_from_mean_cv 24 128 (one 24 128 Hp32 Hpe32) cv_1e20_32) with MustOk
    by (vm_compute; reflexivity).
  simpl. tauto.
Qed.

(* the UNFIXED code (no mean test in the `cv == 0` branch; finding F1) accepted mean = -1, cv = 0 *)
Theorem LogNormal_from_mean_cv_unfixed_refuted64 :
  forall ln_f : f64 -> f64,
  exists mean cv : f64,
    ~ agrees (LogNormal_from_mean_cv_gen 53 1024 Hp64 Hpe64 true ln_f mean cv)
             (spec_LogNormal_from_mean_cv 53 1024 mean cv).
Proof.
  intros ln_f. exists (dec64 13830554455654793216), (zero 53 1024).    (* -1.0, 0.0 *)
  unfold LogNormal_from_mean_cv_gen.
  replace (feq 53 1024 (zero 53 1024) (zero 53 1024)) with true by (vm_compute; reflexivity).
  replace (spec_LogNormal_from_mean_cv 53 1024 (dec64 13830554455654793216) (zero 53 1024))
    with (MustErr ["MeanTooSmall"%string]) by (vm_compute; reflexivity).
  simpl. tauto.
Qed.

(* ============================================================================================ *)
(* Hypergeometric::new *)
Open Scope Z_scope.
Section HyperFmt.
Variable prec emax : Z.
Context (Hp : Prec_gt_0 prec) (Hpe : Prec_lt_emax prec emax).

Lemma agrees_unspec (r : gres) : r <> GPanic -> agrees r Unspecified.
Proof. destruct r; simpl; auto. Qed.

Lemma fpf_no_panic (debug : bool) (cap a b c d : Z) :
  (Z.min (Z.min a b) (Z.min c d) = u64_max -> debug = false) ->
  fraction_of_products_of_factorials prec emax Hp Hpe debug cap (a, b) (c, d) <> Some None.
Proof.
  intros H. unfold fraction_of_products_of_factorials. simpl fst; simpl snd.
  destruct (Z.eqb_spec (Z.min (Z.min a b) (Z.min c d)) u64_max) as [E|E]; simpl.
  - rewrite (H E). simpl. destruct (_ >? cap); discriminate.
  - destruct (_ >? cap); discriminate.
Qed.

Ltac zb :=
  repeat match goal with
  | H : (_ >? _) = true |- _ => apply Z.gtb_lt in H
  | H : (_ >? _) = false |- _ => rewrite Z.gtb_ltb in H; apply Z.ltb_ge in H
  | H : (_ <? _) = true |- _ => apply Z.ltb_lt in H
  | H : (_ <? _) = false |- _ => apply Z.ltb_ge in H
  | H : (_ <=? _) = true |- _ => apply Z.leb_le in H
  | H : (_ <=? _) = false |- _ => apply Z.leb_gt in H
  | H : (_ =? _) = true |- _ => apply Z.eqb_eq in H
  | H : (_ =? _) = false |- _ => apply Z.eqb_neq in H
  end.

Ltac fpf_case :=
  match goal with |- context [fraction_of_products_of_factorials ?p ?e ?a ?b ?d ?c ?x ?y] =>
    let F := fresh "F" in
    pose proof (fpf_no_panic d c (fst x) (snd x) (fst y) (snd y)) as F; simpl fst in F; simpl snd in F;
    destruct (fraction_of_products_of_factorials p e a b d c x y) as [[?|]|];
    [ match goal with |- context [if ?c then Some (GErr _) else _] => destruct c end; simpl; auto
    | exfalso; apply F; trivial; intros Emin; unfold u64_max in Emin
    | trivial ]
  end.

Theorem Hypergeometric_new_sound_except (debug : bool) (cap N K n : Z) :
  is_u64 N -> is_u64 K -> is_u64 n ->
  (debug = true -> hyper_known N K n = false) ->
  match Hypergeometric_new_gen prec emax Hp Hpe debug cap N K n with
  | None => True          (* model evaluation refused: more than cap loop iterations *)
  | Some r => agrees r (spec_Hypergeometric_new N K n)
  end.
Proof.
  unfold is_u64, u64_max. intros HN HK Hn Hk.
  unfold Hypergeometric_new_gen, spec_Hypergeometric_new.
  destruct (K >? N) eqn:E1. { destruct (n >? N); simpl; auto. }
  destruct (n >? N) eqn:E2. { simpl; auto. }
  assert (Hk1 : debug = true -> hyper_known1 N K n = false).
  { intros D. specialize (Hk D). unfold hyper_known in Hk. now apply orb_false_elim in Hk. }
  assert (Hk2 : debug = true -> hyper_known2 N K n = false).
  { intros D. specialize (Hk D). unfold hyper_known in Hk. now apply orb_false_elim in Hk. }
  clear Hk. unfold hyper_known1 in Hk1. unfold hyper_known2, u64_max in Hk2.
  zb.
  assert (Hhalf : 2 * (N / 2) <= N < 2 * (N / 2) + 2)
    by (pose proof (Z.div_mod N 2); pose proof (Z.mod_pos_bound N 2); lia).
  set (h := N / 2) in *.
  (* the float test selecting HIN / H2PE is left abstract: both branches are covered *)
  destruct (K >? N - K) eqn:E3; cbv beta iota zeta.
  - (* swapped: n1 = N-K, n2 = K, sign_x = -1, offset_x = n as i64 *)
    destruct (n <=? h) eqn:E4.
    + destruct (flt _ _ _ _); [|simpl; auto].
      destruct (n <? K) eqn:E5; fpf_case; zb.
      * destruct debug; trivial. exfalso. specialize (Hk2 eq_refl).
        assert (N = 18446744073709551615 /\ n = 0 /\ K = N) by lia.
        destruct H as (-> & -> & ->). discriminate Hk2.
      * lia.
    + unfold as_i64, in_i64, wrap_i64.
      assert (Hn1 : (N - K <? 9223372036854775808) = true) by (apply Z.ltb_lt; zb; lia).
      rewrite Hn1.
      match goal with |- context [if ?c then Some (N - n, ?o) else _] => destruct c eqn:E6 end.
      * destruct (flt _ _ _ _); [|simpl; auto].
        destruct (N - n <? K) eqn:E5; fpf_case; zb.
        -- destruct debug; trivial. exfalso. specialize (Hk2 eq_refl).
           assert (N = 18446744073709551615 /\ n = N /\ K = N) by lia.
           destruct H as (-> & -> & ->). discriminate Hk2.
        -- lia.
      * destruct debug.
        -- exfalso. specialize (Hk1 eq_refl).
           assert (X : (K <=? N) && (n <=? N) && (K >? N - K) && (n >? h) && (9223372036854775808 <=? n)
                      && (n - (N - K) <? 9223372036854775808) = true); [|congruence].
           apply andb_false_iff in E6.
           destruct (n <? 9223372036854775808) eqn:E7; zb.
           ++ exfalso. destruct E6 as [E6|E6]; zb; lia.
           ++ repeat (apply andb_true_intro; split); try (apply Z.leb_le; lia);
              try (apply Z.gtb_lt; lia).
              apply Z.ltb_lt. destruct E6 as [E6|E6]; zb; lia.
        -- destruct (flt _ _ _ _); [|simpl; auto].
           destruct (N - n <? K); fpf_case; reflexivity.
  - (* not swapped: n1 = K, n2 = N-K, sign_x = 1, offset_x = 0 *)
    destruct (n <=? h) eqn:E4.
    + destruct (flt _ _ _ _); [|simpl; auto].
      destruct (n <? N - K) eqn:E5; fpf_case; zb.
      * destruct debug; trivial. exfalso. specialize (Hk2 eq_refl).
        assert (N = 18446744073709551615 /\ n = 0 /\ K = 0) by lia.
        destruct H as (-> & -> & ->). discriminate Hk2.
      * lia.
    + unfold as_i64, in_i64, wrap_i64.
      assert (Hn1 : (K <? 9223372036854775808) = true) by (apply Z.ltb_lt; zb; lia).
      rewrite Hn1.
      assert (E6 : (-9223372036854775808 <=? 0 + K * 1) && (0 + K * 1 <=? 9223372036854775807) = true).
      { apply andb_true_intro; split; apply Z.leb_le; zb; lia. }
      rewrite E6.
      destruct (flt _ _ _ _); [|simpl; auto].
      destruct (N - n <? N - K) eqn:E5; fpf_case; zb.
      * destruct debug; trivial. exfalso. specialize (Hk2 eq_refl).
        assert (N = 18446744073709551615 /\ n = N /\ K = 0) by lia.
        destruct H as (-> & -> & ->). discriminate Hk2.
      * lia.
Qed.
End HyperFmt.
