(* Proofs/UnitNormFl.v — property C12 at the IEEE level (Flocq, any binary format with prec + 3 <= emax; round to nearest
   even): the acceptance tests of UnitDisc and UnitBall (unit_disc.rs:47-52, unit_ball.rs:48-55) are computed in floats,
       x1*x1 + x2*x2 [+ x3*x3] <= 1,
   so an accepted candidate satisfies the float inequality; its REAL squared norm exceeds 1 by at most 4 u (disc) resp.
   6 u (ball), u = 2^-prec (2^-53 in binary64): the returned point has norm <= 1 + 3u.  No libm call is involved.        *)
From Coq Require Import ZArith Bool Reals Lra Lia.
From Flocq Require Import Core.Core IEEE754.BinarySingleNaN.
From RD Require Import Proofs.AffineFl.
Open Scope R_scope.

Section Fmt.
Variable prec emax : Z.
Context (Hp : Prec_gt_0 prec) (Hpe : Prec_lt_emax prec emax).
Hypothesis Hpe2 : (prec + 3 <= emax)%Z.
Hypothesis Hp3 : (3 <= prec)%Z.
Notation float := (binary_float prec emax).
Notation rnd := (rnd prec emax).
Notation u := (u prec).
Notation eta := (eta prec emax).

Lemma u_small : 0 < u <= 1 / 8.
Proof.
  split; [apply u_pos|]. unfold AffineFl.u.
  assert (bpow radix2 (-3) = 1 / 8) as <-.
  { unfold bpow. change (Z.pow_pos radix2 3) with 8%Z. lra. }
  apply bpow_le. lia.
Qed.
Lemma eta_small : 0 < eta <= u * u.
Proof.
  split; [apply eta_pos|]. unfold AffineFl.eta, AffineFl.u, aemin. rewrite <- bpow_plus.
  apply Rle_trans with (bpow radix2 (3 - emax - prec)); [pose proof (bpow_gt_0 radix2 (3 - emax - prec)); lra|].
  apply bpow_le. lia.
Qed.

(* lower bound of a rounded value *)
Lemma rnd_lower x : 0 <= x -> x * (1 - u) - eta <= rnd x.
Proof.
  intros Hx. pose proof (rnd_error prec emax Hp x) as E. rewrite (Rabs_pos_eq x Hx) in E.
  apply Rabs_le_inv in E. lra.
Qed.

(* the real quantities behind the float tests *)
Definition disc_sum (x1 x2 : R) : R := rnd (rnd (x1 * x1) + rnd (x2 * x2)).
Definition ball_sum (x1 x2 x3 : R) : R := rnd (disc_sum x1 x2 + rnd (x3 * x3)).

Lemma rnd_nonneg x : 0 <= x -> 0 <= rnd x.
Proof.
  intros Hx. unfold AffineFl.rnd. rewrite <- (round_0 radix2 (afexp prec emax) ZnearestE).
  apply round_le; try typeclasses eauto; exact Hx.
Qed.

Theorem disc_real_norm x1 x2 : disc_sum x1 x2 <= 1 -> x1 * x1 + x2 * x2 <= 1 + 4 * u.
Proof.
  unfold disc_sum. intros H. pose proof u_small as [U0 U1]. pose proof eta_small as [E0 E1].
  assert (0 <= x1 * x1) as S1 by nra. assert (0 <= x2 * x2) as S2 by nra.
  pose proof (rnd_lower _ S1) as L1. pose proof (rnd_lower _ S2) as L2.
  pose proof (rnd_nonneg _ S1) as N1. pose proof (rnd_nonneg _ S2) as N2.
  pose proof (rnd_lower (rnd (x1 * x1) + rnd (x2 * x2)) ltac:(lra)) as L3.
  set (p1 := rnd (x1 * x1)) in * . set (p2 := rnd (x2 * x2)) in * . set (q := x1 * x1 + x2 * x2) in * .
  (* (p1 + p2)(1-u) <= 1 + eta ; q (1-u) <= p1 + p2 + 2 eta *)
  assert ((p1 + p2) * (1 - u) <= 1 + eta) as A by lra.
  assert (q * (1 - u) <= p1 + p2 + 2 * eta) as B by (unfold q; lra).
  assert (q * (1 - u) * (1 - u) <= 1 + eta + 2 * eta * (1 - u)) as C by nra.
  assert (q * (1 - u) * (1 - u) <= 1 + 3 * u * u) as D by nra.
  (* (1 + 4u)(1-u)^2 >= 1 + 3 u^2 for u <= 1/8 *)
  assert (1 + 3 * u * u <= (1 + 4 * u) * (1 - u) * (1 - u)) as F by nra.
  assert (0 < (1 - u) * (1 - u)) as G by nra.
  apply Rmult_le_reg_r with ((1 - u) * (1 - u)); [exact G|]. nra.
Qed.

Theorem ball_real_norm x1 x2 x3 : ball_sum x1 x2 x3 <= 1 -> x1 * x1 + x2 * x2 + x3 * x3 <= 1 + 6 * u.
Proof.
  unfold ball_sum, disc_sum. intros H. pose proof u_small as [U0 U1]. pose proof eta_small as [E0 E1].
  assert (0 <= x1 * x1) as S1 by nra. assert (0 <= x2 * x2) as S2 by nra. assert (0 <= x3 * x3) as S3 by nra.
  pose proof (rnd_lower _ S1) as L1. pose proof (rnd_lower _ S2) as L2. pose proof (rnd_lower _ S3) as L3.
  pose proof (rnd_nonneg _ S1) as N1. pose proof (rnd_nonneg _ S2) as N2. pose proof (rnd_nonneg _ S3) as N3.
  pose proof (rnd_lower (rnd (x1 * x1) + rnd (x2 * x2)) ltac:(lra)) as L4.
  pose proof (rnd_nonneg (rnd (x1 * x1) + rnd (x2 * x2)) ltac:(lra)) as N4.
  pose proof (rnd_lower (rnd (rnd (x1 * x1) + rnd (x2 * x2)) + rnd (x3 * x3)) ltac:(lra)) as L5.
  set (p1 := rnd (x1 * x1)) in * . set (p2 := rnd (x2 * x2)) in * . set (p3 := rnd (x3 * x3)) in * .
  set (s := rnd (p1 + p2)) in * . set (q := x1 * x1 + x2 * x2 + x3 * x3).
  assert ((s + p3) * (1 - u) <= 1 + eta) as A by lra.
  assert ((p1 + p2) * (1 - u) <= s + eta) as B by lra.
  assert (q * (1 - u) <= p1 + p2 + p3 + 3 * eta) as C by (unfold q; lra).
  (* q (1-u)^3 <= (p1+p2)(1-u)^2 + p3 (1-u)^2 + 3 eta <= (s + eta)(1-u) + p3 (1-u) + 3 eta <= 1 + eta + eta + 3 eta *)
  assert (0 < 1 - u) as G1 by lra.
  assert (q * (1 - u) * (1 - u) * (1 - u) <= 1 + 5 * eta) as D.
  { assert ((p1 + p2) * (1 - u) * (1 - u) <= (s + eta) * (1 - u)) as D1 by (apply Rmult_le_compat_r; lra).
    assert (p3 * (1 - u) * (1 - u) <= p3 * (1 - u)) as D2.
    { assert (0 <= p3 * (1 - u)) as D0 by (apply Rmult_le_pos; lra).
      pose proof (Rmult_le_compat_l _ (1 - u) 1 D0 ltac:(lra)) as D2. lra. }
    assert (q * (1 - u) * (1 - u) * (1 - u) <= (p1 + p2 + p3 + 3 * eta) * (1 - u) * (1 - u)) as D3
      by (repeat apply Rmult_le_compat_r; lra).
    assert (eta * (1 - u) <= eta) as D4.
    { pose proof (Rmult_le_compat_l eta (1 - u) 1 ltac:(lra) ltac:(lra)) as D4. lra. }
    assert (eta * (1 - u) * (1 - u) <= eta) as D5.
    { assert (0 <= eta * (1 - u)) as D0 by (apply Rmult_le_pos; lra).
      pose proof (Rmult_le_compat_l _ (1 - u) 1 D0 ltac:(lra)) as D5. lra. }
    lra. }
  assert (u * u <= u / 8) as M2.
  { pose proof (Rmult_le_compat_l u u (1 / 8) ltac:(lra) U1) as M2. lra. }
  assert (0 <= u * u * u) as M3 by (repeat apply Rmult_le_pos; lra).
  assert (u * u * u * u <= u * u * u / 8) as M4.
  { pose proof (Rmult_le_compat_l (u * u * u) u (1 / 8) M3 U1) as M4. lra. }
  assert (1 + 5 * (u * u) <= (1 + 6 * u) * ((1 - u) * (1 - u) * (1 - u))) as F by lra.
  assert (0 < (1 - u) * (1 - u) * (1 - u)) as G by (repeat apply Rmult_lt_0_compat; lra).
  apply Rmult_le_reg_r with ((1 - u) * (1 - u) * (1 - u)); [exact G|]. fold q. lra.
Qed.

(* ---- the float programs ---- *)
Lemma rnd_upper x : 0 <= x -> rnd x <= x * (1 + u) + eta.
Proof.
  intros Hx. pose proof (rnd_error prec emax Hp x) as E. rewrite (Rabs_pos_eq x Hx) in E.
  apply Rabs_le_inv in E. lra.
Qed.
Lemma four_le_emax : 4 <= bpow radix2 emax.
Proof.
  assert (bpow radix2 2 = 4) as <- by (unfold bpow; change (Z.pow_pos radix2 2) with 4%Z; lra).
  apply bpow_le. lia.
Qed.
Lemma sq_unit (x : R) : Rabs x <= 1 -> 0 <= x * x <= 1.
Proof. intros H. apply Rabs_le_inv in H. split; nra. Qed.
Lemma rnd_sq_unit x : Rabs x <= 1 -> 0 <= rnd (x * x) <= 1 + 1 / 8 + 1 / 64.
Proof.
  intros H. apply sq_unit in H. pose proof u_small as [U0 U1]. pose proof eta_small as [E0 E1].
  split; [apply rnd_nonneg; lra|]. pose proof (rnd_upper _ (proj1 H)) as R. nra.
Qed.

Definition sq_fl (x : float) : float := Bmult mode_NE x x.
Definition disc_sum_fl (x1 x2 : float) : float := Bplus mode_NE (sq_fl x1) (sq_fl x2).
Definition ball_sum_fl (x1 x2 x3 : float) : float := Bplus mode_NE (disc_sum_fl x1 x2) (sq_fl x3).
Definition disc_accept_fl (x1 x2 : float) : bool := Bleb (disc_sum_fl x1 x2) Bone.
Definition ball_accept_fl (x1 x2 x3 : float) : bool := Bleb (ball_sum_fl x1 x2 x3) Bone.

Lemma sq_fl_value (x : float) : is_finite x = true -> Rabs (B2R x) <= 1 ->
  B2R (sq_fl x) = rnd (B2R x * B2R x) /\ is_finite (sq_fl x) = true.
Proof.
  intros Fx Hx. unfold sq_fl. pose proof (rnd_sq_unit _ Hx) as [R0 R1]. pose proof four_le_emax as E4.
  generalize (Bmult_correct prec emax Hp Hpe mode_NE x x).
  rewrite Rlt_bool_true by (change (round radix2 (SpecFloat.fexp prec emax) (round_mode mode_NE) (B2R x * B2R x)) with (rnd (B2R x * B2R x)); rewrite Rabs_pos_eq; lra).
  intros (E & F & _). rewrite Fx in F. split; [exact E|exact F].
Qed.

Lemma disc_sum_fl_value (x1 x2 : float) : is_finite x1 = true -> is_finite x2 = true -> Rabs (B2R x1) <= 1 -> Rabs (B2R x2) <= 1 ->
  B2R (disc_sum_fl x1 x2) = disc_sum (B2R x1) (B2R x2) /\ is_finite (disc_sum_fl x1 x2) = true /\
  0 <= disc_sum (B2R x1) (B2R x2) <= 3.
Proof.
  intros F1 F2 H1 H2. unfold disc_sum_fl, disc_sum.
  destruct (sq_fl_value x1 F1 H1) as [V1 G1]. destruct (sq_fl_value x2 F2 H2) as [V2 G2].
  pose proof (rnd_sq_unit _ H1) as [A0 A1]. pose proof (rnd_sq_unit _ H2) as [B0 B1].
  pose proof u_small as [U0 U1]. pose proof eta_small as [E0 E1]. pose proof four_le_emax as E4.
  assert (0 <= rnd (rnd (B2R x1 * B2R x1) + rnd (B2R x2 * B2R x2)) <= 3) as S.
  { split; [apply rnd_nonneg; lra|]. pose proof (rnd_upper (rnd (B2R x1 * B2R x1) + rnd (B2R x2 * B2R x2)) ltac:(lra)) as R. nra. }
  generalize (Bplus_correct prec emax Hp Hpe mode_NE (sq_fl x1) (sq_fl x2) G1 G2). rewrite V1, V2.
  rewrite Rlt_bool_true by (change (round radix2 (SpecFloat.fexp prec emax) (round_mode mode_NE) ?x) with (rnd x); rewrite Rabs_pos_eq; lra).
  intros (E & F & _). split; [exact E|]. split; [exact F|exact S].
Qed.

Lemma ball_sum_fl_value (x1 x2 x3 : float) : is_finite x1 = true -> is_finite x2 = true -> is_finite x3 = true ->
  Rabs (B2R x1) <= 1 -> Rabs (B2R x2) <= 1 -> Rabs (B2R x3) <= 1 ->
  B2R (ball_sum_fl x1 x2 x3) = ball_sum (B2R x1) (B2R x2) (B2R x3) /\ is_finite (ball_sum_fl x1 x2 x3) = true.
Proof.
  intros F1 F2 F3 H1 H2 H3. unfold ball_sum_fl, ball_sum.
  destruct (disc_sum_fl_value x1 x2 F1 F2 H1 H2) as (V12 & G12 & S0 & S1).
  destruct (sq_fl_value x3 F3 H3) as [V3 G3]. pose proof (rnd_sq_unit _ H3) as [B0 B1].
  pose proof u_small as [U0 U1]. pose proof eta_small as [E0 E1]. pose proof four_le_emax as E4.
  assert (bpow radix2 3 <= bpow radix2 emax) as E8 by (apply bpow_le; lia).
  assert (bpow radix2 3 = 8) as E8' by (unfold bpow; change (Z.pow_pos radix2 3) with 8%Z; lra).
  assert (0 <= rnd (disc_sum (B2R x1) (B2R x2) + rnd (B2R x3 * B2R x3)) <= 6) as S.
  { split; [apply rnd_nonneg; lra|]. pose proof (rnd_upper (disc_sum (B2R x1) (B2R x2) + rnd (B2R x3 * B2R x3)) ltac:(lra)) as R. nra. }
  generalize (Bplus_correct prec emax Hp Hpe mode_NE (disc_sum_fl x1 x2) (sq_fl x3) G12 G3). rewrite V12, V3.
  rewrite Rlt_bool_true by (change (round radix2 (SpecFloat.fexp prec emax) (round_mode mode_NE) ?x) with (rnd x); rewrite Rabs_pos_eq; lra).
  intros (E & F & _). split; [exact E|exact F].
Qed.

(* An accepted UnitDisc candidate: finite coordinates in [-1, 1] (what Uniform::new(-1, 1) returns), float test true. *)
Theorem disc_accept_fl_norm (x1 x2 : float) :
  is_finite x1 = true -> is_finite x2 = true -> Rabs (B2R x1) <= 1 -> Rabs (B2R x2) <= 1 ->
  disc_accept_fl x1 x2 = true ->
  B2R x1 * B2R x1 + B2R x2 * B2R x2 <= 1 + 4 * u.
Proof.
  intros F1 F2 H1 H2 A. destruct (disc_sum_fl_value x1 x2 F1 F2 H1 H2) as (V & G & _).
  unfold disc_accept_fl in A. rewrite (Bleb_correct prec emax _ _ G (is_finite_Bone prec emax Hp Hpe)) in A.
  rewrite V, (Bone_correct prec emax Hp Hpe) in A. apply disc_real_norm.
  destruct (Rle_bool_spec (disc_sum (B2R x1) (B2R x2)) 1) as [L|L]; [exact L|discriminate].
Qed.

Theorem ball_accept_fl_norm (x1 x2 x3 : float) :
  is_finite x1 = true -> is_finite x2 = true -> is_finite x3 = true ->
  Rabs (B2R x1) <= 1 -> Rabs (B2R x2) <= 1 -> Rabs (B2R x3) <= 1 ->
  ball_accept_fl x1 x2 x3 = true ->
  B2R x1 * B2R x1 + B2R x2 * B2R x2 + B2R x3 * B2R x3 <= 1 + 6 * u.
Proof.
  intros F1 F2 F3 H1 H2 H3 A. destruct (ball_sum_fl_value x1 x2 x3 F1 F2 F3 H1 H2 H3) as (V & G).
  unfold ball_accept_fl in A. rewrite (Bleb_correct prec emax _ _ G (is_finite_Bone prec emax Hp Hpe)) in A.
  rewrite V, (Bone_correct prec emax Hp Hpe) in A. apply ball_real_norm.
  destruct (Rle_bool_spec (ball_sum (B2R x1) (B2R x2) (B2R x3)) 1) as [L|L]; [exact L|discriminate].
Qed.


(* ---- converse: no false rejection below a thin shell ---- *)
Theorem disc_real_accept x1 x2 : x1 * x1 + x2 * x2 <= 1 - 4 * u -> disc_sum x1 x2 <= 1.
Proof.
  unfold disc_sum. intros H. pose proof u_small as [U0 U1]. pose proof eta_small as [E0 E1].
  assert (0 <= x1 * x1) as S1 by nra. assert (0 <= x2 * x2) as S2 by nra.
  pose proof (rnd_upper _ S1) as L1. pose proof (rnd_upper _ S2) as L2.
  pose proof (rnd_nonneg _ S1) as N1. pose proof (rnd_nonneg _ S2) as N2.
  pose proof (rnd_upper (rnd (x1 * x1) + rnd (x2 * x2)) ltac:(lra)) as L3.
  set (p1 := rnd (x1 * x1)) in * . set (p2 := rnd (x2 * x2)) in * . set (q := x1 * x1 + x2 * x2) in * .
  assert (p1 + p2 <= q * (1 + u) + 2 * eta) as B by (unfold q; lra).
  assert ((p1 + p2) * (1 + u) <= (q * (1 + u) + 2 * eta) * (1 + u)) as C by (apply Rmult_le_compat_r; lra).
  assert (q * ((1 + u) * (1 + u)) <= (1 - 4 * u) * ((1 + u) * (1 + u))) as D.
  { apply Rmult_le_compat_r; [apply Rmult_le_pos; lra|exact H]. }
  assert (eta * u <= u * u * u) as M1.
  { pose proof (Rmult_le_compat_r u _ _ ltac:(lra) E1) as M. lra. }
  assert (0 <= u * u) as M2 by (apply Rmult_le_pos; lra).
  assert (0 <= u * u * u) as M3 by (apply Rmult_le_pos; lra).
  assert (u * u * u <= u * u / 8) as M4.
  { pose proof (Rmult_le_compat_l (u * u) u (1 / 8) M2 U1) as M. lra. }
  lra.
Qed.

Theorem ball_real_accept x1 x2 x3 : x1 * x1 + x2 * x2 + x3 * x3 <= 1 - 6 * u -> ball_sum x1 x2 x3 <= 1.
Proof.
  unfold ball_sum, disc_sum. intros H. pose proof u_small as [U0 U1]. pose proof eta_small as [E0 E1].
  assert (0 <= x1 * x1) as S1 by nra. assert (0 <= x2 * x2) as S2 by nra. assert (0 <= x3 * x3) as S3 by nra.
  pose proof (rnd_upper _ S1) as L1. pose proof (rnd_upper _ S2) as L2. pose proof (rnd_upper _ S3) as L3.
  pose proof (rnd_nonneg _ S1) as N1. pose proof (rnd_nonneg _ S2) as N2. pose proof (rnd_nonneg _ S3) as N3.
  pose proof (rnd_upper (rnd (x1 * x1) + rnd (x2 * x2)) ltac:(lra)) as L4.
  pose proof (rnd_nonneg (rnd (x1 * x1) + rnd (x2 * x2)) ltac:(lra)) as N4.
  pose proof (rnd_upper (rnd (rnd (x1 * x1) + rnd (x2 * x2)) + rnd (x3 * x3)) ltac:(lra)) as L5.
  set (p1 := rnd (x1 * x1)) in * . set (p2 := rnd (x2 * x2)) in * . set (p3 := rnd (x3 * x3)) in * .
  set (s := rnd (p1 + p2)) in * . set (q := x1 * x1 + x2 * x2 + x3 * x3) in * .
  set (a := x1 * x1 + x2 * x2) in * .
  assert (p1 + p2 <= a * (1 + u) + 2 * eta) as B by (unfold a; lra).
  assert ((p1 + p2) * (1 + u) <= (a * (1 + u) + 2 * eta) * (1 + u)) as C by (apply Rmult_le_compat_r; lra).
  (* s + p3 <= a (1+u)^2 + 2 eta (1+u) + eta + c (1+u) + eta <= q (1+u)^2 + 2 eta (1+u) + 2 eta *)
  assert (x3 * x3 * (1 + u) <= x3 * x3 * ((1 + u) * (1 + u))) as C3.
  { apply Rmult_le_compat_l; [exact S3|]. pose proof (Rmult_le_compat_l (1 + u) 1 (1 + u) ltac:(lra) ltac:(lra)) as M. lra. }
  assert (s + p3 <= q * ((1 + u) * (1 + u)) + 2 * eta * (1 + u) + 2 * eta) as D by (unfold q; fold a; lra).
  assert ((s + p3) * (1 + u) <= (q * ((1 + u) * (1 + u)) + 2 * eta * (1 + u) + 2 * eta) * (1 + u)) as E
    by (apply Rmult_le_compat_r; lra).
  assert (q * ((1 + u) * (1 + u) * (1 + u)) <= (1 - 6 * u) * ((1 + u) * (1 + u) * (1 + u))) as F.
  { apply Rmult_le_compat_r; [repeat apply Rmult_le_pos; lra|exact H]. }
  assert (0 <= u * u) as M2 by (apply Rmult_le_pos; lra).
  assert (0 <= u * u * u) as M3 by (apply Rmult_le_pos; lra).
  assert (0 <= u * u * u * u) as M5 by (apply Rmult_le_pos; lra).
  assert (u * u * u <= u * u / 8) as M4.
  { pose proof (Rmult_le_compat_l (u * u) u (1 / 8) M2 U1) as M. lra. }
  assert (u * u * u * u <= u * u / 64) as M6.
  { pose proof (Rmult_le_compat_l (u * u * u) u (1 / 8) M3 U1) as M. lra. }
  assert (eta * u <= u * u * u) as M1.
  { pose proof (Rmult_le_compat_r u _ _ ltac:(lra) E1) as M. lra. }
  assert (eta * u * u <= u * u * u * u) as M7.
  { pose proof (Rmult_le_compat_r u _ _ ltac:(lra) M1) as M. lra. }
  lra.
Qed.

Theorem disc_accept_fl_complete (x1 x2 : float) :
  is_finite x1 = true -> is_finite x2 = true -> Rabs (B2R x1) <= 1 -> Rabs (B2R x2) <= 1 ->
  B2R x1 * B2R x1 + B2R x2 * B2R x2 <= 1 - 4 * u -> disc_accept_fl x1 x2 = true.
Proof.
  intros F1 F2 H1 H2 A. destruct (disc_sum_fl_value x1 x2 F1 F2 H1 H2) as (V & G & _).
  unfold disc_accept_fl. rewrite (Bleb_correct prec emax _ _ G (is_finite_Bone prec emax Hp Hpe)).
  rewrite V, (Bone_correct prec emax Hp Hpe). apply Rle_bool_true. apply disc_real_accept. exact A.
Qed.

Theorem ball_accept_fl_complete (x1 x2 x3 : float) :
  is_finite x1 = true -> is_finite x2 = true -> is_finite x3 = true ->
  Rabs (B2R x1) <= 1 -> Rabs (B2R x2) <= 1 -> Rabs (B2R x3) <= 1 ->
  B2R x1 * B2R x1 + B2R x2 * B2R x2 + B2R x3 * B2R x3 <= 1 - 6 * u -> ball_accept_fl x1 x2 x3 = true.
Proof.
  intros F1 F2 F3 H1 H2 H3 A. destruct (ball_sum_fl_value x1 x2 x3 F1 F2 F3 H1 H2 H3) as (V & G).
  unfold ball_accept_fl. rewrite (Bleb_correct prec emax _ _ G (is_finite_Bone prec emax Hp Hpe)).
  rewrite V, (Bone_correct prec emax Hp Hpe). apply Rle_bool_true. apply ball_real_accept. exact A.
Qed.
End Fmt.
