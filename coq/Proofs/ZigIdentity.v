(* Proofs/ZigIdentity.v — the ziggurat density identity (real-number part).

   One pass of the loop in utils.rs:62-96 with N layers (N = 256 in the crate):
     layer i uniform on {0..N-1};  proposal x = u * X i;
     rectangle: accept when x < X (S i);
     wedge (i >= 1): accept when Fv (S i) + (Fv i - Fv (S i)) * U < f x;
     tail  (i = 0): sample from the tail beyond r = X 1.
   For a point x of the body with X (S k) <= x < X k the sub-density of "this pass returns x" is
       D(x) = (1/N) * [ sum_{i<N, x < X (S i)} 1/X i  +  (1/X k) * (f x - Fv k)/(Fv (S k) - Fv k) ]
   and the ziggurat equations  X 0 * Fv 1 = v,  X i * (Fv (S i) - Fv i) = v  give
       D(x) = f x / (N v),
   i.e. every pass returns a sample of density proportional to f; N v is the area of the ziggurat.
   The table orientation is that of the code: X decreasing, Fv increasing in the index.      *)
From Coq Require Import Reals Lra Lia Arith.
Open Scope R_scope.

(* sum_{i<k} 1 / X i : rectangle acceptances of the layers 0..k-1 (layer 0 included) *)
Fixpoint rect_sum (X : nat -> R) (k : nat) : R :=
  match k with
  | O => 0
  | S j => rect_sum X j + / X j
  end.

(* sum_{i<n, x < X (S i)} 1 / X i : the same sum, selected by the code's rectangle test *)
Fixpoint rect_sum_test (X : nat -> R) (x : R) (n : nat) : R :=
  match n with
  | O => 0
  | S j => rect_sum_test X x j + (if Rlt_dec x (X (S j)) then / X j else 0)
  end.

(* symmetric proposal: density 1 / (2 X i) on (-X i, X i) *)
Fixpoint rect_sum_sym (X : nat -> R) (k : nat) : R :=
  match k with
  | O => 0
  | S j => rect_sum_sym X j + / (2 * X j)
  end.

(* defining equations, re-exported by Props/C06_identity.v so that the statements there can be read
   without this file *)
Lemma rect_sum_def : forall X, rect_sum X 0 = 0 /\ forall k, rect_sum X (S k) = rect_sum X k + / X k.
Proof. intros X. split; reflexivity. Qed.
Lemma rect_sum_test_def : forall X x, rect_sum_test X x 0 = 0 /\
  forall n, rect_sum_test X x (S n) = rect_sum_test X x n + (if Rlt_dec x (X (S n)) then / X n else 0).
Proof. intros X x. split; reflexivity. Qed.
Lemma rect_sum_sym_def : forall X, rect_sum_sym X 0 = 0 /\
  forall k, rect_sum_sym X (S k) = rect_sum_sym X k + / (2 * X k).
Proof. intros X. split; reflexivity. Qed.

Section Zig.
  Variable N : nat.
  Variables X Fv : nat -> R.
  Variable f : R -> R.
  Variable v : R.

  Hypothesis HN : (2 <= N)%nat.
  Hypothesis Xpos : forall i, (i < N)%nat -> 0 < X i.
  Hypothesis Xdec : forall i, (i < N)%nat -> X (S i) < X i.
  Hypothesis XN : X N = 0.
  Hypothesis vpos : 0 < v.
  Hypothesis Hbase : X 0 * Fv 1 = v.
  Hypothesis Hlayer : forall i, (1 <= i < N)%nat -> X i * (Fv (S i) - Fv i) = v.
  Hypothesis HF : forall i, (1 <= i <= N)%nat -> Fv i = f (X i).
  Hypothesis fdec : forall a b, 0 <= a -> a <= b -> b <= X 1 -> f b <= f a.

  (* X is strictly antitone on 0..N *)
  Lemma X_antitone : forall i j, (i < j)%nat -> (j <= N)%nat -> X j < X i.
  Proof.
    intros i j Hij. induction Hij as [|m Hm IH]; intros HjN.
    - apply Xdec. lia.
    - apply Rlt_trans with (X m).
      + apply Xdec. lia.
      + apply IH. lia.
  Qed.

  Lemma X_antitone_le : forall i j, (i <= j)%nat -> (j <= N)%nat -> X j <= X i.
  Proof.
    intros i j Hij HjN. destruct (Nat.eq_dec i j) as [->|Hne].
    - apply Rle_refl.
    - apply Rlt_le. apply X_antitone; lia.
  Qed.

  (* the layer heights are strictly increasing: Fv (S i) - Fv i = v / X i > 0 *)
  Lemma Fv_step : forall i, (1 <= i < N)%nat -> Fv (S i) - Fv i = v / X i.
  Proof.
    intros i Hi. pose proof (Xpos i ltac:(lia)) as P. pose proof (Hlayer i Hi) as E.
    rewrite <- E. field. lra.
  Qed.

  Lemma Fv_step_pos : forall i, (1 <= i < N)%nat -> 0 < Fv (S i) - Fv i.
  Proof.
    intros i Hi. rewrite (Fv_step i Hi). apply Rdiv_lt_0_compat; [exact vpos|].
    apply Xpos. lia.
  Qed.

  (* telescoping: the rectangle acceptances of layers 0..k-1 add up to Fv k / v *)
  Lemma rect_sum_telescope : forall k, (1 <= k <= N)%nat -> rect_sum X k = Fv k / v.
  Proof.
    induction k as [|k IH]; intros Hk; [lia|].
    destruct k as [|k'].
    - simpl. pose proof (Xpos 0%nat ltac:(lia)) as P. rewrite <- Hbase.
      assert (Fv 1 <> 0).
      { intros Z. rewrite Z, Rmult_0_r in Hbase. lra. }
      field. split; lra.
    - change (rect_sum X (S (S k'))) with (rect_sum X (S k') + / X (S k')).
      rewrite IH by lia.
      pose proof (Xpos (S k') ltac:(lia)) as P.
      pose proof (Fv_step (S k') ltac:(lia)) as E.
      replace (Fv (S (S k'))) with (Fv (S k') + v / X (S k')) by lra.
      field. split; lra.
  Qed.

  (* for x in layer k's wedge strip [X (S k), X k): the rectangle test of layer i succeeds
     exactly for the layers i < k *)
  Lemma zig_rect_layers : forall k x, (k < N)%nat -> X (S k) <= x < X k ->
    forall i, (i < N)%nat -> (x < X (S i) <-> (i < k)%nat).
  Proof.
    intros k x Hk [Hx1 Hx2] i Hi. split.
    - intros Hlt. destruct (le_lt_dec k i) as [Hki|]; [|assumption].
      exfalso. pose proof (X_antitone_le (S k) (S i) ltac:(lia) ltac:(lia)). lra.
    - intros Hik. pose proof (X_antitone_le (S i) k ltac:(lia) ltac:(lia)). lra.
  Qed.

  Lemma rect_sum_test_below : forall k x, (k < N)%nat -> X (S k) <= x < X k ->
    forall n, (n <= k)%nat -> rect_sum_test X x n = rect_sum X n.
  Proof.
    intros k x Hk Hx. induction n as [|n IH]; intros Hn; [reflexivity|].
    simpl. rewrite IH by lia.
    destruct (Rlt_dec x (X (S n))) as [_|Hnot]; [reflexivity|].
    exfalso. apply Hnot. apply (zig_rect_layers k x Hk Hx n); lia.
  Qed.

  Lemma rect_sum_test_above : forall k x, (k < N)%nat -> X (S k) <= x < X k ->
    forall n, (k <= n <= N)%nat -> rect_sum_test X x n = rect_sum X k.
  Proof.
    intros k x Hk Hx. induction n as [|n IH]; intros Hn.
    - assert (k = 0)%nat by lia. subst k. reflexivity.
    - destruct (Nat.eq_dec k (S n)) as [E|Hne].
      + subst k. apply (rect_sum_test_below (S n) x Hk Hx). lia.
      + simpl. rewrite IH by lia.
        destruct (Rlt_dec x (X (S n))) as [Hlt|_]; [|lra].
        exfalso. apply (zig_rect_layers k x Hk Hx n) in Hlt; lia.
  Qed.

  (* the code's rectangle test selects exactly rect_sum k *)
  Lemma rect_sum_test_eq : forall k x, (k < N)%nat -> X (S k) <= x < X k ->
    rect_sum_test X x N = rect_sum X k.
  Proof. intros k x Hk Hx. apply (rect_sum_test_above k x Hk Hx). lia. Qed.

  (* the wedge acceptance probability is a probability *)
  Lemma zig_wedge_prob_range : forall k x, (1 <= k < N)%nat -> X (S k) <= x < X k ->
    0 <= (f x - Fv k) / (Fv (S k) - Fv k) <= 1.
  Proof.
    intros k x Hk [Hx1 Hx2].
    pose proof (Fv_step_pos k Hk) as Dp.
    assert (H0 : 0 <= X (S k)).
    { rewrite <- XN. apply X_antitone_le; lia. }
    assert (Hk1 : X k <= X 1) by (apply X_antitone_le; lia).
    assert (L : Fv k <= f x).
    { rewrite (HF k) by lia. apply fdec; lra. }
    assert (U : f x <= Fv (S k)).
    { rewrite (HF (S k)) by lia. apply fdec; lra. }
    split.
    - apply Rmult_le_pos; [lra|]. apply Rlt_le, Rinv_0_lt_compat. exact Dp.
    - apply Rmult_le_reg_r with (Fv (S k) - Fv k); [exact Dp|].
      unfold Rdiv. rewrite Rmult_assoc, Rinv_l by lra. lra.
  Qed.

  Lemma INR_N_pos : 0 < INR N.
  Proof. apply lt_0_INR. lia. Qed.

  (* ---- the body identity, one-sided (exponential) ---- *)
  Theorem zig_density_identity : forall k x, (1 <= k < N)%nat ->
    (rect_sum X k + (/ X k) * (f x - Fv k) / (Fv (S k) - Fv k)) / INR N = f x / (INR N * v).
  Proof.
    intros k x Hk.
    rewrite (rect_sum_telescope k) by lia.
    rewrite (Fv_step k Hk).
    pose proof (Xpos k ltac:(lia)) as P. pose proof INR_N_pos as Q.
    field. repeat split; lra.
  Qed.

  (* the same with the rectangle sum selected by the code's test x < X (S i) over all N layers *)
  Theorem zig_density_identity_test : forall k x, (1 <= k < N)%nat -> X (S k) <= x < X k ->
    (rect_sum_test X x N + (/ X k) * (f x - Fv k) / (Fv (S k) - Fv k)) / INR N = f x / (INR N * v).
  Proof.
    intros k x Hk Hx. rewrite (rect_sum_test_eq k x) by (lia || exact Hx).
    apply zig_density_identity. exact Hk.
  Qed.

  (* ---- symmetric (normal): proposal density 1/(2 X i), test |x| < X (S i), target f|x| / 2 ---- *)
  Lemma rect_sum_sym_half : forall k, (k <= N)%nat -> rect_sum_sym X k = rect_sum X k / 2.
  Proof.
    induction k as [|k IH]; intros Hk; simpl.
    - lra.
    - rewrite IH by lia. pose proof (Xpos k ltac:(lia)). field. lra.
  Qed.

  Theorem zig_density_identity_sym : forall k x, (1 <= k < N)%nat ->
    (rect_sum_sym X k + (/ (2 * X k)) * (f (Rabs x) - Fv k) / (Fv (S k) - Fv k)) / INR N
    = (f (Rabs x) / 2) / (INR N * v).
  Proof.
    intros k x Hk.
    rewrite rect_sum_sym_half by lia.
    pose proof (zig_density_identity k (Rabs x) Hk) as E.
    pose proof (Xpos k ltac:(lia)) as P. pose proof INR_N_pos as Q.
    pose proof (Fv_step_pos k Hk) as Dp.
    replace ((rect_sum X k / 2 + / (2 * X k) * (f (Rabs x) - Fv k) / (Fv (S k) - Fv k)) / INR N)
      with (((rect_sum X k + / X k * (f (Rabs x) - Fv k) / (Fv (S k) - Fv k)) / INR N) / 2)
      by (field; repeat split; lra).
    rewrite E. field. split; lra.
  Qed.

  (* ---- layer 0: the tail ---- *)
  (* T = tail mass beyond r = X 1; base strip = rectangle X 1 * Fv 1 plus tail = v *)
  Theorem zig_tail_identity : forall T fx, 0 < T -> X 1 * Fv 1 + T = v ->
    / INR N * (1 - X 1 / X 0) * (fx / T) = fx / (INR N * v).
  Proof.
    intros T fx HT Hstrip.
    pose proof (Xpos 0%nat ltac:(lia)) as P. pose proof INR_N_pos as Q.
    assert (F1 : Fv 1 <> 0).
    { intros Z. rewrite Z, Rmult_0_r in Hbase. lra. }
    assert (ET : T = (X 0 - X 1) * Fv 1) by lra.
    assert (D : X 0 - X 1 <> 0).
    { intros Z. rewrite Z, Rmult_0_l in ET. lra. }
    rewrite <- Hbase, ET. field. repeat split; lra.
  Qed.

  Theorem zig_tail_identity_sym : forall T fx, 0 < T -> X 1 * Fv 1 + T = v ->
    / INR N * (1 - X 1 / X 0) * (/ 2 * (fx / T)) = (fx / 2) / (INR N * v).
  Proof.
    intros T fx HT Hstrip.
    pose proof (zig_tail_identity T fx HT Hstrip) as E.
    pose proof INR_N_pos as Q. pose proof (Xpos 0%nat ltac:(lia)) as P.
    replace (/ INR N * (1 - X 1 / X 0) * (/ 2 * (fx / T)))
      with ((/ INR N * (1 - X 1 / X 0) * (fx / T)) / 2) by (field; repeat split; lra).
    rewrite E. field. split; lra.
  Qed.

  (* the probability of entering the tail branch is a probability *)
  Lemma zig_tail_prob_range : 0 < 1 - X 1 / X 0 < 1.
  Proof.
    pose proof (Xpos 0%nat ltac:(lia)) as P0. pose proof (Xpos 1%nat ltac:(lia)) as P1.
    pose proof (Xdec 0%nat ltac:(lia)) as D.
    assert (0 < X 1 / X 0) by (apply Rdiv_lt_0_compat; assumption).
    assert (X 1 / X 0 < 1).
    { apply Rmult_lt_reg_r with (X 0); [exact P0|].
      unfold Rdiv. rewrite Rmult_assoc, Rinv_l by lra. lra. }
    lra.
  Qed.
End Zig.

(* the hypotheses of the section are satisfiable: a 2-layer ziggurat for f x = 1 - x, r = 3/4 *)
Lemma zig_hyps_nonvacuous : exists (N : nat) (X Fv : nat -> R) (f : R -> R) (v T : R),
  (2 <= N)%nat /\
  (forall i, (i < N)%nat -> 0 < X i) /\
  (forall i, (i < N)%nat -> X (S i) < X i) /\
  X N = 0 /\
  0 < v /\
  X 0%nat * Fv 1%nat = v /\
  (forall i, (1 <= i < N)%nat -> X i * (Fv (S i) - Fv i) = v) /\
  (forall i, (1 <= i <= N)%nat -> Fv i = f (X i)) /\
  (forall a b, 0 <= a -> a <= b -> b <= X 1%nat -> f b <= f a) /\
  0 < T /\ X 1%nat * Fv 1%nat + T = v.
Proof.
  exists 2%nat,
    (fun i => match i with 0%nat => 9/4 | 1%nat => 3/4 | _ => 0 end),
    (fun i => match i with 0%nat => 0 | 1%nat => 1/4 | _ => 1 end),
    (fun x => 1 - x), (9/16), (3/8).
  repeat split; try lra; try lia.
  - intros i Hi. destruct i as [|[|i]]; [lra|lra|lia].
  - intros i Hi. destruct i as [|[|i]]; [lra|lra|lia].
  - intros i Hi. destruct i as [|[|i]]; [lia|lra|lia].
  - intros i Hi. destruct i as [|[|[|i]]]; [lia|lra|lra|lia].
  - intros a b _ Hab _. lra.
Qed.

(* ---------- tail samplers ---------- *)

Lemma exp_le_iff : forall a b, a <= b <-> exp a <= exp b.
Proof.
  intros a b. split.
  - intros [H|H]; [left; apply exp_increasing; exact H|right; rewrite H; reflexivity].
  - intros H. destruct (Rle_or_lt a b) as [|Hlt]; [assumption|].
    apply exp_increasing in Hlt. lra.
Qed.

(* exponential.rs:75  zero_case = r - ln u :  P(r - ln u <= x) = P(u >= e^{-(x-r)}) = 1 - e^{-(x-r)} *)
Theorem exp_tail_event : forall r u x, 0 < u ->
  (r - ln u <= x <-> exp (- (x - r)) <= u).
Proof.
  intros r u x Hu.
  rewrite <- (exp_ln u Hu) at 2. rewrite <- exp_le_iff. split; intros; lra.
Qed.

(* ... whose density is e^{-x} / e^{-r} = f x / T with T = tail mass of e^{-t} beyond r *)
Theorem exp_tail_density : forall r x, exp (- (x - r)) = exp (- x) / exp (- r).
Proof.
  intros r x. replace (- (x - r)) with (- x + r) by ring.
  rewrite exp_plus, (exp_Ropp r). pose proof (exp_pos r). field. lra.
Qed.

(* normal.rs:77-83 (Marsaglia).  The proposal x = -ln(u1)/r has density r e^{-r x} on x >= 0: *)
Theorem normal_tail_proposal : forall r u1 x, 0 < r -> 0 < u1 ->
  (- ln u1 / r <= x <-> exp (- (r * x)) <= u1).
Proof.
  intros r u1 x Hr Hu.
  rewrite <- (exp_ln u1 Hu) at 2. rewrite <- exp_le_iff.
  assert (E : - ln u1 / r <= x <-> - ln u1 <= r * x).
  { split; intros H.
    - apply Rmult_le_compat_r with (r := r) in H; [|lra].
      unfold Rdiv in H. rewrite Rmult_assoc, Rinv_l, Rmult_1_r in H by lra. lra.
    - apply Rmult_le_reg_r with r; [exact Hr|].
      unfold Rdiv. rewrite Rmult_assoc, Rinv_l, Rmult_1_r by lra. lra. }
  rewrite E. split; intros; lra.
Qed.

(* the loop `while -2.0 * y < x * x` with y = ln u2 exits (accepts) iff u2 <= e^{-x^2/2} *)
Theorem normal_tail_accept : forall u2 x, 0 < u2 ->
  (~ (-2 * ln u2 < x * x) <-> u2 <= exp (- (x * x) / 2)).
Proof.
  intros u2 x Hu.
  rewrite <- (exp_ln u2 Hu) at 2. rewrite <- exp_le_iff. split; intros; lra.
Qed.

(* in the code x is ln(u1)/r (the negative of the proposal); the test only sees x*x *)
Theorem normal_tail_accept_code : forall r u1 u2, 0 < u2 ->
  let x := - ln u1 / r in
  (~ (-2 * ln u2 < (ln u1 / r) * (ln u1 / r)) <-> u2 <= exp (- (x * x) / 2)).
Proof.
  intros r u1 u2 Hu x.
  replace ((ln u1 / r) * (ln u1 / r)) with (x * x).
  - apply normal_tail_accept. exact Hu.
  - unfold x, Rdiv. ring.
Qed.

(* accepted density: proposal * acceptance is proportional to the normal density at r + x *)
Theorem normal_tail_density : forall r x,
  r * exp (- (r * x)) * exp (- (x * x) / 2) = r * exp (r * r / 2) * exp (- ((x + r) * (x + r)) / 2).
Proof.
  intros r x. rewrite !Rmult_assoc. f_equal. rewrite <- !exp_plus. f_equal. field.
Qed.
