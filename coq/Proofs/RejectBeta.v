(* Proofs/RejectBeta.v — Cheng's (1978) Beta samplers BB and BC (beta.rs:121-270).

   BB (a = min(a0,b0) > 1, b = max):  alpha = a + b, beta = sqrt((alpha-2)/(2ab-alpha)), gamma = a + 1/beta
     loop:  u1, u2 = Open01;  v = beta ln(u1/(1-u1));  w = a e^v;  z = u1 u1 u2;
            r = gamma v - ln 4;  s = a + r - w;
            2. if s + 1 + ln 5 >= 5 z  { break }
            3. t = ln z;  if s >= t    { break }
            4. if !(r + alpha ln(alpha/(b+w)) < t) { break }
   BC (a = max, b = min <= 1):        alpha = a + b, beta = 1/b;  final test (step 5):
            if !(alpha (ln(alpha/(b+w)) + v) - ln 4 < ln z) { break }
   result:  w/(b+w)   (or b/(b+w) = 1 - w/(b+w) when the parameters were switched)

   With lambda = 1/beta:
     bb_proposal_cdf       W = a (U1/(1-U1))^beta  has CDF  G(w) = w^lambda/(a^lambda + w^lambda)
     bb_proposal_density   G' = g,  g(w) = lambda a^lambda w^(lambda-1)/(a^lambda + w^lambda)^2
     beta_prime_kernel     W = b X/(1-X), X ~ Beta(a,b), has density prop. to f(w) = w^(a-1)/(b+w)^(a+b)
     bb_accept_ratio       exp(r + alpha ln(alpha/(b+w))) / u1^2 = C f(w)/g(w),  C = lambda alpha^alpha/(4 a^a)
     bb_exact_test         step 4 accepts  <->  u2 <= C f(W)/g(W)   (for any beta > 0 with gamma = a + 1/beta;
                           bc_exact_test is the instance beta = 1/b, gamma = alpha)
     bb_squeeze3 / bb_squeeze2   steps 3 and 2 imply step 4                                             *)
From Coq Require Import Reals Lra Lia.
From Coquelicot Require Import Coquelicot.
Open Scope R_scope.

(* ---------------------------------------------------------------- definitions *)

Definition bb_V (beta u : R) : R := beta * ln (u / (1 - u)).
Definition bb_W (a beta u : R) : R := a * exp (bb_V beta u).
Definition bb_R (gamma v : R) : R := gamma * v - ln 4.
Definition bb_S (a r w : R) : R := a + r - w.
(* left side of the exact test: accept iff ln z <= bb_E ... *)
Definition bb_E (a b r w : R) : R := r + (a + b) * ln ((a + b) / (b + w)).

(* proposal cdf / density (log-logistic), lam = 1/beta *)
Definition bb_G (a lam w : R) : R := Rpower w lam / (Rpower a lam + Rpower w lam).
Definition bb_g (a lam w : R) : R :=
  lam * Rpower a lam * Rpower w (lam - 1) / (Rpower a lam + Rpower w lam) ^ 2.
(* target kernel for W = b X / (1 - X) *)
Definition bb_f (a b w : R) : R := Rpower w (a - 1) / Rpower (b + w) (a + b).
Definition bb_C (a b lam : R) : R := lam * Rpower (a + b) (a + b) / (4 * Rpower a a).

Lemma bb_defs : forall a b beta gamma lam u v r w,
  bb_V beta u = beta * ln (u / (1 - u)) /\
  bb_W a beta u = a * exp (bb_V beta u) /\
  bb_R gamma v = gamma * v - ln 4 /\
  bb_S a r w = a + r - w /\
  bb_E a b r w = r + (a + b) * ln ((a + b) / (b + w)) /\
  bb_G a lam w = Rpower w lam / (Rpower a lam + Rpower w lam) /\
  bb_g a lam w = lam * Rpower a lam * Rpower w (lam - 1) / (Rpower a lam + Rpower w lam) ^ 2 /\
  bb_f a b w = Rpower w (a - 1) / Rpower (b + w) (a + b) /\
  bb_C a b lam = lam * Rpower (a + b) (a + b) / (4 * Rpower a a).
Proof. intros. repeat split. Qed.

(* ---------------------------------------------------------------- Rpower tools *)

Lemma Rpower_gt0 : forall x y, 0 < Rpower x y.
Proof. intros. unfold Rpower. apply exp_pos. Qed.

Lemma Rpower_exp_base : forall v y, Rpower (exp v) y = exp (y * v).
Proof. intros. unfold Rpower. rewrite ln_exp. reflexivity. Qed.

Lemma Rpower_div_distr : forall x y z, 0 < x -> 0 < y -> Rpower (x / y) z = Rpower x z / Rpower y z.
Proof.
  intros x y z Hx Hy. unfold Rpower, Rdiv. rewrite ln_mult, ln_Rinv; try lra.
  - rewrite <- exp_Ropp, <- exp_plus. f_equal. ring.
  - apply Rinv_0_lt_compat. exact Hy.
Qed.

Lemma Rpower_succ : forall x y, 0 < x -> Rpower x (y - 1) * x = Rpower x y.
Proof.
  intros x y Hx. rewrite <- (Rpower_1 x Hx) at 2. rewrite <- Rpower_plus. f_equal. ring.
Qed.

(* ---------------------------------------------------------------- the proposal *)

Section BB.
Variables a b beta u1 : R.
Hypothesis Ha : 0 < a.
Hypothesis Hb : 0 < b.
Hypothesis Hbeta : 0 < beta.
Hypothesis Hu : 0 < u1 < 1.

Let lam := / beta.
Let o := u1 / (1 - u1).
Let V := bb_V beta u1.
Let W := bb_W a beta u1.

Lemma bb_o_pos : 0 < o.
Proof. unfold o. apply Rdiv_lt_0_compat; lra. Qed.

Lemma bb_W_pos_aux : 0 < W.
Proof. unfold W, bb_W. apply Rmult_lt_0_compat; [exact Ha | apply exp_pos]. Qed.

Lemma bb_exp_lamV : exp (lam * V) = o.
Proof.
  unfold V, bb_V, lam. fold o. replace (/ beta * (beta * ln o)) with (ln o) by (field; lra).
  apply exp_ln, bb_o_pos.
Qed.

(* W^lam = a^lam * u1/(1-u1) *)
Lemma bb_W_pow_lam : Rpower W lam = Rpower a lam * o.
Proof.
  unfold W, bb_W. fold V. rewrite <- Rpower_mult_distr by (try apply exp_pos; exact Ha).
  rewrite Rpower_exp_base, bb_exp_lamV. reflexivity.
Qed.

(* W^a = a^a * exp (a V) *)
Lemma bb_W_pow_a : Rpower W a = Rpower a a * exp (a * V).
Proof.
  unfold W, bb_W. fold V. rewrite <- Rpower_mult_distr by (try apply exp_pos; exact Ha).
  rewrite Rpower_exp_base. reflexivity.
Qed.

Lemma bb_proposal_cdf_aux : bb_G a lam W = u1.
Proof.
  unfold bb_G. rewrite bb_W_pow_lam. pose proof (Rpower_gt0 a lam). unfold o.
  field. split; [lra |]. intro E.
  assert (Rpower a lam * (1 - u1) + Rpower a lam * u1 = Rpower a lam) by ring. lra.
Qed.

Lemma bb_accept_ratio_aux :
  exp (bb_E a b (bb_R (a + / beta) V) W) / (u1 * u1) = bb_C a b lam * (bb_f a b W / bb_g a lam W).
Proof.
  pose proof bb_o_pos as Ho. pose proof bb_W_pos_aux as HW.
  assert (Hbw : 0 < b + W) by lra. assert (Hal : 0 < a + b) by lra.
  unfold bb_E, bb_R, bb_C, bb_f, bb_g. fold lam.
  (* left side *)
  assert (EL : exp ((a + lam) * V - ln 4 + (a + b) * ln ((a + b) / (b + W)))
               = exp (a * V) * o / 4 * (Rpower (a + b) (a + b) / Rpower (b + W) (a + b))).
  { rewrite <- Rpower_div_distr by assumption. unfold Rpower at 1.
    replace ((a + lam) * V - ln 4 + (a + b) * ln ((a + b) / (b + W)))
      with (a * V + lam * V + - ln 4 + (a + b) * ln ((a + b) / (b + W))) by ring.
    rewrite !exp_plus, bb_exp_lamV, exp_Ropp, exp_ln by lra. field. }
  rewrite EL.
  (* right side *)
  rewrite bb_W_pow_lam.
  assert (E1 : Rpower W (lam - 1) = Rpower a lam * o / W).
  { rewrite <- bb_W_pow_lam, <- (Rpower_succ W lam HW). field. lra. }
  assert (E2 : Rpower W (a - 1) = Rpower a a * exp (a * V) / W).
  { rewrite <- bb_W_pow_a, <- (Rpower_succ W a HW). field. lra. }
  rewrite E1, E2.
  pose proof (Rpower_gt0 a lam). pose proof (Rpower_gt0 a a).
  pose proof (Rpower_gt0 (b + W) (a + b)). pose proof (Rpower_gt0 (a + b) (a + b)).
  pose proof (exp_pos (a * V)).
  assert (Hlam : 0 < lam) by (apply Rinv_0_lt_compat; exact Hbeta).
  assert (Hu1 : u1 = o / (1 + o)) by (unfold o; field; lra).
  rewrite Hu1 at 1 2. field. repeat split; try lra.
  replace (Rpower a lam + Rpower a lam * o) with (Rpower a lam * (1 + o)) by ring.
  apply Rgt_not_eq, Rmult_lt_0_compat; lra.
Qed.

End BB.

Theorem bb_W_pos : forall a beta u1, 0 < a -> 0 < bb_W a beta u1.
Proof. intros. unfold bb_W. apply Rmult_lt_0_compat; [assumption | apply exp_pos]. Qed.

Theorem bb_proposal_cdf : forall a beta u1, 0 < a -> 0 < beta -> 0 < u1 < 1 ->
  bb_G a (/ beta) (bb_W a beta u1) = u1.
Proof. intros. apply bb_proposal_cdf_aux; assumption. Qed.

Theorem bb_proposal_density : forall a lam w, 0 < a -> 0 < w ->
  is_derive (bb_G a lam) w (bb_g a lam w).
Proof.
  intros a lam w Ha Hw. unfold bb_G, bb_g.
  pose proof (Rpower_gt0 a lam) as Pa. pose proof (Rpower_gt0 w lam) as Pw.
  assert (D : is_derive (fun w => Rpower w lam) w (lam * Rpower w (lam - 1))).
  { unfold Rpower. auto_derive; [lra |].
    replace ((lam - 1) * ln w) with (lam * ln w + - ln w) by ring.
    rewrite exp_plus, exp_Ropp, exp_ln by lra. field. lra. }
  evar (dd : R).
  assert (D2 : is_derive (fun w => Rpower w lam / (Rpower a lam + Rpower w lam)) w dd).
  { auto_derive.
    - split; [eexists; exact D |]. split; [eexists; exact D |]. split; [lra | exact I].
    - assert (DU : Derive (fun x : R => Rpower x lam) w = lam * Rpower w (lam - 1))
        by (apply is_derive_unique; exact D).
      rewrite DU. unfold dd. reflexivity. }
  replace (lam * Rpower a lam * Rpower w (lam - 1) / (Rpower a lam + Rpower w lam) ^ 2) with dd.
  - exact D2.
  - unfold dd. field. lra.
Qed.

(* density of W = b X/(1-X) for X ~ Beta(a,b): x^(a-1) (1-x)^(b-1) dx/dw at x = w/(b+w) *)
Theorem beta_prime_kernel : forall a b w, 0 < b -> 0 < w ->
  let x := w / (b + w) in
  is_derive (fun w => w / (b + w)) w (b / (b + w) ^ 2) /\
  Rpower x (a - 1) * Rpower (1 - x) (b - 1) * (b / (b + w) ^ 2) = Rpower b b * bb_f a b w.
Proof.
  intros a b w Hb Hw x. split.
  - auto_derive; [lra | field; lra].
  - assert (Hbw : 0 < b + w) by lra.
    replace (1 - x) with (b / (b + w)) by (unfold x; field; lra). unfold x, bb_f.
    rewrite !Rpower_div_distr by assumption.
    replace ((b + w) ^ 2) with (Rpower (b + w) 2).
    2:{ replace 2 with (INR 2) at 1 by (simpl; ring). apply Rpower_pow. exact Hbw. }
    replace (Rpower (b + w) (a + b))
      with (Rpower (b + w) (a - 1) * Rpower (b + w) (b - 1) * Rpower (b + w) 2).
    2:{ rewrite <- !Rpower_plus. f_equal. ring. }
    rewrite <- (Rpower_succ b b Hb).
    pose proof (Rpower_gt0 (b + w) (a - 1)). pose proof (Rpower_gt0 (b + w) (b - 1)).
    pose proof (Rpower_gt0 (b + w) 2). field. repeat split; lra.
Qed.

(* ---------------------------------------------------------------- the exact test *)

Theorem bb_accept_ratio : forall a b beta u1, 0 < a -> 0 < b -> 0 < beta -> 0 < u1 < 1 ->
  let v := bb_V beta u1 in let w := bb_W a beta u1 in
  exp (bb_E a b (bb_R (a + / beta) v) w) / (u1 * u1)
  = bb_C a b (/ beta) * (bb_f a b w / bb_g a (/ beta) w).
Proof. intros. apply bb_accept_ratio_aux; assumption. Qed.

Theorem bb_exact_test : forall a b beta u1 u2, 0 < a -> 0 < b -> 0 < beta -> 0 < u1 < 1 -> 0 < u2 ->
  let v := bb_V beta u1 in let w := bb_W a beta u1 in
  (ln (u1 * u1 * u2) <= bb_E a b (bb_R (a + / beta) v) w
   <-> u2 <= bb_C a b (/ beta) * (bb_f a b w / bb_g a (/ beta) w)).
Proof.
  intros a b beta u1 u2 Ha Hb Hbeta Hu1 Hu2 v w.
  pose proof (bb_accept_ratio a b beta u1 Ha Hb Hbeta Hu1) as AR. cbv zeta in AR. fold v w in AR.
  rewrite <- AR. clear AR.
  set (E := bb_E a b (bb_R (a + / beta) v) w).
  assert (Huu : 0 < u1 * u1) by nra.
  assert (Hz : 0 < u1 * u1 * u2) by (apply Rmult_lt_0_compat; assumption).
  split; intros H.
  - apply (Rmult_le_reg_l (u1 * u1)); [exact Huu |].
    replace (u1 * u1 * (exp E / (u1 * u1))) with (exp E) by (field; lra).
    rewrite <- (exp_ln _ Hz). destruct H as [H | H].
    + left. apply exp_increasing. exact H.
    + right. rewrite H. reflexivity.
  - apply (Rmult_le_compat_l (u1 * u1)) in H; [| lra].
    replace (u1 * u1 * (exp E / (u1 * u1))) with (exp E) in H by (field; lra).
    rewrite <- (ln_exp E). destruct H as [H | H].
    + left. apply ln_increasing; assumption.
    + right. rewrite H. reflexivity.
Qed.

(* the envelope touches at the mode of the proposal: u1 = 1/2 gives w = a and acceptance probability 1
   (so the constant bb_C cannot be improved; that C f/g <= 1 everywhere is Cheng's theorem, not proved here) *)
Theorem bb_accept_at_half : forall a b gamma beta, 0 < a -> 0 < b ->
  bb_W a beta (1 / 2) = a /\
  exp (bb_E a b (bb_R gamma (bb_V beta (1 / 2))) (bb_W a beta (1 / 2))) / (1 / 2 * (1 / 2)) = 1.
Proof.
  intros a b gamma beta0 Ha Hb.
  assert (HV : forall beta, bb_V beta (1 / 2) = 0).
  { intros beta. unfold bb_V. replace (1 / 2 / (1 - 1 / 2)) with 1 by field. rewrite ln_1. ring. }
  assert (HW : forall beta, bb_W a beta (1 / 2) = a).
  { intros beta. unfold bb_W. rewrite HV, exp_0. ring. }
  split; [apply HW |].
  rewrite HW, HV. unfold bb_E, bb_R.
  replace ((a + b) / (b + a)) with 1 by (field; lra). rewrite ln_1.
  replace (gamma * 0 - ln 4 + (a + b) * 0) with (- ln 4) by ring.
  rewrite exp_Ropp, exp_ln by lra. field.
Qed.

(* BC step 5 is the same test with beta = 1/b (lambda = b), gamma = a + b = alpha *)
Theorem bc_exact_test : forall a b u1 u2, 0 < a -> 0 < b -> 0 < u1 < 1 -> 0 < u2 ->
  let v := bb_V (1 / b) u1 in let w := bb_W a (1 / b) u1 in
  (ln (u1 * u1 * u2) <= (a + b) * (ln ((a + b) / (b + w)) + v) - ln 4
   <-> u2 <= bb_C a b b * (bb_f a b w / bb_g a b w)).
Proof.
  intros a b u1 u2 Ha Hb Hu1 Hu2 v w.
  assert (Hbeta : 0 < 1 / b) by (apply Rdiv_lt_0_compat; lra).
  pose proof (bb_exact_test a b (1 / b) u1 u2 Ha Hb Hbeta Hu1 Hu2) as T. cbv zeta in T.
  fold v w in T. replace (/ (1 / b)) with b in T by (field; lra).
  replace ((a + b) * (ln ((a + b) / (b + w)) + v) - ln 4) with (bb_E a b (bb_R (a + b) v) w).
  - exact T.
  - unfold bb_E, bb_R. ring.
Qed.

(* ---------------------------------------------------------------- the squeezes *)

Lemma ln_le_minus_1 : forall y, 0 < y -> ln y <= y - 1.
Proof.
  intros y Hy. pose proof (exp_ineq1_le (y - 1)) as H.
  replace (1 + (y - 1)) with y in H by ring.
  rewrite <- (ln_exp (y - 1)). destruct H as [H | H].
  - left. apply ln_increasing; assumption.
  - right. rewrite <- H. reflexivity.
Qed.

(* a - w <= alpha ln (alpha/(b+w)) *)
Lemma bb_key_ineq : forall a b w, 0 < a -> 0 < b -> 0 < w ->
  a - w <= (a + b) * ln ((a + b) / (b + w)).
Proof.
  intros a b w Ha Hb Hw.
  assert (Hy : 0 < (b + w) / (a + b)) by (apply Rdiv_lt_0_compat; lra).
  pose proof (ln_le_minus_1 _ Hy) as L.
  replace ((a + b) / (b + w)) with (/ ((b + w) / (a + b))) by (field; split; lra).
  rewrite ln_Rinv by exact Hy.
  assert ((a + b) * ln ((b + w) / (a + b)) <= (a + b) * ((b + w) / (a + b) - 1)).
  { apply Rmult_le_compat_l; lra. }
  replace ((a + b) * ((b + w) / (a + b) - 1)) with (w - a) in H by (field; lra). lra.
Qed.

(* step 3: s >= t implies the exact test *)
Theorem bb_squeeze3 : forall a b r w t, 0 < a -> 0 < b -> 0 < w ->
  t <= bb_S a r w -> t <= bb_E a b r w.
Proof.
  intros a b r w t Ha Hb Hw H. pose proof (bb_key_ineq a b w Ha Hb Hw). unfold bb_S, bb_E in *. lra.
Qed.

(* step 2: s + 1 + ln 5 >= 5 z implies s >= ln z (step 3), hence the exact test *)
Theorem bb_squeeze2 : forall a b r w z, 0 < a -> 0 < b -> 0 < w -> 0 < z ->
  5 * z <= bb_S a r w + 1 + ln 5 -> ln z <= bb_S a r w /\ ln z <= bb_E a b r w.
Proof.
  intros a b r w z Ha Hb Hw Hz H.
  assert (L : ln z <= bb_S a r w).
  { pose proof (ln_le_minus_1 (5 * z) ltac:(lra)) as L. rewrite ln_mult in L by lra. lra. }
  split; [exact L | apply bb_squeeze3; assumption].
Qed.

(* ---------------------------------------------------------------- the final map *)

Theorem beta_final_map : forall b w, 0 < b -> 0 < w ->
  0 < w / (b + w) < 1 /\ b / (b + w) = 1 - w / (b + w).
Proof.
  intros b w Hb Hw. assert (0 < / (b + w)) by (apply Rinv_0_lt_compat; lra).
  split; [split |].
  - apply Rdiv_lt_0_compat; lra.
  - apply (Rmult_lt_reg_r (b + w)); [lra |].
    replace (w / (b + w) * (b + w)) with w by (field; lra). lra.
  - field. lra.
Qed.
