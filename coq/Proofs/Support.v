(* Proofs/Support.v — part of property C03 on the ideal real-number models of Model/Continuous.v:
   every result the exact semantics `evals` can produce whose expression denotes a real number
   lies in the support of the distribution.                                                        *)
From Coq Require Import Reals ZArith List Lra Lia Bool.
From Interval Require Import Xreal.
From Flocq Require Import Core.
From RD Require Import Base.Expr Base.Run Model.Sampler Model.Continuous Gen.ZigTables Proofs.LawsInvCdf Proofs.LawsTriangular.
Import ListNotations.
Open Scope Z_scope.
Open Scope sampler_scope.

Local Notation "a +. b" := (Bin Add a b) (at level 50, left associativity).
Local Notation "a -. b" := (Bin Sub a b) (at level 50, left associativity).
Local Notation "a *. b" := (Bin Mul a b) (at level 40, left associativity).
Local Notation "a /. b" := (Bin Div a b) (at level 40, left associativity).

(* ---- "every result of the exact semantics satisfies P", as a structural predicate ------------- *)
Fixpoint allsem {A} (P : A -> Prop) (r : run A) : Prop :=
  match r with
  | Ret a => P a
  | Ask c a b k => forall x y, evalX a = Xreal x -> evalX b = Xreal y -> allsem P (k (rcmp c x y))
  | AskFloor e k => forall x, evalX e = Xreal x -> allsem P (k (Zfloor x))
  | Fail _ => True
  end.

Lemma allsem_evals {A} (P : A -> Prop) r : allsem P r <-> forall v, evals r v -> P v.
Proof.
  split.
  - intros H v E. induction E; cbn in H; auto.
  - induction r as [a|c a b k IH|e k IH|c]; cbn; intros H.
    + apply H. constructor.
    + intros x y Hx Hy. apply IH. intros v E. apply H. eapply EvAsk; eauto.
    + intros x Hx. apply IH. intros v E. apply H. eapply EvFloor; eauto.
    + exact I.
Qed.
Lemma allsem_elim {A} (P : A -> Prop) r v : allsem P r -> evals r v -> P v.
Proof. intros H. now apply allsem_evals. Qed.
Lemma allsem_mono {A} (P Q : A -> Prop) r : (forall a, P a -> Q a) -> allsem P r -> allsem Q r.
Proof. intros H. induction r; cbn; auto. Qed.
Lemma allsem_bind {A B} (Q : B -> Prop) (r : run A) (k : A -> run B) :
  allsem (fun a => allsem Q (k a)) r -> allsem Q (bind r k).
Proof. induction r; cbn; auto. Qed.
Lemma allsem_bind_any {A B} (Q : B -> Prop) (r : run A) (k : A -> run B) :
  (forall a, allsem Q (k a)) -> allsem Q (bind r k).
Proof. intros H. induction r; cbn; auto. Qed.
Lemma allsem_sbind {A B} (Q : B * list Z -> Prop) (P : A * list Z -> Prop) (m : sampler A) (k : A -> sampler B) ws :
  allsem P (m ws) -> (forall a ws', P (a, ws') -> allsem Q (k a ws')) -> allsem Q (sbind m k ws).
Proof.
  intros Hm Hk. unfold sbind. apply allsem_bind. eapply allsem_mono; [|exact Hm].
  intros [a ws'] Ha. apply Hk, Ha.
Qed.

Local Open Scope R_scope.

(* ---- expression values ---------------------------------------------------------------------------- *)
Definition pos (e : expr) : Prop := exists r, evalX e = Xreal r /\ 0 < r.
(* positive / nonnegative whenever defined *)
Definition dpos (e : expr) : Prop := forall x, evalX e = Xreal x -> 0 < x.
Definition dnn (e : expr) : Prop := forall x, evalX e = Xreal x -> 0 <= x.

Lemma dpos_dnn e : dpos e -> dnn e.
Proof. intros H x Hx. apply Rlt_le, H, Hx. Qed.
Lemma pos_dyx q : 0 < dyR q -> pos (dyx q).
Proof. intros H. exists (dyR q). split; [apply dyx_eval|exact H]. Qed.
Lemma one_eval : evalX one = Xreal 1.
Proof. unfold one. apply num_eval. Qed.

(* a * exp v is positive whenever defined, for positive a *)
Lemma dpos_mul_exp a v : pos a -> dpos (a *. eexp v).
Proof.
  intros [ra [Ha Pa]] x. cbn [eexp evalX xbin xun]. rewrite Ha. destruct (evalX v) as [|rv]; [discriminate|].
  cbn. intros H. injection H as <-. apply Rmult_lt_0_compat; [exact Pa|apply exp_pos].
Qed.

Ltac sstep := cbn [beta_bb beta_bc gamma_unscaled zig norm_tail sbind bind draw_open draw_std draw_oc next_word
                   sret sask sfail allsem negb fst snd].

(* the same without unfolding the loops (never use sstep on a goal containing a loop with literal fuel) *)
Ltac sstep0 := cbn [sbind bind draw_open draw_std draw_oc next_word sret sask sfail allsem negb fst snd].

(* ---- Beta: w/(b+w) and b/(b+w) with w = a exp v ----------------------------------------------------- *)
Definition is_aexp (a : expr) (p : expr * list Z) : Prop := exists v, fst p = a *. eexp v.

Lemma beta_bb_leaves fuel t a b alpha beta gamma ws :
  allsem (is_aexp a) (beta_bb fuel t a b alpha beta gamma ws).
Proof.
  revert ws. induction fuel as [|f IH]; intros ws; [exact I|].
  destruct ws as [|w1 [|w2 ws]]; [exact I|exact I|].
  sstep. intros x y _ _. destruct (rcmp CGe x y); sstep; [eexists; reflexivity|].
  intros x1 y1 _ _. destruct (rcmp CGe x1 y1); sstep; [eexists; reflexivity|].
  intros x2 y2 _ _. destruct (rcmp CLt x2 y2); sstep; [apply IH|eexists; reflexivity].
Qed.

Lemma beta_bc_leaves fuel t a b alpha beta k1 k2 ws :
  allsem (is_aexp a) (beta_bc fuel t a b alpha beta k1 k2 ws).
Proof.
  revert ws. induction fuel as [|f IH]; intros ws; [exact I|].
  destruct ws as [|w1 [|w2 ws]]; [exact I|exact I|].
  sstep. intros x y _ _. destruct (rcmp CLt x y); sstep.
  - intros x1 y1 _ _. destruct (rcmp CGe x1 y1); sstep; [apply IH|].
    intros x2 y2 _ _. destruct (rcmp CLt x2 y2); sstep; [apply IH|eexists; reflexivity].
  - intros x1 y1 _ _. destruct (rcmp CLe x1 y1); sstep; [eexists; reflexivity|].
    intros x2 y2 _ _. destruct (rcmp CGe x2 y2); sstep; [apply IH|].
    intros x3 y3 _ _. destruct (rcmp CLt x3 y3); sstep; [apply IH|eexists; reflexivity].
Qed.

(* the two forms of the result; {a, b} = {a0, b0} in some order *)
Definition unit_form (a0 b0 e : expr) : Prop :=
  exists a b v, ((a = a0 /\ b = b0) \/ (a = b0 /\ b = a0)) /\
                (e = (a *. eexp v) /. (b +. a *. eexp v) \/ e = b /. (b +. a *. eexp v)).

Lemma beta_e_leaves t lt gt1 a0 b0 ws :
  allsem (fun p => unit_form a0 b0 (fst p)) (beta_e t lt gt1 a0 b0 ws).
Proof.
  unfold beta_e. destruct lt, gt1; cbn [negb].
  all: (eapply allsem_sbind; [first [apply beta_bb_leaves|apply beta_bc_leaves]|]);
    intros w ws' [v Hv]; cbn [fst] in Hv; subst w; sstep; eexists _, _, v; split; cycle 1;
    [first [left; reflexivity|right; reflexivity]|auto].
Qed.

Lemma unit_form_range a0 b0 e x : pos a0 -> pos b0 -> unit_form a0 b0 e -> evalX e = Xreal x -> 0 < x < 1.
Proof.
  intros P0 Q0 (a & b & v & Hab & He) H.
  assert (pos a /\ pos b) as [[ra [Ea Pa]] [rb [Eb Pb]]] by (destruct Hab as [[-> ->]|[-> ->]]; auto).
  assert (forall rv, 0 < rb + ra * exp rv) as S.
  { intros rv. pose proof (exp_pos rv). pose proof (Rmult_lt_0_compat _ _ Pa H0). lra. }
  destruct He as [-> | ->]; cbn [eexp evalX xbin xun] in H; rewrite Ea, Eb in H;
    (destruct (evalX v) as [|rv]; [discriminate|]); specialize (S rv);
    pose proof (Rmult_lt_0_compat _ _ Pa (exp_pos rv)) as W;
    cbn [Xexp Xmul Xadd Xdiv Xlift Xbind Xlift2 Xbind2] in H; unfold Xdiv' in H;
    rewrite is_zero_false in H by lra; injection H as <-.
  - split; [apply div_gt_0; lra|apply div_lt_1; lra].
  - split; [apply div_gt_0; lra|apply div_lt_1; lra].
Qed.

(* Beta(alpha, beta) in (0, 1) on the ideal model, hence in [0, 1] *)
Theorem beta_in_open_unit t alpha beta ws e rest x :
  0 < dyR alpha -> 0 < dyR beta ->
  evals (Continuous.beta t alpha beta ws) (e, rest) -> evalX e = Xreal x -> 0 < x < 1.
Proof.
  intros Ha Hb E V. unfold Continuous.beta in E.
  pose proof (proj1 (allsem_evals _ _) (beta_e_leaves _ _ _ _ _ _) _ E) as U. cbn [fst] in U.
  apply (unit_form_range _ _ _ _ (pos_dyx _ Ha) (pos_dyx _ Hb) U V).
Qed.
Theorem beta_in_unit t alpha beta ws e rest x :
  0 < dyR alpha -> 0 < dyR beta ->
  evals (Continuous.beta t alpha beta ws) (e, rest) -> evalX e = Xreal x -> 0 <= x <= 1.
Proof. intros Ha Hb E V. pose proof (beta_in_open_unit _ _ _ _ _ _ _ Ha Hb E V). lra. Qed.

(* ---- exact comparison of dyadic parameters -------------------------------------------------------- *)
Lemma dyR_norm q e : (e <= snd q)%Z -> dyR q = IZR (fst q * 2 ^ (snd q - e)) * powerRZ 2 e.
Proof.
  intros H. unfold dyR. rewrite mult_IZR.
  change (2 ^ (snd q - e))%Z with (radix2 ^ (snd q - e))%Z.
  rewrite IZR_Zpower by lia. rewrite bpow_powerRZ. change (IZR radix2) with 2.
  rewrite Rmult_assoc, <- powerRZ_add by lra. do 2 f_equal. lia.
Qed.
Lemma dy_cmp_spec a b : dy_cmp a b = Rcompare (dyR a) (dyR b).
Proof.
  unfold dy_cmp. set (e := Z.min (snd a) (snd b)).
  rewrite (dyR_norm a e), (dyR_norm b e) by lia.
  rewrite Rcompare_mult_r by (apply powerRZ_lt; lra). now rewrite Rcompare_IZR.
Qed.
Lemma dy_ltb_true a b : dy_ltb a b = true -> dyR a < dyR b.
Proof. unfold dy_ltb. rewrite dy_cmp_spec. destruct (Rcompare_spec (dyR a) (dyR b)); try discriminate. auto. Qed.
Lemma dy_ltb_false a b : dy_ltb a b = false -> dyR b <= dyR a.
Proof. unfold dy_ltb. rewrite dy_cmp_spec. destruct (Rcompare_spec (dyR a) (dyR b)); try discriminate; lra. Qed.
Lemma dy_eqb_true a b : dy_eqb a b = true -> dyR a = dyR b.
Proof. unfold dy_eqb. rewrite dy_cmp_spec. destruct (Rcompare_spec (dyR a) (dyR b)); try discriminate; lra. Qed.
Lemma dy_eqb_false a b : dy_eqb a b = false -> dyR a <> dyR b.
Proof. unfold dy_eqb. rewrite dy_cmp_spec. destruct (Rcompare_spec (dyR a) (dyR b)); try discriminate; lra. Qed.
Lemma dyR_int n : dyR (n, 0%Z) = IZR n.
Proof. unfold dyR. cbn. ring. Qed.
Lemma dyR_nonneg q : (0 <= fst q)%Z -> 0 <= dyR q.
Proof.
  intros H. unfold dyR. apply Rmult_le_pos; [now apply IZR_le|]. apply Rlt_le, powerRZ_lt. lra.
Qed.

(* ---- closure of "positive when defined" ---------------------------------------------------------------- *)
Lemma pos_dpos e : pos e -> dpos e.
Proof. intros [r [E P]] x H. rewrite E in H. now injection H as <-. Qed.
Lemma mul_real a b x : evalX (a *. b) = Xreal x -> exists xa xb, evalX a = Xreal xa /\ evalX b = Xreal xb /\ x = xa * xb.
Proof.
  cbn [evalX xbin]. destruct (evalX a) as [|xa]; [discriminate|]. destruct (evalX b) as [|xb]; [discriminate|].
  intros H. injection H as <-. eauto.
Qed.
Lemma dpos_mul a b : dpos a -> dpos b -> dpos (a *. b).
Proof.
  intros Ha Hb x H. destruct (mul_real _ _ _ H) as (xa & xb & Ea & Eb & ->).
  apply Rmult_lt_0_compat; auto.
Qed.
Lemma dnn_mul a b : dnn a -> dnn b -> dnn (a *. b).
Proof.
  intros Ha Hb x H. destruct (mul_real _ _ _ H) as (xa & xb & Ea & Eb & ->).
  apply Rmult_le_pos; auto.
Qed.
Lemma dpos_pow a b : dpos (epow a b).
Proof.
  intros x. unfold epow. cbn [evalX xbin]. unfold Xpow.
  destruct (Xmul (evalX b) (Xln (evalX a))) as [|r]; [discriminate|]. cbn. intros H. injection H as <-. apply exp_pos.
Qed.
Lemma dnn_rnd e : dnn e -> dnn (rnd e).
Proof. intros H x. unfold rnd. cbn [evalX xun]. apply H. Qed.
Lemma pos_inv_inv s : pos s -> pos (one /. (one /. s)).
Proof.
  intros [r [E P]]. exists (1 / (1 / r)). cbn [evalX xbin]. rewrite E, one_eval.
  assert (0 < 1 / r) by (apply div_gt_0; lra).
  rewrite Xdiv_nz by lra. rewrite Xdiv_nz by lra. split; [reflexivity|apply div_gt_0; lra].
Qed.
Lemma pos_inv s : pos s -> pos (one /. s).
Proof.
  intros [r [E P]]. exists (1 / r). cbn [evalX xbin]. rewrite E, one_eval.
  rewrite Xdiv_nz by lra. split; [reflexivity|apply div_gt_0; lra].
Qed.
Lemma rat_eval p q : IZR q <> 0 -> evalX (rat p q) = Xreal (IZR p / IZR q).
Proof. intros H. unfold rat. cbn [evalX xbin]. rewrite !num_eval. now rewrite Xdiv_nz. Qed.

(* ---- Gamma ------------------------------------------------------------------------------------------------ *)
Lemma cube_dpos vc x0 : evalX vc = Xreal x0 -> 0 < x0 -> dpos (vc *. vc *. vc).
Proof.
  intros E P. apply dpos_mul; [apply dpos_mul|]; apply pos_dpos; exists x0; auto.
Qed.
(* Marsaglia-Tsang: the returned v = (1 + c x)^3 was tested positive *)
Lemma gamma_unscaled_leaves fuel t c d ws :
  allsem (fun p => dpos (fst p)) (gamma_unscaled fuel t c d ws).
Proof.
  revert ws. induction fuel as [|f IH]; intros ws; [exact I|].
  cbn [gamma_unscaled]. unfold sbind at 1. apply allsem_bind_any. intros [x ws1].
  sstep. intros x0 y0 Hx Hy. rewrite num_eval in Hy. injection Hy as <-.
  unfold rcmp. destruct (Rle_dec x0 0) as [L|L]; [apply IH|].
  assert (dpos ((one +. c *. x) *. (one +. c *. x) *. (one +. c *. x))) as V by (eapply cube_dpos; [exact Hx|lra]).
  destruct ws1 as [|w ws2]; sstep; [exact I|].
  intros x1 y1 _ _. destruct (rcmp CLt x1 y1); sstep; [exact V|].
  intros x2 y2 _ _. destruct (rcmp CLt x2 y2); sstep; [exact V|apply IH].
Qed.

(* ---- Exp1: the unsigned ziggurat -------------------------------------------------------------------------- *)
Definition tab_nonneg (X : list (Z * Z)) : Prop := Forall (fun q => (0 <= fst q)%Z) X.
Lemma tab_nonneg_eval X i : tab_nonneg X -> exists r, evalX (tab X i) = Xreal r /\ 0 <= r.
Proof.
  intros H. unfold tab. exists (dyR (nth i X (0, 0)%Z)). split; [apply dyx_eval|]. apply dyR_nonneg.
  revert i. induction H; intros [|i]; cbn; try lia; auto.
Qed.
(* decided by computation on the generated table *)
Lemma ZIG_EXP_X_nonneg : tab_nonneg ZIG_EXP_X.
Proof.
  apply Forall_forall. intros q H.
  assert (forallb (fun q => (0 <=? fst q)%Z) ZIG_EXP_X = true) as F by (vm_compute; reflexivity).
  rewrite forallb_forall in F. apply Z.leb_le, F, H.
Qed.
Lemma ZIG_EXP_R_nonneg : 0 <= dyR ZIG_EXP_R.
Proof. apply dyR_nonneg. vm_compute. discriminate. Qed.

Definition nn_words (p : expr * list Z) : Prop := dnn (fst p) /\ Forall word (snd p).

Lemma zig_unsigned_leaves X Fv pdf zero fuel ws :
  tab_nonneg X ->
  (forall um u ws', Forall word ws' -> allsem nn_words (zero um u ws')) ->
  Forall word ws -> allsem nn_words (zig fuel false X Fv pdf zero ws).
Proof.
  intros HX Hz. revert ws. induction fuel as [|f IH]; intros ws Hw; [exact I|].
  destruct ws as [|bits ws]; [exact I|]. inversion Hw as [|? ? Hb Hws]; subst.
  sstep. set (i := Z.to_nat (bits mod 256)). set (um := (2 * (bits / 2 ^ 12) + 1)%Z).
  assert (0 <= IZR um * powerRZ 2 (-53)) as U.
  { apply Rmult_le_pos; [|apply Rlt_le, powerRZ_lt; lra].
    apply IZR_le. unfold um. destruct Hb as [Hb _]. pose proof (Z.div_pos bits (2 ^ 12) Hb ltac:(lia)). lia. }
  assert (nn_words (Exact (Dy um (-53)) *. tab X i, ws)) as Leaf.
  { split; [|exact Hws]. cbn [fst]. intros x. cbn [evalX xbin]. rewrite xdy_real.
    destruct (tab_nonneg_eval X i HX) as [r [-> Hr]]. revert U. generalize (IZR um * powerRZ 2 (-53)).
    intros uu U. cbn [Xmul]. intros H. injection H as <-. apply Rmult_le_pos; assumption. }
  intros x y _ _. destruct (rcmp CLt x y); sstep; [exact Leaf|].
  destruct (Nat.eqb i 0); [apply Hz, Hws|].
  destruct ws as [|w2 ws3]; sstep; [exact I|]. inversion Hws; subst.
  intros x1 y1 _ _. destruct (rcmp CLt x1 y1); sstep.
  - split; [apply Leaf|assumption].
  - apply IH. assumption.
Qed.

Lemma exp_zero_leaves um u ws : Forall word ws -> allsem nn_words (exp_zero um u ws).
Proof.
  intros Hw. unfold exp_zero. destruct ws as [|w ws]; sstep; [exact I|]. inversion Hw as [|? ? Hb Hws]; subst.
  split; [|exact Hws]. cbn [fst]. intros x.
  destruct (u_open_range F64 w Hb) as (uu & EU & U0 & U1).
  change (evalX (dyx ZIG_EXP_R -. eln (u_open F64 w))) with (Xsub (evalX (dyx ZIG_EXP_R)) (Xln (evalX (u_open F64 w)))).
  rewrite dyx_eval, EU. pose proof ZIG_EXP_R_nonneg as R0.
  rewrite Xln_pos by lra. cbn [Xsub]. intros H. injection H as <-.
  assert (ln uu < 0); [|lra]. rewrite <- ln_1. apply ln_increasing; lra.
Qed.

(* the tail routine is defined for EVERY word: with the Open01 draw ln never sees 0 (repair of finding F5) *)
Lemma exp_zero_defined um u w ws : word w ->
  exists x, evals (exp_zero um u (w :: ws)) (dyx ZIG_EXP_R -. eln (u_open F64 w), ws) /\
            evalX (dyx ZIG_EXP_R -. eln (u_open F64 w)) = Xreal x /\ dyR ZIG_EXP_R < x.
Proof.
  intros Hb. destruct (u_open_range F64 w Hb) as (uu & EU & U0 & U1).
  exists (dyR ZIG_EXP_R - ln uu). split; [unfold exp_zero; cbn [sbind bind next_word sret]; constructor|].
  change (evalX (dyx ZIG_EXP_R -. eln (u_open F64 w))) with (Xsub (evalX (dyx ZIG_EXP_R)) (Xln (evalX (u_open F64 w)))).
  rewrite dyx_eval, EU, Xln_pos by lra. split; [reflexivity|].
  assert (ln uu < 0); [|lra]. rewrite <- ln_1. apply ln_increasing; lra.
Qed.

Lemma exp1_leaves t ws : Forall word ws -> allsem nn_words (exp1 t ws).
Proof.
  intros Hw.
  assert (allsem nn_words (exp1_64 ws)) as H64.
  { unfold exp1_64. apply zig_unsigned_leaves; auto using ZIG_EXP_X_nonneg, exp_zero_leaves. }
  destruct t; cbn [exp1]; [|exact H64].
  eapply allsem_sbind; [exact H64|]. intros a ws' [Ha Hws]. sstep. split; [apply dnn_rnd, Ha|exact Hws].
Qed.

(* Exp(lambda) >= 0 *)
Theorem exp_nonneg t lambda ws e rest x :
  0 < dyR lambda -> Forall word ws ->
  evals (exp_lambda t lambda ws) (e, rest) -> evalX e = Xreal x -> 0 <= x.
Proof.
  intros L Hw E. refine (allsem_elim (fun p => dnn (fst p)) _ _ _ E x).
  unfold exp_lambda. eapply allsem_sbind; [apply exp1_leaves, Hw|]. intros z ws' [Hz _]. sstep.
  apply dnn_mul; [exact Hz|]. apply dpos_dnn, pos_dpos, pos_inv, pos_dyx, L.
Qed.
Theorem exp1_nonneg t ws e rest x :
  Forall word ws -> evals (exp1 t ws) (e, rest) -> evalX e = Xreal x -> 0 <= x.
Proof.
  intros Hw E. apply (allsem_elim _ _ _ (exp1_leaves t ws Hw) E).
Qed.

(* ---- Gamma, ChiSquared: all three representations ------------------------------------------------------- *)
Lemma gamma_is_gamma_e t shape scale :
  gamma t shape scale = gamma_e t (dy_ltb shape (1, 0)%Z) (dy_eqb shape (1, 0)%Z) (dyx shape) (dyx scale).
Proof. reflexivity. Qed.

Lemma pos_sub_third shape s : evalX shape = Xreal s -> 1 / 3 < s -> pos (shape -. rat 1 3).
Proof.
  intros E H. exists (s - 1 / 3). cbn [evalX xbin]. rewrite E. change (evalX (rat 1 3)) with (evalX (rat 1 3)).
  rewrite rat_eval by lra. split; [reflexivity|lra].
Qed.

Lemma gamma_e_leaves t lt1 eq1 shape scale s ws :
  pos scale -> evalX shape = Xreal s -> Forall word ws ->
  (eq1 = false -> lt1 = true -> 0 < s) -> (eq1 = false -> lt1 = false -> 1 / 3 < s) ->
  allsem (fun p => dnn (fst p)) (gamma_e t lt1 eq1 shape scale ws).
Proof.
  intros Hsc Hs Hw H2 H3. unfold gamma_e, gamma_large_consts. destruct eq1.
  - eapply allsem_sbind; [apply exp1_leaves, Hw|]. intros z ws' [Hz _]. sstep.
    apply dnn_mul; [exact Hz|]. apply dpos_dnn, pos_dpos, pos_inv_inv, Hsc.
  - destruct lt1.
    + specialize (H2 eq_refl eq_refl).
      assert (pos (shape +. one -. rat 1 3)) as Hd.
      { apply (pos_sub_third _ (s + 1)); [|lra]. cbn [evalX xbin]. now rewrite Hs, one_eval. }
      destruct ws as [|w ws1]; [exact I|]. sstep0.
      eapply allsem_sbind; [apply gamma_unscaled_leaves|]. intros a ws' Ha. sstep0. cbn [fst] in Ha.
      apply dpos_dnn. repeat apply dpos_mul; auto using pos_dpos, dpos_pow.
    + specialize (H3 eq_refl eq_refl). pose proof (pos_sub_third _ _ Hs H3) as Hd.
      eapply allsem_sbind; [apply gamma_unscaled_leaves|]. intros v ws' Hv. sstep0. cbn [fst] in Hv.
      apply dpos_dnn. repeat apply dpos_mul; auto using pos_dpos.
Qed.

Theorem gamma_nonneg t shape scale ws e rest x :
  0 < dyR shape -> 0 < dyR scale -> Forall word ws ->
  evals (gamma t shape scale ws) (e, rest) -> evalX e = Xreal x -> 0 <= x.
Proof.
  intros Hk Hs Hw E. refine (allsem_elim (fun p => dnn (fst p)) _ _ _ E x).
  rewrite gamma_is_gamma_e. apply (gamma_e_leaves _ _ _ _ _ (dyR shape)); auto using pos_dyx, dyx_eval.
  intros Q L. apply dy_eqb_false in Q. apply dy_ltb_false in L. rewrite dyR_int in Q, L. lra.
Qed.

Theorem chi_squared_nonneg t k ws e rest x :
  0 < dyR k -> Forall word ws ->
  evals (chi_squared t k ws) (e, rest) -> evalX e = Xreal x -> 0 <= x.
Proof.
  intros Hk Hw E. refine (allsem_elim (fun p => dnn (fst p)) _ _ _ E x).
  unfold chi_squared. destruct (dy_eqb k (1, 0)%Z).
  - unfold sbind. apply allsem_bind_any. intros [z ws']. sstep.
    intros y H. destruct (mul_real _ _ _ H) as (a & b & Ea & Eb & ->). rewrite Ea in Eb. injection Eb as <-. nra.
  - assert (evalX (Exact (Dy (fst k) (snd k - 1))) = Xreal (dyR k / 2)) as Hs.
    { cbn [evalX]. rewrite xdy_real. f_equal. unfold dyR, Z.sub. rewrite powerRZ_add by lra.
      change (powerRZ 2 (- (1))) with (/ (2 * 1)). generalize (powerRZ 2 (snd k)). intros. field. }
    apply (gamma_e_leaves _ _ _ _ _ (dyR k / 2)); auto.
    + exists 2. split; [apply num_eval|lra].
    + intros _ _. lra.
    + intros Q L. apply dy_eqb_false in Q. apply dy_ltb_false in L. rewrite dyR_int in Q, L. lra.
Qed.

(* ---- single-draw families ------------------------------------------------------------------------------------ *)
Lemma one_draw_inv {A} (m : sampler A) (f : Z -> A) ws v rest :
  (forall w ws', m (w :: ws') = Ret (f w, ws')) -> m [] = Fail 1%Z ->
  evals (m ws) (v, rest) -> exists w, ws = w :: rest /\ v = f w.
Proof.
  intros H1 H0 E. destruct ws as [|w ws'].
  - rewrite H0 in E. inversion E.
  - rewrite H1 in E. inversion E; subst. eauto.
Qed.

(* Weibull > 0 (whenever defined: the draw u = 1 gives 0^(1/k), undefined in the ideal model) *)
Theorem weibull_pos t scale shape ws e rest x :
  0 < dyR scale -> evals (weibull t scale shape ws) (e, rest) -> evalX e = Xreal x -> 0 < x.
Proof.
  intros Hs E. destruct (one_draw_inv _ (weibull_expr t scale shape) _ _ _ (weibull_run t scale shape) eq_refl E)
    as [w [-> ->]].
  revert x. unfold weibull_expr. apply dpos_mul; [apply pos_dpos, pos_dyx, Hs|apply dpos_pow].
Qed.
Theorem weibull_nonneg t scale shape ws e rest x :
  0 < dyR scale -> evals (weibull t scale shape ws) (e, rest) -> evalX e = Xreal x -> 0 <= x.
Proof. intros Hs E V. apply Rlt_le. eapply weibull_pos; eauto. Qed.

(* Frechet > location *)
Lemma add_gt loc e2 x : dpos e2 -> evalX (dyx loc +. e2) = Xreal x -> dyR loc < x.
Proof.
  intros P. cbn [evalX xbin]. rewrite dyx_eval. destruct (evalX e2) as [|r] eqn:E; [discriminate|].
  cbn [Xadd]. intros H. injection H as <-. specialize (P r E). lra.
Qed.
Theorem frechet_gt_loc t loc scale shape ws e rest x :
  0 < dyR scale -> evals (frechet t loc scale shape ws) (e, rest) -> evalX e = Xreal x -> dyR loc < x.
Proof.
  intros Hs E. destruct (one_draw_inv _ (frechet_expr t loc scale shape) _ _ _ (frechet_run t loc scale shape) eq_refl E)
    as [w [-> ->]].
  unfold frechet_expr. apply add_gt. apply dpos_mul; [apply pos_dpos, pos_dyx, Hs|apply dpos_pow].
Qed.

(* Pareto >= scale *)
Theorem pareto_ge_scale t scale shape ws e rest x :
  0 < dyR scale -> 0 < dyR shape -> Forall word ws ->
  evals (pareto t scale shape ws) (e, rest) -> evalX e = Xreal x -> dyR scale <= x.
Proof.
  intros Hs Hk Hw E. destruct (one_draw_inv _ (pareto_expr t scale shape) _ _ _ (pareto_run t scale shape) eq_refl E)
    as [w [-> ->]]. inversion Hw as [|? ? Hb _]; subst.
  rewrite pareto_value by assumption. intros H. injection H as <-.
  pose proof (uR_oc_range t w Hb) as [U0 U1]. unfold Q_pareto, Rpower.
  assert (0 <= -1 / dyR shape * ln (uR_oc t w)) as N.
  { assert (ln (uR_oc t w) <= 0).
    { destruct U1 as [U1|U1]; [|rewrite U1, ln_1; lra]. rewrite <- ln_1. apply Rlt_le, ln_increasing; lra. }
    assert (0 < / dyR shape) by now apply Rinv_0_lt_compat. unfold Rdiv. nra. }
  assert (1 <= exp (-1 / dyR shape * ln (uR_oc t w))).
  { rewrite <- exp_0. destruct N as [N|N]; [apply Rlt_le, exp_increasing, N|rewrite <- N; lra]. }
  nra.
Qed.

(* Triangular in [min, max] *)
Lemma Q_tri_range a b c u : a < b -> a <= c <= b -> 0 <= u < 1 -> a <= LawsTriangular.Q_tri a b c u <= b.
Proof.
  intros Hab Hc Hu. unfold LawsTriangular.Q_tri.
  destruct (LawsTriangular.tri_radicands a b c u (Rlt_le _ _ Hab) Hc Hu) as [R1 R2].
  destruct (Rlt_dec (u * (b - a)) (c - a)) as [L|L].
  - pose proof (sqrt_pos (u * (b - a) * (c - a))).
    assert (sqrt (u * (b - a) * (c - a)) <= c - a); [|lra].
    apply LawsTriangular.sqrt_le_sq; [exact R1|lra|]. nra.
  - pose proof (sqrt_pos ((b - a - u * (b - a)) * (b - c))).
    assert (sqrt ((b - a - u * (b - a)) * (b - c)) <= b - c); [|lra].
    apply LawsTriangular.sqrt_le_sq; [exact R2|lra|]. nra.
Qed.
Theorem triangular_in_range t mn mx mode ws e rest x :
  dyR mn < dyR mx -> dyR mn <= dyR mode <= dyR mx -> Forall word ws ->
  evals (triangular t mn mx mode ws) (e, rest) -> evalX e = Xreal x -> dyR mn <= x <= dyR mx.
Proof.
  intros Hab Hc Hw E V. destruct ws as [|w ws']; [inversion E|]. inversion Hw as [|? ? Hb _]; subst.
  destruct (LawsTriangular.triangular_value t mn mx mode w ws') as [_ H]. destruct (H _ E) as [_ H2].
  cbn [fst] in H2. rewrite H2 in V. injection V as <-.
  apply Q_tri_range; auto. apply uR_std_range, Hb.
Qed.

(* Pert = min + Beta(v, w) * (max - min) in (min, max) *)
Definition pert_v (mn mx mode shape : Z * Z) : expr := one +. dyx shape *. (dyx mode -. dyx mn) /. (dyx mx -. dyx mn).
Definition pert_w (mn mx mode shape : Z * Z) : expr := one +. dyx shape *. (dyx mx -. dyx mode) /. (dyx mx -. dyx mn).

Lemma pert_leaves t mn mx mode shape ws :
  allsem (fun p => exists b, unit_form (pert_v mn mx mode shape) (pert_w mn mx mode shape) b /\
                             fst p = b *. (dyx mx -. dyx mn) +. dyx mn)
         (pert t mn mx mode shape ws).
Proof.
  unfold pert. sstep. intros x y _ _. sstep. intros x1 y1 _ _. sstep.
  eapply allsem_sbind; [apply beta_e_leaves|]. intros b ws' U. sstep. exists b. split; [exact U|reflexivity].
Qed.

Theorem pert_in_range t mn mx mode shape ws e rest x :
  dyR mn < dyR mx -> dyR mn <= dyR mode <= dyR mx -> 0 <= dyR shape ->
  evals (pert t mn mx mode shape ws) (e, rest) -> evalX e = Xreal x -> dyR mn <= x <= dyR mx.
Proof.
  intros Hab Hc Hs E V.
  destruct (allsem_elim _ _ _ (pert_leaves t mn mx mode shape ws) E) as [b [U Hb]]. cbn [fst] in Hb. subst e.
  assert (forall q, 0 <= q -> 0 < 1 + dyR shape * q / (dyR mx - dyR mn)) as P.
  { intros q Hq. assert (0 <= dyR shape * q / (dyR mx - dyR mn)); [|lra].
    apply div_ge_0; [lra|]. apply Rmult_le_pos; assumption. }
  assert (pos (pert_v mn mx mode shape)) as Pv.
  { exists (1 + dyR shape * (dyR mode - dyR mn) / (dyR mx - dyR mn)). unfold pert_v. cbn [evalX xbin].
    rewrite !dyx_eval, one_eval. cbn [Xsub Xmul]. unfold Xdiv'. rewrite is_zero_false by lra. split; [reflexivity|apply P; lra]. }
  assert (pos (pert_w mn mx mode shape)) as Pw.
  { exists (1 + dyR shape * (dyR mx - dyR mode) / (dyR mx - dyR mn)). unfold pert_w. cbn [evalX xbin].
    rewrite !dyx_eval, one_eval. cbn [Xsub Xmul]. unfold Xdiv'. rewrite is_zero_false by lra. split; [reflexivity|apply P; lra]. }
  cbn [evalX xbin] in V. rewrite !dyx_eval in V. destruct (evalX b) as [|rb] eqn:Eb; [discriminate|].
  pose proof (unit_form_range _ _ _ _ Pv Pw U Eb) as B.
  cbn [Xsub Xmul Xadd] in V. injection V as <-. nra.
Qed.
