(* Proofs/Support.v — part of property C03 on the ideal real-number models of Model/Continuous.v:
   every result the exact semantics `evals` can produce whose expression denotes a real number
   lies in the support of the distribution.                                                        *)
From Coq Require Import Reals ZArith List Lra Lia Bool.
From Interval Require Import Xreal.
From Flocq Require Import Core.
From RD Require Import Base.Expr Base.Run Model.Sampler Model.Continuous Gen.ZigTables Proofs.LawsInvCdf.
Import ListNotations.
Open Scope Z_scope.
Open Scope sampler_scope.

Local Notation "a +. b" := (Bin Add a b) (at level 50, left associativity).
Local Notation "a -. b" := (Bin Sub a b) (at level 50, left associativity).
Local Notation "a *. b" := (Bin Mul a b) (at level 40, left associativity).
Local Notation "a /. b" := (Bin Div a b) (at level 40, left associativity).

(* ---- "every result of the exact semantics satisfies P", as a structural predicate ------------- *)
Fixpoint allsem {A} (P : A -> Prop) (r : run A) : Prop :=
  match r with
  | Ret a => P a
  | Ask c a b k => forall x y, evalX a = Xreal x -> evalX b = Xreal y -> allsem P (k (rcmp c x y))
  | AskFloor e k => forall x, evalX e = Xreal x -> allsem P (k (Zfloor x))
  | Fail _ => True
  end.

Lemma allsem_evals {A} (P : A -> Prop) r : allsem P r <-> forall v, evals r v -> P v.
Proof.
  split.
  - intros H v E. induction E; cbn in H; auto.
  - induction r as [a|c a b k IH|e k IH|c]; cbn; intros H.
    + apply H. constructor.
    + intros x y Hx Hy. apply IH. intros v E. apply H. eapply EvAsk; eauto.
    + intros x Hx. apply IH. intros v E. apply H. eapply EvFloor; eauto.
    + exact I.
Qed.
Lemma allsem_mono {A} (P Q : A -> Prop) r : (forall a, P a -> Q a) -> allsem P r -> allsem Q r.
Proof. intros H. induction r; cbn; auto. Qed.
Lemma allsem_bind {A B} (Q : B -> Prop) (r : run A) (k : A -> run B) :
  allsem (fun a => allsem Q (k a)) r -> allsem Q (bind r k).
Proof. induction r; cbn; auto. Qed.
Lemma allsem_bind_any {A B} (Q : B -> Prop) (r : run A) (k : A -> run B) :
  (forall a, allsem Q (k a)) -> allsem Q (bind r k).
Proof. intros H. induction r; cbn; auto. Qed.
Lemma allsem_sbind {A B} (Q : B * list Z -> Prop) (P : A * list Z -> Prop) (m : sampler A) (k : A -> sampler B) ws :
  allsem P (m ws) -> (forall a ws', P (a, ws') -> allsem Q (k a ws')) -> allsem Q (sbind m k ws).
Proof.
  intros Hm Hk. unfold sbind. apply allsem_bind. eapply allsem_mono; [|exact Hm].
  intros [a ws'] Ha. apply Hk, Ha.
Qed.

Local Open Scope R_scope.

(* ---- expression values ---------------------------------------------------------------------------- *)
Definition pos (e : expr) : Prop := exists r, evalX e = Xreal r /\ 0 < r.
(* positive / nonnegative whenever defined *)
Definition dpos (e : expr) : Prop := forall x, evalX e = Xreal x -> 0 < x.
Definition dnn (e : expr) : Prop := forall x, evalX e = Xreal x -> 0 <= x.

Lemma dpos_dnn e : dpos e -> dnn e.
Proof. intros H x Hx. apply Rlt_le, H, Hx. Qed.
Lemma pos_dyx q : 0 < dyR q -> pos (dyx q).
Proof. intros H. exists (dyR q). split; [apply dyx_eval|exact H]. Qed.
Lemma one_eval : evalX one = Xreal 1.
Proof. unfold one. apply num_eval. Qed.

(* a * exp v is positive whenever defined, for positive a *)
Lemma dpos_mul_exp a v : pos a -> dpos (a *. eexp v).
Proof.
  intros [ra [Ha Pa]] x. cbn [eexp evalX xbin xun]. rewrite Ha. destruct (evalX v) as [|rv]; [discriminate|].
  cbn. intros H. injection H as <-. apply Rmult_lt_0_compat; [exact Pa|apply exp_pos].
Qed.

Ltac sstep := cbn [beta_bb beta_bc gamma_unscaled zig norm_tail sbind bind draw_open draw_std draw_oc next_word
                   sret sask sfail allsem negb fst snd].

(* ---- Beta: w/(b+w) and b/(b+w) with w = a exp v ----------------------------------------------------- *)
Definition is_aexp (a : expr) (p : expr * list Z) : Prop := exists v, fst p = a *. eexp v.

Lemma beta_bb_leaves fuel t a b alpha beta gamma ws :
  allsem (is_aexp a) (beta_bb fuel t a b alpha beta gamma ws).
Proof.
  revert ws. induction fuel as [|f IH]; intros ws; [exact I|].
  destruct ws as [|w1 [|w2 ws]]; [exact I|exact I|].
  sstep. intros x y _ _. destruct (rcmp CGe x y); sstep; [eexists; reflexivity|].
  intros x1 y1 _ _. destruct (rcmp CGe x1 y1); sstep; [eexists; reflexivity|].
  intros x2 y2 _ _. destruct (rcmp CLt x2 y2); sstep; [apply IH|eexists; reflexivity].
Qed.

Lemma beta_bc_leaves fuel t a b alpha beta k1 k2 ws :
  allsem (is_aexp a) (beta_bc fuel t a b alpha beta k1 k2 ws).
Proof.
  revert ws. induction fuel as [|f IH]; intros ws; [exact I|].
  destruct ws as [|w1 [|w2 ws]]; [exact I|exact I|].
  sstep. intros x y _ _. destruct (rcmp CLt x y); sstep.
  - intros x1 y1 _ _. destruct (rcmp CGe x1 y1); sstep; [apply IH|].
    intros x2 y2 _ _. destruct (rcmp CLt x2 y2); sstep; [apply IH|eexists; reflexivity].
  - intros x1 y1 _ _. destruct (rcmp CLe x1 y1); sstep; [eexists; reflexivity|].
    intros x2 y2 _ _. destruct (rcmp CGe x2 y2); sstep; [apply IH|].
    intros x3 y3 _ _. destruct (rcmp CLt x3 y3); sstep; [apply IH|eexists; reflexivity].
Qed.

(* the two forms of the result; {a, b} = {a0, b0} in some order *)
Definition unit_form (a0 b0 e : expr) : Prop :=
  exists a b v, ((a = a0 /\ b = b0) \/ (a = b0 /\ b = a0)) /\
                (e = (a *. eexp v) /. (b +. a *. eexp v) \/ e = b /. (b +. a *. eexp v)).

Lemma beta_e_leaves t lt gt1 a0 b0 ws :
  allsem (fun p => unit_form a0 b0 (fst p)) (beta_e t lt gt1 a0 b0 ws).
Proof.
  unfold beta_e. destruct lt, gt1; cbn [negb].
  all: (eapply allsem_sbind; [first [apply beta_bb_leaves|apply beta_bc_leaves]|]);
    intros w ws' [v Hv]; cbn [fst] in Hv; subst w; sstep; eexists _, _, v; split; cycle 1;
    [first [left; reflexivity|right; reflexivity]|auto].
Qed.

Lemma unit_form_range a0 b0 e x : pos a0 -> pos b0 -> unit_form a0 b0 e -> evalX e = Xreal x -> 0 < x < 1.
Proof.
  intros P0 Q0 (a & b & v & Hab & He) H.
  assert (pos a /\ pos b) as [[ra [Ea Pa]] [rb [Eb Pb]]] by (destruct Hab as [[-> ->]|[-> ->]]; auto).
  assert (forall rv, 0 < rb + ra * exp rv) as S.
  { intros rv. pose proof (exp_pos rv). pose proof (Rmult_lt_0_compat _ _ Pa H0). lra. }
  destruct He as [-> | ->]; cbn [eexp evalX xbin xun] in H; rewrite Ea, Eb in H;
    (destruct (evalX v) as [|rv]; [discriminate|]); specialize (S rv);
    pose proof (Rmult_lt_0_compat _ _ Pa (exp_pos rv)) as W;
    cbn [Xexp Xmul Xadd Xdiv Xlift Xbind Xlift2 Xbind2] in H; unfold Xdiv' in H;
    rewrite is_zero_false in H by lra; injection H as <-.
  - split; [apply div_gt_0; lra|apply div_lt_1; lra].
  - split; [apply div_gt_0; lra|apply div_lt_1; lra].
Qed.

(* Beta(alpha, beta) in (0, 1) on the ideal model, hence in [0, 1] *)
Theorem beta_in_open_unit t alpha beta ws e rest x :
  0 < dyR alpha -> 0 < dyR beta ->
  evals (Continuous.beta t alpha beta ws) (e, rest) -> evalX e = Xreal x -> 0 < x < 1.
Proof.
  intros Ha Hb E V. unfold Continuous.beta in E.
  pose proof (proj1 (allsem_evals _ _) (beta_e_leaves _ _ _ _ _ _) _ E) as U. cbn [fst] in U.
  apply (unit_form_range _ _ _ _ (pos_dyx _ Ha) (pos_dyx _ Hb) U V).
Qed.
Theorem beta_in_unit t alpha beta ws e rest x :
  0 < dyR alpha -> 0 < dyR beta ->
  evals (Continuous.beta t alpha beta ws) (e, rest) -> evalX e = Xreal x -> 0 <= x <= 1.
Proof. intros Ha Hb E V. pose proof (beta_in_open_unit _ _ _ _ _ _ _ Ha Hb E V). lra. Qed.

(* ---- exact comparison of dyadic parameters -------------------------------------------------------- *)
Lemma dyR_norm q e : (e <= snd q)%Z -> dyR q = IZR (fst q * 2 ^ (snd q - e)) * powerRZ 2 e.
Proof.
  intros H. unfold dyR. rewrite mult_IZR.
  change (2 ^ (snd q - e))%Z with (radix2 ^ (snd q - e))%Z.
  rewrite IZR_Zpower by lia. rewrite bpow_powerRZ. change (IZR radix2) with 2.
  rewrite Rmult_assoc, <- powerRZ_add by lra. do 2 f_equal. lia.
Qed.
Lemma dy_cmp_spec a b : dy_cmp a b = Rcompare (dyR a) (dyR b).
Proof.
  unfold dy_cmp. set (e := Z.min (snd a) (snd b)).
  rewrite (dyR_norm a e), (dyR_norm b e) by lia.
  rewrite Rcompare_mult_r by (apply powerRZ_lt; lra). now rewrite Rcompare_IZR.
Qed.
Lemma dy_ltb_true a b : dy_ltb a b = true -> dyR a < dyR b.
Proof. unfold dy_ltb. rewrite dy_cmp_spec. destruct (Rcompare_spec (dyR a) (dyR b)); try discriminate. auto. Qed.
Lemma dy_ltb_false a b : dy_ltb a b = false -> dyR b <= dyR a.
Proof. unfold dy_ltb. rewrite dy_cmp_spec. destruct (Rcompare_spec (dyR a) (dyR b)); try discriminate; lra. Qed.
Lemma dy_eqb_true a b : dy_eqb a b = true -> dyR a = dyR b.
Proof. unfold dy_eqb. rewrite dy_cmp_spec. destruct (Rcompare_spec (dyR a) (dyR b)); try discriminate; lra. Qed.
Lemma dy_eqb_false a b : dy_eqb a b = false -> dyR a <> dyR b.
Proof. unfold dy_eqb. rewrite dy_cmp_spec. destruct (Rcompare_spec (dyR a) (dyR b)); try discriminate; lra. Qed.
Lemma dyR_int n : dyR (n, 0%Z) = IZR n.
Proof. unfold dyR. cbn. ring. Qed.
Lemma dyR_nonneg q : (0 <= fst q)%Z -> 0 <= dyR q.
Proof.
  intros H. unfold dyR. apply Rmult_le_pos; [now apply IZR_le|]. apply Rlt_le, powerRZ_lt. lra.
Qed.

(* ---- closure of "positive when defined" ---------------------------------------------------------------- *)
Lemma pos_dpos e : pos e -> dpos e.
Proof. intros [r [E P]] x H. rewrite E in H. now injection H as <-. Qed.
Lemma mul_real a b x : evalX (a *. b) = Xreal x -> exists xa xb, evalX a = Xreal xa /\ evalX b = Xreal xb /\ x = xa * xb.
Proof.
  cbn [evalX xbin]. destruct (evalX a) as [|xa]; [discriminate|]. destruct (evalX b) as [|xb]; [discriminate|].
  intros H. injection H as <-. eauto.
Qed.
Lemma dpos_mul a b : dpos a -> dpos b -> dpos (a *. b).
Proof.
  intros Ha Hb x H. destruct (mul_real _ _ _ H) as (xa & xb & Ea & Eb & ->).
  apply Rmult_lt_0_compat; auto.
Qed.
Lemma dnn_mul a b : dnn a -> dnn b -> dnn (a *. b).
Proof.
  intros Ha Hb x H. destruct (mul_real _ _ _ H) as (xa & xb & Ea & Eb & ->).
  apply Rmult_le_pos; auto.
Qed.
Lemma dpos_pow a b : dpos (epow a b).
Proof.
  intros x. unfold epow. cbn [evalX xbin]. unfold Xpow.
  destruct (Xmul (evalX b) (Xln (evalX a))) as [|r]; [discriminate|]. cbn. intros H. injection H as <-. apply exp_pos.
Qed.
Lemma dnn_rnd e : dnn e -> dnn (rnd e).
Proof. intros H x. unfold rnd. cbn [evalX xun]. apply H. Qed.
Lemma pos_inv_inv s : pos s -> pos (one /. (one /. s)).
Proof.
  intros [r [E P]]. exists (1 / (1 / r)). cbn [evalX xbin]. rewrite E, one_eval.
  assert (0 < 1 / r) by (apply div_gt_0; lra).
  rewrite Xdiv_nz by lra. rewrite Xdiv_nz by lra. split; [reflexivity|apply div_gt_0; lra].
Qed.
Lemma pos_inv s : pos s -> pos (one /. s).
Proof.
  intros [r [E P]]. exists (1 / r). cbn [evalX xbin]. rewrite E, one_eval.
  rewrite Xdiv_nz by lra. split; [reflexivity|apply div_gt_0; lra].
Qed.
Lemma rat_eval p q : IZR q <> 0 -> evalX (rat p q) = Xreal (IZR p / IZR q).
Proof. intros H. unfold rat. cbn [evalX xbin]. rewrite !num_eval. now rewrite Xdiv_nz. Qed.

(* ---- Gamma ------------------------------------------------------------------------------------------------ *)
Lemma cube_dpos vc x0 : evalX vc = Xreal x0 -> 0 < x0 -> dpos (vc *. vc *. vc).
Proof.
  intros E P. apply dpos_mul; [apply dpos_mul|]; apply pos_dpos; exists x0; auto.
Qed.
(* Marsaglia-Tsang: the returned v = (1 + c x)^3 was tested positive *)
Lemma gamma_unscaled_leaves fuel t c d ws :
  allsem (fun p => dpos (fst p)) (gamma_unscaled fuel t c d ws).
Proof.
  revert ws. induction fuel as [|f IH]; intros ws; [exact I|].
  cbn [gamma_unscaled]. unfold sbind at 1. apply allsem_bind_any. intros [x ws1].
  sstep. intros x0 y0 Hx Hy. rewrite num_eval in Hy. injection Hy as <-.
  unfold rcmp. destruct (Rle_dec x0 0) as [L|L]; [apply IH|].
  assert (dpos ((one +. c *. x) *. (one +. c *. x) *. (one +. c *. x))) as V by (eapply cube_dpos; [exact Hx|lra]).
  destruct ws1 as [|w ws2]; sstep; [exact I|].
  intros x1 y1 _ _. destruct (rcmp CLt x1 y1); sstep; [exact V|].
  intros x2 y2 _ _. destruct (rcmp CLt x2 y2); sstep; [exact V|apply IH].
Qed.

(* ---- Exp1: the unsigned ziggurat -------------------------------------------------------------------------- *)
Definition tab_nonneg (X : list (Z * Z)) : Prop := Forall (fun q => (0 <= fst q)%Z) X.
Lemma tab_nonneg_eval X i : tab_nonneg X -> exists r, evalX (tab X i) = Xreal r /\ 0 <= r.
Proof.
  intros H. unfold tab. exists (dyR (nth i X (0, 0)%Z)). split; [apply dyx_eval|]. apply dyR_nonneg.
  revert i. induction H; intros [|i]; cbn; try lia; auto.
Qed.
(* decided by computation on the generated table *)
Lemma ZIG_EXP_X_nonneg : tab_nonneg ZIG_EXP_X.
Proof.
  apply Forall_forall. intros q H.
  assert (forallb (fun q => (0 <=? fst q)%Z) ZIG_EXP_X = true) as F by (vm_compute; reflexivity).
  rewrite forallb_forall in F. apply Z.leb_le, F, H.
Qed.
Lemma ZIG_EXP_R_nonneg : 0 <= dyR ZIG_EXP_R.
Proof. apply dyR_nonneg. vm_compute. discriminate. Qed.

Definition nn_words (p : expr * list Z) : Prop := dnn (fst p) /\ Forall word (snd p).

Lemma zig_unsigned_leaves X Fv pdf zero fuel ws :
  tab_nonneg X ->
  (forall um u ws', Forall word ws' -> allsem nn_words (zero um u ws')) ->
  Forall word ws -> allsem nn_words (zig fuel false X Fv pdf zero ws).
Proof.
  intros HX Hz. revert ws. induction fuel as [|f IH]; intros ws Hw; [exact I|].
  destruct ws as [|bits ws]; [exact I|]. inversion Hw as [|? ? Hb Hws]; subst.
  sstep. set (i := Z.to_nat (bits mod 256)). set (um := (2 * (bits / 2 ^ 12) + 1)%Z).
  assert (0 <= IZR um * powerRZ 2 (-53)) as U.
  { apply Rmult_le_pos; [|apply Rlt_le, powerRZ_lt; lra].
    apply IZR_le. unfold um. destruct Hb as [Hb _]. pose proof (Z.div_pos bits (2 ^ 12) Hb ltac:(lia)). lia. }
  assert (nn_words (Exact (Dy um (-53)) *. tab X i, ws)) as Leaf.
  { split; [|exact Hws]. cbn [fst]. intros x. cbn [evalX xbin]. rewrite xdy_real.
    destruct (tab_nonneg_eval X i HX) as [r [-> Hr]]. revert U. generalize (IZR um * powerRZ 2 (-53)).
    intros uu U. cbn [Xmul]. intros H. injection H as <-. apply Rmult_le_pos; assumption. }
  intros x y _ _. destruct (rcmp CLt x y); sstep; [exact Leaf|].
  destruct (Nat.eqb i 0); [apply Hz, Hws|].
  destruct ws as [|w2 ws3]; sstep; [exact I|]. inversion Hws; subst.
  intros x1 y1 _ _. destruct (rcmp CLt x1 y1); sstep.
  - split; [apply Leaf|assumption].
  - apply IH. assumption.
Qed.

Lemma exp_zero_leaves um u ws : Forall word ws -> allsem nn_words (exp_zero um u ws).
Proof.
  intros Hw. unfold exp_zero. destruct ws as [|w ws]; sstep; [exact I|]. inversion Hw as [|? ? Hb Hws]; subst.
  split; [|exact Hws]. cbn [fst]. intros x. cbn [eln evalX xbin xun]. rewrite dyx_eval, u_std_eval.
  pose proof (uR_std_range F64 w Hb) as [U0 U1]. pose proof ZIG_EXP_R_nonneg as R0.
  revert U0 U1 R0. generalize (uR_std F64 w) (dyR ZIG_EXP_R). intros uu r U0 U1 R0.
  destruct (Rle_dec uu 0) as [Z|Z].
  - rewrite Xln_nonpos by exact Z. discriminate.
  - rewrite Xln_pos by lra. cbn [Xsub]. intros H. injection H as <-.
    assert (ln uu < 0); [|lra]. rewrite <- ln_1. apply ln_increasing; lra.
Qed.

Lemma exp1_leaves t ws : Forall word ws -> allsem nn_words (exp1 t ws).
Proof.
  intros Hw.
  assert (allsem nn_words (exp1_64 ws)) as H64.
  { unfold exp1_64. apply zig_unsigned_leaves; auto using ZIG_EXP_X_nonneg, exp_zero_leaves. }
  destruct t; cbn [exp1]; [|exact H64].
  eapply allsem_sbind; [exact H64|]. intros a ws' [Ha Hws]. sstep. split; [apply dnn_rnd, Ha|exact Hws].
Qed.

(* Exp(lambda) >= 0 *)
Theorem exp_nonneg t lambda ws e rest x :
  0 < dyR lambda -> Forall word ws ->
  evals (exp_lambda t lambda ws) (e, rest) -> evalX e = Xreal x -> 0 <= x.
Proof.
  intros L Hw E. revert x. change (dnn (fst (e, rest))). revert E. apply allsem_evals.
  unfold exp_lambda. eapply allsem_sbind; [apply exp1_leaves, Hw|]. intros z ws' [Hz _]. sstep.
  apply dnn_mul; [exact Hz|]. apply dpos_dnn, pos_dpos, pos_inv, pos_dyx, L.
Qed.
Theorem exp1_nonneg t ws e rest x :
  Forall word ws -> evals (exp1 t ws) (e, rest) -> evalX e = Xreal x -> 0 <= x.
Proof.
  intros Hw E. revert x. change (dnn (fst (e, rest))).
  apply (proj1 (allsem_evals _ _) (exp1_leaves t ws Hw) _ E).
Qed.
