(* Proofs/TreeOps.v — new / push / pop / update establish and preserve Rep,
   never reach Panic for in-range arguments, and report Overflow exactly when the
   total would leave the weight type.  Stdlib only; axiom-free.               *)
From Coq Require Import ZArith List Bool Arith Lia.
From RD Require Import Model.Tree Proofs.TreeBasics.
Import ListNotations.
Open Scope Z_scope.

Definition wf_ty (ty : wty) : Prop := wlo ty <= 0 <= whi ty.

Lemma inr_ok ty v : wf_ty ty -> 0 <= v <= whi ty -> inr ty v = true.
Proof. unfold wf_ty, inr. intros. apply andb_true_iff. split; apply Z.leb_le; lia. Qed.

(* ---- zero leaves ------------------------------------------------------------ *)
Lemma sub_app0 t c : sub (t ++ [0]) c = sub t c.
Proof. unfold sub. rewrite app_length. simpl.
  destruct (Nat.ltb_spec c (length t + 1)), (Nat.ltb_spec c (length t)); try lia.
  - now apply nthz_app_l.
  - rewrite nthz_app_r by lia. replace (c - length t)%nat with 0%nat by lia. reflexivity.
Qed.

Lemma rep_app0 w t : Rep w t -> Rep (w ++ [0]) (t ++ [0]).
Proof. intros [L R]. split; [rewrite !app_length; simpl; lia|].
  rewrite app_length. simpl. intros i Hi. rewrite !sub_app0.
  destruct (Nat.eq_dec i (length t)) as [->|Hne].
  - rewrite (nthz_app_r t) by lia. rewrite (nthz_app_r w) by lia. rewrite Nat.sub_diag.
    replace (length t - length w)%nat with 0%nat by lia. rewrite !sub_out by lia. reflexivity.
  - rewrite !nthz_app_l by lia. apply R. lia.
Qed.

Lemma rep_unapp0 w t : Rep (w ++ [0]) (t ++ [0]) -> Rep w t.
Proof. intros [L R]. rewrite !app_length in L. simpl in L. split; [lia|].
  intros i Hi. specialize (R i). rewrite app_length in R. simpl in R. specialize (R ltac:(lia)).
  rewrite !sub_app0 in R. rewrite !nthz_app_l in R by lia. exact R.
Qed.

Lemma upd_last (w : list Z) x y : upd (w ++ [x]) (length w) y = w ++ [y].
Proof. induction w; simpl; auto. now rewrite IHw. Qed.
Lemma upd_same_val (w : list Z) i : upd w i (nthz w i) = w.
Proof. revert i. induction w as [|a r IH]; intros [|i]; simpl; auto. unfold nthz in *. simpl. now rewrite IH. Qed.
Lemma nonneg_app w x : Nonneg w -> 0 <= x -> Nonneg (w ++ [x]).
Proof. intros N Hx i. destruct (Nat.ltb_spec i (length w)).
  - rewrite nthz_app_l by lia. apply N.
  - rewrite nthz_app_r by lia. destruct (i - length w)%nat as [|[|?]]; unfold nthz; simpl; lia. Qed.
Lemma nonneg_unapp w x : Nonneg (w ++ [x]) -> Nonneg w.
Proof. intros N i. destruct (Nat.ltb_spec i (length w)).
  - specialize (N i). now rewrite nthz_app_l in N by lia.
  - rewrite nthz_oob by lia. lia. Qed.
Lemma nonneg_upd w i x : Nonneg w -> 0 <= x -> Nonneg (upd w i x).
Proof. intros N Hx j. destruct (Nat.eq_dec i j) as [->|Hne].
  - destruct (Nat.ltb_spec j (length w)); [rewrite nthz_upd_same by lia; lia|rewrite upd_oob by lia; apply N].
  - rewrite nthz_upd_other by lia. apply N. Qed.
Lemma zsum_app a b : zsum (a ++ b) = zsum a + zsum b.
Proof. unfold zsum. induction a; simpl; lia. Qed.
Lemma zsum_upd w : forall i x, (i < length w)%nat -> zsum (upd w i x) = zsum w - nthz w i + x.
Proof. unfold zsum, nthz. induction w as [|a r IH]; intros [|i] x H; simpl in *; try lia.
  rewrite IH by lia. lia. Qed.

(* ---- new ---------------------------------------------------------------------- *)
Definition csub (t : list Z) (m c : nat) : Z :=
  if ((m <=? c) && (c <? length t))%nat then nthz t c else 0.
Definition PInv (w t : list Z) (m : nat) : Prop :=
  length w = length t /\
  forall j, (j < length t)%nat -> nthz t j = nthz w j + csub t m (2*j+1) + csub t m (2*j+2).

Lemma csub_upd t p v m c : (p < m)%nat -> csub (upd t p v) m c = csub t m c.
Proof. intros. unfold csub. rewrite length_upd.
  destruct (Nat.leb_spec m c), (Nat.ltb_spec c (length t)); simpl; auto. apply nthz_upd_other. lia. Qed.

Lemma pinv_step w t i : PInv w t (S i) -> (0 < i < length t)%nat ->
  PInv w (upd t (par i) (nthz t (par i) + nthz t i)) i.
Proof.
  intros [L R] Hi. pose proof (par_lt i ltac:(lia)) as Hp.
  split; [rewrite length_upd; lia|]. rewrite length_upd. intros j Hj.
  assert (C : forall c, csub (upd t (par i) (nthz t (par i) + nthz t i)) i c =
                        csub t (S i) c + (if (c =? i)%nat then nthz t i else 0)).
  { intros c. unfold csub. rewrite length_upd.
    destruct (Nat.eqb_spec c i) as [->|Hne].
    - rewrite Nat.leb_refl. destruct (Nat.leb_spec (S i) i); [lia|].
      destruct (Nat.ltb_spec i (length t)); [|lia]. simpl. rewrite nthz_upd_other by lia. lia.
    - destruct (Nat.leb_spec i c), (Nat.leb_spec (S i) c), (Nat.ltb_spec c (length t)); simpl; try lia.
      rewrite nthz_upd_other by lia. lia. }
  rewrite !C.
  destruct (Nat.eq_dec j (par i)) as [->|Hne].
  - rewrite nthz_upd_same by lia. rewrite (R (par i)) by lia.
    destruct (proj1 (par_child (par i) i ltac:(lia)) eq_refl) as [E|E].
    + rewrite <- E. rewrite Nat.eqb_refl. destruct (Nat.eqb_spec (2 * par i + 2) i); [lia|]. lia.
    + rewrite <- E. rewrite Nat.eqb_refl. destruct (Nat.eqb_spec (2 * par i + 1) i); [lia|]. lia.
  - rewrite nthz_upd_other by lia. rewrite (R j Hj).
    destruct (Nat.eqb_spec (2*j+1) i) as [E|_].
    { exfalso. apply Hne. symmetry. apply par_child; lia. }
    destruct (Nat.eqb_spec (2*j+2) i) as [E|_].
    { exfalso. apply Hne. symmetry. apply par_child; lia. }
    lia.
Qed.

Lemma sumf_upd t p v : forall m, (p < m)%nat -> (p < length t)%nat ->
  sumf (nthz (upd t p v)) m = sumf (nthz t) m + (v - nthz t p).
Proof. induction m; intros Hm Hl; [lia|]. cbn [sumf].
  destruct (Nat.eq_dec p m) as [->|Hne].
  - rewrite nthz_upd_same by lia.
    rewrite (sumf_ext (nthz (upd t m v)) (nthz t) m) by (intros; apply nthz_upd_other; lia). lia.
  - rewrite IHm by lia. rewrite nthz_upd_other by lia. lia. Qed.

Lemma sumf_ge_term f : (forall j, 0 <= f j) -> forall m p, (p < m)%nat -> f p <= sumf f m.
Proof. intros N. induction m; intros p Hp; [lia|]. cbn [sumf].
  assert (0 <= sumf f m) by (clear -N; induction m; simpl; [lia|specialize (N m); lia]).
  destruct (Nat.eq_dec p m) as [->|Hne]; [lia|]. specialize (IHm p ltac:(lia)). specialize (N m). lia. Qed.

Lemma new_loop_inv ty w : forall k t, (k <= length t - 1)%nat -> PInv w t (S k) ->
  (forall j, 0 <= nthz t j) -> (forall j, nthz t j <= whi ty) ->
  match new_loop ty (rev (seq 1 k)) t with
  | Ok t' => PInv w t' 1 /\ (forall j, nthz t' j <= whi ty) /\ sumf (nthz t') 1 = sumf (nthz t) (S k)
  | Err e => e = Overflow /\ whi ty < sumf (nthz t) (S k)
  | Panic => False
  end.
Proof.
  induction k as [|k IH]; intros t Hk P NN UB.
  - simpl. auto.
  - rewrite seq_S, rev_unit. replace (1 + k)%nat with (S k) by lia. cbn [new_loop]. cbv zeta.
    pose proof (par_lt (S k) ltac:(lia)) as Hp.
    destruct (Z.leb_spec (nthz t (par (S k)) + nthz t (S k)) (whi ty)) as [Hle|Hgt].
    + set (t1 := upd t (par (S k)) (nthz t (par (S k)) + nthz t (S k))).
      assert (P1 : PInv w t1 (S k)) by (apply pinv_step; [exact P|lia]).
      assert (S1 : sumf (nthz t1) (S k) = sumf (nthz t) (S (S k))).
      { unfold t1. rewrite sumf_upd by lia. cbn [sumf]. lia. }
      specialize (IH t1). unfold t1 in IH at 1. rewrite length_upd in IH. specialize (IH ltac:(lia) P1).
      assert (NN1 : forall j, 0 <= nthz t1 j).
      { intros j. unfold t1. destruct (Nat.eq_dec (par (S k)) j) as [<-|Hne].
        - rewrite nthz_upd_same by lia. pose proof (NN (par (S k))). pose proof (NN (S k)). lia.
        - rewrite nthz_upd_other by lia. apply NN. }
      assert (UB1 : forall j, nthz t1 j <= whi ty).
      { intros j. unfold t1. destruct (Nat.eq_dec (par (S k)) j) as [<-|Hne].
        - rewrite nthz_upd_same by lia. lia.
        - rewrite nthz_upd_other by lia. apply UB. }
      specialize (IH NN1 UB1). fold t1.
      destruct (new_loop ty (rev (seq 1 k)) t1); [|rewrite <- S1; exact IH|exact IH].
      rewrite <- S1. exact IH.
    + split; auto. cbn [sumf].
      pose proof (sumf_ge_term (nthz t) NN (S k) (par (S k)) ltac:(lia)). cbn [sumf] in H. lia.
Qed.

Lemma pinv_rep w t : PInv w t 1 -> Rep w t.
Proof. intros [L R]. split; auto. intros i Hi. rewrite (R i Hi). unfold csub, sub.
  replace (1 <=? 2*i+1)%nat with true by (symmetry; apply Nat.leb_le; lia).
  replace (1 <=? 2*i+2)%nat with true by (symmetry; apply Nat.leb_le; lia). reflexivity. Qed.

Lemma pinv_init w : PInv w w (length w).
Proof. split; auto. intros j Hj. unfold csub.
  destruct (Nat.leb_spec (length w) (2*j+1)), (Nat.ltb_spec (2*j+1) (length w));
  destruct (Nat.leb_spec (length w) (2*j+2)), (Nat.ltb_spec (2*j+2) (length w)); simpl; lia. Qed.

Lemma forallb_nonneg ws : forallb (fun w => 0 <=? w) ws = true <-> Nonneg ws.
Proof. split.
  - intros H i. destruct (Nat.ltb_spec i (length ws)); [|rewrite nthz_oob by lia; lia].
    rewrite forallb_forall in H. apply Z.leb_le. apply H. unfold nthz. now apply nth_In.
  - intros N. apply forallb_forall. intros x Hx. apply Z.leb_le.
    destruct (In_nth _ _ 0 Hx) as [i [Hi E]]. specialize (N i). unfold nthz in N. lia.
Qed.

Definition InRange (ty : wty) (ws : list Z) : Prop := forall i, nthz ws i <= whi ty.

(* complete characterisation of `new` *)
Theorem tree_new_spec ty ws : wf_ty ty -> InRange ty ws ->
  match tree_new ty ws with
  | Ok t => Nonneg ws /\ zsum ws <= whi ty /\ Rep ws t
  | Err InvalidWeight => ~ Nonneg ws
  | Err Overflow => Nonneg ws /\ whi ty < zsum ws
  | Err _ => False
  | Panic => False
  end.
Proof.
  intros WF IR. unfold tree_new.
  destruct (forallb (fun w => 0 <=? w) ws) eqn:F.
  2:{ intros N. apply forallb_nonneg in N. congruence. }
  apply forallb_nonneg in F.
  destruct ws as [|w0 wr] eqn:Ews.
  { simpl. split; auto. split; [unfold zsum; simpl; apply WF|]. split; auto. intros i Hi. simpl in Hi. lia. }
  rewrite <- Ews in *. assert (Hlen : (0 < length ws)%nat) by (subst; simpl; lia).
  pose proof (new_loop_inv ty ws (length ws - 1) ws ltac:(lia)) as H.
  replace (S (length ws - 1)) with (length ws) in H by lia.
  specialize (H (pinv_init ws) F IR).
  rewrite <- zsum_sumf in H.
  destruct (new_loop ty (rev (seq 1 (length ws - 1))) ws) as [t| e |].
  - destruct H as [P [UB S]]. apply pinv_rep in P. split; auto. split; auto.
    simpl in S. rewrite <- S. apply UB.
  - destruct H as [-> H]. auto.
  - exact H.
Qed.

(* ---- the invariant -------------------------------------------------------------- *)
Definition Inv (ty : wty) (t : list Z) : Prop :=
  exists w, Rep w t /\ Nonneg w /\ zsum w <= whi ty.

Lemma inv_abs ty t : Inv ty t -> Rep (abs t) t /\ Nonneg (abs t) /\ zsum (abs t) <= whi ty.
Proof. intros [w [R [N HS]]]. rewrite (rep_abs w t R). auto. Qed.

Lemma inv_entries ty t w : wf_ty ty -> Rep w t -> Nonneg w -> zsum w <= whi ty ->
  forall j, 0 <= sub t j <= whi ty.
Proof. intros WF R N HS j. pose proof (rep_sub_nonneg w t R N j). pose proof (rep_le_root w t R N j).
  rewrite (rep_root_sum w t R) in *. lia. Qed.

(* ---- push ------------------------------------------------------------------------ *)
Lemma push_ok ty w t x : wf_ty ty -> Rep w t -> Nonneg w -> zsum w <= whi ty ->
  0 <= x <= whi ty -> (t = [] \/ zsum w + x <= whi ty) ->
  exists t', tree_push ty t x = Ok t' /\ Rep (w ++ [x]) t'.
Proof.
  intros WF R N HS Hx Hov. unfold tree_push.
  destruct (Z.ltb_spec x 0); [lia|].
  assert (Hroot : (match t with [] => false | r :: _ => whi ty <? r + x end) = false).
  { destruct t as [|r tr]; auto. destruct Hov as [?|Hov]; [discriminate|].
    pose proof (rep_root_sum w (r :: tr) R) as E. unfold sub, nthz in E. simpl in E. subst r.
    apply Z.ltb_ge. lia. }
  rewrite Hroot.
  set (n := length t).
  assert (Hsum : t <> [] -> zsum w + x <= whi ty).
  { intros Hne. destruct Hov; [contradiction|auto]. }
  destruct (climb_ok n ty x (t ++ [x]) n ltac:(lia) ltac:(rewrite app_length; lia)) as [t' Ht'].
  { intros j Hj. pose proof (sanc_lt _ _ _ Hj) as Hlt. fold n in Hlt.
    rewrite nthz_app_l by (fold n; lia).
    pose proof (inv_entries ty t w WF R N HS j) as B. rewrite sub_in in B by (fold n; lia).
    pose proof (rep_le_root w t R N j) as B2. rewrite (rep_root_sum w t R) in B2.
    rewrite sub_in in B2 by (fold n; lia).
    apply inr_ok; auto. assert (t <> []) by (intros ->; simpl in n; lia). specialize (Hsum H0). lia. }
  exists t'. split; auto.
  apply climb_spec in Ht'; [|lia|rewrite app_length; lia]. destruct Ht' as [HL HN].
  pose proof (rep_app0 w t R) as R0.
  assert (E : w ++ [x] = upd (w ++ [0]) n (nthz (w ++ [0]) n + x)).
  { destruct R as [L _]. unfold n. rewrite <- L. rewrite nthz_app_r by lia. rewrite Nat.sub_diag.
    unfold nthz; simpl nth. rewrite upd_last. f_equal. }
  rewrite E. apply (rep_pointwise (S n) (w ++ [0]) (t ++ [0]) t' n x R0).
  - rewrite app_length. simpl. fold n. lia.
  - lia.
  - rewrite HL, !app_length. reflexivity.
  - intros j. rewrite HN, anc_unfold.
    destruct (Nat.eqb_spec j n) as [->|Hne]; cbn [orb].
    + rewrite sanc_irrefl. rewrite !nthz_app_r by (fold n; lia). fold n. rewrite Nat.sub_diag.
      unfold nthz; simpl. lia.
    + destruct (Nat.ltb_spec j n).
      * rewrite !nthz_app_l by (fold n; lia). reflexivity.
      * rewrite !nthz_oob by (rewrite app_length; simpl; fold n; lia).
        destruct (sanc n j n) eqn:E2; [apply sanc_lt in E2; lia|reflexivity].
Qed.

Lemma push_err_weight ty t x : x < 0 -> tree_push ty t x = Err InvalidWeight.
Proof. intros. unfold tree_push. destruct (Z.ltb_spec x 0); [auto|lia]. Qed.

Lemma push_err_overflow ty w t x : Rep w t -> 0 <= x -> t <> [] -> whi ty < zsum w + x ->
  tree_push ty t x = Err Overflow.
Proof. intros R Hx Hne Hov. unfold tree_push. destruct (Z.ltb_spec x 0); [lia|].
  destruct t as [|r tr]; [contradiction|].
  pose proof (rep_root_sum w (r :: tr) R) as E. unfold sub, nthz in E. simpl in E. subst r.
  destruct (Z.ltb_spec (whi ty) (zsum w + x)); [auto|lia]. Qed.

(* ---- pop -------------------------------------------------------------------------- *)
Lemma rep_last_leaf w t wl tl : Rep (w ++ [wl]) (t ++ [tl]) -> wl = tl.
Proof. intros [L R]. rewrite !app_length in L. simpl in L.
  specialize (R (length t)). rewrite app_length in R. simpl in R. specialize (R ltac:(lia)).
  rewrite (nthz_app_r t) in R by lia. rewrite (nthz_app_r w) in R by lia. rewrite Nat.sub_diag in R.
  replace (length t - length w)%nat with 0%nat in R by lia.
  rewrite !sub_out in R by (rewrite app_length; simpl; lia).
  unfold nthz in R; simpl in R. lia. Qed.

Lemma pop_ok ty w t wl tl : wf_ty ty -> Rep (w ++ [wl]) (t ++ [tl]) -> Nonneg (w ++ [wl]) ->
  zsum (w ++ [wl]) <= whi ty ->
  exists t', tree_pop ty (t ++ [tl]) = Ok (t', Some wl) /\ Rep w t'.
Proof.
  intros WF R N HS. pose proof (rep_last_leaf _ _ _ _ R) as <-.
  unfold tree_pop. rewrite rev_unit, rev_involutive.
  set (n := length t).
  assert (Ln : length (t ++ [wl]) = S n) by (rewrite app_length; simpl; unfold n; lia).
  assert (Hwl : 0 <= wl).
  { specialize (N (length w)). rewrite nthz_app_r in N by lia. rewrite Nat.sub_diag in N. exact N. }
  assert (Lw : length w = n). { destruct R as [L _]. rewrite !app_length in L. simpl in L. unfold n. lia. }
  (* every strict ancestor of n holds at least wl *)
  assert (B : forall j, sanc n j n = true -> wl <= nthz t j <= whi ty).
  { intros j Hj. pose proof (sanc_lt _ _ _ Hj) as Hlt.
    assert (A : anc (S n) j n = true) by (rewrite anc_unfold, Hj; apply orb_true_r).
    pose proof (rep_anc_ge _ _ R N _ _ _ A) as G.
    rewrite !sub_in in G by lia. rewrite nthz_app_r in G by (fold n; lia). fold n in G.
    rewrite Nat.sub_diag in G. unfold nthz at 1 in G; simpl in G.
    rewrite nthz_app_l in G by (fold n; lia).
    pose proof (inv_entries ty _ _ WF R N HS j) as E. rewrite sub_in in E by lia.
    rewrite nthz_app_l in E by (fold n; lia). lia. }
  destruct (climb_ok n ty (- wl) t n ltac:(lia) ltac:(fold n; lia)) as [t' Ht'].
  { intros j Hj. specialize (B j Hj). apply inr_ok; auto. lia. }
  fold n. rewrite Ht'. exists t'. split; auto.
  apply climb_spec in Ht'; [|lia|fold n; lia]. destruct Ht' as [HL HN].
  apply rep_unapp0.
  assert (E : w ++ [0] = upd (w ++ [wl]) n (nthz (w ++ [wl]) n + - wl)).
  { rewrite <- Lw. rewrite nthz_app_r by lia. rewrite Nat.sub_diag. unfold nthz; simpl nth.
    rewrite upd_last. f_equal. f_equal. lia. }
  rewrite E. apply (rep_pointwise (S n) _ _ (t' ++ [0]) n (- wl) R); try lia.
  - rewrite !app_length, HL. reflexivity.
  - intros j. rewrite anc_unfold.
    destruct (Nat.eqb_spec j n) as [->|Hne]; cbn [orb].
    + rewrite !nthz_app_r by (try rewrite HL; fold n; lia). rewrite HL. fold n. rewrite Nat.sub_diag.
      unfold nthz; simpl. lia.
    + destruct (Nat.ltb_spec j n).
      * rewrite !nthz_app_l by (try rewrite HL; fold n; lia). apply HN.
      * rewrite !nthz_oob by (rewrite app_length; simpl; try rewrite HL; fold n; lia).
        destruct (sanc n j n) eqn:E2; [apply sanc_lt in E2; lia|reflexivity].
Qed.

Lemma pop_empty ty : tree_pop ty [] = Ok ([], None).
Proof. reflexivity. Qed.

(* ---- update ----------------------------------------------------------------------- *)
Lemma get_chk_ok ty w t i : wf_ty ty -> Rep w t -> Nonneg w -> zsum w <= whi ty ->
  (i < length t)%nat -> get_chk ty t i = Ok (nthz w i).
Proof.
  intros WF R N HS Hi. unfold get_chk. destruct (Nat.ltb_spec i (length t)); [|lia].
  pose proof R as [L RR]. pose proof (RR i Hi) as E.
  pose proof (inv_entries ty t w WF R N HS) as B.
  pose proof (B i) as Bi. rewrite sub_in in Bi by lia.
  pose proof (B (2*i+1)%nat). pose proof (B (2*i+2)%nat). pose proof (N i).
  rewrite inr_ok by (auto; lia). rewrite inr_ok by (auto; lia). f_equal. lia.
Qed.

Lemma update_ok ty w t i x : wf_ty ty -> Rep w t -> Nonneg w -> zsum w <= whi ty ->
  (i < length t)%nat -> 0 <= x -> zsum w - nthz w i + x <= whi ty ->
  exists t', tree_update ty t i x = Ok t' /\ Rep (upd w i x) t'.
Proof.
  intros WF R N HS Hi Hx Hov. unfold tree_update.
  destruct (Z.ltb_spec x 0); [lia|].
  rewrite (get_chk_ok ty w t i WF R N HS Hi).
  pose proof (inv_entries ty t w WF R N HS) as B.
  pose proof (rep_root_sum w t R) as Root.
  pose proof (B i) as Bi. rewrite sub_in in Bi by lia.
  pose proof (rep_weight_le w t R N i Hi) as Wi. rewrite sub_in in Wi by lia.
  pose proof (rep_le_root w t R N i) as Ri. rewrite sub_in in Ri by lia. rewrite Root in Ri.
  destruct (Z.ltb_spec (nthz w i) x) as [Hup|Hnup].
  - (* increase *)
    set (d := x - nthz w i).
    assert (Hroot : (match t with [] => false | r :: _ => whi ty <? r + d end) = false).
    { destruct t as [|r tr]; auto. unfold sub, nthz in Root. simpl in Root. subst r.
      apply Z.ltb_ge. unfold d. lia. }
    rewrite Hroot. rewrite inr_ok by (auto; unfold d; lia).
    destruct (climb_ok i ty d (upd t i (nthz t i + d)) i ltac:(lia) ltac:(rewrite length_upd; lia)) as [t' Ht'].
    { intros j Hj. pose proof (sanc_lt _ _ _ Hj). rewrite nthz_upd_other by lia.
      pose proof (B j) as Bj. rewrite sub_in in Bj by lia.
      pose proof (rep_le_root w t R N j) as Rj. rewrite sub_in in Rj by lia. rewrite Root in Rj.
      apply inr_ok; auto. unfold d. lia. }
    exists t'. split; auto.
    apply climb_spec in Ht'; [|lia|rewrite length_upd; lia]. destruct Ht' as [HL HN].
    rewrite length_upd in HL.
    replace x with (nthz w i + d) by (unfold d; lia).
    apply (rep_pointwise (S i) w t t' i d R); try lia.
    intros j. rewrite HN, anc_unfold.
    destruct (Nat.eqb_spec j i) as [->|Hne]; cbn [orb].
    + rewrite sanc_irrefl. rewrite nthz_upd_same by lia. lia.
    + rewrite nthz_upd_other by lia. reflexivity.
  - destruct (Z.ltb_spec x (nthz w i)) as [Hdn|Heq].
    + (* decrease *)
      set (d := nthz w i - x).
      rewrite inr_ok by (auto; unfold d; lia).
      destruct (climb_ok i ty (- d) (upd t i (nthz t i - d)) i ltac:(lia) ltac:(rewrite length_upd; lia)) as [t' Ht'].
      { intros j Hj. pose proof (sanc_lt _ _ _ Hj). rewrite nthz_upd_other by lia.
        pose proof (B j) as Bj. rewrite sub_in in Bj by lia.
        assert (A : anc (S i) j i = true) by (rewrite anc_unfold, Hj; apply orb_true_r).
        pose proof (rep_anc_ge w t R N _ _ _ A) as G. rewrite !sub_in in G by lia.
        apply inr_ok; auto. unfold d. lia. }
      exists t'. split; auto.
      apply climb_spec in Ht'; [|lia|rewrite length_upd; lia]. destruct Ht' as [HL HN].
      rewrite length_upd in HL.
      replace x with (nthz w i + - d) by (unfold d; lia).
      apply (rep_pointwise (S i) w t t' i (- d) R); try lia.
      intros j. rewrite HN, anc_unfold.
      destruct (Nat.eqb_spec j i) as [->|Hne]; cbn [orb].
      * rewrite sanc_irrefl. rewrite nthz_upd_same by lia. lia.
      * rewrite nthz_upd_other by lia. reflexivity.
    + assert (x = nthz w i) by lia. subst x. exists t. split; auto. rewrite upd_same_val. exact R.
Qed.

Lemma update_err_weight ty t i x : x < 0 -> tree_update ty t i x = Err InvalidWeight.
Proof. intros. unfold tree_update. destruct (Z.ltb_spec x 0); [auto|lia]. Qed.

Lemma update_err_overflow ty w t i x : wf_ty ty -> Rep w t -> Nonneg w -> zsum w <= whi ty ->
  (i < length t)%nat -> 0 <= x -> whi ty < zsum w - nthz w i + x ->
  tree_update ty t i x = Err Overflow.
Proof.
  intros WF R N HS Hi Hx Hov. unfold tree_update.
  destruct (Z.ltb_spec x 0); [lia|].
  rewrite (get_chk_ok ty w t i WF R N HS Hi).
  pose proof (rep_root_sum w t R) as Root.
  destruct (Z.ltb_spec (nthz w i) x) as [Hup|Hnup]; [|lia].
  destruct t as [|r tr]; [simpl in Hi; lia|]. unfold sub, nthz in Root. simpl in Root. subst r.
  destruct (Z.ltb_spec (whi ty) (zsum w + (x - nthz w i))); [auto|lia].
Qed.
