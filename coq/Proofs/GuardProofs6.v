(* Proofs/GuardProofs6.v — C04: binary64 / binary32 instances of the format-generic theorems whose
   hypotheses are facts about literal constants (discharged by computation), and the concrete
   refutation witnesses for Hypergeometric::new.                                                *)
From Coq Require Import ZArith List Bool String Reals Lra Lia.
From Flocq Require Import Core.Core IEEE754.Binary IEEE754.Bits IEEE754.BinarySingleNaN.
From RD Require Import Model.Guards Model.GuardSpec Proofs.GuardLemmas Proofs.GuardArith
                       Proofs.GuardProofs2 Proofs.GuardProofs3 Proofs.GuardProofs4 Proofs.GuardProofs5.
Import ListNotations.
Open Scope R_scope.

(* ---- NormalInverseGaussian ---- *)
Theorem NormalInverseGaussian_new_sound64 (alpha beta : f64) :
  agrees (NormalInverseGaussian_new 53 1024 Hp64 Hpe64 alpha beta)
         (spec_NormalInverseGaussian_new 53 1024 alpha beta).
Proof. apply NormalInverseGaussian_new_sound. lia. Qed.
Theorem NormalInverseGaussian_new_sound32 (alpha beta : f32) :
  agrees (NormalInverseGaussian_new 24 128 Hp32 Hpe32 alpha beta)
         (spec_NormalInverseGaussian_new 24 128 alpha beta).
Proof. apply NormalInverseGaussian_new_sound. lia. Qed.

(* ---- Binomial ---- *)
Ltac rnd_const V Hp := rewrite <- V; now apply rnd_B2R.

Lemma half_SF64 : B2SF (half 53 1024 Hp64 Hpe64) = SpecFloat.S754_finite false 4503599627370496 (-53).
Proof. const_SF. Qed.
Lemma ten_SF64 : B2SF (ten 53 1024 Hp64 Hpe64) = SpecFloat.S754_finite false 5629499534213120 (-49).
Proof. const_SF. Qed.
Lemma umax_SF64 : B2SF (of_Z 53 1024 Hp64 Hpe64 u64_max) = SpecFloat.S754_finite false 4503599627370496 12.
Proof. const_SF. Qed.
Lemma c63_SF64 : B2SF (of_Z 53 1024 Hp64 Hpe64 9223372036854775808) = SpecFloat.S754_finite false 4503599627370496 11.
Proof. const_SF. Qed.
Lemma c15_SF64 : B2SF (of_Z 53 1024 Hp64 Hpe64 13835058055282163712) = SpecFloat.S754_finite false 6755399441055744 11.
Proof. const_SF. Qed.

Theorem Binomial_new_sound64 (n : Z) (p : f64) :
  (0 <= n <= u64_max)%Z ->
  agrees (Binomial_new 53 1024 Hp64 Hpe64 n p) (spec_Binomial_new 53 1024 Hp64 Hpe64 n p).
Proof.
  apply Binomial_new_sound.
  - exact (finite_of_SF _ _ _ _ _ _ half_SF64).
  - const_val half_SF64.
  - exact (finite_of_SF _ _ _ _ _ _ umax_SF64).
  - const_val umax_SF64.
  - assert (V : B2R (of_Z 53 1024 Hp64 Hpe64 9223372036854775808) = 9223372036854775808) by const_val c63_SF64.
    rnd_const V Hp64.
  - assert (V : B2R (of_Z 53 1024 Hp64 Hpe64 13835058055282163712) = 13835058055282163712) by const_val c15_SF64.
    rnd_const V Hp64.
Qed.

(* ---- Hypergeometric: concrete panics of the (debug-build) model = of the real code ---- *)
Definition u64_MAX : Z := 18446744073709551615.
Open Scope Z_scope.

(* new(u64::MAX, u64::MAX, u64::MAX): `min_all + 1` overflows (finding F2b) *)
Theorem Hypergeometric_new_witness_min_all :
  hyper_known2 u64_MAX u64_MAX u64_MAX = true /\
  Hypergeometric_new_gen 53 1024 Hp64 Hpe64 true hyper_cap u64_MAX u64_MAX u64_MAX = Some GPanic.
Proof. split; vm_compute; reflexivity. Qed.

(* new(u64::MAX, u64::MAX - 1, 2^63): `offset_x += n1 as i64 * sign_x` overflows i64 *)
Theorem Hypergeometric_new_witness_offset :
  hyper_known1 u64_MAX (u64_MAX - 1) 9223372036854775808 = true /\
  Hypergeometric_new_gen 53 1024 Hp64 Hpe64 true hyper_cap u64_MAX (u64_MAX - 1) 9223372036854775808 = Some GPanic.
Proof. split; vm_compute; reflexivity. Qed.

(* GPanic agrees with no expectation *)
Lemma GPanic_never_agrees (e : expect) : ~ agrees GPanic e.
Proof. destruct e; simpl; tauto. Qed.

Theorem Hypergeometric_new_refuted :
  exists N K n r, is_u64 N /\ is_u64 K /\ is_u64 n /\
    Hypergeometric_new_gen 53 1024 Hp64 Hpe64 true hyper_cap N K n = Some r /\
    ~ agrees r (spec_Hypergeometric_new N K n).
Proof.
  exists u64_MAX, u64_MAX, u64_MAX, GPanic. unfold is_u64, u64_max, u64_MAX.
  split; [lia|split; [lia|split; [lia|split]]].
  - vm_compute. reflexivity.
  - apply GPanic_never_agrees.
Qed.

(* the whole class known1 panics in a debug build, in every format and for every cap *)
Theorem Hypergeometric_new_known1_panics (prec emax : Z) (Hp : Prec_gt_0 prec) (Hpe : Prec_lt_emax prec emax)
  (cap N K n : Z) :
  is_u64 N -> is_u64 K -> is_u64 n -> hyper_known1 N K n = true ->
  Hypergeometric_new_gen prec emax Hp Hpe true cap N K n = Some GPanic.
Proof.
  unfold is_u64, u64_max, hyper_known1. intros HN HK Hn H.
  apply andb_prop in H; destruct H as (H & A6). apply andb_prop in H; destruct H as (H & A5).
  apply andb_prop in H; destruct H as (H & A4). apply andb_prop in H; destruct H as (H & A3).
  apply andb_prop in H; destruct H as (A1 & A2).
  unfold Hypergeometric_new_gen.
  assert (E1 : (K >? N) = false) by (rewrite Z.gtb_ltb; apply Z.ltb_ge; apply Z.leb_le; trivial).
  assert (E2 : (n >? N) = false) by (rewrite Z.gtb_ltb; apply Z.ltb_ge; apply Z.leb_le; trivial).
  rewrite E1, E2, A3. cbv beta iota zeta.
  assert (E4 : (n <=? N / 2) = false) by (apply Z.leb_gt; apply Z.gtb_lt; trivial).
  rewrite E4. unfold as_i64, in_i64.
  apply Z.leb_le in A1, A2, A5. apply Z.ltb_lt in A6. apply Z.gtb_lt in A3, A4.
  assert (E5 : (n <? 9223372036854775808) = false) by (apply Z.ltb_ge; trivial).
  assert (E6 : (N - K <? 9223372036854775808) = true) by (apply Z.ltb_lt; lia).
  rewrite E5, E6.
  assert (E7 : (-9223372036854775808 <=? n - 18446744073709551616 + (N - K) * -1) = false)
    by (apply Z.leb_gt; lia).
  rewrite E7. reflexivity.
Qed.
