(* Proofs/UnitSphereFl.v — property C12 at the IEEE level for the transform of UnitSphere::sample (unit_sphere.rs:52-63), which has
   no libm call (sqrt is a correctly rounded IEEE operation):
       sum = x1*x1 + x2*x2;  if sum >= 1 { continue }
       factor = 2 * sqrt(1 - sum);   return [x1 * factor, x2 * factor, 1 - 2 * sum]
   For finite x1, x2 in [-1, 1] whose float sum is not rejected: no operation overflows, the square root is taken of a number in
   [0, 1], all three components are finite floats (never NaN), the third lies in [-1, 1] exactly and the first two in [-2, 2].     *)
From Coq Require Import ZArith Bool Reals Lra Lia.
From Flocq Require Import Core.Core IEEE754.BinarySingleNaN.
From RD Require Import Proofs.FlConst Proofs.AffineFl Proofs.TriangularFl Proofs.UnitNormFl.
Open Scope R_scope.

Section Fmt.
Variable prec emax : Z.
Context (Hp : Prec_gt_0 prec) (Hpe : Prec_lt_emax prec emax).
Hypothesis Hpe2 : (prec + 3 <= emax)%Z.
Hypothesis Hp3 : (3 <= prec)%Z.
Notation float := (binary_float prec emax).
Notation fexp := (SpecFloat.fexp prec emax).
Notation rnd := (round radix2 fexp (round_mode mode_NE)).
Notation bf := (bf prec emax).
Notation Btwo := (Btwo prec emax Hp Hpe).
Notation disc_sum_fl := (disc_sum_fl prec emax Hp Hpe).

Definition sphere_reject_fl (sum : float) : bool := Bleb Bone sum.
Definition sphere_factor_fl (sum : float) : float := Bmult mode_NE Btwo (Bsqrt mode_NE (Bminus mode_NE Bone sum)).
Definition sphere_xy_fl (x factor : float) : float := Bmult mode_NE x factor.
Definition sphere_z_fl (sum : float) : float := Bminus mode_NE Bone (Bmult mode_NE Btwo sum).

Lemma bf_one : bf 0 Bone.
Proof. split; [apply is_finite_Bone|rewrite Bone_correct; simpl; lra]. Qed.
Lemma bf_two : bf 1 Btwo.
Proof. destruct (Btwo_correct prec emax Hp Hpe) as [V F]. split; [exact F|rewrite V; simpl; lra]. Qed.

Lemma emax_gt_1 : (1 < emax)%Z.
Proof. lia. Qed.

Section Sample.
Variables x1 x2 : float.
Hypotheses (F1 : is_finite x1 = true) (F2 : is_finite x2 = true) (H1 : Rabs (B2R x1) <= 1) (H2 : Rabs (B2R x2) <= 1).
Hypothesis Hacc : sphere_reject_fl (disc_sum_fl x1 x2) = false.

Lemma sum_bf : bf 0 (disc_sum_fl x1 x2) /\ B2R (disc_sum_fl x1 x2) < 1.
Proof.
  destruct (disc_sum_fl_value prec emax Hp Hpe Hpe2 Hp3 x1 x2 F1 F2 H1 H2) as (V & G & S0 & _).
  unfold sphere_reject_fl in Hacc. rewrite (Bleb_correct prec emax _ _ (is_finite_Bone prec emax Hp Hpe) G) in Hacc.
  rewrite (Bone_correct prec emax Hp Hpe) in Hacc.
  destruct (Rle_bool_spec 1 (B2R (disc_sum_fl x1 x2))) as [L|L]; [discriminate|].
  split; [|exact L]. split; [exact G|]. rewrite V at 1. split; [exact S0|simpl; lra].
Qed.

Theorem sphere_fl_finite :
  let s := disc_sum_fl x1 x2 in
  let f := sphere_factor_fl s in
  is_finite (sphere_xy_fl x1 f) = true /\ is_finite (sphere_xy_fl x2 f) = true /\ is_finite (sphere_z_fl s) = true /\
  Rabs (B2R (sphere_xy_fl x1 f)) <= 2 /\ Rabs (B2R (sphere_xy_fl x2 f)) <= 2 /\ Rabs (B2R (sphere_z_fl s)) <= 1 /\
  0 <= B2R f <= 2.
Proof.
  intros s f. destruct sum_bf as [Ds Ls]. fold s in Ds, Ls.
  pose proof emax_gt_1 as E1. assert (0 < emax)%Z as E0 by lia. assert (0 <= 0)%Z as Z0 by lia. assert (0 <= 1)%Z as Z1 by lia.
  (* 1 - sum in [0,1], its square root too *)
  assert (B2R s <= B2R Bone) as Ls' by (rewrite (Bone_correct prec emax Hp Hpe); lra).
  pose proof (minus_bf_le prec emax Hp Hpe Bone s 0 Z0 E0 bf_one Ds Ls') as Dt.
  pose proof (sqrt_bf prec emax Hp Hpe (Bminus mode_NE Bone s) 0 Z0 Dt) as Dq.
  pose proof (mult_bf prec emax Hp Hpe Btwo _ 1 0 Z1 Z0 ltac:(lia) bf_two Dq) as Df. fold (sphere_factor_fl s) in Df. fold f in Df.
  destruct Df as [Ff Hf]. change (bpow radix2 (1 + 0)) with 2 in Hf.
  (* x * factor *)
  assert (forall x : float, is_finite x = true -> Rabs (B2R x) <= 1 ->
          is_finite (sphere_xy_fl x f) = true /\ Rabs (B2R (sphere_xy_fl x f)) <= 2) as XY.
  { intros x Fx Hx. unfold sphere_xy_fl. pose proof (Bmult_correct prec emax Hp Hpe mode_NE x f) as M.
    assert (Rabs (B2R x * B2R f) <= bpow radix2 1) as Q.
    { rewrite Rabs_mult, (Rabs_pos_eq (B2R f)) by lra. change (bpow radix2 1) with 2. pose proof (Rabs_pos (B2R x)). nra. }
    rewrite Rlt_bool_true in M by exact (no_ovf prec emax Hp Hpe _ 1 Z1 E1 Q).
    destruct M as (V & F & _). split; [rewrite F, Fx, Ff; reflexivity|].
    rewrite V. change 2 with (bpow radix2 1). apply (rnd_abs_le prec emax Hp Hpe); [exact Z1|exact Q]. }
  destruct (XY x1 F1 H1) as [A1 B1]. destruct (XY x2 F2 H2) as [A2 B2].
  (* z = 1 - 2 sum *)
  pose proof (mult_bf prec emax Hp Hpe Btwo s 1 0 Z1 Z0 ltac:(lia) bf_two Ds) as [F2s H2s]. change (bpow radix2 (1 + 0)) with 2 in H2s.
  pose proof (Bminus_correct prec emax Hp Hpe mode_NE Bone (Bmult mode_NE Btwo s) (is_finite_Bone prec emax Hp Hpe) F2s) as M.
  rewrite (Bone_correct prec emax Hp Hpe) in M.
  assert (Rabs (1 - B2R (Bmult mode_NE Btwo s)) <= bpow radix2 0) as Q by (change (bpow radix2 0) with 1; apply Rabs_le; lra).
  rewrite Rlt_bool_true in M by exact (no_ovf prec emax Hp Hpe _ 0 Z0 E0 Q).
  destruct M as (Vz & Fz & _).
  assert (Rabs (B2R (sphere_z_fl s)) <= 1) as Bz.
  { unfold sphere_z_fl. rewrite Vz. change 1 with (bpow radix2 0) at 2. apply (rnd_abs_le prec emax Hp Hpe); [exact Z0|exact Q]. }
  repeat split; try assumption; lra.
Qed.
End Sample.
End Fmt.
