(* Proofs/Equivariance.v — property C07: location and scale parameters act as exact affine maps
   on a fixed random stream, and the same RNG words are consumed.

   Every theorem `<D>_smap` says that the decision tree of the parameterised sampler is the
   decision tree of a standard sampler (no location/scale) with a fixed expression map applied
   to the leaves (`smap`): the same comparisons are asked in the same order, the same words are
   read, the same failures occur (also on word lists that are too short), and every leaf
   `(z, rest)` becomes `(f z, rest)`.
     - `<D>_smap_req`: up to `req` (equality of trees, pointwise on the continuations of the
       Ask nodes) — axiom free;
     - `<D>_smap`: as a syntactic equality `=` of trees.  For the samplers reading one word this
       is by computation; for the others it follows from the `req` statement by functional
       extensionality (the only axiom used in the first part of this file).
   Then the semantic corollaries (`<D>_affine`, `<D>_scale`) for the exact semantics `evals` of
   Base/Run.v: the parameterised sampler yields the real y leaving the words `rest` iff the standard
   sampler yields some x leaving the same words and y = loc + scale * x.
   Last, the families where the expressions inside the decisions change with the parameters, so that
   only a semantic statement holds: InverseGaussian (mu, lambda) -> (c mu, c lambda), and Triangular
   and Pert under x -> a + b x on (min, max, mode) (Pert through the tree simulation `rsim`).      *)
From Coq Require Import Reals ZArith List Lra Lia Bool FunctionalExtensionality.
From Interval Require Import Xreal.
From RD Require Import Base.Expr Base.Run Model.Sampler Model.Continuous Proofs.LawsInvCdf Proofs.LawsTriangular.
Import ListNotations.
Open Scope Z_scope.
Open Scope sampler_scope.

Local Notation "a +. b" := (Bin Add a b) (at level 50, left associativity).
Local Notation "a -. b" := (Bin Sub a b) (at level 50, left associativity).
Local Notation "a *. b" := (Bin Mul a b) (at level 40, left associativity).
Local Notation "a /. b" := (Bin Div a b) (at level 40, left associativity).

(* the statements below only need that these are *some* sampler *)
Opaque std_normal exp1 gamma_unscaled.

(* ---- maps over the leaves -------------------------------------------------------------------- *)
Fixpoint rmap {A B} (f : A -> B) (r : run A) : run B :=
  match r with
  | Ret a => Ret (f a)
  | Ask c a b k => Ask c a b (fun t => rmap f (k t))
  | AskFloor e k => AskFloor e (fun z => rmap f (k z))
  | Fail c => Fail c
  end.
Definition smap {A B} (f : A -> B) (m : sampler A) : sampler B :=
  fun ws => rmap (fun '(a, rest) => (f a, rest)) (m ws).

(* ---- tree equality, pointwise on continuations ---------------------------------------------- *)
Inductive req {A} : run A -> run A -> Prop :=
| RqRet a : req (Ret a) (Ret a)
| RqAsk c a b k1 k2 : (forall t, req (k1 t) (k2 t)) -> req (Ask c a b k1) (Ask c a b k2)
| RqFloor e k1 k2 : (forall z, req (k1 z) (k2 z)) -> req (AskFloor e k1) (AskFloor e k2)
| RqFail c : req (Fail c) (Fail c).

Lemma req_refl {A} (r : run A) : req r r.
Proof. induction r; constructor; auto. Qed.
Lemma req_sym {A} (r1 r2 : run A) : req r1 r2 -> req r2 r1.
Proof. induction 1; constructor; auto. Qed.
Lemma req_trans {A} (r1 r2 r3 : run A) : req r1 r2 -> req r2 r3 -> req r1 r3.
Proof.
  intros H. revert r3. induction H; intros r3 H3; inversion H3; subst; constructor; auto.
Qed.
Lemma eq_req {A} (r1 r2 : run A) : r1 = r2 -> req r1 r2.
Proof. intros ->. apply req_refl. Qed.

(* req is equality (functional extensionality) *)
Lemma req_eq {A} (r1 r2 : run A) : req r1 r2 -> r1 = r2.
Proof.
  induction 1; try reflexivity; f_equal; apply functional_extensionality; assumption.
Qed.

(* req-related trees have the same exact semantics (no axiom) *)
Lemma req_evals {A} (r1 r2 : run A) v : req r1 r2 -> evals r1 v -> evals r2 v.
Proof.
  induction 1; intros E; inversion E; subst.
  - constructor.
  - eapply EvAsk; eauto.
  - eapply EvFloor; eauto.
Qed.
Lemma req_evals_iff {A} (r1 r2 : run A) v : req r1 r2 -> (evals r1 v <-> evals r2 v).
Proof. intros H. split; apply req_evals; [|apply req_sym]; exact H. Qed.

(* ---- rmap/bind algebra ------------------------------------------------------------------------ *)
Lemma bind_cong {A B} (r : run A) (k1 k2 : A -> run B) :
  (forall a, req (k1 a) (k2 a)) -> req (bind r k1) (bind r k2).
Proof. intros H. induction r; cbn; try constructor; auto. Qed.
Lemma rmap_bind {A B C} (f : B -> C) (r : run A) (k : A -> run B) :
  req (rmap f (bind r k)) (bind r (fun a => rmap f (k a))).
Proof. induction r; cbn; try constructor; auto. apply req_refl. Qed.
Lemma bind_ret_rmap {A B} (f : A -> B) (r : run A) :
  req (bind r (fun a => Ret (f a))) (rmap f r).
Proof. induction r; cbn; constructor; auto. Qed.
Lemma rmap_cong {A B} (f : A -> B) (r1 r2 : run A) : req r1 r2 -> req (rmap f r1) (rmap f r2).
Proof. induction 1; cbn; constructor; auto. Qed.
Lemma rmap_ext {A B} (f g : A -> B) (r : run A) : (forall a, f a = g a) -> req (rmap f r) (rmap g r).
Proof. intros H. induction r; cbn; try constructor; auto. rewrite H. constructor. Qed.
Lemma rmap_rmap {A B C} (f : A -> B) (g : B -> C) (r : run A) :
  req (rmap g (rmap f r)) (rmap (fun a => g (f a)) r).
Proof. induction r; cbn; constructor; auto. Qed.

Lemma rmap_evals {A B} (f : A -> B) (r : run A) v :
  evals (rmap f r) v <-> exists a, evals r a /\ v = f a.
Proof.
  split.
  - revert v. induction r as [a|c a b k IH|e k IH|c]; cbn; intros v E; inversion E; subst.
    + exists a. split; [constructor|reflexivity].
    + destruct (IH _ _ H6) as [a0 [E0 ->]]. exists a0. split; [|reflexivity]. eapply EvAsk; eauto.
    + destruct (IH _ _ H3) as [a0 [E0 ->]]. exists a0. split; [|reflexivity]. eapply EvFloor; eauto.
  - intros [a [E ->]]. induction E; cbn.
    + constructor.
    + eapply EvAsk; eauto.
    + eapply EvFloor; eauto.
Qed.

(* ---- the same at the level of samplers -------------------------------------------------------- *)
Definition seq {A} (m1 m2 : sampler A) : Prop := forall ws, req (m1 ws) (m2 ws).

Lemma seq_refl {A} (m : sampler A) : seq m m.
Proof. intros ws. apply req_refl. Qed.
Lemma seq_sym {A} (m1 m2 : sampler A) : seq m1 m2 -> seq m2 m1.
Proof. intros H ws. apply req_sym, H. Qed.
Lemma seq_trans {A} (m1 m2 m3 : sampler A) : seq m1 m2 -> seq m2 m3 -> seq m1 m3.
Proof. intros H1 H2 ws. eapply req_trans; [apply H1|apply H2]. Qed.
Lemma seq_eq {A} (m1 m2 : sampler A) : seq m1 m2 -> m1 = m2.
Proof. intros H. apply functional_extensionality. intros ws. apply req_eq, H. Qed.

Lemma sbind_cong {A B} (m : sampler A) (k1 k2 : A -> sampler B) :
  (forall a, seq (k1 a) (k2 a)) -> seq (sbind m k1) (sbind m k2).
Proof. intros H ws. unfold sbind. apply bind_cong. intros [a ws']. apply H. Qed.
(* smap commutes with sbind *)
Lemma smap_sbind {A B C} (f : B -> C) (m : sampler A) (k : A -> sampler B) :
  seq (smap f (sbind m k)) (sbind m (fun x => smap f (k x))).
Proof.
  intros ws. unfold smap, sbind. eapply req_trans; [apply rmap_bind|].
  apply bind_cong. intros [a ws']. apply req_refl.
Qed.
Lemma smap_sret {A B} (f : A -> B) (a : A) ws : smap f (sret a) ws = sret (f a) ws.
Proof. reflexivity. Qed.
Lemma smap_sfail {A B} (f : A -> B) c ws : smap f (sfail c) ws = sfail c ws.
Proof. reflexivity. Qed.
(* ... and with a decision: literally *)
Lemma smap_sask {A B} (f : A -> B) c a b (k : bool -> sampler A) ws :
  smap f (sbind (sask c a b) k) ws = sbind (sask c a b) (fun t => smap f (k t)) ws.
Proof. reflexivity. Qed.
Lemma smap_next_word {A B} (f : A -> B) (k : Z -> sampler A) ws :
  smap f (sbind next_word k) ws = sbind next_word (fun w => smap f (k w)) ws.
Proof. destruct ws; reflexivity. Qed.
(* a sampler that ends by returning f of its last intermediate value *)
Lemma sbind_sret_smap {A B} (f : A -> B) (m : sampler A) :
  seq (sbind m (fun a => sret (f a))) (smap f m).
Proof.
  intros ws. unfold sbind, smap, sret.
  eapply req_trans; [|apply (bind_ret_rmap (fun '(a, rest) => (f a, rest)))].
  apply bind_cong. intros [a ws']. apply req_refl.
Qed.
Lemma smap_smap {A B C} (f : A -> B) (g : B -> C) (m : sampler A) :
  seq (smap g (smap f m)) (smap (fun a => g (f a)) m).
Proof.
  intros ws. unfold smap. eapply req_trans; [apply rmap_rmap|]. apply rmap_ext. intros [a r]. reflexivity.
Qed.

Lemma smap_evals {A B} (f : A -> B) (m : sampler A) ws b rest :
  evals (smap f m ws) (b, rest) <-> exists a, evals (m ws) (a, rest) /\ b = f a.
Proof.
  unfold smap. rewrite rmap_evals. split.
  - intros [[a r] [E H]]. injection H as -> ->. exists a. split; [exact E|reflexivity].
  - intros [a [E ->]]. exists (a, rest). split; [exact E|reflexivity].
Qed.
(* whatever is equal (up to req) to an smap has the leaves of the mapped sampler: same rest *)
Lemma seq_smap_evals {A B} (f : A -> B) (m1 : sampler B) (m2 : sampler A) :
  seq m1 (smap f m2) ->
  forall ws b rest, evals (m1 ws) (b, rest) <-> exists a, evals (m2 ws) (a, rest) /\ b = f a.
Proof. intros H ws b rest. rewrite (req_evals_iff _ _ _ (H ws)). apply smap_evals. Qed.

(* ---- the leaf maps ------------------------------------------------------------------------------ *)
(* loc + scale * z: Normal::from_zscore, Cauchy, Frechet *)
Definition affine (loc scale : Z * Z) (z : expr) : expr := dyx loc +. dyx scale *. z.
(* loc - scale * z: Gumbel *)
Definition affine_sub (loc scale : Z * Z) (z : expr) : expr := dyx loc -. dyx scale *. z.
(* z * scale + loc: SkewNormal *)
Definition affine_r (loc scale : Z * Z) (z : expr) : expr := z *. dyx scale +. dyx loc.
(* scale * z: Pareto, Weibull *)
Definition scale_l (scale : Z * Z) (z : expr) : expr := dyx scale *. z.
(* Normal::from_zscore and LogNormal::from_zscore (normal.rs:224, 353) *)
Definition normal_from_zscore (mean sd : Z * Z) (z : expr) : expr := dyx mean +. dyx sd *. z.
Definition lognormal_from_zscore (mu sigma : Z * Z) (z : expr) : expr := eexp (normal_from_zscore mu sigma z).
(* Exp: z * (1/lambda), lambda_inverse precomputed *)
Definition exp_scale (lambda : Z * Z) (z : expr) : expr := z *. (one /. dyx lambda).

(* ---- standard samplers (the code without its location/scale) ----------------------------------- *)
Definition cauchy_std (t : fty) : sampler expr := x <- draw_std t ;; sret (etan (Pi *. x)).
Definition gumbel_std (t : fty) : sampler expr := x <- draw_oc t ;; sret (eln (eneg (eln x))).
Definition frechet_std (t : fty) (shape : Z * Z) : sampler expr :=
  x <- draw_oc t ;; sret (epow (eneg (eln x)) (eneg (one /. dyx shape))).
Definition pareto_std (t : fty) (shape : Z * Z) : sampler expr :=
  u <- draw_oc t ;; sret (epow u (num (-1) /. dyx shape)).
Definition weibull_std (t : fty) (shape : Z * Z) : sampler expr :=
  x <- draw_oc t ;; sret (epow (eneg (eln x)) (one /. dyx shape)).
Definition skew_normal_std (t : fty) (shape : Z * Z) : sampler expr :=
  u1 <- std_normal t ;;
  if dy_eqb shape (0, 0) then sret u1 else
  u2 <- std_normal t ;;
  gt <- sask CGt u1 u2 ;;
  let '(u, v) := if gt then (u1, u2) else (u2, u1) in
  if dy_eqb shape (-1, 0) then sret v
  else if dy_eqb shape (1, 0) then sret u
  else
    let sh := dyx shape in
    sret (((one +. sh) *. u +. (one -. sh) *. v) /. (esqrt (one +. sh *. sh) *. esqrt (num 2))).
(* Gamma without its scale: Exp1 (shape = 1), a * u^(1/shape) * d (shape < 1), the
   Marsaglia-Tsang variate v (shape > 1; the code multiplies it by the precomputed d * scale) *)
Definition gamma_core (t : fty) (shape : Z * Z) : sampler expr :=
  if dy_eqb shape (1, 0) then exp1 t
  else if dy_ltb shape (1, 0) then
    let '(c, d) := gamma_large_consts (dyx shape +. one) in
    u <- draw_open t ;;
    a <- gamma_unscaled 64 t c d ;;
    sret (a *. epow u (one /. dyx shape) *. d)
  else
    let '(c, d) := gamma_large_consts (dyx shape) in gamma_unscaled 64 t c d.
Definition gamma_scale (shape scale : Z * Z) : expr -> expr :=
  if dy_eqb shape (1, 0) then fun z => z *. (one /. (one /. dyx scale))
  else if dy_ltb shape (1, 0) then fun x => x *. dyx scale
  else fun v => v *. ((dyx shape -. rat 1 3) *. dyx scale).

(* ---- C07, trees: multi-word samplers ------------------------------------------------------------ *)
Theorem normal_smap_req t mean sd : seq (normal t mean sd) (smap (normal_from_zscore mean sd) (std_normal t)).
Proof. apply (sbind_sret_smap (normal_from_zscore mean sd)). Qed.
Theorem lognormal_smap_req t mu sigma :
  seq (lognormal t mu sigma) (smap (lognormal_from_zscore mu sigma) (std_normal t)).
Proof. apply (sbind_sret_smap (lognormal_from_zscore mu sigma)). Qed.
(* LogNormal is exp of the Normal with the same parameters, on the same stream *)
Theorem lognormal_normal_req t mu sigma : seq (lognormal t mu sigma) (smap eexp (normal t mu sigma)).
Proof.
  eapply seq_trans; [apply lognormal_smap_req|]. apply seq_sym.
  eapply seq_trans; [|apply (smap_smap (normal_from_zscore mu sigma) eexp)].
  intros ws. unfold smap. apply rmap_cong. apply normal_smap_req.
Qed.
Theorem exp_lambda_smap_req t lambda : seq (exp_lambda t lambda) (smap (exp_scale lambda) (exp1 t)).
Proof. apply (sbind_sret_smap (exp_scale lambda)). Qed.

Theorem skew_normal_smap_req t loc scale shape :
  seq (skew_normal t loc scale shape) (smap (affine_r loc scale) (skew_normal_std t shape)).
Proof.
  unfold skew_normal, skew_normal_std.
  eapply seq_trans; [|apply seq_sym, smap_sbind]. apply sbind_cong. intros u1.
  destruct (dy_eqb shape (0, 0)); [apply seq_refl|].
  eapply seq_trans; [|apply seq_sym, smap_sbind]. apply sbind_cong. intros u2 ws.
  rewrite smap_sask. cbn [sbind sask bind]. apply RqAsk. intros gt.
  destruct gt; destruct (dy_eqb shape (-1, 0)); try apply req_refl;
    destruct (dy_eqb shape (1, 0)); apply req_refl.
Qed.

Theorem gamma_smap_req t shape scale :
  seq (gamma t shape scale) (smap (gamma_scale shape scale) (gamma_core t shape)).
Proof.
  unfold gamma, gamma_core, gamma_scale, gamma_large_consts.
  destruct (dy_eqb shape (1, 0)).
  - apply (sbind_sret_smap (fun z => z *. (one /. (one /. dyx scale)))).
  - destruct (dy_ltb shape (1, 0)).
    + eapply seq_trans; [|apply seq_sym, smap_sbind]. apply sbind_cong. intros u.
      eapply seq_trans; [|apply seq_sym, smap_sbind]. apply sbind_cong. intros a.
      apply seq_refl.
    + apply (sbind_sret_smap (fun v => v *. ((dyx shape -. rat 1 3) *. dyx scale))).
Qed.

(* the same as syntactic equalities of trees (functional extensionality) *)
Theorem normal_smap t mean sd ws :
  normal t mean sd ws = smap (fun z => dyx mean +. dyx sd *. z) (std_normal t) ws.
Proof. apply req_eq, normal_smap_req. Qed.
Theorem lognormal_smap t mu sigma ws :
  lognormal t mu sigma ws = smap (fun z => eexp (dyx mu +. dyx sigma *. z)) (std_normal t) ws.
Proof. apply req_eq, lognormal_smap_req. Qed.
Theorem lognormal_normal t mu sigma ws : lognormal t mu sigma ws = smap eexp (normal t mu sigma) ws.
Proof. apply req_eq, lognormal_normal_req. Qed.
Theorem exp_lambda_smap t lambda ws :
  exp_lambda t lambda ws = smap (fun z => z *. (one /. dyx lambda)) (exp1 t) ws.
Proof. apply req_eq, exp_lambda_smap_req. Qed.
Theorem skew_normal_smap t loc scale shape ws :
  skew_normal t loc scale shape ws = smap (fun x => x *. dyx scale +. dyx loc) (skew_normal_std t shape) ws.
Proof. apply req_eq, skew_normal_smap_req. Qed.
Theorem gamma_smap t shape scale ws :
  gamma t shape scale ws = smap (gamma_scale shape scale) (gamma_core t shape) ws.
Proof. apply req_eq, gamma_smap_req. Qed.

(* ---- C07, trees: single-draw samplers (by computation, no axiom) --------------------------------- *)
Theorem cauchy_smap t median scale ws :
  cauchy t median scale ws = smap (fun c => dyx median +. dyx scale *. c) (cauchy_std t) ws.
Proof. destruct ws; reflexivity. Qed.
Theorem gumbel_smap t loc scale ws :
  gumbel t loc scale ws = smap (fun g => dyx loc -. dyx scale *. g) (gumbel_std t) ws.
Proof. destruct ws; reflexivity. Qed.
Theorem frechet_smap t loc scale shape ws :
  frechet t loc scale shape ws = smap (fun g => dyx loc +. dyx scale *. g) (frechet_std t shape) ws.
Proof. destruct ws; reflexivity. Qed.
Theorem pareto_smap t scale shape ws :
  pareto t scale shape ws = smap (fun h => dyx scale *. h) (pareto_std t shape) ws.
Proof. destruct ws; reflexivity. Qed.
Theorem weibull_smap t scale shape ws :
  weibull t scale shape ws = smap (fun h => dyx scale *. h) (weibull_std t shape) ws.
Proof. destruct ws; reflexivity. Qed.

(* ================================================================================================== *)
(* ---- C07, exact semantics -------------------------------------------------------------------------- *)
(* If the parameterised sampler m1 is the standard sampler m2 with the expression map f on its leaves,
   and f denotes the real function g, then: m1 yields the real y leaving the words `rest`  iff
   m2 yields some real x leaving the same words `rest` and y = g x.                                   *)
Local Open Scope R_scope.

Lemma smap_sem (f : expr -> expr) (g : R -> R) (m1 m2 : sampler expr) :
  seq m1 (smap f m2) ->
  (forall z x, evalX z = Xreal x -> evalX (f z) = Xreal (g x)) ->
  (forall z y, evalX (f z) = Xreal y -> exists x, evalX z = Xreal x) ->
  forall ws rest y,
    (exists e, evals (m1 ws) (e, rest) /\ evalX e = Xreal y) <->
    (exists z x, evals (m2 ws) (z, rest) /\ evalX z = Xreal x /\ y = g x).
Proof.
  intros H Hf Hd ws rest y. split.
  - intros [e [E V]]. apply (seq_smap_evals f m1 m2 H) in E. destruct E as [z [E ->]].
    destruct (Hd _ _ V) as [x Hx]. exists z, x. repeat split; auto.
    rewrite (Hf _ _ Hx) in V. now injection V as <-.
  - intros [z [x [E [Hx ->]]]]. exists (f z). split; [|now apply Hf].
    apply (seq_smap_evals f m1 m2 H). exists z. split; auto.
Qed.

Lemma one_eval : evalX one = Xreal 1.
Proof. unfold one. apply num_eval. Qed.

(* the leaf maps denote the affine maps *)
Lemma affine_eval loc scale z :
  evalX (affine loc scale z) = Xadd (Xreal (dyR loc)) (Xmul (Xreal (dyR scale)) (evalX z)).
Proof. unfold affine. cbn [evalX xbin]. rewrite !dyx_eval. reflexivity. Qed.
Lemma normal_from_zscore_eval mean sd z :
  evalX (normal_from_zscore mean sd z) = Xadd (Xreal (dyR mean)) (Xmul (Xreal (dyR sd)) (evalX z)).
Proof. apply affine_eval. Qed.
Lemma normal_from_zscore_xdy mean sd z :
  evalX (normal_from_zscore mean sd z) =
  Xadd (xdy (fst mean) (snd mean)) (Xmul (xdy (fst sd) (snd sd)) (evalX z)).
Proof. reflexivity. Qed.
Lemma lognormal_from_zscore_eval mu sigma z :
  evalX (lognormal_from_zscore mu sigma z) = Xexp (Xadd (Xreal (dyR mu)) (Xmul (Xreal (dyR sigma)) (evalX z))).
Proof. unfold lognormal_from_zscore. cbn [eexp evalX xun]. now rewrite normal_from_zscore_eval. Qed.
Lemma affine_sub_eval loc scale z :
  evalX (affine_sub loc scale z) = Xsub (Xreal (dyR loc)) (Xmul (Xreal (dyR scale)) (evalX z)).
Proof. unfold affine_sub. cbn [evalX xbin]. rewrite !dyx_eval. reflexivity. Qed.
Lemma affine_r_eval loc scale z :
  evalX (affine_r loc scale z) = Xadd (Xmul (evalX z) (Xreal (dyR scale))) (Xreal (dyR loc)).
Proof. unfold affine_r. cbn [evalX xbin]. rewrite !dyx_eval. reflexivity. Qed.
Lemma scale_l_eval scale z : evalX (scale_l scale z) = Xmul (Xreal (dyR scale)) (evalX z).
Proof. unfold scale_l. cbn [evalX xbin]. rewrite !dyx_eval. reflexivity. Qed.
Lemma exp_scale_eval lambda z : dyR lambda <> 0 ->
  evalX (exp_scale lambda z) = Xmul (evalX z) (Xreal (1 / dyR lambda)).
Proof. intros H. unfold exp_scale. cbn [evalX xbin]. rewrite dyx_eval, one_eval, Xdiv_nz by exact H. reflexivity. Qed.

(* the real factor by which Gamma's core variate is multiplied, besides the scale *)
Definition gamma_fac (shape : Z * Z) : R :=
  if dy_eqb shape (1, 0)%Z then 1 else if dy_ltb shape (1, 0)%Z then 1 else dyR shape - 1 / 3.
Lemma gamma_scale_eval shape scale z : dyR scale <> 0 ->
  evalX (gamma_scale shape scale z) = Xmul (evalX z) (Xreal (gamma_fac shape * dyR scale)).
Proof.
  intros H. unfold gamma_scale, gamma_fac.
  destruct (dy_eqb shape (1, 0)%Z); [|destruct (dy_ltb shape (1, 0)%Z)]; cbn [evalX xbin].
  - rewrite dyx_eval, one_eval, Xdiv_nz by exact H. rewrite Xdiv_nz.
    + do 2 f_equal. field. exact H.
    + intros Z. apply (Rmult_eq_compat_l (dyR scale)) in Z. rewrite Rmult_0_r in Z.
      unfold Rdiv in Z. rewrite Rmult_1_l, Rinv_r in Z by exact H. lra.
  - rewrite dyx_eval. do 2 f_equal. ring.
  - unfold rat. cbn [evalX xbin]. rewrite !dyx_eval, !num_eval, Xdiv_nz by lra. reflexivity.
Qed.

Ltac real_arg H := match type of H with context [evalX ?z] => destruct (evalX z) as [|x]; [discriminate H|exists x; reflexivity] end.

(* ---- the theorems: sample = affine map of the standard sample, same words left ------------------- *)
Section Semantic.
Variables (t : fty) (ws rest : list Z) (y : R).

Theorem normal_affine mean sd :
  (exists e, evals (normal t mean sd ws) (e, rest) /\ evalX e = Xreal y) <->
  (exists z x, evals (std_normal t ws) (z, rest) /\ evalX z = Xreal x /\ y = dyR mean + dyR sd * x).
Proof.
  apply (smap_sem (normal_from_zscore mean sd) (fun x => dyR mean + dyR sd * x)); [apply normal_smap_req| |].
  - intros z x H. now rewrite normal_from_zscore_eval, H.
  - intros z v H. rewrite normal_from_zscore_eval in H. real_arg H.
Qed.
Theorem lognormal_affine mu sigma :
  (exists e, evals (lognormal t mu sigma ws) (e, rest) /\ evalX e = Xreal y) <->
  (exists z x, evals (std_normal t ws) (z, rest) /\ evalX z = Xreal x /\ y = exp (dyR mu + dyR sigma * x)).
Proof.
  apply (smap_sem (lognormal_from_zscore mu sigma) (fun x => exp (dyR mu + dyR sigma * x)));
    [apply lognormal_smap_req| |].
  - intros z x H. now rewrite lognormal_from_zscore_eval, H.
  - intros z v H. rewrite lognormal_from_zscore_eval in H. real_arg H.
Qed.
(* scale = 1/lambda *)
Theorem exp_lambda_scale lambda : dyR lambda <> 0 ->
  (exists e, evals (exp_lambda t lambda ws) (e, rest) /\ evalX e = Xreal y) <->
  (exists z x, evals (exp1 t ws) (z, rest) /\ evalX z = Xreal x /\ y = x * (1 / dyR lambda)).
Proof.
  intros L. apply (smap_sem (exp_scale lambda) (fun x => x * (1 / dyR lambda))); [apply exp_lambda_smap_req| |].
  - intros z x H. now rewrite exp_scale_eval, H.
  - intros z v H. rewrite exp_scale_eval in H by exact L. real_arg H.
Qed.
Theorem cauchy_affine median scale :
  (exists e, evals (cauchy t median scale ws) (e, rest) /\ evalX e = Xreal y) <->
  (exists z x, evals (cauchy_std t ws) (z, rest) /\ evalX z = Xreal x /\ y = dyR median + dyR scale * x).
Proof.
  apply (smap_sem (affine median scale) (fun x => dyR median + dyR scale * x)).
  - intros l. apply eq_req, cauchy_smap.
  - intros z x H. now rewrite affine_eval, H.
  - intros z v H. rewrite affine_eval in H. real_arg H.
Qed.
Theorem gumbel_affine loc scale :
  (exists e, evals (gumbel t loc scale ws) (e, rest) /\ evalX e = Xreal y) <->
  (exists z x, evals (gumbel_std t ws) (z, rest) /\ evalX z = Xreal x /\ y = dyR loc - dyR scale * x).
Proof.
  apply (smap_sem (affine_sub loc scale) (fun x => dyR loc - dyR scale * x)).
  - intros l. apply eq_req, gumbel_smap.
  - intros z x H. now rewrite affine_sub_eval, H.
  - intros z v H. rewrite affine_sub_eval in H. real_arg H.
Qed.
Theorem frechet_affine loc scale shape :
  (exists e, evals (frechet t loc scale shape ws) (e, rest) /\ evalX e = Xreal y) <->
  (exists z x, evals (frechet_std t shape ws) (z, rest) /\ evalX z = Xreal x /\ y = dyR loc + dyR scale * x).
Proof.
  apply (smap_sem (affine loc scale) (fun x => dyR loc + dyR scale * x)).
  - intros l. apply eq_req, frechet_smap.
  - intros z x H. now rewrite affine_eval, H.
  - intros z v H. rewrite affine_eval in H. real_arg H.
Qed.
Theorem pareto_scale scale shape :
  (exists e, evals (pareto t scale shape ws) (e, rest) /\ evalX e = Xreal y) <->
  (exists z x, evals (pareto_std t shape ws) (z, rest) /\ evalX z = Xreal x /\ y = dyR scale * x).
Proof.
  apply (smap_sem (scale_l scale) (fun x => dyR scale * x)).
  - intros l. apply eq_req, pareto_smap.
  - intros z x H. now rewrite scale_l_eval, H.
  - intros z v H. rewrite scale_l_eval in H. real_arg H.
Qed.
Theorem weibull_scale scale shape :
  (exists e, evals (weibull t scale shape ws) (e, rest) /\ evalX e = Xreal y) <->
  (exists z x, evals (weibull_std t shape ws) (z, rest) /\ evalX z = Xreal x /\ y = dyR scale * x).
Proof.
  apply (smap_sem (scale_l scale) (fun x => dyR scale * x)).
  - intros l. apply eq_req, weibull_smap.
  - intros z x H. now rewrite scale_l_eval, H.
  - intros z v H. rewrite scale_l_eval in H. real_arg H.
Qed.
Theorem skew_normal_affine loc scale shape :
  (exists e, evals (skew_normal t loc scale shape ws) (e, rest) /\ evalX e = Xreal y) <->
  (exists z x, evals (skew_normal_std t shape ws) (z, rest) /\ evalX z = Xreal x /\ y = x * dyR scale + dyR loc).
Proof.
  apply (smap_sem (affine_r loc scale) (fun x => x * dyR scale + dyR loc)); [apply skew_normal_smap_req| |].
  - intros z x H. now rewrite affine_r_eval, H.
  - intros z v H. rewrite affine_r_eval in H. real_arg H.
Qed.
(* all three representations: result = core * (factor depending on the shape only) * scale *)
Theorem gamma_scale_sem shape scale : dyR scale <> 0 ->
  (exists e, evals (gamma t shape scale ws) (e, rest) /\ evalX e = Xreal y) <->
  (exists z x, evals (gamma_core t shape ws) (z, rest) /\ evalX z = Xreal x /\
               y = x * (gamma_fac shape * dyR scale)).
Proof.
  intros S. apply (smap_sem (gamma_scale shape scale) (fun x => x * (gamma_fac shape * dyR scale)));
    [apply gamma_smap_req| |].
  - intros z x H. now rewrite gamma_scale_eval, H.
  - intros z v H. rewrite gamma_scale_eval in H by exact S. real_arg H.
Qed.
End Semantic.

(* ================================================================================================== *)
(* ---- InverseGaussian: (mu, lambda) -> (c mu, c lambda) scales the sample by c -------------------------- *)
(* Here the expressions inside the decision  u <= mu / (mu + x)  change, so the trees differ; the
   statement is semantic: the same words are read, the decision has the same real value on both
   sides and the result is multiplied by c.                                                            *)
Lemma evals_bind {A B} (r : run A) (k : A -> run B) v :
  evals (bind r k) v <-> exists a, evals r a /\ evals (k a) v.
Proof.
  split.
  - induction r as [a|c a b k0 IH|e k0 IH|c]; cbn; intros E.
    + exists a. split; [constructor|exact E].
    + inversion E; subst. destruct (IH _ H6) as [a0 [E0 E1]]. exists a0. split; [|exact E1]. eapply EvAsk; eauto.
    + inversion E; subst. destruct (IH _ H3) as [a0 [E0 E1]]. exists a0. split; [|exact E1]. eapply EvFloor; eauto.
    + inversion E.
  - intros [a [E0 E1]]. induction E0; cbn; [exact E1|eapply EvAsk; eauto|eapply EvFloor; eauto].
Qed.

Definition ig_x (mu l v : expr) : expr :=
  mu +. mu /. (num 2 *. l) *. (mu *. v *. v -. esqrt (num 4 *. l *. (mu *. v *. v) +. mu *. v *. v *. (mu *. v *. v))).
Definition ig_rad (m lam rv : R) : R := 4 * lam * (m * rv * rv) + m * rv * rv * (m * rv * rv).
Definition ig_xr (m lam rv : R) : R := m + m / (2 * lam) * (m * rv * rv - sqrt (ig_rad m lam rv)).

Lemma ig_x_inv mu l v m lam xx : evalX mu = Xreal m -> evalX l = Xreal lam -> evalX (ig_x mu l v) = Xreal xx ->
  exists rv, evalX v = Xreal rv /\ lam <> 0 /\ xx = ig_xr m lam rv.
Proof.
  intros Hm Hl. unfold ig_x. cbn [evalX xbin xun esqrt]. rewrite Hm, Hl, !num_eval.
  destruct (evalX v) as [|rv]; cbn [Xmul Xadd Xsub Xsqrt Xdiv Xbind Xbind2 Xlift Xlift2];
    unfold Xdiv'; destruct (is_zero_spec (2 * lam)) as [Z|Z]; intros H; try discriminate H.
  injection H as <-. exists rv. repeat split; auto. lra.
Qed.
Lemma ig_x_intro mu l v m lam rv : evalX mu = Xreal m -> evalX l = Xreal lam -> evalX v = Xreal rv ->
  lam <> 0 -> evalX (ig_x mu l v) = Xreal (ig_xr m lam rv).
Proof.
  intros Hm Hl Hv L. unfold ig_x. cbn [evalX xbin xun esqrt]. rewrite Hm, Hl, Hv, !num_eval.
  cbn [Xmul Xadd Xsub Xsqrt Xdiv Xbind Xbind2 Xlift Xlift2]. unfold Xdiv'.
  rewrite is_zero_false by lra. reflexivity.
Qed.
Lemma ig_rad_scale c m lam rv : ig_rad (c * m) (c * lam) rv = c * c * ig_rad m lam rv.
Proof. unfold ig_rad. ring. Qed.
Lemma ig_xr_scale c m lam rv : 0 < c -> lam <> 0 -> ig_xr (c * m) (c * lam) rv = c * ig_xr m lam rv.
Proof.
  intros Hc L. unfold ig_xr. rewrite ig_rad_scale.
  rewrite sqrt_mult_alt by nra. rewrite sqrt_square by lra. field. lra.
Qed.

Section IG.
Variables (t : fty) (mu l mu' l' : expr) (m lam c : R).
Hypothesis Hc : 0 < c.
Hypothesis Hmu : evalX mu = Xreal m.
Hypothesis Hl : evalX l = Xreal lam.
Hypothesis Hmu' : evalX mu' = Xreal (c * m).
Hypothesis Hl' : evalX l' = Xreal (c * lam).

Lemma ig_scale_e ws rest y :
  (exists e, evals (inverse_gaussian_e t mu l ws) (e, rest) /\ evalX e = Xreal y) ->
  (exists e', evals (inverse_gaussian_e t mu' l' ws) (e', rest) /\ evalX e' = Xreal (c * y)).
Proof.
  intros [e [E V]]. unfold inverse_gaussian_e, sbind in E. apply evals_bind in E.
  destruct E as [[v ws1] [E1 E2]]. destruct ws1 as [|w ws2]; [inversion E2|].
  cbn [draw_std sbind bind next_word sret sask] in E2.
  change (mu +. mu /. (num 2 *. l) *. (mu *. v *. v -. esqrt (num 4 *. l *. (mu *. v *. v) +. mu *. v *. v *. (mu *. v *. v))))
    with (ig_x mu l v) in E2.
  inversion E2 as [|c0 a0 b0 k0 xu q v0 Hu Hq Hk|]; subst.
  (* the decision's right-hand side *)
  cbn [evalX xbin] in Hq. rewrite Hmu in Hq. destruct (evalX (ig_x mu l v)) as [|xx] eqn:Ex; [discriminate|].
  destruct (ig_x_inv _ _ _ _ _ _ Hmu Hl Ex) as (rv & Hv & L & ->).
  cbn [Xadd Xdiv Xbind2] in Hq. unfold Xdiv' in Hq.
  destruct (is_zero_spec (m + ig_xr m lam rv)) as [Z|Z]; [discriminate|]. injection Hq as <-.
  assert (evalX (ig_x mu' l' v) = Xreal (c * ig_xr m lam rv)) as Ex'.
  { rewrite <- ig_xr_scale by assumption. apply ig_x_intro; auto.
    intros Q. apply L. apply (Rmult_eq_reg_l c); lra. }
  assert (evalX (mu' /. (mu' +. ig_x mu' l' v)) = Xreal (m / (m + ig_xr m lam rv))) as Hq'.
  { cbn [evalX xbin]. rewrite Hmu', Ex'. cbn [Xadd Xdiv Xbind2]. unfold Xdiv'.
    assert (c * m + c * ig_xr m lam rv <> 0) as NZ by (intros Q; apply Z; apply (Rmult_eq_reg_l c); lra).
    rewrite is_zero_false by exact NZ. f_equal. field. split; assumption. }
  set (le := rcmp CLe xu (m / (m + ig_xr m lam rv))) in Hk.
  exists (if le then ig_x mu' l' v else mu' *. mu' /. ig_x mu' l' v). split.
  - unfold inverse_gaussian_e, sbind. apply evals_bind. exists (v, w :: ws2). split; [exact E1|].
    cbn [draw_std sbind bind next_word sret sask]. eapply EvAsk; [exact Hu|exact Hq'|]. fold le.
    destruct le; inversion Hk; subst; constructor.
  - destruct le; inversion Hk; subst.
    + rewrite Ex in V. injection V as <-. exact Ex'.
    + cbn [evalX xbin] in V |- * . rewrite Hmu, Ex in V. rewrite Hmu', Ex'.
      cbn [Xmul Xdiv Xbind2] in V |- * . unfold Xdiv' in V |- * .
      destruct (is_zero_spec (ig_xr m lam rv)) as [Z0|Z0]; [discriminate|]. injection V as <-.
      rewrite is_zero_false by (intros Q; apply Z0; apply (Rmult_eq_reg_l c); lra).
      f_equal. field. split; [exact Z0|lra].
Qed.
End IG.

(* dyadic parameters: c = mc * 2^ec, (c mu, c lambda) are again dyadic *)
Definition dy_mul (c q : Z * Z) : Z * Z := (fst c * fst q, snd c + snd q)%Z.
Lemma dyR_mul c q : dyR (dy_mul c q) = dyR c * dyR q.
Proof. unfold dyR, dy_mul. cbn [fst snd]. rewrite mult_IZR, powerRZ_add by lra. ring. Qed.

Theorem inverse_gaussian_scale t c mean shape ws rest y : 0 < dyR c ->
  (exists e, evals (inverse_gaussian t mean shape ws) (e, rest) /\ evalX e = Xreal y) <->
  (exists e', evals (inverse_gaussian t (dy_mul c mean) (dy_mul c shape) ws) (e', rest) /\ evalX e' = Xreal (dyR c * y)).
Proof.
  intros Hc. unfold inverse_gaussian. split.
  - apply (ig_scale_e t _ _ _ _ (dyR mean) (dyR shape) (dyR c) Hc); rewrite ?dyx_eval, ?dyR_mul; reflexivity.
  - intros H.
    assert (0 < / dyR c) as Hi by now apply Rinv_0_lt_compat.
    pose proof (ig_scale_e t (dyx (dy_mul c mean)) (dyx (dy_mul c shape)) (dyx mean) (dyx shape)
                  (dyR c * dyR mean) (dyR c * dyR shape) (/ dyR c) Hi) as G.
    assert (/ dyR c * (dyR c * y) = y) as Ey by (field; lra).
    rewrite <- Ey. apply G; auto.
    + now rewrite dyx_eval, dyR_mul.
    + now rewrite dyx_eval, dyR_mul.
    + rewrite dyx_eval. f_equal. field. lra.
    + rewrite dyx_eval. f_equal. field. lra.
Qed.

(* ---- Triangular: x -> a + b x applied to (min, max, mode), b > 0 -------------------------------------- *)
(* the decision  u (max - min) < mode - min  is scaled by b on both sides, so its outcome is the same *)
Lemma Q_tri_affine a b mn mx mode u : 0 < b ->
  Q_tri (a + b * mn) (a + b * mx) (a + b * mode) u = a + b * Q_tri mn mx mode u.
Proof.
  intros Hb. unfold Q_tri.
  destruct (Rlt_dec (u * (mx - mn)) (mode - mn)) as [L|L];
    destruct (Rlt_dec (u * (a + b * mx - (a + b * mn))) (a + b * mode - (a + b * mn))) as [L'|L']; try nra.
  - replace (u * (a + b * mx - (a + b * mn)) * (a + b * mode - (a + b * mn)))
      with (b * b * (u * (mx - mn) * (mode - mn))) by ring.
    rewrite sqrt_mult_alt by nra. rewrite sqrt_square by lra. ring.
  - replace ((a + b * mx - (a + b * mn) - u * (a + b * mx - (a + b * mn))) * (a + b * mx - (a + b * mode)))
      with (b * b * ((mx - mn - u * (mx - mn)) * (mx - mode))) by ring.
    rewrite sqrt_mult_alt by nra. rewrite sqrt_square by lra. ring.
Qed.

Lemma triangular_sem t mn mx mode ws rest y :
  (exists e, evals (triangular t mn mx mode ws) (e, rest) /\ evalX e = Xreal y) <->
  (exists w, ws = w :: rest /\ y = Q_tri (dyR mn) (dyR mx) (dyR mode) (uR_std t w)).
Proof.
  destruct ws as [|w ws'].
  - split; [intros [e [E _]]; inversion E|intros [w [Q _]]; discriminate Q].
  - destruct (triangular_value t mn mx mode w ws') as [[e0 E0] H]. split.
    + intros [e [E V]]. destruct (H _ E) as [H1 H2]. cbn [fst snd] in H1, H2. subst rest.
      rewrite H2 in V. injection V as <-. eauto.
    + intros [w' [Q ->]]. injection Q as <- <-. exists e0. split; [exact E0|]. apply (H _ E0).
Qed.

Theorem triangular_affine t mn mx mode mn' mx' mode' a b ws rest y : 0 < b ->
  dyR mn' = a + b * dyR mn -> dyR mx' = a + b * dyR mx -> dyR mode' = a + b * dyR mode ->
  (exists e, evals (triangular t mn mx mode ws) (e, rest) /\ evalX e = Xreal y) ->
  (exists e', evals (triangular t mn' mx' mode' ws) (e', rest) /\ evalX e' = Xreal (a + b * y)).
Proof.
  intros Hb E1 E2 E3 H. apply triangular_sem in H. destruct H as [w [-> ->]].
  apply triangular_sem. exists w. split; [reflexivity|]. rewrite E1, E2, E3. symmetry. now apply Q_tri_affine.
Qed.

(* ---- definitional facts restated for Props/C07.v --------------------------------------------------------- *)
Lemma normal_from_zscore_spec mean sd z :
  normal_from_zscore mean sd z = Bin Add (dyx mean) (Bin Mul (dyx sd) z) /\
  evalX (normal_from_zscore mean sd z) = Xadd (xdy (fst mean) (snd mean)) (Xmul (xdy (fst sd) (snd sd)) (evalX z)) /\
  evalX (normal_from_zscore mean sd z) = Xadd (Xreal (dyR mean)) (Xmul (Xreal (dyR sd)) (evalX z)).
Proof. repeat split. apply normal_from_zscore_eval. Qed.
Lemma lognormal_from_zscore_spec mu sigma z :
  lognormal_from_zscore mu sigma z = Un Exp (Bin Add (dyx mu) (Bin Mul (dyx sigma) z)) /\
  evalX (lognormal_from_zscore mu sigma z) = Xexp (Xadd (Xreal (dyR mu)) (Xmul (Xreal (dyR sigma)) (evalX z))).
Proof. split; [reflexivity|apply lognormal_from_zscore_eval]. Qed.
Lemma std_samplers_spec t shape :
  cauchy_std t = sbind (draw_std t) (fun x => sret (etan (Bin Mul Pi x))) /\
  gumbel_std t = sbind (draw_oc t) (fun x => sret (eln (eneg (eln x)))) /\
  frechet_std t shape = sbind (draw_oc t) (fun x => sret (epow (eneg (eln x)) (eneg (Bin Div one (dyx shape))))) /\
  pareto_std t shape = sbind (draw_oc t) (fun u => sret (epow u (Bin Div (num (-1)) (dyx shape)))) /\
  weibull_std t shape = sbind (draw_oc t) (fun x => sret (epow (eneg (eln x)) (Bin Div one (dyx shape)))).
Proof. repeat split. Qed.
Lemma gamma_scale_spec shape scale v :
  gamma_scale shape scale v =
  if dy_eqb shape (1, 0)%Z then Bin Mul v (Bin Div one (Bin Div one (dyx scale)))
  else if dy_ltb shape (1, 0)%Z then Bin Mul v (dyx scale)
  else Bin Mul v (Bin Mul (Bin Sub (dyx shape) (rat 1 3)) (dyx scale)).
Proof. unfold gamma_scale. destruct (dy_eqb shape (1, 0)%Z); [|destruct (dy_ltb shape (1, 0)%Z)]; reflexivity. Qed.
Lemma gamma_fac_spec shape :
  gamma_fac shape = if dy_eqb shape (1, 0)%Z then 1 else if dy_ltb shape (1, 0)%Z then 1 else dyR shape - 1 / 3.
Proof. reflexivity. Qed.
Lemma req_iff_eq {A} (r1 r2 : run A) : req r1 r2 <-> r1 = r2.
Proof. split; [apply req_eq|apply eq_req]. Qed.

(* ================================================================================================== *)
(* ---- Pert: x -> a + b x applied to (min, max, mode), b > 0 ------------------------------------------- *)
(* The Beta parameters v = 1 + shape (mode - min)/(max - min) and w are unchanged as real numbers but are
   different expressions; so the two trees are related by `rsim`: same shape, the two sides of every
   decision have the same exact value, related leaves.                                                 *)
Definition xeq (e1 e2 : expr) : Prop := evalX e1 = evalX e2.

Inductive rsim {A} (R : A -> A -> Prop) : run A -> run A -> Prop :=
| SRet a a' : R a a' -> rsim R (Ret a) (Ret a')
| SAsk c a b k a' b' k' : xeq a a' -> xeq b b' -> (forall t, rsim R (k t) (k' t)) ->
    rsim R (Ask c a b k) (Ask c a' b' k')
| SFloor e k e' k' : xeq e e' -> (forall z, rsim R (k z) (k' z)) -> rsim R (AskFloor e k) (AskFloor e' k')
| SFail c : rsim R (Fail c) (Fail c).

Lemma rsim_evals {A} (R : A -> A -> Prop) r r' v :
  rsim R r r' -> evals r v -> exists v', evals r' v' /\ R v v'.
Proof.
  intros H. revert v. induction H as [a a' Ha|c a b k a' b' k' Ea Eb Hk IH|e k e' k' Ee Hk IH|c]; intros v E;
    inversion E; subst.
  - exists a'. split; [constructor|exact Ha].
  - destruct (IH _ _ H6) as [v' [E' Rv]]. exists v'. split; [|exact Rv].
    eapply EvAsk; [rewrite <- Ea; eassumption|rewrite <- Eb; eassumption|exact E'].
  - destruct (IH _ _ H3) as [v' [E' Rv]]. exists v'. split; [|exact Rv].
    eapply EvFloor; [rewrite <- Ee; eassumption|exact E'].
Qed.
Lemma rsim_bind {A B} (R : A -> A -> Prop) (Q : B -> B -> Prop) r r' (k k' : A -> run B) :
  rsim R r r' -> (forall a a', R a a' -> rsim Q (k a) (k' a')) -> rsim Q (bind r k) (bind r' k').
Proof. intros H Hk. induction H; cbn; try constructor; auto. Qed.

(* leaves: expressions of equal value, the same remaining words *)
Definition leq (p p' : expr * list Z) : Prop := xeq (fst p) (fst p') /\ snd p = snd p'.

Ltac xeq_tac := unfold xeq in *; cbn [evalX xbin xun esqrt eexp eln eabs epow etan eneg efloor]; congruence.
Ltac simstep := cbn [beta_bb beta_bc sbind bind draw_open draw_std draw_oc next_word sret sask sfail negb fst snd].
Ltac sim_leaf := constructor; split; [cbn [fst]; xeq_tac|reflexivity].

Lemma beta_bb_sim fuel t a b al be ga a' b' al' be' ga' ws :
  xeq a a' -> xeq b b' -> xeq al al' -> xeq be be' -> xeq ga ga' ->
  rsim leq (beta_bb fuel t a b al be ga ws) (beta_bb fuel t a' b' al' be' ga' ws).
Proof.
  intros Ha Hb Hal Hbe Hga. revert ws. induction fuel as [|f IH]; intros ws; [constructor|].
  destruct ws as [|w1 [|w2 ws]]; [constructor|constructor|].
  simstep. constructor; [xeq_tac|xeq_tac|]. intros [|]; simstep; [sim_leaf|].
  constructor; [xeq_tac|xeq_tac|]. intros [|]; simstep; [sim_leaf|].
  constructor; [xeq_tac|xeq_tac|]. intros [|]; simstep; [apply IH|sim_leaf].
Qed.
Lemma beta_bc_sim fuel t a b al be k1 k2 a' b' al' be' k1' k2' ws :
  xeq a a' -> xeq b b' -> xeq al al' -> xeq be be' -> xeq k1 k1' -> xeq k2 k2' ->
  rsim leq (beta_bc fuel t a b al be k1 k2 ws) (beta_bc fuel t a' b' al' be' k1' k2' ws).
Proof.
  intros Ha Hb Hal Hbe Hk1 Hk2. revert ws. induction fuel as [|f IH]; intros ws; [constructor|].
  destruct ws as [|w1 [|w2 ws]]; [constructor|constructor|].
  simstep. constructor; [xeq_tac|xeq_tac|]. intros [|]; simstep.
  - constructor; [xeq_tac|xeq_tac|]. intros [|]; simstep; [apply IH|].
    constructor; [xeq_tac|xeq_tac|]. intros [|]; simstep; [apply IH|sim_leaf].
  - constructor; [xeq_tac|xeq_tac|]. intros [|]; simstep; [sim_leaf|].
    constructor; [xeq_tac|xeq_tac|]. intros [|]; simstep; [apply IH|].
    constructor; [xeq_tac|xeq_tac|]. intros [|]; simstep; [apply IH|sim_leaf].
Qed.
Lemma beta_e_sim t lt gt1 a0 b0 a0' b0' ws :
  xeq a0 a0' -> xeq b0 b0' -> rsim leq (beta_e t lt gt1 a0 b0 ws) (beta_e t lt gt1 a0' b0' ws).
Proof.
  intros Ha Hb. unfold beta_e. destruct lt, gt1; cbn [negb]; unfold sbind.
  all: eapply rsim_bind; [first [apply beta_bb_sim|apply beta_bc_sim]; xeq_tac|];
    intros [w ws1] [w' ws1'] [Hw Hws]; cbn [fst snd] in Hw, Hws; subst ws1'; cbn [sret]; sim_leaf.
Qed.

Section Pert.
Variables (mn mx mode mn' mx' mode' shape : Z * Z) (a b : R).
Hypothesis Hb : 0 < b.
Hypothesis Emn : dyR mn' = a + b * dyR mn.
Hypothesis Emx : dyR mx' = a + b * dyR mx.
Hypothesis Emode : dyR mode' = a + b * dyR mode.

Lemma pert_param_xeq (P Q P' Q' : Z * Z) :
  dyR P' = a + b * dyR P -> dyR Q' = a + b * dyR Q ->
  xeq (one +. dyx shape *. (dyx P -. dyx Q) /. (dyx mx -. dyx mn))
      (one +. dyx shape *. (dyx P' -. dyx Q') /. (dyx mx' -. dyx mn')).
Proof.
  intros EP EQ. unfold xeq. cbn [evalX xbin]. rewrite !dyx_eval, one_eval. cbn [Xsub Xmul Xdiv Xbind2].
  unfold Xdiv'. rewrite EP, EQ, Emx, Emn.
  destruct (is_zero_spec (dyR mx - dyR mn)) as [Z|Z];
    destruct (is_zero_spec (a + b * dyR mx - (a + b * dyR mn))) as [Z'|Z']; try reflexivity.
  - exfalso. apply Z'. nra.
  - exfalso. apply Z. nra.
  - cbn [Xadd]. f_equal. field. split; assumption.
Qed.

(* related leaves: same remaining words; the value is mapped by x -> a + b x *)
Definition pert_rel (p p' : expr * list Z) : Prop :=
  snd p = snd p' /\ forall y, evalX (fst p) = Xreal y -> evalX (fst p') = Xreal (a + b * y).

Lemma pert_sim t ws : rsim pert_rel (pert t mn mx mode shape ws) (pert t mn' mx' mode' shape ws).
Proof.
  pose proof (pert_param_xeq mode mn mode' mn' Emode Emn) as Hv.
  pose proof (pert_param_xeq mx mode mx' mode' Emx Emode) as Hw.
  unfold pert. cbn [sbind sask bind]. constructor; [exact Hv|exact Hw|]. intros lt.
  constructor; [destruct lt; assumption|reflexivity|]. intros gt1.
  eapply rsim_bind; [apply beta_e_sim; assumption|].
  intros [bb ws1] [bb' ws1'] [Hbb Hws]. cbn [fst snd] in Hbb, Hws. subst ws1'. cbn [sret]. constructor.
  split; [reflexivity|]. cbn [fst]. intros y. unfold xeq in Hbb. cbn [evalX xbin]. rewrite !dyx_eval, <- Hbb.
  destruct (evalX bb) as [|rb]; [discriminate|]. cbn [Xsub Xmul Xadd]. intros H. injection H as <-.
  rewrite Emx, Emn. f_equal. ring.
Qed.

Theorem pert_affine t ws rest y :
  (exists e, evals (pert t mn mx mode shape ws) (e, rest) /\ evalX e = Xreal y) ->
  (exists e', evals (pert t mn' mx' mode' shape ws) (e', rest) /\ evalX e' = Xreal (a + b * y)).
Proof.
  intros [e [E V]]. destruct (rsim_evals _ _ _ _ (pert_sim t ws) E) as [[e' rest'] [E' [Hr Hy]]].
  cbn [fst snd] in Hr, Hy. subst rest'. exists e'. split; [exact E'|apply Hy, V].
Qed.
End Pert.
