(* Proofs/MultiDirichlet.v — property C11 (Dirichlet): the reversed cumulative sums of
   DirichletFromBeta::new, the parameters of the chain of Beta samplers, the simplex property of the
   stick-breaking construction and of the Gamma normalisation (on ideal reals AND on the results of
   the models of Model/Multi.v), and the method switch.                                              *)
From Coq Require Import Reals ZArith List Lra Lia Bool.
From Interval Require Import Xreal.
From Flocq Require Import Core.
From RD Require Import Base.Expr Base.Run Model.Sampler Model.Continuous Model.Multi Proofs.MultiProofs.
Import ListNotations.
Open Scope Z_scope.
Open Scope sampler_scope.

Local Notation "a +. b" := (Bin Add a b) (at level 50, left associativity).
Local Notation "a -. b" := (Bin Sub a b) (at level 50, left associativity).
Local Notation "a *. b" := (Bin Mul a b) (at level 40, left associativity).
Local Notation "a /. b" := (Bin Div a b) (at level 40, left associativity).

Local Open Scope R_scope.

Definition sumf (l : list R) : R := fold_right Rplus 0 l.
Lemma sumf_cons a l : sumf (a :: l) = a + sumf l.
Proof. reflexivity. Qed.
Lemma sumf_nil : sumf [] = 0.
Proof. reflexivity. Qed.

(* ---- alpha_rev_csum ----------------------------------------------------------------------------------- *)
Lemma suffix_sums_R_length l : length (suffix_sums_R l) = length l.
Proof.
  induction l as [|a r IH]; [reflexivity|]. cbn [suffix_sums_R].
  destruct (suffix_sums_R r) as [|c q]; cbn [length] in *; rewrite <- IH; reflexivity.
Qed.
Lemma suffix_sums_length l : length (suffix_sums l) = length l.
Proof.
  induction l as [|a r IH]; [reflexivity|]. cbn [suffix_sums].
  destruct (suffix_sums r) as [|c q]; cbn [length] in *; rewrite <- IH; reflexivity.
Qed.

Lemma suffix_sums_R_spec l : forall i, (i < length l)%nat -> nth i (suffix_sums_R l) 0 = sumf (skipn i l).
Proof.
  induction l as [|a r IH]; intros i Hi; [cbn in Hi; lia|].
  cbn [suffix_sums_R]. pose proof (suffix_sums_R_length r) as L.
  destruct (suffix_sums_R r) as [|c q] eqn:E.
  - destruct r; [|discriminate L]. cbn in Hi. assert (i = 0)%nat by lia. subst i. cbn [nth skipn]. rewrite sumf_cons, sumf_nil. ring.
  - assert (C : c = sumf r).
    { assert (H0 : (0 < length r)%nat) by (rewrite <- L; cbn; lia).
      specialize (IH 0%nat H0). cbn in IH. exact IH. }
    destruct i as [|j].
    + cbn [nth skipn]. rewrite sumf_cons, C. ring.
    + cbn [nth skipn]. apply IH. cbn in Hi. lia.
Qed.

Theorem rev_csum_length alpha : length (rev_csum_R alpha) = (length alpha - 1)%nat.
Proof. unfold rev_csum_R. rewrite suffix_sums_R_length. destruct alpha; cbn; lia. Qed.
Theorem rev_csum_length_e alpha : length (rev_csum alpha) = (length alpha - 1)%nat.
Proof. unfold rev_csum. rewrite suffix_sums_length. destruct alpha; cbn; lia. Qed.

(* entry i of alpha_rev_csum is the sum of the entries of alpha of index > i *)
Theorem rev_csum_spec alpha i : (2 <= length alpha)%nat -> (i < length alpha - 1)%nat ->
  nth i (rev_csum_R alpha) 0 = sumf (skipn (S i) alpha).
Proof.
  intros _ Hi. unfold rev_csum_R. destruct alpha as [|a0 r]; [cbn in Hi; lia|].
  cbn [tl skipn]. apply suffix_sums_R_spec. cbn in Hi. lia.
Qed.

(* the expression-level list (float additions) denotes the real-level one: same recursion *)
Lemma suffix_sums_vals l rs : vals l rs -> vals (suffix_sums l) (suffix_sums_R rs).
Proof.
  induction 1 as [|e r l rs He H IH]; [constructor|].
  cbn [suffix_sums suffix_sums_R].
  destruct IH as [|c cr q qr Hc Hq].
  - constructor; [exact He|constructor].
  - constructor; [|constructor; assumption].
    cbn [evalX xbin]. rewrite Hc, He. reflexivity.
Qed.
Theorem rev_csum_vals alpha rs : vals alpha rs -> vals (rev_csum alpha) (rev_csum_R rs).
Proof. intros H. unfold rev_csum, rev_csum_R. apply suffix_sums_vals. destruct H; [constructor|exact H0]. Qed.

(* ---- the chain of Beta samplers ------------------------------------------------------------------------ *)
Lemma combine_nth_lt {A B} (l : list A) (l' : list B) d d' : forall i, (i < length l)%nat -> (i < length l')%nat ->
  nth i (combine l l') (d, d') = (nth i l d, nth i l' d').
Proof.
  revert l'. induction l as [|a l IH]; intros [|b l'] i H1 H2; cbn in H1, H2; try lia.
  destruct i; [reflexivity|]. cbn. apply IH; lia.
Qed.

Theorem beta_chain_params t (alpha : list (Z * Z)) :
  let al := map dyx alpha in
  dirichlet_beta t alpha = dir_sticks t (beta_params al) one /\
  length (beta_params al) = (length alpha - 1)%nat /\
  (forall i, (i < length alpha - 1)%nat ->
     nth i (beta_params al) (one, one) = (dyx (nth i alpha (1, 0)%Z), nth i (rev_csum al) one)) /\
  (forall p r acc, dir_sticks t (p :: r) acc =
     (bs <- beta_of t p ;; l <- dir_sticks t r (acc *. (one -. bs)) ;; sret ((acc *. bs) :: l))%sampler) /\
  (forall acc, dir_sticks t [] acc = sret [acc]).
Proof.
  intros al. split; [reflexivity|]. split; [|split; [|split; reflexivity]].
  - unfold beta_params. rewrite combine_length, rev_csum_length_e. unfold al. rewrite map_length. lia.
  - intros i Hi. unfold beta_params. rewrite combine_nth_lt.
    + f_equal. unfold al. change one with (dyx (1, 0)%Z) at 1. apply map_nth.
    + unfold al. rewrite map_length. lia.
    + rewrite rev_csum_length_e. unfold al. rewrite map_length. lia.
Qed.

(* ---- stick breaking on ideal reals ----------------------------------------------------------------------- *)
Fixpoint sticks (bs : list R) (acc : R) : list R :=
  match bs with
  | [] => [acc]
  | b :: r => acc * b :: sticks r (acc * (1 - b))
  end.

Lemma sticks_sum bs : forall acc, sumf (sticks bs acc) = acc.
Proof.
  induction bs as [|b r IH]; intros acc; cbn [sticks].
  - rewrite sumf_cons, sumf_nil. ring.
  - rewrite sumf_cons, IH. ring.
Qed.
Lemma sticks_range bs : Forall (fun b => 0 <= b <= 1) bs -> forall acc, 0 <= acc <= 1 ->
  Forall (fun s => 0 <= s <= 1) (sticks bs acc).
Proof.
  induction 1 as [|b r Hb H IH]; intros acc Ha; cbn [sticks].
  - constructor; [exact Ha|constructor].
  - constructor; [nra|]. apply IH. nra.
Qed.
Lemma sticks_length bs acc : length (sticks bs acc) = S (length bs).
Proof. revert acc. induction bs as [|b r IH]; intros acc; cbn; [reflexivity|]. now rewrite IH. Qed.

(* for ANY b_1..b_{n-1} of [0,1] the n outputs are in [0,1]; they sum to exactly 1 (for any reals b_i at all) *)
Theorem stick_simplex bs : Forall (fun b => 0 <= b <= 1) bs ->
  length (sticks bs 1) = S (length bs) /\ Forall (fun s => 0 <= s <= 1) (sticks bs 1) /\ sumf (sticks bs 1) = 1.
Proof. intros H. split; [apply sticks_length|]. split; [apply sticks_range; [exact H|lra]|apply sticks_sum]. Qed.

(* ---- normalisation of positive reals ----------------------------------------------------------------------- *)
Definition normalise (gs : list R) : list R := map (fun g => g * (1 / sumf gs)) gs.

Lemma sumf_map_scale c l : sumf (map (fun g => g * c) l) = sumf l * c.
Proof. induction l as [|a l IH]; cbn [map]; [rewrite sumf_nil; ring|]. rewrite !sumf_cons, IH. ring. Qed.
Lemma sumf_pos_ge l : Forall (fun g => 0 < g) l -> 0 <= sumf l /\ forall g, In g l -> g <= sumf l.
Proof.
  induction 1 as [|a l Ha H [IH1 IH2]]; [split; [rewrite sumf_nil; lra|intros g []]|].
  rewrite sumf_cons. split; [lra|]. intros g [->|Hg]; [lra|]. specialize (IH2 g Hg). lra.
Qed.
Lemma sumf_pos l : Forall (fun g => 0 < g) l -> l <> [] -> 0 < sumf l.
Proof.
  intros H N. destruct H as [|a l Ha H]; [contradiction|]. rewrite sumf_cons.
  destruct (sumf_pos_ge l H) as [P _]. lra.
Qed.

Theorem gamma_simplex gs : Forall (fun g => 0 < g) gs -> gs <> [] ->
  length (normalise gs) = length gs /\ Forall (fun x => 0 < x <= 1) (normalise gs) /\ sumf (normalise gs) = 1.
Proof.
  intros H N. pose proof (sumf_pos gs H N) as P. unfold normalise.
  split; [apply map_length|]. split.
  - apply Forall_forall. intros x Hx. apply in_map_iff in Hx. destruct Hx as (g & <- & Hg).
    destruct (sumf_pos_ge gs H) as [_ U]. specialize (U g Hg).
    rewrite Forall_forall in H. specialize (H g Hg).
    replace (g * (1 / sumf gs)) with (g / sumf gs) by (field; lra).
    split; [apply Rdiv_lt_0_compat; lra|].
    apply Rmult_le_reg_r with (sumf gs); [exact P|]. replace (g / sumf gs * sumf gs) with g by (field; lra). lra.
  - rewrite sumf_map_scale. field. lra.
Qed.

(* ---- method switch --------------------------------------------------------------------------------------------- *)
Definition dyv (q : Z * Z) : R := IZR (fst q) * powerRZ 2 (snd q).

Lemma dyv_norm q e : (e <= snd q)%Z -> dyv q = IZR (fst q * 2 ^ (snd q - e)) * powerRZ 2 e.
Proof.
  intros H. unfold dyv. rewrite mult_IZR.
  change (2 ^ (snd q - e))%Z with (radix2 ^ (snd q - e))%Z.
  rewrite IZR_Zpower by lia. rewrite bpow_powerRZ. change (IZR radix2) with 2.
  rewrite Rmult_assoc, <- powerRZ_add by lra. do 2 f_equal. lia.
Qed.
Lemma dy_cmp_dyv a b : dy_cmp a b = Rcompare (dyv a) (dyv b).
Proof.
  unfold dy_cmp. set (e := Z.min (snd a) (snd b)).
  rewrite (dyv_norm a e), (dyv_norm b e) by lia.
  rewrite Rcompare_mult_r by (apply powerRZ_lt; lra). now rewrite Rcompare_IZR.
Qed.
Lemma dy_leb_dyv a b : dy_leb a b = true <-> dyv a <= dyv b.
Proof.
  unfold dy_leb. rewrite dy_cmp_dyv. destruct (Rcompare_spec (dyv a) (dyv b)); split; intros; try lra; try reflexivity; try discriminate.
Qed.
Lemma dyx_dyv q : evalX (dyx q) = Xreal (dyv q).
Proof. unfold dyx. cbn [evalX]. apply xdy_real. Qed.

(* the model takes the Beta route iff every alpha_i is <= the threshold (0.1_f64 converted to F), as real numbers *)
Theorem method_switch t alpha :
  (dir_use_beta t alpha = true <-> Forall (fun a => dyv a <= dyv (dir_threshold t)) alpha) /\
  (dir_use_beta t alpha = true -> dirichlet t alpha = dirichlet_beta t alpha) /\
  (dir_use_beta t alpha = false -> dirichlet t alpha = dirichlet_gamma t alpha).
Proof.
  split; [|split; intros H; unfold dirichlet; rewrite H; reflexivity].
  unfold dir_use_beta. rewrite forallb_forall, Forall_forall.
  split; intros H a Ha; apply dy_leb_dyv; auto.
Qed.

(* the two thresholds: 0.1_f64 and the f32 nearest to it; 1/10 lies strictly between *)
Lemma dir_threshold_values :
  dyv (dir_threshold F64) = 3602879701896397 / 36028797018963968 /\
  dyv (dir_threshold F32) = 13421773 / 134217728 /\
  1 / 10 < dyv (dir_threshold F64) < dyv (dir_threshold F32).
Proof.
  unfold dyv, dir_threshold. cbn [fst snd].
  assert (PW : forall n : Z, (0 <= n)%Z -> powerRZ 2 (- n) = / IZR (2 ^ n)).
  { intros n Hn. rewrite <- (bpow_powerRZ radix2), bpow_opp. f_equal.
    rewrite <- IZR_Zpower by lia. reflexivity. }
  assert (A : powerRZ 2 (-55) = / 36028797018963968) by (apply (PW 55%Z); lia).
  assert (B : powerRZ 2 (-27) = / 134217728) by (apply (PW 27%Z); lia).
  rewrite A, B. split; [reflexivity|]. split; [reflexivity|]. lra.
Qed.

(* ---- lift to the models: the components of every result sum to one ----------------------------------------------- *)

(* FromBeta.  P acc: whenever all components denote reals, so does acc, and they sum to its value *)
Definition sums_to (acc : expr) (p : list expr * list Z) : Prop :=
  forall rs, vals (fst p) rs -> exists A, evalX acc = Xreal A /\ sumf rs = A.

Lemma dir_sticks_sem t ab : forall acc ws, msem (fun p => length (fst p) = S (length ab) /\ sums_to acc p) (dir_sticks t ab acc ws).
Proof.
  induction ab as [|p r IH]; intros acc ws.
  - cbn. split; [reflexivity|]. intros rs H. inversion H as [|e x l l' He Hl]; subst. inversion Hl; subst.
    exists x. split; [exact He|]. rewrite sumf_cons, sumf_nil. ring.
  - cbn [dir_sticks]. apply msem_sbind_any. intros bs ws1.
    eapply msem_sbind; [apply IH|]. intros l ws2 [Hlen Hl]. cbn [sret msem fst length] in * .
    split; [now rewrite Hlen|]. intros rs H. inversion H as [|e x l0 l' He Hrest]; subst.
    destruct (Hl _ Hrest) as (A' & EA' & Hsum).
    apply mul_real in He. destruct He as (A & B & EA & EB & ->).
    apply mul_real in EA'. destruct EA' as (A2 & C & EA2 & EC & ->).
    rewrite EA in EA2. apply Xreal_eq in EA2. subst A2.
    apply sub_real in EC. destruct EC as (o & B2 & Eo & EB2 & ->).
    rewrite one_eval in Eo. rewrite EB in EB2. apply Xreal_eq in Eo, EB2. subst o B2.
    exists A. split; [exact EA|]. rewrite sumf_cons, Hsum. ring.
Qed.

Theorem dirichlet_beta_simplex t alpha ws out rest : evals (dirichlet_beta t alpha ws) (out, rest) ->
  length out = S (length alpha - 1) /\ forall rs, vals out rs -> sumf rs = 1.
Proof.
  intros E. unfold dirichlet_beta in E.
  pose proof (msem_elim _ _ _ (dir_sticks_sem t _ one ws) E) as [L S]. cbn [fst] in L, S.
  split.
  - rewrite L. f_equal. unfold beta_params. rewrite combine_length, rev_csum_length_e, map_length. lia.
  - intros rs H. destruct (S rs H) as (A & EA & Hs). rewrite one_eval in EA. apply Xreal_eq in EA. lra.
Qed.

(* FromGamma.  The accumulated sum is syntactically the left fold of the samples *)
Lemma dir_gammas_sem t alpha : forall sum ws,
  msem (fun p => length (fst (fst p)) = length alpha /\ snd (fst p) = fold_left (Bin Add) (fst (fst p)) sum)
       (dir_gammas t alpha sum ws).
Proof.
  induction alpha as [|a r IH]; intros sum ws.
  - cbn. auto.
  - cbn [dir_gammas]. apply msem_sbind_any. intros s ws1.
    eapply msem_sbind; [apply IH|]. intros [l tot] ws2 [Hlen Htot]. cbn [sret msem fst snd length fold_left] in * .
    split; [now rewrite Hlen|exact Htot].
Qed.

Lemma fold_add_real l : forall s x, evalX (fold_left (Bin Add) l s) = Xreal x ->
  exists s0, evalX s = Xreal s0 /\ forall rs, vals l rs -> x = s0 + sumf rs.
Proof.
  induction l as [|e l IH]; intros s x H; cbn [fold_left] in H.
  - exists x. split; [exact H|]. intros rs Hr. inversion Hr. rewrite sumf_nil. ring.
  - destruct (IH _ _ H) as (s1 & E1 & Hs). apply add_real in E1. destruct E1 as (s0 & e0 & Es & Ee & ->).
    exists s0. split; [exact Es|]. intros rs Hr. inversion Hr as [|e' r l' rs' He Hrest]; subst.
    rewrite He in Ee. apply Xreal_eq in Ee. subst e0. rewrite (Hs _ Hrest), sumf_cons. ring.
Qed.

Lemma normalise_vals l tot : forall rs, vals l rs -> forall os, vals (dir_normalise l tot) os ->
  l = [] \/ exists T, evalX tot = Xreal T /\ T <> 0 /\ os = map (fun g => g * (1 / T)) rs.
Proof.
  unfold dir_normalise. induction 1 as [|e r l rs He H IH]; intros os Ho; [left; reflexivity|right].
  cbn [map] in Ho. inversion Ho as [|e' o l' os' Heo Hrest]; subst.
  apply mul_real in Heo. destruct Heo as (r' & iv & Er & Eiv & ->).
  apply div_real in Eiv. destruct Eiv as (o1 & T & Eo & ET & NZ & ->).
  rewrite one_eval in Eo. rewrite He in Er. apply Xreal_eq in Eo, Er. subst o1 r'.
  exists T. split; [exact ET|]. split; [exact NZ|]. cbn [map]. f_equal.
  destruct (IH _ Hrest) as [->|(T' & ET' & _ & ->)].
  - inversion H; subst. inversion Hrest; subst. reflexivity.
  - rewrite ET in ET'. apply Xreal_eq in ET'. subst T'. reflexivity.
Qed.

(* each component real => its sample is real *)
Lemma normalise_vals_inv l tot : forall os, vals (dir_normalise l tot) os -> exists rs, vals l rs.
Proof.
  unfold dir_normalise. induction l as [|e l IH]; intros os Ho; [exists []; constructor|].
  cbn [map] in Ho. inversion Ho as [|e' o l' os' Heo Hrest]; subst.
  apply mul_real in Heo. destruct Heo as (r' & iv & Er & _ & _).
  destruct (IH _ Hrest) as (rs & Hrs). exists (r' :: rs). constructor; assumption.
Qed.

Theorem dirichlet_gamma_simplex t alpha ws out rest : alpha <> [] -> evals (dirichlet_gamma t alpha ws) (out, rest) ->
  length out = length alpha /\ forall os, vals out os -> sumf os = 1.
Proof.
  intros NE E. unfold dirichlet_gamma in E.
  assert (M : msem (fun p => length (fst p) = length alpha /\ forall os, vals (fst p) os -> sumf os = 1)
                   (('(l, sum) <- dir_gammas t alpha (num 0);; sret (dir_normalise l sum))%sampler ws)).
  { eapply msem_sbind; [apply dir_gammas_sem|]. intros [l tot] ws2 [Hlen Htot]. cbn [sret msem fst snd] in * .
    split; [unfold dir_normalise; now rewrite map_length|].
    intros os Ho. destruct (normalise_vals_inv _ _ _ Ho) as (rs & Hrs).
    destruct (normalise_vals _ _ _ Hrs _ Ho) as [->|(T & ET & NZ & ->)].
    - destruct alpha; [contradiction|discriminate Hlen].
    - rewrite Htot in ET. destruct (fold_add_real _ _ _ ET) as (s0 & Es0 & Hs).
      rewrite num_eval in Es0. apply Xreal_eq in Es0. subst s0.
      rewrite (Hs _ Hrs) in NZ |- * . rewrite sumf_map_scale. field. lra. }
  exact (msem_elim _ _ _ M E).
Qed.

Theorem dirichlet_simplex t alpha ws out rest : (2 <= length alpha)%nat -> evals (dirichlet t alpha ws) (out, rest) ->
  length out = length alpha /\ forall os, vals out os -> sumf os = 1.
Proof.
  intros L E. unfold dirichlet in E. destruct (dir_use_beta t alpha).
  - destruct (dirichlet_beta_simplex _ _ _ _ _ E) as [H1 H2]. split; [lia|exact H2].
  - apply (dirichlet_gamma_simplex t alpha ws out rest); [destruct alpha; [cbn in L; lia|discriminate]|exact E].
Qed.
