(* Proofs/GuardProofs3.v — C04, part 3: constructors whose validation depends on rounded
   arithmetic on the arguments: NormalInverseGaussian (division, product, difference, square
   root, product, division; `unreachable!()` proved unreachable) and Pert (range, v, w and the
   nested Beta::new).                                                                           *)
From Coq Require Import ZArith List Bool String Reals Lra Lia.
From Flocq Require Import Core.Core IEEE754.Binary IEEE754.Bits IEEE754.BinarySingleNaN.
From RD Require Import Model.Guards Model.GuardSpec Proofs.GuardLemmas Proofs.GuardArith.
Import ListNotations.
Open Scope R_scope.

Section Fmt.
Variable prec emax : Z.
Context (Hp : Prec_gt_0 prec) (Hpe : Prec_lt_emax prec emax).
Notation float := (binary_float prec emax).
Notation one := (one prec emax Hp Hpe).
Notation zero := (zero prec emax).
Notation fmul := (fmul prec emax Hp Hpe).
Notation fdiv := (fdiv prec emax Hp Hpe).
Notation fadd := (fadd prec emax Hp Hpe).
Notation fsub := (fsub prec emax Hp Hpe).
Notation fsqrt := (fsqrt prec emax Hp Hpe).
Notation fabs := (fabs prec emax).
Notation fgt := (fgt prec emax).
Notation flt := (flt prec emax).
Notation M := (M emax).
Notation ext := (ext prec emax).
Notation rnd := (rnd prec emax).
Notation clamp := (clamp emax).

Lemma fgt_one_zero : fgt one zero = true.
Proof.
  unfold Guards.fgt, fcmp. rewrite (Bcompare_ext prec emax Hp Hpe) by (apply one_nan || reflexivity).
  rewrite ext_one, ext_zero. rewrite Rcompare_Gt; trivial; lra.
Qed.

Lemma rnd_le1 (x : R) : x <= 1 -> rnd x <= 1.
Proof. intros H. rewrite <- (rnd_1 prec emax Hp Hpe). now apply rnd_le. Qed.
Lemma rnd_ge1 (x : R) : 1 <= x -> 1 <= rnd x.
Proof. intros H. rewrite <- (rnd_1 prec emax Hp Hpe). now apply rnd_le. Qed.
Lemma rnd_gem1 (x : R) : -1 <= x -> -1 <= rnd x.
Proof. intros H. rewrite <- (rnd_m1 prec emax Hp Hpe). now apply rnd_le. Qed.

Lemma fgt_pinf_zero : fgt (B754_infinity false) zero = true.
Proof. reflexivity. Qed.

(* ============================================================================================ *)
(* NormalInverseGaussian *)
Notation NIG_mu := (NIG_mu prec emax Hp Hpe).

(* the nested InverseGaussian::new(mu, 1) can only fail with MeanNegativeOrNull:
   `unreachable!()` is unreachable *)
Lemma NIG_eq (alpha beta : float) :
  NormalInverseGaussian_new prec emax Hp Hpe alpha beta =
  if negb (fgt alpha zero) then GErr "AlphaNegativeOrNull" else
  if negb (flt (fabs beta) alpha) then GErr "AbsoluteBetaNotLessThanAlpha" else
  if fgt (NIG_mu alpha beta) zero then GOk else GErr "AlphaInfinite".
Proof.
  unfold NormalInverseGaussian_new, InverseGaussian_new. rewrite fgt_one_zero.
  destruct (fgt alpha zero); simpl; trivial.
  destruct (flt (fabs beta) alpha); simpl; trivial.
  destruct (fgt (NIG_mu alpha beta) zero); reflexivity.
Qed.

Theorem NormalInverseGaussian_new_no_panic (alpha beta : float) :
  NormalInverseGaussian_new prec emax Hp Hpe alpha beta <> GPanic.
Proof.
  rewrite NIG_eq.
  destruct (fgt alpha zero); simpl; try discriminate.
  destruct (flt (fabs beta) alpha); simpl; try discriminate.
  destruct (fgt (NIG_mu alpha beta) zero); discriminate.
Qed.

Section NIG.
Hypothesis prec_ge_3 : (3 <= prec)%Z.

Lemma rnd_inv_M_pos (x : R) : / M <= x -> 0 < rnd x.
Proof.
  intros L. assert (E : / M = bpow radix2 (- emax)) by (unfold GuardSpec.M; now rewrite bpow_opp).
  apply Rlt_le_trans with (bpow radix2 (- emax)). apply bpow_gt_0.
  rewrite <- (round_generic radix2 (FLT_exp (3 - emax - prec) prec) ZnearestE (bpow radix2 (- emax))).
  - apply rnd_le; trivial. lra.
  - apply generic_format_bpow. unfold FLT_exp. apply Z.max_lub; lia.
Qed.

Lemma NIG_mu_pos (alpha beta : float) :
  is_finite alpha = true -> is_finite beta = true -> Rabs (B2R beta) < B2R alpha ->
  fgt (NIG_mu alpha beta) zero = true.
Proof.
  intros Fa Fb L.
  pose proof (M_gt_1 prec emax Hp Hpe) as HM. pose proof (finite_bound _ _ alpha Fa) as Ba.
  assert (Pa : 0 < B2R alpha) by (pose proof (Rabs_pos (B2R beta)); lra).
  apply Rabs_def2 in L.
  unfold Guards.NIG_mu.
  (* r = beta / alpha, |r| <= 1 *)
  set (r := fdiv beta alpha).
  destruct (Bdiv_ext prec emax Hp Hpe beta alpha Fb Fa) as (Nr & Er). lra. fold r in Nr, Er.
  assert (Qr : -1 <= B2R beta / B2R alpha <= 1).
  { assert (B2R beta = B2R beta / B2R alpha * B2R alpha) by (field; lra).
    split.
    - apply Rmult_le_reg_r with (B2R alpha); trivial. lra.
    - apply Rmult_le_reg_r with (B2R alpha); trivial. lra. }
  assert (Br : -1 <= rnd (B2R beta / B2R alpha) <= 1).
  { split. apply rnd_gem1; lra. apply rnd_le1; lra. }
  destruct (ext_clamp_finite prec emax Hp Hpe r _ Nr Er) as (Fr & Vr). apply Rabs_lt; lra.
  (* rr = r * r in [0,1] *)
  set (rr := fmul r r).
  destruct (Bmult_ext prec emax Hp Hpe r r Fr Fr) as (Nrr & Err). fold rr in Nrr, Err.
  assert (Qrr : 0 <= B2R r * B2R r <= 1) by (rewrite Vr; nra).
  assert (Brr : 0 <= rnd (B2R r * B2R r) <= 1).
  { split. apply rnd_ge0; trivial; lra.
    apply rnd_le1; lra. }
  destruct (ext_clamp_finite prec emax Hp Hpe rr _ Nrr Err) as (Frr & Vrr). apply Rabs_lt; lra.
  (* t = 1 - rr in [0,1], sign + *)
  set (t := fsub one rr).
  destruct (Bminus_ext prec emax Hp Hpe one rr (one_fin _ _ _ _) Frr) as (Nt & Et). fold t in Nt, Et.
  rewrite (one_B2R prec emax Hp Hpe) in Et.
  assert (Bt : 0 <= rnd (1 - B2R rr) <= 1).
  { split. apply rnd_ge0; trivial; lra.
    apply rnd_le1; lra. }
  destruct (ext_clamp_finite prec emax Hp Hpe t _ Nt Et) as (Ft & Vt). apply Rabs_lt; lra.
  assert (St : Bsign t = false).
  { apply Bminus_nonneg_sign; trivial. apply one_fin. apply Bsign_Bone.
    rewrite (one_B2R prec emax Hp Hpe). lra. }
  (* sq = sqrt t in [0,1], sign + *)
  set (sq := fsqrt t).
  destruct (Bsqrt_nonneg prec emax Hp Hpe t Ft St) as (Fs & Vs & Ss). fold sq in Fs, Vs, Ss.
  assert (Qs : 0 <= sqrt (B2R t) <= 1).
  { split. apply sqrt_pos. rewrite <- sqrt_1. apply sqrt_le_1_alt. lra. }
  assert (Bs : 0 <= B2R sq <= 1).
  { rewrite Vs. split. apply rnd_ge0; trivial; lra.
    apply rnd_le1; lra. }
  (* gamma = alpha * sq in [0, alpha], sign + *)
  set (g := fmul alpha sq).
  destruct (Bmult_ext prec emax Hp Hpe alpha sq Fa Fs) as (Ng & Eg). fold g in Ng, Eg.
  assert (Qg : 0 <= B2R alpha * B2R sq <= B2R alpha) by nra.
  assert (Bg : 0 <= rnd (B2R alpha * B2R sq) <= B2R alpha).
  { split. apply rnd_ge0; trivial; lra. apply rnd_le_B2R; trivial; lra. }
  destruct (ext_clamp_finite prec emax Hp Hpe g _ Ng Eg) as (Fg & Vg). apply Rabs_lt; lra.
  assert (Sg : Bsign g = false).
  { destruct (Bmult_nan_sign prec emax Hp Hpe alpha sq Fa Fs) as (_ & S). fold g in S.
    pose proof (B2R_pos_sign prec emax alpha Pa) as Sa. rewrite S, Ss, Sa. reflexivity. }
  (* mu = 1 / gamma *)
  destruct (Req_dec (B2R g) 0) as [Zg|Zg].
  - rewrite (finite_zero_struct _ _ g Fg Zg), Sg.
    destruct (one_struct prec emax Hp Hpe) as (m1 & e1 & H1 & ->). reflexivity.
  - destruct (Bdiv_ext prec emax Hp Hpe one g (one_fin _ _ _ _) Fg Zg) as (Nm & Em).
    apply (fgt_zero_ext prec emax Hp Hpe); trivial. rewrite Em. apply (clamp_pos prec emax Hp Hpe).
    apply rnd_inv_M_pos. rewrite (one_B2R prec emax Hp Hpe). unfold Rdiv. rewrite Rmult_1_l.
    apply Rinv_le_contravar; lra.
Qed.

(* alpha = +inf, beta finite: mu = +0 *)
Lemma NIG_mu_inf (beta : float) :
  is_finite beta = true -> fgt (NIG_mu (B754_infinity false) beta) zero = false.
Proof.
  intros Fb. unfold Guards.NIG_mu.
  assert (E1 : exists s, fdiv beta (B754_infinity false) = B754_zero s).
  { destruct beta; try discriminate; simpl; eauto. }
  destruct E1 as (s & ->).
  replace (fmul (B754_zero s) (B754_zero s)) with (B754_zero false : float)
    by (destruct s; reflexivity).
  assert (E2 : fsub one (B754_zero false) = one).
  { destruct (one_struct prec emax Hp Hpe) as (m1 & e1 & H1 & ->). reflexivity. }
  rewrite E2.
  destruct (Bsqrt_nonneg prec emax Hp Hpe one (one_fin _ _ _ _) (Bsign_Bone _ _ _ _)) as (Fs & Vs & Ss).
  rewrite (one_B2R prec emax Hp Hpe), sqrt_1, (rnd_1 prec emax Hp Hpe) in Vs.
  destruct (finite_pos_struct _ _ _ Fs) as (m & e & H & ->). lra.
  simpl.
  destruct (one_struct prec emax Hp Hpe) as (m1 & e1 & H1 & ->). reflexivity.
Qed.

Theorem NormalInverseGaussian_new_sound (alpha beta : float) :
  agrees (NormalInverseGaussian_new prec emax Hp Hpe alpha beta)
         (spec_NormalInverseGaussian_new prec emax alpha beta).
Proof.
  rewrite NIG_eq. unfold spec_NormalInverseGaussian_new.
  fsplit beta.
  1-3: destruct (fgt (NIG_mu alpha _) zero); unfold Guards.fabs, Babs; fsplit alpha; guard_auto.
  pose proof (fc_fin _ _ _ Cbeta) as Fb.
  assert (Fab : is_finite (fabs beta) = true) by (unfold Guards.fabs; now rewrite is_finite_Babs).
  assert (Vab : B2R (fabs beta) = Rabs (B2R beta)) by apply B2R_Babs.
  fsplit alpha.
  - destruct (fgt (NIG_mu _ beta) zero); guard_auto.
  - rewrite NIG_mu_inf by trivial. revert Fab Vab. generalize (fabs beta). intros ab Fab Vab.
    pose proof (finite_class_of _ _ ab Fab) as Cab. guard_auto.
  - destruct (fgt (NIG_mu _ beta) zero); guard_auto.
  - pose proof (fc_fin _ _ _ Calpha) as Fa.
    pose proof (NIG_mu_pos alpha beta Fa Fb) as P. rewrite <- Vab in P.
    revert Fab Vab P. generalize (fabs beta). intros ab Fab _ P.
    pose proof (finite_class_of _ _ ab Fab) as Cab.
    destruct (fgt (NIG_mu alpha beta) zero).
    + guard_auto.
    + assert (L : B2R alpha <= B2R ab).
      { apply Rnot_lt_le. intros L. specialize (P L). discriminate. }
      guard_auto.
Qed.
End NIG.

(* ============================================================================================ *)
(* Pert *)
Definition nn (x : float) : Prop := is_nan x = false /\ 0 <= ext x.

Lemma nn_mul (x y : float) :
  is_finite x = true -> is_finite y = true -> 0 <= B2R x -> 0 <= B2R y -> nn (fmul x y).
Proof.
  intros Fx Fy Px Py. destruct (Bmult_ext prec emax Hp Hpe x y Fx Fy) as (N & E).
  split; trivial. rewrite E. apply (clamp_ge0 prec emax Hp Hpe). apply rnd_ge0; trivial. nra.
Qed.

Lemma nn_div_pos (p d : float) :
  nn p -> is_finite d = true -> 0 < B2R d -> nn (fdiv p d).
Proof.
  intros (Np & Pp) Fd Pd. pose proof (M_gt_1 prec emax Hp Hpe) as HM.
  destruct (is_finite p) eqn:Fp.
  - destruct (Bdiv_ext prec emax Hp Hpe p d Fp Fd) as (N & E). lra.
    split; trivial. rewrite E. apply (clamp_ge0 prec emax Hp Hpe). apply rnd_ge0; trivial.
    rewrite ext_finite in Pp by trivial.
    apply Rmult_le_pos; trivial. left. now apply Rinv_0_lt_compat.
  - destruct (finite_pos_struct _ _ d Fd Pd) as (m & e & H & ->).
    destruct p as [|[|]| |]; try discriminate.
    + unfold GuardSpec.ext in Pp. lra.
    + split. reflexivity. unfold GuardSpec.ext. simpl. lra.
Qed.

Lemma one_plus_nn (q : float) : nn q -> fgt (fadd one q) zero = true.
Proof.
  intros (Nq & Pq). pose proof (M_gt_1 prec emax Hp Hpe) as HM.
  destruct (is_finite q) eqn:Fq.
  - destruct (Bplus_ext prec emax Hp Hpe one q (one_fin _ _ _ _) Fq) as (N & E).
    apply (fgt_zero_ext prec emax Hp Hpe); trivial. rewrite E.
    rewrite ext_finite in Pq by trivial. rewrite (one_B2R prec emax Hp Hpe).
    assert (1 <= clamp (rnd (1 + B2R q))).
    { apply (clamp_ge1 prec emax Hp Hpe). apply rnd_ge1. lra. }
    lra.
  - destruct q as [|[|]| |]; try discriminate.
    + unfold GuardSpec.ext in Pq. lra.
    + destruct (one_struct prec emax Hp Hpe) as (m1 & e1 & H1 & ->). reflexivity.
Qed.

Lemma finite_clamp_inv (r : float) (v : R) :
  is_finite r = true -> ext r = clamp v -> B2R r = v /\ Rabs v < M.
Proof.
  intros F E. pose proof (finite_bound _ _ r F) as B. rewrite ext_finite in E by trivial.
  destruct (clamp_spec prec emax Hp Hpe v) as [[]|[[]|[]]]; try lra.
  split. lra. apply Rabs_lt. lra.
Qed.

Lemma Bminus_finite_inv (x y : float) :
  is_finite (fsub x y) = true -> is_finite x = true /\ is_finite y = true.
Proof.
  destruct x as [|[|]| |]; destruct y as [|[|]| |]; simpl; try discriminate; auto.
Qed.

(* 1 + shape * (hi - lo) / range > 0 *)
Lemma Pert_term_pos (shape hi lo range : float) :
  is_finite shape = true -> 0 <= B2R shape ->
  is_finite hi = true -> is_finite lo = true -> B2R lo <= B2R hi ->
  is_finite range = true -> 0 < B2R range -> rnd (B2R hi - B2R lo) <= B2R range ->
  fgt (fadd one (fdiv (fmul shape (fsub hi lo)) range)) zero = true.
Proof.
  intros Fs Ps Fh Fl L Fr Pr B.
  pose proof (finite_bound _ _ range Fr) as Br.
  destruct (Bminus_ext prec emax Hp Hpe hi lo Fh Fl) as (Nd & Ed).
  assert (0 <= rnd (B2R hi - B2R lo)) by (apply rnd_ge0; trivial; lra).
  destruct (ext_clamp_finite prec emax Hp Hpe _ _ Nd Ed) as (Fd & Vd). apply Rabs_lt; lra.
  apply one_plus_nn, nn_div_pos; trivial. apply nn_mul; trivial. lra.
Qed.

Notation Pert_v min max shape mode := (fadd one (fdiv (fmul shape (fsub mode min)) (fsub max min))).
Notation Pert_w min max shape mode := (fadd one (fdiv (fmul shape (fsub max mode)) (fsub max min))).

Lemma Pert_with_mode_eq (min max shape mode : float) :
  Pert_with_mode prec emax Hp Hpe min max shape mode =
  if negb (fgt max min) then GErr "RangeTooSmall" else
  if negb (fge prec emax mode min && fge prec emax max mode) then GErr "ModeRange" else
  if negb (fge prec emax shape zero) then GErr "ShapeTooSmall" else
  if fgt (Pert_v min max shape mode) zero && fgt (Pert_w min max shape mode) zero
  then GOk else GErr "RangeTooSmall".
Proof.
  unfold Pert_with_mode, Beta_new, map_err.
  destruct (fgt max min); simpl; trivial.
  destruct (_ && _); simpl; trivial.
  destruct (fge prec emax shape zero); simpl; trivial.
  destruct (fgt (Pert_v min max shape mode) zero); simpl; trivial.
  destruct (fgt (Pert_w min max shape mode) zero); reflexivity.
Qed.

Theorem Pert_with_mode_no_panic (min max shape mode : float) :
  Pert_with_mode prec emax Hp Hpe min max shape mode <> GPanic.
Proof.
  rewrite Pert_with_mode_eq.
  repeat match goal with |- (if ?c then _ else _) <> _ => destruct c; try discriminate end.
Qed.

(* inside the documented domain, with a finite range and shape, Beta::new(v, w) succeeds *)
Lemma Pert_vw_pos (min max shape mode : float) :
  is_finite min = true -> is_finite max = true -> is_finite mode = true -> is_finite shape = true ->
  is_finite (fsub max min) = true ->
  B2R min < B2R max -> B2R min <= B2R mode <= B2R max -> 0 <= B2R shape ->
  fgt (Pert_v min max shape mode) zero && fgt (Pert_w min max shape mode) zero = true.
Proof.
  intros Fmin Fmax Fmode Fs Fr L (L1 & L2) Ps.
  destruct (Bminus_ext prec emax Hp Hpe max min Fmax Fmin) as (Nr & Er).
  destruct (finite_clamp_inv _ _ Fr Er) as (Vr & _).
  pose proof (rnd_minus_pos prec emax Hp max min L) as Pr. rewrite <- Vr in Pr.
  apply andb_true_intro; split; apply Pert_term_pos; trivial; rewrite Vr; apply rnd_le; trivial; lra.
Qed.

Lemma is_nan_true_inv (x : float) : is_nan x = true -> x = B754_nan.
Proof. destruct x; try discriminate; reflexivity. Qed.

(* NaN / non-NaN split (enough when no classification predicate remains in the goal) *)
Ltac nsplit x :=
  let N := fresh "N" x in
  destruct (is_nan x) eqn:N; [apply is_nan_true_inv in N; subst x | ].
Ltac rw_nonnan :=
  repeat match goal with H : is_nan ?x = false |- context [is_nan ?x] => rewrite H end.

Ltac pert_finish P :=
  cbn; try exact I; try tauto; try (exfalso; lra);
  try (exfalso; apply P; repeat split; lra); auto 12.

Theorem Pert_with_mode_sound (min max shape mode : float) :
  agrees (Pert_with_mode prec emax Hp Hpe min max shape mode)
         (spec_Pert_with_mode prec emax Hp Hpe min max shape mode).
Proof.
  rewrite Pert_with_mode_eq. unfold spec_Pert_with_mode.
  destruct (negb (v_fin prec emax (fsub max min)) || v_pinf prec emax shape) eqn:EU.
  - (* Unspecified region: only the documented errors are judged *)
    destruct (fgt (Pert_v min max shape mode) zero && fgt (Pert_w min max shape mode) zero);
    nsplit min; nsplit max; nsplit mode; nsplit shape; to_R; rw_nonnan; add_M; rcases; finish.
  - apply orb_false_elim in EU. destruct EU as (EU1 & EU2).
    apply negb_false_iff in EU1. unfold v_fin in EU1.
    destruct (Bminus_finite_inv _ _ EU1) as (Fmax & Fmin).
    pose proof (finite_class_of _ _ _ Fmax) as Cmax. pose proof (finite_class_of _ _ _ Fmin) as Cmin.
    destruct (fgt (Pert_v min max shape mode) zero && fgt (Pert_w min max shape mode) zero) eqn:Eb.
    + fsplit mode; fsplit shape; guard_auto.
    + fsplit mode; fsplit shape; try discriminate EU2; try (guard_auto; fail).
      assert (P : ~ (B2R min < B2R max /\ B2R min <= B2R mode /\ B2R mode <= B2R max /\ 0 <= B2R shape)).
      { intros (L & L1 & L2 & Ps).
        rewrite Pert_vw_pos in Eb; trivial. discriminate.
        apply (fc_fin _ _ _ Cmode). apply (fc_fin _ _ _ Cshape). lra. }
      to_R; add_M; rcases; pert_finish P.
Qed.

Theorem Pert_with_mean_sound (min max shape mean : float) :
  agrees (Pert_with_mean prec emax Hp Hpe min max shape mean)
         (spec_Pert_with_mean prec emax Hp Hpe min max shape mean).
Proof.
  unfold Pert_with_mean, spec_Pert_with_mean.
  destruct (_ || _).
  - pose proof (Pert_with_mode_no_panic min max shape (Pert_implied_mode prec emax Hp Hpe min max shape mean)).
    destruct (Pert_with_mode _ _ _ _ _ _ _ _); simpl; tauto.
  - apply Pert_with_mode_sound.
Qed.

End Fmt.
