(* Proofs/RejectModelEvents.v — property C01 on the EXECUTABLE model of the Marsaglia-Tsang Gamma sampler
   (Model/Continuous.v: gamma_unscaled, the decision tree run against the crate): a proposal x (a standard
   normal value) with uniform u is returned EXACTLY when  0 < 1 + c x  and  ln u < x^2/2 + d (1 - v + ln v),
   v = (1 + c x)^3 - whether it was accepted by the quick test u < 1 - 0.0331 x^4 or by the exact test.
   With mt_identity / mt_envelope (Proofs/RejectGamma.v) this is the acceptance event whose accepted
   density is the Gamma(k) kernel.                                                                        *)
From Coq Require Import Reals ZArith List Lra Lia Bool.
From Coquelicot Require Import Coquelicot.
From Interval Require Import Xreal.
From Flocq Require Import Core.
From RD Require Import Base.Expr Base.Run Model.Sampler Model.Continuous
  Proofs.LawsInvCdf Proofs.RunSound Proofs.Support Proofs.LoopBounds Proofs.RejectGamma
  Proofs.SupportDiscrete Proofs.SupportHyper Proofs.SupportMore.
Import ListNotations.
Open Scope Z_scope.
Open Scope sampler_scope.

Local Notation "a +. b" := (Bin Add a b) (at level 50, left associativity).
Local Notation "a -. b" := (Bin Sub a b) (at level 50, left associativity).
Local Notation "a *. b" := (Bin Mul a b) (at level 40, left associativity).
Local Notation "a /. b" := (Bin Div a b) (at level 40, left associativity).
Local Open Scope R_scope.

Definition cube (e : expr) : expr := e *. e *. e.

Section MT.
Variables (t : fty) (c d : expr) (C D : R).
Hypothesis Ec : evalX c = Xreal C.
Hypothesis Ed : evalX d = Xreal D.
Hypothesis HD : 2 / 3 <= D.
Hypothesis HC : C = 1 / sqrt (9 * D).

(* the exact acceptance event of a proposal (x, u) *)
Definition mt_event (X U : R) : Prop := 0 < 1 + C * X /\ ln U < mt_logacc D C X.

Lemma vcbrt_eval x X : evalX x = Xreal X -> evalX (one +. c *. x) = Xreal (1 + C * X).
Proof. intros Ex. cbn [evalX xbin]. rewrite one_eval, Ec, Ex. reflexivity. Qed.
Lemma cube_eval e V : evalX e = Xreal V -> evalX (e *. e *. e) = Xreal (V ^ 3).
Proof. intros E. cbn [evalX xbin]. rewrite E. cbn. f_equal. ring. Qed.

(* the two tests of the code as real-number statements *)
Lemma squeeze_eval x X u U : evalX x = Xreal X -> evalX u = Xreal U ->
  evalX (one -. dec 331 4 *. (x *. x) *. (x *. x)) = Xreal (1 - 0.0331 * X ^ 4).
Proof.
  intros Ex Eu.
  change (evalX (one -. dec 331 4 *. (x *. x) *. (x *. x)))
    with (Xsub (evalX one) (Xmul (Xmul (evalX (dec 331 4)) (Xmul (evalX x) (evalX x))) (Xmul (evalX x) (evalX x)))).
  rewrite one_eval, dec_eval, Ex by lia. cbn. f_equal. change (IZR (10 ^ 4)) with 10000. lra.
Qed.
Lemma exact_eval x X : evalX x = Xreal X -> 0 < 1 + C * X ->
  evalX (dec 5 1 *. (x *. x) +. d *. (one -. cube (one +. c *. x) +. eln (cube (one +. c *. x)))) = Xreal (mt_logacc D C X).
Proof.
  intros Ex Hv. unfold cube, eln.
  pose proof (cube_eval _ _ (vcbrt_eval x X Ex)) as Ev.
  assert (0 < (1 + C * X) ^ 3) as V0 by (apply pow_lt; exact Hv).
  change (evalX (dec 5 1 *. (x *. x) +. d *. (one -. (one +. c *. x) *. (one +. c *. x) *. (one +. c *. x) +.
                 Un Ln ((one +. c *. x) *. (one +. c *. x) *. (one +. c *. x)))))
    with (Xadd (Xmul (evalX (dec 5 1)) (Xmul (evalX x) (evalX x)))
               (Xmul (evalX d) (Xadd (Xsub (evalX one) (evalX ((one +. c *. x) *. (one +. c *. x) *. (one +. c *. x))))
                                     (Xln (evalX ((one +. c *. x) *. (one +. c *. x) *. (one +. c *. x))))))).
  rewrite Ev, dec_eval, Ex, Ed, one_eval by lia. rewrite Xln_pos by exact V0. cbn. f_equal.
  unfold mt_logacc, mt_v. change (IZR (10 ^ 1)) with 10.
  change ((1 + C * X) * ((1 + C * X) * ((1 + C * X) * 1))) with ((1 + C * X) ^ 3). field.
Qed.

(* every value the loop returns is an accepted proposal: soundness of acceptance, for every fuel and word list *)
Theorem gamma_unscaled_returns_accepted fuel : forall ws, List.Forall word ws ->
  allout (fun q => exists x X U, evalX x = Xreal X /\ fst q = cube (one +. c *. x) /\ 0 < U < 1 /\ mt_event X U)
         nopanic (gamma_unscaled fuel t c d ws).
Proof.
  induction fuel as [|f IH]; intros ws Hw; [exact nopanic2|].
  cbn [gamma_unscaled].
  apply allout_sbind with (P := fun q : expr * list Z => List.Forall word (snd q)) (Q := nopanic).
  - apply allout_spec. split.
    + intros [x ws1] E. exact (allsem_elim _ _ _ (std_normal_words t ws Hw) E).
    + intros code F. exact (allout_fails _ _ _ _ (std_normal_spec t ws) F).
  - auto.
  - intros x ws1 Hw1. cbn [snd] in Hw1. lstep. intros v0 z0 Ev0 Ez0. rewrite num_eval in Ez0. injection Ez0 as <-.
    (* x is defined *)
    assert (exists X, evalX x = Xreal X /\ v0 = 1 + C * X) as (X & Ex & ->).
    { cbn [evalX xbin] in Ev0. rewrite one_eval, Ec in Ev0. destruct (evalX x) as [|X]; [discriminate|].
      exists X. split; [reflexivity|]. cbn in Ev0. now injection Ev0 as <-. }
    unfold rcmp. destruct (Rle_dec (1 + C * X) 0) as [Neg|Pos]; [apply IH, Hw1|].
    assert (0 < 1 + C * X) as Hv by lra.
    destruct ws1 as [|w ws2]; lstep; [exact nopanic1|].
    apply Forall_cons_iff in Hw1. destruct Hw1 as [Hw0 Hws2].
    destruct (u_open_range t w Hw0) as (U & EU & HU).
    intros u1 s1 Eu1 Es1. rewrite EU in Eu1. assert (u1 = U) as -> by congruence. clear Eu1.
    rewrite (squeeze_eval x X _ U Ex EU) in Es1. assert (Hs1 : s1 = 1 - 0.0331 * X ^ 4) by congruence. clear Es1.
    destruct (rcmp CLt U s1) eqn:R1; lstep.
    + (* accepted by the quick test: the exact test holds as well *)
      unfold rcmp in R1. destruct (Rlt_dec U s1) as [Sq|]; [|discriminate]. rewrite Hs1 in Sq.
      cbv beta. cbn [fst]. exists x, X, U. repeat split; try assumption; try lra.
      unfold mt_event. rewrite HC. apply (mt_squeeze_test D X U HD); lra.
    + intros l1 r1 El1 Er1. unfold eln in El1. cbn [evalX xun] in El1. rewrite EU, Xln_pos in El1 by lra.
      assert (Hl1 : l1 = ln U) by congruence. clear El1.
      fold (cube (one +. c *. x)) in Er1. rewrite (exact_eval x X Ex Hv) in Er1.
      assert (Hr1 : r1 = mt_logacc D C X) by congruence. clear Er1.
      destruct (rcmp CLt l1 r1) eqn:R2; lstep; [|apply IH, Hws2].
      unfold rcmp in R2. destruct (Rlt_dec l1 r1) as [Acc|]; [|discriminate]. rewrite Hl1, Hr1 in Acc.
      cbv beta. cbn [fst]. exists x, X, U. repeat split; try assumption; lra.
Qed.

(* ... and a proposal in the acceptance event IS returned by the iteration that draws it (completeness) *)
Theorem gamma_unscaled_accepts f ws x X w ws' U :
  evals (std_normal t ws) (x, w :: ws') -> evalX x = Xreal X -> evalX (u_open t w) = Xreal U -> 0 < U < 1 ->
  mt_event X U -> evals (gamma_unscaled (S f) t c d ws) (cube (one +. c *. x), ws').
Proof.
  intros Ez Ex EU HU [Hv Acc]. cbn [gamma_unscaled]. unfold sbind at 1.
  eapply bind_evals; [exact Ez|]. cbn beta iota.
  cbn [sbind bind sask sret draw_open next_word].
  eapply EvAsk; [apply (vcbrt_eval x X Ex)|apply num_eval|].
  unfold rcmp at 1. destruct (Rle_dec (1 + C * X) 0) as [N|_]; [lra|].
  cbn [sbind bind sask sret].
  eapply EvAsk; [exact EU|apply (squeeze_eval x X _ U Ex EU)|].
  unfold rcmp at 1. destruct (Rlt_dec U (1 - 0.0331 * X ^ 4)) as [Sq|NSq]; [constructor|].
  cbn [sbind bind sask sret].
  eapply EvAsk; [unfold eln; cbn [evalX xun]; rewrite EU, Xln_pos by lra; reflexivity|apply (exact_eval x X Ex Hv)|].
  unfold rcmp at 1. destruct (Rlt_dec (ln U) (mt_logacc D C X)) as [_|N]; [constructor|contradiction].
Qed.
End MT.

(* ================================================================================================ *)
(* Cheng's BB (both shapes > 1) on the executable model: a pair (u1, u2) is returned EXACTLY when
   ln(u1^2 u2) <= r + alpha ln(alpha/(b+w))  (step 4, the exact test) - also when it was accepted by the
   quick tests of steps 2 and 3 (bb_squeeze2, bb_squeeze3).  bb_exact_test identifies this event with
   u2 <= C f(w)/g(w).                                                                                 *)
From RD Require Import Proofs.RejectBeta.

Section BB.
Variables (t : fty) (a b alpha beta gamma : expr) (A B BETA GAMMA : R).
Hypothesis Ea : evalX a = Xreal A.
Hypothesis Eb : evalX b = Xreal B.
Hypothesis Ealpha : evalX alpha = Xreal (A + B).
Hypothesis Ebeta : evalX beta = Xreal BETA.
Hypothesis Egamma : evalX gamma = Xreal GAMMA.
Hypothesis HA : 0 < A.
Hypothesis HB : 0 < B.

Definition bb_event (U1 U2 : R) : Prop :=
  ln (U1 * U1 * U2) <= bb_E A B (bb_R GAMMA (bb_V BETA U1)) (bb_W A BETA U1).

Section Step.
Variables (u1 u2 : expr) (U1 U2 : R).
Hypothesis Eu1 : evalX u1 = Xreal U1.
Hypothesis Eu2 : evalX u2 = Xreal U2.
Hypothesis HU1 : 0 < U1 < 1.
Hypothesis HU2 : 0 < U2 < 1.

Let v := beta *. eln (u1 /. (one -. u1)).
Let w := a *. eexp v.
Let z := u1 *. u1 *. u2.
Let r := gamma *. v -. ln4.
Let s := a +. r -. w.

Lemma bb_v_eval : evalX v = Xreal (bb_V BETA U1).
Proof.
  unfold v, eln. change (evalX (beta *. Un Ln (u1 /. (one -. u1)))) with (Xmul (evalX beta) (Xln (Xdiv (evalX u1) (Xsub (evalX one) (evalX u1))))).
  rewrite Ebeta, Eu1, one_eval. change (Xreal 1 - Xreal U1)%XR with (Xreal (1 - U1)). rewrite Xdiv_nz by lra.
  rewrite Xln_pos by (apply Rdiv_lt_0_compat; lra). reflexivity.
Qed.
Lemma bb_w_eval : evalX w = Xreal (bb_W A BETA U1).
Proof. unfold w, eexp. change (evalX (a *. Un Exp v)) with (Xmul (evalX a) (Xexp (evalX v))). rewrite Ea, bb_v_eval. reflexivity. Qed.
Lemma bb_w_pos : 0 < bb_W A BETA U1.
Proof. unfold bb_W. apply Rmult_lt_0_compat; [exact HA|apply exp_pos]. Qed.
Lemma ln4_eval : evalX ln4 = Xreal (ln 4).
Proof. unfold ln4, eln. cbn [evalX xun]. rewrite num_eval, Xln_pos by lra. reflexivity. Qed.
Lemma ln5_eval : evalX ln5 = Xreal (ln 5).
Proof. unfold ln5, eln. cbn [evalX xun]. rewrite num_eval, Xln_pos by lra. reflexivity. Qed.
Lemma bb_z_eval : evalX z = Xreal (U1 * U1 * U2).
Proof. unfold z. cbn [evalX xbin]. rewrite Eu1, Eu2. reflexivity. Qed.
Lemma bb_z_pos : 0 < U1 * U1 * U2.
Proof. apply Rmult_lt_0_compat; [apply Rmult_lt_0_compat|]; lra. Qed.
Lemma bb_r_eval : evalX r = Xreal (bb_R GAMMA (bb_V BETA U1)).
Proof. unfold r. change (evalX (gamma *. v -. ln4)) with (Xsub (Xmul (evalX gamma) (evalX v)) (evalX ln4)). rewrite Egamma, bb_v_eval, ln4_eval. reflexivity. Qed.
Lemma bb_s_eval : evalX s = Xreal (bb_S A (bb_R GAMMA (bb_V BETA U1)) (bb_W A BETA U1)).
Proof. unfold s. change (evalX (a +. r -. w)) with (Xsub (Xadd (evalX a) (evalX r)) (evalX w)). rewrite Ea, bb_r_eval, bb_w_eval. reflexivity. Qed.
Lemma bb_e_eval : evalX (r +. alpha *. eln (alpha /. (b +. w))) = Xreal (bb_E A B (bb_R GAMMA (bb_V BETA U1)) (bb_W A BETA U1)).
Proof.
  pose proof bb_w_pos as WP. unfold eln.
  change (evalX (r +. alpha *. Un Ln (alpha /. (b +. w)))) with (Xadd (evalX r) (Xmul (evalX alpha) (Xln (Xdiv (evalX alpha) (Xadd (evalX b) (evalX w)))))).
  rewrite bb_r_eval, Ealpha, Eb, bb_w_eval. change (Xreal B + Xreal (bb_W A BETA U1))%XR with (Xreal (B + bb_W A BETA U1)).
  rewrite Xdiv_nz by lra. rewrite Xln_pos by (apply Rdiv_lt_0_compat; lra). reflexivity.
Qed.
End Step.

Definition bb_w_expr (u1 : expr) : expr := a *. eexp (beta *. eln (u1 /. (one -. u1))).

(* soundness of acceptance: every value returned by the BB loop is a*exp(v(u1)) for a pair (u1, u2) in the exact event *)
Theorem beta_bb_returns_accepted fuel : forall ws, List.Forall word ws ->
  allout (fun q => exists w1 w2 U1 U2, evalX (u_open t w1) = Xreal U1 /\ evalX (u_open t w2) = Xreal U2 /\
            0 < U1 < 1 /\ 0 < U2 < 1 /\ fst q = bb_w_expr (u_open t w1) /\ bb_event U1 U2)
         nopanic (beta_bb fuel t a b alpha beta gamma ws).
Proof.
  induction fuel as [|f IH]; intros ws Hw; [exact nopanic2|].
  destruct ws as [|w1 [|w2 ws]]; cbn [beta_bb]; cbv zeta; lstep; [exact nopanic1|exact nopanic1|].
  apply Forall_cons_iff in Hw. destruct Hw as [Hw1 Hw']. apply Forall_cons_iff in Hw'. destruct Hw' as [Hw2 Hws].
  destruct (u_open_range t w1 Hw1) as (U1 & EU1 & HU1). destruct (u_open_range t w2 Hw2) as (U2 & EU2 & HU2).
  pose proof (bb_w_pos U1) as WP. pose proof (bb_z_pos U1 U2 HU1 HU2) as ZP.
  assert (Acc : bb_event U1 U2 -> exists w1' w2' U1' U2', evalX (u_open t w1') = Xreal U1' /\ evalX (u_open t w2') = Xreal U2' /\
            0 < U1' < 1 /\ 0 < U2' < 1 /\ bb_w_expr (u_open t w1) = bb_w_expr (u_open t w1') /\ bb_event U1' U2').
  { intros H. exists w1, w2, U1, U2. repeat split; try assumption; lra. }
  (* step 2 *)
  intros l2 r2 El2 Er2.
  assert (l2 = bb_S A (bb_R GAMMA (bb_V BETA U1)) (bb_W A BETA U1) + 1 + ln 5) as Hl2.
  { change (evalX (a +. (gamma *. (beta *. eln (u_open t w1 /. (one -. u_open t w1))) -. ln4) -. a *. eexp (beta *. eln (u_open t w1 /. (one -. u_open t w1))) +. one +. ln5))
      with (Xadd (Xadd (evalX (a +. (gamma *. (beta *. eln (u_open t w1 /. (one -. u_open t w1))) -. ln4) -. a *. eexp (beta *. eln (u_open t w1 /. (one -. u_open t w1))))) (evalX one)) (evalX ln5)) in El2.
    rewrite (bb_s_eval (u_open t w1) U1 EU1 HU1), one_eval, ln5_eval in El2. cbn in El2. congruence. }
  assert (r2 = 5 * (U1 * U1 * U2)) as Hr2.
  { change (evalX (num 5 *. (u_open t w1 *. u_open t w1 *. u_open t w2))) with (Xmul (evalX (num 5)) (evalX (u_open t w1 *. u_open t w1 *. u_open t w2))) in Er2.
    rewrite num_eval, (bb_z_eval _ _ U1 U2 EU1 EU2) in Er2. cbn in Er2. congruence. }
  clear El2 Er2.
  destruct (rcmp CGe l2 r2) eqn:R2; lstep.
  { unfold rcmp in R2. destruct (Rle_dec r2 l2) as [G|]; [|discriminate]. rewrite Hl2, Hr2 in G.
    cbv beta. cbn [fst]. apply Acc. unfold bb_event.
    apply (bb_squeeze2 A B _ _ _ HA HB WP ZP G). }
  (* step 3 *)
  intros l3 r3 El3 Er3.
  rewrite (bb_s_eval (u_open t w1) U1 EU1 HU1) in El3.
  assert (r3 = ln (U1 * U1 * U2)) as Hr3.
  { unfold eln in Er3. change (evalX (Un Ln (u_open t w1 *. u_open t w1 *. u_open t w2))) with (Xln (evalX (u_open t w1 *. u_open t w1 *. u_open t w2))) in Er3.
    rewrite (bb_z_eval _ _ U1 U2 EU1 EU2), Xln_pos in Er3 by exact ZP. congruence. }
  assert (l3 = bb_S A (bb_R GAMMA (bb_V BETA U1)) (bb_W A BETA U1)) as Hl3 by congruence. clear El3 Er3.
  destruct (rcmp CGe l3 r3) eqn:R3; lstep.
  { unfold rcmp in R3. destruct (Rle_dec r3 l3) as [G|]; [|discriminate]. rewrite Hl3, Hr3 in G.
    cbv beta. cbn [fst]. apply Acc. unfold bb_event.
    apply (bb_squeeze3 A B _ _ _ HA HB WP G). }
  (* step 4 *)
  intros l4 r4 El4 Er4.
  rewrite (bb_e_eval (u_open t w1) U1 EU1 HU1) in El4.
  assert (r4 = ln (U1 * U1 * U2)) as Hr4.
  { unfold eln in Er4. change (evalX (Un Ln (u_open t w1 *. u_open t w1 *. u_open t w2))) with (Xln (evalX (u_open t w1 *. u_open t w1 *. u_open t w2))) in Er4.
    rewrite (bb_z_eval _ _ U1 U2 EU1 EU2), Xln_pos in Er4 by exact ZP. congruence. }
  assert (l4 = bb_E A B (bb_R GAMMA (bb_V BETA U1)) (bb_W A BETA U1)) as Hl4 by congruence. clear El4 Er4.
  destruct (rcmp CLt l4 r4) eqn:R4; cbn [negb]; lstep; [apply IH, Hws|].
  unfold rcmp in R4. destruct (Rlt_dec l4 r4) as [|G]; [discriminate|]. rewrite Hl4, Hr4 in G.
  cbv beta. cbn [fst]. apply Acc. unfold bb_event. lra.
Qed.

(* completeness: a pair in the exact event is returned by the iteration that draws it *)
Theorem beta_bb_accepts f w1 w2 ws U1 U2 :
  evalX (u_open t w1) = Xreal U1 -> evalX (u_open t w2) = Xreal U2 -> 0 < U1 < 1 -> 0 < U2 < 1 ->
  bb_event U1 U2 -> evals (beta_bb (S f) t a b alpha beta gamma (w1 :: w2 :: ws)) (bb_w_expr (u_open t w1), ws).
Proof.
  intros EU1 EU2 HU1 HU2 Ev. pose proof (bb_z_pos U1 U2 HU1 HU2) as ZP.
  cbn [beta_bb sbind bind draw_open next_word sret sask]. cbv zeta.
  eapply EvAsk.
  { change (evalX (a +. (gamma *. (beta *. eln (u_open t w1 /. (one -. u_open t w1))) -. ln4) -. a *. eexp (beta *. eln (u_open t w1 /. (one -. u_open t w1))) +. one +. ln5))
      with (Xadd (Xadd (evalX (a +. (gamma *. (beta *. eln (u_open t w1 /. (one -. u_open t w1))) -. ln4) -. a *. eexp (beta *. eln (u_open t w1 /. (one -. u_open t w1))))) (evalX one)) (evalX ln5)).
    rewrite (bb_s_eval (u_open t w1) U1 EU1 HU1), one_eval, ln5_eval. reflexivity. }
  { change (evalX (num 5 *. (u_open t w1 *. u_open t w1 *. u_open t w2))) with (Xmul (evalX (num 5)) (evalX (u_open t w1 *. u_open t w1 *. u_open t w2))).
    rewrite num_eval, (bb_z_eval _ _ U1 U2 EU1 EU2). reflexivity. }
  cbv beta. match goal with |- evals ((if rcmp ?c ?x ?y then _ else _) _) _ => destruct (rcmp c x y) end; [constructor|].
  cbn [sbind bind sask sret].
  eapply EvAsk.
  { apply (bb_s_eval (u_open t w1) U1 EU1 HU1). }
  { unfold eln. change (evalX (Un Ln (u_open t w1 *. u_open t w1 *. u_open t w2))) with (Xln (evalX (u_open t w1 *. u_open t w1 *. u_open t w2))).
    rewrite (bb_z_eval _ _ U1 U2 EU1 EU2), Xln_pos by exact ZP. reflexivity. }
  cbv beta. match goal with |- evals ((if rcmp ?c ?x ?y then _ else _) _) _ => destruct (rcmp c x y) end; [constructor|].
  cbn [sbind bind sask sret].
  eapply EvAsk.
  { apply (bb_e_eval (u_open t w1) U1 EU1 HU1). }
  { unfold eln. change (evalX (Un Ln (u_open t w1 *. u_open t w1 *. u_open t w2))) with (Xln (evalX (u_open t w1 *. u_open t w1 *. u_open t w2))).
    rewrite (bb_z_eval _ _ U1 U2 EU1 EU2), Xln_pos by exact ZP. reflexivity. }
  cbv beta. unfold rcmp. unfold bb_event in Ev.
  destruct (Rlt_dec (bb_E A B (bb_R GAMMA (bb_V BETA U1)) (bb_W A BETA U1)) (ln (U1 * U1 * U2))) as [N|_]; [lra|].
  cbn [negb]. constructor.
Qed.
End BB.

(* ================================================================================================ *)
(* the ziggurat loop of the executable model (utils.rs:62-96): every returned value is either produced by the
   tail routine (layer 0 with a failed rectangle test), or is x = u * X_i accepted by the rectangle test
   |x| < X_(i+1) (x < X_(i+1) for the one-sided exponential), or - for a layer i >= 1 whose rectangle test failed -
   by the wedge test  F_(i+1) + (F_i - F_(i+1)) u2 < pdf(x).  These are the events of Proofs/ZigIdentity.v.     *)
Definition tabR (l : list (Z * Z)) (i : nat) : R := dyR (nth i l (0, 0)%Z).
Lemma tab_eval l i : evalX (tab l i) = Xreal (tabR l i).
Proof. unfold tab, tabR. apply dyx_eval. Qed.

Definition zig_u (sym : bool) (bits : Z) : expr :=
  if sym then Exact (Dy (bits / 2 ^ 12 - 2 ^ 51) (-51)) else Exact (Dy (2 * (bits / 2 ^ 12) + 1) (-53)).

Definition zig_accepted (sym : bool) (X Fv : list (Z * Z)) (pdf : expr -> expr) (e : expr) : Prop :=
  exists bits V, let i := Z.to_nat (bits mod 256) in
    e = zig_u sym bits *. tab X i /\ evalX e = Xreal V /\
    ((if sym then Rabs V else V) < tabR X (S i) \/
     (i <> 0%nat /\ tabR X (S i) <= (if sym then Rabs V else V) /\
      exists w2 Y, word w2 /\ evalX (pdf e) = Xreal Y /\
        tabR Fv (S i) + (tabR Fv i - tabR Fv (S i)) * uR_std F64 w2 < Y)).

Theorem zig_returns_accepted sym X Fv pdf zc (Pz : expr * list Z -> Prop) :
  (forall um u ws, List.Forall word ws -> allout Pz nopanic (zc um u ws)) ->
  forall fuel ws, List.Forall word ws ->
  allout (fun q => Pz q \/ zig_accepted sym X Fv pdf (fst q)) nopanic (zig fuel sym X Fv pdf zc ws).
Proof.
  intros Hz. unfold zig_accepted, zig_u.
  destruct sym; (induction fuel as [|f IH]; intros ws Hw; [exact nopanic2|]);
    (destruct ws as [|bits ws]; cbn [zig]; lstep; [exact nopanic1|]);
    (apply Forall_cons_iff in Hw; destruct Hw as [_ Hws]);
    set (i := Z.to_nat (bits mod 256));
    intros tv xs Etv Exs; rewrite tab_eval in Exs; (assert (xs = tabR X (S i)) as -> by congruence); clear Exs.
  - (* symmetric (normal) *)
    set (u := Exact (Dy (bits / 2 ^ 12 - 2 ^ 51) (-51))) in * .
    change (evalX (eabs (u *. tab X i))) with (Xabs (evalX (u *. tab X i))) in Etv.
    destruct (evalX (u *. tab X i)) as [|V] eqn:EV; [discriminate|]. cbn in Etv. assert (tv = Rabs V) as -> by congruence. clear Etv.
    destruct (rcmp CLt (Rabs V) (tabR X (S i))) eqn:R1; lstep.
    { unfold rcmp in R1. destruct (Rlt_dec (Rabs V) (tabR X (S i))) as [G|]; [|discriminate].
      cbv beta. cbn [fst]. right. exists bits, V. cbv zeta. fold i. split; [reflexivity|]. split; [exact EV|]. left. exact G. }
    unfold rcmp in R1. destruct (Rlt_dec (Rabs V) (tabR X (S i))) as [|NG]; [discriminate|].
    destruct (Nat.eqb i 0) eqn:I0.
    { eapply allout_mono; [| |apply Hz, Hws]; [|auto]. intros q Hq. left. exact Hq. }
    apply Nat.eqb_neq in I0.
    destruct ws as [|w2 ws2]; lstep; [exact nopanic1|]. apply Forall_cons_iff in Hws. destruct Hws as [Hw2 Hws2].
    intros lw Y Elw EY.
    assert (lw = tabR Fv (S i) + (tabR Fv i - tabR Fv (S i)) * uR_std F64 w2) as ->.
    { change (evalX (tab Fv (S i) +. (tab Fv i -. tab Fv (S i)) *. u_std F64 w2))
        with (Xadd (evalX (tab Fv (S i))) (Xmul (Xsub (evalX (tab Fv i)) (evalX (tab Fv (S i)))) (evalX (u_std F64 w2)))) in Elw.
      rewrite !tab_eval, u_std_eval in Elw. cbn [Xadd Xmul Xsub Xlift2 Xbind2] in Elw. congruence. }
    destruct (rcmp CLt (tabR Fv (S i) + (tabR Fv i - tabR Fv (S i)) * uR_std F64 w2) Y) eqn:R2; lstep; [|apply IH, Hws2].
    unfold rcmp in R2. destruct (Rlt_dec (tabR Fv (S i) + (tabR Fv i - tabR Fv (S i)) * uR_std F64 w2) Y) as [G2|]; [|discriminate].
    cbv beta. cbn [fst]. right. exists bits, V. cbv zeta. fold i. split; [reflexivity|]. split; [exact EV|]. right.
    split; [exact I0|]. split; [lra|]. exists w2, Y. split; [exact Hw2|]. split; [exact EY|exact G2].
  - (* one-sided (exponential) *)
    set (u := Exact (Dy (2 * (bits / 2 ^ 12) + 1) (-53))) in * .
    rename tv into V. rename Etv into EV.
    destruct (rcmp CLt V (tabR X (S i))) eqn:R1; lstep.
    { unfold rcmp in R1. destruct (Rlt_dec V (tabR X (S i))) as [G|]; [|discriminate].
      cbv beta. cbn [fst]. right. exists bits, V. cbv zeta. fold i. split; [reflexivity|]. split; [exact EV|]. left. exact G. }
    unfold rcmp in R1. destruct (Rlt_dec V (tabR X (S i))) as [|NG]; [discriminate|].
    destruct (Nat.eqb i 0) eqn:I0.
    { eapply allout_mono; [| |apply Hz, Hws]; [|auto]. intros q Hq. left. exact Hq. }
    apply Nat.eqb_neq in I0.
    destruct ws as [|w2 ws2]; lstep; [exact nopanic1|]. apply Forall_cons_iff in Hws. destruct Hws as [Hw2 Hws2].
    intros lw Y Elw EY.
    assert (lw = tabR Fv (S i) + (tabR Fv i - tabR Fv (S i)) * uR_std F64 w2) as ->.
    { change (evalX (tab Fv (S i) +. (tab Fv i -. tab Fv (S i)) *. u_std F64 w2))
        with (Xadd (evalX (tab Fv (S i))) (Xmul (Xsub (evalX (tab Fv i)) (evalX (tab Fv (S i)))) (evalX (u_std F64 w2)))) in Elw.
      rewrite !tab_eval, u_std_eval in Elw. cbn [Xadd Xmul Xsub Xlift2 Xbind2] in Elw. congruence. }
    destruct (rcmp CLt (tabR Fv (S i) + (tabR Fv i - tabR Fv (S i)) * uR_std F64 w2) Y) eqn:R2; lstep; [|apply IH, Hws2].
    unfold rcmp in R2. destruct (Rlt_dec (tabR Fv (S i) + (tabR Fv i - tabR Fv (S i)) * uR_std F64 w2) Y) as [G2|]; [|discriminate].
    cbv beta. cbn [fst]. right. exists bits, V. cbv zeta. fold i. split; [reflexivity|]. split; [exact EV|]. right.
    split; [exact I0|]. split; [lra|]. exists w2, Y. split; [exact Hw2|]. split; [exact EY|exact G2].
Qed.
