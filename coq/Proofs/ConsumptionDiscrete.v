(* Proofs/ConsumptionDiscrete.v — property C05 on the executable models of the two paper-grade rejection
   samplers: every iteration of the BTPE and H2PE loops reads exactly two words and nothing else does
   (region selection, step 5 / step 4 and the product loops read none), so a sample that needed j
   proposals consumed exactly 2 j words - for every word list and all parameters (no hypothesis).     *)
From Coq Require Import Reals ZArith List Lra Lia Bool.
From Interval Require Import Xreal.
From Flocq Require Import Core.
From RD Require Import Base.Expr Base.Run Model.Sampler Model.Continuous Model.Discrete
  Proofs.LawsInvCdf Proofs.LoopBounds.
Import ListNotations.
Open Scope Z_scope.
Open Scope sampler_scope.

Definition two_per_iter (fuel : nat) (ws : list Z) (q : Z * list Z) : Prop :=
  exists j : nat, (1 <= j <= fuel)%nat /\ length ws = (length (snd q) + 2 * j)%nat.

Lemma two_per_iter_S fuel w1 w2 ws q : two_per_iter fuel ws q -> two_per_iter (S fuel) (w1 :: w2 :: ws) q.
Proof. intros (j & Hj & E). exists (S j). split; [lia|]. cbn [length]. lia. Qed.
Lemma two_per_iter_here fuel w1 w2 ws x : two_per_iter (S fuel) (w1 :: w2 :: ws) (x, ws).
Proof. exists 1%nat. split; [lia|]. cbn [length snd]. lia. Qed.

Definition anyfail (c : Z) : Prop := True.

(* ---- BTPE ---- *)
Lemma f64_to_u64_nowords e ws : allout (fun q => snd q = ws) anyfail (f64_to_u64 e ws).
Proof.
  unfold f64_to_u64, sfloor. cbn [sbind bind allout]. intros x _.
  destruct ((Zfloor x <? 0) || (U64MAX <=? Zfloor x)); lstep; [exact I|reflexivity].
Qed.

Lemma btpe_step5_nowords n pe m x_m y v ws : allout (fun q => snd q = ws) anyfail (btpe_step5 n pe m x_m y v ws).
Proof.
  unfold btpe_step5. cbv zeta.
  assert (forall ws', ws' = ws ->
    allout (fun q => snd q = ws) anyfail
      ((gt <- sask CGt v (btpe_f51 n pe m y) ;; if gt then sret None else sret (Some y)) ws')) as S51.
  { intros ws' ->. lstep. intros x0 y0 _ _. destruct (rcmp CGt x0 y0); lstep; reflexivity. }
  destruct (20 <? Z.abs (y - m)); lstep.
  - intros x0 y0 _ _. destruct (rcmp CLt x0 y0); cbn [negb]; [|apply S51; reflexivity].
    lstep. intros x1 y1 _ _. destruct (rcmp CLt x1 y1); lstep; [reflexivity|].
    intros x2 y2 _ _. destruct (rcmp CGt x2 y2); lstep; [reflexivity|].
    destruct (n <? y); lstep; [exact I|].
    intros x3 y3 _ _. destruct (rcmp CGt x3 y3); lstep; reflexivity.
  - apply S51. reflexivity.
Qed.

Lemma btpe_loop_words n pe fuel : forall m p1 x_m x_l x_r c p2 lambda_l lambda_r p3 p4 ws,
  allout (two_per_iter fuel ws) anyfail (btpe_loop n pe fuel m p1 x_m x_l x_r c p2 lambda_l lambda_r p3 p4 ws).
Proof.
  induction fuel as [|fu IH]; intros m p1 x_m x_l x_r c p2 lambda_l lambda_r p3 p4 ws; [exact I|].
  destruct ws as [|w1 [|w2 ws]]; cbn [btpe_loop]; cbv zeta; lstep; [exact I|exact I|].
  assert (Again : allout (two_per_iter (S fu) (w1 :: w2 :: ws)) anyfail
                    (btpe_loop n pe fu m p1 x_m x_l x_r c p2 lambda_l lambda_r p3 p4 ws)).
  { eapply allout_mono; [| |apply IH]; [|auto]. intros q. apply two_per_iter_S. }
  assert (Step5 : forall y v, allout (two_per_iter (S fu) (w1 :: w2 :: ws)) anyfail
            ((o <- btpe_step5 n pe m x_m y v ;; match o with Some y => sret y
               | None => btpe_loop n pe fu m p1 x_m x_l x_r c p2 lambda_l lambda_r p3 p4 end) ws)).
  { intros y v. eapply allout_sbind; [apply btpe_step5_nowords|auto|]. intros o ws' E. cbn [snd] in E. subst ws'.
    destruct o; [lstep; apply two_per_iter_here|exact Again]. }
  intros xa ya _ _. destruct (rcmp CGt xa ya); cbn [negb].
  2: { eapply allout_mono; [| |apply f64_to_u64_nowords]; [|auto]. intros [y rest] E. cbn [snd] in E. subst rest. apply two_per_iter_here. }
  lstep. intros xb yb _ _. destruct (rcmp CGt xb yb); cbn [negb].
  2: { lstep. intros xc yc _ _. destruct (rcmp CGt xc yc); [exact Again|].
       eapply allout_sbind; [apply f64_to_u64_nowords|auto|]. intros y ws' E. cbn [snd] in E. subst ws'. apply Step5. }
  lstep. intros xc yc _ _. destruct (rcmp CGt xc yc); cbn [negb].
  2: { destruct (w2 / 2 ^ 12 =? 0); [exact Again|]. lstep. intros xd yd _ _. destruct (rcmp CLt xd yd); [exact Again|].
       eapply allout_sbind; [apply f64_to_u64_nowords|auto|]. intros y ws' E. cbn [snd] in E. subst ws'. apply Step5. }
  destruct (w2 / 2 ^ 12 =? 0).
  { destruct (n <? U64MAX); [exact Again|lstep; exact I]. }
  unfold sfloor. cbn [sbind bind allout]. intros x0 _.
  destruct (n <? Z.min (Z.max (Zfloor x0) 0) U64MAX); [exact Again|apply Step5].
Qed.

(* ---- H2PE ---- *)
Lemma h2pe_step4_nowords n1 n2 k m a y v vz ws : allout (fun q => snd q = ws) anyfail (h2pe_step4 n1 n2 k m a y v vz ws).
Proof.
  unfold h2pe_step4. cbv zeta. destruct ((m <? 100) || (y <=? 50)).
  - unfold h2pe_f41. eapply allout_sbind.
    + destruct (m <? y); [apply h2pe_up_spec|apply h2pe_down_spec].
    + intros c _. exact I.
    + intros f ws' E. cbn [snd] in E. subst ws'. lstep. intros x0 y0 _ _. destruct (rcmp CLe x0 y0); lstep; reflexivity.
  - lstep. intros x0 y0 _ _. set (gneg := rcmp CLt x0 y0). clearbody gneg.
    destruct vz; lstep; [reflexivity|].
    intros x1 y1 _ _. destruct (rcmp CGt x1 y1); lstep; [reflexivity|].
    unfold sneg. destruct (y =? m); lstep.
    + intros x2 y2 _ _. destruct (rcmp CLt x2 y2); lstep; [reflexivity|].
      intros x3 y3 _ _. destruct (rcmp CLe x3 y3); lstep; reflexivity.
    + intros xa ya _ _. intros xb yb _ _. intros xc yc _ _. intros xd yd _ _.
      intros x2 y2 _ _. destruct (rcmp CLt x2 y2); lstep; [reflexivity|].
      intros x3 y3 _ _. destruct (rcmp CLe x3 y3); lstep; reflexivity.
Qed.

Lemma h2pe_loop_words n1 n2 k m a lambda_l lambda_r x_l x_r p1 p2 p3 fuel : forall ws,
  allout (two_per_iter fuel ws) anyfail (h2pe_loop n1 n2 k m a lambda_l lambda_r x_l x_r p1 p2 p3 fuel ws).
Proof.
  induction fuel as [|fu IH]; intros ws; [exact I|].
  destruct ws as [|w1 [|w2 ws]]; cbn [h2pe_loop]; cbv zeta; lstep; [exact I|exact I|].
  assert (Again : allout (two_per_iter (S fu) (w1 :: w2 :: ws)) anyfail
                    (h2pe_loop n1 n2 k m a lambda_l lambda_r x_l x_r p1 p2 p3 fu ws)).
  { eapply allout_mono; [| |apply IH]; [|auto]. intros q. apply two_per_iter_S. }
  assert (Step4 : forall y v vz, allout (two_per_iter (S fu) (w1 :: w2 :: ws)) anyfail
            ((o <- h2pe_step4 n1 n2 k m a y v vz ;; match o with Some y => sret y
               | None => h2pe_loop n1 n2 k m a lambda_l lambda_r x_l x_r p1 p2 p3 fu end) ws)).
  { intros y v vz. eapply allout_sbind; [apply h2pe_step4_nowords|auto|]. intros o ws' E. cbn [snd] in E. subst ws'.
    destruct o; [lstep; apply two_per_iter_here|exact Again]. }
  intros xa ya _ _. destruct (rcmp CLe xa ya).
  { unfold sfloor. cbn [sbind bind allout]. intros x0 _. apply Step4. }
  destruct (w2 / 2 ^ 11 =? 0); [exact Again|].
  lstep. intros xb yb _ _. destruct (rcmp CLe xb yb).
  - unfold sfloor. cbn [sbind bind allout]. intros x0 _.
    destruct (Z.max 0 (k - n2) <=? Zfloor x0); [apply Step4|exact Again].
  - unfold sfloor. cbn [sbind bind allout]. intros x0 _.
    destruct (Z.max (Zfloor x0) 0 <=? Z.min n1 k); [apply Step4|exact Again].
Qed.
