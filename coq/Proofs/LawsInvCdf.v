(* Proofs/LawsInvCdf.v — the single-draw inverse-CDF samplers of Model/Continuous.v
   (cauchy, pareto, weibull, gumbel, frechet, triangular):
     <D>_run    the model reads exactly one word and returns one explicit expression
     <D>_value  the exact real value of that expression is the quantile transform Q_D applied to
                the uniform value the word denotes
     <D>_event  Q_D theta u <= x  <->  u <= F_D theta x   (or 1 - F_D theta x <= u when Q_D is
                decreasing in u): with P(U <= p) = p this says the sample has CDF F_D.
   This file: vocabulary, uniform draws, all six *_run, and value/law of weibull, pareto, gumbel,
   frechet, cauchy.  Proofs/LawsTriangular.v: value/law of triangular.                             *)
From Coq Require Import Reals ZArith List Lra Lia.
From Interval Require Import Xreal.
From RD Require Import Base.Expr Base.Run Model.Sampler Model.Continuous.
Import ListNotations.
Open Scope R_scope.

(* ---- vocabulary ---------------------------------------------------------------------------- *)
(* real value of a dyadic parameter (m, e) = m * 2^e *)
Definition dyR (q : Z * Z) : R := IZR (fst q) * powerRZ 2 (snd q).

(* the real number a 64-bit word denotes as a uniform draw:
   StandardUniform: [0,1), top 53 (f64) / top 24 of the high 32 (f32) bits;  OpenClosed01: the same + 1 ulp *)
Definition uR_std (t : fty) (w : Z) : R :=
  match t with
  | F64 => IZR (w / 2 ^ 11) / 2 ^ 53
  | F32 => IZR (hi32 w / 2 ^ 8) / 2 ^ 24
  end.
Definition uR_oc (t : fty) (w : Z) : R :=
  match t with
  | F64 => (IZR (w / 2 ^ 11) + 1) / 2 ^ 53
  | F32 => (IZR (hi32 w / 2 ^ 8) + 1) / 2 ^ 24
  end.

Definition word (w : Z) : Prop := (0 <= w < 2 ^ 64)%Z.

(* ---- evalX helpers --------------------------------------------------------------------------- *)
Lemma dyx_eval q : evalX (dyx q) = Xreal (dyR q).
Proof. unfold dyx, dyR. cbn [evalX]. apply xdy_real. Qed.

Lemma num_eval n : evalX (num n) = Xreal (IZR n).
Proof. unfold num. cbn [evalX]. rewrite xdy_real. f_equal. simpl. ring. Qed.

Lemma Xln_pos x : 0 < x -> Xln (Xreal x) = Xreal (ln x).
Proof. intros H. cbn. unfold Xln'. now rewrite is_positive_true. Qed.

Lemma Xln_nonpos x : x <= 0 -> Xln (Xreal x) = Xnan.
Proof. intros H. cbn. unfold Xln'. now rewrite is_positive_false. Qed.

Lemma Xln'_pos x : 0 < x -> Xln' x = Xreal (ln x).
Proof. intros H. unfold Xln'. now rewrite is_positive_true. Qed.
Lemma Xln'_nonpos x : x <= 0 -> Xln' x = Xnan.
Proof. intros H. unfold Xln'. now rewrite is_positive_false. Qed.

Lemma Xdiv_nz x y : y <> 0 -> Xdiv (Xreal x) (Xreal y) = Xreal (x / y).
Proof. intros H. cbn. unfold Xdiv'. now rewrite is_zero_false. Qed.

Lemma Xpow_pos x y : 0 < x -> Xpow (Xreal x) (Xreal y) = Xreal (Rpower x y).
Proof. intros H. unfold Xpow. rewrite Xln_pos by assumption. reflexivity. Qed.

Lemma Xpow_nonpos x y : x <= 0 -> Xpow (Xreal x) y = Xnan.
Proof. intros H. unfold Xpow. rewrite Xln_nonpos by assumption. destruct y; reflexivity. Qed.

Lemma Xtan_ok x : cos x <> 0 -> Xtan (Xreal x) = Xreal (tan x).
Proof. intros H. cbn. unfold Xtan'. now rewrite is_zero_false. Qed.

(* ---- the uniform draws ----------------------------------------------------------------------- *)
Lemma p2_53 : powerRZ 2 (-53) = / 2 ^ 53. Proof. reflexivity. Qed.
Lemma p2_24 : powerRZ 2 (-24) = / 2 ^ 24. Proof. reflexivity. Qed.

Lemma u_std_eval t w : evalX (u_std t w) = Xreal (uR_std t w).
Proof.
  destruct t; unfold u_std, uR_std; cbn [evalX]; rewrite xdy_real; reflexivity.
Qed.

Lemma u_oc_eval t w : evalX (u_oc t w) = Xreal (uR_oc t w).
Proof.
  destruct t; unfold u_oc, uR_oc; cbn [evalX]; rewrite xdy_real, plus_IZR; reflexivity.
Qed.

Lemma IZR_2_53 : IZR (2 ^ 53) = 2 ^ 53. Proof. rewrite (pow_IZR 2 53). reflexivity. Qed.
Lemma IZR_2_24 : IZR (2 ^ 24) = 2 ^ 24. Proof. rewrite (pow_IZR 2 24). reflexivity. Qed.

Lemma top53_range w : word w -> (0 <= w / 2 ^ 11 <= 2 ^ 53 - 1)%Z.
Proof.
  intros [H0 H1]. split.
  - apply Z.div_pos; lia.
  - assert (w / 2 ^ 11 < 2 ^ 53)%Z; [|lia].
    apply Z.div_lt_upper_bound; [lia|]. change (2 ^ 11 * 2 ^ 53)%Z with (2 ^ 64)%Z. exact H1.
Qed.
Lemma top24_range w : word w -> (0 <= hi32 w / 2 ^ 8 <= 2 ^ 24 - 1)%Z.
Proof.
  intros [H0 H1]. unfold hi32. split.
  - apply Z.div_pos; [apply Z.div_pos|]; lia.
  - assert (w / 2 ^ 32 / 2 ^ 8 < 2 ^ 24)%Z; [|lia].
    apply Z.div_lt_upper_bound; [lia|]. apply Z.div_lt_upper_bound; [lia|].
    change (2 ^ 32 * (2 ^ 8 * 2 ^ 24))%Z with (2 ^ 64)%Z. exact H1.
Qed.

Lemma div_lt_1 a b : 0 < b -> a < b -> a / b < 1.
Proof.
  intros Hb H. apply Rmult_lt_reg_r with b; [assumption|].
  unfold Rdiv. rewrite Rmult_assoc, Rinv_l by lra. lra.
Qed.
Lemma div_le_1 a b : 0 < b -> a <= b -> a / b <= 1.
Proof.
  intros Hb H. apply Rmult_le_reg_r with b; [assumption|].
  unfold Rdiv. rewrite Rmult_assoc, Rinv_l by lra. lra.
Qed.
Lemma div_ge_0 a b : 0 < b -> 0 <= a -> 0 <= a / b.
Proof. intros Hb H. unfold Rdiv. apply Rmult_le_pos; [assumption|]. left. now apply Rinv_0_lt_compat. Qed.
Lemma div_gt_0 a b : 0 < b -> 0 < a -> 0 < a / b.
Proof. intros Hb H. unfold Rdiv. apply Rmult_lt_0_compat; [assumption|]. now apply Rinv_0_lt_compat. Qed.

Lemma top_bounds_R z N : (0 <= z <= N - 1)%Z -> 0 <= IZR z <= IZR N - 1.
Proof. intros [H0 H1]. apply IZR_le in H0, H1. rewrite minus_IZR in H1. lra. Qed.

(* a StandardUniform draw lies in [0,1) *)
Lemma uR_std_range t w : word w -> 0 <= uR_std t w < 1.
Proof.
  intros H. destruct t; unfold uR_std.
  - pose proof (top_bounds_R _ _ (top24_range w H)) as B. rewrite IZR_2_24 in B.
    assert (0 < 2 ^ 24) by (apply pow_lt; lra).
    split; [apply div_ge_0|apply div_lt_1]; lra.
  - pose proof (top_bounds_R _ _ (top53_range w H)) as B. rewrite IZR_2_53 in B.
    assert (0 < 2 ^ 53) by (apply pow_lt; lra).
    split; [apply div_ge_0|apply div_lt_1]; lra.
Qed.

(* an OpenClosed01 draw lies in (0,1] *)
Lemma uR_oc_range t w : word w -> 0 < uR_oc t w <= 1.
Proof.
  intros H. destruct t; unfold uR_oc.
  - pose proof (top_bounds_R _ _ (top24_range w H)) as B. rewrite IZR_2_24 in B.
    assert (0 < 2 ^ 24) by (apply pow_lt; lra).
    split; [apply div_gt_0|apply div_le_1]; lra.
  - pose proof (top_bounds_R _ _ (top53_range w H)) as B. rewrite IZR_2_53 in B.
    assert (0 < 2 ^ 53) by (apply pow_lt; lra).
    split; [apply div_gt_0|apply div_le_1]; lra.
Qed.

(* the OpenClosed01 draw is 1 exactly for the top 2^11 (f64) / 2^40 (f32) words *)
Lemma uR_oc_one t w : word w ->
  (uR_oc t w = 1 <-> (match t with F64 => 2 ^ 64 - 2 ^ 11 | F32 => 2 ^ 64 - 2 ^ 40 end <= w)%Z).
Proof.
  intros H. destruct t; unfold uR_oc.
  - pose proof (top24_range w H) as B.
    assert (P : 0 < 2 ^ 24) by (apply pow_lt; lra).
    assert (E : (IZR (hi32 w / 2 ^ 8) + 1) / 2 ^ 24 = 1 <-> (hi32 w / 2 ^ 8 = 2 ^ 24 - 1)%Z).
    { split; intros E.
      - apply eq_IZR. rewrite minus_IZR, IZR_2_24.
        apply (f_equal (fun r => r * 2 ^ 24)) in E. unfold Rdiv in E.
        rewrite Rmult_assoc, Rinv_l in E by lra. lra.
      - rewrite E, minus_IZR, IZR_2_24. field. }
    rewrite E. unfold hi32 in *. rewrite Z.div_div in * by lia.
    change (2 ^ 32 * 2 ^ 8)%Z with (2 ^ 40)%Z in *.
    destruct H as [H0 H1]. split; intros K.
    + pose proof (Z.mul_div_le w (2 ^ 40) ltac:(lia)).
      pose proof (Z.mod_pos_bound w (2 ^ 40) ltac:(lia)).
      pose proof (Z.div_mod w (2 ^ 40) ltac:(lia)). lia.
    + assert (2 ^ 24 - 1 <= w / 2 ^ 40)%Z; [|lia].
      apply Z.div_le_lower_bound; lia.
  - pose proof (top53_range w H) as B.
    assert (P : 0 < 2 ^ 53) by (apply pow_lt; lra).
    assert (E : (IZR (w / 2 ^ 11) + 1) / 2 ^ 53 = 1 <-> (w / 2 ^ 11 = 2 ^ 53 - 1)%Z).
    { split; intros E.
      - apply eq_IZR. rewrite minus_IZR, IZR_2_53.
        apply (f_equal (fun r => r * 2 ^ 53)) in E. unfold Rdiv in E.
        rewrite Rmult_assoc, Rinv_l in E by lra. lra.
      - rewrite E, minus_IZR, IZR_2_53. field. }
    rewrite E. destruct H as [H0 H1]. split; intros K.
    + pose proof (Z.mod_pos_bound w (2 ^ 11) ltac:(lia)).
      pose proof (Z.div_mod w (2 ^ 11) ltac:(lia)). lia.
    + assert (2 ^ 53 - 1 <= w / 2 ^ 11)%Z; [|lia].
      apply Z.div_le_lower_bound; lia.
Qed.

(* Open01: (0,1) *)
Lemma frac_range x c : 0 < x < c -> 0 < x * / c < 1.
Proof.
  intros [H0 H1]. assert (0 < / c) by (apply Rinv_0_lt_compat; lra). split; [apply Rmult_lt_0_compat; assumption|].
  apply Rmult_lt_reg_r with c; [lra|]. rewrite Rmult_assoc, Rinv_l by lra. lra.
Qed.
Lemma u_open_range t w : word w -> exists U, evalX (u_open t w) = Xreal U /\ 0 < U < 1.
Proof.
  intros [H0 H1]. destruct t; cbn [u_open evalX]; rewrite xdy_real; eexists; (split; [reflexivity|]).
  - assert (1 <= 2 * (hi32 w / 2 ^ 9) + 1 <= 16777215)%Z as [A B].
    { unfold hi32. assert (0 <= w / 2 ^ 32 / 2 ^ 9)%Z by (apply Z.div_pos; [apply Z.div_pos|]; lia).
      assert (w / 2 ^ 32 / 2 ^ 9 < 2 ^ 23)%Z; [|lia]. rewrite Z.div_div by lia.
      apply Z.div_lt_upper_bound; [lia|]. change (2 ^ 32 * 2 ^ 9 * 2 ^ 23)%Z with (2 ^ 64)%Z. exact H1. }
    apply IZR_le in A, B. change (powerRZ 2 (-24)) with (/ 2 ^ 24). assert (2 ^ 24 = 16777216) as -> by (simpl; lra).
    apply frac_range. lra.
  - assert (1 <= 2 * (w / 2 ^ 12) + 1 <= 9007199254740991)%Z as [A B].
    { assert (0 <= w / 2 ^ 12)%Z by (apply Z.div_pos; lia). assert (w / 2 ^ 12 < 2 ^ 52)%Z; [|lia].
      apply Z.div_lt_upper_bound; [lia|]. change (2 ^ 12 * 2 ^ 52)%Z with (2 ^ 64)%Z. exact H1. }
    apply IZR_le in A, B. change (powerRZ 2 (-53)) with (/ 2 ^ 53). assert (2 ^ 53 = 9007199254740992) as -> by (simpl; lra).
    apply frac_range. lra.
Qed.


(* ---- (1) *_run: one word, one expression ------------------------------------------------------- *)
Definition cauchy_expr (t : fty) (median scale : Z * Z) (w : Z) : expr :=
  Bin Add (dyx median) (Bin Mul (dyx scale) (Un Tan (Bin Mul Pi (u_std t w)))).
Definition pareto_expr (t : fty) (scale shape : Z * Z) (w : Z) : expr :=
  Bin Mul (dyx scale) (Bin Pow (u_oc t w) (Bin Div (num (-1)) (dyx shape))).
Definition weibull_expr (t : fty) (scale shape : Z * Z) (w : Z) : expr :=
  Bin Mul (dyx scale) (Bin Pow (Un Neg (Un Ln (u_oc t w))) (Bin Div (num 1) (dyx shape))).
Definition gumbel_expr (t : fty) (loc scale : Z * Z) (w : Z) : expr :=
  Bin Sub (dyx loc) (Bin Mul (dyx scale) (Un Ln (Un Neg (Un Ln (u_oc t w))))).
Definition frechet_expr (t : fty) (loc scale shape : Z * Z) (w : Z) : expr :=
  Bin Add (dyx loc)
    (Bin Mul (dyx scale) (Bin Pow (Un Neg (Un Ln (u_oc t w))) (Un Neg (Bin Div (num 1) (dyx shape))))).
(* triangular: the two sides of the comparison and the two leaves *)
Definition tri_frange (t : fty) (mn mx : Z * Z) (w : Z) : expr :=
  Bin Mul (u_std t w) (Bin Sub (dyx mx) (dyx mn)).
Definition tri_dmm (mn mode : Z * Z) : expr := Bin Sub (dyx mode) (dyx mn).
Definition tri_lo_expr (t : fty) (mn mx mode : Z * Z) (w : Z) : expr :=
  Bin Add (dyx mn) (Un Sqrt (Bin Mul (tri_frange t mn mx w) (tri_dmm mn mode))).
Definition tri_hi_expr (t : fty) (mn mx mode : Z * Z) (w : Z) : expr :=
  Bin Sub (dyx mx)
    (Un Sqrt (Bin Mul (Bin Sub (Bin Sub (dyx mx) (dyx mn)) (tri_frange t mn mx w)) (Bin Sub (dyx mx) (dyx mode)))).

Theorem cauchy_run t median scale w ws :
  cauchy t median scale (w :: ws) = Ret (cauchy_expr t median scale w, ws).
Proof. reflexivity. Qed.
Theorem pareto_run t scale shape w ws :
  pareto t scale shape (w :: ws) = Ret (pareto_expr t scale shape w, ws).
Proof. reflexivity. Qed.
Theorem weibull_run t scale shape w ws :
  weibull t scale shape (w :: ws) = Ret (weibull_expr t scale shape w, ws).
Proof. reflexivity. Qed.
Theorem gumbel_run t loc scale w ws :
  gumbel t loc scale (w :: ws) = Ret (gumbel_expr t loc scale w, ws).
Proof. reflexivity. Qed.
Theorem frechet_run t loc scale shape w ws :
  frechet t loc scale shape (w :: ws) = Ret (frechet_expr t loc scale shape w, ws).
Proof. reflexivity. Qed.
(* one comparison  f*range < mode-min  and one expression on each side of it *)
Theorem triangular_run t mn mx mode w ws :
  exists k, triangular t mn mx mode (w :: ws) = Ask CLt (tri_frange t mn mx w) (tri_dmm mn mode) k
         /\ k true = Ret (tri_lo_expr t mn mx mode w, ws)
         /\ k false = Ret (tri_hi_expr t mn mx mode w, ws).
Proof.
  exists (fun lt : bool =>
    (if lt then sret (tri_lo_expr t mn mx mode w) else sret (tri_hi_expr t mn mx mode w)) ws).
  repeat split; reflexivity.
Qed.
(* with no word left every one of them stops with code 1 *)
Theorem invcdf_run_nil t a b c :
  cauchy t a b [] = Fail 1 /\ pareto t a b [] = Fail 1 /\ weibull t a b [] = Fail 1 /\
  gumbel t a b [] = Fail 1 /\ frechet t a b c [] = Fail 1 /\ triangular t a b c [] = Fail 1.
Proof. repeat split; reflexivity. Qed.

(* ---- monotonicity toolkit ---------------------------------------------------------------------- *)
Lemma exp_le_iff a b : exp a <= exp b <-> a <= b.
Proof.
  split; intros H.
  - destruct (Rle_or_lt a b) as [|L]; [assumption|]. apply exp_increasing in L. lra.
  - destruct H as [H|H]; [left; now apply exp_increasing|right; now f_equal].
Qed.
Lemma ln_le_iff a b : 0 < a -> 0 < b -> (ln a <= ln b <-> a <= b).
Proof.
  intros Ha Hb. rewrite <- (exp_ln a Ha) at 2. rewrite <- (exp_ln b Hb) at 2.
  symmetry. apply exp_le_iff.
Qed.
Lemma mul_le_iff k a b : 0 < k -> (k * a <= k * b <-> a <= b).
Proof.
  intros Hk. split; intros H.
  - apply Rmult_le_reg_l with k; assumption.
  - apply Rmult_le_compat_l; lra.
Qed.
Lemma div_le_iff k a b : 0 < k -> (k * a <= b <-> a <= b / k).
Proof.
  intros Hk. rewrite <- (mul_le_iff k a (b / k) Hk).
  replace (k * (b / k)) with b by (field; lra). reflexivity.
Qed.
Lemma div_le_iff2 k a b : 0 < k -> (a / k <= b <-> a <= k * b).
Proof.
  intros Hk. rewrite <- (mul_le_iff k (a / k) b Hk).
  replace (k * (a / k)) with a by (field; lra). reflexivity.
Qed.
Lemma ln_neg_pos u : 0 < u < 1 -> 0 < - ln u.
Proof. intros [H0 H1]. pose proof (ln_increasing u 1 H0 H1) as L. rewrite ln_1 in L. lra. Qed.

(* ================================== Weibull(lambda, k) ============================================ *)
(* sample = lambda * (-ln u)^(1/k), u in (0,1] *)
Definition Q_weibull (lambda k u : R) : R := lambda * Rpower (- ln u) (1 / k).
(* CDF (Wikipedia; integral of the density in the doc comment of weibull.rs):
   F(x) = 1 - exp(-(x/lambda)^k) for x > 0, 0 for x <= 0 *)
Definition F_weibull (lambda k x : R) : R :=
  if Rlt_dec 0 x then 1 - exp (- Rpower (x / lambda) k) else 0.

Theorem weibull_value t scale shape w :
  0 < dyR scale -> 0 < dyR shape -> word w -> uR_oc t w < 1 ->
  evalX (weibull_expr t scale shape w) = Xreal (Q_weibull (dyR scale) (dyR shape) (uR_oc t w)).
Proof.
  intros Hs Hk Hw H1. pose proof (uR_oc_range t w Hw) as [H0 _].
  unfold weibull_expr. cbn [evalX xun xbin]. rewrite !dyx_eval, num_eval, u_oc_eval.
  rewrite Xln_pos by assumption. cbn [Xbind].
  rewrite Xdiv_nz by lra. rewrite Xpow_pos by (apply ln_neg_pos; lra). reflexivity.
Qed.
(* the draws u = 1 have no real value: (-ln 1)^(1/k) = 0^(1/k) is exp(1/k * ln 0) *)
Theorem weibull_undefined t scale shape w :
  uR_oc t w = 1 -> evalX (weibull_expr t scale shape w) = Xnan.
Proof.
  intros H1. unfold weibull_expr. cbn [evalX xun xbin]. rewrite !dyx_eval, u_oc_eval, H1.
  rewrite Xln_pos by lra. cbn [Xbind]. rewrite ln_1, Xpow_nonpos by lra. reflexivity.
Qed.

(* Q is decreasing in u: the sample is <= x exactly when u is at least the survival function at x *)
Theorem weibull_event lambda k u x :
  0 < lambda -> 0 < k -> 0 < u < 1 ->
  (Q_weibull lambda k u <= x <-> 1 - F_weibull lambda k x <= u).
Proof.
  intros Hl Hk Hu. pose proof (ln_neg_pos u Hu) as HL. unfold Q_weibull, F_weibull.
  destruct (Rlt_dec 0 x) as [Hx|Hx].
  - assert (Hxl : 0 < x / lambda) by (apply div_gt_0; assumption).
    replace (1 - (1 - exp (- Rpower (x / lambda) k))) with (exp (- Rpower (x / lambda) k)) by ring.
    rewrite div_le_iff by assumption. unfold Rpower.
    rewrite <- (exp_ln (x / lambda) Hxl) at 1. rewrite exp_le_iff.
    replace (1 / k * ln (- ln u)) with (ln (- ln u) / k) by (field; lra).
    rewrite div_le_iff2 by assumption.
    rewrite <- exp_le_iff. rewrite (exp_ln _ HL).
    rewrite <- (exp_ln u) at 2 by lra. rewrite exp_le_iff. lra.
  - assert (0 < lambda * Rpower (- ln u) (1 / k)).
    { apply Rmult_lt_0_compat; [assumption|]. unfold Rpower. apply exp_pos. }
    lra.
Qed.

Example weibull_nonvacuous :
  evalX (weibull_expr F64 (3, 0)%Z (2, 0)%Z (2 ^ 63)) = Xreal (Q_weibull 3 2 ((2 ^ 52 + 1) / 2 ^ 53)) /\
  (forall u x, 0 < u < 1 -> (Q_weibull 3 2 u <= x <-> 1 - F_weibull 3 2 x <= u)).
Proof.
  split.
  - assert (D3 : dyR (3, 0)%Z = 3) by (unfold dyR; simpl; lra).
    assert (D2 : dyR (2, 0)%Z = 2) by (unfold dyR; simpl; lra).
    assert (U : uR_oc F64 (2 ^ 63) = (2 ^ 52 + 1) / 2 ^ 53).
    { unfold uR_oc. change (2 ^ 63 / 2 ^ 11)%Z with (2 ^ 52)%Z.
      rewrite (pow_IZR 2 52). reflexivity. }
    rewrite <- U, <- D3, <- D2.
    apply weibull_value; rewrite ?D3, ?D2, ?U; try lra.
    unfold word; lia.
  - intros u x Hu. apply weibull_event; lra.
Qed.

(* ================================== Pareto(xm, alpha) ============================================= *)
(* sample = xm * u^(-1/alpha), u in (0,1] *)
Definition Q_pareto (xm alpha u : R) : R := xm * Rpower u (-1 / alpha).
(* CDF (Wikipedia): F(x) = 1 - (xm/x)^alpha for x >= xm, 0 for x < xm *)
Definition F_pareto (xm alpha x : R) : R :=
  if Rle_dec xm x then 1 - Rpower (xm / x) alpha else 0.

(* defined for every word, u = 1 included *)
Theorem pareto_value t scale shape w :
  0 < dyR scale -> 0 < dyR shape -> word w ->
  evalX (pareto_expr t scale shape w) = Xreal (Q_pareto (dyR scale) (dyR shape) (uR_oc t w)).
Proof.
  intros Hs Hk Hw. pose proof (uR_oc_range t w Hw) as [H0 _].
  unfold pareto_expr. cbn [evalX xun xbin]. rewrite !dyx_eval, num_eval, u_oc_eval.
  rewrite Xdiv_nz by lra. rewrite Xpow_pos by assumption. reflexivity.
Qed.

(* Q is decreasing in u *)
Theorem pareto_event xm alpha u x :
  0 < xm -> 0 < alpha -> 0 < u <= 1 -> (xm <= x \/ u < 1) ->
  (Q_pareto xm alpha u <= x <-> 1 - F_pareto xm alpha x <= u).
Proof.
  intros Hm Ha Hu Hx. unfold Q_pareto, F_pareto.
  assert (Lu : ln u <= 0).
  { destruct (proj2 Hu) as [L|E]; [|rewrite E, ln_1; lra].
    pose proof (ln_increasing u 1 (proj1 Hu) L) as K. rewrite ln_1 in K. lra. }
  destruct (Rle_dec xm x) as [Hx'|Hx'].
  - assert (X0 : 0 < x) by lra.
    assert (Hq : 0 < x / xm) by (apply div_gt_0; assumption).
    replace (1 - (1 - Rpower (xm / x) alpha)) with (Rpower (xm / x) alpha) by ring.
    rewrite div_le_iff by assumption. unfold Rpower.
    rewrite <- (exp_ln (x / xm) Hq) at 1. rewrite exp_le_iff.
    rewrite <- (exp_ln u) at 2 by lra. rewrite exp_le_iff.
    replace (xm / x) with (/ (x / xm)) by (field; lra). rewrite ln_Rinv by assumption.
    replace (-1 / alpha * ln u) with ((- ln u) / alpha) by (field; lra).
    rewrite div_le_iff2 by assumption. lra.
  - destruct Hx as [Hx|Hx]; [lra|].
    assert (1 <= Rpower u (-1 / alpha)).
    { unfold Rpower. rewrite <- exp_0. apply exp_le_iff.
      replace (-1 / alpha * ln u) with ((- ln u) * / alpha) by (field; lra).
      apply Rmult_le_pos; [lra|]. left. now apply Rinv_0_lt_compat. }
    assert (xm * 1 <= xm * Rpower u (-1 / alpha)) by (apply Rmult_le_compat_l; lra).
    lra.
Qed.

Example pareto_nonvacuous :
  evalX (pareto_expr F64 (3, 0)%Z (2, 0)%Z (2 ^ 63)) = Xreal (Q_pareto 3 2 ((2 ^ 52 + 1) / 2 ^ 53)) /\
  (forall u x, 0 < u <= 1 -> 3 <= x -> (Q_pareto 3 2 u <= x <-> 1 - F_pareto 3 2 x <= u)).
Proof.
  split.
  - assert (D3 : dyR (3, 0)%Z = 3) by (unfold dyR; simpl; lra).
    assert (D2 : dyR (2, 0)%Z = 2) by (unfold dyR; simpl; lra).
    assert (U : uR_oc F64 (2 ^ 63) = (2 ^ 52 + 1) / 2 ^ 53).
    { unfold uR_oc. change (2 ^ 63 / 2 ^ 11)%Z with (2 ^ 52)%Z.
      rewrite (pow_IZR 2 52). reflexivity. }
    rewrite <- U, <- D3, <- D2.
    apply pareto_value; rewrite ?D3, ?D2, ?U; try lra.
    unfold word; lia.
  - intros u x Hu Hx. apply pareto_event; lra.
Qed.

(* ================================== Gumbel(mu, beta) ============================================== *)
(* sample = mu - beta * ln(-ln u), u in (0,1] *)
Definition Q_gumbel (mu beta u : R) : R := mu - beta * ln (- ln u).
(* CDF (Wikipedia; integral of the density in the doc comment of gumbel.rs): F(x) = exp(-exp(-(x-mu)/beta)) *)
Definition F_gumbel (mu beta x : R) : R := exp (- exp (- (x - mu) / beta)).

Theorem gumbel_value t loc scale w :
  0 < dyR scale -> word w -> uR_oc t w < 1 ->
  evalX (gumbel_expr t loc scale w) = Xreal (Q_gumbel (dyR loc) (dyR scale) (uR_oc t w)).
Proof.
  intros Hs Hw H1. pose proof (uR_oc_range t w Hw) as [H0 _].
  unfold gumbel_expr. cbn [evalX xun xbin]. rewrite !dyx_eval, u_oc_eval.
  rewrite Xln_pos by assumption. cbn [Xbind].
  rewrite Xln'_pos by (apply ln_neg_pos; lra). reflexivity.
Qed.
(* u = 1: ln(-ln 1) = ln 0 has no real value *)
Theorem gumbel_undefined t loc scale w :
  uR_oc t w = 1 -> evalX (gumbel_expr t loc scale w) = Xnan.
Proof.
  intros H1. unfold gumbel_expr. cbn [evalX xun xbin]. rewrite !dyx_eval, u_oc_eval, H1.
  rewrite Xln_pos by lra. cbn [Xbind]. rewrite ln_1, Xln'_nonpos by lra. reflexivity.
Qed.

(* Q is increasing in u; every real x is in the support *)
Theorem gumbel_event mu beta u x :
  0 < beta -> 0 < u < 1 ->
  (Q_gumbel mu beta u <= x <-> u <= F_gumbel mu beta x).
Proof.
  intros Hb Hu. pose proof (ln_neg_pos u Hu) as HL. unfold Q_gumbel, F_gumbel.
  rewrite <- (exp_ln u) at 2 by lra. rewrite exp_le_iff.
  transitivity (exp (- (x - mu) / beta) <= - ln u); [|lra].
  rewrite <- (exp_ln _ HL) at 2. rewrite exp_le_iff.
  rewrite div_le_iff2 by assumption. lra.
Qed.

Example gumbel_nonvacuous :
  evalX (gumbel_expr F64 (-5, 0)%Z (3, 0)%Z (2 ^ 63)) = Xreal (Q_gumbel (-5) 3 ((2 ^ 52 + 1) / 2 ^ 53)) /\
  (forall u x, 0 < u < 1 -> (Q_gumbel (-5) 3 u <= x <-> u <= F_gumbel (-5) 3 x)).
Proof.
  split.
  - assert (D3 : dyR (3, 0)%Z = 3) by (unfold dyR; simpl; lra).
    assert (D5 : dyR (-5, 0)%Z = -5) by (unfold dyR; simpl; lra).
    assert (U : uR_oc F64 (2 ^ 63) = (2 ^ 52 + 1) / 2 ^ 53).
    { unfold uR_oc. change (2 ^ 63 / 2 ^ 11)%Z with (2 ^ 52)%Z.
      rewrite (pow_IZR 2 52). reflexivity. }
    rewrite <- U, <- D3, <- D5.
    apply gumbel_value; rewrite ?D3, ?U; try lra.
    unfold word; lia.
  - intros u x Hu. apply gumbel_event; lra.
Qed.

(* ================================== Frechet(alpha, mu, sigma) ====================================== *)
(* sample = mu + sigma * (-ln u)^(-1/alpha), u in (0,1] *)
Definition Q_frechet (mu sigma alpha u : R) : R := mu + sigma * Rpower (- ln u) (- (1 / alpha)).
(* CDF (Wikipedia; integral of the density in the doc comment of frechet.rs):
   F(x) = exp(-((x-mu)/sigma)^(-alpha)) for x > mu, 0 for x <= mu *)
Definition F_frechet (mu sigma alpha x : R) : R :=
  if Rlt_dec mu x then exp (- Rpower ((x - mu) / sigma) (- alpha)) else 0.

Theorem frechet_value t loc scale shape w :
  0 < dyR scale -> 0 < dyR shape -> word w -> uR_oc t w < 1 ->
  evalX (frechet_expr t loc scale shape w) =
  Xreal (Q_frechet (dyR loc) (dyR scale) (dyR shape) (uR_oc t w)).
Proof.
  intros Hs Hk Hw H1. pose proof (uR_oc_range t w Hw) as [H0 _].
  unfold frechet_expr. cbn [evalX xun xbin]. rewrite !dyx_eval, num_eval, u_oc_eval.
  rewrite Xln_pos by assumption. cbn [Xbind].
  rewrite Xdiv_nz by lra. cbn [Xbind]. rewrite Xpow_pos by (apply ln_neg_pos; lra). reflexivity.
Qed.
(* u = 1: (-ln 1)^(-1/alpha) = 0^(-1/alpha) has no real value *)
Theorem frechet_undefined t loc scale shape w :
  uR_oc t w = 1 -> evalX (frechet_expr t loc scale shape w) = Xnan.
Proof.
  intros H1. unfold frechet_expr. cbn [evalX xun xbin]. rewrite !dyx_eval, u_oc_eval, H1.
  rewrite Xln_pos by lra. cbn [Xbind]. rewrite ln_1, Xpow_nonpos by lra. reflexivity.
Qed.

(* Q is increasing in u *)
Theorem frechet_event mu sigma alpha u x :
  0 < sigma -> 0 < alpha -> 0 < u < 1 ->
  (Q_frechet mu sigma alpha u <= x <-> u <= F_frechet mu sigma alpha x).
Proof.
  intros Hs Ha Hu. pose proof (ln_neg_pos u Hu) as HL. unfold Q_frechet, F_frechet.
  destruct (Rlt_dec mu x) as [Hx|Hx].
  - assert (Hy : 0 < (x - mu) / sigma) by (apply div_gt_0; lra).
    transitivity (sigma * Rpower (- ln u) (- (1 / alpha)) <= x - mu); [lra|].
    rewrite div_le_iff by assumption. unfold Rpower.
    rewrite <- (exp_ln _ Hy) at 1. rewrite exp_le_iff.
    rewrite <- (exp_ln u) at 2 by lra. rewrite exp_le_iff.
    transitivity (exp (- alpha * ln ((x - mu) / sigma)) <= - ln u); [|lra].
    rewrite <- (exp_ln _ HL) at 2. rewrite exp_le_iff.
    replace (- (1 / alpha) * ln (- ln u)) with ((- ln (- ln u)) / alpha) by (field; lra).
    rewrite div_le_iff2 by assumption. lra.
  - assert (0 < sigma * Rpower (- ln u) (- (1 / alpha))).
    { apply Rmult_lt_0_compat; [assumption|]. unfold Rpower. apply exp_pos. }
    lra.
Qed.

Example frechet_nonvacuous :
  evalX (frechet_expr F64 (-5, 0)%Z (3, 0)%Z (2, 0)%Z (2 ^ 63)) =
    Xreal (Q_frechet (-5) 3 2 ((2 ^ 52 + 1) / 2 ^ 53)) /\
  (forall u x, 0 < u < 1 -> (Q_frechet (-5) 3 2 u <= x <-> u <= F_frechet (-5) 3 2 x)).
Proof.
  split.
  - assert (D3 : dyR (3, 0)%Z = 3) by (unfold dyR; simpl; lra).
    assert (D2 : dyR (2, 0)%Z = 2) by (unfold dyR; simpl; lra).
    assert (D5 : dyR (-5, 0)%Z = -5) by (unfold dyR; simpl; lra).
    assert (U : uR_oc F64 (2 ^ 63) = (2 ^ 52 + 1) / 2 ^ 53).
    { unfold uR_oc. change (2 ^ 63 / 2 ^ 11)%Z with (2 ^ 52)%Z.
      rewrite (pow_IZR 2 52). reflexivity. }
    rewrite <- U, <- D3, <- D2, <- D5.
    apply frechet_value; rewrite ?D3, ?D2, ?U; try lra.
    unfold word; lia.
  - intros u x Hu. apply frechet_event; lra.
Qed.

(* ================================== Cauchy(x0, gamma) ============================================== *)
(* sample = x0 + gamma * tan(pi * u), u in [0,1) *)
Definition Q_cauchy (x0 gamma u : R) : R := x0 + gamma * tan (PI * u).
(* CDF (Wikipedia; integral of the density in the doc comment of cauchy.rs):
   F(x) = 1/2 + atan((x - x0)/gamma)/pi *)
Definition F_cauchy (x0 gamma x : R) : R := 1 / 2 + atan ((x - x0) / gamma) / PI.

Lemma cos_PIu_nz u : 0 <= u < 1 -> u <> 1 / 2 -> cos (PI * u) <> 0.
Proof.
  intros Hu Hn E. pose proof PI_RGT_0 as P.
  destruct (cos_eq_0_2PI_0 (PI * u)) as [K|K]; [nra|nra|assumption| |]; apply Hn; nra.
Qed.

Theorem cauchy_value t median scale w :
  0 < dyR scale -> word w -> uR_std t w <> 1 / 2 ->
  evalX (cauchy_expr t median scale w) = Xreal (Q_cauchy (dyR median) (dyR scale) (uR_std t w)).
Proof.
  intros Hs Hw Hn. pose proof (uR_std_range t w Hw) as Hu.
  unfold cauchy_expr. cbn [evalX xun xbin]. rewrite !dyx_eval, u_std_eval. cbn [Xbind2 Xbind].
  unfold Xtan'. rewrite is_zero_false by (apply cos_PIu_nz; assumption). reflexivity.
Qed.
(* the draw u = 1/2 (f64: the 2^11 words from 2^63 on) has no real value: tan(pi/2) *)
Theorem cauchy_undefined t median scale w :
  uR_std t w = 1 / 2 -> evalX (cauchy_expr t median scale w) = Xnan.
Proof.
  intros E. unfold cauchy_expr. cbn [evalX xun xbin]. rewrite !dyx_eval, u_std_eval, E.
  cbn [Xbind2 Xbind]. unfold Xtan'. replace (PI * (1 / 2)) with (PI / 2) by field.
  rewrite cos_PI2, is_zero_0. reflexivity.
Qed.

Lemma tan_le_atan th y : - (PI / 2) < th < PI / 2 -> (tan th <= y <-> th <= atan y).
Proof.
  intros Hth. pose proof (atan_bound y) as B. split; intros H.
  - destruct (Rle_or_lt th (atan y)) as [|L]; [assumption|].
    apply tan_increasing in L; [|lra|lra]. rewrite tan_atan in L. lra.
  - destruct H as [L|E].
    + apply tan_increasing in L; [|lra|lra]. rewrite tan_atan in L. lra.
    + rewrite E, tan_atan. lra.
Qed.

(* tan(pi u) = tan(pi u - pi) on the upper half *)
Lemma tan_PIu_shift u : 1 / 2 < u < 1 -> tan (PI * u) = tan (PI * u - PI).
Proof.
  intros Hu. pose proof PI_RGT_0 as P.
  replace (PI * u) with (PI + (PI * u - PI)) at 1 by ring.
  apply Rtrigo_facts.tan_pi_plus.
  apply Rgt_not_eq. apply cos_gt_0; nra.
Qed.

(* the sample is the documented quantile  x0 + gamma * tan(pi * (v - 1/2))  at the rotated
   position v = u + 1/2 mod 1:  atan of the standardised sample is pi*u on [0,1/2) and pi*u - pi on (1/2,1) *)
Theorem cauchy_atan x0 gamma u :
  0 < gamma ->
  (0 <= u < 1 / 2 -> atan ((Q_cauchy x0 gamma u - x0) / gamma) = PI * u) /\
  (1 / 2 < u < 1 -> atan ((Q_cauchy x0 gamma u - x0) / gamma) = PI * u - PI).
Proof.
  intros Hg. pose proof PI_RGT_0 as P. unfold Q_cauchy.
  replace ((x0 + gamma * tan (PI * u) - x0) / gamma) with (tan (PI * u)) by (field; lra).
  split; intros Hu.
  - apply atan_tan. split; nra.
  - rewrite tan_PIu_shift by assumption. apply atan_tan. split; nra.
Qed.

(* law: a uniform u on [0,1/2) u (1/2,1), rotated by 1/2, is compared with F *)
Theorem cauchy_event x0 gamma u x :
  0 < gamma ->
  (0 <= u < 1 / 2 -> (Q_cauchy x0 gamma u <= x <-> u + 1 / 2 <= F_cauchy x0 gamma x)) /\
  (1 / 2 < u < 1 -> (Q_cauchy x0 gamma u <= x <-> u - 1 / 2 <= F_cauchy x0 gamma x)).
Proof.
  intros Hg. pose proof PI_RGT_0 as P. unfold Q_cauchy, F_cauchy.
  assert (S : forall th, x0 + gamma * tan th <= x <-> tan th <= (x - x0) / gamma).
  { intros th. rewrite <- div_le_iff by assumption. lra. }
  split; intros Hu; rewrite S.
  - rewrite tan_le_atan by (split; nra).
    rewrite div_le_iff by lra. lra.
  - rewrite tan_PIu_shift by assumption. rewrite tan_le_atan by (split; nra).
    transitivity (PI * (u - 1) <= atan ((x - x0) / gamma)); [lra|].
    rewrite div_le_iff by lra. lra.
Qed.

Example cauchy_nonvacuous :
  evalX (cauchy_expr F64 (-5, 0)%Z (3, 0)%Z (2 ^ 62)) = Xreal (Q_cauchy (-5) 3 (1 / 4)) /\
  evalX (cauchy_expr F64 (-5, 0)%Z (3, 0)%Z (2 ^ 63)) = Xnan /\
  (forall x, Q_cauchy (-5) 3 (1 / 4) <= x <-> 3 / 4 <= F_cauchy (-5) 3 x) /\
  (forall x, Q_cauchy (-5) 3 (3 / 4) <= x <-> 1 / 4 <= F_cauchy (-5) 3 x).
Proof.
  assert (D3 : dyR (3, 0)%Z = 3) by (unfold dyR; simpl; lra).
  assert (D5 : dyR (-5, 0)%Z = -5) by (unfold dyR; simpl; lra).
  assert (U : uR_std F64 (2 ^ 62) = 1 / 4).
  { unfold uR_std. change (2 ^ 62 / 2 ^ 11)%Z with (2 ^ 51)%Z.
    replace (IZR (2 ^ 51)) with (2 ^ 51) by (rewrite (pow_IZR 2 51); reflexivity). field. }
  assert (U2 : uR_std F64 (2 ^ 63) = 1 / 2).
  { unfold uR_std. change (2 ^ 63 / 2 ^ 11)%Z with (2 ^ 52)%Z.
    replace (IZR (2 ^ 52)) with (2 ^ 52) by (rewrite (pow_IZR 2 52); reflexivity). field. }
  split; [|split; [|split]].
  - rewrite <- U, <- D3, <- D5. apply cauchy_value; rewrite ?D3, ?U; try lra.
    unfold word; lia.
  - apply cauchy_undefined. exact U2.
  - intros x. destruct (cauchy_event (-5) 3 (1 / 4) x ltac:(lra)) as [E _].
    rewrite (E ltac:(lra)). split; lra.
  - intros x. destruct (cauchy_event (-5) 3 (3 / 4) x ltac:(lra)) as [_ E].
    rewrite (E ltac:(lra)). split; lra.
Qed.
