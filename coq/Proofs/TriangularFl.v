(* Proofs/TriangularFl.v — property C03 at the IEEE level for Triangular::sample (triangular.rs:101-110), which contains no libm call
   (sqrt is a correctly rounded IEEE operation, Flocq's Bsqrt):
       dmm = mode - min; range = max - min; f_range = f * range;
       if f_range < dmm { min + sqrt(f_range * dmm) } else { max - sqrt((range - f_range) * (max - mode)) }
   For finite min <= mode <= max with |min|, |max| <= 2^k, 2k + 3 <= emax, and every finite draw f in [0, 1]: no operation
   overflows, no square root is taken of a negative number, the result is a FINITE float (never NaN, never infinite), it is >= min
   in the first branch and <= max in the second (exactly, no ulp), and it lies in [-2^(k+2), 2^(k+2)] in both.                      *)
From Coq Require Import ZArith Bool Reals Lra Lia.
From Flocq Require Import Core.Core IEEE754.BinarySingleNaN.
Open Scope R_scope.

Section Fmt.
Variable prec emax : Z.
Context (Hp : Prec_gt_0 prec) (Hpe : Prec_lt_emax prec emax).
Notation float := (binary_float prec emax).
Notation fexp := (SpecFloat.fexp prec emax).
Notation rnd := (round radix2 fexp (round_mode mode_NE)).

Local Instance tfexp_valid : Valid_exp fexp := fexp_correct prec emax Hp.

Definition triangular_fl (mn md mx f : float) : float :=
  let dmm := Bminus mode_NE md mn in
  let range := Bminus mode_NE mx mn in
  let f_range := Bmult mode_NE f range in
  if Bltb f_range dmm then Bplus mode_NE mn (Bsqrt mode_NE (Bmult mode_NE f_range dmm))
  else Bminus mode_NE mx (Bsqrt mode_NE (Bmult mode_NE (Bminus mode_NE range f_range) (Bminus mode_NE mx md))).

(* a finite non-negative float below 2^t *)
Definition bf (t : Z) (x : float) : Prop := is_finite x = true /\ 0 <= B2R x <= bpow radix2 t.

Lemma emin_le_0 : (SpecFloat.emin prec emax <= 0)%Z.
Proof. unfold SpecFloat.emin, Prec_gt_0, Prec_lt_emax in * . lia. Qed.

Lemma fmt_bpow (t : Z) : (0 <= t)%Z -> generic_format radix2 fexp (bpow radix2 t).
Proof.
  intros Ht. apply generic_format_bpow'; [exact tfexp_valid|]. unfold SpecFloat.fexp. pose proof emin_le_0. unfold Prec_gt_0 in Hp. lia.
Qed.

Lemma rnd_abs_le (v : R) (t : Z) : (0 <= t)%Z -> Rabs v <= bpow radix2 t -> Rabs (rnd v) <= bpow radix2 t.
Proof. intros Ht H. apply abs_round_le_generic; [exact tfexp_valid|typeclasses eauto|apply fmt_bpow; exact Ht|exact H]. Qed.

Lemma no_ovf (v : R) (t : Z) : (0 <= t)%Z -> (t < emax)%Z -> Rabs v <= bpow radix2 t -> Rabs (rnd v) < bpow radix2 emax.
Proof. intros Ht Hte H. eapply Rle_lt_trans; [apply rnd_abs_le; eassumption|apply bpow_lt; exact Hte]. Qed.

Lemma rnd_nn (v : R) : 0 <= v -> 0 <= rnd v.
Proof. intros H. rewrite <- (round_0 radix2 fexp (round_mode mode_NE)). apply round_le; [exact tfexp_valid|typeclasses eauto|exact H]. Qed.

Lemma rnd_range (v : R) (t : Z) : (0 <= t)%Z -> 0 <= v <= bpow radix2 t -> 0 <= rnd v <= bpow radix2 t.
Proof.
  intros Ht [H0 H1]. split; [apply rnd_nn; exact H0|].
  pose proof (rnd_abs_le v t Ht ltac:(rewrite Rabs_pos_eq; assumption)) as A. rewrite Rabs_pos_eq in A by (apply rnd_nn; exact H0). exact A.
Qed.

(* x - y for finite |x|, |y| <= 2^k, y <= x *)
Lemma minus_bf (x y : float) (k : Z) : (0 <= k)%Z -> (k + 1 < emax)%Z ->
  is_finite x = true -> is_finite y = true -> Rabs (B2R x) <= bpow radix2 k -> Rabs (B2R y) <= bpow radix2 k -> B2R y <= B2R x ->
  bf (k + 1) (Bminus mode_NE x y).
Proof.
  intros Hk Hke Fx Fy Hx Hy Hle. pose proof (Bminus_correct prec emax Hp Hpe mode_NE x y Fx Fy) as M.
  assert (0 <= B2R x - B2R y <= bpow radix2 (k + 1)) as Q.
  { rewrite bpow_plus_1. simpl (IZR radix2). apply Rabs_le_inv in Hx. apply Rabs_le_inv in Hy. lra. }
  pose proof (rnd_range _ (k + 1)%Z ltac:(lia) Q) as RQ.
  rewrite Rlt_bool_true in M by (apply no_ovf with (t := (k + 1)%Z); [lia|exact Hke|rewrite Rabs_pos_eq; lra]).
  destruct M as (V & F & _). split; [exact F|rewrite V; exact RQ].
Qed.

(* x - y for 0 <= y <= x <= 2^t *)
Lemma minus_bf_le (x y : float) (t : Z) : (0 <= t)%Z -> (t < emax)%Z -> bf t x -> bf t y -> B2R y <= B2R x ->
  bf t (Bminus mode_NE x y).
Proof.
  intros Ht Hte [Fx Hx] [Fy Hy] Hle. pose proof (Bminus_correct prec emax Hp Hpe mode_NE x y Fx Fy) as M.
  assert (0 <= B2R x - B2R y <= bpow radix2 t) as Q by lra.
  pose proof (rnd_range _ t Ht Q) as RQ.
  rewrite Rlt_bool_true in M by (apply no_ovf with (t := t); [exact Ht|exact Hte|rewrite Rabs_pos_eq; lra]).
  destruct M as (V & F & _). split; [exact F|rewrite V; exact RQ].
Qed.

Lemma mult_bf (x y : float) (a b : Z) : (0 <= a)%Z -> (0 <= b)%Z -> (a + b < emax)%Z -> bf a x -> bf b y ->
  bf (a + b) (Bmult mode_NE x y).
Proof.
  intros Ha Hb Hab [Fx Hx] [Fy Hy]. pose proof (Bmult_correct prec emax Hp Hpe mode_NE x y) as M.
  assert (0 <= B2R x * B2R y <= bpow radix2 (a + b)) as Q.
  { rewrite bpow_plus. split; [apply Rmult_le_pos; lra|apply Rmult_le_compat; lra]. }
  pose proof (rnd_range _ (a + b)%Z ltac:(lia) Q) as RQ.
  rewrite Rlt_bool_true in M by (apply no_ovf with (t := (a + b)%Z); [lia|exact Hab|rewrite Rabs_pos_eq; lra]).
  destruct M as (V & F & _). split; [rewrite F, Fx, Fy; reflexivity|rewrite V; exact RQ].
Qed.

(* f * r for a draw f in [0,1]: stays below r *)
Lemma mult_unit_bf (f r : float) (t : Z) : (0 <= t)%Z -> (t < emax)%Z -> is_finite f = true -> 0 <= B2R f <= 1 -> bf t r ->
  bf t (Bmult mode_NE f r) /\ B2R (Bmult mode_NE f r) <= B2R r.
Proof.
  intros Ht Hte Ff Hf [Fr Hr]. pose proof (Bmult_correct prec emax Hp Hpe mode_NE f r) as M.
  assert (0 <= B2R f * B2R r <= B2R r) as Q by (split; [apply Rmult_le_pos; lra|nra]).
  assert (0 <= B2R f * B2R r <= bpow radix2 t) as Q' by lra.
  pose proof (rnd_range _ t Ht Q') as RQ.
  rewrite Rlt_bool_true in M by (apply no_ovf with (t := t); [exact Ht|exact Hte|rewrite Rabs_pos_eq; lra]).
  destruct M as (V & F & _). split; [split; [rewrite F, Ff, Fr; reflexivity|rewrite V; exact RQ]|].
  rewrite V. apply round_le_generic; [exact tfexp_valid|typeclasses eauto|apply generic_format_B2R|lra].
Qed.

Lemma sqrt_bf (p : float) (t : Z) : (0 <= t)%Z -> bf (t + t) p -> bf t (Bsqrt mode_NE p).
Proof.
  intros Ht [Fp Hp']. destruct (Bsqrt_correct prec emax Hp Hpe mode_NE p) as (V & F & _).
  assert (0 <= sqrt (B2R p) <= bpow radix2 t) as Q.
  { split; [apply sqrt_pos|]. rewrite <- (sqrt_Rsqr (bpow radix2 t)) by apply bpow_ge_0. apply sqrt_le_1_alt.
    unfold Rsqr. rewrite <- bpow_plus. lra. }
  split; [|rewrite V; apply rnd_range; assumption].
  rewrite F. destruct p as [s|s| |s m e He]; try discriminate; [reflexivity|].
  destruct s; [|reflexivity]. exfalso. destruct Hp' as [H0 _]. revert H0. unfold B2R, F2R, Defs.Fnum, Defs.Fexp, cond_Zopp.
  intros H0. pose proof (bpow_gt_0 radix2 e) as E. assert (IZR (- Z.pos m) < 0) as N by (apply IZR_lt; lia). nra.
Qed.

Section Sample.
Variables (mn md mx f : float) (k : Z).
Hypothesis Hk : (0 <= k)%Z.
Hypothesis Hke : (2 * k + 3 <= emax)%Z.
Hypotheses (Fmn : is_finite mn = true) (Fmd : is_finite md = true) (Fmx : is_finite mx = true) (Ff : is_finite f = true).
Hypothesis Hord : B2R mn <= B2R md <= B2R mx.
Hypotheses (Bmn : Rabs (B2R mn) <= bpow radix2 k) (Bmx : Rabs (B2R mx) <= bpow radix2 k).
Hypothesis Hf : 0 <= B2R f <= 1.

Lemma Bmd : Rabs (B2R md) <= bpow radix2 k.
Proof. apply Rabs_le. apply Rabs_le_inv in Bmn. apply Rabs_le_inv in Bmx. lra. Qed.

Theorem triangular_fl_finite :
  is_finite (triangular_fl mn md mx f) = true /\
  Rabs (B2R (triangular_fl mn md mx f)) <= bpow radix2 (k + 2) /\
  (Bltb (Bmult mode_NE f (Bminus mode_NE mx mn)) (Bminus mode_NE md mn) = true -> B2R mn <= B2R (triangular_fl mn md mx f)) /\
  (Bltb (Bmult mode_NE f (Bminus mode_NE mx mn)) (Bminus mode_NE md mn) = false -> B2R (triangular_fl mn md mx f) <= B2R mx).
Proof.
  pose proof Bmd as Bmd'.
  assert (k + 1 < emax)%Z as K1 by lia.
  pose proof (minus_bf md mn k Hk K1 Fmd Fmn Bmd' Bmn (proj1 Hord)) as Ddmm.
  pose proof (minus_bf mx mn k Hk K1 Fmx Fmn Bmx Bmn ltac:(lra)) as Drange.
  pose proof (minus_bf mx md k Hk K1 Fmx Fmd Bmx Bmd' (proj2 Hord)) as Dmm.
  destruct (mult_unit_bf f _ (k + 1)%Z ltac:(lia) K1 Ff Hf Drange) as [Dfr Lfr].
  unfold triangular_fl.
  set (dmm := Bminus mode_NE md mn) in * . set (range := Bminus mode_NE mx mn) in * . set (fr := Bmult mode_NE f range) in * .
  assert (k + 2 < emax)%Z as K2 by lia.
  assert (bpow radix2 k <= bpow radix2 (k + 2) /\ bpow radix2 (k + 1) <= bpow radix2 (k + 2)
          /\ bpow radix2 k + bpow radix2 (k + 1) <= bpow radix2 (k + 2)) as (P0 & P1 & P2).
  { rewrite !bpow_plus. change (bpow radix2 1) with 2. change (bpow radix2 2) with 4. pose proof (bpow_gt_0 radix2 k). repeat split; lra. }
  destruct (Bltb fr dmm) eqn:Br.
  - (* first branch *)
    pose proof (mult_bf fr dmm (k + 1) (k + 1) ltac:(lia) ltac:(lia) ltac:(lia) Dfr Ddmm) as Dp.
    pose proof (sqrt_bf _ (k + 1)%Z ltac:(lia) Dp) as [Fs Hs].
    set (s := Bsqrt mode_NE (Bmult mode_NE fr dmm)) in * .
    pose proof (Bplus_correct prec emax Hp Hpe mode_NE mn s Fmn Fs) as M.
    apply Rabs_le_inv in Bmn.
    assert (Rabs (B2R mn + B2R s) <= bpow radix2 (k + 2)) as Q by (apply Rabs_le; lra).
    rewrite Rlt_bool_true in M by (apply no_ovf with (t := (k + 2)%Z); [lia|exact K2|exact Q]).
    destruct M as (V & F & _). split; [exact F|]. split; [rewrite V; apply rnd_abs_le; [lia|exact Q]|].
    split; [intros _|discriminate].
    rewrite V. apply round_ge_generic; [exact tfexp_valid|typeclasses eauto|apply generic_format_B2R|lra].
  - (* second branch *)
    pose proof (minus_bf_le range fr (k + 1)%Z ltac:(lia) K1 Drange Dfr Lfr) as Dd1.
    pose proof (mult_bf _ _ (k + 1) (k + 1) ltac:(lia) ltac:(lia) ltac:(lia) Dd1 Dmm) as Dp.
    pose proof (sqrt_bf _ (k + 1)%Z ltac:(lia) Dp) as [Fs Hs].
    set (s := Bsqrt mode_NE (Bmult mode_NE (Bminus mode_NE range fr) (Bminus mode_NE mx md))) in * .
    pose proof (Bminus_correct prec emax Hp Hpe mode_NE mx s Fmx Fs) as M.
    apply Rabs_le_inv in Bmx.
    assert (Rabs (B2R mx - B2R s) <= bpow radix2 (k + 2)) as Q by (apply Rabs_le; lra).
    rewrite Rlt_bool_true in M by (apply no_ovf with (t := (k + 2)%Z); [lia|exact K2|exact Q]).
    destruct M as (V & F & _). split; [exact F|]. split; [rewrite V; apply rnd_abs_le; [lia|exact Q]|].
    split; [discriminate|intros _].
    rewrite V. apply round_le_generic; [exact tfexp_valid|typeclasses eauto|apply generic_format_B2R|lra].
Qed.
End Sample.
End Fmt.
