(* Proofs/LoopBoundsFloat.v — property C05 for the only parameter-dependent loop that runs in a
   constructor: Geometric::new (geometric.rs:84-94)

       let mut k = 1;  pi = pi * pi;  while pi > 0.5 { k += 1; pi = pi * pi; }

   on IEEE binary64 (Flocq BinarySingleNaN, round to nearest even), started from pi0 = fl(1 - p)
   with 0 <= pi0 < 1.  Results:
   - squaring a float of (1/2, 1) strictly decreases it (by at least one ulp) and stays >= 1/4;
   - the loop terminates with k <= 53 (tight: pi0 = 1 - 2^-53 needs k = 53), so the model's fuel 64
     and the `1 << k` of the sampler (k < 64) are safe;
   - exact arithmetic: x^(2^j) <= 1/2 for real 0 <= x <= 1 - 2^-j.

   The bound on k: every float of [1/2, 1] is m * 2^-53 with an integer 2^52 <= m <= 2^53.  If
   x <= M * 2^-53 then fl(x*x) <= H(M) * 2^-53 with H(M) = max(floor((M^2 + 2^52) / 2^53), 2^52)
   (the least mantissa m' whose upper midpoint (2m'+1) * 2^-54 exceeds M^2 * 2^-106).  Iterating H
   from 2^53 - 1 reaches 2^52 (the value 1/2) after 53 steps: a computation in Z.              *)
From Coq Require Import Reals ZArith Lra Lia Bool.
From Flocq Require Import Core.Core IEEE754.BinarySingleNaN.
Open Scope R_scope.

Definition Hp53 : Prec_gt_0 53 := eq_refl.
Definition Hpe53 : Prec_lt_emax 53 1024 := eq_refl.
#[local] Existing Instance Hp53.
#[local] Existing Instance Hpe53.

Notation fexp64 := (FLT_exp (3 - 1024 - 53) 53).
Notation float64 := (binary_float 53 1024).
Notation Fmt64 := (generic_format radix2 fexp64).
Definition rnd64 (x : R) : R := round radix2 fexp64 ZnearestE x.
Definition B53 : R := bpow radix2 (-53).
(* the float m * 2^-53 *)
Definition X (m : Z) : R := IZR m * B53.

Lemma B53_pos : 0 < B53. Proof. apply bpow_gt_0. Qed.
Lemma B53_scale : IZR (2 ^ 52) * B53 = / 2.
Proof.
  unfold B53. change (2 ^ 52)%Z with (Zpower radix2 52). rewrite IZR_Zpower by lia.
  rewrite <- bpow_plus. reflexivity.
Qed.
Lemma B53_one : IZR (2 ^ 53) * B53 = 1.
Proof.
  unfold B53. change (2 ^ 53)%Z with (Zpower radix2 53). rewrite IZR_Zpower by lia.
  rewrite <- bpow_plus. reflexivity.
Qed.
Lemma X_half : X (2 ^ 52) = / 2. Proof. apply B53_scale. Qed.
Lemma X_le a b : (a <= b)%Z -> X a <= X b.
Proof. intros H. unfold X. apply Rmult_le_compat_r; [apply Rlt_le, B53_pos|now apply IZR_le]. Qed.

Lemma fexp64_valid : Valid_exp fexp64. Proof. apply FLT_exp_valid. exact Hp53. Qed.
Lemma NE_valid : Valid_rnd ZnearestE. Proof. apply valid_rnd_N. Qed.
#[local] Existing Instance fexp64_valid.
Ltac tc := try exact fexp64_valid; try exact NE_valid.

Lemma fexp64_0 : fexp64 0 = (-53)%Z. Proof. reflexivity. Qed.

Lemma mag_half_one x : / 2 <= x < 1 -> mag radix2 x = 0%Z :> Z.
Proof.
  intros H. apply mag_unique. rewrite Rabs_pos_eq by lra.
  change (bpow radix2 (0 - 1)) with (/ 2). change (bpow radix2 0) with 1. exact H.
Qed.
Lemma ulp_half_one x : / 2 <= x < 1 -> ulp radix2 fexp64 x = B53.
Proof.
  intros H. rewrite ulp_neq_0 by lra. unfold cexp. rewrite (mag_half_one x H). reflexivity.
Qed.

Lemma X_format m : (0 <= m < 2 ^ 53)%Z -> Fmt64 (X m).
Proof.
  intros H. apply generic_format_FLT. apply (FLT_spec _ _ _ _ (Float radix2 m (-53))).
  - reflexivity.
  - cbn [Fnum]. change (Zpower radix2 53) with (2 ^ 53)%Z. lia.
  - cbn [Fexp]. lia.
Qed.
Lemma one_format : Fmt64 1.
Proof. change 1 with (bpow radix2 0). apply generic_format_FLT_bpow; [exact Hp53|lia]. Qed.
Lemma half_format : Fmt64 (/ 2).
Proof. change (/ 2) with (bpow radix2 (-1)). apply generic_format_FLT_bpow; [exact Hp53|lia]. Qed.
Lemma quarter_format : Fmt64 (/ 4).
Proof.
  change (/ 4) with (bpow radix2 (-2)). apply generic_format_FLT_bpow; [exact Hp53|lia].
Qed.

(* a float below 1 is at most 1 - 2^-53 *)
Lemma below_one x : Fmt64 x -> x < 1 -> x <= X (2 ^ 53 - 1).
Proof.
  intros Fx H. pose proof (pred_ge_gt radix2 fexp64 x 1 Fx one_format H) as P.
  change 1 with (bpow radix2 0) in P at 1. rewrite pred_bpow in P.
  unfold X. rewrite minus_IZR, Rmult_minus_distr_r, B53_one.
  change (bpow radix2 0) with 1 in P. change (bpow radix2 (fexp64 0)) with B53 in P. lra.
Qed.

(* ---- one squaring: mantissa bound ------------------------------------------------------------------ *)
Lemma sq_step m m' : (0 <= m)%Z -> (2 ^ 52 <= m' < 2 ^ 53)%Z -> (m * m < (2 * m' + 1) * 2 ^ 52)%Z ->
  rnd64 (X m * X m) <= X m'.
Proof.
  intros Hm Hm' H. unfold rnd64. apply round_N_le_midp; tc; [apply X_format; lia|].
  assert (/ 2 <= X m' < 1) as R.
  { unfold X. rewrite <- B53_scale, <- B53_one. pose proof B53_pos.
    split; [apply Rmult_le_compat_r; [lra|apply IZR_le; lia]|apply Rmult_lt_compat_r; [lra|apply IZR_lt; lia]]. }
  rewrite succ_eq_pos by lra. rewrite (ulp_half_one _ R).
  apply IZR_lt in H. rewrite !mult_IZR, plus_IZR, mult_IZR in H.
  pose proof B53_pos as P. pose proof B53_scale as S. unfold X.
  set (a := IZR m) in *. set (b := IZR m') in *. set (T := IZR (2 ^ 52)) in *.
  assert (a * a * B53 < (2 * b + 1) / 2) as K.
  { replace ((2 * b + 1) / 2) with ((2 * b + 1) * T * B53) by (rewrite Rmult_assoc, S; field).
    apply Rmult_lt_compat_r; [exact P|]. exact H. }
  replace (a * B53 * (a * B53)) with (a * a * B53 * B53) by ring.
  replace ((b * B53 + (b * B53 + B53)) / 2) with ((2 * b + 1) / 2 * B53) by field.
  apply Rmult_lt_compat_r; assumption.
Qed.

Definition Hstep (M : Z) : Z := Z.max ((M * M + 2 ^ 52) / 2 ^ 53) (2 ^ 52).

Lemma Hstep_range M : (2 ^ 52 <= M < 2 ^ 53)%Z ->
  (2 ^ 52 <= Hstep M < 2 ^ 53)%Z /\ (M * M < (2 * Hstep M + 1) * 2 ^ 52)%Z.
Proof.
  intros H. unfold Hstep. set (q := ((M * M + 2 ^ 52) / 2 ^ 53)%Z).
  pose proof (Z.div_mod (M * M + 2 ^ 52) (2 ^ 53) ltac:(lia)) as D. fold q in D.
  pose proof (Z.mod_pos_bound (M * M + 2 ^ 52) (2 ^ 53) ltac:(lia)) as B.
  assert (M * M <= (2 ^ 53 - 1) * (2 ^ 53 - 1))%Z as U by (apply Z.mul_le_mono_nonneg; lia).
  assert (q < 2 ^ 53)%Z.
  { destruct (Z.lt_ge_cases q (2 ^ 53)) as [L|L]; [exact L|exfalso].
    assert (2 ^ 53 * 2 ^ 53 <= 2 ^ 53 * q)%Z by (apply Z.mul_le_mono_nonneg_l; lia). lia. }
  split; [lia|]. lia.
Qed.

Lemma sq_bound x M : (2 ^ 52 <= M < 2 ^ 53)%Z -> 0 <= x <= X M -> rnd64 (x * x) <= X (Hstep M).
Proof.
  intros HM Hx. destruct (Hstep_range M HM) as [R1 R2].
  apply Rle_trans with (rnd64 (X M * X M)).
  - unfold rnd64. apply round_le; tc.
    apply Rmult_le_compat; lra.
  - apply sq_step; [lia|exact R1|exact R2].
Qed.

Fixpoint Mseq (j : nat) : Z := match j with O => (2 ^ 53 - 1)%Z | S i => Hstep (Mseq i) end.
Lemma Mseq_range j : (2 ^ 52 <= Mseq j < 2 ^ 53)%Z.
Proof. induction j as [|j IH]; [cbn; lia|]. cbn [Mseq]. apply Hstep_range, IH. Qed.
Lemma Mseq_53 : Mseq 53 = (2 ^ 52)%Z.
Proof. vm_compute. reflexivity. Qed.

(* ---- one squaring: strict decrease and lower bound ---------------------------------------------- *)
Lemma rnd64_ge_quarter x : / 2 <= x -> / 4 <= rnd64 (x * x).
Proof.
  intros H. unfold rnd64. apply round_ge_generic; tc; [apply quarter_format|].
  nra.
Qed.
Lemma rnd64_sq_nonneg x : 0 <= rnd64 (x * x).
Proof.
  unfold rnd64. apply round_ge_generic; tc; [apply generic_format_0|]. nra.
Qed.
Lemma rnd64_sq_le_quarter x : 0 <= x <= / 2 -> rnd64 (x * x) <= / 4.
Proof.
  intros H. unfold rnd64. apply round_le_generic; tc; [apply quarter_format|].
  nra.
Qed.

Lemma pred_half_one x : Fmt64 x -> / 2 < x < 1 -> pred radix2 fexp64 x = x - B53.
Proof.
  intros Fx H. rewrite pred_eq_pos by lra. unfold pred_pos.
  rewrite (mag_half_one x) by lra. rewrite Req_bool_false.
  - rewrite ulp_half_one by lra. reflexivity.
  - change (bpow radix2 (0 - 1)) with (/ 2). lra.
Qed.

(* squaring a float of (1/2, 1) loses at least one ulp *)
Theorem sq_decreases x : Fmt64 x -> / 2 < x < 1 -> / 4 <= rnd64 (x * x) <= x - B53.
Proof.
  intros Fx H. split; [apply rnd64_ge_quarter; lra|].
  rewrite <- (pred_half_one x Fx H). unfold rnd64.
  apply round_N_le_midp; tc; [apply generic_format_pred; tc; exact Fx|].
  rewrite succ_pred by (first [exact fexp64_valid|exact Fx]). rewrite (pred_half_one x Fx H).
  pose proof (below_one x Fx ltac:(lra)) as U. unfold X in U.
  rewrite minus_IZR, Rmult_minus_distr_r, B53_one, Rmult_1_l in U.
  pose proof B53_pos. nra.
Qed.

(* ---- the loop on binary64 ------------------------------------------------------------------------------ *)
Definition half64 : float64 := @B754_finite 53 1024 false 4503599627370496 (-53) eq_refl.
Lemma half64_val : B2R half64 = / 2.
Proof. change (B2R half64) with (X (2 ^ 52)). apply X_half. Qed.

Definition fsq (x : float64) : float64 := Bmult mode_NE x x.

Fixpoint geo_new_loopB (fuel : nat) (pi : float64) (k : Z) : option (float64 * Z) :=
  match fuel with
  | O => None
  | S f => if Bltb half64 pi then geo_new_loopB f (fsq pi) (k + 1) else Some (pi, k)
  end.
(* Geometric::new, the `else` branch, from pi0 = 1.0 - p; fuel 64 as in Model/Discrete.v *)
Definition geo_newB (pi0 : float64) : option (float64 * Z) := geo_new_loopB 64 (fsq pi0) 1.

Lemma fsq_correct x : is_finite x = true -> Rabs (B2R x) <= 1 ->
  B2R (fsq x) = rnd64 (B2R x * B2R x) /\ is_finite (fsq x) = true.
Proof.
  intros Fx Hx. unfold fsq. generalize (Bmult_correct 53 1024 Hp53 Hpe53 mode_NE x x).
  change (round radix2 (SpecFloat.fexp 53 1024) (round_mode mode_NE) (B2R x * B2R x)) with (rnd64 (B2R x * B2R x)).
  rewrite Rlt_bool_true.
  - intros (A & B & _). rewrite Fx in B. split; assumption.
  - assert (0 <= B2R x * B2R x <= 1) as S.
    { split; [nra|]. rewrite <- (Rabs_pos_eq (B2R x * B2R x)) by nra. rewrite Rabs_mult.
      pose proof (Rabs_pos (B2R x)). nra. }
    pose proof (rnd64_sq_nonneg (B2R x)) as N. rewrite Rabs_pos_eq by exact N.
    apply Rle_lt_trans with 1.
    + unfold rnd64. apply round_le_generic; tc; [apply one_format|lra].
    + change 1 with (bpow radix2 0). apply bpow_lt. lia.
Qed.

(* strict decrease on binary64 values *)
Theorem fsq_decreases x : is_finite x = true -> / 2 < B2R x < 1 ->
  is_finite (fsq x) = true /\ / 4 <= B2R (fsq x) <= B2R x - B53 /\ B2R (fsq x) < B2R x.
Proof.
  intros Fx H. destruct (fsq_correct x Fx) as [V Fi]; [rewrite Rabs_pos_eq; lra|].
  split; [exact Fi|]. rewrite V.
  pose proof (sq_decreases (B2R x) (generic_format_B2R 53 1024 x) H) as D. pose proof B53_pos.
  split; [exact D|lra].
Qed.

Lemma geo_new_loopB_spec fuel : forall (j : nat) pi k,
  is_finite pi = true -> 0 <= B2R pi <= X (Mseq j) -> (j <= 53)%nat -> (53 < j + fuel)%nat ->
  exists pi' k', geo_new_loopB fuel pi k = Some (pi', k') /\ (k <= k' <= k + (53 - Z.of_nat j))%Z /\
                 is_finite pi' = true /\ 0 <= B2R pi' <= / 2 /\ (/ 4 <= B2R pi -> / 4 <= B2R pi').
Proof.
  induction fuel as [|f IH]; intros j pi k Fi Hpi Hj Hf; [lia|].
  cbn [geo_new_loopB]. rewrite Bltb_correct by (reflexivity || exact Fi). rewrite half64_val.
  destruct (Rlt_bool_spec (/ 2) (B2R pi)) as [L|L].
  - assert (j < 53)%nat as Hj'.
    { destruct (Nat.eq_dec j 53) as [E|E]; [|lia]. subst j. rewrite Mseq_53, X_half in Hpi. lra. }
    pose proof (Mseq_range j) as MR.
    assert (X (Mseq j) < 1) as X1.
    { unfold X. rewrite <- B53_one. apply Rmult_lt_compat_r; [apply B53_pos|apply IZR_lt; lia]. }
    destruct (fsq_correct pi Fi) as [V Fi2]; [rewrite Rabs_pos_eq; lra|].
    destruct (IH (S j) (fsq pi) (k + 1)%Z Fi2) as (pi' & k' & E & K & F' & B' & Q'); [| lia | lia |].
    + rewrite V. split; [apply rnd64_sq_nonneg|]. cbn [Mseq]. apply sq_bound; [exact MR|exact Hpi].
    + exists pi', k'. split; [exact E|]. split; [lia|]. split; [exact F'|]. split; [exact B'|].
      intros _. apply Q'. rewrite V. apply rnd64_ge_quarter. lra.
  - exists pi, k. split; [reflexivity|]. split; [lia|]. split; [exact Fi|]. split; [lra|auto].
Qed.

(* Geometric::new terminates with k <= 53 for every pi0 = fl(1 - p) in [0, 1) *)
Theorem geometric_new_terminates (pi0 : float64) : is_finite pi0 = true -> 0 <= B2R pi0 < 1 ->
  exists pi k, geo_newB pi0 = Some (pi, k) /\ (1 <= k <= 53)%Z /\ is_finite pi = true /\
               0 <= B2R pi <= / 2 /\ (/ 2 <= B2R pi0 -> / 4 <= B2R pi).
Proof.
  intros Fi H. unfold geo_newB.
  destruct (fsq_correct pi0 Fi) as [V Fi1]; [rewrite Rabs_pos_eq; lra|].
  pose proof (below_one _ (generic_format_B2R 53 1024 pi0) (proj2 H)) as U.
  destruct (geo_new_loopB_spec 64 1 (fsq pi0) 1%Z Fi1) as (pi & k & E & K & F' & B' & Q'); [|lia|lia|].
  - rewrite V. split; [apply rnd64_sq_nonneg|]. change (Mseq 1) with (Hstep (Mseq 0)).
    apply sq_bound; [apply Mseq_range|]. split; [lra|exact U].
  - exists pi, k. split; [exact E|]. split; [lia|]. split; [exact F'|]. split; [exact B'|].
    intros G. apply Q'. rewrite V. apply rnd64_ge_quarter, G.
Qed.

(* for pi0 <= 1/2 (p >= 1/2; the code takes this branch for p < 2/3) the loop body never runs *)
Theorem geometric_new_small (pi0 : float64) : is_finite pi0 = true -> 0 <= B2R pi0 <= / 2 ->
  geo_newB pi0 = Some (fsq pi0, 1%Z).
Proof.
  intros Fi H. unfold geo_newB. destruct (fsq_correct pi0 Fi) as [V Fi1]; [rewrite Rabs_pos_eq; lra|].
  change (geo_new_loopB 64 (fsq pi0) 1) with
    (if Bltb half64 (fsq pi0) then geo_new_loopB 63 (fsq (fsq pi0)) (1 + 1) else Some (fsq pi0, 1%Z)).
  rewrite Bltb_correct by (reflexivity || exact Fi1). rewrite half64_val, V.
  rewrite Rlt_bool_false; [reflexivity|]. pose proof (rnd64_sq_le_quarter _ H). lra.
Qed.

(* ---- exact arithmetic ----------------------------------------------------------------------------------- *)
Lemma bernoulli a n : 0 <= a -> 1 + INR n * a <= (1 + a) ^ n.
Proof.
  intros H. induction n as [|n IH]; [cbn; lra|].
  rewrite S_INR. cbn [pow]. pose proof (pos_INR n). nra.
Qed.
Lemma pow_le1 y n : 0 <= y <= 1 -> 0 <= y ^ n <= 1.
Proof. intros H. induction n as [|n IH]; cbn [pow]; [lra|nra]. Qed.
(* (1 - a)^n <= 1 / (1 + n a) *)
Lemma pow_one_minus a n : 0 <= a <= 1 -> (1 - a) ^ n * (1 + INR n * a) <= 1.
Proof.
  intros H. apply Rle_trans with ((1 - a) ^ n * (1 + a) ^ n).
  - apply Rmult_le_compat_l; [apply pow_le; lra|apply bernoulli; lra].
  - rewrite <- Rpow_mult_distr. replace ((1 - a) * (1 + a)) with (1 - a * a) by ring.
    apply pow_le1. nra.
Qed.
(* for real 0 <= x <= 1 - 2^-j : x^(2^j) <= 1/2 *)
Theorem exact_squarings_bound x (j : nat) : 0 <= x <= 1 - / 2 ^ j -> x ^ (2 ^ j) <= / 2.
Proof.
  intros H. assert (0 < 2 ^ j) as P by (apply pow_lt; lra).
  assert (0 < / 2 ^ j <= 1) as A.
  { split; [now apply Rinv_0_lt_compat|]. rewrite <- Rinv_1. apply Rinv_le_contravar; [lra|].
    apply pow_R1_Rle. lra. }
  apply Rle_trans with ((1 - / 2 ^ j) ^ (2 ^ j)); [apply pow_incr; lra|].
  pose proof (pow_one_minus (/ 2 ^ j) (2 ^ j) ltac:(lra)) as B.
  rewrite pow_INR in B. change (INR 2) with 2 in B. rewrite Rinv_r in B by lra.
  assert (0 <= (1 - / 2 ^ j) ^ 2 ^ j) by (apply pow_le; lra). lra.
Qed.
(* j squarings of x give x^(2^j) *)
Lemma iter_sq_pow x (j : nat) : Nat.iter j (fun y => y * y) x = x ^ (2 ^ j).
Proof.
  induction j as [|j IH]; [cbn; ring|].
  change (Nat.iter (S j) (fun y => y * y) x) with (Nat.iter j (fun y => y * y) x * Nat.iter j (fun y => y * y) x).
  rewrite IH, <- pow_add. f_equal. cbn. lia.
Qed.
