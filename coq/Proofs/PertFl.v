(* Proofs/PertFl.v — property C03 at the IEEE level for the last step of Pert::sample (pert.rs:166: beta * range + min) with the
   pre-computed range = max - min of the constructor (pert.rs:152).  For finite min < max of magnitude <= 2^k (k + 2 < emax) and every
   finite Beta draw b in [0, 1] (C03_beta_final_in_unit): the result is a finite float, >= min EXACTLY, and
       <= fl(min + fl(max - min)) <= max + (u + u^2) (max - min) + u |max|      ("inside [min, max] up to 4 ulp of the larger bound"). *)
From Coq Require Import ZArith Bool Reals Lra Lia.
From Flocq Require Import Core.Core IEEE754.BinarySingleNaN.
From RD Require Import Proofs.AffineFl Proofs.TriangularFl.
Open Scope R_scope.

Section Fmt.
Variable prec emax : Z.
Context (Hp : Prec_gt_0 prec) (Hpe : Prec_lt_emax prec emax).
Notation float := (binary_float prec emax).
Notation fexp := (SpecFloat.fexp prec emax).
Notation rnd := (round radix2 fexp (round_mode mode_NE)).
Notation u := (AffineFl.u prec).
Notation bf := (bf prec emax).

Local Instance pfexp_valid : Valid_exp fexp := fexp_correct prec emax Hp.

Definition pert_range_fl (mx mn : float) : float := Bminus mode_NE mx mn.
Definition pert_sample_fl (b range mn : float) : float := Bplus mode_NE (Bmult mode_NE b range) mn.

Section Sample.
Variables (mn mx b : float) (k : Z).
Hypothesis Hk : (0 <= k)%Z.
Hypothesis Hke : (k + 2 < emax)%Z.
Hypotheses (Fmn : is_finite mn = true) (Fmx : is_finite mx = true) (Fb : is_finite b = true).
Hypothesis Hord : B2R mn <= B2R mx.
Hypotheses (Bmn : Rabs (B2R mn) <= bpow radix2 k) (Bmx : Rabs (B2R mx) <= bpow radix2 k).
Hypothesis Hb : 0 <= B2R b <= 1.

Theorem pert_fl_support :
  let r := pert_range_fl mx mn in
  is_finite (pert_sample_fl b r mn) = true /\
  B2R mn <= B2R (pert_sample_fl b r mn) <= rnd (B2R r + B2R mn) /\
  rnd (B2R r + B2R mn) <= B2R mx + (u + u * u) * (B2R mx - B2R mn) + u * Rabs (B2R mx).
Proof.
  intros r. assert (k + 1 < emax)%Z as K1 by lia.
  pose proof (minus_bf prec emax Hp Hpe mx mn k Hk K1 Fmx Fmn Bmx Bmn Hord) as Dr. fold (pert_range_fl mx mn) in Dr. fold r in Dr.
  assert (0 <= k + 1)%Z as K0 by lia.
  destruct (mult_unit_bf prec emax Hp Hpe b r (k + 1)%Z K0 K1 Fb Hb Dr) as [[Ft Ht] Lt].
  unfold pert_sample_fl. set (t := Bmult mode_NE b r) in * .
  pose proof (Bplus_correct prec emax Hp Hpe mode_NE t mn Ft Fmn) as M.
  assert (bpow radix2 k + bpow radix2 (k + 1) <= bpow radix2 (k + 2)) as P2.
  { rewrite !bpow_plus. change (bpow radix2 1) with 2. change (bpow radix2 2) with 4. pose proof (bpow_gt_0 radix2 k). lra. }
  pose proof Bmn as Bmn'. apply Rabs_le_inv in Bmn'. pose proof (bpow_ge_0 radix2 k) as G0. pose proof (bpow_ge_0 radix2 (k + 1)) as G1.
  assert (Rabs (B2R t + B2R mn) <= bpow radix2 (k + 2)) as Q by (apply Rabs_le; lra).
  assert (0 <= k + 2)%Z as K2a by lia.
  rewrite Rlt_bool_true in M by exact (no_ovf prec emax Hp Hpe _ (k + 2)%Z K2a Hke Q).
  destruct M as (V & F & _). split; [exact F|]. rewrite V. split; [split|].
  - apply round_ge_generic; [exact pfexp_valid|typeclasses eauto|apply generic_format_B2R|lra].
  - apply round_le; [exact pfexp_valid|typeclasses eauto|lra].
  - (* real analysis: two additions of floats, relative error u each *)
    assert (B2R r = rnd (B2R mx - B2R mn)) as Er.
    { unfold r, pert_range_fl. pose proof (Bminus_correct prec emax Hp Hpe mode_NE mx mn Fmx Fmn) as M2.
      destruct Dr as [_ Dr]. 
      assert (Rabs (B2R mx - B2R mn) <= bpow radix2 (k + 1)) as Q2.
      { rewrite bpow_plus_1. simpl (IZR radix2). apply Rabs_le. apply Rabs_le_inv in Bmx. lra. }
      rewrite Rlt_bool_true in M2 by exact (no_ovf prec emax Hp Hpe _ (k + 1)%Z K0 K1 Q2).
      destruct M2 as (V2 & _). exact V2. }
    pose proof (u_pos prec) as U0.
    pose proof (rnd_plus_error prec emax Hp (B2R mx) (- B2R mn) (generic_format_B2R prec emax mx)
                  (generic_format_opp _ _ _ (generic_format_B2R prec emax mn))) as E1.
    change (AffineFl.rnd prec emax (B2R mx + - B2R mn)) with (rnd (B2R mx + - B2R mn)) in E1.
    replace (B2R mx + - B2R mn) with (B2R mx - B2R mn) in E1 by ring. rewrite <- Er in E1.
    assert (generic_format radix2 (AffineFl.afexp prec emax) (B2R r)) as Gr by apply (generic_format_B2R prec emax r).
    pose proof (rnd_plus_error prec emax Hp (B2R r) (B2R mn) Gr (generic_format_B2R prec emax mn)) as E2.
    change (AffineFl.rnd prec emax (B2R r + B2R mn)) with (rnd (B2R r + B2R mn)) in E2.
    rewrite (Rabs_pos_eq (B2R mx - B2R mn)) in E1 by lra.
    apply Rabs_le_inv in E1. apply Rabs_le_inv in E2.
    set (d := B2R mx - B2R mn) in * . assert (0 <= d) as D0 by (unfold d; lra).
    assert (Rabs (B2R r + B2R mn) <= Rabs (B2R mx) + u * d) as A.
    { replace (B2R r + B2R mn) with (B2R mx + (B2R r - d)) by (unfold d; ring).
      eapply Rle_trans; [apply Rabs_triang|]. apply Rplus_le_compat_l. apply Rabs_le. lra. }
    assert (u * Rabs (B2R r + B2R mn) <= u * (Rabs (B2R mx) + u * d)) as A' by (apply Rmult_le_compat_l; lra).
    assert (d = B2R mx - B2R mn) as Dd by reflexivity.
    lra.
Qed.
End Sample.
End Fmt.
