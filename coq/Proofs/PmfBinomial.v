(* Proofs/PmfBinomial.v — mathematical identities behind Binomial's BINV sampler
   (binomial.rs:131-133 flip, :150-163 set-up, :184-208 loop).  Pure real/integer facts.

   Code (binomial.rs):
       let flipped = p > 0.5;  let p = if flipped { 1.0 - p } else { p };           (131-133)
       let q = 1.0 - p; let s = p / q;
       Binv { r: q.powf(n), s, a: (n + 1) * s, n }                                  (150-163)
       let mut r = binv.r; let mut u = rng.random(); let mut x = 0;                 (192-194)
       while u > r { u -= r; x += 1; if x > BINV_MAX_X { continue 'outer; }
                     r *= binv.a / (x as f64) - binv.s; }                           (196-203)
       break x;
       if flipped { binv.n - sample } else { sample }                               (207)      *)
From Coq Require Import Reals Lra Lia Arith List.
Open Scope R_scope.

(* ---------------------------------------------------------------- binomial coefficient step *)

Lemma C_step : forall n x, (x < n)%nat ->
  C n (S x) * INR (S x) = C n x * INR (n - x).
Proof.
  intros n x Hx. unfold C.
  replace (n - x)%nat with (S (n - S x)) by lia.
  rewrite !fact_simpl, !mult_INR.
  assert (H1 := INR_fact_neq_0 x). assert (H2 := INR_fact_neq_0 (n - S x)).
  assert (H3 : INR (S x) <> 0) by (apply not_0_INR; lia).
  assert (H4 : INR (S (n - S x)) <> 0) by (apply not_0_INR; lia).
  field. repeat split; assumption.
Qed.

Lemma C_pos : forall n x, (x <= n)%nat -> 0 < C n x.
Proof.
  intros n x _. unfold C. apply Rdiv_lt_0_compat.
  - apply INR_fact_lt_0.
  - apply Rmult_lt_0_compat; apply INR_fact_lt_0.
Qed.

(* ---------------------------------------------------------------- the BINV recurrence *)

(* the value of the variable [r] when the loop counter is x *)
Fixpoint binv_r (n : nat) (p : R) (x : nat) : R :=
  let q := 1 - p in
  let s := p / q in
  let a := (INR n + 1) * s in
  match x with
  | O => q ^ n
  | S x' => binv_r n p x' * (a / INR (S x') - s)
  end.

Definition binom_pmf (n : nat) (p : R) (x : nat) : R := C n x * p ^ x * (1 - p) ^ (n - x).

Theorem binv_recurrence : forall (n : nat) (p : R), 0 < p < 1 ->
  forall x, (x <= n)%nat -> binv_r n p x = C n x * p ^ x * (1 - p) ^ (n - x).
Proof.
  intros n p Hp x. induction x as [|x IH]; intros Hx.
  - simpl. rewrite Nat.sub_0_r. unfold C. rewrite Nat.sub_0_r. simpl fact. simpl INR.
    assert (H := INR_fact_neq_0 n). field. exact H.
  - cbn [binv_r]. rewrite IH by lia.
    assert (Hs := C_step n x ltac:(lia)).
    assert (H3 : INR (S x) <> 0) by (apply not_0_INR; lia).
    assert (Hq : 1 - p <> 0) by lra.
    replace (n - x)%nat with (S (n - S x)) by lia.
    assert (Hn : INR (S (n - S x)) = INR n - INR x).
    { replace (S (n - S x)) with (n - x)%nat by lia. rewrite minus_INR by lia. reflexivity. }
    replace (n - x)%nat with (S (n - S x)) in Hs by lia. rewrite Hn in Hs.
    rewrite S_INR in *.
    assert (HC : C n (S x) = C n x * (INR n - INR x) / (INR x + 1)).
    { rewrite <- Hs. field. exact H3. }
    rewrite HC. simpl pow. field. split; assumption.
Qed.

(* beyond the support the recurrence produces exactly 0: the factor a/(n+1) - s vanishes *)
Theorem binv_recurrence_tail : forall (n : nat) (p : R), 0 < p < 1 ->
  forall x, (n < x)%nat -> binv_r n p x = 0.
Proof.
  intros n p Hp x Hx. induction x as [|x IH]; [lia|].
  cbn [binv_r]. destruct (Nat.eq_dec x n) as [->|Hne].
  - rewrite S_INR. assert (0 <= INR n) by apply pos_INR.
    assert (Hz : (INR n + 1) * (p / (1 - p)) / (INR n + 1) - p / (1 - p) = 0) by (field; lra).
    rewrite Hz. ring.
  - rewrite IH by lia. ring.
Qed.

(* the pmf values add up to one (binomial theorem) *)
Theorem binom_pmf_total : forall (n : nat) (p : R),
  sum_f_R0 (fun x => C n x * p ^ x * (1 - p) ^ (n - x)) n = 1.
Proof.
  intros n p. rewrite <- binomial. replace (p + (1 - p)) with 1 by ring. apply pow1.
Qed.

Theorem binom_pmf_pos : forall (n : nat) (p : R), 0 < p < 1 ->
  forall x, (x <= n)%nat -> 0 < C n x * p ^ x * (1 - p) ^ (n - x).
Proof.
  intros n p Hp x Hx. apply Rmult_lt_0_compat; [apply Rmult_lt_0_compat|].
  - apply C_pos; exact Hx.
  - apply pow_lt; lra.
  - apply pow_lt; lra.
Qed.

(* ---------------------------------------------------------------- the inversion loop *)

(* sum of the first x terms of a sequence: psum r x = r 0 + ... + r (x-1) *)
Fixpoint psum (r : nat -> R) (x : nat) : R :=
  match x with O => 0 | S j => psum r j + r j end.

(* [while u > r x { u -= r x; x += 1 }; x] with an iteration bound (None = bound exhausted;
   with fuel = 111 this is the `continue 'outer` of BINV_MAX_X = 110: x = 0..110 can be returned) *)
Fixpoint seq_loop (r : nat -> R) (fuel : nat) (u : R) (x : nat) : option nat :=
  match fuel with
  | O => None
  | S f => if Rlt_dec (r x) u then seq_loop r f (u - r x) (S x) else Some x
  end.

(* the loop exactly as coded, carrying r as a state variable updated by r *= a / x - s *)
Fixpoint binv_loop (a s : R) (fuel : nat) (u r : R) (x : nat) : option nat :=
  match fuel with
  | O => None
  | S f => if Rlt_dec r u then binv_loop a s f (u - r) (r * (a / INR (S x) - s)) (S x)
           else Some x
  end.

Lemma binv_loop_seq : forall n p fuel u x,
  binv_loop ((INR n + 1) * (p / (1 - p))) (p / (1 - p)) fuel u (binv_r n p x) x
  = seq_loop (binv_r n p) fuel u x.
Proof.
  intros n p fuel. induction fuel as [|f IH]; intros u x; [reflexivity|].
  cbn [binv_loop seq_loop]. destruct (Rlt_dec (binv_r n p x) u); [|reflexivity].
  rewrite <- IH. reflexivity.
Qed.

Lemma seq_loop_gen : forall r fuel u x0 x,
  seq_loop r fuel u x0 = Some x <->
  (x0 <= x < x0 + fuel)%nat /\
  (forall j, (x0 <= j < x)%nat -> psum r (S j) < u + psum r x0) /\
  u + psum r x0 <= psum r (S x).
Proof.
  intros r fuel. induction fuel as [|f IH]; intros u x0 x.
  - simpl. split; [discriminate|]. intros [H _]. lia.
  - cbn [seq_loop]. destruct (Rlt_dec (r x0) u) as [Hlt|Hge].
    + rewrite IH. cbn [psum]. split.
      * intros [Hr [Hlo Hhi]]. split; [lia|]. split.
        -- intros j Hj. destruct (Nat.eq_dec j x0) as [->|Hne].
           ++ cbn [psum]. lra.
           ++ specialize (Hlo j ltac:(lia)). cbn [psum] in Hlo. lra.
        -- lra.
      * intros [Hr [Hlo Hhi]].
        assert (x <> x0). { intros ->. cbn [psum] in Hhi. lra. }
        split; [lia|]. split.
        -- intros j Hj. specialize (Hlo j ltac:(lia)). cbn [psum] in Hlo. lra.
        -- lra.
    + split.
      * intros H. injection H as <-. split; [lia|]. split.
        -- intros j Hj. lia.
        -- cbn [psum]. lra.
      * intros [Hr [Hlo Hhi]]. destruct (Nat.eq_dec x x0) as [->|Hne]; [reflexivity|].
        specialize (Hlo x0 ltac:(lia)). cbn [psum] in Hlo. lra.
Qed.

(* General characterisation, no sign assumption on r. *)
Theorem seq_loop_event : forall r fuel u x,
  seq_loop r fuel u 0 = Some x <->
  (x < fuel)%nat /\ (forall j, (j < x)%nat -> psum r (S j) < u) /\ u <= psum r (S x).
Proof.
  intros r fuel u x. rewrite seq_loop_gen. cbn [psum]. rewrite Rplus_0_r. split.
  - intros [H1 [H2 H3]]. split; [lia|]. split; [|exact H3]. intros j Hj. apply H2. lia.
  - intros [H1 [H2 H3]]. split; [lia|]. split; [|exact H3]. intros j Hj. apply H2. lia.
Qed.

Lemma psum_mono : forall r, (forall j, 0 <= r j) -> forall i j, (i <= j)%nat -> psum r i <= psum r j.
Proof.
  intros r Hr i j Hij. induction Hij; [lra|]. cbn [psum]. specialize (Hr m). lra.
Qed.

(* With nonnegative terms and 0 < u: x is returned iff  S(x-1) < u <= S(x),
   where S(x) = r 0 + ... + r x = psum r (x+1). *)
Theorem binv_event : forall r fuel u x, (forall j, 0 <= r j) -> 0 < u ->
  (seq_loop r fuel u 0 = Some x <-> (x < fuel)%nat /\ psum r x < u <= psum r (S x)).
Proof.
  intros r fuel u x Hr Hu. rewrite seq_loop_event. split.
  - intros [H1 [H2 H3]]. split; [exact H1|]. split; [|exact H3].
    destruct x as [|x]; [simpl; exact Hu|]. apply H2. lia.
  - intros [H1 [H2 H3]]. split; [exact H1|]. split; [|exact H3].
    intros j Hj. apply Rle_lt_trans with (2 := H2). apply psum_mono; [exact Hr|lia].
Qed.

(* the binv sequence has nonnegative terms, so binv_event applies to it *)
Lemma binv_r_nonneg : forall n p, 0 < p < 1 -> forall x, 0 <= binv_r n p x.
Proof.
  intros n p Hp x. destruct (le_lt_dec x n) as [Hx|Hx].
  - rewrite binv_recurrence by assumption. left. apply binom_pmf_pos; assumption.
  - rewrite binv_recurrence_tail by assumption. lra.
Qed.

(* BINV as coded (state variable r, constants a and s of the set-up) returns x in [0,n] exactly
   when u falls in the x-th cell of the binomial cdf. *)
Theorem binv_sampler_event : forall (n : nat) (p : R) fuel u x, 0 < p < 1 -> 0 < u -> (x <= n)%nat ->
  let q := 1 - p in let s := p / q in let a := (INR n + 1) * s in
  (binv_loop a s fuel u (q ^ n) 0 = Some x <->
   (x < fuel)%nat /\
   psum (fun j => C n j * p ^ j * (1 - p) ^ (n - j)) x < u
     <= psum (fun j => C n j * p ^ j * (1 - p) ^ (n - j)) (S x)).
Proof.
  intros n p fuel u x Hp Hu Hx q s a. subst q s a.
  change ((1 - p) ^ n) with (binv_r n p 0). rewrite binv_loop_seq.
  rewrite binv_event by (try apply binv_r_nonneg; assumption).
  assert (Hps : forall y, (y <= S n)%nat ->
            psum (binv_r n p) y = psum (fun j => C n j * p ^ j * (1 - p) ^ (n - j)) y).
  { induction y as [|y IH]; intros Hy; [reflexivity|]. cbn [psum].
    rewrite IH by lia. rewrite binv_recurrence by (try assumption; lia). reflexivity. }
  rewrite !Hps by lia. reflexivity.
Qed.

(* ---------------------------------------------------------------- the p > 0.5 flip *)

Theorem binomial_flip : forall (n x : nat) (p : R), (x <= n)%nat ->
  C n x * p ^ x * (1 - p) ^ (n - x) = C n (n - x) * (1 - p) ^ (n - x) * p ^ x.
Proof.
  intros n x p Hx. rewrite <- (pascal_step1 n x Hx). ring.
Qed.

(* in the form used by the code: sampling Y ~ Bin(n, 1-p) and returning n - Y *)
Theorem binomial_flip_sample : forall (n y : nat) (p : R), (y <= n)%nat ->
  C n y * (1 - p) ^ y * (1 - (1 - p)) ^ (n - y)
  = C n (n - y) * p ^ (n - y) * (1 - p) ^ (n - (n - y)).
Proof.
  intros n y p Hy. replace (n - (n - y))%nat with y by lia.
  replace (1 - (1 - p)) with p by ring. rewrite <- (pascal_step1 n y Hy). ring.
Qed.

(* ---------------------------------------------------------------- self-contained restatements *)

(* the recurrence stated for an arbitrary sequence satisfying the update of the code *)
Theorem binv_recurrence_seq : forall (n : nat) (p : R) (r : nat -> R), 0 < p < 1 ->
  let q := 1 - p in let s := p / q in let a := (INR n + 1) * s in
  r 0%nat = q ^ n ->
  (forall x, r (S x) = r x * (a / INR (S x) - s)) ->
  (forall x, (x <= n)%nat -> r x = C n x * p ^ x * q ^ (n - x)) /\
  (forall x, (n < x)%nat -> r x = 0).
Proof.
  intros n p r Hp q s a H0 HS.
  assert (E : forall x, r x = binv_r n p x).
  { induction x as [|x IH]; [exact H0|]. rewrite HS, IH. reflexivity. }
  split; intros x Hx; rewrite E.
  - apply binv_recurrence; assumption.
  - apply binv_recurrence_tail; assumption.
Qed.

Lemma binv_r_def : forall n p,
  binv_r n p 0 = (1 - p) ^ n /\
  forall x, binv_r n p (S x)
            = binv_r n p x * ((INR n + 1) * (p / (1 - p)) / INR (S x) - p / (1 - p)).
Proof. intros. split; reflexivity. Qed.

Lemma psum_def : forall r, psum r 0 = 0 /\ forall x, psum r (S x) = psum r x + r x.
Proof. intros. split; reflexivity. Qed.

Lemma seq_loop_def : forall r u x,
  seq_loop r 0 u x = None /\
  forall f, seq_loop r (S f) u x
            = if Rlt_dec (r x) u then seq_loop r f (u - r x) (S x) else Some x.
Proof. intros. split; reflexivity. Qed.

Lemma binv_loop_def : forall a s u r x,
  binv_loop a s 0 u r x = None /\
  forall f, binv_loop a s (S f) u r x
            = if Rlt_dec r u then binv_loop a s f (u - r) (r * (a / INR (S x) - s)) (S x)
              else Some x.
Proof. intros. split; reflexivity. Qed.
