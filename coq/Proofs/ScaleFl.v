(* Proofs/ScaleFl.v — property C07 at the IEEE level for the scale families: the last operation of Exp::sample
   (exponential.rs:189: Exp1 * lambda_inverse), Weibull::sample (weibull.rs:104: scale * (-ln x)^(1/k)) and Pareto::sample
   (pareto.rs:102: scale * u^(-1/shape)) is ONE rounded multiplication of the parameter-free draw by the scale.  Hence, absent
   overflow, the sample is rnd(scale * g), within u |scale g| + eta of the real scale map, exactly scale * g when the scale is a
   power of two (AffineFl.Bmult_pow2_exact), non-negative for non-negative operands (C03), and monotone in g.                    *)
From Coq Require Import ZArith Bool Reals Lra Lia.
From Flocq Require Import Core.Core IEEE754.BinarySingleNaN.
From RD Require Import Proofs.AffineFl.
Open Scope R_scope.

Section Fmt.
Variable prec emax : Z.
Context (Hp : Prec_gt_0 prec) (Hpe : Prec_lt_emax prec emax).
Notation float := (binary_float prec emax).
Notation rnd := (AffineFl.rnd prec emax).
Notation u := (AffineFl.u prec).
Notation eta := (AffineFl.eta prec emax).

Definition scale_fl (a b : float) : float := Bmult mode_NE a b.

Theorem scale_fl_value (a b : float) :
  is_finite a = true -> is_finite b = true -> Rabs (rnd (B2R a * B2R b)) < bpow radix2 emax ->
  B2R (scale_fl a b) = rnd (B2R a * B2R b) /\ is_finite (scale_fl a b) = true.
Proof.
  intros Fa Fb O. unfold scale_fl. generalize (Bmult_correct prec emax Hp Hpe mode_NE a b).
  rewrite Rlt_bool_true by exact O. intros (E & F & _). rewrite Fa, Fb in F. split; [exact E|exact F].
Qed.

Theorem scale_fl_error (a b : float) :
  is_finite a = true -> is_finite b = true -> Rabs (rnd (B2R a * B2R b)) < bpow radix2 emax ->
  Rabs (B2R (scale_fl a b) - B2R a * B2R b) <= u * Rabs (B2R a * B2R b) + eta.
Proof.
  intros Fa Fb O. destruct (scale_fl_value a b Fa Fb O) as [E _]. rewrite E. apply rnd_error. exact Hp.
Qed.

(* the two operand orders used in the source give the same real value *)
Theorem scale_fl_comm_value (a b : float) :
  is_finite a = true -> is_finite b = true -> Rabs (rnd (B2R a * B2R b)) < bpow radix2 emax ->
  B2R (scale_fl a b) = B2R (scale_fl b a).
Proof.
  intros Fa Fb O. destruct (scale_fl_value a b Fa Fb O) as [E _].
  assert (Rabs (rnd (B2R b * B2R a)) < bpow radix2 emax) as O' by (rewrite Rmult_comm; exact O).
  destruct (scale_fl_value b a Fb Fa O') as [E' _]. rewrite E, E', Rmult_comm. reflexivity.
Qed.

Lemma rnd_mono x y : x <= y -> rnd x <= rnd y.
Proof. intros H. unfold AffineFl.rnd. apply round_le; try typeclasses eauto; exact H. Qed.
Lemma rnd_zero : rnd 0 = 0.
Proof. unfold AffineFl.rnd. apply round_0. typeclasses eauto. Qed.

(* support: non-negative scale, non-negative draw -> non-negative sample *)
Theorem scale_fl_nonneg (a b : float) :
  is_finite a = true -> is_finite b = true -> Rabs (rnd (B2R a * B2R b)) < bpow radix2 emax ->
  0 <= B2R a -> 0 <= B2R b -> 0 <= B2R (scale_fl a b).
Proof.
  intros Fa Fb O Ha Hb. destruct (scale_fl_value a b Fa Fb O) as [E _]. rewrite E, <- rnd_zero. apply rnd_mono.
  apply Rmult_le_pos; assumption.
Qed.

(* monotone in the draw for a non-negative scale: common random numbers preserve order *)
Theorem scale_fl_monotone (s g1 g2 : float) :
  is_finite s = true -> is_finite g1 = true -> is_finite g2 = true ->
  Rabs (rnd (B2R s * B2R g1)) < bpow radix2 emax -> Rabs (rnd (B2R s * B2R g2)) < bpow radix2 emax ->
  0 <= B2R s -> B2R g1 <= B2R g2 -> B2R (scale_fl s g1) <= B2R (scale_fl s g2).
Proof.
  intros Fs F1 F2 O1 O2 Hs H. destruct (scale_fl_value s g1 Fs F1 O1) as [E1 _]. destruct (scale_fl_value s g2 Fs F2 O2) as [E2 _].
  rewrite E1, E2. apply rnd_mono. apply Rmult_le_compat_l; assumption.
Qed.

(* a power-of-two scale commutes with the draw exactly (no rounding, barring underflow) *)
Theorem scale_fl_pow2 (s g : float) (k : Z) :
  is_finite s = true -> is_finite g = true -> B2R s = bpow radix2 k ->
  (B2R g = 0 \/ (0 <= k)%Z \/ bpow radix2 (aemin prec emax + prec - 1) <= Rabs (bpow radix2 k * B2R g)) ->
  Rabs (bpow radix2 k * B2R g) < bpow radix2 emax ->
  B2R (scale_fl s g) = bpow radix2 k * B2R g /\ is_finite (scale_fl s g) = true.
Proof. intros Fs Fg Es U O. exact (Bmult_pow2_exact prec emax Hp Hpe s g k Fs Fg Es U O). Qed.

(* ---- the pre-computed reciprocals (exponential.rs:177 lambda_inverse = 1/lambda, weibull.rs:91 inv_shape = 1/shape,
   pareto.rs:90 inv_neg_shape = -1/shape) and the composite Exp(lambda) sample  Exp1 * (1/lambda) ---- *)
Definition recip_fl (x : float) : float := Bdiv mode_NE Bone x.
Definition neg_recip_fl (x : float) : float := Bdiv mode_NE (Bopp Bone) x.

Theorem recip_fl_value (x : float) :
  is_finite x = true -> B2R x <> 0 -> Rabs (rnd (1 / B2R x)) < bpow radix2 emax ->
  B2R (recip_fl x) = rnd (1 / B2R x) /\ is_finite (recip_fl x) = true.
Proof.
  intros Fx Nx O. unfold recip_fl. generalize (Bdiv_correct prec emax Hp Hpe mode_NE Bone x Nx).
  rewrite (Bone_correct prec emax Hp Hpe). rewrite Rlt_bool_true by exact O.
  intros (E & F & _). rewrite (is_finite_Bone prec emax Hp Hpe) in F. split; [exact E|exact F].
Qed.

Theorem neg_recip_fl_value (x : float) :
  is_finite x = true -> B2R x <> 0 -> Rabs (rnd (- 1 / B2R x)) < bpow radix2 emax ->
  B2R (neg_recip_fl x) = rnd (- 1 / B2R x) /\ is_finite (neg_recip_fl x) = true.
Proof.
  intros Fx Nx O. unfold neg_recip_fl. generalize (Bdiv_correct prec emax Hp Hpe mode_NE (Bopp Bone) x Nx).
  rewrite B2R_Bopp, (Bone_correct prec emax Hp Hpe). rewrite Rlt_bool_true by exact O.
  intros (E & F & _). rewrite is_finite_Bopp, (is_finite_Bone prec emax Hp Hpe) in F. split; [exact E|exact F].
Qed.

Definition exp_sample_fl (g lambda : float) : float := scale_fl g (recip_fl lambda).

(* two roundings: |fl(g * fl(1/lambda)) - g/lambda| <= (2u + u^2) |g/lambda| + ((1+u)|g| + 1) eta *)
Theorem exp_sample_fl_error (g lambda : float) :
  is_finite g = true -> is_finite lambda = true -> B2R lambda <> 0 ->
  Rabs (rnd (1 / B2R lambda)) < bpow radix2 emax ->
  Rabs (rnd (B2R g * rnd (1 / B2R lambda))) < bpow radix2 emax ->
  is_finite (exp_sample_fl g lambda) = true /\
  Rabs (B2R (exp_sample_fl g lambda) - B2R g / B2R lambda)
    <= (2 * u + u * u) * Rabs (B2R g / B2R lambda) + ((1 + u) * Rabs (B2R g) + 1) * eta.
Proof.
  intros Fg Fl Nl O1 O2. destruct (recip_fl_value lambda Fl Nl O1) as [Er Fr].
  unfold exp_sample_fl. rewrite <- Er in O2. destruct (scale_fl_value g (recip_fl lambda) Fg Fr O2) as [E F].
  split; [exact F|]. rewrite E, Er.
  set (A := 1 / B2R lambda). set (x := B2R g).
  pose proof (rnd_error prec emax Hp A) as E1. pose proof (rnd_error prec emax Hp (x * rnd A)) as E2.
  pose proof (u_pos prec) as U0. pose proof (eta_pos prec emax) as H0.
  replace (x / B2R lambda) with (x * A) by (unfold A; field; exact Nl).
  assert (Rabs (x * rnd A - x * A) <= Rabs x * (u * Rabs A + eta)) as D1.
  { replace (x * rnd A - x * A) with (x * (rnd A - A)) by ring. rewrite Rabs_mult. apply Rmult_le_compat_l; [apply Rabs_pos|exact E1]. }
  assert (Rabs (x * rnd A) <= Rabs (x * A) + Rabs x * (u * Rabs A + eta)) as D2.
  { replace (x * rnd A) with (x * A + (x * rnd A - x * A)) by ring. eapply Rle_trans; [apply Rabs_triang|]. lra. }
  replace (rnd (x * rnd A) - x * A) with ((rnd (x * rnd A) - x * rnd A) + (x * rnd A - x * A)) by ring.
  eapply Rle_trans; [apply Rabs_triang|].
  rewrite (Rabs_mult x A) in * . set (ax := Rabs x) in * . set (aA := Rabs A) in * .
  assert (0 <= ax) as P1 by apply Rabs_pos. assert (0 <= aA) as P2 by apply Rabs_pos.
  assert (u * (ax * aA + ax * (u * aA + eta)) = u * (ax * aA) + u * u * (ax * aA) + u * ax * eta) as R1 by ring.
  assert (u * Rabs (x * rnd A) <= u * (ax * aA + ax * (u * aA + eta))) as D3 by (apply Rmult_le_compat_l; lra).
  assert (ax * (u * aA + eta) = u * (ax * aA) + ax * eta) as R2 by ring.
  lra.
Qed.

(* lower bound of the support: Pareto = scale * u^(-1/shape) with a factor >= 1 (whatever powf returns, as long as it is >= 1)
   never falls below the scale - exactly, no ulp *)
Theorem scale_fl_ge_scale (s g : float) :
  is_finite s = true -> is_finite g = true -> Rabs (rnd (B2R s * B2R g)) < bpow radix2 emax ->
  0 <= B2R s -> 1 <= B2R g -> B2R s <= B2R (scale_fl s g).
Proof.
  intros Fs Fg O Hs Hg. destruct (scale_fl_value s g Fs Fg O) as [E _]. rewrite E.
  unfold AffineFl.rnd. apply round_ge_generic; try typeclasses eauto; [apply (generic_format_B2R prec emax s)|].
  pose proof (Rmult_le_compat_l (B2R s) 1 (B2R g) Hs Hg). lra.
Qed.
End Fmt.
