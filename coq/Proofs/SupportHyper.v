(* Proofs/SupportHyper.v — property C03 on the executable model of the Hypergeometric sampler
   (Model/Discrete.v: HIN inverse transform and H2PE rejection, with the two symmetry reductions):
   under the exact real semantics every returned value lies in [max(0, n+K-N), min(n, K)] and the
   panic marker (failure code 3: u64 underflow in the products of step 4.1) is unreachable.
   Same conventions as Proofs/SupportDiscrete.v.                                                     *)
From Coq Require Import Reals ZArith List Lra Lia Bool.
From Interval Require Import Xreal.
From Flocq Require Import Core.
From RD Require Import Base.Expr Base.Run Model.Sampler Model.Continuous Model.Discrete
  Proofs.LawsInvCdf Proofs.RunSound Proofs.Support Proofs.LoopBounds Proofs.PmfRatioModel Proofs.PmfHyper
  Proofs.SupportDiscrete.
Import ListNotations.
Open Scope Z_scope.
Open Scope sampler_scope.

Local Notation "a +. b" := (Bin Add a b) (at level 50, left associativity).
Local Notation "a -. b" := (Bin Sub a b) (at level 50, left associativity).
Local Notation "a *. b" := (Bin Mul a b) (at level 40, left associativity).
Local Notation "a /. b" := (Bin Div a b) (at level 40, left associativity).

(* ---- inversion of the exact semantics of compound expressions ------------------------------------- *)
Lemma xadd_inv a b z : Xadd a b = Xreal z -> exists x y, a = Xreal x /\ b = Xreal y /\ z = (x + y)%R.
Proof. destruct a as [|x], b as [|y]; try discriminate. cbn. intros H. injection H as <-. eauto. Qed.
Lemma xsub_inv a b z : Xsub a b = Xreal z -> exists x y, a = Xreal x /\ b = Xreal y /\ z = (x - y)%R.
Proof. destruct a as [|x], b as [|y]; try discriminate. cbn. intros H. injection H as <-. eauto. Qed.
Lemma xmul_inv a b z : Xmul a b = Xreal z -> exists x y, a = Xreal x /\ b = Xreal y /\ z = (x * y)%R.
Proof. destruct a as [|x], b as [|y]; try discriminate. cbn. intros H. injection H as <-. eauto. Qed.
Lemma xdiv_inv a b z : Xdiv a b = Xreal z -> exists x y, a = Xreal x /\ b = Xreal y /\ y <> 0%R /\ z = (x / y)%R.
Proof.
  destruct a as [|x], b as [|y]; try discriminate. cbn. unfold Xdiv'. destruct (is_zero_spec y) as [Z|NZ]; [discriminate|].
  intros H. injection H as <-. exists x, y. auto.
Qed.
Lemma xln_inv a z : Xln a = Xreal z -> exists x, a = Xreal x /\ (0 < x)%R /\ z = ln x.
Proof.
  destruct a as [|x]; [discriminate|]. cbn. unfold Xln'. destruct (is_positive_spec x) as [P|NP]; [|discriminate].
  intros H. injection H as <-. exists x. auto.
Qed.
Lemma xexp_inv a z : Xexp a = Xreal z -> exists x, a = Xreal x /\ z = exp x.
Proof. destruct a as [|x]; [discriminate|]. cbn. intros H. injection H as <-. eauto. Qed.
Lemma xneg_inv a z : Xneg a = Xreal z -> exists x, a = Xreal x /\ z = (- x)%R.
Proof. destruct a as [|x]; [discriminate|]. cbn. intros H. injection H as <-. eauto. Qed.

(* ---- step 4 ------------------------------------------------------------------------------------------ *)
Lemma h2pe_f41_spec n1 n2 k m y ws : 0 <= m <= Z.min n1 k -> y <= Z.min n1 k ->
  allout (fun q => snd q = ws) (fun _ => False) (h2pe_f41 n1 n2 k m y ws).
Proof.
  intros Hm Hy. unfold h2pe_f41. destruct (Z.ltb_spec m y) as [L|L].
  - rewrite h2pe_up_value by lia. reflexivity.
  - rewrite h2pe_down_value by lia. reflexivity.
Qed.

Definition step4_post (y : Z) (ws : list Z) (q : option Z * list Z) : Prop :=
  snd q = ws /\ match fst q with Some y' => y' = y | None => True end.

Lemma h2pe_step4_spec n1 n2 k m a y v vz ws : 0 <= m <= Z.min n1 k -> y <= Z.min n1 k ->
  allout (step4_post y ws) (fun _ => False) (h2pe_step4 n1 n2 k m a y v vz ws).
Proof.
  intros Hm Hy. unfold h2pe_step4. cbv zeta.
  destruct ((m <? 100) || (y <=? 50)).
  - eapply allout_sbind; [apply (h2pe_f41_spec n1 n2 k m y ws Hm Hy)|auto|].
    intros f ws' A. cbn [snd] in A. subst ws'. lstep. intros x0 y0 _ _.
    destruct (rcmp CLe x0 y0); lstep; split; auto; reflexivity.
  - lstep. intros x0 y0 _ _. set (gneg := rcmp CLt x0 y0). clearbody gneg.
    destruct vz; lstep; [split; reflexivity|].
    intros x1 y1 _ _. destruct (rcmp CGt x1 y1); lstep; [split; [reflexivity|exact I]|].
    unfold sneg. destruct (y =? m); lstep.
    + intros x2 y2 _ _. destruct (rcmp CLt x2 y2); lstep; [split; reflexivity|].
      intros x3 y3 _ _. destruct (rcmp CLe x3 y3); lstep; split; auto; reflexivity.
    + intros xa ya _ _. intros xb yb _ _. intros xc yc _ _. intros xd yd _ _.
      intros x2 y2 _ _. destruct (rcmp CLt x2 y2); lstep; [split; reflexivity|].
      intros x3 y3 _ _. destruct (rcmp CLe x3 y3); lstep; split; auto; reflexivity.
Qed.

(* ---- the H2PE loop -------------------------------------------------------------------------------------- *)
Local Open Scope R_scope.
Lemma u53_pos w : word w -> (w / 2 ^ 11 =? 0)%Z = false -> 0 < uR_std F64 w < 1.
Proof.
  intros Hw Hz. apply Z.eqb_neq in Hz. pose proof (uR_std_range F64 w Hw) as [A B]. split; [|exact B].
  destruct A as [A|A]; [exact A|]. exfalso. unfold uR_std in A. symmetry in A.
  assert (0 < 2 ^ 53) by (apply pow_lt; lra).
  apply (f_equal (fun x => x * 2 ^ 53)) in A. unfold Rdiv in A. rewrite Rmult_assoc, Rinv_l, Rmult_1_r, Rmult_0_l in A by lra.
  apply eq_IZR_R0 in A. contradiction.
Qed.

Lemma neg_div_pos a b : a < 0 -> 0 < b -> a / b < 0.
Proof. intros Ha Hb. unfold Rdiv. pose proof (Rinv_0_lt_compat b Hb). nra. Qed.

Section H2peLoop.
Variables (n1 n2 k m : Z) (a lambda_l lambda_r x_l x_r p1 p2 p3 : expr).
Variables (XL XR P1 : R).
Let t := Z.min n1 k.
Hypothesis Hm : (0 <= m <= t)%Z.
Hypothesis Hk : (k <= n2)%Z.
Hypothesis E_xl : evalX x_l = Xreal XL.
Hypothesis E_xr : evalX x_r = Xreal XR.
Hypothesis E_p1 : evalX p1 = Xreal P1.
Hypothesis HXL0 : 0 <= XL.
Hypothesis HXLm : XL <= IZR m.
Hypothesis HXR0 : 0 <= XR.
Hypothesis H1up : XL + P1 < IZR t + 1.
Hypothesis HP3 : forall x, evalX p3 = Xreal x -> 0 <= x.
Hypothesis HLL : forall x, evalX lambda_l = Xreal x -> 0 <= x.
Hypothesis HLR : forall x, evalX lambda_r = Xreal x -> 0 <= x.

Let post (q : Z * list Z) : Prop := (0 <= fst q <= t)%Z.

Lemma h2pe_step4_ret (again : sampler Z) y v vz ws : (0 <= y <= t)%Z ->
  (forall ws', ws' = ws -> allout post nopanic (again ws')) ->
  allout post nopanic
    ((o <- h2pe_step4 n1 n2 k m a y v vz ;; match o with Some y => sret y | None => again end) ws).
Proof.
  intros Hy Ha. eapply allout_sbind; [apply h2pe_step4_spec; [exact Hm|fold t; lia]|intros ? []|].
  intros o ws' [A B]. cbn [fst snd] in A, B. subst ws'. destruct o as [y'|].
  - subst y'. lstep. exact Hy.
  - apply Ha. reflexivity.
Qed.

Lemma h2pe_loop_spec fuel : forall ws, Forall word ws ->
  allout post nopanic (h2pe_loop n1 n2 k m a lambda_l lambda_r x_l x_r p1 p2 p3 fuel ws).
Proof.
  induction fuel as [|fu IH]; intros ws Hw; [exact nopanic2|].
  destruct ws as [|w1 [|w2 ws]]; cbn [h2pe_loop]; cbv zeta; lstep; [exact nopanic1|exact nopanic1|].
  apply Forall_cons_iff in Hw. destruct Hw as [Hw1 Hw']. apply Forall_cons_iff in Hw'. destruct Hw' as [Hw2 Hws].
  pose proof (u52_range w1 Hw1) as HU1. set (U1 := IZR (w1 / 2 ^ 12) * powerRZ 2 (-52)) in * .
  intros xu xp Exu Exp. rewrite E_p1 in Exp. injection Exp as <-.
  (* u = U1 * P3 with P3 >= 0 *)
  assert (exists P3, evalX p3 = Xreal P3 /\ xu = U1 * P3) as (P3 & E_p3 & ->).
  { cbn [evalX xbin] in Exu. rewrite xdy_real in Exu. fold U1 in Exu. apply xmul_inv in Exu.
    destruct Exu as (x & y & Hx & Hy & ->). injection Hx as <-. eauto. }
  pose proof (HP3 P3 E_p3) as P30. assert (0 <= U1 * P3) as HU by (apply Rmult_le_pos; lra).
  assert (Eu : evalX (Exact (Dy (w1 / 2 ^ 12) (-52)) *. p3) = Xreal (U1 * P3)).
  { cbn [evalX xbin]. rewrite xdy_real, E_p3. reflexivity. }
  unfold rcmp at 1. destruct (Rle_dec (U1 * P3) P1) as [G1|G1].
  { (* region 1 *)
    unfold sfloor. cbn [sbind bind allout]. intros z Ez.
    change (evalX (x_l +. Exact (Dy (w1 / 2 ^ 12) (-52)) *. p3)) with (Xadd (evalX x_l) (evalX (Exact (Dy (w1 / 2 ^ 12) (-52)) *. p3))) in Ez.
    rewrite E_xl, Eu in Ez. cbn in Ez. injection Ez as <-.
    assert (0 <= Zfloor (XL + U1 * P3) <= t)%Z as Hy.
    { split; [apply Zfloor_lub; simpl; lra|].
      assert (Zfloor (XL + U1 * P3) < t + 1)%Z; [|lia]. apply lt_IZR. rewrite plus_IZR. simpl (IZR 1).
      apply Rle_lt_trans with (XL + U1 * P3); [apply Zfloor_lb|lra]. }
    apply h2pe_step4_ret; [exact Hy|]. intros ? ->. apply IH, Hws. }
  destruct (w2 / 2 ^ 11 =? 0)%Z eqn:VZ; [apply IH, Hws|].
  pose proof (u53_pos w2 Hw2 VZ) as HV. set (V := uR_std F64 w2) in * .
  assert (ln V < 0) as LV by (rewrite <- ln_1; apply ln_increasing; lra).
  lstep. intros xu2 xp2 _ _. destruct (rcmp CLe xu2 xp2).
  { (* region 2: left tail *)
    unfold sfloor. cbn [sbind bind allout]. intros z Ez.
    change (evalX (x_l +. eln (u_std F64 w2) /. lambda_l)) with (Xadd (evalX x_l) (Xdiv (Xln (evalX (u_std F64 w2))) (evalX lambda_l))) in Ez.
    rewrite E_xl, u_std_eval in Ez. fold V in Ez. rewrite Xln_pos in Ez by lra.
    apply xadd_inv in Ez. destruct Ez as (x & y & Hx & Hy & ->). injection Hx as <-.
    apply xdiv_inv in Hy. destruct Hy as (x1 & LL & Hx1 & ELL & NZ & ->). injection Hx1 as <-.
    pose proof (HLL LL ELL) as LL0. assert (0 < LL) as LLp by lra.
    assert (ln V / LL < 0) by (apply neg_div_pos; lra).
    replace (Z.max 0 (k - n2)) with 0%Z by lia.
    destruct (Z.leb_spec 0 (Zfloor (XL + ln V / LL))) as [L|L]; [|apply IH, Hws].
    apply h2pe_step4_ret; [|intros ? ->; apply IH, Hws]. split; [exact L|].
    assert (Zfloor (XL + ln V / LL) <= m)%Z; [|lia]. apply le_IZR.
    apply Rle_trans with (XL + ln V / LL); [apply Zfloor_lb|lra]. }
  (* region 3: right tail *)
  unfold sfloor. cbn [sbind bind allout]. intros z Ez.
  change (evalX (x_r -. eln (u_std F64 w2) /. lambda_r)) with (Xsub (evalX x_r) (Xdiv (Xln (evalX (u_std F64 w2))) (evalX lambda_r))) in Ez.
  rewrite E_xr, u_std_eval in Ez. fold V in Ez. rewrite Xln_pos in Ez by lra.
  apply xsub_inv in Ez. destruct Ez as (x & y & Hx & Hy & ->). injection Hx as <-.
  apply xdiv_inv in Hy. destruct Hy as (x1 & LR & Hx1 & ELR & NZ & ->). injection Hx1 as <-.
  pose proof (HLR LR ELR) as LR0. assert (0 < LR) as LRp by lra.
  assert (ln V / LR < 0) by (apply neg_div_pos; lra).
  fold t. destruct (Z.leb_spec (Z.max (Zfloor (XR - ln V / LR)) 0) t) as [L|L]; [|apply IH, Hws].
  apply h2pe_step4_ret; [|intros ? ->; apply IH, Hws]. split; [|lia].
  apply Zfloor_lub. simpl. lra.
Qed.
End H2peLoop.
Local Open Scope Z_scope.

(* ---- the constants of the H2PE set-up --------------------------------------------------------------------- *)
Local Open Scope R_scope.
Section H2peSetupR.
Variables (N n1 n2 k M T : R).
Hypothesis HN : n1 + n2 = N.
Hypothesis Hn1 : 0 <= n1 <= n2.
Hypothesis Hk : 0 <= k /\ 2 * k <= N.
Hypothesis HT : T <= n1 /\ T <= k /\ (T = n1 \/ T = k).
Let MR := (k + 1) * (n1 + 1) / (N + 2).
Hypothesis HM : M <= MR < M + 1.
Hypothesis HM10 : 10 <= M.
Let VAR := (N - k) * k * n1 * n2 / ((N - 1) * N * N).
Let S := sqrt VAR.
Let D := 3 / 2 * S + 1 / 2.

Lemma h2pe_N_pos : 0 < N + 2. Proof. lra. Qed.
Lemma h2pe_MR_le : MR <= (k + 1) / 2 /\ MR <= (n1 + 1) / 2.
Proof.
  unfold MR. pose proof h2pe_N_pos as NP. split.
  - apply Rmult_le_reg_r with (N + 2); [exact NP|]. unfold Rdiv at 1. rewrite Rmult_assoc, Rinv_l by lra. nra.
  - apply Rmult_le_reg_r with (N + 2); [exact NP|]. unfold Rdiv at 1. rewrite Rmult_assoc, Rinv_l by lra. nra.
Qed.
Lemma h2pe_T19 : 19 <= T /\ M <= (T + 1) / 2.
Proof. pose proof h2pe_MR_le as [A B]. destruct HT as (T1 & T2 & [->| ->]); split; lra. Qed.
Lemma h2pe_N38 : 38 <= N. Proof. pose proof h2pe_T19 as [A _]. destruct HT as (T1 & T2 & _). lra. Qed.

Lemma h2pe_VAR_bounds : 0 <= VAR /\ VAR <= T / 2 /\ VAR <= MR.
Proof.
  pose proof h2pe_N38 as N38. pose proof h2pe_T19 as [T19 _]. destruct HT as (T1 & T2 & TT).
  assert (0 < (N - 1) * N * N) as DP by (apply Rmult_lt_0_compat; [apply Rmult_lt_0_compat|]; lra).
  assert (0 <= (N - k) * k * n1 * n2) as NP by (repeat apply Rmult_le_pos; lra).
  assert (VAR * ((N - 1) * N * N) = (N - k) * k * n1 * n2) as VE by (unfold VAR; field; lra).
  assert (0 <= VAR) as V0 by (unfold VAR; apply Rmult_le_pos; [exact NP|left; apply Rinv_0_lt_compat; exact DP]).
  (* VAR <= k n1 / N *)
  assert (VAR * N <= k * n1) as V1.
  { apply Rmult_le_reg_r with ((N - 1) * N); [nra|].
    replace (VAR * N * ((N - 1) * N)) with (VAR * ((N - 1) * N * N)) by ring. rewrite VE.
    assert ((N - k) * n2 <= N * (N - 1)) by nra.
    assert (0 <= k * n1) by (apply Rmult_le_pos; lra). nra. }
  split; [exact V0|]. split.
  - assert (k * n1 <= T * N / 2) by (destruct TT as [->| ->]; nra). nra.
  - unfold MR. apply Rmult_le_reg_r with (N + 2); [lra|]. unfold Rdiv. rewrite Rmult_assoc, Rinv_l by lra.
    nra.
Qed.
Lemma h2pe_S_sq : S * S = VAR /\ 0 <= S.
Proof. pose proof h2pe_VAR_bounds as [V0 _]. split; [apply sqrt_sqrt; exact V0|apply sqrt_pos]. Qed.

(* region 1 stays inside the reduced support: x_l >= 0 and x_l + p1 = m + d + 1/2 < min(n1,k) + 1 *)
Lemma h2pe_xl_nonneg : 0 <= M - D + 1 / 2.
Proof.
  unfold D. pose proof h2pe_S_sq as [SS S0]. pose proof h2pe_VAR_bounds as (_ & _ & VM).
  destruct (Rle_lt_dec (3 / 2 * S) M) as [G|G]; [lra|]. exfalso. nra.
Qed.
Lemma h2pe_xr_lt : M + D + 1 / 2 < T + 1.
Proof.
  unfold D. pose proof h2pe_S_sq as [SS S0]. pose proof h2pe_VAR_bounds as (_ & VT & _).
  pose proof h2pe_T19 as [T19 MT].
  destruct (Rlt_le_dec (3 / 2 * S) ((T - 1) / 2)) as [G|G]; [lra|]. exfalso. nra.
Qed.
(* the two log-ratios have the right sign: x_l <= m <= mode < m + 1 < x_r *)
Lemma h2pe_ratio_l x : 0 <= x <= M ->
  x * (n2 - k + x) <= (n1 - x + 1) * (k - x + 1) /\ 0 < (n1 - x + 1) * (k - x + 1).
Proof.
  intros Hx. pose proof h2pe_T19 as [T19 MT]. destruct HT as (T1 & T2 & _).
  assert (x * (N + 2) <= (k + 1) * (n1 + 1)) as A.
  { apply Rle_trans with (MR * (N + 2)); [apply Rmult_le_compat_r; lra|].
    unfold MR, Rdiv. rewrite Rmult_assoc, Rinv_l by lra. lra. }
  split; [|apply Rmult_lt_0_compat; lra]. replace n2 with (N - n1) by lra. nra.
Qed.
Lemma h2pe_ratio_r x : M + 1 <= x ->
  (n1 - x + 1) * (k - x + 1) < x * (n2 - k + x) /\ 0 < x * (n2 - k + x).
Proof.
  intros Hx.
  assert ((k + 1) * (n1 + 1) < x * (N + 2)) as A.
  { apply Rlt_le_trans with ((M + 1) * (N + 2)); [|apply Rmult_le_compat_r; lra].
    replace ((k + 1) * (n1 + 1)) with (MR * (N + 2)) by (unfold MR; field; lra).
    apply Rmult_lt_compat_r; lra. }
  split; [replace n2 with (N - n1) by lra; nra|apply Rmult_lt_0_compat; lra].
Qed.
End H2peSetupR.
Local Open Scope Z_scope.

(* ---- the H2PE branch of `hypergeometric` -------------------------------------------------------------------- *)
Definition h2pe_branch (n n1 n2 k m : Z) : sampler Z :=
  let mf := zf m in
  let a := ln_of_factorial mf +. ln_of_factorial (zf n1 -. mf) +. ln_of_factorial (zf k -. mf)
           +. ln_of_factorial (zf (n2 - k) +. mf) in
  let numerator := zf (n - k) *. zf k *. zf n1 *. zf n2 in
  let denominator := zf (n - 1) *. zf n *. zf n in
  let d := Dy 3 (-1) *. esqrt (numerator /. denominator) +. half in
  let x_l := mf -. d +. half in
  let x_r := mf +. d +. half in
  let k_l := eexp (a -. ln_of_factorial x_l -. ln_of_factorial (zf n1 -. x_l)
                   -. ln_of_factorial (zf k -. x_l) -. ln_of_factorial (zf (n2 - k) +. x_l)) in
  let k_r := eexp (a -. ln_of_factorial (x_r -. one) -. ln_of_factorial (zf n1 -. x_r +. one)
                   -. ln_of_factorial (zf k -. x_r +. one) -. ln_of_factorial (zf (n2 - k) +. x_r -. one)) in
  let lambda_l := eneg (eln ((x_l *. (zf (n2 - k) +. x_l)) /. ((zf n1 -. x_l +. one) *. (zf k -. x_l +. one)))) in
  let lambda_r := eneg (eln (((zf n1 -. x_r +. one) *. (zf k -. x_r +. one)) /. (x_r *. (zf (n2 - k) +. x_r)))) in
  let p1 := num 2 *. d in
  let p2 := p1 +. k_l /. lambda_l in
  let p3 := p2 +. k_r /. lambda_r in
  h2pe_loop n1 n2 k m a lambda_l lambda_r x_l x_r p1 p2 p3 64.

Local Open Scope R_scope.
Lemma dy3h_eval : evalX (Dy 3 (-1)) = Xreal (3 / 2).
Proof. cbn [evalX]. rewrite xdy_real. f_equal. change (powerRZ 2 (-1)) with (/ (2 * 1)). lra. Qed.

Theorem h2pe_branch_support n n1 n2 k m ws :
  (n1 + n2 = n)%Z -> (0 <= n1 <= n2)%Z -> (0 <= k)%Z -> (2 * k <= n)%Z -> (10 <= m)%Z ->
  IZR m <= (IZR k + 1) * (IZR n1 + 1) / (IZR n + 2) < IZR m + 1 -> Forall word ws ->
  allout (fun q => (0 <= fst q <= Z.min n1 k)%Z) nopanic (h2pe_branch n n1 n2 k m ws).
Proof.
  intros Hn Hn1 Hk0 Hk2 Hm10 Hm Hw. unfold h2pe_branch. cbv zeta.
  set (t := Z.min n1 k).
  set (N := IZR n) in * . set (R1 := IZR n1) in * . set (R2 := IZR n2). set (K := IZR k) in * . set (M := IZR m) in * . set (T := IZR t).
  assert (HN : R1 + R2 = N) by (unfold R1, R2, N; rewrite <- plus_IZR; f_equal; exact Hn).
  assert (HR1 : 0 <= R1 <= R2) by (unfold R1, R2; split; apply IZR_le; lia).
  assert (HK : 0 <= K /\ 2 * K <= N) by (unfold K, N; split; [apply (IZR_le 0); lia|rewrite <- (mult_IZR 2); apply IZR_le; lia]).
  assert (HT : T <= R1 /\ T <= K /\ (T = R1 \/ T = K)).
  { unfold T, R1, K, t. split; [apply IZR_le; lia|]. split; [apply IZR_le; lia|].
    destruct (Z.min_spec n1 k) as [[_ ->]|[_ ->]]; auto. }
  assert (HM10 : 10 <= M) by (apply (IZR_le 10); exact Hm10).
  pose proof (h2pe_T19 N R1 R2 K M T HN HR1 HK HT Hm HM10) as [T19 MT].
  pose proof (h2pe_N38 N R1 R2 K M T HN HR1 HK HT Hm HM10) as N38.
  pose proof (h2pe_VAR_bounds N R1 R2 K M T HN HR1 HK HT Hm HM10) as (V0 & _ & _).
  pose proof (h2pe_xl_nonneg N R1 R2 K M T HN HR1 HK HT Hm HM10) as XL0.
  pose proof (h2pe_xr_lt N R1 R2 K M T HN HR1 HK HT Hm HM10) as XRT.
  set (VAR := (N - K) * K * R1 * R2 / ((N - 1) * N * N)) in * .
  set (D := 3 / 2 * sqrt VAR + 1 / 2) in * .
  assert (0 <= sqrt VAR) as S0 by apply sqrt_pos.
  assert (m <= t)%Z as Hmt.
  { apply le_IZR. fold M T. lra. }
  (* values of the set-up expressions *)
  assert (Ed : evalX (Dy 3 (-1) *. esqrt (zf (n - k) *. zf k *. zf n1 *. zf n2 /. (zf (n - 1) *. zf n *. zf n)) +. half) = Xreal D).
  { assert (evalX (zf (n - k) *. zf k *. zf n1 *. zf n2 /. (zf (n - 1) *. zf n *. zf n)) = Xreal VAR) as EV.
    { cbn [evalX xbin]. rewrite !zf_eval. rewrite !minus_IZR. fold N K R1 R2. simpl (IZR 1).
      change (Xreal (N - K) * Xreal K * Xreal R1 * Xreal R2)%XR with (Xreal ((N - K) * K * R1 * R2)).
      change (Xreal (N - 1) * Xreal N * Xreal N)%XR with (Xreal ((N - 1) * N * N)).
      apply xdiv_real. assert (0 < (N - 1) * N * N) by (apply Rmult_lt_0_compat; [apply Rmult_lt_0_compat|]; lra). lra. }
    change (evalX (Dy 3 (-1) *. esqrt (zf (n - k) *. zf k *. zf n1 *. zf n2 /. (zf (n - 1) *. zf n *. zf n)) +. half))
      with (Xadd (Xmul (evalX (Dy 3 (-1))) (evalX (esqrt (zf (n - k) *. zf k *. zf n1 *. zf n2 /. (zf (n - 1) *. zf n *. zf n))))) (evalX half)).
    rewrite (sqrt_eval _ VAR EV V0), dy3h_eval, half_eval. unfold D. cbn. f_equal. lra. }
  set (de := Dy 3 (-1) *. esqrt (zf (n - k) *. zf k *. zf n1 *. zf n2 /. (zf (n - 1) *. zf n *. zf n)) +. half) in * .
  assert (Exl : evalX (zf m -. de +. half) = Xreal (M - D + 1 / 2)).
  { cbn [evalX xbin]. rewrite zf_eval, Ed, half_eval. fold M. cbn. f_equal. lra. }
  assert (Exr : evalX (zf m +. de +. half) = Xreal (M + D + 1 / 2)).
  { cbn [evalX xbin]. rewrite zf_eval, Ed, half_eval. fold M. cbn. f_equal. lra. }
  assert (Ep1 : evalX (num 2 *. de) = Xreal (2 * D)).
  { cbn [evalX xbin]. rewrite num_eval, Ed. reflexivity. }
  set (xle := zf m -. de +. half) in * . set (xre := zf m +. de +. half) in * .
  (* lambda_l >= 0 and lambda_r >= 0 whenever defined *)
  assert (HLL : forall x, evalX (eneg (eln ((xle *. (zf (n2 - k) +. xle)) /. ((zf n1 -. xle +. one) *. (zf k -. xle +. one))))) = Xreal x -> 0 <= x).
  { intros x Ex. unfold eneg, eln in Ex. cbn [evalX xbin xun] in Ex. rewrite Exl, !zf_eval, one_eval, minus_IZR in Ex.
    fold R1 R2 K in Ex. set (XL := M - D + 1 / 2) in * .
    apply xneg_inv in Ex. destruct Ex as (l & El & ->). apply xln_inv in El. destruct El as (r & Er & Rp & ->).
    change (Xreal XL * (Xreal (R2 - K) + Xreal XL))%XR with (Xreal (XL * (R2 - K + XL))) in Er.
    change ((Xreal R1 - Xreal XL + Xreal 1) * (Xreal K - Xreal XL + Xreal 1))%XR with (Xreal ((R1 - XL + 1) * (K - XL + 1))) in Er.
    apply xdiv_inv in Er. destruct Er as (a & b & Ha & Hb & NZ & ->). injection Ha as <-. injection Hb as <-.
    destruct (h2pe_ratio_l N R1 R2 K M T HN HR1 HK HT Hm HM10 XL) as [A B]; [split; [exact XL0|unfold XL, D; lra]|].
    assert (XL * (R2 - K + XL) / ((R1 - XL + 1) * (K - XL + 1)) <= 1) by (apply div_le_1; assumption).
    assert (ln (XL * (R2 - K + XL) / ((R1 - XL + 1) * (K - XL + 1))) <= 0); [|lra].
    rewrite <- ln_1. destruct H as [H|H]; [left; apply ln_increasing; assumption|rewrite H; lra]. }
  assert (HLR : forall x, evalX (eneg (eln (((zf n1 -. xre +. one) *. (zf k -. xre +. one)) /. (xre *. (zf (n2 - k) +. xre))))) = Xreal x -> 0 <= x).
  { intros x Ex. unfold eneg, eln in Ex. cbn [evalX xbin xun] in Ex. rewrite Exr, !zf_eval, one_eval, minus_IZR in Ex.
    fold R1 R2 K in Ex. set (XR := M + D + 1 / 2) in * .
    apply xneg_inv in Ex. destruct Ex as (l & El & ->). apply xln_inv in El. destruct El as (r & Er & Rp & ->).
    change (Xreal XR * (Xreal (R2 - K) + Xreal XR))%XR with (Xreal (XR * (R2 - K + XR))) in Er.
    change ((Xreal R1 - Xreal XR + Xreal 1) * (Xreal K - Xreal XR + Xreal 1))%XR with (Xreal ((R1 - XR + 1) * (K - XR + 1))) in Er.
    apply xdiv_inv in Er. destruct Er as (a & b & Ha & Hb & NZ & ->). injection Ha as <-. injection Hb as <-.
    destruct (h2pe_ratio_r N R1 R2 K M HN HR1 HK Hm HM10 XR) as [A B]; [unfold XR, D; lra|].
    assert ((R1 - XR + 1) * (K - XR + 1) / (XR * (R2 - K + XR)) < 1) by (apply div_lt_1; assumption).
    assert (ln ((R1 - XR + 1) * (K - XR + 1) / (XR * (R2 - K + XR))) < 0); [|lra].
    rewrite <- ln_1. apply ln_increasing; assumption. }
  set (lle := eneg (eln ((xle *. (zf (n2 - k) +. xle)) /. ((zf n1 -. xle +. one) *. (zf k -. xle +. one))))) in * .
  set (lre := eneg (eln (((zf n1 -. xre +. one) *. (zf k -. xre +. one)) /. (xre *. (zf (n2 - k) +. xre))))) in * .
  (* p3 >= 0 whenever defined *)
  match goal with |- allout _ _ (h2pe_loop _ _ _ _ ?a _ _ _ _ _ _ (_ +. eexp ?kl /. _ +. eexp ?kr /. _) _ _) =>
    set (ae := a); set (kle := kl); set (kre := kr) end.
  assert (HP3 : forall x, evalX (num 2 *. de +. eexp kle /. lle +. eexp kre /. lre) = Xreal x -> 0 <= x).
  { intros x Ex.
    change (evalX (num 2 *. de +. eexp kle /. lle +. eexp kre /. lre))
      with (Xadd (Xadd (evalX (num 2 *. de)) (Xdiv (Xexp (evalX kle)) (evalX lle))) (Xdiv (Xexp (evalX kre)) (evalX lre))) in Ex.
    rewrite Ep1 in Ex. apply xadd_inv in Ex. destruct Ex as (a1 & b1 & Ha1 & Hb1 & ->).
    apply xadd_inv in Ha1. destruct Ha1 as (a2 & b2 & Ha2 & Hb2 & ->). injection Ha2 as <-.
    apply xdiv_inv in Hb1. destruct Hb1 as (e1 & l1 & He1 & Hl1 & NZ1 & ->).
    apply xdiv_inv in Hb2. destruct Hb2 as (e2 & l2 & He2 & Hl2 & NZ2 & ->).
    apply xexp_inv in He1. destruct He1 as (z1 & _ & ->). apply xexp_inv in He2. destruct He2 as (z2 & _ & ->).
    pose proof (HLR l1 Hl1). pose proof (HLL l2 Hl2). pose proof (exp_pos z1). pose proof (exp_pos z2).
    assert (0 < exp z1 / l1) by (apply Rdiv_lt_0_compat; lra). assert (0 < exp z2 / l2) by (apply Rdiv_lt_0_compat; lra).
    unfold D. lra. }
  apply h2pe_loop_spec with (XL := M - D + 1 / 2) (XR := M + D + 1 / 2) (P1 := 2 * D); try assumption.
  - fold t. split; [apply le_IZR; fold M; simpl; lra|exact Hmt].
  - lia.
  - fold M. unfold D. lra.
  - unfold D. lra.
  - fold t T. lra.
Qed.
Local Open Scope Z_scope.

(* ---- the complete sampler ------------------------------------------------------------------------------------ *)
Definition hyper_core (n n1 n2 k sg off : Z) : sampler Z :=
  m <- sfloor ((zf k +. one) *. (zf n1 +. one) /. (zf n +. num 2)) ;;
  x <- (if m - Z.max 0 (k - n2) <? 10 then
          let '(p, x0) := if k <? n2 then (fraction_of_products_of_factorials n2 (n - k) n (n2 - k), 0)
                          else (fraction_of_products_of_factorials n1 k n (k - n2), k - n2) in
          u <- draw_std F64 ;;
          hin_loop (Z.to_nat (Z.min n1 k - x0) + 2) n1 n2 k u p x0
        else h2pe_branch n n1 n2 k m) ;;
  sret ((off + sg * x) mod 2 ^ 64).

Lemma hypergeometric_unfold N K ns :
  hypergeometric N K ns =
  if 2 ^ 51 <=? N then sfail 4 else
  let without := N - K in
  let '(sign_x, offset_x, n1, n2) :=
    if without <? K then (-1, ns, without, K) else (1, 0, K, without) in
  let '(k, offset_x, sign_x) :=
    if ns <=? N / 2 then (ns, offset_x, sign_x) else (N - ns, offset_x + n1 * sign_x, - sign_x) in
  hyper_core N n1 n2 k sign_x offset_x.
Proof. unfold hypergeometric, hyper_core, h2pe_branch. reflexivity. Qed.

Lemma hyper_core_support n n1 n2 k sg off lo hi ws :
  n1 + n2 = n -> 0 <= n1 <= n2 -> 0 <= k -> 2 * k <= n ->
  (forall x, Z.max 0 (k - n2) <= x <= Z.min n1 k -> lo <= off + sg * x <= hi) -> 0 <= lo -> hi < 2 ^ 64 ->
  Forall word ws ->
  allout (fun q => lo <= fst q <= hi) nopanic (hyper_core n n1 n2 k sg off ws).
Proof.
  intros Hn Hn1 Hk0 Hk2 Hmap Hlo Hhi Hw. unfold hyper_core.
  assert (k <= n2) as Hkn2 by lia.
  replace (Z.max 0 (k - n2)) with 0 in * by lia.
  unfold sfloor at 1. cbn [sbind bind allout]. intros mr Emr.
  assert (mr = ((IZR k + 1) * (IZR n1 + 1) / (IZR n + 2))%R) as ->.
  { cbn [evalX xbin] in Emr. rewrite !zf_eval, one_eval, num_eval in Emr.
    change ((Xreal (IZR k) + Xreal 1) * (Xreal (IZR n1) + Xreal 1))%XR with (Xreal ((IZR k + 1) * (IZR n1 + 1))) in Emr.
    change (Xreal (IZR n) + Xreal 2)%XR with (Xreal (IZR n + 2)) in Emr.
    rewrite xdiv_real in Emr; [now injection Emr as <-|].
    assert (0 <= IZR n)%R by (apply (IZR_le 0); lia). lra. }
  set (MR := ((IZR k + 1) * (IZR n1 + 1) / (IZR n + 2))%R). set (m := Zfloor MR).
  rewrite Z.sub_0_r.
  apply allout_sbind with (P := fun q : Z * list Z => 0 <= fst q <= Z.min n1 k) (Q := nopanic).
  - destruct (Z.ltb_spec m 10) as [L|L].
    + (* HIN *)
      destruct (Z.ltb_spec k n2) as [L2|L2].
      * eapply allout_mono; [| |apply (hin_one_word n1 n2 k _ 0 ws); lia].
        -- intros [x rest]; cbn [fst snd]. intros [_ B]. exact B.
        -- intros c [-> _]. exact nopanic1.
      * replace (k - n2) with 0 by lia.
        eapply allout_mono; [| |apply (hin_one_word n1 n2 k _ 0 ws); lia].
        -- intros [x rest]; cbn [fst snd]. intros [_ B]. exact B.
        -- intros c [-> _]. exact nopanic1.
    + (* H2PE *)
      apply h2pe_branch_support; try assumption; try lia.
      split; [apply Zfloor_lb|apply Zfloor_ub].
  - auto.
  - intros x ws' Hx. cbn [fst] in Hx. lstep.
    pose proof (Hmap x ltac:(lia)) as Hr. rewrite Z.mod_small by lia. exact Hr.
Qed.

(* Hypergeometric(N, K, n) for K <= N, n <= N, N < 2^51 (larger populations are outside the model:
   failure code 4): the result lies in [max(0, n + K - N), min(n, K)] and no panic site is reachable -
   HIN and H2PE, all four combinations of the two symmetry reductions *)
Theorem hypergeometric_support N K ns ws : 0 <= K <= N -> 0 <= ns <= N -> Forall word ws ->
  allout (fun q => Z.max 0 (ns + K - N) <= fst q <= Z.min ns K) nopanic (hypergeometric N K ns ws).
Proof.
  intros HK Hns Hw. rewrite hypergeometric_unfold.
  destruct (Z.leb_spec (2 ^ 51) N) as [Big|Small]; [cbn; discriminate|].
  cbv zeta.
  assert (Hdiv : 2 * (N / 2) <= N < 2 * (N / 2) + 2).
  { pose proof (Z.div_mod N 2 ltac:(lia)). pose proof (Z.mod_pos_bound N 2 ltac:(lia)). lia. }
  destruct (Z.ltb_spec (N - K) K) as [L1|L1]; destruct (Z.leb_spec ns (N / 2)) as [L2|L2];
    apply hyper_core_support; try assumption; try lia.
Qed.
