(* Proofs/PmfGeometric.v — identities behind Geometric (geometric.rs:102-160) and
   StandardGeometric (geometric.rs:190-200).

   Geometric::new (79-97): pi = (1-p)^(2^k) by k squarings.
   sample (129-159):  d = number of leading draws u < pi            P(D = d) = pi^d (1 - pi)
                      m = uniform in [0,2^k) accepted w.p. (1-p)^m   P(M = m) = (1-p)^m / sum_j (1-p)^j
                      return (d << k) + m
   StandardGeometric::sample (190-200): x = random::<u64>().leading_zeros(); result += x;
                      stop when x < 64.                                                        *)
From Coq Require Import Reals Lra Lia Arith ZArith List Bool.
From RD Require Import Proofs.PmfBinomial.
Open Scope R_scope.

(* ---------------------------------------------------------------- Bringmann–Friedrich split *)

Lemma pow_lt_1_strict : forall q n, 0 < q < 1 -> (0 < n)%nat -> 0 < q ^ n < 1.
Proof.
  intros q n Hq Hn. split; [apply pow_lt; lra|].
  destruct n as [|n]; [lia|]. clear Hn. induction n as [|n IH].
  - simpl. lra.
  - change (q ^ S (S n)) with (q * q ^ S n).
    assert (0 < q ^ S n) by (apply pow_lt; lra). nra.
Qed.

Lemma two_pow_pos : forall k, (0 < 2 ^ k)%nat.
Proof. intros k. induction k; simpl; lia. Qed.

Theorem geometric_pi_lt_1 : forall p k, 0 < p < 1 -> 0 < (1 - p) ^ (2 ^ k) < 1.
Proof. intros p k Hp. apply pow_lt_1_strict; [lra|apply two_pow_pos]. Qed.

Theorem geometric_split : forall (p : R) (k d m : nat), 0 < p < 1 -> (m < 2 ^ k)%nat ->
  let pi := (1 - p) ^ (2 ^ k) in
  (1 - p) ^ (d * 2 ^ k + m) * p = (pi ^ d * (1 - pi)) * ((1 - p) ^ m * p / (1 - pi)).
Proof.
  intros p k d m Hp Hm pi. subst pi.
  assert (Hpi := geometric_pi_lt_1 p k Hp).
  rewrite pow_add. rewrite (Nat.mul_comm d). rewrite pow_mult.
  field. lra.
Qed.

(* the remainder factor is a probability mass function on [0, 2^k) *)
Lemma geometric_partial_sum : forall (p : R) (N : nat),
  psum (fun m => (1 - p) ^ m * p) N = 1 - (1 - p) ^ N.
Proof.
  intros p N. induction N as [|N IH]; [simpl; ring|].
  cbn [psum]. rewrite IH. simpl. ring.
Qed.

Theorem geometric_block_sum : forall (p : R) (k : nat),
  psum (fun m => (1 - p) ^ m * p) (2 ^ k) = 1 - (1 - p) ^ (2 ^ k).
Proof. intros. apply geometric_partial_sum. Qed.

Lemma psum_scal : forall f c N, psum (fun m => f m / c) N = psum f N / c.
Proof.
  intros f c N. induction N as [|N IH]; [simpl; unfold Rdiv; ring|].
  cbn [psum]. rewrite IH. unfold Rdiv. ring.
Qed.

Theorem geometric_remainder_pmf : forall (p : R) (k : nat), 0 < p < 1 ->
  let pi := (1 - p) ^ (2 ^ k) in
  (forall m, 0 < (1 - p) ^ m * p / (1 - pi)) /\
  psum (fun m => (1 - p) ^ m * p / (1 - pi)) (2 ^ k) = 1.
Proof.
  intros p k Hp pi. assert (Hpi := geometric_pi_lt_1 p k Hp). fold pi in Hpi. split.
  - intros m. apply Rdiv_lt_0_compat; [|lra].
    apply Rmult_lt_0_compat; [apply pow_lt|]; lra.
  - rewrite (psum_scal (fun m => (1 - p) ^ m * p)). rewrite geometric_block_sum. fold pi.
    field. lra.
Qed.

(* the quotient factor is the geometric pmf with success probability 1 - pi;
   d is produced by `while random() < pi { failures += 1 }`, i.e. d failures of probability pi
   followed by one success of probability 1 - pi: pi^d * (1 - pi). Its partial sums: *)
Theorem geometric_quotient_sum : forall (p : R) (k D : nat),
  let pi := (1 - p) ^ (2 ^ k) in
  psum (fun d => pi ^ d * (1 - pi)) D = 1 - pi ^ D.
Proof.
  intros p k D pi. assert (H := geometric_partial_sum (1 - pi) D).
  replace (1 - (1 - pi)) with pi in H by ring. exact H.
Qed.

(* (d << k) + m  is a bijection  nat x [0,2^k) -> nat *)
Theorem geometric_decomp : forall (k x : nat),
  exists d m, (m < 2 ^ k)%nat /\ x = (d * 2 ^ k + m)%nat /\
    forall d' m', (m' < 2 ^ k)%nat -> x = (d' * 2 ^ k + m')%nat -> d' = d /\ m' = m.
Proof.
  intros k x. assert (H2 := two_pow_pos k).
  exists (x / 2 ^ k)%nat, (x mod 2 ^ k)%nat. split; [apply Nat.mod_upper_bound; lia|]. split.
  - rewrite (Nat.mul_comm (x / 2 ^ k)). apply Nat.div_mod. lia.
  - intros d' m' Hm' ->. split.
    + rewrite Nat.div_add_l by lia. rewrite (Nat.div_small m') by lia. lia.
    + rewrite Nat.add_comm, Nat.mod_add by lia. symmetry. apply Nat.mod_small. lia.
Qed.

(* ---------------------------------------------------------------- StandardGeometric *)
Open Scope bool_scope.
Open Scope Z_scope.

(* number of w in [0, n) with P w *)
Fixpoint Zcount (P : Z -> bool) (n : nat) : Z :=
  match n with
  | O => 0
  | S n' => Zcount P n' + (if P (Z.of_nat n') then 1 else 0)
  end.

Lemma Zcount_range : forall a b n, 0 <= a ->
  Zcount (fun w => (a <=? w) && (w <? b)) n = Z.max 0 (Z.min b (Z.of_nat n) - a).
Proof.
  intros a b n Ha. induction n as [|n IH].
  - simpl. lia.
  - cbn [Zcount]. rewrite IH. rewrite Nat2Z.inj_succ.
    destruct (Z.leb_spec a (Z.of_nat n)); destruct (Z.ltb_spec (Z.of_nat n) b); simpl; lia.
Qed.

(* u64::leading_zeros *)
Definition lz64 (w : Z) : Z := if w =? 0 then 64 else 63 - Z.log2 w.

Theorem lz64_range : forall w x, 0 <= w < 2 ^ 64 -> 0 <= x < 64 ->
  (lz64 w = x <-> 2 ^ (63 - x) <= w < 2 ^ (64 - x)).
Proof.
  intros w x Hw Hx. unfold lz64. destruct (Z.eqb_spec w 0) as [->|Hne].
  - split; [lia|]. intros [H _]. assert (0 < 2 ^ (63 - x)) by (apply Z.pow_pos_nonneg; lia). lia.
  - assert (Hpos : 0 < w) by lia. split.
    + intros <-. replace (63 - (63 - Z.log2 w)) with (Z.log2 w) by ring.
      replace (64 - (63 - Z.log2 w)) with (Z.succ (Z.log2 w)) by ring.
      apply Z.log2_spec. exact Hpos.
    + intros H. assert (Z.log2 w = 63 - x); [|lia].
      apply Z.log2_unique; [lia|]. replace (Z.succ (63 - x)) with (64 - x) by ring. exact H.
Qed.

Theorem lz64_zero : forall w, 0 <= w < 2 ^ 64 -> (lz64 w = 64 <-> w = 0).
Proof.
  intros w Hw. unfold lz64. destruct (Z.eqb_spec w 0) as [->|Hne]; [tauto|].
  split; [|tauto]. intros H. assert (0 <= Z.log2 w) by apply Z.log2_nonneg. lia.
Qed.

(* lz64 agrees with the bit-level meaning: bit 63-x is set and all higher bits are clear *)
Theorem lz64_bits : forall w x, 0 <= w < 2 ^ 64 -> 0 <= x < 64 -> lz64 w = x ->
  Z.testbit w (63 - x) = true /\ forall j, 63 - x < j -> Z.testbit w j = false.
Proof.
  intros w x Hw Hx H. unfold lz64 in H. destruct (Z.eqb_spec w 0) as [->|Hne]; [lia|].
  assert (Hl : Z.log2 w = 63 - x) by lia. rewrite <- Hl. split.
  - apply Z.bit_log2. lia.
  - intros j Hj. apply Z.bits_above_log2; lia.
Qed.

(* among the 2^64 words exactly 2^(63-x) have x leading zeros: P(X = x) = 2^-(x+1) *)
Theorem std_geometric_form : forall x, 0 <= x < 64 ->
  Zcount (fun w => (2 ^ (63 - x) <=? w) && (w <? 2 ^ (64 - x))) (Z.to_nat (2 ^ 64)) = 2 ^ (63 - x).
Proof.
  intros x Hx. rewrite Zcount_range by (apply Z.pow_nonneg; lia).
  rewrite Z2Nat.id by (apply Z.pow_nonneg; lia).
  assert (H1 : 2 ^ (64 - x) = 2 * 2 ^ (63 - x)).
  { replace (64 - x) with (Z.succ (63 - x)) by ring. apply Z.pow_succ_r. lia. }
  assert (H2 : 2 ^ (64 - x) <= 2 ^ 64) by (apply Z.pow_le_mono_r; lia).
  assert (H3 : 0 < 2 ^ (63 - x)) by (apply Z.pow_pos_nonneg; lia).
  lia.
Qed.

Lemma Zcount_ext : forall P Q n, (forall w, 0 <= w < Z.of_nat n -> P w = Q w) ->
  Zcount P n = Zcount Q n.
Proof.
  intros P Q n H. induction n as [|n IH]; [reflexivity|].
  cbn [Zcount]. rewrite IH, H; [reflexivity|lia|]. intros w Hw. apply H. lia.
Qed.

(* the same count stated with leading_zeros itself *)
Theorem std_geometric_lz_count : forall x, 0 <= x < 64 ->
  Zcount (fun w => lz64 w =? x) (Z.to_nat (2 ^ 64)) = 2 ^ (63 - x).
Proof.
  intros x Hx. rewrite <- (std_geometric_form x Hx). apply Zcount_ext.
  intros w Hw. rewrite Z2Nat.id in Hw by (apply Z.pow_nonneg; lia).
  assert (H := lz64_range w x Hw Hx).
  destruct (Z.eqb_spec (lz64 w) x) as [He|He];
  destruct (Z.leb_spec (2 ^ (63 - x)) w); destruct (Z.ltb_spec w (2 ^ (64 - x))); simpl;
    try reflexivity; exfalso; try (apply He; apply H); try (apply H in He); lia.
Qed.

(* exactly one word (zero) makes the loop continue *)
Theorem std_geometric_continue_count :
  Zcount (fun w => lz64 w =? 64) (Z.to_nat (2 ^ 64)) = 1.
Proof.
  rewrite (Zcount_ext _ (fun w => (0 <=? w) && (w <? 1))).
  - rewrite Zcount_range by lia. rewrite Z2Nat.id by (apply Z.pow_nonneg; lia).
    assert (1 <= 2 ^ 64) by (change 1 with (2 ^ 0); apply Z.pow_le_mono_r; lia). lia.
  - intros w Hw. rewrite Z2Nat.id in Hw by (apply Z.pow_nonneg; lia).
    assert (H := lz64_zero w Hw).
    destruct (Z.eqb_spec (lz64 w) 64) as [He|He]; destruct (Z.leb_spec 0 w);
      destruct (Z.ltb_spec w 1); simpl; try reflexivity; exfalso; try lia.
Qed.

Lemma Zcount_def : forall P,
  Zcount P 0 = 0 /\
  forall n, Zcount P (S n) = Zcount P n + (if P (Z.of_nat n) then 1 else 0).
Proof. intros. split; reflexivity. Qed.

Lemma lz64_def : forall w, lz64 w = if w =? 0 then 64 else 63 - Z.log2 w.
Proof. reflexivity. Qed.
