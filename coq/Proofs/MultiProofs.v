(* Proofs/MultiProofs.v — property C12 (unit geometry): the algebra behind UnitCircle / UnitSphere /
   UnitDisc / UnitBall on ideal reals, and its lift to the models of Model/Multi.v: every result the
   exact semantics `evals` can produce, whose components denote real numbers, lies on the unit
   circle / sphere (resp. in the closed disc / ball).  Also the small amount of infrastructure on
   `evals` shared with Proofs/MultiDirichlet.v (C11).                                              *)
From Coq Require Import Reals ZArith List Lra Lia Bool.
From Interval Require Import Xreal.
From Flocq Require Import Core.
From RD Require Import Base.Expr Base.Run Model.Sampler Model.Continuous Model.Multi.
Import ListNotations.
Open Scope Z_scope.
Open Scope sampler_scope.

Local Notation "a +. b" := (Bin Add a b) (at level 50, left associativity).
Local Notation "a -. b" := (Bin Sub a b) (at level 50, left associativity).
Local Notation "a *. b" := (Bin Mul a b) (at level 40, left associativity).
Local Notation "a /. b" := (Bin Div a b) (at level 40, left associativity).

(* ---- "every result of the exact semantics satisfies P", structurally ------------------------------ *)
Fixpoint msem {A} (P : A -> Prop) (r : run A) : Prop :=
  match r with
  | Ret a => P a
  | Ask c a b k => forall x y, evalX a = Xreal x -> evalX b = Xreal y -> msem P (k (rcmp c x y))
  | AskFloor e k => forall x, evalX e = Xreal x -> msem P (k (Zfloor x))
  | Fail _ => True
  end.

Lemma msem_elim {A} (P : A -> Prop) r v : msem P r -> evals r v -> P v.
Proof. intros H E. induction E; cbn in H; auto. Qed.
Lemma msem_intro {A} (P : A -> Prop) r : (forall v, evals r v -> P v) -> msem P r.
Proof.
  induction r as [a|c a b k IH|e k IH|c]; cbn; intros H.
  - apply H. constructor.
  - intros x y Hx Hy. apply IH. intros v E. apply H. eapply EvAsk; eauto.
  - intros x Hx. apply IH. intros v E. apply H. eapply EvFloor; eauto.
  - exact I.
Qed.
Lemma msem_mono {A} (P Q : A -> Prop) r : (forall a, P a -> Q a) -> msem P r -> msem Q r.
Proof. intros H. induction r; cbn; auto. Qed.
Lemma msem_true {A} (r : run A) : msem (fun _ => True) r.
Proof. induction r; cbn; auto. Qed.
Lemma msem_bind {A B} (Q : B -> Prop) (r : run A) (k : A -> run B) :
  msem (fun a => msem Q (k a)) r -> msem Q (bind r k).
Proof. induction r; cbn; auto. Qed.
Lemma msem_sbind {A B} (Q : B * list Z -> Prop) (P : A * list Z -> Prop) (m : sampler A) (k : A -> sampler B) ws :
  msem P (m ws) -> (forall a ws', P (a, ws') -> msem Q (k a ws')) -> msem Q (sbind m k ws).
Proof.
  intros Hm Hk. unfold sbind. apply msem_bind. eapply msem_mono; [|exact Hm].
  intros [a ws'] Ha. apply Hk, Ha.
Qed.
Lemma msem_sbind_any {A B} (Q : B * list Z -> Prop) (m : sampler A) (k : A -> sampler B) ws :
  (forall a ws', msem Q (k a ws')) -> msem Q (sbind m k ws).
Proof. intros H. apply msem_sbind with (P := fun _ => True); [apply msem_true|auto]. Qed.

Local Open Scope R_scope.

(* ---- values of expressions ----------------------------------------------------------------------------- *)
Lemma Xreal_eq x y : Xreal x = Xreal y -> x = y.
Proof. intros H; inversion H; reflexivity. Qed.

Lemma add_real a b x : evalX (a +. b) = Xreal x ->
  exists xa xb, evalX a = Xreal xa /\ evalX b = Xreal xb /\ x = xa + xb.
Proof. cbn [evalX xbin]. destruct (evalX a), (evalX b); cbn; try discriminate.
  intros H. apply Xreal_eq in H. eauto. Qed.
Lemma sub_real a b x : evalX (a -. b) = Xreal x ->
  exists xa xb, evalX a = Xreal xa /\ evalX b = Xreal xb /\ x = xa - xb.
Proof. cbn [evalX xbin]. destruct (evalX a), (evalX b); cbn; try discriminate.
  intros H. apply Xreal_eq in H. eauto. Qed.
Lemma mul_real a b x : evalX (a *. b) = Xreal x ->
  exists xa xb, evalX a = Xreal xa /\ evalX b = Xreal xb /\ x = xa * xb.
Proof. cbn [evalX xbin]. destruct (evalX a), (evalX b); cbn; try discriminate.
  intros H. apply Xreal_eq in H. eauto. Qed.
Lemma div_real a b x : evalX (a /. b) = Xreal x ->
  exists xa xb, evalX a = Xreal xa /\ evalX b = Xreal xb /\ xb <> 0 /\ x = xa / xb.
Proof. cbn [evalX xbin]. destruct (evalX a) as [|xa], (evalX b) as [|xb]; cbn; try discriminate.
  unfold Xdiv'. destruct (is_zero_spec xb); try discriminate.
  intros H0. apply Xreal_eq in H0. exists xa, xb. auto. Qed.
Lemma sqrt_real a x : evalX (esqrt a) = Xreal x ->
  exists xa, evalX a = Xreal xa /\ x = sqrt xa.
Proof. unfold esqrt. cbn [evalX xun]. destruct (evalX a) as [|xa]; cbn; try discriminate.
  intros H0. apply Xreal_eq in H0. exists xa. auto. Qed.
Lemma num_eval n : evalX (num n) = Xreal (IZR n).
Proof. unfold num. cbn [evalX]. rewrite xdy_real. f_equal. cbn. ring. Qed.
Lemma one_eval : evalX one = Xreal 1.
Proof. apply num_eval. Qed.
Lemma two_eval : evalX two = Xreal 2.
Proof. apply num_eval. Qed.

(* ---- the draw of Uniform::new(-1, 1) --------------------------------------------------------------------- *)
Definition u_pm1_R (t : fty) (w : Z) : R :=
  match t with
  | F64 => IZR (w / 2^12 - 2^51) * powerRZ 2 (-51)
  | F32 => IZR (hi32 w / 2^9 - 2^22) * powerRZ 2 (-22)
  end.
Lemma u_pm1_eval t w : evalX (u_pm1 t w) = Xreal (u_pm1_R t w).
Proof. destruct t; cbn [u_pm1 evalX u_pm1_R]; apply xdy_real. Qed.

Lemma scaled_range (k n : Z) : (0 <= k < 2 * 2 ^ n)%Z -> (0 <= n)%Z ->
  -1 <= IZR (k - 2 ^ n) * powerRZ 2 (- n) < 1.
Proof.
  intros Hk Hn.
  assert (P : 0 < powerRZ 2 n) by (apply powerRZ_lt; lra).
  assert (E : powerRZ 2 (- n) * powerRZ 2 n = 1).
  { rewrite <- powerRZ_add by lra. replace (- n + n)%Z with 0%Z by lia. reflexivity. }
  assert (Q : 0 < powerRZ 2 (- n)) by (apply powerRZ_lt; lra).
  assert (Z2 : IZR (2 ^ n) = powerRZ 2 n).
  { change (2 ^ n)%Z with (radix2 ^ n)%Z. rewrite IZR_Zpower by lia. rewrite bpow_powerRZ. reflexivity. }
  assert (L : - powerRZ 2 n <= IZR (k - 2 ^ n)).
  { rewrite <- Z2, <- opp_IZR. apply IZR_le. lia. }
  assert (U : IZR (k - 2 ^ n) <= powerRZ 2 n - 1).
  { rewrite <- Z2. change 1 with (IZR 1). rewrite <- minus_IZR. apply IZR_le. lia. }
  pose proof (Rmult_le_compat_r _ _ _ (Rlt_le _ _ Q) L) as X1.
  pose proof (Rmult_le_compat_r _ _ _ (Rlt_le _ _ Q) U) as X2.
  split; nra.
Qed.

(* for every 64-bit word the draw is a real number (never NaN) of [-1, 1) *)
Theorem u_pm1_range t w : (0 <= w < 2 ^ 64)%Z ->
  exists r, evalX (u_pm1 t w) = Xreal r /\ -1 <= r < 1.
Proof.
  intros Hw. exists (u_pm1_R t w). split; [apply u_pm1_eval|].
  destruct t; unfold u_pm1_R.
  - apply (scaled_range (hi32 w / 2 ^ 9) 22); [|lia]. unfold hi32.
    assert (0 <= w / 2 ^ 32 < 2 ^ 32)%Z.
    { split; [apply Z.div_pos; lia|apply Z.div_lt_upper_bound; lia]. }
    split; [apply Z.div_pos; lia|apply Z.div_lt_upper_bound; lia].
  - apply (scaled_range (w / 2 ^ 12) 51); [|lia].
    split; [apply Z.div_pos; lia|apply Z.div_lt_upper_bound; lia].
Qed.

(* ---- C12: algebra on ideal reals ---------------------------------------------------------------------------- *)
Theorem circle_norm x1 x2 : x1 * x1 + x2 * x2 <> 0 ->
  let s := x1 * x1 + x2 * x2 in
  ((x1 * x1 - x2 * x2) / s) ^ 2 + (2 * x1 * x2 / s) ^ 2 = 1.
Proof. intros H s. unfold s. field. exact H. Qed.

Theorem sphere_norm x1 x2 : 0 <= x1 * x1 + x2 * x2 < 1 ->
  let s := x1 * x1 + x2 * x2 in
  let factor := 2 * sqrt (1 - s) in
  (x1 * factor) ^ 2 + (x2 * factor) ^ 2 + (1 - 2 * s) ^ 2 = 1.
Proof.
  intros H s factor.
  assert (Q : sqrt (1 - s) * sqrt (1 - s) = 1 - s) by (apply sqrt_sqrt; unfold s; lra).
  replace ((x1 * factor) ^ 2 + (x2 * factor) ^ 2) with (4 * s * (sqrt (1 - s) * sqrt (1 - s)))
    by (unfold factor, s; ring).
  rewrite Q. ring.
Qed.

(* the third coordinate of UnitSphere is the affine function 1 - 2 s of s = x1^2 + x2^2 (which is what makes
   it uniform on [-1,1] when s is uniform on [0,1)): it ranges over (-1, 1] *)
Theorem sphere_z_linear x1 x2 : 0 <= x1 * x1 + x2 * x2 < 1 ->
  let s := x1 * x1 + x2 * x2 in
  nth 2 [x1 * (2 * sqrt (1 - s)); x2 * (2 * sqrt (1 - s)); 1 - 2 * s] 0 = 1 - 2 * s /\ -1 < 1 - 2 * s <= 1.
Proof. intros H s. split; [reflexivity|unfold s; lra]. Qed.

(* the accepted points of UnitDisc / UnitBall *)
Theorem disc_ball_norm :
  (forall x1 x2, rcmp CLe (x1 * x1 + x2 * x2) 1 = true -> x1 ^ 2 + x2 ^ 2 <= 1) /\
  (forall x1 x2 x3, rcmp CLe (x1 * x1 + x2 * x2 + x3 * x3) 1 = true -> x1 ^ 2 + x2 ^ 2 + x3 ^ 2 <= 1).
Proof.
  split; intros; unfold rcmp in * .
  - destruct (Rle_dec (x1 * x1 + x2 * x2) 1); [|discriminate]. lra.
  - destruct (Rle_dec (x1 * x1 + x2 * x2 + x3 * x3) 1); [|discriminate]. lra.
Qed.

(* von Neumann's trick: a point of the disc at angle theta is mapped to the point of the circle at angle 2 theta *)
Theorem circle_angle_doubling r theta : 0 < r ->
  let x1 := r * cos theta in let x2 := r * sin theta in
  let s := x1 * x1 + x2 * x2 in
  (x1 * x1 - x2 * x2) / s = cos (2 * theta) /\ 2 * x1 * x2 / s = sin (2 * theta).
Proof.
  intros Hr x1 x2 s.
  assert (T : sin theta * sin theta + cos theta * cos theta = 1).
  { generalize (sin2_cos2 theta). unfold Rsqr. auto. }
  assert (S : s = r * r).
  { unfold s, x1, x2. replace (r * r) with (r * r * (sin theta * sin theta + cos theta * cos theta)) by (rewrite T; ring). ring. }
  assert (N : r * r <> 0) by nra.
  rewrite S, cos_2a, sin_2a. unfold x1, x2. split; field; lra.
Qed.

(* ---- C12: lift to the models ------------------------------------------------------------------------------------ *)
Arguments u_pm1 : simpl never.

Definition vals (es : list expr) (rs : list R) : Prop := Forall2 (fun e r => evalX e = Xreal r) es rs.

Definition on_circle (p : list expr * list Z) : Prop :=
  exists e1 e2, fst p = [e1; e2] /\ forall a b, evalX e1 = Xreal a -> evalX e2 = Xreal b -> a ^ 2 + b ^ 2 = 1.
Definition on_sphere (p : list expr * list Z) : Prop :=
  exists e1 e2 e3, fst p = [e1; e2; e3] /\
    forall a b c, evalX e1 = Xreal a -> evalX e2 = Xreal b -> evalX e3 = Xreal c -> a ^ 2 + b ^ 2 + c ^ 2 = 1.
Definition in_disc (p : list expr * list Z) : Prop :=
  exists e1 e2, fst p = [e1; e2] /\ forall a b, evalX e1 = Xreal a -> evalX e2 = Xreal b -> a ^ 2 + b ^ 2 <= 1.
Definition in_ball (p : list expr * list Z) : Prop :=
  exists e1 e2 e3, fst p = [e1; e2; e3] /\
    forall a b c, evalX e1 = Xreal a -> evalX e2 = Xreal b -> evalX e3 = Xreal c -> a ^ 2 + b ^ 2 + c ^ 2 <= 1.

Lemma sq_sum_eval x1 x2 r1 r2 : evalX x1 = Xreal r1 -> evalX x2 = Xreal r2 ->
  evalX (x1 *. x1 +. x2 *. x2) = Xreal (r1 * r1 + r2 * r2).
Proof. intros H1 H2. cbn [evalX xbin]. rewrite H1, H2. reflexivity. Qed.

Lemma circle_out_on x1 x2 r1 r2 ws : evalX x1 = Xreal r1 -> evalX x2 = Xreal r2 ->
  on_circle (circle_out x1 x2, ws).
Proof.
  intros H1 H2. unfold circle_out. do 2 eexists. split; [reflexivity|]. intros a b Ha Hb.
  apply div_real in Ha. destruct Ha as (n1 & d1 & En1 & Ed1 & Nz & ->).
  apply div_real in Hb. destruct Hb as (n2 & d2 & En2 & Ed2 & _ & ->).
  rewrite (sq_sum_eval _ _ _ _ H1 H2) in Ed1, Ed2. apply Xreal_eq in Ed1, Ed2. subst d1 d2.
  cbn [evalX xbin] in En1, En2. rewrite H1, H2 in En1, En2. rewrite two_eval in En2. cbn in En1, En2.
  apply Xreal_eq in En1, En2. subst n1 n2.
  apply circle_norm. exact Nz.
Qed.

Lemma sphere_out_on x1 x2 r1 r2 ws : evalX x1 = Xreal r1 -> evalX x2 = Xreal r2 ->
  r1 * r1 + r2 * r2 < 1 -> on_sphere (sphere_out x1 x2, ws).
Proof.
  intros H1 H2 Hs. unfold sphere_out. do 3 eexists. split; [reflexivity|]. intros a b c Ha Hb Hc.
  pose proof (sq_sum_eval _ _ _ _ H1 H2) as Es.
  assert (Ef : evalX (two *. esqrt (one -. (x1 *. x1 +. x2 *. x2)))
               = Xreal (2 * sqrt (1 - (r1 * r1 + r2 * r2)))).
  { unfold esqrt. cbn [evalX xbin xun]. cbn [evalX xbin] in Es. rewrite Es, one_eval, two_eval. reflexivity. }
  apply mul_real in Ha. destruct Ha as (a1 & f1 & Ea & Ef1 & ->).
  apply mul_real in Hb. destruct Hb as (b1 & f2 & Eb & Ef2 & ->).
  rewrite Ef in Ef1, Ef2. rewrite H1 in Ea. rewrite H2 in Eb. apply Xreal_eq in Ef1, Ef2, Ea, Eb. subst.
  cbn [evalX xbin] in Hc. cbn [evalX xbin] in Es. rewrite Es, one_eval, two_eval in Hc. cbn in Hc.
  apply Xreal_eq in Hc. subst c.
  apply sphere_norm. nra.
Qed.

(* accepted candidates have 0 < x1^2 + x2^2 < 1: both output components denote real numbers (no 0/0) *)
Definition on_circle_real (p : list expr * list Z) : Prop :=
  exists e1 e2 a b, fst p = [e1; e2] /\ evalX e1 = Xreal a /\ evalX e2 = Xreal b /\ a ^ 2 + b ^ 2 = 1.

Lemma xdiv_real a b : b <> 0 -> Xdiv (Xreal a) (Xreal b) = Xreal (a / b).
Proof. intros H. cbn. unfold Xdiv'. destruct (is_zero_spec b); [contradiction|reflexivity]. Qed.

Lemma circle_out_real x1 x2 r1 r2 ws : evalX x1 = Xreal r1 -> evalX x2 = Xreal r2 ->
  r1 * r1 + r2 * r2 <> 0 -> on_circle_real (circle_out x1 x2, ws).
Proof.
  intros H1 H2 Nz. unfold circle_out.
  exists ((x1 *. x1 -. x2 *. x2) /. (x1 *. x1 +. x2 *. x2)), (two *. x1 *. x2 /. (x1 *. x1 +. x2 *. x2)).
  exists ((r1 * r1 - r2 * r2) / (r1 * r1 + r2 * r2)), (2 * r1 * r2 / (r1 * r1 + r2 * r2)).
  split; [reflexivity|]. split; [|split].
  - cbn [evalX xbin]. rewrite H1, H2. cbn [Xmul Xadd Xsub]. apply xdiv_real. exact Nz.
  - cbn [evalX xbin]. rewrite H1, H2, two_eval. cbn [Xmul Xadd Xsub]. apply xdiv_real. exact Nz.
  - apply circle_norm. exact Nz.
Qed.

Lemma circle_loop_sem_real fuel t : forall ws, msem on_circle_real (unit_circle_loop fuel t ws).
Proof.
  induction fuel as [|f IH]; intros ws; [exact I|].
  destruct ws as [|w1 [|w2 ws]]; try exact I.
  cbn [unit_circle_loop unit_disc_loop unit_sphere_loop unit_ball_loop sbind draw_pm1 next_word sret sask bind msem fst]. intros x y Hx Hy.
  destruct (rcmp CLt x y); cbn [unit_circle_loop unit_disc_loop unit_sphere_loop unit_ball_loop sbind draw_pm1 next_word sret sask bind msem fst]; [|apply IH].
  intros x' y' Hx' Hy'.
  destruct (rcmp CGt x' y') eqn:C; cbn [unit_circle_loop unit_disc_loop unit_sphere_loop unit_ball_loop sbind draw_pm1 next_word sret sask bind msem fst]; [|apply IH].
  rewrite (sq_sum_eval _ _ _ _ (u_pm1_eval t w1) (u_pm1_eval t w2)) in Hx'. rewrite num_eval in Hy'.
  apply Xreal_eq in Hx', Hy'. subst x' y'.
  eapply circle_out_real; try apply u_pm1_eval.
  unfold rcmp in C. destruct (Rlt_dec 0 (u_pm1_R t w1 * u_pm1_R t w1 + u_pm1_R t w2 * u_pm1_R t w2)); [lra|discriminate C].
Qed.

Lemma circle_loop_sem fuel t : forall ws, msem on_circle (unit_circle_loop fuel t ws).
Proof.
  intros ws. eapply msem_mono; [|apply circle_loop_sem_real].
  intros [out rest] (e1 & e2 & a & b & E & Ha & Hb & N). exists e1, e2. split; [exact E|].
  intros a' b' Ha' Hb'. rewrite Ha in Ha'. rewrite Hb in Hb'. apply Xreal_eq in Ha', Hb'. subst. exact N.
Qed.

Lemma disc_loop_sem fuel t : forall ws, msem in_disc (unit_disc_loop fuel t ws).
Proof.
  induction fuel as [|f IH]; intros ws; [exact I|].
  destruct ws as [|w1 [|w2 ws]]; try exact I.
  cbn [unit_circle_loop unit_disc_loop unit_sphere_loop unit_ball_loop sbind draw_pm1 next_word sret sask bind msem fst]. intros x y Hx Hy.
  destruct (rcmp CLe x y) eqn:C; cbn [unit_circle_loop unit_disc_loop unit_sphere_loop unit_ball_loop sbind draw_pm1 next_word sret sask bind msem fst]; [|apply IH].
  do 2 eexists. split; [reflexivity|]. intros a b Ha Hb.
  rewrite (sq_sum_eval _ _ _ _ Ha Hb) in Hx. rewrite one_eval in Hy. apply Xreal_eq in Hx, Hy. subst x y.
  apply (proj1 disc_ball_norm). exact C.
Qed.

Lemma sphere_loop_sem fuel t : forall ws, msem on_sphere (unit_sphere_loop fuel t ws).
Proof.
  induction fuel as [|f IH]; intros ws; [exact I|].
  destruct ws as [|w1 [|w2 ws]]; try exact I.
  cbn [unit_circle_loop unit_disc_loop unit_sphere_loop unit_ball_loop sbind draw_pm1 next_word sret sask bind msem fst]. intros x y Hx Hy.
  destruct (rcmp CGe x y) eqn:C; cbn [unit_circle_loop unit_disc_loop unit_sphere_loop unit_ball_loop sbind draw_pm1 next_word sret sask bind msem fst]; [apply IH|].
  rewrite (sq_sum_eval _ _ _ _ (u_pm1_eval t w1) (u_pm1_eval t w2)) in Hx. rewrite one_eval in Hy.
  apply Xreal_eq in Hx, Hy. subst x y.
  eapply sphere_out_on; try apply u_pm1_eval.
  unfold rcmp in C. destruct (Rle_dec 1 (u_pm1_R t w1 * u_pm1_R t w1 + u_pm1_R t w2 * u_pm1_R t w2)); [discriminate|lra].
Qed.

Lemma ball_loop_sem fuel t : forall ws, msem in_ball (unit_ball_loop fuel t ws).
Proof.
  induction fuel as [|f IH]; intros ws; [exact I|].
  destruct ws as [|w1 [|w2 [|w3 ws]]]; try exact I.
  cbn [unit_circle_loop unit_disc_loop unit_sphere_loop unit_ball_loop sbind draw_pm1 next_word sret sask bind msem fst]. intros x y Hx Hy.
  destruct (rcmp CLe x y) eqn:C; cbn [unit_circle_loop unit_disc_loop unit_sphere_loop unit_ball_loop sbind draw_pm1 next_word sret sask bind msem fst]; [|apply IH].
  do 3 eexists. split; [reflexivity|]. intros a b c Ha Hb Hc.
  cbn [evalX xbin] in Hx. rewrite Ha, Hb, Hc in Hx. cbn in Hx. rewrite one_eval in Hy.
  apply Xreal_eq in Hx, Hy. subst x y.
  apply (proj2 disc_ball_norm). exact C.
Qed.

(* every result of the model of UnitCircle has two components; when they denote reals, the point is on the circle *)
Theorem unit_circle_on_circle t ws out rest : evals (unit_circle t ws) (out, rest) ->
  exists e1 e2, out = [e1; e2] /\ forall a b, evalX e1 = Xreal a -> evalX e2 = Xreal b -> a ^ 2 + b ^ 2 = 1.
Proof. intros E. unfold unit_circle in E. exact (msem_elim on_circle _ (out, rest) (circle_loop_sem 64 t ws) E). Qed.

Theorem unit_sphere_on_sphere t ws out rest : evals (unit_sphere t ws) (out, rest) ->
  exists e1 e2 e3, out = [e1; e2; e3] /\
    forall a b c, evalX e1 = Xreal a -> evalX e2 = Xreal b -> evalX e3 = Xreal c -> a ^ 2 + b ^ 2 + c ^ 2 = 1.
Proof. intros E. exact (msem_elim _ _ _ (sphere_loop_sem 64 t ws) E). Qed.

Theorem unit_disc_in_disc t ws out rest : evals (unit_disc t ws) (out, rest) ->
  exists e1 e2, out = [e1; e2] /\ forall a b, evalX e1 = Xreal a -> evalX e2 = Xreal b -> a ^ 2 + b ^ 2 <= 1.
Proof. intros E. exact (msem_elim _ _ _ (disc_loop_sem 64 t ws) E). Qed.

Theorem unit_ball_in_ball t ws out rest : evals (unit_ball t ws) (out, rest) ->
  exists e1 e2 e3, out = [e1; e2; e3] /\
    forall a b c, evalX e1 = Xreal a -> evalX e2 = Xreal b -> evalX e3 = Xreal c -> a ^ 2 + b ^ 2 + c ^ 2 <= 1.
Proof. intros E. exact (msem_elim _ _ _ (ball_loop_sem 64 t ws) E). Qed.

(* the form asked for: results given as explicit lists *)
Corollary unit_circle_norm t ws e1 e2 rest a b :
  evals (unit_circle t ws) ([e1; e2], rest) -> evalX e1 = Xreal a -> evalX e2 = Xreal b -> a ^ 2 + b ^ 2 = 1.
Proof.
  intros E Ha Hb. destruct (unit_circle_on_circle _ _ _ _ E) as (f1 & f2 & Eq & H).
  injection Eq as -> ->. auto.
Qed.
Corollary unit_sphere_norm t ws e1 e2 e3 rest a b c :
  evals (unit_sphere t ws) ([e1; e2; e3], rest) ->
  evalX e1 = Xreal a -> evalX e2 = Xreal b -> evalX e3 = Xreal c -> a ^ 2 + b ^ 2 + c ^ 2 = 1.
Proof.
  intros E Ha Hb Hc. destruct (unit_sphere_on_sphere _ _ _ _ E) as (f1 & f2 & f3 & Eq & H).
  injection Eq as -> -> ->. auto.
Qed.
Corollary unit_disc_norm t ws e1 e2 rest a b :
  evals (unit_disc t ws) ([e1; e2], rest) -> evalX e1 = Xreal a -> evalX e2 = Xreal b -> a ^ 2 + b ^ 2 <= 1.
Proof.
  intros E Ha Hb. destruct (unit_disc_in_disc _ _ _ _ E) as (f1 & f2 & Eq & H).
  injection Eq as -> ->. auto.
Qed.
Corollary unit_ball_norm t ws e1 e2 e3 rest a b c :
  evals (unit_ball t ws) ([e1; e2; e3], rest) ->
  evalX e1 = Xreal a -> evalX e2 = Xreal b -> evalX e3 = Xreal c -> a ^ 2 + b ^ 2 + c ^ 2 <= 1.
Proof.
  intros E Ha Hb Hc. destruct (unit_ball_in_ball _ _ _ _ E) as (f1 & f2 & f3 & Eq & H).
  injection Eq as -> -> ->. auto.
Qed.

(* since the origin is rejected (fix 4622ae6 in the crate), EVERY result of UnitCircle consists of two real numbers on the circle:
   the hypothesis "the components denote real numbers" of unit_circle_norm is always met — no NaN *)
Theorem unit_circle_real t ws out rest : evals (unit_circle t ws) (out, rest) ->
  exists e1 e2 a b, out = [e1; e2] /\ evalX e1 = Xreal a /\ evalX e2 = Xreal b /\ a ^ 2 + b ^ 2 = 1.
Proof. intros E. unfold unit_circle in E. exact (msem_elim on_circle_real _ (out, rest) (circle_loop_sem_real 64 t ws) E). Qed.

(* the candidate (0,0) (both words with top bits 1000..0) is rejected: the sampler goes on to the next two words *)
Lemma evals_ask_inv {A} c a b (k : bool -> run A) v x y :
  evals (Ask c a b k) v -> evalX a = Xreal x -> evalX b = Xreal y -> evals (k (rcmp c x y)) v.
Proof.
  intros E Ha Hb. inversion E as [| c' a' b' k' x' y' v' Hx Hy E1 |].
  rewrite Ha in Hx. rewrite Hb in Hy. apply Xreal_eq in Hx, Hy. subst x' y'. exact E1.
Qed.
Lemma circle_loop_origin f t ws out :
  evals (unit_circle_loop (S f) t (2 ^ 63 :: 2 ^ 63 :: ws)%Z) out <-> evals (unit_circle_loop f t ws) out.
Proof.
  assert (E0 : evalX (u_pm1 t (2 ^ 63)) = Xreal 0).
  { rewrite u_pm1_eval. f_equal. destruct t; unfold u_pm1_R, hi32.
    - change (2 ^ 63 / 2 ^ 32 / 2 ^ 9 - 2 ^ 22)%Z with 0%Z. apply Rmult_0_l.
    - change (2 ^ 63 / 2 ^ 12 - 2 ^ 51)%Z with 0%Z. apply Rmult_0_l. }
  pose proof (sq_sum_eval _ _ _ _ E0 E0) as ES.
  assert (C1 : rcmp CLt (0 * 0 + 0 * 0) 1 = true) by (unfold rcmp; destruct (Rlt_dec (0 * 0 + 0 * 0) 1); [reflexivity|lra]).
  assert (C2 : rcmp CGt (0 * 0 + 0 * 0) 0 = false) by (unfold rcmp; destruct (Rlt_dec 0 (0 * 0 + 0 * 0)); [lra|reflexivity]).
  cbn [unit_circle_loop sbind draw_pm1 next_word sret sask bind]. split.
  - intros E. pose proof (evals_ask_inv _ _ _ _ _ _ _ E ES one_eval) as E1. cbv beta in E1. rewrite C1 in E1.
    cbn [sbind sask sret bind] in E1.
    pose proof (evals_ask_inv _ _ _ _ _ _ _ E1 ES (num_eval 0)) as E2. cbv beta in E2. rewrite C2 in E2. exact E2.
  - intros E. eapply EvAsk; [exact ES|apply one_eval|]. rewrite C1. cbn [sbind sask sret bind].
    eapply EvAsk; [exact ES|apply num_eval|]. rewrite C2. exact E.
Qed.
Theorem circle_origin_rejected t ws out :
  evals (unit_circle t (2 ^ 63 :: 2 ^ 63 :: ws)%Z) out <-> evals (unit_circle_loop 63 t ws) out.
Proof. exact (circle_loop_origin 63 t ws out). Qed.
