(* Proofs/ZigBits.v — integer part of the ziggurat identity (utils.rs:66-80).
   One 64-bit word `bits` yields the layer index  i = bits & 0xff  and the 52-bit mantissa
   k = bits >> 12.  Because the two bit fields [0,8) and [12,64) are disjoint, the pair (i, k)
   is uniform on [0,256) x [0,2^52) when bits is uniform on [0,2^64): every pair has exactly
   the 16 preimages  k*2^12 + j*2^8 + i  (j = the 4 unused bits 8..11).
   Only ZArith; axiom-free.                                                              *)
From Coq Require Import ZArith Lia.
Open Scope Z_scope.

Local Lemma p8  : 2^8  = 256.  Proof. reflexivity. Qed.
Local Lemma p12 : 2^12 = 4096. Proof. reflexivity. Qed.
Local Lemma p64 : 2^64 = 4096 * 2^52.
Proof. change 64 with (12 + 52). rewrite Z.pow_add_r by lia. reflexivity. Qed.

(* ranges of the two fields *)
Lemma zig_bits_ranges : forall w, 0 <= w < 2^64 ->
  0 <= w mod 256 < 256 /\ 0 <= w / 2^12 < 2^52.
Proof.
  intros w [H0 H1]. split.
  - apply Z.mod_pos_bound; lia.
  - rewrite p12. split.
    + apply Z.div_pos; lia.
    + apply Z.div_lt_upper_bound; [lia|]. rewrite <- p64. exact H1.
Qed.

(* the fibre of (i,k) is exactly { k*2^12 + j*2^8 + i | 0 <= j < 16 } *)
Lemma zig_bits_fibre : forall i k, 0 <= i < 256 -> 0 <= k < 2^52 ->
  forall w, 0 <= w < 2^64 ->
  (w mod 256 = i /\ w / 2^12 = k <->
   exists j, 0 <= j < 16 /\ w = k * 2^12 + j * 2^8 + i).
Proof.
  intros i k Hi Hk w Hw. rewrite p12, p8. split.
  - intros [Ei Ek].
    exists ((w mod 4096) / 256).
    pose proof (Z.div_mod w 4096 ltac:(lia)) as D1.
    pose proof (Z.mod_pos_bound w 4096 ltac:(lia)) as B1.
    pose proof (Z.div_mod (w mod 4096) 256 ltac:(lia)) as D2.
    pose proof (Z.mod_pos_bound (w mod 4096) 256 ltac:(lia)) as B2.
    assert (E : (w mod 4096) mod 256 = w mod 256).
    { change 4096 with (256 * 16).
      rewrite Z.rem_mul_r by lia.
      rewrite Z.mul_comm, Z.mod_add by lia. apply Z.mod_mod. lia. }
    rewrite E, Ei in D2. rewrite Ek in D1.
    split.
    + split.
      * apply Z.div_pos; lia.
      * apply Z.div_lt_upper_bound; lia.
    + lia.
  - intros [j [Hj E]]. subst w. split.
    + replace (k * 4096 + j * 256 + i) with (i + (k * 16 + j) * 256) by ring.
      rewrite Z.mod_add by lia. apply Z.mod_small. lia.
    + replace (k * 4096 + j * 256 + i) with ((j * 256 + i) + k * 4096) by ring.
      rewrite Z.div_add by lia. rewrite Z.div_small by lia. lia.
Qed.

(* the 16 preimages are legal words and pairwise distinct *)
Lemma zig_bits_preimage_range : forall i k j, 0 <= i < 256 -> 0 <= k < 2^52 -> 0 <= j < 16 ->
  0 <= k * 2^12 + j * 2^8 + i < 2^64.
Proof. intros i k j Hi Hk Hj. rewrite p64, p12, p8. lia. Qed.

Lemma zig_bits_preimage_inj : forall i k j j', 0 <= i < 256 ->
  k * 2^12 + j * 2^8 + i = k * 2^12 + j' * 2^8 + i -> j = j'.
Proof. intros i k j j' Hi. rewrite p12, p8. lia. Qed.

(* the statement asked for: ranges + exact fibre *)
Theorem zig_bits_independent : forall w, 0 <= w < 2^64 ->
  (0 <= w mod 256 < 256 /\ 0 <= w / 2^12 < 2^52) /\
  forall i k, 0 <= i < 256 -> 0 <= k < 2^52 ->
    (w mod 256 = i /\ w / 2^12 = k <->
     exists j, 0 <= j < 16 /\ w = k * 2^12 + j * 2^8 + i).
Proof.
  intros w Hw. split.
  - apply zig_bits_ranges; exact Hw.
  - intros i k Hi Hk. apply zig_bits_fibre; assumption.
Qed.

(* onto, with exactly 16 preimages: the map j |-> k*2^12 + j*2^8 + i is an injection of [0,16)
   into [0,2^64) whose image is the fibre of (i,k). *)
Theorem zig_bits_sixteen : forall i k, 0 <= i < 256 -> 0 <= k < 2^52 ->
  (forall j, 0 <= j < 16 ->
     let w := k * 2^12 + j * 2^8 + i in
     0 <= w < 2^64 /\ w mod 256 = i /\ w / 2^12 = k) /\
  (forall j j', 0 <= j < 16 -> 0 <= j' < 16 ->
     k * 2^12 + j * 2^8 + i = k * 2^12 + j' * 2^8 + i -> j = j') /\
  (forall w, 0 <= w < 2^64 -> w mod 256 = i -> w / 2^12 = k ->
     exists j, 0 <= j < 16 /\ w = k * 2^12 + j * 2^8 + i).
Proof.
  intros i k Hi Hk. split; [|split].
  - intros j Hj w.
    assert (R : 0 <= w < 2^64) by (apply zig_bits_preimage_range; assumption).
    split; [exact R|].
    apply (zig_bits_fibre i k Hi Hk w R). exists j. split; [exact Hj|reflexivity].
  - intros j j' _ _. apply zig_bits_preimage_inj. exact Hi.
  - intros w Hw Ei Ek. apply (zig_bits_fibre i k Hi Hk w Hw). split; assumption.
Qed.

(* the integer mantissas `um` of Model/Continuous.v (zig):
   symmetric  u = (k - 2^51) * 2^-51  in [-1,1);   one-sided  u = (2k+1) * 2^-53  in (0,1) *)
Theorem zig_u_range : forall k, 0 <= k < 2^52 ->
  (- 2^51 <= k - 2^51 < 2^51) /\ (0 < 2 * k + 1 < 2^53).
Proof.
  intros k Hk.
  assert (E52 : 2^52 = 2 * 2^51) by (change 52 with (1 + 51); rewrite Z.pow_add_r by lia; reflexivity).
  assert (E53 : 2^53 = 2 * 2^52) by (change 53 with (1 + 52); rewrite Z.pow_add_r by lia; reflexivity).
  rewrite E53. generalize dependent (2^52). intros p Hk E52. lia.
Qed.

(* every admissible mantissa is hit: the maps k |-> k - 2^51 and k |-> 2k+1 are injective, so u is
   uniform on the 2^52 grid points  { m * 2^-51 | -2^51 <= m < 2^51 }  resp. the odd multiples of
   2^-53 in (0,1). *)
Theorem zig_u_grid : forall k k', (k - 2^51 = k' - 2^51 -> k = k') /\ (2 * k + 1 = 2 * k' + 1 -> k = k').
Proof. intros k k'. generalize (2^51). intros p. split; lia. Qed.
