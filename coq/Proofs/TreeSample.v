(* Proofs/TreeSample.v — the descent of try_sample partitions [0,total) into blocks of
   length w_i (left subtree, right subtree, self), its two assertions always hold, and
   rand's Canon range reduction returns a value in range.  Stdlib only; axiom-free. *)
From Coq Require Import ZArith List Bool Arith Lia.
From RD Require Import Model.Tree Model.Uniform Proofs.TreeBasics Proofs.TreeOps Proofs.TreeRefine.
Import ListNotations.
Open Scope Z_scope.

(* the enumeration order of the descent: index j appears w_j times *)
Fixpoint flat (fuel : nat) (w : list Z) (i : nat) : list nat :=
  match fuel with
  | O => []
  | S f => if (i <? length w)%nat
           then flat f w (2*i+1) ++ flat f w (2*i+2) ++ repeat i (Z.to_nat (nthz w i))
           else []
  end.

Lemma flat_length : forall fuel w t, Rep w t -> Nonneg w -> forall i, (length t - i <= fuel)%nat ->
  Z.of_nat (length (flat fuel w i)) = sub t i.
Proof.
  induction fuel as [|f IH]; intros w t R N i Hf.
  - simpl. rewrite sub_out by lia. reflexivity.
  - pose proof R as [L RR]. cbn [flat]. rewrite L.
    destruct (Nat.ltb_spec i (length t)) as [Hi|Hi]; [|simpl; rewrite sub_out by lia; reflexivity].
    rewrite !app_length, repeat_length, !Nat2Z.inj_add.
    rewrite (IH w t R N (2*i+1)%nat) by lia. rewrite (IH w t R N (2*i+2)%nat) by lia.
    rewrite Z2Nat.id by apply N. rewrite (sub_in t i Hi), (RR i Hi). lia.
Qed.

Lemma nth_repeat_in (a : nat) m n d : (n < m)%nat -> nth n (repeat a m) d = a.
Proof. intros H. apply (repeat_spec m a). apply nth_In. now rewrite repeat_length. Qed.

Lemma descend_spec : forall fuel w t, Rep w t -> Nonneg w -> forall i target,
  (length t - i <= fuel)%nat -> 0 <= target < sub t i ->
  exists j r, descend fuel t i target = Some (j, r) /\ 0 <= r < nthz w j /\ (j < length t)%nat /\
              nth (Z.to_nat target) (flat fuel w i) 0%nat = j.
Proof.
  induction fuel as [|f IH]; intros w t R N i target Hf Ht.
  - rewrite sub_out in Ht by lia. lia.
  - pose proof R as [L RR].
    destruct (Nat.ltb_spec i (length t)) as [Hi|Hi]; [|rewrite sub_out in Ht by lia; lia].
    cbn [descend flat]. rewrite L. destruct (Nat.ltb_spec i (length t)); [|lia].
    pose proof (flat_length f w t R N (2*i+1)%nat ltac:(lia)) as FL1.
    pose proof (flat_length f w t R N (2*i+2)%nat ltac:(lia)) as FL2.
    pose proof (rep_sub_nonneg w t R N (2*i+1)%nat) as P1.
    pose proof (rep_sub_nonneg w t R N (2*i+2)%nat) as P2.
    rewrite (sub_in t i Hi), (RR i Hi) in Ht.
    destruct (Z.ltb_spec target (sub t (2*i+1))) as [H1|H1].
    + destruct (IH w t R N (2*i+1)%nat target ltac:(lia) ltac:(lia)) as [j [r [E [Hr [Hj Hn]]]]].
      exists j, r. repeat split; auto; try lia. rewrite app_nth1 by lia. exact Hn.
    + destruct (Z.ltb_spec (target - sub t (2*i+1)) (sub t (2*i+2))) as [H2|H2].
      * destruct (IH w t R N (2*i+2)%nat (target - sub t (2*i+1)) ltac:(lia) ltac:(lia)) as [j [r [E [Hr [Hj Hn]]]]].
        exists j, r. repeat split; auto; try lia.
        rewrite app_nth2 by lia. rewrite app_nth1 by lia.
        replace (Z.to_nat target - length (flat f w (2*i+1)))%nat with (Z.to_nat (target - sub t (2*i+1))) by lia.
        exact Hn.
      * exists i, (target - sub t (2*i+1) - sub t (2*i+2)). repeat split; auto; try lia.
        rewrite app_nth2 by lia. rewrite app_nth2 by lia. apply nth_repeat_in. lia.
Qed.

Lemma count_repeat (a b : nat) m : count_occ Nat.eq_dec (repeat a m) b = if (a =? b)%nat then m else 0%nat.
Proof. induction m; simpl.
  - destruct (a =? b)%nat; reflexivity.
  - destruct (Nat.eq_dec a b) as [->|Hne].
    + rewrite Nat.eqb_refl in *. lia.
    + destruct (Nat.eqb_spec a b); [contradiction|]. exact IHm.
Qed.

Lemma flat_count : forall fuel w i j, (length w - i <= fuel)%nat -> (j < length w)%nat ->
  count_occ Nat.eq_dec (flat fuel w i) j = if anc (length w) i j then Z.to_nat (nthz w j) else 0%nat.
Proof.
  induction fuel as [|f IH]; intros w i j Hf Hj.
  - simpl. destruct (anc (length w) i j) eqn:A; auto. apply anc_le in A. lia.
  - cbn [flat]. destruct (Nat.ltb_spec i (length w)) as [Hi|Hi].
    2:{ simpl. destruct (anc (length w) i j) eqn:A; auto. apply anc_le in A. lia. }
    rewrite !count_occ_app, count_repeat.
    rewrite (IH w (2*i+1)%nat j) by lia. rewrite (IH w (2*i+2)%nat j) by lia.
    pose proof (anc_split (length w) j i ltac:(lia)) as SP. unfold b2z in SP.
    destruct (Nat.eqb_spec i j) as [->|Hne];
      destruct (anc (length w) j j), (anc (length w) (2*j+1) j), (anc (length w) (2*j+2) j);
      try destruct (anc (length w) i j), (anc (length w) (2*i+1) j), (anc (length w) (2*i+2) j); lia.
Qed.

(* ---- try_sample ------------------------------------------------------------------- *)
Theorem try_sample_ok ty t target : wf_ty ty -> Inv ty t -> 0 <= target < sub t 0 ->
  exists i, tree_try_sample ty t target = Ok i /\ (i < length t)%nat /\ 0 < nthz (abs t) i /\
            i = nth (Z.to_nat target) (flat (length t) (abs t) 0) 0%nat.
Proof.
  intros WF [w [R [N HS]]] Ht. rewrite (rep_abs w t R).
  unfold tree_try_sample. destruct t as [|r tr] eqn:Et; [rewrite sub_out in Ht by (simpl; lia); lia|].
  rewrite <- Et in *. assert (Hr : sub t 0 = r) by (subst t; reflexivity).
  destruct (Z.eqb_spec r 0); [lia|].
  destruct (descend_spec (length t) w t R N 0%nat target ltac:(lia) Ht) as [j [res [E [Hres [Hj Hn]]]]].
  rewrite E. rewrite (rep_get w t j R Hj).
  destruct (Z.leb_spec 0 res); [|lia]. destruct (Z.ltb_spec res (nthz w j)); [|lia]. cbn [andb].
  exists j. repeat split; auto; lia.
Qed.

Theorem try_sample_zero ty t target : sub t 0 = 0 -> tree_try_sample ty t target = Err InsufficientNonZero.
Proof. unfold tree_try_sample. destruct t as [|r tr]; auto. unfold sub, nthz. simpl. intros ->. reflexivity. Qed.

(* exact proportionality: among the total many targets exactly w_j select j *)
Definition picks (ty : wty) (t : list Z) (j : nat) (k : nat) : bool :=
  match tree_try_sample ty t (Z.of_nat k) with Ok i => (i =? j)%nat | _ => false end.

Lemma filter_count_nth (l : list nat) (j : nat) :
  length (filter (fun k => (nth k l 0%nat =? j)%nat) (seq 0 (length l))) = count_occ Nat.eq_dec l j.
Proof.
  induction l as [|a r IH] using rev_ind; [reflexivity|].
  rewrite app_length. simpl length. rewrite Nat.add_1_r, seq_S, filter_app, app_length. simpl seq. cbn [filter].
  rewrite count_occ_app. simpl count_occ.
  rewrite (filter_ext_in _ (fun k => (nth k r 0%nat =? j)%nat)).
  2:{ intros k Hk. apply in_seq in Hk. rewrite app_nth1 by lia. reflexivity. }
  rewrite IH. rewrite app_nth2 by lia. rewrite Nat.sub_diag. simpl nth.
  destruct (Nat.eq_dec a j) as [->|Hne]; [rewrite Nat.eqb_refl|destruct (Nat.eqb_spec a j); [contradiction|]]; simpl; lia.
Qed.

Theorem try_sample_proportional ty t j : wf_ty ty -> Inv ty t -> (j < length t)%nat ->
  Z.of_nat (length (filter (picks ty t j) (seq 0 (Z.to_nat (sub t 0))))) = nthz (abs t) j.
Proof.
  intros WF I Hj. pose proof I as [w [R [N HS]]].
  pose proof (flat_length (length t) w t R N 0%nat ltac:(lia)) as FL.
  pose proof (rep_sub_nonneg w t R N 0%nat) as P0.
  rewrite (filter_ext_in _ (fun k => (nth k (flat (length t) w 0) 0%nat =? j)%nat)).
  2:{ intros k Hk. apply in_seq in Hk. unfold picks.
      destruct (try_sample_ok ty t (Z.of_nat k) WF I ltac:(lia)) as [i [E [_ [_ Hi]]]].
      rewrite E, Hi, (rep_abs w t R), Nat2Z.id. reflexivity. }
  replace (Z.to_nat (sub t 0)) with (length (flat (length t) w 0)) by lia.
  rewrite filter_count_nth. pose proof R as [L _]. rewrite <- L at 1.
  rewrite flat_count by lia. rewrite anc_root by lia. rewrite (rep_abs w t R).
  apply Z2Nat.id. apply N.
Qed.

(* ---- rand's Canon range reduction stays in range ---------------------------------- *)
Lemma sbits_pow_pos b : 0 < sbits_pow b.
Proof. destruct b; reflexivity. Qed.

Lemma draw_range b ws w r : Forall (fun x => 0 <= x < 2^64) ws -> draw b ws = Some (w, r) ->
  0 <= w < sbits_pow b /\ Forall (fun x => 0 <= x < 2^64) r.
Proof.
  intros F E. destruct b; cbn [draw] in E.
  - destruct ws as [|x xs]; [discriminate|]. inversion E; subst. inversion F as [|? ? Hx F2]; subst. split; auto.
    change (sbits_pow B32) with 4294967296. change (2^32) with 4294967296.
    change (2^64) with 18446744073709551616 in Hx.
    split; [apply Z.div_pos; lia|apply Z.div_lt_upper_bound; lia].
  - destruct ws as [|x xs]; [discriminate|]. inversion E; subst. inversion F; subst. split; auto.
  - destruct ws as [|x [|y xs]]; try discriminate. inversion E; subst. inversion F as [|? ? Hx F2]; subst.
    inversion F2 as [|? ? Hy F3]; subst. split; auto.
    change (sbits_pow B128) with (18446744073709551616 * 18446744073709551616).
    change (2^64) with 18446744073709551616 in *. nia.
Qed.

Theorem canon_in_range b range ws v rest : Forall (fun x => 0 <= x < 2^64) ws ->
  0 < range < sbits_pow b -> canon b range ws = Some (v, rest) -> 0 <= v < range.
Proof.
  intros F Hr E. unfold canon in E. pose proof (sbits_pow_pos b) as MP. set (M := sbits_pow b) in *.
  destruct (draw b ws) as [[w1 r1]|] eqn:D1; [|discriminate].
  destruct (draw_range b ws w1 r1 F D1) as [W1 F1]. fold M in W1.
  assert (Hhi : 0 <= w1 * range / M < range).
  { split; [apply Z.div_pos; nia|]. apply Z.div_lt_upper_bound; nia. }
  rewrite (Z.mod_small (M - range) M) in E by lia.
  destruct (Z.ltb_spec (M - range) ((w1 * range) mod M)) as [Hb|Hb].
  - destruct (draw b r1) as [[w2 r2]|] eqn:D2; [|discriminate].
    destruct (draw_range b r1 w2 r2 F1 D2) as [W2 _]. fold M in W2.
    inversion E; subst v rest. clear E.
    assert (Hnh : 0 <= w2 * range / M < range).
    { split; [apply Z.div_pos; nia|]. apply Z.div_lt_upper_bound; nia. }
    destruct (Z.leb_spec M ((w1 * range) mod M + w2 * range / M)) as [Ho|Ho]; [|lia].
    (* overflow: then hi <= range - 2 *)
    pose proof (Z.div_mod (w1 * range) M ltac:(lia)) as DM.
    pose proof (Z.mod_pos_bound (w1 * range) M ltac:(lia)) as MB.
    assert (w1 * range / M <= range - 2); [|lia].
    destruct (Z.le_gt_cases (w1 * range / M) (range - 2)); auto.
    assert (w1 * range / M = range - 1) by lia. nia.
  - inversion E; subst. lia.
Qed.
