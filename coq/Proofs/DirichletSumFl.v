(* Proofs/DirichletSumFl.v — property C11 at the IEEE level, the "summing to 1" clause for DirichletFromBeta's stick-breaking loop
   (dirichlet.rs:163-174): with Beta draws that are finite floats in [0, 1], the REAL sum of the float components differs from 1
   by at most  len(betas) * (2u + 3 eta),  u = 2^-prec, eta = half the least subnormal - "within a few ulp" quantified, for vectors
   of any length.  Each step loses at most 2u + 3 eta:  out + acc' - acc  with out = fl(acc*b), acc' = fl(acc * fl(1 - b)).       *)
From Coq Require Import ZArith Bool Reals List Lra Lia.
From Flocq Require Import Core.Core IEEE754.BinarySingleNaN.
From RD Require Import Proofs.BetaFinalFl Proofs.DirichletFl Proofs.AffineFl.
Import ListNotations.
Open Scope R_scope.

Section Fmt.
Variable prec emax : Z.
Context (Hp : Prec_gt_0 prec) (Hpe : Prec_lt_emax prec emax).
Notation float := (binary_float prec emax).
Notation rnd := (AffineFl.rnd prec emax).
Notation u := (AffineFl.u prec).
Notation eta := (AffineFl.eta prec emax).
Notation in_unit := (in_unit prec emax).
Notation sticks_fl := (sticks_fl prec emax Hp Hpe).

Definition sumR (l : list float) : R := fold_right (fun x s => B2R x + s) 0 l.

Lemma mult_unit_value (x y : float) : in_unit x -> in_unit y -> B2R (Bmult mode_NE x y) = rnd (B2R x * B2R y).
Proof.
  intros [Fx Hx] [Fy Hy]. pose proof (Bmult_correct prec emax Hp Hpe mode_NE x y) as M.
  assert (0 <= B2R x * B2R y <= 1) as Q by nra.
  pose proof (rnd_unit prec emax Hp Hpe _ Q) as RQ. pose proof (one_lt_emax prec emax Hp Hpe) as OE.
  rewrite Rlt_bool_true in M by (rewrite Rabs_pos_eq; lra).
  destruct M as (V & _). exact V.
Qed.

Lemma one_minus_value (b : float) : in_unit b -> B2R (Bminus mode_NE Bone b) = rnd (1 - B2R b).
Proof.
  intros [Fb Hb]. pose proof (Bminus_correct prec emax Hp Hpe mode_NE Bone b (is_finite_Bone prec emax Hp Hpe) Fb) as M.
  rewrite (Bone_correct prec emax Hp Hpe) in M.
  assert (0 <= 1 - B2R b <= 1) as Q by lra.
  pose proof (rnd_unit prec emax Hp Hpe _ Q) as RQ. pose proof (one_lt_emax prec emax Hp Hpe) as OE.
  rewrite Rlt_bool_true in M by (rewrite Rabs_pos_eq; lra).
  destruct M as (V & _). exact V.
Qed.

Lemma rnd_err_nonneg x : 0 <= x -> Rabs (rnd x - x) <= u * x + eta.
Proof. intros Hx. pose proof (rnd_error prec emax Hp x) as E. rewrite (Rabs_pos_eq x Hx) in E. exact E. Qed.

(* one step of the loop loses at most 2u + 3 eta *)
Lemma stick_step (acc b : float) : in_unit acc -> in_unit b ->
  Rabs (B2R (Bmult mode_NE acc b) + B2R (Bmult mode_NE acc (Bminus mode_NE Bone b)) - B2R acc) <= 2 * u + 3 * eta.
Proof.
  intros Ha Hb. pose proof (one_minus_in_unit prec emax Hp Hpe b Hb) as Ht.
  rewrite (mult_unit_value acc b Ha Hb), (mult_unit_value acc _ Ha Ht).
  destruct Ht as [_ Ht]. rewrite (one_minus_value b Hb) in Ht |- * .
  destruct Ha as [_ Ha]. destruct Hb as [_ Hb].
  set (a := B2R acc) in * . set (x := B2R b) in * .
  pose proof (u_pos prec) as U0. pose proof (eta_pos prec emax) as E0.
  assert (0 <= a * x <= 1) as Q1 by nra.
  assert (0 <= 1 - x) as Q2 by lra.
  pose proof (rnd_err_nonneg (a * x) (proj1 Q1)) as E1.
  pose proof (rnd_err_nonneg (1 - x) Q2) as E2.
  set (t := rnd (1 - x)) in * .
  assert (0 <= a * t <= 1) as Q3 by nra.
  pose proof (rnd_err_nonneg (a * t) (proj1 Q3)) as E3.
  apply Rabs_le_inv in E1. apply Rabs_le_inv in E2. apply Rabs_le_inv in E3. apply Rabs_le.
  assert (u * (a * t) <= u) as B3 by (pose proof (Rmult_le_compat_l u _ _ ltac:(lra) (proj2 Q3)); lra).
  assert (a * (t - (1 - x)) <= u * (1 - x) + eta) as B2a.
  { pose proof (Rmult_le_compat_l a _ _ (proj1 Ha) (proj2 E2)) as M.
    pose proof (Rmult_le_compat_r (u * (1 - x) + eta) a 1 ltac:(nra) (proj2 Ha)) as M2. lra. }
  assert (- (u * (1 - x) + eta) <= a * (t - (1 - x))) as B2b.
  { pose proof (Rmult_le_compat_l a _ _ (proj1 Ha) (proj1 E2)) as M.
    pose proof (Rmult_le_compat_r (u * (1 - x) + eta) a 1 ltac:(nra) (proj2 Ha)) as M2. lra. }
  assert (u * (a * x) <= u * x) as B1.
  { apply Rmult_le_compat_l; [lra|]. pose proof (Rmult_le_compat_r x a 1 (proj1 Hb) (proj2 Ha)). lra. }
  split; lra.
Qed.

Theorem sticks_fl_sum (betas : list float) : forall acc, in_unit acc -> Forall in_unit betas ->
  Rabs (sumR (sticks_fl acc betas) - B2R acc) <= INR (length betas) * (2 * u + 3 * eta).
Proof.
  induction betas as [|b r IH]; intros acc Ha Hb.
  - cbn [DirichletFl.sticks_fl sumR fold_right length INR]. replace (B2R acc + 0 - B2R acc) with 0 by ring. rewrite Rabs_R0. lra.
  - apply Forall_cons_iff in Hb. destruct Hb as [Hb Hr].
    pose proof (mult_in_unit prec emax Hp Hpe acc _ Ha (one_minus_in_unit prec emax Hp Hpe b Hb)) as Ha'.
    specialize (IH _ Ha' Hr). pose proof (stick_step acc b Ha Hb) as St.
    change (sumR (sticks_fl acc (b :: r))) with
      (B2R (Bmult mode_NE acc b) + sumR (sticks_fl (Bmult mode_NE acc (Bminus mode_NE Bone b)) r)).
    change (length (b :: r)) with (S (length r)). rewrite S_INR.
    set (acc' := Bmult mode_NE acc (Bminus mode_NE Bone b)) in * .
    replace (B2R (Bmult mode_NE acc b) + sumR (sticks_fl acc' r) - B2R acc)
      with ((B2R (Bmult mode_NE acc b) + B2R acc' - B2R acc) + (sumR (sticks_fl acc' r) - B2R acc')) by ring.
    eapply Rle_trans; [apply Rabs_triang|]. lra.
Qed.

Corollary dirichlet_sum_fl (betas : list float) : Forall in_unit betas ->
  Rabs (sumR (sticks_fl Bone betas) - 1) <= INR (length betas) * (2 * u + 3 * eta).
Proof.
  intros H. rewrite <- (Bone_correct prec emax Hp Hpe) at 1. apply sticks_fl_sum; [apply one_in_unit|exact H].
Qed.
End Fmt.
