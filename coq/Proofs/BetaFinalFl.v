(* Proofs/BetaFinalFl.v — property C03 at the IEEE level (Flocq, any binary format; round to nearest even) for the
   last step of Beta::sample (beta.rs:253-262), which involves no libm call:
       if !switched { if w == inf { return 1 }  w / (b + w) } else { b / (b + w) }
   For every finite b > 0 and every w that is +inf or finite and >= 0 (w = a * exp(v) with a > 0 is such a value
   whatever exp returns, short of NaN) the result is a finite float in [0, 1]: the sum may overflow to +inf
   (quotient 0), the quotient is rounded monotonically from a real in [0, 1], and the w == inf guard avoids inf/inf. *)
From Coq Require Import ZArith Bool Reals Lra Lia.
From Flocq Require Import Core.Core IEEE754.BinarySingleNaN.
Open Scope R_scope.

Section Fmt.
Variable prec emax : Z.
Context (Hp : Prec_gt_0 prec) (Hpe : Prec_lt_emax prec emax).
Notation float := (binary_float prec emax).
Notation fexp := (SpecFloat.fexp prec emax).
Notation rnd := (round radix2 fexp (round_mode mode_NE)).

Instance fexp_valid : Valid_exp fexp := fexp_correct prec emax Hp.

Definition beta_final (switched : bool) (b w : float) : float :=
  if switched then Bdiv mode_NE b (Bplus mode_NE b w)
  else match w with
       | B754_infinity false => Bone
       | _ => Bdiv mode_NE w (Bplus mode_NE b w)
       end.

Definition in_unit (r : float) : Prop := is_finite r = true /\ 0 <= B2R r <= 1.

Lemma one_lt_emax : 1 < bpow radix2 emax.
Proof.
  change 1 with (bpow radix2 0). apply bpow_lt. unfold Prec_gt_0, Prec_lt_emax in * . lia.
Qed.
Lemma rnd_0 : rnd 0 = 0. Proof. apply round_0. typeclasses eauto. Qed.
Lemma rnd_1 : rnd 1 = 1.
Proof.
  apply round_generic; [typeclasses eauto|]. rewrite <- (Bone_correct prec emax Hp Hpe). apply generic_format_B2R.
Qed.
Lemma rnd_unit x : 0 <= x <= 1 -> 0 <= rnd x <= 1.
Proof.
  intros [H0 H1]. split.
  - rewrite <- rnd_0. apply round_le; [typeclasses eauto|typeclasses eauto|exact H0].
  - rewrite <- rnd_1. apply round_le; [typeclasses eauto|typeclasses eauto|exact H1].
Qed.

(* x / s for finite 0 <= x <= s', 0 < s' = B2R s : in the unit interval *)
Lemma div_in_unit (x s : float) : is_finite x = true -> is_finite s = true -> 0 <= B2R x <= B2R s -> 0 < B2R s ->
  in_unit (Bdiv mode_NE x s).
Proof.
  intros Fx Fs Hx Hs. pose proof (Bdiv_correct prec emax Hp Hpe mode_NE x s ltac:(lra)) as D.
  assert (0 <= B2R x / B2R s <= 1) as Q.
  { split; [apply Rmult_le_pos; [lra|left; apply Rinv_0_lt_compat; exact Hs]|].
    apply Rmult_le_reg_r with (B2R s); [exact Hs|]. unfold Rdiv. rewrite Rmult_assoc, Rinv_l by lra. lra. }
  pose proof (rnd_unit _ Q) as RQ. pose proof one_lt_emax as OE.
  rewrite Rlt_bool_true in D by (rewrite Rabs_pos_eq; lra).
  destruct D as (V & F & _). split; [rewrite F; exact Fx|rewrite V; exact RQ].
Qed.

(* x / +inf = +0 for finite x *)
Lemma div_inf_in_unit (x : float) : is_finite x = true -> in_unit (Bdiv mode_NE x (B754_infinity false)).
Proof. intros Fx. destruct x as [sx|sx| |sx mx ex Hx]; try discriminate; unfold in_unit; cbn; (split; [reflexivity|lra]). Qed.

(* b + w for finite b > 0, w >= 0: either +inf or a finite float >= max(b, w) *)
Lemma sum_cases (b w : float) : is_finite b = true -> is_finite w = true -> 0 < B2R b -> 0 <= B2R w ->
  Bplus mode_NE b w = B754_infinity false \/
  (is_finite (Bplus mode_NE b w) = true /\ B2R b <= B2R (Bplus mode_NE b w) /\ B2R w <= B2R (Bplus mode_NE b w)).
Proof.
  intros Fb Fw Hb Hw. pose proof (Bplus_correct prec emax Hp Hpe mode_NE b w Fb Fw) as P.
  destruct (Rlt_bool (Rabs (rnd (B2R b + B2R w))) (bpow radix2 emax)) eqn:O.
  - right. destruct P as (V & F & _). split; [exact F|]. rewrite V. split.
    + rewrite <- (round_generic radix2 fexp (round_mode mode_NE) (B2R b)) at 1 by apply generic_format_B2R.
      apply round_le; [typeclasses eauto|typeclasses eauto|lra].
    + rewrite <- (round_generic radix2 fexp (round_mode mode_NE) (B2R w)) at 1 by apply generic_format_B2R.
      apply round_le; [typeclasses eauto|typeclasses eauto|lra].
  - left. destruct P as [P _].
    assert (Bsign b = false) as Sb.
    { destruct b as [sb|sb| |sb mb eb Hbb]; try discriminate; cbn in Hb; try lra.
      destruct sb; [|reflexivity]. exfalso. cbn in Hb. unfold F2R in Hb. cbn in Hb.
      assert (0 < bpow radix2 eb) by apply bpow_gt_0. assert (IZR (Z.neg mb) < 0) by (apply IZR_lt; lia). nra. }
    rewrite Sb in P. cbn in P. destruct (Bplus mode_NE b w) as [s0|s0| |s0 m0 e0 H0]; cbn in P; try discriminate.
    injection P as ->. reflexivity.
Qed.

Theorem beta_final_in_unit switched (b w : float) :
  is_finite b = true -> 0 < B2R b ->
  (w = B754_infinity false \/ (is_finite w = true /\ 0 <= B2R w)) ->
  in_unit (beta_final switched b w).
Proof.
  intros Fb Hb [->|[Fw Hw]].
  - (* w = +inf *)
    unfold beta_final. destruct switched.
    + replace (Bplus mode_NE b (B754_infinity false)) with (B754_infinity false : float)
        by (destruct b as [sb|sb| |sb mb eb Hbb]; try discriminate; reflexivity).
      apply div_inf_in_unit, Fb.
    + split; [apply is_finite_Bone|rewrite Bone_correct; lra].
  - assert (beta_final switched b w = Bdiv mode_NE (if switched then b else w) (Bplus mode_NE b w)) as ->.
    { unfold beta_final. destruct switched; [reflexivity|]. destruct w as [sw|sw| |sw mw ew Hww]; try reflexivity; discriminate. }
    destruct (sum_cases b w Fb Fw Hb Hw) as [->|(Fs & S1 & S2)].
    + apply div_inf_in_unit. destruct switched; assumption.
    + apply div_in_unit; try assumption; destruct switched; try assumption; lra.
Qed.
End Fmt.
