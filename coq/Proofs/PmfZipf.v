(* Proofs/PmfZipf.v — the rejection sampler for Zipf(n, s) (zipf.rs:102-166, after J. Crease).

   The code does not use Hörmann–Derflinger rejection-inversion; it samples a continuous Y on
   [0, n] with (unnormalised) density  hat(y) = 1 for y <= 1,  y^-s for y >= 1,  by inversion:
     new (112-125):   q = 1/(1-s);  t = (n^(1-s) - s) * q   (s <> 1),   t = 1 + ln n   (s = 1)
                      -- t is the total mass  1 + int_1^n y^-s dy  of the hat
     inv_cdf (132-141): pt = p*t;  pt (pt <= 1);  (pt*(1-s) + s)^q  (s <> 1);  exp(pt - 1)  (s = 1)
     sample (153-165): inv_b = inv_cdf(U); x = floor(inv_b + 1);
                       ratio = x^-s  [* inv_b^s  if x > 1];  accept x if V < ratio
   Here: t is the hat mass (zipf_hat_mass_ne1, _eq1), inv_cdf inverts the cumulative hat (zipf_inv_cdf_ne1, _eq1),
   hat(y) * ratio = x^-s on [x-1, x) with ratio in [0,1] (zipf_accept_identity, zipf_ratio_le_1),
   hence the accepted mass of x is int_{x-1}^{x} hat * ratio = x^-s (zipf_accept_mass).          *)
From Coq Require Import Reals Lra Lia.
From Coquelicot Require Import Coquelicot.
From RD Require Import Proofs.PmfZeta.
Open Scope R_scope.

(* ---------------------------------------------------------------- definitions *)

Definition zipf_hat (s y : R) : R := if Rle_dec y 1 then 1 else Rpower y (- s).

(* cumulative hat mass  int_0^y hat  for y >= 0 *)
Definition zipf_Hcum_ne1 (s y : R) : R :=
  if Rle_dec y 1 then y else 1 + (Rpower y (1 - s) - 1) / (1 - s).
Definition zipf_Hcum_eq1 (y : R) : R :=
  if Rle_dec y 1 then y else 1 + ln y.

Definition zipf_t_ne1 (n s : R) : R := (Rpower n (1 - s) - s) * (1 / (1 - s)).
Definition zipf_t_eq1 (n : R) : R := 1 + ln n.

Definition zipf_inv_ne1 (s pt : R) : R :=
  if Rle_dec pt 1 then pt else Rpower (pt * (1 - s) + s) (1 / (1 - s)).
Definition zipf_inv_eq1 (pt : R) : R :=
  if Rle_dec pt 1 then pt else exp (pt - 1).

(* ratio as coded: x^-s, times inv_b^s when x > 1 *)
Definition zipf_ratio (s x y : R) : R :=
  if Rlt_dec 1 x then Rpower x (- s) * Rpower y s else Rpower x (- s).

(* ---------------------------------------------------------------- t is the mass of the hat *)

Lemma is_derive_Rpower : forall z x, 0 < x ->
  is_derive (fun y => Rpower y z) x (z * Rpower x (z - 1)).
Proof. intros z x Hx. apply is_derive_Reals. apply derivable_pt_lim_power. exact Hx. Qed.

Lemma continuous_Rpower : forall z x, 0 < x -> continuous (fun y => Rpower y z) x.
Proof.
  intros z x Hx.
  apply (ex_derive_continuous (K := R_AbsRing) (V := R_NormedModule) (fun y => Rpower y z) x).
  eexists. apply is_derive_Rpower. exact Hx.
Qed.

Lemma is_RInt_Rpower_ne1 : forall s a b, s <> 1 -> 0 < a -> 0 < b ->
  is_RInt (fun y => Rpower y (- s)) a b (Rpower b (1 - s) / (1 - s) - Rpower a (1 - s) / (1 - s)).
Proof.
  intros s a b Hs Ha Hb.
  apply (is_RInt_derive (fun y => Rpower y (1 - s) / (1 - s)) (fun y => Rpower y (- s))).
  - intros x Hx. assert (0 < x).
    { destruct Hx as [Hx _]. unfold Rmin in Hx. destruct (Rle_dec a b); lra. }
    auto_derive.
    + eexists. apply is_derive_Rpower. assumption.
    + erewrite is_derive_unique; [|apply is_derive_Rpower; assumption].
      replace (1 - s - 1) with (- s) by ring. field. lra.
  - intros x Hx. apply continuous_Rpower.
    destruct Hx as [Hx _]. unfold Rmin in Hx. destruct (Rle_dec a b); lra.
Qed.

Lemma is_RInt_Rpower_eq1 : forall a b, 0 < a -> 0 < b ->
  is_RInt (fun y => Rpower y (- (1))) a b (ln b - ln a).
Proof.
  intros a b Ha Hb.
  apply (is_RInt_derive ln (fun y => Rpower y (- (1)))).
  - intros x Hx. assert (0 < x).
    { destruct Hx as [Hx _]. unfold Rmin in Hx. destruct (Rle_dec a b); lra. }
    rewrite Rpower_Ropp, Rpower_1 by assumption. auto_derive; [assumption|ring].
  - intros x Hx. apply continuous_Rpower.
    destruct Hx as [Hx _]. unfold Rmin in Hx. destruct (Rle_dec a b); lra.
Qed.

(* mass of the hat on [0,1] is 1 (constant density 1), on [1,n] the integral of y^-s *)
Theorem zipf_hat_mass_ne1 : forall n s, s <> 1 -> 1 <= n ->
  is_RInt (fun y => Rpower y (- s)) 1 n (zipf_t_ne1 n s - 1).
Proof.
  intros n s Hs Hn. unfold zipf_t_ne1.
  replace ((Rpower n (1 - s) - s) * (1 / (1 - s)) - 1)
    with (Rpower n (1 - s) / (1 - s) - Rpower 1 (1 - s) / (1 - s)).
  - apply is_RInt_Rpower_ne1; lra.
  - rewrite Rpower_1_base. field. lra.
Qed.

Theorem zipf_hat_mass_eq1 : forall n, 1 <= n ->
  is_RInt (fun y => Rpower y (- (1))) 1 n (zipf_t_eq1 n - 1).
Proof.
  intros n Hn. unfold zipf_t_eq1. replace (1 + ln n - 1) with (ln n - ln 1) by (rewrite ln_1; ring).
  apply is_RInt_Rpower_eq1; lra.
Qed.

(* the cumulative hat really is the integral of the hat from 1 on, and t = Hcum(n) *)
Theorem zipf_Hcum_integral_ne1 : forall s y, s <> 1 -> 1 < y ->
  is_RInt (fun z => Rpower z (- s)) 1 y (zipf_Hcum_ne1 s y - 1).
Proof.
  intros s y Hs Hy. unfold zipf_Hcum_ne1. destruct (Rle_dec y 1); [lra|].
  replace (1 + (Rpower y (1 - s) - 1) / (1 - s) - 1)
    with (Rpower y (1 - s) / (1 - s) - Rpower 1 (1 - s) / (1 - s)).
  - apply is_RInt_Rpower_ne1; lra.
  - rewrite Rpower_1_base. field. lra.
Qed.

Theorem zipf_t_is_Hcum_ne1 : forall n s, s <> 1 -> 1 <= n ->
  zipf_t_ne1 n s = if Rle_dec n 1 then 1 else zipf_Hcum_ne1 s n.
Proof.
  intros n s Hs Hn. unfold zipf_t_ne1, zipf_Hcum_ne1. destruct (Rle_dec n 1).
  - assert (n = 1) by lra. subst n. rewrite Rpower_1_base. field. lra.
  - field. lra.
Qed.

(* ---------------------------------------------------------------- inv_cdf inverts the cumulative hat *)

Theorem zipf_inv_cdf_low : forall s pt, pt <= 1 ->
  zipf_inv_ne1 s pt = pt /\ zipf_inv_eq1 pt = pt /\
  zipf_Hcum_ne1 s pt = pt /\ zipf_Hcum_eq1 pt = pt.
Proof.
  intros s pt H. unfold zipf_inv_ne1, zipf_inv_eq1, zipf_Hcum_ne1, zipf_Hcum_eq1.
  destruct (Rle_dec pt 1); [|lra]. repeat split.
Qed.

(* the positivity hypothesis holds for every pt <= t (zipf_inv_base_pos below) *)
Theorem zipf_inv_cdf_ne1 : forall s pt, s <> 1 -> 1 < pt -> 0 < pt * (1 - s) + s ->
  1 < zipf_inv_ne1 s pt /\ zipf_Hcum_ne1 s (zipf_inv_ne1 s pt) = pt.
Proof.
  intros s pt Hs Hpt Hbase. unfold zipf_inv_ne1. destruct (Rle_dec pt 1); [lra|].
  set (B := pt * (1 - s) + s) in *.
  assert (Hy : 1 < Rpower B (1 / (1 - s))).
  { destruct (Rlt_le_dec s 1) as [Hlt|Hge].
    - assert (1 < B) by (unfold B; nra).
      assert (H0 : 0 < 1 / (1 - s)) by (apply Rdiv_lt_0_compat; lra).
      assert (Hc := Rlt_Rpower_l 1 B (1 / (1 - s)) H0 ltac:(lra)).
      rewrite Rpower_1_base in Hc. exact Hc.
    - assert (B < 1) by (unfold B; nra).
      assert (H0 : 0 < 1 / (s - 1)) by (apply Rdiv_lt_0_compat; lra).
      assert (Hc := Rpower_neg_lt B 1 (1 / (s - 1)) H0 ltac:(lra)).
      rewrite Rpower_1_base in Hc.
      replace (1 / (1 - s)) with (- (1 / (s - 1))) by (field; lra). exact Hc. }
  split; [exact Hy|]. unfold zipf_Hcum_ne1.
  destruct (Rle_dec (Rpower B (1 / (1 - s))) 1); [lra|].
  rewrite Rpower_mult. replace (1 / (1 - s) * (1 - s)) with 1 by (field; lra).
  rewrite Rpower_1 by exact Hbase. unfold B. field. lra.
Qed.

Theorem zipf_inv_base_pos : forall n s pt, s <> 1 -> 0 <= s -> 1 <= n ->
  1 < pt <= zipf_t_ne1 n s -> 0 < pt * (1 - s) + s.
Proof.
  intros n s pt Hs Hs0 Hn Hpt. unfold zipf_t_ne1 in Hpt.
  assert (HP : 0 < Rpower n (1 - s)) by apply Rpower_pos.
  destruct (Rlt_le_dec s 1) as [Hlt|Hge].
  - nra.
  - assert (Hs1 : 1 < s) by lra.
    assert (Ht : pt * (s - 1) <= s - Rpower n (1 - s)).
    { destruct Hpt as [_ Hpt].
      apply Rmult_le_compat_r with (r := s - 1) in Hpt; [|lra].
      replace ((Rpower n (1 - s) - s) * (1 / (1 - s)) * (s - 1)) with (s - Rpower n (1 - s)) in Hpt
        by (field; lra).
      exact Hpt. }
    lra.
Qed.

(* and inv_cdf(pt) stays within [0, n] for pt <= t *)
Theorem zipf_inv_le_n_ne1 : forall n s pt, s <> 1 -> 0 <= s -> 1 <= n ->
  1 < pt <= zipf_t_ne1 n s -> zipf_inv_ne1 s pt <= n.
Proof.
  intros n s pt Hs Hs0 Hn Hpt. assert (Hbase := zipf_inv_base_pos n s pt Hs Hs0 Hn Hpt).
  unfold zipf_inv_ne1. destruct (Rle_dec pt 1); [lra|].
  unfold zipf_t_ne1 in Hpt. set (P := Rpower n (1 - s)) in *.
  assert (HP : 0 < P) by apply Rpower_pos.
  assert (Hn1 : Rpower P (1 / (1 - s)) = n).
  { unfold P. rewrite Rpower_mult. replace ((1 - s) * (1 / (1 - s))) with 1 by (field; lra).
    apply Rpower_1. lra. }
  destruct (Rlt_le_dec s 1) as [Hlt|Hge].
  - assert (HB : pt * (1 - s) + s <= P).
    { destruct Hpt as [_ Hpt]. apply Rmult_le_compat_r with (r := 1 - s) in Hpt; [|lra].
      replace ((P - s) * (1 / (1 - s)) * (1 - s)) with (P - s) in Hpt by (field; lra). lra. }
    rewrite <- Hn1. apply Rle_Rpower_l; [|lra].
    apply Rlt_le, Rdiv_lt_0_compat; lra.
  - assert (HB : P <= pt * (1 - s) + s).
    { destruct Hpt as [_ Hpt]. apply Rmult_le_compat_r with (r := s - 1) in Hpt; [|lra].
      replace ((P - s) * (1 / (1 - s)) * (s - 1)) with (s - P) in Hpt by (field; lra). lra. }
    rewrite <- Hn1. replace (1 / (1 - s)) with (- (1 / (s - 1))) by (field; lra).
    apply Rpower_neg_le; [|lra]. apply Rdiv_lt_0_compat; lra.
Qed.

Theorem zipf_inv_cdf_eq1 : forall pt, 1 < pt ->
  1 < zipf_inv_eq1 pt /\ zipf_Hcum_eq1 (zipf_inv_eq1 pt) = pt.
Proof.
  intros pt Hpt. unfold zipf_inv_eq1. destruct (Rle_dec pt 1); [lra|].
  assert (Hy : 1 < exp (pt - 1)).
  { assert (H := exp_increasing 0 (pt - 1) ltac:(lra)). rewrite exp_0 in H. exact H. }
  split; [exact Hy|]. unfold zipf_Hcum_eq1. destruct (Rle_dec (exp (pt - 1)) 1); [lra|].
  rewrite ln_exp. ring.
Qed.

Theorem zipf_inv_le_n_eq1 : forall n pt, 1 <= n -> 1 < pt <= zipf_t_eq1 n -> zipf_inv_eq1 pt <= n.
Proof.
  intros n pt Hn Hpt. unfold zipf_inv_eq1, zipf_t_eq1 in *. destruct (Rle_dec pt 1); [lra|].
  rewrite <- (exp_ln n) by lra.
  destruct (Req_dec (pt - 1) (ln n)) as [->|Hne]; [lra|]. left. apply exp_increasing. lra.
Qed.

(* ---------------------------------------------------------------- acceptance *)

(* x = floor(y + 1) = k  iff  k - 1 <= y < k *)
Theorem zipf_accept_identity : forall s (k : nat) y, (1 <= k)%nat -> INR k - 1 <= y < INR k ->
  zipf_hat s y * zipf_ratio s (INR k) y = Rpower (INR k) (- s).
Proof.
  intros s k y Hk Hy. unfold zipf_hat, zipf_ratio.
  destruct (Nat.eq_dec k 1) as [->|Hne].
  - simpl INR in *. destruct (Rle_dec y 1); [|lra]. destruct (Rlt_dec 1 1); [lra|]. ring.
  - assert (H2 : 2 <= INR k). { change 2 with (INR 2). apply le_INR. lia. }
    destruct (Rlt_dec 1 (INR k)); [|lra].
    destruct (Rle_dec y 1).
    + assert (y = 1) by lra. subst y. rewrite Rpower_1_base. ring.
    + rewrite Rpower_Ropp. assert (0 < Rpower y s) by apply Rpower_pos.
      rewrite Rpower_Ropp. field. split; apply Rgt_not_eq; apply Rpower_pos.
Qed.

Theorem zipf_ratio_range : forall s (k : nat) y, 0 <= s -> (1 <= k)%nat -> INR k - 1 <= y < INR k ->
  0 < zipf_ratio s (INR k) y <= 1.
Proof.
  intros s k y Hs Hk Hy. unfold zipf_ratio.
  destruct (Nat.eq_dec k 1) as [->|Hne].
  - simpl INR. destruct (Rlt_dec 1 1); [lra|]. rewrite Rpower_1_base. lra.
  - assert (H2 : 2 <= INR k). { change 2 with (INR 2). apply le_INR. lia. }
    destruct (Rlt_dec 1 (INR k)); [|lra]. rewrite Rpower_Ropp.
    assert (HA : 0 < Rpower (INR k) s) by apply Rpower_pos.
    assert (HB : 0 < Rpower y s) by apply Rpower_pos.
    assert (HAB : Rpower y s <= Rpower (INR k) s) by (apply Rle_Rpower_l; lra).
    split.
    + apply Rmult_lt_0_compat; [apply Rinv_0_lt_compat|]; assumption.
    + apply Rmult_le_reg_l with (1 := HA). rewrite <- Rmult_assoc, Rinv_r by lra. lra.
Qed.

(* accepted (unnormalised) mass of the value k: the integral over [k-1, k) of hat * ratio *)
Theorem zipf_accept_mass : forall s (k : nat), (1 <= k)%nat ->
  is_RInt (fun y => zipf_hat s y * zipf_ratio s (INR k) y) (INR k - 1) (INR k) (Rpower (INR k) (- s)).
Proof.
  intros s k Hk.
  apply (is_RInt_ext (fun _ => Rpower (INR k) (- s))).
  - intros y Hy. symmetry. apply zipf_accept_identity; [exact Hk|].
    unfold Rmin, Rmax in Hy. destruct (Rle_dec (INR k - 1) (INR k)); lra.
  - evar_last.
    + apply @is_RInt_const.
    + unfold scal; simpl. unfold mult; simpl. ring.
Qed.

Lemma zipf_defs : forall n s y,
  zipf_hat s y = (if Rle_dec y 1 then 1 else Rpower y (- s)) /\
  zipf_Hcum_ne1 s y = (if Rle_dec y 1 then y else 1 + (Rpower y (1 - s) - 1) / (1 - s)) /\
  zipf_Hcum_eq1 y = (if Rle_dec y 1 then y else 1 + ln y) /\
  zipf_t_ne1 n s = (Rpower n (1 - s) - s) * (1 / (1 - s)) /\
  zipf_t_eq1 n = 1 + ln n /\
  zipf_inv_ne1 s y = (if Rle_dec y 1 then y else Rpower (y * (1 - s) + s) (1 / (1 - s))) /\
  zipf_inv_eq1 y = (if Rle_dec y 1 then y else exp (y - 1)) /\
  forall x, zipf_ratio s x y = if Rlt_dec 1 x then Rpower x (- s) * Rpower y s else Rpower x (- s).
Proof. intros. repeat split. Qed.
