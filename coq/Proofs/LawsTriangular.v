(* Proofs/LawsTriangular.v — value and law of the triangular sampler model (Model/Continuous.v):
   the one comparison of the model selects the branch of the two-piece quantile function, and that
   quantile function inverts the piecewise-quadratic CDF.                                        *)
From Coq Require Import Reals ZArith List Lra Lia.
From Interval Require Import Xreal.
From RD Require Import Base.Expr Base.Run Model.Sampler Model.Continuous Proofs.LawsInvCdf.
Import ListNotations.
Open Scope R_scope.

(* sample: with f = u*(max-min):  min + sqrt(f*(mode-min)) if f < mode-min, else
   max - sqrt(((max-min) - f)*(max-mode));  a = min, b = max, c = mode, u in [0,1) *)
Definition Q_tri (a b c u : R) : R :=
  if Rlt_dec (u * (b - a)) (c - a)
  then a + sqrt (u * (b - a) * (c - a))
  else b - sqrt (((b - a) - u * (b - a)) * (b - c)).
(* CDF (Wikipedia): 0 for x <= a, (x-a)^2/((b-a)(c-a)) for a < x <= c,
   1 - (b-x)^2/((b-a)(b-c)) for c < x < b, 1 for b <= x *)
Definition F_tri (a b c x : R) : R :=
  if Rle_dec x a then 0
  else if Rle_dec x c then (x - a) * (x - a) / ((b - a) * (c - a))
  else if Rlt_dec x b then 1 - (b - x) * (b - x) / ((b - a) * (b - c))
  else 1.

(* under the constructor's conditions both radicands are nonnegative (so Coq's total sqrt is the real one) *)
Lemma tri_radicands a b c u :
  a <= b -> a <= c <= b -> 0 <= u < 1 ->
  0 <= u * (b - a) * (c - a) /\ 0 <= ((b - a) - u * (b - a)) * (b - c).
Proof.
  intros Hab Hc Hu. split.
  - apply Rmult_le_pos; [apply Rmult_le_pos|]; lra.
  - apply Rmult_le_pos; [|lra].
    replace (b - a - u * (b - a)) with ((1 - u) * (b - a)) by ring. apply Rmult_le_pos; lra.
Qed.

(* the model evaluates (exact semantics `evals` of Base/Run.v) to an expression whose value is Q_tri,
   and to nothing else: the comparison is decided exactly as in Q_tri.  No hypothesis on the
   parameters is needed for this equation (Xsqrt is total); tri_radicands above is what makes the
   square roots the real ones under the constructor's conditions. *)
Lemma tri_frange_eval t mn mx w :
  evalX (tri_frange t mn mx w) = Xreal (uR_std t w * (dyR mx - dyR mn)).
Proof. unfold tri_frange. cbn [evalX xbin]. rewrite !dyx_eval, u_std_eval. reflexivity. Qed.
Lemma tri_dmm_eval mn mode : evalX (tri_dmm mn mode) = Xreal (dyR mode - dyR mn).
Proof. unfold tri_dmm. cbn [evalX xbin]. rewrite !dyx_eval. reflexivity. Qed.
Lemma tri_lo_eval t mn mx mode w :
  evalX (tri_lo_expr t mn mx mode w) =
  Xreal (dyR mn + sqrt (uR_std t w * (dyR mx - dyR mn) * (dyR mode - dyR mn))).
Proof.
  unfold tri_lo_expr. cbn [evalX xun xbin]. rewrite tri_frange_eval, tri_dmm_eval, dyx_eval. reflexivity.
Qed.
Lemma tri_hi_eval t mn mx mode w :
  evalX (tri_hi_expr t mn mx mode w) =
  Xreal (dyR mx - sqrt ((dyR mx - dyR mn - uR_std t w * (dyR mx - dyR mn)) * (dyR mx - dyR mode))).
Proof.
  unfold tri_hi_expr. cbn [evalX xun xbin]. rewrite tri_frange_eval, !dyx_eval. reflexivity.
Qed.

Theorem triangular_value t mn mx mode w ws :
  (exists e, evals (triangular t mn mx mode (w :: ws)) (e, ws)) /\
  (forall v, evals (triangular t mn mx mode (w :: ws)) v ->
     snd v = ws /\ evalX (fst v) = Xreal (Q_tri (dyR mn) (dyR mx) (dyR mode) (uR_std t w))).
Proof.
  destruct (triangular_run t mn mx mode w ws) as [k [E [Kt Kf]]]. rewrite E.
  pose proof (tri_frange_eval t mn mx w) as Ea. pose proof (tri_dmm_eval mn mode) as Eb.
  split.
  - exists (if rcmp CLt (uR_std t w * (dyR mx - dyR mn)) (dyR mode - dyR mn)
            then tri_lo_expr t mn mx mode w else tri_hi_expr t mn mx mode w).
    eapply EvAsk; [exact Ea|exact Eb|].
    destruct (rcmp CLt _ _); [rewrite Kt|rewrite Kf]; constructor.
  - intros v H. inversion H as [|c0 a0 b0 k0 x y v0 Hx Hy Hk|]; subst.
    rewrite Ea in Hx. rewrite Eb in Hy. injection Hx as <-. injection Hy as <-.
    unfold Q_tri. unfold rcmp in Hk.
    destruct (Rlt_dec (uR_std t w * (dyR mx - dyR mn)) (dyR mode - dyR mn)) as [L|L].
    + rewrite Kt in Hk. inversion Hk; subst. cbn [fst snd]. split; [reflexivity|apply tri_lo_eval].
    + rewrite Kf in Hk. inversion Hk; subst. cbn [fst snd]. split; [reflexivity|apply tri_hi_eval].
Qed.

(* ---- sqrt against a nonnegative bound ---- *)
Lemma sqrt_le_sq s d : 0 <= s -> 0 <= d -> (sqrt s <= d <-> s <= d * d).
Proof.
  intros Hs Hd. pose proof (sqrt_pos s) as P. pose proof (sqrt_sqrt s Hs) as Q. split; intros H.
  - nra.
  - destruct (Rle_or_lt (sqrt s) d); [assumption|]. nra.
Qed.
Lemma sq_le_sqrt s d : 0 <= s -> 0 <= d -> (d <= sqrt s <-> d * d <= s).
Proof.
  intros Hs Hd. pose proof (sqrt_pos s) as P. pose proof (sqrt_sqrt s Hs) as Q. split; intros H.
  - nra.
  - destruct (Rle_or_lt d (sqrt s)); [assumption|]. nra.
Qed.
Lemma le_div_iff k a b : 0 < k -> (a <= b / k <-> k * a <= b).
Proof. intros Hk. symmetry. now apply div_le_iff. Qed.

(* law: Q_tri is increasing in u and inverts F_tri.  (u = 0 and x < min is the one excluded
   combination: the draw 0 returns min itself, an event of probability 2^-53 / 2^-24.) *)
Theorem triangular_event a b c u x :
  a < b -> a <= c <= b -> 0 <= u < 1 -> (0 < u \/ a <= x) ->
  (Q_tri a b c u <= x <-> u <= F_tri a b c x).
Proof.
  intros Hab Hc Hu Hx. destruct (tri_radicands a b c u) as [R1 R2]; try lra.
  assert (Hur : 0 <= u * (b - a)) by (apply Rmult_le_pos; lra).
  assert (Hur1 : 0 < (1 - u) * (b - a)) by (apply Rmult_lt_0_compat; lra).
  unfold Q_tri, F_tri.
  destruct (Rlt_dec (u * (b - a)) (c - a)) as [L|L].
  - (* lower branch *)
    assert (Hp : 0 < c - a) by lra.
    pose proof (sqrt_pos (u * (b - a) * (c - a))) as S0.
    assert (S1 : sqrt (u * (b - a) * (c - a)) <= c - a).
    { apply sqrt_le_sq; [assumption|lra|]. apply Rmult_le_compat_r; lra. }
    destruct (Rle_dec x a) as [X1|X1].
    + split; intros H.
      * assert (Hs : sqrt (u * (b - a) * (c - a)) <= 0) by lra.
        apply sqrt_le_sq in Hs; [|assumption|lra].
        assert (0 < (b - a) * (c - a)) by (apply Rmult_lt_0_compat; lra). nra.
      * assert (E : u = 0) by lra. subst u. rewrite !Rmult_0_l, sqrt_0. lra.
    + destruct (Rle_dec x c) as [X2|X2].
      * rewrite le_div_iff by (apply Rmult_lt_0_compat; lra).
        transitivity (sqrt (u * (b - a) * (c - a)) <= x - a); [lra|].
        rewrite sqrt_le_sq by lra. split; intros H; nra.
      * destruct (Rlt_dec x b) as [X3|X3]; [|split; intros; lra].
        split; intros _; [|lra].
        assert (K : (b - x) * (b - x) / ((b - a) * (b - c)) <= 1 - u); [|lra].
        rewrite div_le_iff2 by (apply Rmult_lt_0_compat; lra).
        assert ((b - x) * (b - x) <= (b - c) * (b - c)) by nra.
        assert ((b - c) * (b - c) <= (b - c) * ((1 - u) * (b - a))) by (apply Rmult_le_compat_l; lra).
        nra.
  - (* upper branch *)
    assert (Hq : 0 < b - c) by lra.
    pose proof (sqrt_pos ((b - a - u * (b - a)) * (b - c))) as S0.
    assert (S1 : sqrt ((b - a - u * (b - a)) * (b - c)) <= b - c).
    { apply sqrt_le_sq; [assumption|lra|]. apply Rmult_le_compat_r; lra. }
    destruct (Rle_dec x a) as [X1|X1].
    + split; intros H.
      * assert (Hs : b - a <= sqrt ((b - a - u * (b - a)) * (b - c))) by lra.
        apply sq_le_sqrt in Hs; [|assumption|lra].
        assert (c = a) by lra. subst c.
        destruct (Rle_or_lt u 0) as [|U0]; [assumption|exfalso].
        assert (0 < u * ((b - a) * (b - a)))
          by (apply Rmult_lt_0_compat; [|apply Rmult_lt_0_compat]; lra).
        nra.
      * assert (E : u = 0) by lra. subst u. assert (c = a) by lra. subst c.
        replace ((b - a - 0 * (b - a)) * (b - a)) with ((b - a) * (b - a)) by ring.
        rewrite sqrt_square by lra. lra.
    + destruct (Rle_dec x c) as [X2|X2].
      * rewrite le_div_iff by (apply Rmult_lt_0_compat; lra).
        transitivity (b - x <= sqrt ((b - a - u * (b - a)) * (b - c))); [lra|].
        rewrite sq_le_sqrt by lra.
        assert (A1 : (b - a - u * (b - a)) * (b - c) <= (b - c) * (b - c))
          by (apply Rmult_le_compat_r; lra).
        assert (A2 : (c - a) * (c - a) <= (c - a) * (u * (b - a)))
          by (apply Rmult_le_compat_l; lra).
        split; intros H.
        -- assert (x = c) by nra. subst x.
           assert (u * (b - a) = c - a) by nra. nra.
        -- assert (x = c) by nra. subst x.
           assert (u * (b - a) = c - a) by nra. nra.
      * destruct (Rlt_dec x b) as [X3|X3]; [|split; intros; lra].
        transitivity (b - x <= sqrt ((b - a - u * (b - a)) * (b - c))); [lra|].
        rewrite sq_le_sqrt by lra.
        transitivity ((b - x) * (b - x) / ((b - a) * (b - c)) <= 1 - u); [|lra].
        rewrite div_le_iff2 by (apply Rmult_lt_0_compat; lra).
        split; intros H; nra.
Qed.

Example triangular_nonvacuous :
  (forall v, evals (triangular F64 (0, 0)%Z (4, 0)%Z (1, 0)%Z [2 ^ 63]%Z) v ->
     evalX (fst v) = Xreal (4 - sqrt 6)) /\
  (forall u x, 0 <= u < 1 -> 0 <= x -> (Q_tri 0 4 1 u <= x <-> u <= F_tri 0 4 1 x)).
Proof.
  split.
  - intros v H. apply triangular_value in H. destruct H as [_ H]. rewrite H. f_equal.
    assert (D0 : dyR (0, 0)%Z = 0) by (unfold dyR; simpl; lra).
    assert (D4 : dyR (4, 0)%Z = 4) by (unfold dyR; simpl; lra).
    assert (D1 : dyR (1, 0)%Z = 1) by (unfold dyR; simpl; lra).
    assert (U2 : uR_std F64 (2 ^ 63) = 1 / 2).
    { unfold uR_std. change (2 ^ 63 / 2 ^ 11)%Z with (2 ^ 52)%Z.
      replace (IZR (2 ^ 52)) with (2 ^ 52) by (rewrite (pow_IZR 2 52); reflexivity). field. }
    rewrite D0, D4, D1, U2. unfold Q_tri.
    destruct (Rlt_dec (1 / 2 * (4 - 0)) (1 - 0)) as [L|_]; [lra|].
    f_equal. f_equal. field.
  - intros u x Hu Hx. apply triangular_event; lra.
Qed.
