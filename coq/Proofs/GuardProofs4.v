(* Proofs/GuardProofs4.v — C04, part 4: Binomial (u64 n, float p; the f64_to_u64 assertion is
   unreachable), Dirichlet (list of parameters; nested Gamma::new / Beta::new never fail).      *)
From Coq Require Import ZArith List Bool String Reals Lra Lia.
From Flocq Require Import Core.Core IEEE754.Binary IEEE754.Bits IEEE754.BinarySingleNaN.
From RD Require Import Model.Guards Model.GuardSpec Proofs.GuardLemmas Proofs.GuardArith.
Import ListNotations.
Open Scope R_scope.

Ltac finish' := cbn; try (intros; congruence); finish.
Ltac guard_auto' := to_R; add_M; rcases; finish'.

Section Fmt.
Variable prec emax : Z.
Context (Hp : Prec_gt_0 prec) (Hpe : Prec_lt_emax prec emax).
Notation float := (binary_float prec emax).
Notation one := (one prec emax Hp Hpe).
Notation zero := (zero prec emax).
Notation half := (half prec emax Hp Hpe).
Notation ten := (ten prec emax Hp Hpe).
Notation of_Z := (of_Z prec emax Hp Hpe).
Notation fmul := (fmul prec emax Hp Hpe).
Notation fdiv := (fdiv prec emax Hp Hpe).
Notation fadd := (fadd prec emax Hp Hpe).
Notation fsub := (fsub prec emax Hp Hpe).
Notation fgt := (fgt prec emax).
Notation flt := (flt prec emax).
Notation fge := (fge prec emax).
Notation fle := (fle prec emax).
Notation feq := (feq prec emax).
Notation M := (M emax).
Notation ext := (ext prec emax).
Notation rnd := (rnd prec emax).
Notation clamp := (clamp emax).

(* ============================================================================================ *)
Section Binomial.
Hypothesis half_fin : is_finite half = true.
Hypothesis half_val : B2R half = / 2.
Hypothesis ten_fin : is_finite ten = true.
Hypothesis umax_fin : is_finite (of_Z u64_max) = true.
Hypothesis umax_val : B2R (of_Z u64_max) = 18446744073709551616.      (* u64::MAX as f64 = 2^64 *)
Hypothesis r63 : rnd 9223372036854775808 = 9223372036854775808.          (* 2^63 is a float *)
Hypothesis r15 : rnd 13835058055282163712 = 13835058055282163712.        (* 3*2^62 is a float *)

Lemma r64 : rnd 18446744073709551616 = 18446744073709551616.
Proof. rewrite <- umax_val. now apply rnd_B2R. Qed.
Lemma M_gt_2p64 : 18446744073709551616 < M.
Proof. rewrite <- umax_val. apply (finite_bound _ _ _ umax_fin). Qed.

Lemma ofZ_range (n : Z) : (0 <= n <= u64_max)%Z ->
  is_finite (of_Z n) = true /\ 0 <= B2R (of_Z n) <= 18446744073709551616.
Proof.
  intros (L & U). pose proof M_gt_2p64 as HM.
  assert (V : F2R (Float radix2 n 0) = IZR n) by (unfold F2R; simpl; ring).
  assert (B : 0 <= rnd (IZR n) <= 18446744073709551616).
  { split. apply rnd_ge0; trivial. now apply IZR_le.
    rewrite <- r64. apply rnd_le; trivial.
    apply Rle_trans with (IZR u64_max). now apply IZR_le. unfold u64_max. lra. }
  destruct (cdy_small prec emax Hp Hpe n 0) as (F & E).
  - rewrite V. apply Rabs_lt. lra.
  - unfold Guards.of_Z. rewrite E, V. auto.
Qed.

Definition Binomial_rest (n : Z) (p : float) : bool :=
  let p' := if fgt p half then fsub one p else p in
  let np := fmul (of_Z n) p' in
  flt np ten || (fge (fadd np p') zero && flt (fadd np p') (of_Z u64_max)).

Lemma Binomial_new_eq (n : Z) (p : float) :
  Binomial_new prec emax Hp Hpe n p =
  if negb (fge p zero) then GErr "ProbabilityTooSmall" else
  if negb (fle p one) then GErr "ProbabilityTooLarge" else
  if feq p zero || feq p one || Binomial_rest n p then GOk else GPanic.
Proof.
  unfold Binomial_new, Binomial_rest.
  destruct (fge p zero); simpl; trivial. destruct (fle p one); simpl; trivial.
  destruct (feq p zero); simpl; trivial. destruct (feq p one); simpl; trivial.
  destruct (flt _ ten); simpl; trivial.
Qed.

(* the assertion inside f64_to_u64 cannot fail *)
Lemma Binomial_rest_true (n : Z) (p : float) :
  (0 <= n <= u64_max)%Z -> is_finite p = true -> 0 <= B2R p <= 1 -> Binomial_rest n p = true.
Proof.
  intros Hn Fp Bp. pose proof M_gt_2p64 as HM. unfold Binomial_rest.
  set (p' := if fgt p half then fsub one p else p).
  assert (P' : is_finite p' = true /\ 0 <= B2R p' <= / 2).
  { unfold p'. destruct (fgt p half) eqn:G.
    - apply fgt_finite in G; trivial. rewrite half_val in G.
      destruct (Bminus_ext prec emax Hp Hpe one p (one_fin _ _ _ _) Fp) as (N & E).
      rewrite (one_B2R prec emax Hp Hpe) in E.
      assert (0 <= rnd (1 - B2R p) <= / 2).
      { split. apply rnd_ge0; trivial; lra. rewrite <- half_val. apply rnd_le_B2R; trivial. rewrite half_val. lra. }
      destruct (ext_clamp_finite prec emax Hp Hpe _ _ N E) as (F & V). apply Rabs_lt; lra.
      rewrite V. auto.
    - split; trivial. split. lra.
      destruct (Rle_or_lt (B2R p) (/ 2)); trivial.
      rewrite <- half_val in H. apply fgt_finite in H; trivial. congruence. }
  destruct P' as (Fp' & Bp'). clearbody p'.
  destruct (ofZ_range n Hn) as (FN & BN).
  set (np := fmul (of_Z n) p').
  destruct (Bmult_ext prec emax Hp Hpe (of_Z n) p' FN Fp') as (Nnp & Enp). fold np in Nnp, Enp.
  assert (Q : 0 <= B2R (of_Z n) * B2R p' <= 9223372036854775808) by nra.
  assert (Bnp : 0 <= rnd (B2R (of_Z n) * B2R p') <= 9223372036854775808).
  { split. apply rnd_ge0; trivial; lra. rewrite <- r63. apply rnd_le; trivial; lra. }
  destruct (ext_clamp_finite prec emax Hp Hpe _ _ Nnp Enp) as (Fnp & Vnp). apply Rabs_lt; lra.
  destruct (flt np ten); simpl; trivial.
  set (fm := fadd np p').
  destruct (Bplus_ext prec emax Hp Hpe np p' Fnp Fp') as (Nfm & Efm). fold fm in Nfm, Efm.
  assert (Bfm : 0 <= rnd (B2R np + B2R p') <= 13835058055282163712).
  { split. apply rnd_ge0; trivial; lra. rewrite <- r15. apply rnd_le; trivial; lra. }
  destruct (ext_clamp_finite prec emax Hp Hpe _ _ Nfm Efm) as (Ffm & Vfm). apply Rabs_lt; lra.
  apply andb_true_intro; split.
  - apply fge_finite; trivial. simpl. lra.
  - apply (proj2 (flt_finite prec emax fm (of_Z u64_max) Ffm umax_fin)). rewrite umax_val. lra.
Qed.

Theorem Binomial_new_sound (n : Z) (p : float) :
  (0 <= n <= u64_max)%Z ->
  agrees (Binomial_new prec emax Hp Hpe n p) (spec_Binomial_new prec emax Hp Hpe n p).
Proof.
  intros Hn. rewrite Binomial_new_eq. unfold spec_Binomial_new.
  fsplit p.
  1-3: destruct (_ || _ || _); guard_auto.
  pose proof (fc_fin _ _ _ Cp) as Fp.
  destruct (Rle_or_lt 0 (B2R p)) as [L|L]; [destruct (Rle_or_lt (B2R p) 1) as [U|U]|].
  - rewrite Binomial_rest_true by auto. rewrite !orb_true_r. guard_auto.
  - destruct (_ || _ || _); guard_auto.
  - destruct (_ || _ || _); guard_auto.
Qed.
End Binomial.

(* ============================================================================================ *)
Section Dirichlet.
Notation min_normal := (min_normal prec emax Hp Hpe).

Lemma fgt_one_zero' : fgt one zero = true.
Proof.
  unfold Guards.fgt, fcmp. rewrite (Bcompare_ext prec emax Hp Hpe) by (apply one_nan || reflexivity).
  rewrite ext_one, ext_zero. rewrite Rcompare_Gt; trivial; lra.
Qed.

(* ---- is_normal vs. the value-level notion of subnormal ---- *)
Lemma min_normal_ok : is_finite min_normal = true /\ B2R min_normal = bpow radix2 (2 - emax).
Proof.
  assert (V : F2R (Float radix2 1 (2 - emax)) = bpow radix2 (2 - emax)) by (unfold F2R; simpl; ring).
  assert (R : rnd (bpow radix2 (2 - emax)) = bpow radix2 (2 - emax)).
  { apply round_generic; auto with typeclass_instances.
    apply generic_format_bpow. unfold FLT_exp. unfold Prec_gt_0 in Hp. apply Z.max_lub; lia. }
  destruct (cdy_small prec emax Hp Hpe 1 (2 - emax)) as (F & E).
  - rewrite V, R. rewrite Rabs_pos_eq by apply bpow_ge_0. unfold GuardSpec.M. apply bpow_lt.
    unfold Prec_gt_0, Prec_lt_emax in *. lia.
  - unfold GuardSpec.min_normal. rewrite E, V, R. auto.
Qed.

Lemma normal_iff (m : positive) (e : Z) (H : SpecFloat.bounded prec emax m e = true) :
  negb (f_is_normal prec emax (B754_finite false m e H)) =
  v_subnormal prec emax Hp Hpe (B754_finite false m e H).
Proof.
  destruct min_normal_ok as (Fmn & Vmn).
  change (f_is_normal prec emax (B754_finite false m e H)) with (Z.pos (SpecFloat.digits2_pos m) =? prec)%Z.
  destruct (Z.eqb_spec (Z.pos (SpecFloat.digits2_pos m)) prec) as [E|E]; simpl negb.
  all: unfold v_subnormal, v_fin, v_eq, v_lt, Guards.fabs. all: simpl is_finite. all: simpl Babs.
  all: revert E.
  all: replace (Beqb (B754_finite false m e H) zero) with false by reflexivity. all: simpl negb; simpl andb.
  all: rewrite Bltb_correct by trivial. all: rewrite Vmn.
  all: pose proof H as Hb; unfold SpecFloat.bounded in Hb; apply andb_prop in Hb; destruct Hb as (Hc & _).
  all: unfold SpecFloat.canonical_mantissa in Hc; apply Zeq_bool_eq in Hc.
  all: unfold SpecFloat.fexp, SpecFloat.emin in Hc.
  all: pose proof (Zdigits_correct radix2 (Z.pos m)) as D; rewrite <- Zpos_digits2_pos in D.
  all: set (d := Z.pos (SpecFloat.digits2_pos m)) in *; simpl Z.abs in D.
  all: assert (Pd : (0 < d)%Z) by (unfold d; lia).
  all: simpl B2R; unfold F2R; simpl Fnum; simpl Fexp.
  all: unfold Prec_gt_0 in Hp.
  all: intros E; symmetry.
  - apply Rlt_bool_false.
    assert (e >= 3 - emax - prec)%Z by lia.
    apply Rle_trans with (bpow radix2 (prec - 1) * bpow radix2 e).
    + rewrite <- bpow_plus. apply bpow_le. lia.
    + apply Rmult_le_compat_r. apply bpow_ge_0.
      rewrite <- (IZR_Zpower radix2) by lia. apply IZR_le. rewrite <- E. apply D.
  - apply Rlt_bool_true.
    assert (d < prec /\ e = 3 - emax - prec)%Z by lia.
    apply Rlt_le_trans with (bpow radix2 d * bpow radix2 e).
    + apply Rmult_lt_compat_r. apply bpow_gt_0.
      rewrite <- (IZR_Zpower radix2) by lia. apply IZR_lt. apply D.
    + rewrite <- bpow_plus. apply bpow_le. lia.
Qed.

(* the model's per-element tests are the documented ones *)
Lemma Dirichlet_check_spec (alpha : list float) :
  Dirichlet_check prec emax alpha = Dirichlet_first_offence prec emax Hp Hpe alpha.
Proof.
  induction alpha as [|a rest IH]; simpl; trivial.
  assert (E1 : negb (fgt a zero) = le0_or_nan prec emax a).
  { fsplit a; to_R; add_M; rcases; cbn; trivial; exfalso; lra. }
  rewrite <- E1. destruct (fgt a zero) eqn:G; simpl; trivial.
  destruct (fgt_zero_inv prec emax a G) as [-> | (m & e & H & ->)]; simpl; trivial.
  rewrite <- (normal_iff m e H). unfold f_is_normal. simpl. rewrite IH. reflexivity.
Qed.

(* ---- the nested constructors succeed on valid parameters ---- *)
Definition posfin (a : float) : Prop := is_finite a = true /\ 0 < B2R a.
Definition spos (a : float) : Prop := fgt a zero = true.

Lemma Dirichlet_check_None (alpha : list float) :
  Dirichlet_check prec emax alpha = None -> Forall posfin alpha.
Proof.
  induction alpha as [|a rest IH]; simpl; intros E; constructor.
  - destruct (fgt a zero) eqn:G; simpl in E; try discriminate.
    destruct (fgt_zero_inv prec emax a G) as [-> | (m & e & H & ->)]; simpl in E; try discriminate.
    split. reflexivity. apply finite_pos_B2R.
  - apply IH. destruct (negb (fgt a zero)); try discriminate.
    destruct (f_is_infinite prec emax a); try discriminate.
    destruct (negb (f_is_normal prec emax a)); try discriminate. trivial.
Qed.

Lemma posfin_spos (a : float) : posfin a -> spos a.
Proof.
  intros (F & P). destruct (finite_pos_struct _ _ a F P) as (m & e & H & ->). reflexivity.
Qed.

Lemma spos_add (acc x : float) : spos acc -> posfin x -> spos (fadd acc x).
Proof.
  intros S (F & P). unfold spos in *.
  destruct (fgt_zero_inv prec emax acc S) as [-> | (m & e & H & ->)].
  - destruct (finite_pos_struct _ _ x F P) as (m & e & H & ->). reflexivity.
  - destruct (Bplus_ext prec emax Hp Hpe (B754_finite false m e H) x eq_refl F) as (N & E).
    apply (fgt_zero_ext prec emax Hp Hpe); trivial. rewrite E.
    apply (clamp_pos prec emax Hp Hpe).
    pose proof (finite_pos_B2R prec emax m e H).
    assert (B2R x <= rnd (B2R (B754_finite false m e H : float) + B2R x)) by (apply rnd_ge_B2R; trivial; lra).
    lra.
Qed.

Lemma rev_csum_spos (l : list float) : Forall posfin l -> Forall spos (rev_csum prec emax Hp Hpe l).
Proof.
  induction l as [|x rest IH]; intros Hl. constructor.
  inversion Hl as [|? ? Hx Hr]; subst.
  specialize (IH Hr). simpl.
  destruct rest as [|y r]. constructor; trivial. now apply posfin_spos.
  destruct (rev_csum prec emax Hp Hpe (y :: r)) as [|acc r'] eqn:E.
  - constructor; trivial. now apply posfin_spos.
  - constructor. { inversion IH; subst. now apply spos_add. } exact IH.
Qed.

Lemma all_ok_GOk (l : list gres) (e : string) : Forall (fun r => r = GOk) l -> all_ok l e = GOk.
Proof. induction 1 as [|r l Hr Hl IH]; simpl; trivial. now rewrite Hr. Qed.

Lemma In_removelast (A : Type) (l : list A) (x : A) : In x (removelast l) -> In x l.
Proof.
  induction l as [|a l IH]; simpl; trivial.
  destruct l as [|b l]; simpl in *; tauto.
Qed.

Lemma Beta_new_spos (a b : float) : spos a -> spos b -> Beta_new prec emax a b = GOk.
Proof. unfold spos, Beta_new. now intros -> ->. Qed.

Lemma DirichletFromBeta_ok (alpha : list float) :
  Forall posfin alpha -> DirichletFromBeta_new prec emax Hp Hpe alpha = GOk.
Proof.
  intros Ha. unfold DirichletFromBeta_new. apply all_ok_GOk.
  apply Forall_forall. intros r Hr. apply in_map_iff in Hr. destruct Hr as ((a & b) & <- & Hab).
  simpl. apply Beta_new_spos.
  - apply posfin_spos. apply in_combine_l in Hab. apply In_removelast in Hab.
    revert a Hab. now apply Forall_forall.
  - apply in_combine_r in Hab. revert b Hab. apply Forall_forall. apply rev_csum_spos.
    destruct alpha; simpl; trivial. now inversion Ha.
Qed.

Lemma DirichletFromGamma_ok (alpha : list float) :
  Forall posfin alpha -> DirichletFromGamma_new prec emax Hp Hpe alpha = GOk.
Proof.
  intros Ha. unfold DirichletFromGamma_new. apply all_ok_GOk.
  apply Forall_forall. intros r Hr. apply in_map_iff in Hr. destruct Hr as (a & <- & Hin).
  rewrite Gamma_new_eq, fgt_one_zero'.
  assert (S : spos a) by (apply posfin_spos; revert a Hin; now apply Forall_forall).
  unfold spos in S. now rewrite S.
Qed.

(* FailedToCreateGamma / FailedToCreateBeta / a panic are unreachable; errors are the documented ones *)
Theorem Dirichlet_new_sound (alpha : list float) :
  agrees (Dirichlet_new prec emax Hp Hpe alpha) (spec_Dirichlet_new prec emax Hp Hpe alpha).
Proof.
  unfold Dirichlet_new, spec_Dirichlet_new.
  destruct (_ <? _)%nat. simpl; auto.
  rewrite <- Dirichlet_check_spec.
  destruct (Dirichlet_check prec emax alpha) eqn:E. simpl; auto.
  apply Dirichlet_check_None in E.
  destruct (forallb _ alpha).
  - now rewrite DirichletFromBeta_ok.
  - now rewrite DirichletFromGamma_ok.
Qed.
End Dirichlet.

End Fmt.
