(* Proofs/TreeRefine.v — every reachable state refines the plain weight list and
   equals a fresh build of it.  Stdlib only; axiom-free.                         *)
From Coq Require Import ZArith List Bool Arith Lia.
From RD Require Import Model.Tree Proofs.TreeBasics Proofs.TreeOps.
Import ListNotations.
Open Scope Z_scope.
Arguments abs : simpl never.
Arguments zsum : simpl never.

Lemma abs_length t : length (abs t) = length t.
Proof. unfold abs. now rewrite map_length, seq_length. Qed.

Lemma inv_of_rep ty w t : Rep w t -> Nonneg w -> zsum w <= whi ty -> Inv ty t.
Proof. intros. exists w. auto. Qed.

Theorem step_refines ty t o : wf_ty ty -> Inv ty t -> op_ok ty t o ->
  spec_step ty (abs t) o = (abs (fst (step ty t o)), snd (step ty t o)) /\
  Inv ty (fst (step ty t o)) /\ snd (step ty t o) <> OutPanic.
Proof.
  intros WF I OK. pose proof I as [w [R [N HS]]]. rewrite (rep_abs w t R).
  destruct o as [x| |i x]; cbn [step spec_step op_ok] in *.
  - (* push *)
    destruct (Z.ltb_spec x 0) as [Hneg|Hnn].
    { rewrite push_err_weight by lia. cbn. rewrite (rep_abs w t R). repeat split; auto. discriminate. }
    assert (Ew : tree_is_empty w = tree_is_empty t).
    { destruct R as [L _]. destruct w, t; simpl in *; auto; lia. }
    rewrite Ew.
    destruct (tree_is_empty t) eqn:Et; cbn [negb andb].
    + assert (t = []) by (destruct t; [auto|discriminate]). subst t.
      destruct (push_ok ty w [] x WF R N HS ltac:(lia) ltac:(auto)) as [t' [E R']].
      rewrite E. cbn. rewrite (rep_abs _ _ R'). repeat split; auto; try discriminate.
      exists (w ++ [x]). split; auto. split; [apply nonneg_app; auto|].
      destruct R as [L _]. destruct w; [|simpl in L; lia]. unfold zsum; simpl. lia.
    + assert (Hne : t <> []) by (intros ->; discriminate).
      destruct (Z.ltb_spec (whi ty) (zsum w + x)) as [Hov|Hfit].
      * rewrite (push_err_overflow ty w t x R Hnn Hne Hov). cbn. rewrite (rep_abs w t R).
        repeat split; auto. discriminate.
      * destruct (push_ok ty w t x WF R N HS ltac:(lia) ltac:(auto)) as [t' [E R']].
        rewrite E. cbn. rewrite (rep_abs _ _ R'). repeat split; auto; try discriminate.
        exists (w ++ [x]). split; auto. split; [apply nonneg_app; auto|].
        rewrite zsum_app. unfold zsum at 2. simpl. lia.
  - (* pop *)
    destruct t as [|t0 tr] using rev_ind.
    + destruct R as [L _]. destruct w; [|simpl in L; lia]. cbn. repeat split; auto. discriminate.
    + clear IHtr. destruct w as [|w0 wr] using rev_ind.
      { destruct R as [L _]. rewrite app_length in L. simpl in L. lia. }
      clear IHwr. destruct (pop_ok ty wr tr w0 t0 WF R N HS) as [t' [E R']].
      rewrite E. cbn. rewrite rev_unit, rev_involutive. rewrite (rep_abs _ _ R').
      repeat split; auto; try discriminate.
      exists wr. split; auto. split; [eapply nonneg_unapp; eauto|].
      rewrite zsum_app in HS. unfold zsum at 2 in HS. simpl in HS.
      assert (0 <= w0). { specialize (N (length wr)). rewrite nthz_app_r in N by lia.
        rewrite Nat.sub_diag in N. exact N. } lia.
  - (* update *)
    destruct OK as [Hi Hx].
    destruct (Z.ltb_spec x 0) as [Hneg|Hnn].
    { rewrite update_err_weight by lia. cbn. rewrite (rep_abs w t R). repeat split; auto. discriminate. }
    destruct (Z.ltb_spec (whi ty) (zsum w - nthz w i + x)) as [Hov|Hfit].
    + rewrite (update_err_overflow ty w t i x WF R N HS Hi Hnn Hov). cbn. rewrite (rep_abs w t R).
      repeat split; auto. discriminate.
    + destruct (update_ok ty w t i x WF R N HS Hi Hnn Hfit) as [t' [E R']].
      rewrite E. cbn. rewrite (rep_abs _ _ R'). repeat split; auto; try discriminate.
      exists (upd w i x). split; auto. split; [apply nonneg_upd; auto|].
      destruct R as [L _]. rewrite zsum_upd by lia. lia.
Qed.

(* an operation that reports an error leaves the structure unchanged *)
Theorem step_error_atomic ty t o e : snd (step ty t o) = OutErr e -> fst (step ty t o) = t.
Proof. destruct o; cbn [step].
  - destruct (tree_push ty t w); cbn; auto; discriminate.
  - destruct (tree_pop ty t) as [[? ?]| |]; cbn; auto; discriminate.
  - destruct (tree_update ty t i w); cbn; auto; discriminate.
Qed.

(* the `==` claim: a reachable state IS the fresh build of its weight list *)
Theorem inv_eq_fresh ty t : wf_ty ty -> Inv ty t -> tree_new ty (abs t) = Ok t.
Proof.
  intros WF [w [R [N HS]]]. rewrite (rep_abs w t R).
  assert (IR : InRange ty w).
  { intros i. destruct (Nat.ltb_spec i (length t)).
    - pose proof (rep_weight_le w t R N i H). pose proof (inv_entries ty t w WF R N HS i). lia.
    - destruct R as [L _]. rewrite nthz_oob by lia. apply WF. }
  pose proof (tree_new_spec ty w WF IR) as H.
  destruct (tree_new ty w) as [t2|[]|]; try contradiction; try (destruct H; try contradiction; lia).
  destruct H as [_ [_ R2]]. f_equal. eapply rep_unique; eauto.
Qed.

(* observers agree with the list *)
Theorem inv_observers ty t : wf_ty ty -> Inv ty t ->
  tree_len t = Z.of_nat (length (abs t)) /\
  tree_is_empty t = tree_is_empty (abs t) /\
  (forall i, (i < length t)%nat -> get_chk ty t i = Ok (nthz (abs t) i)) /\
  tree_is_valid t = (0 <? zsum (abs t)).
Proof.
  intros WF [w [R [N HS]]]. rewrite (rep_abs w t R). pose proof R as [L _].
  split; [unfold tree_len; lia|]. split; [destruct w, t; simpl in *; auto; lia|].
  split; [intros; now apply get_chk_ok|].
  pose proof (rep_root_sum w t R) as Root. destruct t as [|r tr].
  - destruct w; [reflexivity|simpl in L; lia].
  - unfold sub, nthz in Root. simpl in Root. subst r. reflexivity.
Qed.

(* ---- arbitrary finite histories ---------------------------------------------------- *)
Theorem history_refines ty : wf_ty ty -> forall ops t, Inv ty t -> ops_ok ty t ops ->
  Inv ty (run ty t ops) /\
  abs (run ty t ops) = spec_run ty (abs t) ops /\
  outs ty t ops = spec_outs ty (abs t) ops /\
  ~ In OutPanic (outs ty t ops).
Proof.
  intros WF. induction ops as [|o r IH]; intros t I OK.
  - cbn. auto.
  - destruct OK as [OK1 OKr].
    destruct (step_refines ty t o WF I OK1) as [E [I' NP]].
    specialize (IH _ I' OKr). destruct IH as [IH1 [IH2 [IH3 IH4]]].
    unfold run, spec_run in *. cbn [fold_left outs spec_outs]. rewrite E. cbn [fst snd].
    repeat split; auto.
    + now rewrite IH3.
    + intros [H|H]; [now apply NP|now apply IH4].
Qed.

Theorem history_eq_fresh ty ws t0 ops : wf_ty ty -> InRange ty ws ->
  tree_new ty ws = Ok t0 -> ops_ok ty t0 ops ->
  tree_new ty (abs (run ty t0 ops)) = Ok (run ty t0 ops).
Proof.
  intros WF IR E OK. pose proof (tree_new_spec ty ws WF IR) as H. rewrite E in H.
  destruct H as [N [HS R]].
  apply inv_eq_fresh; auto. apply history_refines; auto. exists ws. auto.
Qed.

Lemma inr_spec ty v : inr ty v = true <-> wlo ty <= v <= whi ty.
Proof. unfold inr. rewrite andb_true_iff, !Z.leb_le. tauto. Qed.

Lemma ops_okb_sound ty : forall ops t, ops_okb ty t ops = true -> ops_ok ty t ops.
Proof. induction ops as [|o r IH]; intros t H; cbn [ops_okb ops_ok] in *; auto.
  apply andb_true_iff in H. destruct H as [H1 H2]. split; [|now apply IH].
  destruct o; cbn [op_okb op_ok] in *; auto.
  - now apply inr_spec.
  - apply andb_true_iff in H1. destruct H1 as [Ha Hb]. split; [now apply Nat.ltb_lt|now apply inr_spec].
Qed.
