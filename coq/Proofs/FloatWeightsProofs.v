(* Proofs/FloatWeightsProofs.v — facts about Model/FloatWeights.v that hold for ALL float weight
   lists, in both formats (generic prec/emax): comparison-with-zero case analyses, lengths, error
   characterisation and atomicity for the float WeightedTreeIndex.  The alias part is in
   Proofs/FloatWeightsAlias.v.                                                                  *)
From Coq Require Import ZArith List Bool Arith Lia.
From Flocq Require Import Core.Core IEEE754.Binary IEEE754.Bits IEEE754.BinarySingleNaN.
From RD Require Import Model.Tree Model.Uniform Model.FloatWeights.
Import ListNotations.

Section Fmt.
Variable prec emax : Z.
Context (Hp : Prec_gt_0 prec) (Hpe : Prec_lt_emax prec emax).
Notation float := (BinarySingleNaN.binary_float prec emax).
Notation fzero := (fzero prec emax).
Notation fge := (fge prec emax).
Notation fgt := (fgt prec emax).
Notation flt := (flt prec emax).
Notation fle := (fle prec emax).
Notation feq := (feq prec emax).
Notation fvalid_w := (fvalid_w prec emax).
Notation ftree_new := (ftree_new prec emax Hp Hpe).
Notation ftree_push := (ftree_push prec emax Hp Hpe).
Notation ftree_pop := (ftree_pop prec emax Hp Hpe).
Notation ftree_update := (ftree_update prec emax Hp Hpe).
Notation fstep := (fstep prec emax Hp Hpe).
Notation fclimb := (fclimb prec emax).
Notation fupd := (fupd prec emax).
Notation nthf := (nthf prec emax).

(* strictly negative: -inf or a negative finite non-zero number; -0.0 is NOT strictly negative *)
Definition fneg_strict (w : float) : bool :=
  match w with B754_infinity true | B754_finite true _ _ _ => true | _ => false end.
(* the weights rejected by `!(w >= 0.0)` *)
Definition fbad_w (w : float) : bool := is_nan w || fneg_strict w.

Lemma fge_zero_spec : forall w : float, fge w fzero = negb (fbad_w w).
Proof. intros [s|s| |s m e H]; try destruct s; reflexivity. Qed.

Lemma fle_zero_spec : forall w : float, fle fzero w = negb (fbad_w w).
Proof. intros [s|s| |s m e H]; try destruct s; reflexivity. Qed.

Lemma fvalid_w_spec : forall w, fvalid_w w = negb (fbad_w w).
Proof. exact fge_zero_spec. Qed.

(* -0.0, +0.0, +inf are accepted; NaN, -inf are rejected *)
Lemma fvalid_w_examples :
  fvalid_w (B754_zero true) = true /\ fvalid_w (B754_zero false) = true /\
  fvalid_w (B754_infinity false) = true /\ fvalid_w B754_nan = false /\
  fvalid_w (B754_infinity true) = false.
Proof. repeat split. Qed.

(* ---- lengths ---- *)
Lemma fupd_length : forall (l : list float) i v, length (fupd l i v) = length l.
Proof. induction l; intros [|i] v; simpl; auto. Qed.

Lemma fold_fupd_length : forall (A : Type) (f : list float -> A -> nat) (g : list float -> A -> float) (l : list A) (t : list float),
  length (fold_left (fun t p => fupd t (f t p) (g t p)) l t) = length t.
Proof. induction l; intros; simpl; auto. rewrite IHl. apply fupd_length. Qed.

Lemma fclimb_length : forall op d t i, length (fclimb op d t i) = length t.
Proof.
  intros. unfold FloatWeights.fclimb.
  apply (fold_fupd_length nat (fun _ p => p) (fun t p => op (nthf t p) d)).
Qed.

Lemma fnew_loop_length : forall idx t, length (fnew_loop prec emax Hp Hpe idx t) = length t.
Proof.
  intros. unfold fnew_loop.
  apply (fold_fupd_length nat (fun _ i => par i)
           (fun t i => fadd prec emax Hp Hpe (nthf t (par i)) (nthf t i))).
Qed.

(* ---- ancestors are strictly smaller: the walk never touches the start node ---- *)
Lemma par_lt : forall i, (0 < i)%nat -> (par i < i)%nat.
Proof.
  intros i H. unfold par.
  apply Nat.le_lt_trans with (i - 1)%nat; [apply Nat.div_le_upper_bound; lia | lia].
Qed.

Lemma anc_aux_lt : forall f i p, In p (anc_aux f i) -> (p < i)%nat.
Proof.
  induction f; intros i p H; simpl in H; [contradiction|].
  destruct i as [|i']; [contradiction|].
  destruct H as [H|H].
  - subst p. apply par_lt. lia.
  - apply IHf in H. pose proof (par_lt (S i')). lia.
Qed.

Lemma nthf_fupd_other : forall (l : list float) i j v, i <> j -> nthf (fupd l i v) j = nthf l j.
Proof.
  unfold FloatWeights.nthf.
  induction l; intros [|i] [|j] v H; simpl; auto; try congruence.
Qed.

Lemma fclimb_nth_ge : forall op d t i j, (i <= j)%nat -> nthf (fclimb op d t i) j = nthf t j.
Proof.
  intros op d t i j Hij. unfold FloatWeights.fclimb, anc.
  assert (H : forall p, In p (anc_aux i i) -> (p < j)%nat)
    by (intros p Hin; apply anc_aux_lt in Hin; lia).
  revert t H. generalize (anc_aux i i) as l.
  induction l; intros t H; simpl; auto.
  rewrite IHl by (intros; apply H; right; auto).
  apply nthf_fupd_other. specialize (H a (or_introl eq_refl)). lia.
Qed.

(* ============================================================================================ *)
(* tree_float_new_errors                                                                        *)

Lemma forallb_false_ex : forall (A : Type) (f : A -> bool) l,
  forallb f l = false <-> exists x, In x l /\ f x = false.
Proof.
  induction l; simpl.
  - split; [discriminate | intros [x [[] _]]].
  - rewrite andb_false_iff, IHl. split.
    + intros [H | [x [Hi Hx]]]; [exists a | exists x]; auto.
    + intros [x [[E|Hi] Hx]]; [subst; auto | right; exists x; auto].
Qed.

Theorem tree_float_new_errors : forall ws : list float,
  (* InvalidWeight iff some weight is NaN or strictly negative (-0.0 is accepted) *)
  (ftree_new ws = Err InvalidWeight <->
     exists w, In w ws /\ (is_nan w = true \/ fneg_strict w = true)) /\
  (* otherwise Ok with a state of the same length: never Overflow, never Panic *)
  ((forall w, In w ws -> is_nan w = false /\ fneg_strict w = false) ->
     exists t, ftree_new ws = Ok t /\ length t = length ws) /\
  ftree_new ws <> Err Overflow /\ ftree_new ws <> Err InsufficientNonZero /\
  ftree_new ws <> Err InvalidInput /\ ftree_new ws <> Panic.
Proof.
  intros ws. unfold FloatWeights.ftree_new.
  destruct (forallb fvalid_w ws) eqn:E.
  - repeat split; try discriminate.
    + intros [w [Hi Hw]]. rewrite forallb_forall in E. specialize (E w Hi).
      rewrite fvalid_w_spec in E. unfold fbad_w in E.
      destruct Hw as [Hw|Hw]; rewrite Hw in E; simpl in E; try discriminate.
      rewrite orb_true_r in E. discriminate.
    + intros _. eexists; split; [reflexivity|]. apply fnew_loop_length.
  - repeat split; try discriminate.
    + intros _. apply forallb_false_ex in E. destruct E as [w [Hi Hw]].
      exists w; split; auto. rewrite fvalid_w_spec in Hw. unfold fbad_w in Hw.
      destruct (is_nan w); auto; destruct (fneg_strict w); auto; discriminate.
    + intros H. apply forallb_false_ex in E. destruct E as [w [Hi Hw]].
      destruct (H w Hi) as [H1 H2]. rewrite fvalid_w_spec in Hw. unfold fbad_w in Hw.
      rewrite H1, H2 in Hw. discriminate.
Qed.

(* ============================================================================================ *)
(* tree_float_len                                                                               *)

Lemma rev_eq_nil : forall (A : Type) (l : list A), rev l = [] -> l = [].
Proof. intros A l H. rewrite <- (rev_involutive l), H. reflexivity. Qed.

Theorem tree_float_len :
  (forall ws t, ftree_new ws = Ok t -> length t = length ws) /\
  (forall t w t', ftree_push t w = Ok t' -> length t' = S (length t)) /\
  (forall t, length (fst (ftree_pop t)) = Nat.pred (length t)) /\
  (forall t, snd (ftree_pop t) = None <-> t = []) /\
  (forall t i w t', ftree_update t i w = Ok t' -> length t' = length t) /\
  (forall t : list float, ftree_is_empty prec emax t = true <-> length t = 0%nat) /\
  (forall t : list float, ftree_len prec emax t = Z.of_nat (length t)).
Proof.
  repeat split.
  - intros ws t. unfold FloatWeights.ftree_new. destruct (forallb _ _); [|discriminate].
    intros H; inversion H. apply fnew_loop_length.
  - intros t w t'. unfold FloatWeights.ftree_push. destruct (negb _); [discriminate|].
    intros H; inversion H. rewrite fclimb_length, app_length. simpl. lia.
  - intros t. unfold FloatWeights.ftree_pop.
    rewrite <- (rev_involutive t) at 2. rewrite rev_length.
    destruct (rev t) as [|w r]; simpl; auto.
    rewrite fclimb_length, rev_length. reflexivity.
  - unfold FloatWeights.ftree_pop. destruct (rev t) eqn:E; simpl; [|discriminate].
    intros _. apply rev_eq_nil; auto.
  - intros ->. reflexivity.
  - intros t i w t'. unfold FloatWeights.ftree_update, ftree_get_chk.
    destruct (negb _); [discriminate|]. destruct (i <? length t)%nat; [|discriminate].
    destruct (FloatWeights.fgt _ _ _ _); [|destruct (FloatWeights.flt _ _ _ _)];
      intros H; inversion H; auto; rewrite fclimb_length, fupd_length; reflexivity.
  - destruct t; simpl; [auto | discriminate].
  - destruct t; simpl; [auto | discriminate].
Qed.

(* pushing w and popping returns exactly w (the STATE after the pop need not be the old one:
   the ancestors were incremented and decremented with rounding) *)
Theorem tree_float_push_pop_value : forall t w t',
  ftree_push t w = Ok t' -> snd (ftree_pop t') = Some w.
Proof.
  intros t w t'. unfold FloatWeights.ftree_push. destruct (negb _); [discriminate|].
  intros H; inversion H as [E]; clear H.
  set (t1 := fclimb _ w (t ++ [w]) (length t)).
  assert (L : length t1 = S (length t)) by (unfold t1; rewrite fclimb_length, app_length; simpl; lia).
  assert (N : nthf t1 (length t) = w).
  { unfold t1. rewrite fclimb_nth_ge by lia. unfold FloatWeights.nthf.
    rewrite app_nth2 by lia. rewrite Nat.sub_diag. reflexivity. }
  unfold FloatWeights.ftree_pop.
  destruct (rev t1) as [|x r] eqn:R.
  - apply rev_eq_nil in R. rewrite R in L. discriminate.
  - simpl. f_equal.
    assert (E1 : t1 = rev r ++ [x]) by (rewrite <- (rev_involutive t1), R; reflexivity).
    assert (Lr : length (rev r) = length t)
      by (rewrite E1, app_length in L; simpl in L; lia).
    rewrite E1 in N. unfold FloatWeights.nthf in N.
    rewrite app_nth2 in N by lia. rewrite Lr, Nat.sub_diag in N. exact N.
Qed.

(* ============================================================================================ *)
(* tree_float_error_atomic                                                                      *)

(* exact result classification of push and update *)
Theorem tree_float_push_result : forall t w,
  (fbad_w w = true -> ftree_push t w = Err InvalidWeight) /\
  (fbad_w w = false -> exists t', ftree_push t w = Ok t').
Proof.
  intros t w. unfold FloatWeights.ftree_push. rewrite fvalid_w_spec, negb_involutive.
  split; intros ->; eauto.
Qed.

Theorem tree_float_update_result : forall t i w,
  (fbad_w w = true -> ftree_update t i w = Err InvalidWeight) /\
  (fbad_w w = false -> (length t <= i)%nat -> ftree_update t i w = Panic) /\
  (fbad_w w = false -> (i < length t)%nat -> exists t', ftree_update t i w = Ok t').
Proof.
  intros t i w. unfold FloatWeights.ftree_update, ftree_get_chk.
  rewrite fvalid_w_spec, negb_involutive.
  repeat split; intros ->; auto; intros Hi.
  - apply Nat.ltb_ge in Hi. rewrite Hi. reflexivity.
  - apply Nat.ltb_lt in Hi. rewrite Hi.
    destruct (FloatWeights.fgt _ _ _ _); [|destruct (FloatWeights.flt _ _ _ _)]; eauto.
Qed.

(* an operation that returns an error leaves the state unchanged; the only error any history
   operation can return is InvalidWeight (Overflow is unreachable for floats); a panic only
   arises from update with an out-of-range index *)
Theorem tree_float_error_atomic : forall t o e,
  snd (fstep t o) = FErr e -> fst (fstep t o) = t /\ e = InvalidWeight.
Proof.
  intros t [w| |i w] e; unfold FloatWeights.fstep.
  - destruct (tree_float_push_result t w) as [A B].
    destruct (fbad_w w) eqn:E.
    + rewrite (A eq_refl). simpl. intros H; inversion H; auto.
    + destruct (B eq_refl) as [t' ->]. simpl. discriminate.
  - destruct (ftree_pop t). simpl. discriminate.
  - destruct (tree_float_update_result t i w) as [A [B C]].
    destruct (fbad_w w) eqn:E.
    + rewrite (A eq_refl). simpl. intros H; inversion H; auto.
    + destruct (Nat.lt_ge_cases i (length t)) as [Hi|Hi].
      * destruct (C eq_refl Hi) as [t' ->]. simpl. discriminate.
      * rewrite (B eq_refl Hi). simpl. discriminate.
Qed.

Theorem tree_float_panic_only_bad_index : forall t o,
  snd (fstep t o) = FPanic -> exists i w, o = FUpdate i w /\ (length t <= i)%nat.
Proof.
  intros t [w| |i w]; unfold FloatWeights.fstep.
  - destruct (tree_float_push_result t w) as [A B].
    destruct (fbad_w w) eqn:E; [rewrite (A eq_refl) | destruct (B eq_refl) as [t' ->]]; simpl; discriminate.
  - destruct (ftree_pop t). simpl. discriminate.
  - destruct (tree_float_update_result t i w) as [A [B C]].
    destruct (fbad_w w) eqn:E.
    + rewrite (A eq_refl). simpl. discriminate.
    + destruct (Nat.lt_ge_cases i (length t)) as [Hi|Hi].
      * destruct (C eq_refl Hi) as [t' ->]. simpl. discriminate.
      * intros _. exists i, w. auto.
Qed.

(* try_sample: the error case *)
Theorem tree_float_sample_zero : forall (t : list float) target,
  feq (ftree_total prec emax t) fzero = true ->
  ftree_try_sample prec emax Hp Hpe t target = Err InsufficientNonZero.
Proof. intros t target H. unfold ftree_try_sample. rewrite H. reflexivity. Qed.

(* is_valid implies that try_sample does not return the error (but it may PANIC: C10_float) *)
Theorem tree_float_valid_not_err : forall (t : list float) target e,
  ftree_is_valid prec emax t = true -> ftree_try_sample prec emax Hp Hpe t target <> Err e.
Proof.
  intros t target e V. unfold ftree_try_sample.
  destruct t as [|r t']; [discriminate|]. simpl in V |- *.
  assert (E : feq r fzero = false).
  { unfold FloatWeights.feq, FloatWeights.fgt in *. destruct (fcmp prec emax r fzero) as [[| |]|]; auto; discriminate. }
  rewrite E. unfold ftree_sample_target.
  destruct (fdescend _ _ _ _ _ _ _ _) as [[i resid]|]; [|discriminate].
  destruct (negb _); [discriminate|].
  destruct (ftree_get_chk _ _ _ _ _ _) eqn:G; try discriminate.
  destruct (FloatWeights.flt _ _ _ _); discriminate.
Qed.

End Fmt.
