(* Proofs/PmfZeta.v — Devroye's rejection sampler for Zeta(s) (zeta.rs:102-143).

   new (105-115):  s_minus_1 = s - 1;  b = 2^(s-1)
   sample (124-142), loop:
       u = OpenClosed01;  x = floor(u^(-1/(s-1)));
       t = (1 + 1/x)^(s-1);  v = StandardUniform;
       if v * x * (t - 1) * b <= t * (b - 1) { return x }

   Proposal: x = floor(u^(-1/(s-1))) = j  iff  (j+1)^-(s-1) < u <= j^-(s-1)  (zeta_proposal_event),
   so P(x = j) = j^-(s-1) - (j+1)^-(s-1).  Acceptance probability a(x) = t (b-1) / (x (t-1) b).
   zeta_identity: proposal * acceptance = (b-1)/b * x^-s, i.e. proportional to the Zeta pmf.
   zeta_accept_le_1: a(x) <= 1 for x >= 1, with equality at x = 1.                              *)
From Coq Require Import Reals Lra Lia.
Open Scope R_scope.

(* ---------------------------------------------------------------- Rpower toolbox *)

Lemma Rpower_pos : forall x y, 0 < Rpower x y.
Proof. intros. unfold Rpower. apply exp_pos. Qed.

Lemma Rpower_inv_base : forall x y, 0 < x -> Rpower (/ x) y = / Rpower x y.
Proof.
  intros x y Hx. unfold Rpower. rewrite ln_Rinv by exact Hx.
  replace (y * - ln x) with (- (y * ln x)) by ring. apply exp_Ropp.
Qed.

Lemma Rpower_1_base : forall y, Rpower 1 y = 1.
Proof. intros y. unfold Rpower. rewrite ln_1, Rmult_0_r. apply exp_0. Qed.

Lemma Rpower_neg_lt : forall a b c, 0 < c -> 0 < a < b -> Rpower b (- c) < Rpower a (- c).
Proof.
  intros a b c Hc Hab. rewrite !Rpower_Ropp. apply Rinv_lt_contravar.
  - apply Rmult_lt_0_compat; apply Rpower_pos.
  - apply Rlt_Rpower_l; assumption.
Qed.

Lemma Rpower_neg_le : forall a b c, 0 < c -> 0 < a <= b -> Rpower b (- c) <= Rpower a (- c).
Proof.
  intros a b c Hc [Ha [Hab| ->]]; [|lra]. left. apply Rpower_neg_lt; [exact Hc|lra].
Qed.

(* ---------------------------------------------------------------- definitions *)

Definition zeta_b (sm1 : R) : R := Rpower 2 sm1.
Definition zeta_t (sm1 x : R) : R := Rpower (1 + 1 / x) sm1.
(* acceptance probability: the test is  v * x * (t-1) * b <= t * (b-1)  *)
Definition zeta_accept (sm1 x : R) : R :=
  zeta_t sm1 x * (zeta_b sm1 - 1) / (x * (zeta_t sm1 x - 1) * zeta_b sm1).

Lemma zeta_t_eq : forall sm1 x, 0 < x -> zeta_t sm1 x = Rpower (x + 1) sm1 / Rpower x sm1.
Proof.
  intros sm1 x Hx. unfold zeta_t. replace (1 + 1 / x) with ((x + 1) * / x) by (field; lra).
  rewrite <- Rpower_mult_distr; [|lra|apply Rinv_0_lt_compat; exact Hx].
  rewrite Rpower_inv_base by exact Hx. reflexivity.
Qed.

Lemma zeta_t_gt_1 : forall sm1 x, 0 < sm1 -> 0 < x -> 1 < zeta_t sm1 x.
Proof.
  intros sm1 x Hs Hx. unfold zeta_t.
  assert (H0 : 0 < 1 / x) by (apply Rdiv_lt_0_compat; lra).
  assert (H := Rlt_Rpower_l 1 (1 + 1 / x) sm1 Hs ltac:(lra)).
  rewrite Rpower_1_base in H. exact H.
Qed.

Lemma zeta_b_gt_1 : forall sm1, 0 < sm1 -> 1 < zeta_b sm1.
Proof.
  intros sm1 Hs. unfold zeta_b.
  assert (H := Rlt_Rpower_l 1 2 sm1 Hs ltac:(lra)).
  rewrite Rpower_1_base in H. exact H.
Qed.

(* the coded test is the comparison of v with the acceptance probability *)
Theorem zeta_accept_test : forall s x v, 1 < s -> 0 < x ->
  let sm1 := s - 1 in let b := zeta_b sm1 in let t := zeta_t sm1 x in
  (v * x * (t - 1) * b <= t * (b - 1) <-> v <= zeta_accept sm1 x).
Proof.
  intros s x v Hs Hx sm1 b t. unfold zeta_accept. fold b t.
  assert (Ht := zeta_t_gt_1 sm1 x ltac:(unfold sm1; lra) Hx). fold t in Ht.
  assert (Hb := zeta_b_gt_1 sm1 ltac:(unfold sm1; lra)). fold b in Hb.
  assert (Hd : 0 < x * (t - 1) * b).
  { apply Rmult_lt_0_compat; [apply Rmult_lt_0_compat|]; lra. }
  split; intros H.
  - apply Rmult_le_reg_r with (1 := Hd).
    replace (t * (b - 1) / (x * (t - 1) * b) * (x * (t - 1) * b)) with (t * (b - 1))
      by (field; repeat split; lra).
    lra.
  - apply Rmult_le_compat_r with (r := x * (t - 1) * b) in H; [|lra].
    replace (t * (b - 1) / (x * (t - 1) * b) * (x * (t - 1) * b)) with (t * (b - 1)) in H
      by (field; repeat split; lra).
    lra.
Qed.

(* ---------------------------------------------------------------- the proposal *)

(* u^(-1/(s-1)) lies in [x, x+1)  iff  u lies in ((x+1)^-(s-1), x^-(s-1)] *)
Theorem zeta_proposal_event : forall s u x, 1 < s -> 0 < u -> 0 < x ->
  let sm1 := s - 1 in
  (x <= Rpower u (- 1 / sm1) < x + 1 <-> Rpower (x + 1) (- sm1) < u <= Rpower x (- sm1)).
Proof.
  intros s u x Hs Hu Hx sm1. assert (Hs1 : 0 < sm1) by (unfold sm1; lra).
  set (w := Rpower u (- 1 / sm1)).
  assert (Hw : 0 < w) by apply Rpower_pos.
  assert (Huw : u = Rpower w (- sm1)).
  { unfold w. rewrite Rpower_mult. replace (- 1 / sm1 * - sm1) with 1 by (field; lra).
    symmetry. apply Rpower_1. exact Hu. }
  rewrite Huw. split.
  - intros [H1 H2]. split.
    + apply Rpower_neg_lt; [exact Hs1|lra].
    + apply Rpower_neg_le; [exact Hs1|lra].
  - intros [H1 H2]. split.
    + destruct (Rle_lt_dec x w) as [H|H]; [exact H|]. exfalso.
      assert (Hc := Rpower_neg_lt w x sm1 Hs1 ltac:(lra)). lra.
    + destruct (Rle_lt_dec (x + 1) w) as [H|H]; [|exact H]. exfalso.
      assert (Hc := Rpower_neg_le (x + 1) w sm1 Hs1 ltac:(lra)). lra.
Qed.

(* for u in (0,1] the proposal is at least 1 (the debug_assert of line 127) *)
Theorem zeta_proposal_ge_1 : forall s u, 1 < s -> 0 < u <= 1 -> 1 <= Rpower u (- 1 / (s - 1)).
Proof.
  intros s u Hs Hu.
  replace (- 1 / (s - 1)) with (- (1 / (s - 1))) by (field; lra).
  assert (Hc : 0 < 1 / (s - 1)) by (apply Rdiv_lt_0_compat; lra).
  assert (H := Rpower_neg_le u 1 (1 / (s - 1)) Hc ltac:(lra)).
  rewrite Rpower_1_base in H. exact H.
Qed.

(* ---------------------------------------------------------------- the rejection identity *)

Theorem zeta_identity : forall s x, 1 < s -> 0 < x ->
  let sm1 := s - 1 in
  (Rpower x (- sm1) - Rpower (x + 1) (- sm1)) * zeta_accept sm1 x
  = (zeta_b sm1 - 1) / zeta_b sm1 * Rpower x (- s).
Proof.
  intros s x Hs Hx sm1. assert (Hs1 : 0 < sm1) by (unfold sm1; lra).
  unfold zeta_accept.
  assert (Ht := zeta_t_gt_1 sm1 x Hs1 Hx). rewrite zeta_t_eq in * by exact Hx.
  assert (Hb := zeta_b_gt_1 sm1 Hs1).
  replace (- s) with (- sm1 + Ropp 1) by (unfold sm1; ring).
  rewrite Rpower_plus, !Rpower_Ropp, Rpower_1 by exact Hx.
  set (A := Rpower x sm1) in *. set (B := Rpower (x + 1) sm1) in *. set (b := zeta_b sm1) in *.
  assert (HA : 0 < A) by apply Rpower_pos. assert (HB : 0 < B) by apply Rpower_pos.
  assert (HAB : B - A <> 0).
  { intros E. assert (B = A) by lra. rewrite H in Ht. unfold Rdiv in Ht.
    rewrite Rinv_r in Ht by lra. lra. }
  field. repeat split; lra.
Qed.

(* ---------------------------------------------------------------- acceptance <= 1 *)

(* a differentiable function with non-increasing derivative that is >= 0 at both ends of an
   interval is >= 0 inside *)
Lemma concave_endpoints : forall (f f' : R -> R) a b, a < b ->
  (forall c, a <= c <= b -> derivable_pt_lim f c (f' c)) ->
  (forall c1 c2, a <= c1 -> c1 <= c2 -> c2 <= b -> f' c2 <= f' c1) ->
  0 <= f a -> 0 <= f b -> forall y, a <= y <= b -> 0 <= f y.
Proof.
  intros f f' a b Hab Hd Hmono Ha Hb y Hy.
  destruct (Rle_lt_dec 0 (f y)) as [H|H]; [exact H|]. exfalso.
  assert (Hya : a < y). { destruct (Req_dec a y) as [->|]; lra. }
  assert (Hyb : y < b). { destruct (Req_dec b y) as [E|]; [rewrite E in Hb|]; lra. }
  destruct (MVT_cor2 f f' a y Hya) as [c1 [E1 Hc1]].
  { intros c Hc. apply Hd. lra. }
  destruct (MVT_cor2 f f' y b Hyb) as [c2 [E2 Hc2]].
  { intros c Hc. apply Hd. lra. }
  assert (Hm := Hmono c1 c2 ltac:(lra) ltac:(lra) ltac:(lra)).
  assert (N1 : f' c1 < 0).
  { destruct (Rle_lt_dec 0 (f' c1)) as [P|P]; [|exact P].
    assert (0 <= f' c1 * (y - a)) by (apply Rmult_le_pos; lra). lra. }
  assert (N2 : 0 < f' c2).
  { destruct (Rle_lt_dec (f' c2) 0) as [P|P]; [|exact P].
    assert (0 <= (- f' c2) * (b - y)) by (apply Rmult_le_pos; lra). lra. }
  lra.
Qed.

Lemma derivable_pt_lim_shift_power : forall y z, 0 < 1 + y ->
  derivable_pt_lim (fun y => Rpower (1 + y) z) y (z * Rpower (1 + y) (z - 1)).
Proof.
  intros y z Hy.
  replace (z * Rpower (1 + y) (z - 1)) with (z * Rpower (1 + y) (z - 1) * (0 + 1)) by ring.
  apply (derivable_pt_lim_comp (fun y => 1 + y) (fun w => Rpower w z)).
  - apply derivable_pt_lim_plus; [apply derivable_pt_lim_const|apply derivable_pt_lim_id].
  - apply derivable_pt_lim_power. exact Hy.
Qed.

(* convexity of y |-> (1+y)^-c between its values at 0 and 1 *)
Lemma Rpower_chord : forall c y, 0 < c -> 0 <= y <= 1 ->
  Rpower (1 + y) (- c) <= 1 - y + y * Rpower 2 (- c).
Proof.
  intros c y Hc Hy.
  set (f := fun y => 1 - y + y * Rpower 2 (- c) - Rpower (1 + y) (- c)).
  set (f' := fun y => 0 - 1 + (1 * Rpower 2 (- c) + y * 0) - (- c) * Rpower (1 + y) (- c - 1)).
  assert (H : 0 <= f y); [|unfold f in H; lra].
  apply (concave_endpoints f f' 0 1); try lra.
  - intros z Hz. unfold f, f'.
    apply derivable_pt_lim_minus; [apply derivable_pt_lim_plus|].
    + apply derivable_pt_lim_minus; [apply derivable_pt_lim_const|apply derivable_pt_lim_id].
    + apply (derivable_pt_lim_mult (fun y => y) (fun _ => Rpower 2 (- c))).
      * apply derivable_pt_lim_id.
      * apply derivable_pt_lim_const.
    + apply derivable_pt_lim_shift_power. lra.
  - intros c1 c2 H0 H12 H1. unfold f'.
    assert (Rpower (1 + c2) (- c - 1) <= Rpower (1 + c1) (- c - 1)).
    { replace (- c - 1) with (- (c + 1)) by ring. apply Rpower_neg_le; lra. }
    nra.
  - unfold f. replace (1 + 0) with 1 by ring. rewrite Rpower_1_base. lra.
  - unfold f. replace (1 + 1) with 2 by ring. lra.
Qed.

Theorem zeta_accept_le_1 : forall s x, 1 < s -> 1 <= x -> zeta_accept (s - 1) x <= 1.
Proof.
  intros s x Hs Hx. set (sm1 := s - 1). assert (Hs1 : 0 < sm1) by (unfold sm1; lra).
  unfold zeta_accept.
  assert (Ht := zeta_t_gt_1 sm1 x Hs1 ltac:(lra)). assert (Hb := zeta_b_gt_1 sm1 Hs1).
  assert (Hy : 0 <= 1 / x <= 1).
  { split; [apply Rlt_le, Rdiv_lt_0_compat; lra|].
    apply Rmult_le_reg_r with x; [lra|]. unfold Rdiv. rewrite Rmult_assoc, Rinv_l by lra. lra. }
  assert (Hch := Rpower_chord sm1 (1 / x) Hs1 Hy).
  fold (zeta_t (- sm1) x) in Hch. unfold zeta_t in Hch. rewrite !Rpower_Ropp in Hch.
  fold (zeta_t sm1 x) in Hch. fold (zeta_b sm1) in Hch.
  set (t := zeta_t sm1 x) in *. set (b := zeta_b sm1) in *.
  assert (Hd : 0 < x * (t - 1) * b).
  { apply Rmult_lt_0_compat; [apply Rmult_lt_0_compat|]; lra. }
  apply Rmult_le_reg_r with (1 := Hd). unfold Rdiv. rewrite Rmult_assoc, Rinv_l by lra.
  (* Hch : / t <= 1 - 1/x + 1/x * / b ; multiply by t b x *)
  assert (Hm : / t * (t * b * x) <= (1 - 1 / x + 1 / x * / b) * (t * b * x)).
  { apply Rmult_le_compat_r; [|exact Hch].
    apply Rlt_le. apply Rmult_lt_0_compat; [apply Rmult_lt_0_compat|]; lra. }
  replace (/ t * (t * b * x)) with (b * x) in Hm by (field; lra).
  replace ((1 - 1 / x + 1 / x * / b) * (t * b * x)) with (t * b * x - t * b + t) in Hm
    by (field; lra).
  lra.
Qed.

Theorem zeta_accept_at_1 : forall s, 1 < s -> zeta_accept (s - 1) 1 = 1.
Proof.
  intros s Hs. unfold zeta_accept, zeta_t. replace (1 + 1 / 1) with 2 by field.
  fold (zeta_b (s - 1)). assert (Hb := zeta_b_gt_1 (s - 1) ltac:(lra)). field. lra.
Qed.

Theorem zeta_accept_pos : forall s x, 1 < s -> 0 < x -> 0 < zeta_accept (s - 1) x.
Proof.
  intros s x Hs Hx. unfold zeta_accept.
  assert (Ht := zeta_t_gt_1 (s - 1) x ltac:(lra) Hx). assert (Hb := zeta_b_gt_1 (s - 1) ltac:(lra)).
  apply Rdiv_lt_0_compat.
  - apply Rmult_lt_0_compat; lra.
  - apply Rmult_lt_0_compat; [apply Rmult_lt_0_compat|]; lra.
Qed.

Lemma zeta_accept_def : forall sm1 x,
  zeta_b sm1 = Rpower 2 sm1 /\ zeta_t sm1 x = Rpower (1 + 1 / x) sm1 /\
  zeta_accept sm1 x = zeta_t sm1 x * (zeta_b sm1 - 1) / (x * (zeta_t sm1 x - 1) * zeta_b sm1).
Proof. intros. repeat split. Qed.
