(* C14 proofs: sampling is a pure function of (distribution value, RNG stream).
   All statements are parametric in D, O, P, samp, build. *)
From Coq Require Import ZArith List Bool String Lia PeanoNat.
From RD Require Import Model.Pure.
Import ListNotations.
Open Scope Z_scope.

Lemma upd_same {A} (f : nat -> A) k v : upd f k v k = v.
Proof. unfold upd. now rewrite Nat.eqb_refl. Qed.

Lemma upd_other {A} (f : nat -> A) k v i : i <> k -> upd f k v i = f i.
Proof. unfold upd. intros H. apply Nat.eqb_neq in H. now rewrite H. Qed.

Lemma filter_map_const {A B} (p : B -> bool) (f : A -> B) (b : bool) l :
  (forall x, p (f x) = b) -> filter p (map f l) = if b then map f l else [].
Proof.
  intros H. induction l as [|x l IH]; simpl.
  - now destruct b.
  - rewrite H, IH. now destruct b.
Qed.

Section PureProofs.
  Variables D O P : Type.
  Variable samp : D -> list Z -> option (O * list Z).
  Variable build : P -> option D.

  Local Notation stepW := (step samp build).
  Local Notation runW := (run samp build).
  Local Notation sampleN := (sample_n samp).
  Local Notation wld := (world D).
  Local Notation evt := (event O).
  Local Notation opr := (op P).

  (* ---------------------------------------------------------------- *)
  (* basic unfoldings                                                   *)
  (* ---------------------------------------------------------------- *)
  Lemma step_sample_some (w : wld) k s o r :
    samp (objs w k) (streams w s) = Some (o, r) ->
    stepW w (OpSample k s) =
    (mkWorld (objs w) (upd (streams w) s r), [mkEvent k s o (used (streams w s) r)]).
  Proof. intros H. simpl. now rewrite H. Qed.

  Lemma step_sample_none (w : wld) k s :
    samp (objs w k) (streams w s) = None -> stepW w (OpSample k s) = (w, []).
  Proof. intros H. simpl. now rewrite H. Qed.

  Lemma run_cons (w : wld) o ops :
    runW w (o :: ops) =
    (fst (runW (fst (stepW w o)) ops), snd (stepW w o) ++ snd (runW (fst (stepW w o)) ops)).
  Proof. reflexivity. Qed.

  Lemma run_app (ops1 ops2 : list opr) : forall w : wld,
    runW w (ops1 ++ ops2) =
    (fst (runW (fst (runW w ops1)) ops2), snd (runW w ops1) ++ snd (runW (fst (runW w ops1)) ops2)).
  Proof.
    induction ops1 as [|o ops1 IH]; intros w.
    - simpl. now destruct (runW w ops2).
    - rewrite <- app_comm_cons, !run_cons, IH. simpl. now rewrite app_assoc.
  Qed.

  Lemma sample_n_none d ws n : samp d ws = None -> sampleN d ws n = ([], ws).
  Proof. intros H. destruct n; simpl; [|rewrite H]; reflexivity. Qed.

  Lemma sample_n_S_some d ws n o r : samp d ws = Some (o, r) ->
    sampleN d ws (S n) = ((o, used ws r) :: fst (sampleN d r n), snd (sampleN d r n)).
  Proof. intros H. simpl. now rewrite H. Qed.

  (* ---------------------------------------------------------------- *)
  (* 1. determinism                                                     *)
  (* ---------------------------------------------------------------- *)
  (* same distribution value, same stream: same output and same remaining stream *)
  Theorem sample_deterministic : forall (w1 w2 : wld) k1 k2 s1 s2,
    objs w1 k1 = objs w2 k2 -> streams w1 s1 = streams w2 s2 ->
    outputs (snd (stepW w1 (OpSample k1 s1))) = outputs (snd (stepW w2 (OpSample k2 s2))) /\
    streams (fst (stepW w1 (OpSample k1 s1))) s1 = streams (fst (stepW w2 (OpSample k2 s2))) s2.
  Proof.
    intros w1 w2 k1 k2 s1 s2 Hd Hs. simpl. rewrite Hd, Hs.
    destruct (samp (objs w2 k2) (streams w2 s2)) as [[o r]|]; simpl.
    - rewrite !upd_same. auto.
    - auto.
  Qed.

  (* the same at the level of the sampler and of n-fold sampling *)
  Theorem sample_n_deterministic : forall d1 d2 ws1 ws2 n,
    d1 = d2 -> ws1 = ws2 -> sampleN d1 ws1 n = sampleN d2 ws2 n.
  Proof. intros; subst; reflexivity. Qed.

  (* ---------------------------------------------------------------- *)
  (* 2. sampling does not change any distribution object                *)
  (* ---------------------------------------------------------------- *)
  Theorem sample_leaves_dist : forall (w : wld) k s, objs (fst (stepW w (OpSample k s))) = objs w.
  Proof.
    intros w k s. simpl. destruct (samp (objs w k) (streams w s)) as [[o r]|]; reflexivity.
  Qed.

  Theorem iter_leaves_dist : forall (w : wld) k s n, objs (fst (stepW w (OpIter k s n))) = objs w.
  Proof. reflexivity. Qed.

  Theorem sampling_history_leaves_dist : forall (ops : list opr) (w : wld),
    forallb is_sampling ops = true -> objs (fst (runW w ops)) = objs w.
  Proof.
    induction ops as [|o ops IH]; intros w H; [reflexivity|].
    simpl in H. apply andb_true_iff in H as [H1 H2].
    rewrite run_cons. cbn [fst]. rewrite (IH _ H2).
    destruct o; try discriminate.
    - apply sample_leaves_dist.
    - apply iter_leaves_dist.
  Qed.

  (* a sampling operation touches no stream other than its own *)
  Lemma step_other_stream : forall (w : wld) o s,
    match o with
    | OpSample _ s' => s' <> s
    | OpIter _ s' _ => s' <> s
    | _ => True
    end -> streams (fst (stepW w o)) s = streams w s.
  Proof.
    intros w [k s'|src dst|k p|k s' n] s H; simpl.
    - destruct (samp (objs w k) (streams w s')) as [[o r]|]; simpl; auto.
      apply upd_other. auto.
    - reflexivity.
    - destruct (build p); reflexivity.
    - apply upd_other. auto.
  Qed.

  (* ---------------------------------------------------------------- *)
  (* 3./4. equal distribution values produce equal sequences            *)
  (* ---------------------------------------------------------------- *)
  Theorem same_dist_same_sequence : forall n (w1 w2 : wld) k1 k2 s1 s2,
    objs w1 k1 = objs w2 k2 -> streams w1 s1 = streams w2 s2 ->
    outputs (snd (runW w1 (repeat (OpSample k1 s1) n))) =
    outputs (snd (runW w2 (repeat (OpSample k2 s2) n))) /\
    streams (fst (runW w1 (repeat (OpSample k1 s1) n))) s1 =
    streams (fst (runW w2 (repeat (OpSample k2 s2) n))) s2.
  Proof.
    induction n as [|n IH]; intros w1 w2 k1 k2 s1 s2 Hd Hs.
    - simpl. auto.
    - cbn [repeat]. rewrite !run_cons. cbn [fst snd].
      destruct (samp (objs w1 k1) (streams w1 s1)) as [[o r]|] eqn:E1.
      + assert (E2 : samp (objs w2 k2) (streams w2 s2) = Some (o, r))
          by (rewrite <- Hd, <- Hs; exact E1).
        rewrite (step_sample_some _ _ _ _ _ E1), (step_sample_some _ _ _ _ _ E2).
        cbn [fst snd].
        destruct (IH (mkWorld (objs w1) (upd (streams w1) s1 r))
                     (mkWorld (objs w2) (upd (streams w2) s2 r)) k1 k2 s1 s2) as [A B].
        * exact Hd.
        * simpl. now rewrite !upd_same.
        * split; [|exact B]. unfold outputs in *. simpl. now rewrite A.
      + assert (E2 : samp (objs w2 k2) (streams w2 s2) = None)
          by (rewrite <- Hd, <- Hs; exact E1).
        rewrite (step_sample_none _ _ _ E1), (step_sample_none _ _ _ E2).
        cbn [fst snd app]. apply IH; auto.
  Qed.

  (* after dst := clone(src), sampling src and dst on equal streams gives the
     same output sequence (and leaves the streams in the same position) *)
  Theorem clone_same_sequence : forall (w : wld) src dst s1 s2 n,
    streams w s1 = streams w s2 ->
    let w' := fst (stepW w (OpClone src dst)) in
    outputs (snd (runW w' (repeat (OpSample src s1) n))) =
    outputs (snd (runW w' (repeat (OpSample dst s2) n))) /\
    streams (fst (runW w' (repeat (OpSample src s1) n))) s1 =
    streams (fst (runW w' (repeat (OpSample dst s2) n))) s2.
  Proof.
    intros w src dst s1 s2 n Hs w'. apply same_dist_same_sequence.
    - unfold w'. simpl. rewrite upd_same. unfold upd.
      destruct (Nat.eqb src dst); reflexivity.
    - exact Hs.
  Qed.

  (* the clone keeps producing the same sequence even if the original is then
     sampled in between: sampling never changes an object *)
  Theorem clone_same_sequence_interleaved : forall (w : wld) src dst s1 s2 (mid : list opr) n,
    s1 <> s2 ->
    streams w s1 = streams w s2 ->
    forallb is_sampling mid = true ->
    Forall (fun o => match o with
                     | OpSample _ s' => s' <> s2
                     | OpIter _ s' _ => s' <> s2
                     | _ => True end) mid ->
    let w' := fst (stepW w (OpClone src dst)) in
    let w'' := fst (runW w' mid) in
    outputs (snd (runW w' (repeat (OpSample src s1) n))) =
    outputs (snd (runW w'' (repeat (OpSample dst s2) n))).
  Proof.
    intros w src dst s1 s2 mid n Hne Hs Hmid Hfree w' w''.
    apply same_dist_same_sequence.
    - unfold w''. rewrite (sampling_history_leaves_dist mid w' Hmid).
      unfold w'. simpl. rewrite upd_same. unfold upd.
      destruct (Nat.eqb src dst); reflexivity.
    - unfold w''. clear w'' Hmid.
      transitivity (streams w' s2); [exact Hs|].
      generalize w'. clear w' Hs. induction Hfree as [|o mid Ho _ IH]; intros w0.
      + reflexivity.
      + rewrite run_cons. cbn [fst]. rewrite <- IH. symmetry.
        apply step_other_stream. exact Ho.
  Qed.

  (* two objects built from the same parameters are the same value ... *)
  Theorem rebuild_same_value : forall p d1 d2, build p = Some d1 -> build p = Some d2 -> d1 = d2.
  Proof. intros p d1 d2 H1 H2. rewrite H1 in H2. now inversion H2. Qed.

  (* ... hence produce the same sequences *)
  Theorem rebuild_same_sequence : forall p d1 d2 ws n,
    build p = Some d1 -> build p = Some d2 -> sampleN d1 ws n = sampleN d2 ws n.
  Proof. intros p d1 d2 ws n H1 H2. now rewrite (rebuild_same_value p d1 d2 H1 H2). Qed.

  Theorem rebuild_same_sequence_world : forall (w1 w2 : wld) k1 k2 p d s1 s2 n,
    build p = Some d ->
    streams w1 s1 = streams w2 s2 ->
    let w1' := fst (stepW w1 (OpRebuild k1 p)) in
    let w2' := fst (stepW w2 (OpRebuild k2 p)) in
    outputs (snd (runW w1' (repeat (OpSample k1 s1) n))) =
    outputs (snd (runW w2' (repeat (OpSample k2 s2) n))) /\
    streams (fst (runW w1' (repeat (OpSample k1 s1) n))) s1 =
    streams (fst (runW w2' (repeat (OpSample k2 s2) n))) s2.
  Proof.
    intros w1 w2 k1 k2 p d s1 s2 n Hb Hs w1' w2'. apply same_dist_same_sequence.
    - unfold w1', w2'. simpl. rewrite Hb. simpl. now rewrite !upd_same.
    - unfold w1', w2'. simpl. rewrite Hb. exact Hs.
  Qed.

  (* ---------------------------------------------------------------- *)
  (* 5. interleaving independence                                       *)
  (* ---------------------------------------------------------------- *)
  Lemma isolatedb_spec k s (o : opr) : isolatedb k s o = true <-> isolated k s o.
  Proof.
    destruct o as [k' s'|src dst|k' p|k' s' n]; simpl;
      rewrite ?orb_true_iff, ?negb_true_iff, ?Nat.eqb_eq, ?Nat.eqb_neq.
    - split; [intros [H|H] E; [contradiction|auto] | intros H].
      destruct (Nat.eq_dec s' s); auto.
    - split; [intros [H|H] E; [contradiction|auto] | intros H].
      destruct (Nat.eq_dec dst k); auto.
    - tauto.
    - split; [intros [H|H] E; [contradiction|auto] | intros H].
      destruct (Nat.eq_dec s' s); auto.
  Qed.

  Lemma step_projection k s (o : opr) (w w' : wld) :
    objs w k = objs w' k -> streams w s = streams w' s -> isolated k s o ->
    let w1 := fst (stepW w o) in
    let w1' := if relevant k s o then fst (stepW w' o) else w' in
    filter (on_ks k s) (snd (stepW w o)) = (if relevant k s o then snd (stepW w' o) else []) /\
    objs w1 k = objs w1' k /\ streams w1 s = streams w1' s.
  Proof.
    intros Hd Hs Hiso.
    destruct o as [k' s'|src dst|k' p|k' s' n]; cbn [relevant isolated] in *.
    - (* OpSample *)
      destruct (Nat.eqb s' s) eqn:Es.
      + apply Nat.eqb_eq in Es. subst s'. rewrite (Hiso eq_refl), Nat.eqb_refl.
        cbn [andb]. simpl. rewrite <- Hd, <- Hs.
        destruct (samp (objs w k) (streams w s)) as [[o r]|]; simpl.
        * unfold on_ks. simpl. rewrite !Nat.eqb_refl. simpl. rewrite !upd_same. auto.
        * auto.
      + rewrite andb_false_r. apply Nat.eqb_neq in Es. simpl.
        destruct (samp (objs w k') (streams w s')) as [[o r]|]; simpl.
        * unfold on_ks. simpl. apply Nat.eqb_neq in Es. rewrite Es, andb_false_r.
          apply Nat.eqb_neq in Es. rewrite upd_other by auto. auto.
        * auto.
    - (* OpClone *)
      simpl. split; [reflexivity|]. split; [|exact Hs].
      destruct (Nat.eq_dec dst k) as [E|E].
      + subst dst. rewrite upd_same, (Hiso eq_refl). exact Hd.
      + rewrite upd_other by auto. exact Hd.
    - (* OpRebuild *)
      destruct (Nat.eqb k' k) eqn:Ek; simpl.
      + apply Nat.eqb_eq in Ek. subst k'.
        destruct (build p); simpl; rewrite ?upd_same; auto.
      + apply Nat.eqb_neq in Ek.
        destruct (build p); simpl; rewrite ?upd_other by auto; auto.
    - (* OpIter *)
      destruct (Nat.eqb s' s) eqn:Es.
      + apply Nat.eqb_eq in Es. subst s'. rewrite (Hiso eq_refl), Nat.eqb_refl.
        cbn [andb]. simpl. rewrite <- Hd, <- Hs. rewrite !upd_same.
        split; [|auto].
        rewrite (filter_map_const _ _ true); [reflexivity|].
        intros x. unfold on_ks. simpl. now rewrite !Nat.eqb_refl.
      + rewrite andb_false_r. simpl.
        split.
        * rewrite (filter_map_const _ _ false); [reflexivity|].
          intros x. unfold on_ks. simpl. now rewrite Es, andb_false_r.
        * apply Nat.eqb_neq in Es. rewrite upd_other by auto. auto.
  Qed.

  Lemma run_projection k s (ops : list opr) : forall (w w' : wld),
    objs w k = objs w' k -> streams w s = streams w' s -> Forall (isolated k s) ops ->
    filter (on_ks k s) (snd (runW w ops)) = snd (runW w' (filter (relevant k s) ops)) /\
    objs (fst (runW w ops)) k = objs (fst (runW w' (filter (relevant k s) ops))) k /\
    streams (fst (runW w ops)) s = streams (fst (runW w' (filter (relevant k s) ops))) s.
  Proof.
    induction ops as [|o ops IH]; intros w w' Hd Hs Hiso.
    - simpl. auto.
    - inversion Hiso as [|? ? Ho Hrest]; subst.
      destruct (step_projection k s o w w' Hd Hs Ho) as (A & B & C).
      rewrite run_cons. cbn [fst snd filter]. rewrite filter_app, A.
      destruct (relevant k s o).
      + rewrite run_cons. cbn [fst snd].
        destruct (IH _ _ B C Hrest) as (A' & B' & C'). rewrite A'. auto.
      + destruct (IH _ _ B C Hrest) as (A' & B' & C'). rewrite A'. auto.
  Qed.

  (* The outputs object k produces from its own stream s (a stream nobody else
     draws from, k not being overwritten by a copy of another object) are exactly
     those of the history restricted to the operations on (k, s), whatever else
     happens in between -- including events' consumption counts, and the final
     object value and stream position agree as well. *)
  Theorem interleaving_independent : forall (ops : list opr) (w : wld) k s,
    Forall (isolated k s) ops ->
    filter (on_ks k s) (snd (runW w ops)) = snd (runW w (filter (relevant k s) ops)) /\
    objs (fst (runW w ops)) k = objs (fst (runW w (filter (relevant k s) ops))) k /\
    streams (fst (runW w ops)) s = streams (fst (runW w (filter (relevant k s) ops))) s.
  Proof. intros ops w k s H. apply run_projection; auto. Qed.

  Corollary interleaving_independent_outputs : forall (ops : list opr) (w : wld) k s,
    Forall (isolated k s) ops ->
    outputs (filter (on_ks k s) (snd (runW w ops))) =
    outputs (snd (runW w (filter (relevant k s) ops))).
  Proof. intros ops w k s H. now rewrite (proj1 (interleaving_independent ops w k s H)). Qed.

  (* the rest of the world does not matter either: only objs k and streams s do *)
  Corollary interleaving_independent_worlds : forall (ops : list opr) (w w' : wld) k s,
    objs w k = objs w' k -> streams w s = streams w' s ->
    Forall (isolated k s) ops ->
    filter (on_ks k s) (snd (runW w ops)) = filter (on_ks k s) (snd (runW w' ops)).
  Proof.
    intros ops w w' k s Hd Hs H.
    rewrite (proj1 (run_projection k s ops w w' Hd Hs H)).
    now rewrite (proj1 (run_projection k s ops w' w' eq_refl eq_refl H)).
  Qed.

  (* ---------------------------------------------------------------- *)
  (* 6. sample_iter().take(n) = n successive samples                    *)
  (* ---------------------------------------------------------------- *)
  Theorem iter_eq_repeat : forall n (w : wld) k s,
    snd (stepW w (OpIter k s n)) = snd (runW w (repeat (OpSample k s) n)) /\
    world_eq (fst (stepW w (OpIter k s n))) (fst (runW w (repeat (OpSample k s) n))).
  Proof.
    induction n as [|n IH]; intros w k s.
    - simpl. split; [reflexivity|]. split; intros i; simpl; [reflexivity|].
      unfold upd. destruct (Nat.eqb i s) eqn:E; [|reflexivity].
      apply Nat.eqb_eq in E. now subst.
    - cbn [repeat]. rewrite run_cons.
      destruct (samp (objs w k) (streams w s)) as [[o r]|] eqn:E.
      + rewrite (step_sample_some _ _ _ _ _ E). cbn [fst snd].
        destruct (IH (mkWorld (objs w) (upd (streams w) s r)) k s) as [A [B1 B2]].
        rewrite <- A. cbn [step]. rewrite (sample_n_S_some _ _ n _ _ E).
        cbn [fst snd objs streams map app]. rewrite upd_same. split; [reflexivity|].
        split; intros i.
        * rewrite <- B1. reflexivity.
        * rewrite <- B2. simpl. rewrite upd_same. unfold upd.
          destruct (Nat.eqb i s); reflexivity.
      + rewrite (step_sample_none _ _ _ E). cbn [fst snd app].
        destruct (IH w k s) as [A [B1 B2]]. rewrite <- A.
        cbn [step]. rewrite !(sample_n_none _ _ _ E). cbn [fst snd map].
        split; [reflexivity|]. split; intros i.
        * rewrite <- B1. reflexivity.
        * rewrite <- B2. simpl. rewrite (sample_n_none _ _ _ E). reflexivity.
  Qed.

  (* ---------------------------------------------------------------- *)
  (* 7. stream position                                                 *)
  (* ---------------------------------------------------------------- *)
  Lemma consumed_on_app s (a b : list evt) :
    consumed_on s (a ++ b) = consumed_on s a + consumed_on s b.
  Proof.
    induction a as [|e a IH]; simpl; [reflexivity|].
    rewrite IH. destruct (Nat.eqb (ev_stream e) s); lia.
  Qed.

  Lemma consumed_on_iter s k s' (l : list (O * Z)) :
    consumed_on s (map (fun oz => mkEvent k s' (fst oz) (snd oz)) l) =
    if Nat.eqb s' s then fold_right (fun oz acc => snd oz + acc) 0 l else 0.
  Proof.
    induction l as [|x l IH]; simpl.
    - now destruct (Nat.eqb s' s).
    - rewrite IH. destruct (Nat.eqb s' s); reflexivity.
  Qed.

  (* telescoping: the consumptions of n samples add up to the length difference *)
  Lemma sample_n_used d : forall n ws,
    fold_right (fun (oz : O * Z) acc => snd oz + acc) 0 (fst (sampleN d ws n)) =
    used ws (snd (sampleN d ws n)).
  Proof.
    induction n as [|n IH]; intros ws.
    - simpl. unfold used. lia.
    - destruct (samp d ws) as [[o r]|] eqn:E.
      + rewrite (sample_n_S_some _ _ n _ _ E). cbn [fst snd fold_right].
        rewrite IH. unfold used. lia.
      + rewrite (sample_n_none _ _ _ E). simpl. unfold used. lia.
  Qed.

  Lemma step_position (w : wld) (o : opr) s :
    Z.of_nat (List.length (streams (fst (stepW w o)) s)) =
    Z.of_nat (List.length (streams w s)) - consumed_on s (snd (stepW w o)).
  Proof.
    destruct o as [k s'|src dst|k p|k s' n]; simpl.
    - destruct (samp (objs w k) (streams w s')) as [[o r]|]; simpl; [|lia].
      destruct (Nat.eqb s' s) eqn:E.
      + apply Nat.eqb_eq in E. subst. rewrite upd_same. unfold used. lia.
      + apply Nat.eqb_neq in E. rewrite upd_other by auto. lia.
    - lia.
    - destruct (build p); simpl; lia.
    - rewrite consumed_on_iter. destruct (Nat.eqb s' s) eqn:E.
      + apply Nat.eqb_eq in E. subst. rewrite upd_same, sample_n_used. unfold used. lia.
      + apply Nat.eqb_neq in E. rewrite upd_other by auto. lia.
  Qed.

  (* The number of words a history consumes on stream s is the sum of the
     consumptions of its samples on s (holds for ANY sampler function). *)
  Theorem stream_position : forall (ops : list opr) (w : wld) s,
    Z.of_nat (List.length (streams (fst (runW w ops)) s)) =
    Z.of_nat (List.length (streams w s)) - consumed_on s (snd (runW w ops)).
  Proof.
    induction ops as [|o ops IH]; intros w s.
    - simpl. lia.
    - rewrite run_cons. cbn [fst snd]. rewrite IH, consumed_on_app, step_position. lia.
  Qed.

  (* If moreover the sampler only returns suffixes of its input (it reads words
     from the front), the final stream is the initial one with exactly that many
     words removed from the front. *)
  Lemma sample_n_suffix : suffix_ok samp -> forall d n ws,
    exists pre, ws = pre ++ snd (sampleN d ws n).
  Proof.
    intros Hsuf d. induction n as [|n IH]; intros ws.
    - exists []. reflexivity.
    - destruct (samp d ws) as [[o r]|] eqn:E.
      + rewrite (sample_n_S_some _ _ n _ _ E). cbn [snd].
        destruct (Hsuf _ _ _ _ E) as [p1 H1]. destruct (IH r) as [p2 H2].
        exists (p1 ++ p2). rewrite <- app_assoc, <- H2. exact H1.
      + rewrite (sample_n_none _ _ _ E). exists []. reflexivity.
  Qed.

  Lemma step_suffix : suffix_ok samp -> forall (w : wld) (o : opr) s,
    exists pre, streams w s = pre ++ streams (fst (stepW w o)) s.
  Proof.
    intros Hsuf w o s. destruct o as [k s'|src dst|k p|k s' n]; simpl.
    - destruct (samp (objs w k) (streams w s')) as [[o r]|] eqn:E; simpl.
      + destruct (Nat.eq_dec s s') as [->|N].
        * rewrite upd_same. exact (Hsuf _ _ _ _ E).
        * rewrite upd_other by auto. exists []. reflexivity.
      + exists []. reflexivity.
    - exists []. reflexivity.
    - destruct (build p); exists []; reflexivity.
    - destruct (Nat.eq_dec s s') as [->|N].
      + rewrite upd_same. apply sample_n_suffix. exact Hsuf.
      + rewrite upd_other by auto. exists []. reflexivity.
  Qed.

  Theorem stream_position_prefix : suffix_ok samp -> forall (ops : list opr) (w : wld) s,
    exists pre,
      streams w s = pre ++ streams (fst (runW w ops)) s /\
      Z.of_nat (List.length pre) = consumed_on s (snd (runW w ops)).
  Proof.
    intros Hsuf ops w s.
    assert (H : exists pre, streams w s = pre ++ streams (fst (runW w ops)) s).
    { revert w. induction ops as [|o ops IH]; intros w.
      - exists []. reflexivity.
      - rewrite run_cons. cbn [fst].
        destruct (step_suffix Hsuf w o s) as [p1 H1].
        destruct (IH (fst (stepW w o))) as [p2 H2].
        exists (p1 ++ p2). rewrite <- app_assoc, <- H2. exact H1. }
    destruct H as [pre H]. exists pre. split; [exact H|].
    pose proof (stream_position ops w s) as HP.
    rewrite H in HP at 1. rewrite app_length in HP. lia.
  Qed.
End PureProofs.

(* ------------------------------------------------------------------ *)
(* the regenerated signature facts                                      *)
(* ------------------------------------------------------------------ *)
Lemma pure_sigs_true : forall forbid_unsafe recv_ok bad_tokens statics,
  pure_sigs forbid_unsafe recv_ok bad_tokens statics = true <->
  forbid_unsafe = true /\
  (forall b, In b recv_ok -> b = true) /\
  bad_tokens = [] /\
  (forall f n m, In (f, n, m) statics -> m = false).
Proof.
  intros fu ro bt st. unfold pure_sigs.
  rewrite !andb_true_iff, !forallb_forall. split.
  - intros [[[H1 H2] H3] H4]. repeat split; auto.
    + destruct bt; [reflexivity|discriminate].
    + intros f n m HI. specialize (H4 _ HI). simpl in H4. now destruct m.
  - intros (H1 & H2 & H3 & H4). subst bt. repeat split; auto.
    intros [[f n] m] HI. simpl. now rewrite (H4 _ _ _ HI).
Qed.
