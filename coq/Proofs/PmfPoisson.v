(* Proofs/PmfPoisson.v — Knuth's multiplication method (poisson.rs:193-201, KnuthMethod::sample):
       let mut result = 1; let mut p = rng.random();
       while p > self.exp_lambda { p = p * rng.random(); result = result + 1; }
       result - 1
   The uniforms are supplied as a list (None = list exhausted before the loop stopped).        *)
From Coq Require Import Reals Lra Lia Arith List.
Import ListNotations.
Open Scope R_scope.

Fixpoint lprod (l : list R) : R :=
  match l with [] => 1 | u :: l' => u * lprod l' end.

(* state: p = current product, k = result - 1 *)
Fixpoint knuth_loop (e p : R) (us : list R) (k : nat) {struct us} : option nat :=
  if Rlt_dec e p then
    match us with
    | [] => None
    | u :: us' => knuth_loop e (p * u) us' (S k)
    end
  else Some k.

Definition knuth (e : R) (us : list R) : option nat :=
  match us with
  | [] => None
  | u0 :: us' => knuth_loop e u0 us' 0
  end.

Lemma knuth_loop_spec : forall e us p k0 k,
  knuth_loop e p us k0 = Some k <->
  exists i, k = (k0 + i)%nat /\ (i <= length us)%nat /\
    (forall j, (j < i)%nat -> e < p * lprod (firstn j us)) /\
    p * lprod (firstn i us) <= e.
Proof.
  intros e us. induction us as [|u us IH]; intros p k0 k.
  - cbn [knuth_loop]. destruct (Rlt_dec e p) as [Hlt|Hge].
    + split; [discriminate|]. intros [i [_ [Hi [_ Hle]]]]. simpl in Hi.
      assert (i = 0)%nat by lia. subst i. simpl in Hle. lra.
    + split.
      * intros H. injection H as <-. exists 0%nat. simpl. repeat split; try lia; lra.
      * intros [i [-> [Hi _]]]. simpl in Hi. f_equal. lia.
  - cbn [knuth_loop]. destruct (Rlt_dec e p) as [Hlt|Hge].
    + rewrite IH. split.
      * intros [i [-> [Hi [Hlo Hhi]]]]. exists (S i). simpl length. repeat split; try lia.
        -- intros [|j] Hj; simpl; [lra|]. specialize (Hlo j ltac:(lia)). lra.
        -- simpl. lra.
      * intros [i [-> [Hi [Hlo Hhi]]]]. destruct i as [|i]; [simpl in Hhi; lra|].
        exists i. simpl length in Hi. repeat split; try lia.
        -- intros j Hj. specialize (Hlo (S j) ltac:(lia)). simpl in Hlo. lra.
        -- simpl in Hhi. lra.
    + split.
      * intros H. injection H as <-. exists 0%nat. simpl. repeat split; try lia; lra.
      * intros [i [-> [Hi [Hlo _]]]]. destruct i as [|i]; [f_equal; lia|].
        specialize (Hlo 0%nat ltac:(lia)). simpl in Hlo. lra.
Qed.

(* General characterisation (no assumption on the uniforms): k is returned iff the first k
   partial products u0, u0 u1, ..., u0...u(k-1) all exceed e and the (k+1)-st does not. *)
Theorem knuth_spec : forall e us k,
  knuth e us = Some k <->
  (S k <= length us)%nat /\
  (forall j, (1 <= j <= k)%nat -> e < lprod (firstn j us)) /\
  lprod (firstn (S k) us) <= e.
Proof.
  intros e us k. destruct us as [|u0 us]; cbn [knuth].
  - split; [discriminate|]. intros [H _]. simpl in H. lia.
  - rewrite knuth_loop_spec. simpl length. split.
    + intros [i [-> [Hi [Hlo Hhi]]]]. simpl plus. repeat split; try lia.
      * intros [|j] Hj; [lia|]. simpl. apply Hlo. lia.
      * simpl. exact Hhi.
    + intros [Hk [Hlo Hhi]]. exists k. repeat split; try lia.
      * intros j Hj. specialize (Hlo (S j) ltac:(lia)). simpl in Hlo. exact Hlo.
      * simpl in Hhi. exact Hhi.
Qed.

Lemma lprod_firstn_nonneg : forall us, Forall (fun u => 0 <= u <= 1) us ->
  forall j, 0 <= lprod (firstn j us).
Proof.
  intros us H. induction H as [|u us Hu _ IH]; intros [|j]; simpl; try lra.
  specialize (IH j). nra.
Qed.

Lemma lprod_firstn_step : forall us, Forall (fun u => 0 <= u <= 1) us ->
  forall j, lprod (firstn (S j) us) <= lprod (firstn j us).
Proof.
  intros us H. induction H as [|u us Hu Hus IH]; intros j.
  - simpl. destruct j; simpl; lra.
  - destruct j as [|j].
    + simpl. destruct us; simpl; [lra|].
      assert (H0 := lprod_firstn_nonneg _ Hus 0%nat). simpl in H0. lra.
    + specialize (IH j). change (u * lprod (firstn (S j) us) <= u * lprod (firstn j us)). nra.
Qed.

Lemma lprod_firstn_mono : forall us, Forall (fun u => 0 <= u <= 1) us ->
  forall i j, (i <= j)%nat -> lprod (firstn j us) <= lprod (firstn i us).
Proof.
  intros us H i j Hij. induction Hij; [lra|].
  apply Rle_trans with (2 := IHHij). apply lprod_firstn_step. exact H.
Qed.

(* With uniforms in [0,1] and e = exp(-lambda) < 1 (lambda > 0): *)
Theorem knuth_form : forall e us k, e < 1 -> Forall (fun u => 0 <= u <= 1) us ->
  (knuth e us = Some k <->
   (S k <= length us)%nat /\ e < lprod (firstn k us) /\ lprod (firstn (S k) us) <= e).
Proof.
  intros e us k He Hus. rewrite knuth_spec. split.
  - intros [H1 [H2 H3]]. repeat split; try assumption.
    destruct k as [|k]; [simpl; exact He|]. apply H2. lia.
  - intros [H1 [H2 H3]]. repeat split; try assumption.
    intros j Hj. apply Rlt_le_trans with (1 := H2). apply lprod_firstn_mono; [exact Hus|lia].
Qed.

(* "the returned count is the number of partial products that exceed e" *)
Definition count_above (e : R) (us : list R) : nat :=
  length (filter (fun j => if Rlt_dec e (lprod (firstn j us)) then true else false)
                 (seq 1 (length us))).

Lemma filter_seq_threshold : forall (P : nat -> bool) len k a,
  (k <= len)%nat ->
  (forall j, (a <= j < a + k)%nat -> P j = true) ->
  (forall j, (a + k <= j < a + len)%nat -> P j = false) ->
  length (filter P (seq a len)) = k.
Proof.
  intros P len. induction len as [|len IH]; intros k a Hk Ht Hf.
  - simpl. lia.
  - simpl. destruct k as [|k].
    + rewrite Hf by lia. apply (IH 0%nat (S a)); [lia|intros; lia|]. intros j Hj. apply Hf. lia.
    + rewrite Ht by lia. simpl. f_equal. apply (IH k (S a)); [lia| |].
      * intros j Hj. apply Ht. lia.
      * intros j Hj. apply Hf. lia.
Qed.

Theorem knuth_count : forall e us k, Forall (fun u => 0 <= u <= 1) us ->
  knuth e us = Some k -> count_above e us = k.
Proof.
  intros e us k Hus H. apply knuth_spec in H. destruct H as [H1 [H2 H3]].
  unfold count_above. apply filter_seq_threshold; [lia| |].
  - intros j Hj. destruct (Rlt_dec e (lprod (firstn j us))) as [_|Hn]; [reflexivity|].
    exfalso. apply Hn. apply H2. lia.
  - intros j Hj. destruct (Rlt_dec e (lprod (firstn j us))) as [Hlt|_]; [|reflexivity].
    exfalso. assert (Hm := lprod_firstn_mono us Hus (S k) j ltac:(lia)). lra.
Qed.

Lemma lprod_def : lprod [] = 1 /\ forall u l, lprod (u :: l) = u * lprod l.
Proof. split; reflexivity. Qed.

Lemma knuth_loop_def : forall e p us k,
  knuth_loop e p us k =
  if Rlt_dec e p then
    match us with [] => None | u :: us' => knuth_loop e (p * u) us' (S k) end
  else Some k.
Proof. intros e p [|u us] k; reflexivity. Qed.

Lemma knuth_def : forall e,
  knuth e [] = None /\ forall u0 us, knuth e (u0 :: us) = knuth_loop e u0 us 0.
Proof. intros. split; reflexivity. Qed.

Lemma count_above_def : forall e us,
  count_above e us =
  length (filter (fun j => if Rlt_dec e (lprod (firstn j us)) then true else false)
                 (seq 1 (length us))).
Proof. reflexivity. Qed.
