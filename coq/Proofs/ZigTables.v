(* Proofs/ZigTables.v — the ziggurat tables regenerated from src/ziggurat_tables.rs satisfy
   the defining equations.  Proof by reflection: a boolean check over all 257 entries is
   evaluated with the verified interval evaluator (Base/Expr.v) and lifted by its soundness. *)
From Coq Require Import Reals ZArith List Lra Lia Bool.
From Interval Require Import Xreal Interval.
From RD Require Import Base.Expr Gen.ZigTables.
Import ListNotations.
Open Scope Z_scope.

Definition P := F.PtoP 120.
Definition ev0 (e : expr) : I.type := evalI P 0 0 false e.

(* a <= b and a < b on the exact values, decided on enclosures *)
Definition le_b (a b : expr) : bool := match ile P (ev0 a) (ev0 b) with TT => true | _ => false end.
Definition lt_b (a b : expr) : bool := match ilt P (ev0 a) (ev0 b) with TT => true | _ => false end.

Definition RLe (a b : expr) : Prop := exists x y, evalX a = Xreal x /\ evalX b = Xreal y /\ (x <= y)%R.
Definition RLt (a b : expr) : Prop := exists x y, evalX a = Xreal x /\ evalX b = Xreal y /\ (x < y)%R.

Lemma sub_real xa xb r : Xsub xa xb = Xreal r -> exists a b, xa = Xreal a /\ xb = Xreal b /\ r = (a - b)%R.
Proof. destruct xa, xb; simpl; try discriminate. intros H. inversion H. eauto. Qed.

Lemma le_b_sound a b : le_b a b = true -> RLe a b.
Proof.
  unfold le_b, ile, ev0. intros H.
  pose proof (I.sub_correct P _ _ _ _ (evalI_sound P 0 0 a false) (evalI_sound P 0 0 b false)) as C.
  pose proof (I.sign_strict_correct (I.sub P (evalI P 0 0 false a) (evalI P 0 0 false b))) as S.
  destruct (I.sign_strict (I.sub P (evalI P 0 0 false a) (evalI P 0 0 false b))); try discriminate.
  - specialize (S _ C). destruct (sub_real _ _ _ S) as [x [y [Ea [Eb Er]]]]. exists x, y. repeat split; auto. lra.
  - destruct (S _ C) as [S1 S2]. destruct (sub_real _ _ _ S1) as [x [y [Ea [Eb Er]]]]. exists x, y. repeat split; auto. lra.
Qed.

Lemma lt_b_sound a b : lt_b a b = true -> RLt a b.
Proof.
  unfold lt_b, ilt, ev0. intros H.
  pose proof (I.sub_correct P _ _ _ _ (evalI_sound P 0 0 b false) (evalI_sound P 0 0 a false)) as C.
  pose proof (I.sign_strict_correct (I.sub P (evalI P 0 0 false b) (evalI P 0 0 false a))) as S.
  destruct (I.sign_strict (I.sub P (evalI P 0 0 false b) (evalI P 0 0 false a))); try discriminate.
  destruct (S _ C) as [S1 S2]. destruct (sub_real _ _ _ S1) as [y [x [Eb [Ea Er]]]]. exists x, y. repeat split; auto. lra.
Qed.

(* ---- the table equations as expressions ----------------------------------------------- *)
Definition dyx (q : Z * Z) : expr := Dy (fst q) (snd q).
Definition ent (l : list (Z * Z)) (i : nat) : expr := dyx (nth i l (0, 0)).
Definition num (n : Z) : expr := Dy n 0.
Definition tenm (k : Z) : expr := Bin Div (num 1) (num (10 ^ k)).       (* 10^-k *)

Definition pdf_norm (x : expr) : expr := Un Exp (Un Neg (Bin Div (Un Sqr x) (num 2))).   (* exp(-x^2/2) *)
Definition pdf_exp (x : expr) : expr := Un Exp (Un Neg x).                                (* exp(-x)     *)

(* |f(X_i) - F_i| *)
Definition err_f (pdf : expr -> expr) (X Fv : list (Z * Z)) (i : nat) : expr :=
  Un Abs (Bin Sub (pdf (ent X i)) (ent Fv i)).
(* |X_i (F_{i+1} - F_i) / (X_0 F_1) - 1| *)
Definition err_area (X Fv : list (Z * Z)) (i : nat) : expr :=
  Un Abs (Bin Sub (Bin Div (Bin Mul (ent X i) (Bin Sub (ent Fv (S i)) (ent Fv i))) (Bin Mul (ent X 0) (ent Fv 1))) (num 1)).
(* |(X_1 F_1 + T) / (X_0 F_1) - 1| for a given tail mass T *)
Definition err_base (X Fv : list (Z * Z)) (T : expr) : expr :=
  Un Abs (Bin Sub (Bin Div (Bin Add (Bin Mul (ent X 1) (ent Fv 1)) T) (Bin Mul (ent X 0) (ent Fv 1))) (num 1)).

Definition idx (a b : nat) : list nat := seq a (b - a + 1).    (* a..b inclusive *)

Definition chk_mono (X Fv : list (Z * Z)) : bool :=
  forallb (fun i => lt_b (ent X (S i)) (ent X i) && lt_b (ent Fv i) (ent Fv (S i))) (idx 0 255).
Definition chk_f (pdf : expr -> expr) (X Fv : list (Z * Z)) : bool :=
  forallb (fun i => le_b (err_f pdf X Fv i) (tenm 14)) (idx 0 256).
Definition chk_area (X Fv : list (Z * Z)) : bool :=
  forallb (fun i => le_b (err_area X Fv i) (tenm 8)) (idx 1 255).
Definition chk_ends (X Fv : list (Z * Z)) (R : Z * Z) : bool :=
  (Nat.eqb (length X) 257) && (Nat.eqb (length Fv) 257) &&
  le_b (ent X 256) (num 0) && le_b (num 0) (ent X 256) &&
  le_b (ent Fv 256) (num 1) && le_b (num 1) (ent Fv 256) &&
  le_b (ent X 1) (dyx R) && le_b (dyx R) (ent X 1).

Lemma forallb_idx (f : nat -> bool) a b : forallb f (idx a b) = true ->
  forall i, (a <= i <= b)%nat -> f i = true.
Proof. intros H i Hi. rewrite forallb_forall in H. apply H. apply in_seq. lia. Qed.

(* ---- the theorems ---------------------------------------------------------------------- *)
Lemma norm_chk_mono : chk_mono ZIG_NORM_X ZIG_NORM_F = true. Proof. vm_compute. reflexivity. Qed.
Lemma norm_chk_f : chk_f pdf_norm ZIG_NORM_X ZIG_NORM_F = true. Proof. vm_compute. reflexivity. Qed.
Lemma norm_chk_area : chk_area ZIG_NORM_X ZIG_NORM_F = true. Proof. vm_compute. reflexivity. Qed.
Lemma norm_chk_ends : chk_ends ZIG_NORM_X ZIG_NORM_F ZIG_NORM_R = true. Proof. vm_compute. reflexivity. Qed.
Lemma exp_chk_mono : chk_mono ZIG_EXP_X ZIG_EXP_F = true. Proof. vm_compute. reflexivity. Qed.
Lemma exp_chk_f : chk_f pdf_exp ZIG_EXP_X ZIG_EXP_F = true. Proof. vm_compute. reflexivity. Qed.
Lemma exp_chk_area : chk_area ZIG_EXP_X ZIG_EXP_F = true. Proof. vm_compute. reflexivity. Qed.
Lemma exp_chk_ends : chk_ends ZIG_EXP_X ZIG_EXP_F ZIG_EXP_R = true. Proof. vm_compute. reflexivity. Qed.
(* base strip of the exponential: tail mass beyond r is exp(-r) *)
Lemma exp_chk_base : le_b (err_base ZIG_EXP_X ZIG_EXP_F (pdf_exp (dyx ZIG_EXP_R))) (tenm 8) = true.
Proof. vm_compute. reflexivity. Qed.

Theorem zig_strict_mono (X Fv : list (Z * Z)) : chk_mono X Fv = true ->
  forall i, (i <= 255)%nat -> RLt (ent X (S i)) (ent X i) /\ RLt (ent Fv i) (ent Fv (S i)).
Proof. intros H i Hi. pose proof (forallb_idx _ _ _ H i ltac:(lia)) as B. apply andb_true_iff in B.
  destruct B as [B1 B2]. split; now apply lt_b_sound. Qed.

Theorem zig_f_is_pdf pdf (X Fv : list (Z * Z)) : chk_f pdf X Fv = true ->
  forall i, (i <= 256)%nat -> RLe (err_f pdf X Fv i) (tenm 14).
Proof. intros H i Hi. apply le_b_sound. apply (forallb_idx _ _ _ H i). lia. Qed.

Theorem zig_layer_areas (X Fv : list (Z * Z)) : chk_area X Fv = true ->
  forall i, (1 <= i <= 255)%nat -> RLe (err_area X Fv i) (tenm 8).
Proof. intros H i Hi. apply le_b_sound. apply (forallb_idx _ _ _ H i). lia. Qed.
