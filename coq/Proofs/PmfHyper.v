(* Proofs/PmfHyper.v — identities behind Hypergeometric (hypergeometric.rs).

   new (162-193), with N = total_population_size, K = population_with_feature, n = sample_size:
       let (mut sign_x, mut offset_x) = (1, 0);
       let (n1, n2) = if K > N - K { sign_x = -1; offset_x = n; (N - K, K) } else { (K, N - K) };
       let k = if n <= N / 2 { n } else { offset_x += n1 * sign_x; sign_x *= -1; N - n };
   new (207-218): HIN start  (initial_p, initial_x) =
       if k < n2 { (n2! (N-k)! / (N! (n2-k)!), 0) } else { (n1! k! / (N! (k-n2)!), k - n2) }
   sample (313-318): while u > p && x < min(n1,k) { u -= p;
       p *= (n1 - x) * (k - x);  p /= (x + 1) * (n2 - k + 1 + x);  x += 1 }
   sample (445): (offset_x + sign_x * x) as u64                                               *)
From Coq Require Import Reals Lra Lia Arith ZArith.
From RD Require Import Proofs.PmfBinomial.
Open Scope R_scope.

(* pmf of the number of featured items among n drawn without replacement from N, K featured *)
Definition hyper_pmf (N K n x : nat) : R := C K x * C (N - K) (n - x) / C N n.

(* ---------------------------------------------------------------- the two symmetries *)

(* swap featured / unfeatured: X ~ H(N,K,n)  <->  n - X ~ H(N,N-K,n) *)
Theorem hyper_sym_K : forall N K n x, (K <= N)%nat -> (x <= n)%nat ->
  hyper_pmf N K n x = hyper_pmf N (N - K) n (n - x).
Proof.
  intros N K n x HK Hx. unfold hyper_pmf.
  replace (N - (N - K))%nat with K by lia. replace (n - (n - x))%nat with x by lia.
  unfold Rdiv. ring.
Qed.

(* swap drawn / left behind: X ~ H(N,K,n)  <->  K - X ~ H(N,K,N-n) *)
Theorem hyper_sym_n : forall N K n x, (K <= N)%nat -> (n <= N)%nat ->
  (x <= K)%nat -> (x <= n)%nat -> (n - x <= N - K)%nat ->
  hyper_pmf N K n x = hyper_pmf N K (N - n) (K - x).
Proof.
  intros N K n x HK Hn HxK Hxn Hc. unfold hyper_pmf.
  rewrite <- (pascal_step1 K x HxK). rewrite <- (pascal_step1 N n Hn).
  replace (N - n - (K - x))%nat with ((N - K) - (n - x))%nat by lia.
  rewrite <- (pascal_step1 (N - K) (n - x) Hc). reflexivity.
Qed.

(* ---------------------------------------------------------------- the set-up of `new` *)
Open Scope Z_scope.

(* returns (n1, n2, k, sign_x, offset_x) *)
Definition hyper_setup (N K n : Z) : Z * Z * Z * Z * Z :=
  let '(sign_x, offset_x, n1, n2) :=
    if K >? N - K then (-1, n, N - K, K) else (1, 0, K, N - K) in
  if n <=? N / 2 then (n1, n2, n, sign_x, offset_x)
  else (n1, n2, N - n, sign_x * -1, offset_x + n1 * sign_x).

Lemma hyper_setup_cases : forall N K n n1 n2 k sg off,
  hyper_setup N K n = (n1, n2, k, sg, off) ->
  (K <= N - K /\ n <= N / 2 /\ n1 = K /\ n2 = N - K /\ k = n /\ sg = 1 /\ off = 0) \/
  (K > N - K /\ n <= N / 2 /\ n1 = N - K /\ n2 = K /\ k = n /\ sg = -1 /\ off = n) \/
  (K <= N - K /\ n > N / 2 /\ n1 = K /\ n2 = N - K /\ k = N - n /\ sg = -1 /\ off = K) \/
  (K > N - K /\ n > N / 2 /\ n1 = N - K /\ n2 = K /\ k = N - n /\ sg = 1 /\ off = n - (N - K)).
Proof.
  intros N K n n1 n2 k sg off. unfold hyper_setup.
  destruct (Z.gtb_spec K (N - K)); destruct (Z.leb_spec n (N / 2)); intros Hs; inversion Hs; subst.
  - right; left. repeat split; lia.
  - right; right; right. repeat split; lia.
  - left. repeat split; lia.
  - right; right; left. repeat split; lia.
Qed.

(* the reduced problem has n1 <= n2 and k at most half the population (tie rule n <= N/2) *)
Theorem hyper_reduced_params : forall N K n n1 n2 k sg off,
  0 <= K <= N -> 0 <= n <= N -> hyper_setup N K n = (n1, n2, k, sg, off) ->
  n1 + n2 = N /\ 0 <= n1 <= n2 /\ 0 <= k /\ 2 * k <= N /\ k <= N / 2 /\ (sg = 1 \/ sg = -1).
Proof.
  intros N K n n1 n2 k sg off HK Hn H. apply hyper_setup_cases in H.
  assert (Hd := Z.div_mod N 2 ltac:(lia)). assert (Hm := Z.mod_pos_bound N 2 ltac:(lia)).
  destruct H as [H|[H|[H|H]]]; decompose [and] H; subst; repeat split; try lia.
Qed.

(* x |-> offset_x + sign_x * x maps the reduced support onto the original support, bijectively *)
Theorem hyper_reflect_bijection : forall N K n n1 n2 k sg off,
  0 <= K <= N -> 0 <= n <= N -> hyper_setup N K n = (n1, n2, k, sg, off) ->
  (forall x, Z.max 0 (k - n2) <= x <= Z.min n1 k ->
     Z.max 0 (n + K - N) <= off + sg * x <= Z.min n K) /\
  (forall y, Z.max 0 (n + K - N) <= y <= Z.min n K ->
     exists x, Z.max 0 (k - n2) <= x <= Z.min n1 k /\ off + sg * x = y) /\
  (forall x x', off + sg * x = off + sg * x' -> x = x').
Proof.
  intros N K n n1 n2 k sg off HK Hn H. apply hyper_setup_cases in H.
  destruct H as [H|[H|[H|H]]]; decompose [and] H; subst; clear H; repeat split; try lia.
  - intros y Hy. exists y. lia.
  - intros y Hy. exists (n - y). lia.
  - intros y Hy. exists (K - y). lia.
  - intros y Hy. exists (y - (n - (N - K))). lia.
Qed.

(* and it transports the pmf: P_orig(offset_x + sign_x * x) = P_reduced(x) *)
Theorem hyper_reflect_pmf : forall (N K n : nat) n1 n2 k sg off,
  (K <= N)%nat -> (n <= N)%nat ->
  hyper_setup (Z.of_nat N) (Z.of_nat K) (Z.of_nat n) = (n1, n2, k, sg, off) ->
  forall x : nat, Z.max 0 (k - n2) <= Z.of_nat x <= Z.min n1 k ->
  hyper_pmf N K n (Z.to_nat (off + sg * Z.of_nat x))
  = hyper_pmf (Z.to_nat (n1 + n2)) (Z.to_nat n1) (Z.to_nat k) x.
Proof.
  intros N K n n1 n2 k sg off HK Hn H x Hx. apply hyper_setup_cases in H.
  destruct H as [H|[H|[H|H]]]; decompose [and] H; subst; clear H.
  - replace (Z.to_nat (0 + 1 * Z.of_nat x)) with x by lia.
    replace (Z.to_nat (Z.of_nat K + (Z.of_nat N - Z.of_nat K))) with N by lia.
    rewrite !Nat2Z.id. reflexivity.
  - replace (Z.to_nat (Z.of_nat n + -1 * Z.of_nat x)) with (n - x)%nat by lia.
    replace (Z.to_nat (Z.of_nat N - Z.of_nat K + Z.of_nat K)) with N by lia.
    replace (Z.to_nat (Z.of_nat N - Z.of_nat K)) with (N - K)%nat by lia.
    rewrite !Nat2Z.id. rewrite (hyper_sym_K N K n (n - x)) by lia.
    replace (n - (n - x))%nat with x by lia. reflexivity.
  - replace (Z.to_nat (Z.of_nat K + -1 * Z.of_nat x)) with (K - x)%nat by lia.
    replace (Z.to_nat (Z.of_nat K + (Z.of_nat N - Z.of_nat K))) with N by lia.
    replace (Z.to_nat (Z.of_nat N - Z.of_nat n)) with (N - n)%nat by lia.
    rewrite !Nat2Z.id. rewrite (hyper_sym_n N K n (K - x)) by lia.
    replace (K - (K - x))%nat with x by lia. reflexivity.
  - replace (Z.to_nat (Z.of_nat n - (Z.of_nat N - Z.of_nat K) + 1 * Z.of_nat x))
      with (n - ((N - K) - x))%nat by lia.
    replace (Z.to_nat (Z.of_nat N - Z.of_nat K + Z.of_nat K)) with N by lia.
    replace (Z.to_nat (Z.of_nat N - Z.of_nat K)) with (N - K)%nat by lia.
    replace (Z.to_nat (Z.of_nat N - Z.of_nat n)) with (N - n)%nat by lia.
    rewrite (hyper_sym_K N K n) by lia.
    rewrite (hyper_sym_n N (N - K) n) by lia.
    replace (n - (n - (N - K - x)))%nat with (N - K - x)%nat by lia.
    replace (N - K - (N - K - x))%nat with x by lia. reflexivity.
Qed.

(* ---------------------------------------------------------------- HIN *)
Open Scope R_scope.

Lemma C_step_down : forall n j, (S j <= n)%nat -> C n j * INR (n - j) = C n (S j) * INR (S j).
Proof. intros n j Hj. symmetry. apply C_step. lia. Qed.

(* the update  p *= (n1 - x) * (k - x); p /= (x + 1) * (n2 - k + 1 + x)  *)
Theorem hin_recurrence : forall n1 n2 k x : nat,
  (S x <= n1)%nat -> (S x <= k)%nat -> (k - x <= n2)%nat ->
  hyper_pmf (n1 + n2) n1 k (S x)
  = hyper_pmf (n1 + n2) n1 k x * ((INR n1 - INR x) * (INR k - INR x))
      / ((INR x + 1) * (INR n2 - INR k + 1 + INR x)).
Proof.
  intros n1 n2 k x H1 Hk H2. unfold hyper_pmf.
  replace (n1 + n2 - n1)%nat with n2 by lia.
  assert (Ha := C_step n1 x ltac:(lia)).
  assert (Hb := C_step n2 (k - S x) ltac:(lia)).
  replace (S (k - S x)) with (k - x)%nat in Hb by lia.
  assert (Hks : INR (k - S x) = INR k - (INR x + 1)).
  { rewrite minus_INR by lia. rewrite S_INR. ring. }
  rewrite (minus_INR n2 (k - S x)) in Hb by lia. rewrite Hks in Hb.
  rewrite (minus_INR n1 x) in Ha by lia. rewrite (minus_INR k x) in Hb by lia. rewrite S_INR in *.
  assert (Hx : 0 <= INR x) by apply pos_INR.
  assert (Hkx : INR k - INR x <= INR n2).
  { rewrite <- minus_INR by lia. apply le_INR. exact H2. }
  assert (Hk1 : INR x + 1 <= INR k). { rewrite <- S_INR. apply le_INR. exact Hk. }
  assert (HN : C (n1 + n2) k <> 0). { apply Rgt_not_eq. apply C_pos. lia. }
  assert (HC1 : C n1 (S x) = C n1 x * (INR n1 - INR x) / (INR x + 1)).
  { rewrite <- Ha. field. lra. }
  assert (HC2 : C n2 (k - S x) = C n2 (k - x) * (INR k - INR x) / (INR n2 - INR k + 1 + INR x)).
  { replace (INR n2 - INR k + 1 + INR x) with (INR n2 - (INR k - (INR x + 1))) by ring.
    rewrite Hb. field. lra. }
  rewrite HC1, HC2. field. repeat split; try assumption; lra.
Qed.

Theorem hyper_pmf_pos : forall N K n x,
  (x <= K)%nat -> (n - x <= N - K)%nat -> (n <= N)%nat -> 0 < hyper_pmf N K n x.
Proof.
  intros N K n x H1 H2 H3. unfold hyper_pmf. apply Rdiv_lt_0_compat; [apply Rmult_lt_0_compat|];
    apply C_pos; assumption.
Qed.

(* ratio form p_{x+1} / p_x *)
Theorem hin_ratio : forall n1 n2 k x : nat,
  (S x <= n1)%nat -> (S x <= k)%nat -> (k - x <= n2)%nat -> (k <= n1 + n2)%nat ->
  hyper_pmf (n1 + n2) n1 k (S x) / hyper_pmf (n1 + n2) n1 k x
  = (INR n1 - INR x) * (INR k - INR x) / ((INR x + 1) * (INR n2 - INR k + 1 + INR x)).
Proof.
  intros n1 n2 k x H1 Hk H2 H3. rewrite hin_recurrence by assumption.
  assert (Hp : hyper_pmf (n1 + n2) n1 k x <> 0).
  { apply Rgt_not_eq. apply hyper_pmf_pos; lia. }
  assert (Hx : 0 <= INR x) by apply pos_INR.
  assert (Hkx : INR k - INR x <= INR n2).
  { rewrite <- minus_INR by lia. apply le_INR. exact H2. }
  field. repeat split; try assumption; lra.
Qed.

(* the starting value of HIN (hypergeometric.rs:207-218) is the pmf at the lower end of the support *)
Theorem hin_initial_lo : forall n1 n2 k : nat, (k <= n2)%nat ->
  hyper_pmf (n1 + n2) n1 k 0
  = INR (fact n2) * INR (fact (n1 + n2 - k)) / (INR (fact (n1 + n2)) * INR (fact (n2 - k))).
Proof.
  intros n1 n2 k Hk. unfold hyper_pmf, C.
  replace (n1 + n2 - n1)%nat with n2 by lia. rewrite !Nat.sub_0_r. simpl (fact 0). simpl (INR 1).
  assert (A := INR_fact_neq_0 n1). assert (B := INR_fact_neq_0 n2).
  assert (D := INR_fact_neq_0 (n1 + n2)). assert (E := INR_fact_neq_0 (n2 - k)).
  assert (F := INR_fact_neq_0 k). assert (G := INR_fact_neq_0 (n1 + n2 - k)).
  field. repeat split; assumption.
Qed.

Theorem hin_initial_hi : forall n1 n2 k : nat, (n2 <= k)%nat -> (k <= n1 + n2)%nat ->
  hyper_pmf (n1 + n2) n1 k (k - n2)
  = INR (fact n1) * INR (fact k) / (INR (fact (n1 + n2)) * INR (fact (k - n2))).
Proof.
  intros n1 n2 k Hk HN. unfold hyper_pmf, C.
  replace (n1 + n2 - n1)%nat with n2 by lia. replace (k - (k - n2))%nat with n2 by lia.
  replace (n1 - (k - n2))%nat with (n1 + n2 - k)%nat by lia. rewrite Nat.sub_diag.
  simpl (fact 0). simpl (INR 1).
  assert (A := INR_fact_neq_0 n1). assert (B := INR_fact_neq_0 n2).
  assert (D := INR_fact_neq_0 (n1 + n2)). assert (E := INR_fact_neq_0 (k - n2)).
  assert (F := INR_fact_neq_0 k). assert (G := INR_fact_neq_0 (n1 + n2 - k)).
  field. repeat split; assumption.
Qed.

Lemma hyper_pmf_def : forall N K n x, hyper_pmf N K n x = C K x * C (N - K) (n - x) / C N n.
Proof. reflexivity. Qed.

Lemma hyper_setup_def : forall N K n : Z,
  hyper_setup N K n =
  (let '(sign_x, offset_x, n1, n2) :=
     if (K >? N - K)%Z then ((-1)%Z, n, (N - K)%Z, K) else (1%Z, 0%Z, K, (N - K)%Z) in
   if (n <=? N / 2)%Z then (n1, n2, n, sign_x, offset_x)
   else (n1, n2, (N - n)%Z, (sign_x * -1)%Z, (offset_x + n1 * sign_x)%Z)).
Proof. reflexivity. Qed.
