(* Proofs/RunSound.v — soundness of the interval exploration `interpI` (Base/Run.v) with
   respect to the exact real-number semantics `evals`: the path taken by the exact
   semantics is among the explored paths unless the exploration was cut (OAmb).        *)
From Coq Require Import Reals ZArith List Lra Lia Bool.
From Interval Require Import Xreal Interval Float Basic Specific_bigint Specific_ops Specific_sig Generic.
From Flocq Require Import Core.
From Bignums Require Import BigZ.
From RD Require Import Base.Expr Base.Run.
Import ListNotations.

(* ---- verified comparisons ------------------------------------------------------------ *)
Section Decide.
Variable prec : F.precision.

Lemma decide_correct c ia ib x y :
  contains (I.convert ia) (Xreal x) -> contains (I.convert ib) (Xreal y) ->
  (decide prec c ia ib = TT -> rcmp c x y = true) /\
  (decide prec c ia ib = TF -> rcmp c x y = false).
Proof.
  intros Ha Hb. destruct c; cbn [decide rcmp].
  - pose proof (ilt_correct prec _ _ _ _ Ha Hb) as H.
    destruct (ilt prec ia ib); destruct (Rlt_dec x y); split; intros E; try discriminate E; try reflexivity; tauto.
  - pose proof (ile_correct prec _ _ _ _ Ha Hb) as H.
    destruct (ile prec ia ib); destruct (Rle_dec x y); split; intros E; try discriminate E; try reflexivity; tauto.
  - pose proof (ilt_correct prec _ _ _ _ Hb Ha) as H.
    destruct (ilt prec ib ia); destruct (Rlt_dec y x); split; intros E; try discriminate E; try reflexivity; tauto.
  - pose proof (ile_correct prec _ _ _ _ Hb Ha) as H.
    destruct (ile prec ib ia); destruct (Rle_dec y x); split; intros E; try discriminate E; try reflexivity; tauto.
Qed.
End Decide.

(* ---- the bounds produced by I.nearbyint have a non-negative exponent ------------------- *)
(* exponent of a (non-NaN) specific float *)
Definition fexp_nonneg (f : F.type) : Prop :=
  match f with
  | Specific_ops.Fnan => True
  | Specific_ops.Float _ e => (0 <= BigIntRadix2.EtoZ e)%Z
  end.

Lemma float_aux_exp s m e : (0 <= BigIntRadix2.EtoZ e)%Z -> fexp_nonneg (F.float_aux s m e).
Proof. intros H. unfold F.float_aux, fexp_nonneg. exact H. Qed.

Lemma zero_exp : fexp_nonneg F.zero.
Proof. unfold F.zero, fexp_nonneg. cbn. lia. Qed.

Lemma nearbyint_exp mode f : fexp_nonneg (F.nearbyint mode f).
Proof.
  unfold F.nearbyint. destruct f as [|m e]; [exact I|].
  destruct (BigIntRadix2.mantissa_sign m) as [|s m0]; [apply zero_exp|].
  unfold F.round_at_exp_aux.
  assert (Z0 : BigIntRadix2.EtoZ BigIntRadix2.exponent_zero = 0%Z) by reflexivity.
  rewrite BigIntRadix2.exponent_cmp_correct.
  change (BigIntRadix2.MtoZ (BigIntRadix2.exponent_sub BigIntRadix2.exponent_zero e))
    with (BigZ.to_Z (BigZ.sub BigIntRadix2.exponent_zero e)).
  rewrite BigIntRadix2.exponent_sub_correct.
  change (BigIntRadix2.MtoZ BigIntRadix2.exponent_zero) with 0%Z.
  change (BigZ.to_Z BigIntRadix2.exponent_zero) with 0%Z.
  destruct (Z.compare_spec (0 - BigZ.to_Z e) 0) as [H|H|H].
  - apply float_aux_exp. unfold BigIntRadix2.EtoZ. lia.
  - apply float_aux_exp. unfold BigIntRadix2.EtoZ. lia.
  - destruct (BigIntRadix2.exponent_cmp _ _).
    + destruct (need_change_zero _ _ _); [apply float_aux_exp; rewrite Z0; lia|apply zero_exp].
    + destruct (need_change_zero _ _ _); [apply float_aux_exp; rewrite Z0; lia|apply zero_exp].
    + destruct (BigIntRadix2.mantissa_shr _ _ _). apply float_aux_exp; rewrite Z0; lia.
Qed.

(* value of a float with a non-negative exponent as an integer *)
Lemma FtoR_nonneg_exp s m e : (0 <= e)%Z ->
  FtoR radix2 s m e = IZR ((if s then Z.neg m else Z.pos m) * 2 ^ e).
Proof.
  intros H. unfold FtoR. destruct e as [|q|q].
  - rewrite Z.pow_0_r, Z.mul_1_r. reflexivity.
  - rewrite Z.pow_pos_fold. reflexivity.
  - lia.
Qed.

Lemma toF_exp f s m e : fexp_nonneg f -> F.toF f = Basic.Float s m e -> (0 <= e)%Z.
Proof.
  unfold F.toF, fexp_nonneg. destruct f as [|m0 e0]; [discriminate|].
  destruct (BigIntRadix2.mantissa_sign m0); [discriminate|].
  intros H E. inversion E. subst. exact H.
Qed.

Lemma toX_of_toF_float f s m e : fexp_nonneg f -> F.toF f = Basic.Float s m e ->
  F.toX f = Xreal (IZR ((if s then Z.neg m else Z.pos m) * 2 ^ e)).
Proof.
  intros H E. unfold F.toX. rewrite E. cbn [FtoX]. f_equal.
  change F.radix with radix2. apply FtoR_nonneg_exp. eapply toF_exp; eauto.
Qed.

Lemma toX_of_toF_zero f : F.toF f = Basic.Fzero -> F.toX f = Xreal 0.
Proof. intros E. unfold F.toX. rewrite E. reflexivity. Qed.

(* ---- floor_range --------------------------------------------------------------------- *)
Lemma floor_range_correct i lo hi x :
  floor_range i = Some (lo, hi) -> contains (I.convert i) (Xreal x) ->
  (lo <= Zfloor x <= hi)%Z.
Proof.
  intros E H.
  pose proof (I.nearbyint_correct rnd_DN i (Xreal x) H) as C.
  cbn [Xlift Xbind Rnearbyint] in C.
  unfold floor_range in E.
  destruct i as [|l u]; [discriminate E|].
  cbn [I.nearbyint] in C, E.
  unfold I.convert in C. cbn [I.F.valid_lb I.F.valid_ub F.valid_lb F.valid_ub andb] in C.
  change (I.F.nearbyint_DN rnd_DN l) with (F.nearbyint rnd_DN l) in *.
  change (I.F.nearbyint_UP rnd_DN u) with (F.nearbyint rnd_DN u) in *.
  pose proof (nearbyint_exp rnd_DN l) as Hl. pose proof (nearbyint_exp rnd_DN u) as Hu.
  set (l' := F.nearbyint rnd_DN l) in *. set (u' := F.nearbyint rnd_DN u) in *.
  change (I.F.toX l') with (F.toX l') in C. change (I.F.toX u') with (F.toX u') in C.
  destruct (F.toF l') as [| |[|] ml el] eqn:El; try discriminate E;
  destruct (F.toF u') as [| |[|] mu eu] eqn:Eu; try discriminate E;
  inversion E; subst; clear E;
  rewrite ?(toX_of_toF_zero _ El), ?(toX_of_toF_zero _ Eu),
          ?(toX_of_toF_float _ _ _ _ Hl El), ?(toX_of_toF_float _ _ _ _ Hu Eu) in C;
  cbn [contains] in C; destruct C as [C1 C2]; split; apply le_IZR; assumption.
Qed.

(* ---- determinism, bind --------------------------------------------------------------- *)
Lemma Xreal_inj x y : Xreal x = Xreal y -> x = y.
Proof. intros H; inversion H; reflexivity. Qed.

Theorem evals_deterministic : forall A (r : run A) v1 v2, evals r v1 -> evals r v2 -> v1 = v2.
Proof.
  intros A r v1 v2 H1. revert v2.
  induction H1 as [a|c a b k x y v Ea Eb H IH|e k x v Ee H IH]; intros v2 H2.
  - inversion H2; reflexivity.
  - inversion H2 as [|c' a' b' k' x' y' v' Ea' Eb' H'|]; subst.
    rewrite Ea in Ea'. rewrite Eb in Eb'. apply Xreal_inj in Ea', Eb'. subst x' y'.
    apply IH; exact H'.
  - inversion H2 as [| |e' k' x' v' Ee' H']; subst.
    rewrite Ee in Ee'. apply Xreal_inj in Ee'. subst x'. apply IH; exact H'.
Qed.

Theorem bind_evals : forall A B (r : run A) (f : A -> run B) a b,
  evals r a -> evals (f a) b -> evals (bind r f) b.
Proof.
  intros A B r f a b H. induction H as [a|c a0 b0 k x y v Ea Eb H IH|e k x v Ee H IH]; intros Hf; cbn [bind].
  - exact Hf.
  - eapply EvAsk; eauto.
  - eapply EvFloor; eauto.
Qed.

Theorem bind_evals_inv : forall A B (r : run A) (f : A -> run B) b,
  evals (bind r f) b -> exists a, evals r a /\ evals (f a) b.
Proof.
  intros A B r f b. induction r as [a|c a0 b0 k IH|e k IH|code]; cbn [bind]; intros H.
  - exists a. split; [constructor|exact H].
  - inversion H as [|c' a' b' k' x y v Ea Eb H'|]; subst.
    destruct (IH _ H') as [a [H1 H2]]. exists a. split; [eapply EvAsk; eauto|exact H2].
  - inversion H as [| |e' k' x v Ee H']; subst.
    destruct (IH _ H') as [a [H1 H2]]. exists a. split; [eapply EvFloor; eauto|exact H2].
  - inversion H.
Qed.

Corollary bind_evals_iff : forall A B (r : run A) (f : A -> run B) b,
  evals (bind r f) b <-> exists a, evals r a /\ evals (f a) b.
Proof.
  intros; split; [apply bind_evals_inv|]. intros [a [H1 H2]]. eapply bind_evals; eauto.
Qed.

(* a failing tree has no exact value; a Ret tree has exactly its value *)
Lemma evals_Fail_inv : forall A code (v : A), ~ evals (Fail code) v.
Proof. intros A code v H; inversion H. Qed.
Lemma evals_Ret_inv : forall A (a v : A), evals (Ret a) v -> v = a.
Proof. intros A a v H; inversion H; reflexivity. Qed.

(* ---- soundness of the exploration ---------------------------------------------------- *)
Section Sound.
Variable A : Type.
Variable prec : F.precision.
Variable p eta : Z.

Lemma ev_sound e x : evalX e = Xreal x -> contains (I.convert (ev prec p eta e)) (Xreal x).
Proof. intros E. rewrite <- E. apply evalI_sound. Qed.

Theorem interpI_sound : forall (r : run A) v forks, evals r v ->
  In (OVal v) (interpI prec p eta r forks) \/ In OAmb (interpI prec p eta r forks).
Proof.
  intros r v forks H. revert forks.
  induction H as [a|c a b k x y v Ea Eb H IH|e k x v Ee H IH]; intros forks; cbn [interpI].
  - left. left. reflexivity.
  - destruct (decide_correct prec c _ _ _ _ (ev_sound _ _ Ea) (ev_sound _ _ Eb)) as [HT HF].
    destruct (decide prec c (ev prec p eta a) (ev prec p eta b)).
    + rewrite <- (HT eq_refl). apply IH.
    + rewrite <- (HF eq_refl). apply IH.
    + destruct forks as [|f]; [right; left; reflexivity|].
      destruct (rcmp c x y); (destruct (IH f) as [G|G]; [left|right]); apply in_or_app; auto.
  - destruct (floor_range (ev prec p eta e)) as [[lo hi]|] eqn:FR; [|right; left; reflexivity].
    pose proof (floor_range_correct _ _ _ _ FR (ev_sound _ _ Ee)) as B.
    destruct (Z.eqb_spec lo hi) as [E1|N1].
    + assert (Zfloor x = lo) as <- by lia. apply IH.
    + destruct (Z.eqb_spec hi (lo + 1)) as [E2|N2]; [|right; left; reflexivity].
      destruct forks as [|f]; [right; left; reflexivity|].
      assert (Zfloor x = lo \/ Zfloor x = hi) as [<-|<-] by lia;
        (destruct (IH f) as [G|G]; [left|right]); apply in_or_app; auto.
Qed.

Corollary interpI_no_amb_complete : forall (r : run A) v forks, evals r v ->
  ~ In OAmb (interpI prec p eta r forks) -> In (OVal v) (interpI prec p eta r forks).
Proof. intros r v forks H N. destruct (interpI_sound r v forks H); tauto. Qed.

(* if the exploration is unambiguous and yields a single value, that is THE exact value *)
Corollary interpI_singleton : forall (r : run A) v w forks, evals r v ->
  interpI prec p eta r forks = [OVal w] -> v = w.
Proof.
  intros r v w forks H E. destruct (interpI_sound r v forks H) as [G|G]; rewrite E in G;
  destruct G as [G|[]]; inversion G; reflexivity.
Qed.

(* every exact value satisfies a predicate checked on all explored outcomes *)
Corollary interpI_forall : forall (P : A -> Prop) (r : run A) v forks, evals r v ->
  Forall (fun o => match o with OVal a => P a | OFail _ => True | OAmb => False end)
         (interpI prec p eta r forks) -> P v.
Proof.
  intros P r v forks H F. rewrite Forall_forall in F.
  destruct (interpI_sound r v forks H) as [G|G]; apply F in G; [exact G|contradiction].
Qed.

End Sound.
