(* Proofs/SupportMore.v — property C03 on the ideal real-number models of Model/Continuous.v, the
   positive-support families not covered by Proofs/Support.v: LogNormal (> 0), FisherF (>= 0),
   InverseGaussian (> 0, both roots of Michael-Schucany-Haas), StudentT / Normal / ... have support R. *)
From Coq Require Import Reals ZArith List Lra Lia Bool.
From Interval Require Import Xreal.
From Flocq Require Import Core.
From RD Require Import Base.Expr Base.Run Model.Sampler Model.Continuous Proofs.LawsInvCdf Proofs.Support
  Proofs.SupportHyper.
Import ListNotations.
Open Scope Z_scope.
Open Scope sampler_scope.

Local Notation "a +. b" := (Bin Add a b) (at level 50, left associativity).
Local Notation "a -. b" := (Bin Sub a b) (at level 50, left associativity).
Local Notation "a *. b" := (Bin Mul a b) (at level 40, left associativity).
Local Notation "a /. b" := (Bin Div a b) (at level 40, left associativity).
Local Open Scope R_scope.

(* LogNormal: exp of anything defined is positive *)
Theorem lognormal_pos t mu sigma ws e rest x :
  evals (lognormal t mu sigma ws) (e, rest) -> evalX e = Xreal x -> 0 < x.
Proof.
  intros E. refine (allsem_elim (fun p => dpos (fst p)) _ _ _ E x).
  unfold lognormal, sbind. apply allsem_bind_any. intros [z ws']. sstep0.
  intros y H. unfold eexp in H. cbn [evalX xun] in H. apply xexp_inv in H. destruct H as (v & _ & ->). apply exp_pos.
Qed.

(* ---- the unread words stay 64-bit words (needed to chain two samplers) ---------------------------------- *)
Definition wordsP {A} (p : A * list Z) : Prop := Forall word (snd p).

Lemma norm_tail_words fuel : forall ws, Forall word ws -> allsem wordsP (norm_tail fuel ws).
Proof.
  induction fuel as [|f IH]; intros ws Hw; [exact I|].
  destruct ws as [|w1 [|w2 ws]]; cbn [norm_tail]; sstep0; [exact I|exact I|].
  apply Forall_cons_iff in Hw. destruct Hw as [_ Hw]. apply Forall_cons_iff in Hw. destruct Hw as [_ Hw].
  intros x y _ _. destruct (rcmp CLt x y); sstep0; [apply IH, Hw|exact Hw].
Qed.
Lemma norm_zero_words um u ws : Forall word ws -> allsem wordsP (norm_zero um u ws).
Proof.
  intros Hw. unfold norm_zero. eapply allsem_sbind; [apply norm_tail_words, Hw|].
  intros x ws' H. destruct (um <? 0)%Z; sstep0; exact H.
Qed.
Lemma exp_zero_words um u ws : Forall word ws -> allsem wordsP (exp_zero um u ws).
Proof.
  intros Hw. unfold exp_zero. destruct ws as [|w ws]; sstep0; [exact I|].
  apply Forall_cons_iff in Hw. apply Hw.
Qed.
Lemma zig_words fuel sym X Fv pdf zc :
  (forall um u ws, Forall word ws -> allsem wordsP (zc um u ws)) ->
  forall ws, Forall word ws -> allsem wordsP (zig fuel sym X Fv pdf zc ws).
Proof.
  intros Hz. induction fuel as [|f IH]; intros ws Hw; [exact I|].
  destruct ws as [|w ws]; cbn [zig]; sstep0; [exact I|].
  apply Forall_cons_iff in Hw. destruct Hw as [_ Hw].
  intros x y _ _. destruct (rcmp CLt x y); sstep0; [exact Hw|].
  destruct (Nat.eqb (Z.to_nat (w mod 256)) 0); [apply Hz, Hw|].
  destruct ws as [|w2 ws2]; sstep0; [exact I|].
  apply Forall_cons_iff in Hw. destruct Hw as [_ Hw].
  intros x1 y1 _ _. destruct (rcmp CLt x1 y1); sstep0; [exact Hw|apply IH, Hw].
Qed.
Lemma std_normal_words t ws : Forall word ws -> allsem wordsP (std_normal t ws).
Proof.
  intros Hw. destruct t; cbn [std_normal].
  - eapply allsem_sbind; [apply zig_words; [apply norm_zero_words|exact Hw]|]. intros a ws' H. sstep0. exact H.
  - apply zig_words; [apply norm_zero_words|exact Hw].
Qed.
Lemma exp1_words t ws : Forall word ws -> allsem wordsP (exp1 t ws).
Proof.
  intros Hw. destruct t; cbn [exp1].
  - eapply allsem_sbind; [apply zig_words; [apply exp_zero_words|exact Hw]|]. intros a ws' H. sstep0. exact H.
  - apply zig_words; [apply exp_zero_words|exact Hw].
Qed.
Lemma gamma_unscaled_words fuel t c d : forall ws, Forall word ws -> allsem wordsP (gamma_unscaled fuel t c d ws).
Proof.
  induction fuel as [|f IH]; intros ws Hw; [exact I|].
  cbn [gamma_unscaled]. eapply allsem_sbind; [apply std_normal_words, Hw|]. intros x ws1 H1. unfold wordsP in H1. cbn [snd] in H1.
  sstep0. intros x0 y0 _ _. destruct (rcmp CLe x0 y0); [apply IH, H1|].
  destruct ws1 as [|w ws2]; sstep0; [exact I|]. apply Forall_cons_iff in H1. destruct H1 as [_ H2].
  intros x1 y1 _ _. destruct (rcmp CLt x1 y1); sstep0; [exact H2|].
  intros x2 y2 _ _. destruct (rcmp CLt x2 y2); sstep0; [exact H2|apply IH, H2].
Qed.
Lemma gamma_e_words t lt1 eq1 shape scale ws : Forall word ws -> allsem wordsP (gamma_e t lt1 eq1 shape scale ws).
Proof.
  intros Hw. unfold gamma_e, gamma_large_consts. destruct eq1.
  - eapply allsem_sbind; [apply exp1_words, Hw|]. intros z ws' H. sstep0. exact H.
  - destruct lt1.
    + destruct ws as [|w ws1]; [exact I|]. sstep0. apply Forall_cons_iff in Hw. destruct Hw as [_ Hw].
      eapply allsem_sbind; [apply gamma_unscaled_words, Hw|]. intros a ws' H. sstep0. exact H.
    + eapply allsem_sbind; [apply gamma_unscaled_words, Hw|]. intros a ws' H. sstep0. exact H.
Qed.
Lemma chi_squared_words t k ws : Forall word ws -> allsem wordsP (chi_squared t k ws).
Proof.
  intros Hw. unfold chi_squared. destruct (dy_eqb k (1, 0)%Z).
  - eapply allsem_sbind; [apply std_normal_words, Hw|]. intros z ws' H. sstep0. exact H.
  - apply gamma_e_words, Hw.
Qed.

Lemma allsem_and {A} (P Q : A -> Prop) r : allsem P r -> allsem Q r -> allsem (fun a => P a /\ Q a) r.
Proof. induction r; cbn; auto. Qed.

Lemma chi_squared_leaves t k ws : 0 < dyR k -> Forall word ws ->
  allsem (fun p => dnn (fst p) /\ Forall word (snd p)) (chi_squared t k ws).
Proof.
  intros Hk Hw. apply allsem_and; [|apply chi_squared_words, Hw].
  apply allsem_evals. intros [e rest] E. cbn [fst]. intros x Ex. exact (chi_squared_nonneg t k ws e rest x Hk Hw E Ex).
Qed.

(* FisherF(m, n) = (chi2_m / chi2_n) * (n / m) >= 0 whenever defined *)
Theorem fisher_f_nonneg t m n ws e rest x :
  0 < dyR m -> 0 < dyR n -> Forall word ws ->
  evals (fisher_f t m n ws) (e, rest) -> evalX e = Xreal x -> 0 <= x.
Proof.
  intros Hm Hn Hw E. refine (allsem_elim (fun p => dnn (fst p)) _ _ _ E x).
  unfold fisher_f. eapply allsem_sbind; [apply (chi_squared_leaves t m ws Hm Hw)|].
  intros a ws1 [Ha Hw1]. cbn [fst snd] in Ha, Hw1.
  eapply allsem_sbind; [apply (chi_squared_leaves t n ws1 Hn Hw1)|].
  intros b ws2 [Hb _]. cbn [fst] in Hb. sstep0. intros y Ey.
  cbn [evalX xbin] in Ey. rewrite !dyx_eval in Ey.
  apply xmul_inv in Ey. destruct Ey as (q1 & q2 & Hq1 & Hq2 & ->).
  apply xdiv_inv in Hq1. destruct Hq1 as (xa & xb & Hxa & Hxb & NZ & ->).
  rewrite Xdiv_nz in Hq2 by lra. injection Hq2 as <-.
  pose proof (Ha xa Hxa). pose proof (Hb xb Hxb). assert (0 < xb) by lra.
  apply Rmult_le_pos; [apply div_ge_0; assumption|apply Rlt_le, div_gt_0; assumption].
Qed.

(* InverseGaussian(mean, shape) > 0: both roots of the Michael-Schucany-Haas quadratic are positive *)
From RD Require Import Proofs.RejectIdentities.

Theorem inverse_gaussian_pos t mean shape ws e rest x :
  0 < dyR mean -> 0 < dyR shape ->
  evals (inverse_gaussian t mean shape ws) (e, rest) -> evalX e = Xreal x -> 0 < x.
Proof.
  intros Hmu Hl E. refine (allsem_elim (fun p => dpos (fst p)) _ _ _ E x).
  unfold inverse_gaussian, inverse_gaussian_e, sbind at 1. apply allsem_bind_any. intros [v ws1].
  set (MU := dyR mean) in * . set (L := dyR shape) in * .
  (* value of the smaller root when defined *)
  assert (X1 : forall y, evalX (dyx mean +. dyx mean /. (num 2 *. dyx shape) *.
                   (dyx mean *. v *. v -. esqrt (num 4 *. dyx shape *. (dyx mean *. v *. v) +. dyx mean *. v *. v *. (dyx mean *. v *. v))))
                  = Xreal y -> exists rv, y = ig_x1 MU L rv).
  { intros y Ey. cbn [evalX xbin xun esqrt] in Ey. rewrite !dyx_eval, !num_eval in Ey. fold MU L in Ey.
    change (Xreal 2 * Xreal L)%XR with (Xreal (2 * L)) in Ey. rewrite Xdiv_nz in Ey by lra.
    destruct (evalX v) as [|rv]; [cbn in Ey; discriminate|]. exists rv.
    cbn [Xmul Xadd Xsub] in Ey. unfold Xsqrt in Ey. cbn [Xbind] in Ey. unfold Xsqrt' in Ey.
    destruct (is_negative_spec (4 * L * (MU * rv * rv) + MU * rv * rv * (MU * rv * rv))); try discriminate;
      cbn in Ey; injection Ey as <-; unfold ig_x1, ig_s, ig_y; reflexivity. }
  destruct ws1 as [|w ws2]; sstep0; [exact I|].
  intros x0 y0 _ _. destruct (rcmp CLe x0 y0); sstep0.
  - intros y Ey. destruct (X1 y Ey) as [rv ->]. apply (ig_x1_pos_aux MU L rv Hmu Hl).
  - intros y Ey. cbn [evalX xbin] in Ey. apply xdiv_inv in Ey. destruct Ey as (a & b & Ha & Hb & NZ & ->).
    rewrite dyx_eval in Ha. fold MU in Ha. cbn in Ha. injection Ha as <-.
    destruct (X1 b Hb) as [rv ->]. pose proof (ig_x1_pos_aux MU L rv Hmu Hl) as [P _].
    apply div_gt_0; [exact P|nra].
Qed.
