(* Proofs/AliasLoop.v — loop invariant of the alias-table construction, success of
   alias_new on valid input, and the complete characterisation of its error cases *)
From Coq Require Import ZArith List Bool Arith Lia Permutation.
From RD Require Import Model.Tree Model.Uniform Model.Alias Proofs.AliasBasics.
Import ListNotations.
Open Scope Z_scope.

Definition wfA (ty : aty) : Prop := alo ty <= 0 <= amax ty.
Definition alen (ws : list Z) : Z := Z.of_nat (length ws).
Definition amaxw (ty : aty) (ws : list Z) : Z :=
  if alen ws <=? amax ty then amax ty / alen ws else 0.

(* mass received by column i from the finished (small, big) pairs *)
Definition dsum (SS : Z) (o : list Z) (dn : list (nat * nat)) (i : nat) : Z :=
  fold_right (fun p acc => (if Nat.eqb (snd p) i then SS - geti o (fst p) else 0) + acc) 0 dn.

Lemma dsum_seti_notin : forall SS o b v dn i, ~ In b (map fst dn) ->
  dsum SS (seti o b v) dn i = dsum SS o dn i.
Proof.
  induction dn; intros i H. reflexivity.
  simpl in *. rewrite IHdn by tauto.
  rewrite geti_seti_other. reflexivity. intro E; apply H; left; auto.
Qed.

Lemma inra_true : forall ty v, alo ty <= v <= amax ty -> inra ty v = true.
Proof. intros. unfold inra. apply andb_true_iff. split; apply Z.leb_le; lia. Qed.

Lemma perm_a : forall (sm b : nat) sr br D,
  Permutation ((sm :: sr) ++ (b :: br) ++ D) (sm :: b :: sr ++ br ++ D).
Proof.
  intros. simpl. apply perm_skip. symmetry. apply Permutation_middle.
Qed.

Lemma perm_b : forall (sm b : nat) sr br D,
  Permutation ((b :: sr) ++ br ++ sm :: D) (sm :: b :: sr ++ br ++ D).
Proof.
  intros. simpl. rewrite perm_swap. apply perm_skip.
  rewrite !app_assoc. symmetry. apply Permutation_middle.
Qed.

Lemma perm_c : forall (sm b : nat) sr br D,
  Permutation (sr ++ (b :: br) ++ sm :: D) (sm :: b :: sr ++ br ++ D).
Proof.
  intros. rewrite <- (perm_b sm b sr br D). simpl. symmetry. apply Permutation_middle.
Qed.

Section Loop.
Variable ty : aty.
Variable SS : Z.
Variable N : nat.
Variable tgt : nat -> Z.
Hypothesis wf : wfA ty.
Hypothesis SSpos : 0 < SS.

Record Inv (s : ast) (dn : list (nat * nat)) : Prop := {
  inv_lo : length (odds s) = N;
  inv_la : length (al s) = N;
  inv_perm : Permutation (smalls s ++ bigs s ++ map fst dn) (seq 0 N);
  inv_sm : forall i, In i (smalls s) -> 0 <= geti (odds s) i < SS;
  inv_bg : forall i, In i (bigs s) -> SS <= geti (odds s) i <= amax ty;
  inv_dn : forall p, In p dn ->
             0 <= geti (odds s) (fst p) < SS /\
             geti (al s) (fst p) = Z.of_nat (snd p) /\ (snd p < N)%nat;
  inv_sum : osum (odds s) (smalls s) + osum (odds s) (bigs s)
            = SS * Z.of_nat (length (smalls s) + length (bigs s));
  inv_mass : forall i, (i < N)%nat -> geti (odds s) i + dsum SS (odds s) dn i = tgt i }.

Lemma pair_loop_cons : forall f s sm sr b br,
  smalls s = sm :: sr -> bigs s = b :: br ->
  pair_loop (S f) ty SS s =
    if inra ty (geti (odds s) b - SS) && inra ty (geti (odds s) b - SS + geti (odds s) sm)
    then pair_loop f ty SS
           (classify SS {| odds := seti (odds s) b (geti (odds s) b - SS + geti (odds s) sm);
                           al := seti (al s) sm (Z.of_nat b); smalls := sr; bigs := br |} b)
    else None.
Proof. intros. simpl. rewrite H, H0. reflexivity. Qed.

Lemma pair_loop_stop : forall f s, smalls s = [] \/ bigs s = [] -> pair_loop f ty SS s = Some s.
Proof.
  intros f s H. destruct f; simpl; destruct (smalls s), (bigs s); auto;
  destruct H; discriminate.
Qed.

Lemma inv_step : forall s dn sm sr b br,
  Inv s dn -> smalls s = sm :: sr -> bigs s = b :: br ->
  inra ty (geti (odds s) b - SS) = true /\
  inra ty (geti (odds s) b - SS + geti (odds s) sm) = true /\
  Inv (classify SS {| odds := seti (odds s) b (geti (odds s) b - SS + geti (odds s) sm);
                      al := seti (al s) sm (Z.of_nat b); smalls := sr; bigs := br |} b)
      ((sm, b) :: dn).
Proof.
  intros s dn sm sr b br [Hlo Hla Hperm Hsm Hbg Hdn Hsum Hmass] Es Eb.
  rewrite Es, Eb in *.
  assert (Hp : Permutation (sm :: b :: sr ++ br ++ map fst dn) (seq 0 N)).
  { rewrite <- Hperm. symmetry. apply perm_a. }
  assert (ND : NoDup (sm :: b :: sr ++ br ++ map fst dn)).
  { eapply Permutation_NoDup. symmetry; exact Hp. apply seq_NoDup. }
  assert (Hlt : forall i, In i (sm :: b :: sr ++ br ++ map fst dn) -> (i < N)%nat).
  { intros i Hi. eapply Permutation_in in Hi; [|exact Hp]. apply in_seq in Hi. lia. }
  inversion ND as [|? ? Nsm ND1]; subst. inversion ND1 as [|? ? Nb ND2]; subst.
  assert (smb : sm <> b) by (intro; subst; apply Nsm; left; auto).
  assert (Nsm' : ~ In sm (sr ++ br ++ map fst dn)) by (intro; apply Nsm; right; auto).
  rewrite !in_app_iff in Nsm', Nb.
  assert (smN : (sm < N)%nat) by (apply Hlt; left; auto).
  assert (bN : (b < N)%nat) by (apply Hlt; right; left; auto).
  assert (Osm : 0 <= geti (odds s) sm < SS) by (apply Hsm; left; auto).
  assert (Ob : SS <= geti (odds s) b <= amax ty) by (apply Hbg; left; auto).
  unfold wfA in wf.
  split. apply inra_true; lia.
  split. apply inra_true; lia.
  set (nb := geti (odds s) b - SS + geti (odds s) sm) in *.
  set (o' := seti (odds s) b nb).
  assert (Eo_b : geti o' b = nb) by (apply geti_seti_same; lia).
  assert (Eo_other : forall j, j <> b -> geti o' j = geti (odds s) j).
  { intros; apply geti_seti_other; auto. }
  assert (Hsum' : osum o' sr + osum o' br + nb
                  = SS * Z.of_nat (length sr + length br + 1)).
  { unfold o'. rewrite !osum_seti_notin by tauto.
    unfold osum in Hsum. rewrite !zsumf_cons in Hsum. fold (osum (odds s) sr) in Hsum.
    fold (osum (odds s) br) in Hsum. simpl length in Hsum. unfold nb. lia. }
  assert (Hmass' : forall i, (i < N)%nat -> geti o' i + dsum SS o' ((sm, b) :: dn) i = tgt i).
  { intros i Hi. rewrite <- (Hmass i Hi). unfold dsum at 1. cbn [fold_right fst snd].
    fold (dsum SS o' dn i). unfold o' at 3. rewrite dsum_seti_notin by tauto.
    rewrite (Eo_other sm) by auto.
    destruct (Nat.eqb_spec b i).
    - subst i. rewrite Eo_b. unfold nb. lia.
    - rewrite Eo_other by auto. lia. }
  assert (Hdn' : forall a p, In p ((sm, b) :: dn) ->
            0 <= geti o' (fst p) < SS /\
            geti (seti (seti (al s) sm (Z.of_nat b)) b a) (fst p) = Z.of_nat (snd p) /\
            (snd p < N)%nat).
  { intros a p [<-|Hp']; cbn [fst snd].
    - rewrite Eo_other by auto. rewrite geti_seti_other by auto.
      rewrite geti_seti_same by lia. auto.
    - assert (In (fst p) (map fst dn)) by (apply in_map; auto).
      assert (fst p <> b) by (intro E; rewrite E in *; tauto).
      assert (fst p <> sm) by (intro E; rewrite E in *; tauto).
      rewrite Eo_other by auto. rewrite !geti_seti_other by auto. apply Hdn; auto. }
  unfold classify. cbn [odds]. fold o'. rewrite Eo_b.
  destruct (Z.ltb_spec nb SS) as [Hlt'|Hge].
  - (* b becomes small *)
    constructor; cbn [push_small odds al smalls bigs fst snd map].
    + unfold o'. rewrite seti_length; auto.
    + rewrite !seti_length; auto.
    + rewrite <- Hp. apply perm_b.
    + intros i [<-|Hi]. rewrite Eo_b; lia.
      rewrite Eo_other by (intro; subst; tauto). apply Hsm; right; auto.
    + intros i Hi. rewrite Eo_other by (intro; subst; tauto). apply Hbg; right; auto.
    + apply Hdn'.
    + unfold osum at 1. rewrite zsumf_cons. fold (osum o' sr). rewrite Eo_b.
      simpl length. rewrite Nat2Z.inj_add, ?Nat2Z.inj_succ.
      rewrite !Nat2Z.inj_add in Hsum'. simpl Z.of_nat in Hsum'. lia.
    + exact Hmass'.
  - (* b stays big *)
    constructor; cbn [push_big odds al smalls bigs fst snd map].
    + unfold o'. rewrite seti_length; auto.
    + rewrite !seti_length; auto.
    + rewrite <- Hp. apply perm_c.
    + intros i Hi. rewrite Eo_other by (intro; subst; tauto). apply Hsm; right; auto.
    + intros i [<-|Hi]. rewrite Eo_b; unfold nb in *; lia.
      rewrite Eo_other by (intro; subst; tauto). apply Hbg; right; auto.
    + apply Hdn'.
    + unfold osum at 2. rewrite zsumf_cons. fold (osum o' br). rewrite Eo_b.
      simpl length. rewrite Nat2Z.inj_add, ?Nat2Z.inj_succ.
      rewrite !Nat2Z.inj_add in Hsum'. simpl Z.of_nat in Hsum'. lia.
    + exact Hmass'.
Qed.

Lemma pair_loop_ok : forall fuel s dn,
  Inv s dn -> (length (smalls s) + length (bigs s) <= fuel)%nat ->
  exists s' dn', pair_loop fuel ty SS s = Some s' /\ Inv s' dn' /\
                 (smalls s' = [] \/ bigs s' = []).
Proof.
  induction fuel; intros s dn HI Hf.
  - exists s, dn. assert (smalls s = []) by (destruct (smalls s); simpl in *; auto; lia).
    split; [apply pair_loop_stop|]; auto.
  - destruct (smalls s) as [|sm sr] eqn:Es.
    { exists s, dn. split; [apply pair_loop_stop|]; auto. }
    destruct (bigs s) as [|b br] eqn:Eb.
    { exists s, dn. split; [apply pair_loop_stop|]; auto. }
    destruct (inv_step s dn sm sr b br HI Es Eb) as (R1 & R2 & HI').
    rewrite (pair_loop_cons fuel s sm sr b br Es Eb), R1, R2. cbn [andb].
    apply (IHfuel _ _ HI').
    unfold classify. destruct (_ <? _); cbn [push_small push_big smalls bigs]; simpl in *; lia.
Qed.

(* at loop exit: the small stack is empty and every remaining big column has odds exactly SS *)
Lemma inv_exit : forall s dn, Inv s dn -> smalls s = [] \/ bigs s = [] ->
  smalls s = [] /\ forall i, In i (bigs s) -> geti (odds s) i = SS.
Proof.
  intros s dn [Hlo Hla Hperm Hsm Hbg Hdn Hsum Hmass] H.
  assert (E : smalls s = []).
  { destruct H as [H|H]; auto. destruct (smalls s) as [|a l] eqn:Es; auto. exfalso.
    rewrite H in Hsum. unfold osum in Hsum. rewrite zsumf_nil in Hsum. simpl length in Hsum.
    assert (zsumf (geti (odds s)) (a :: l) < SS * Z.of_nat (length (a :: l))).
    { apply zsumf_lt_all. congruence. intros j Hj. apply Hsm; auto. }
    simpl length in *. rewrite Nat.add_0_r in Hsum. lia. }
  split; auto. rewrite E in Hsum. unfold osum in Hsum. rewrite zsumf_nil in Hsum.
  simpl in Hsum. apply zsumf_ge_all_eq; auto. intros j Hj; apply Hbg; auto.
Qed.

Lemma drain_id : forall s, smalls s = [] -> (forall i, In i (bigs s) -> geti (odds s) i = SS) ->
  odds (drain SS s) = odds s /\ al (drain SS s) = al s.
Proof.
  intros s E H. unfold drain. cbn [odds al]. rewrite E. cbn [fold_left]. split; auto.
  revert H. generalize (odds s) as o. induction (bigs s) as [|a l IH]; intros o H. reflexivity.
  cbn [fold_left].
  assert (Ea : seti o a SS = o).
  { pose proof (seti_id o a) as X. rewrite (H a) in X by (left; auto). exact X. }
  rewrite Ea. apply IH.
  intros; apply H; right; auto.
Qed.

(* ---------- initial classification ---------- *)

Record PInv (o : list Z) (s : ast) (k : nat) : Prop := {
  p_o : odds s = o;
  p_la : length (al s) = N;
  p_perm : Permutation (smalls s ++ bigs s) (seq 0 k);
  p_sm : forall i, In i (smalls s) -> geti o i < SS;
  p_bg : forall i, In i (bigs s) -> SS <= geti o i }.

Lemma pinv_step : forall o s k, PInv o s k -> PInv o (classify SS s k) (S k).
Proof.
  intros o s k [Ho Hla Hperm Hsm Hbg]. unfold classify. rewrite Ho.
  destruct (Z.ltb_spec (geti o k) SS); constructor;
    cbn [push_small push_big odds al smalls bigs]; auto.
  - rewrite seti_length; auto.
  - rewrite seq_S. simpl. rewrite <- Permutation_cons_append. apply perm_skip; auto.
  - intros i [<-|Hi]; auto.
  - rewrite seti_length; auto.
  - rewrite seq_S. simpl. rewrite <- Permutation_middle, <- Permutation_cons_append.
    apply perm_skip; auto.
  - intros i [<-|Hi]; auto.
Qed.

Lemma pinv_init : forall o a k, length a = N ->
  PInv o (fold_left (classify SS) (seq 0 k) {| odds := o; al := a; smalls := []; bigs := [] |}) k.
Proof.
  clear tgt. intros o a k Ha. induction k.
  - simpl. constructor; simpl; auto; try tauto.
  - rewrite seq_S, fold_left_app. simpl. apply pinv_step; auto.
Qed.

Lemma pinv_inv : forall o s, PInv o s N -> length o = N ->
  (forall i, (i < N)%nat -> 0 <= geti o i <= amax ty) ->
  zsumf (geti o) (seq 0 N) = SS * Z.of_nat N ->
  (forall i, (i < N)%nat -> geti o i = tgt i) ->
  Inv s [].
Proof.
  intros o s [Ho Hla Hperm Hsm Hbg] Hlen Hr Hs Ht.
  assert (Hlt : forall i, In i (smalls s ++ bigs s) -> (i < N)%nat).
  { intros i Hi. eapply Permutation_in in Hi; [|exact Hperm]. apply in_seq in Hi. lia. }
  constructor; rewrite ?Ho; auto.
  - simpl. rewrite app_nil_r. auto.
  - intros i Hi. assert (i < N)%nat by (apply Hlt, in_app_iff; auto).
    specialize (Hr i H). specialize (Hsm i Hi). lia.
  - intros i Hi. assert (i < N)%nat by (apply Hlt, in_app_iff; auto).
    specialize (Hr i H). specialize (Hbg i Hi). lia.
  - intros p [].
  - unfold osum. rewrite <- zsumf_app, (zsumf_perm _ _ _ Hperm), Hs.
    rewrite <- app_length, (Permutation_length Hperm), seq_length. reflexivity.
  - intros i Hi. simpl. rewrite Ht by auto. lia.
Qed.

End Loop.

(* ---------- the constructed table ---------- *)

Record Good (ty : aty) (ws : list Z) (t : atab) : Prop := {
  g_sum : t_sum t = asum ws;
  g_pos : 0 < asum ws;
  g_lo : length (t_odds t) = length ws;
  g_la : length (t_al t) = length ws;
  g_n : 0 < alen ws;
  g_w : forall i, (i < length ws)%nat -> 0 <= nth i ws 0 /\ alen ws * nth i ws 0 <= amax ty;
  g_struct : exists lf dn,
     Permutation (lf ++ map fst dn) (seq 0 (length ws)) /\
     (forall i, In i lf -> geti (t_odds t) i = t_sum t) /\
     (forall p, In p dn -> 0 <= geti (t_odds t) (fst p) < t_sum t /\
                           geti (t_al t) (fst p) = Z.of_nat (snd p) /\
                           (snd p < length ws)%nat) /\
     (forall i, (i < length ws)%nat ->
        geti (t_odds t) i + dsum (t_sum t) (t_odds t) dn i = alen ws * nth i ws 0) }.

Lemma zsum_chk_ok : forall ty ws a, wfA ty -> (forall w, In w ws -> 0 <= w) -> 0 <= a ->
  a + asum ws <= amax ty ->
  fold_left (fun acc w => match acc with None => None
                          | Some a => if inra ty (a + w) then Some (a + w) else None end)
            ws (Some a) = Some (a + asum ws).
Proof.
  unfold wfA. induction ws; intros acc wf Hw Ha Hb.
  - simpl. f_equal. lia.
  - change (asum (a :: ws)) with (a + asum ws) in *.
    assert (0 <= a) by (apply Hw; left; auto).
    assert (0 <= asum ws) by (apply asum_nonneg; intros; apply Hw; right; auto).
    cbn [fold_left]. rewrite inra_true by lia. rewrite IHws; auto.
    + f_equal. lia.
    + intros; apply Hw; right; auto.
    + lia.
    + lia.
Qed.

Lemma amaxw_bound : forall ty ws, wfA ty -> 0 < alen ws -> 0 <= alen ws * amaxw ty ws <= amax ty.
Proof.
  unfold wfA, amaxw. intros ty ws wf Hn. destruct (Z.leb_spec (alen ws) (amax ty)).
  - split. apply Z.mul_nonneg_nonneg. lia. apply Z.div_pos; lia.
    apply Z.mul_div_le. lia.
  - lia.
Qed.

Lemma alias_new_ok : forall ty ws, wfA ty ->
  0 < alen ws -> alen ws <= SENT ->
  (forall w, In w ws -> 0 <= w <= amaxw ty ws) ->
  asum ws <> 0 ->
  exists t, alias_new ty ws = Ok t /\ Good ty ws t.
Proof.
  intros ty ws wf Hn0 Hn1 Hw Hs.
  pose proof (amaxw_bound ty ws wf Hn0) as Hmb.
  assert (Hw0 : forall w, In w ws -> 0 <= w) by (intros w Hi; apply Hw in Hi; lia).
  assert (Hs0 : 0 <= asum ws) by (apply asum_nonneg; auto).
  assert (Hsp : 0 < asum ws) by lia.
  assert (Hsb : asum ws <= amax ty).
  { pose proof (asum_le_all (amaxw ty ws) ws) as Hle. fold (alen ws) in Hle.
    assert (asum ws <= alen ws * amaxw ty ws) by (apply Hle; intros w Hi; apply Hw in Hi; lia).
    lia. }
  assert (Hwn : forall w, In w ws -> 0 <= w * alen ws <= amax ty).
  { intros w Hi. apply Hw in Hi. split. apply Z.mul_nonneg_nonneg; lia.
    assert (w * alen ws <= amaxw ty ws * alen ws) by (apply Z.mul_le_mono_nonneg_r; lia). lia. }
  assert (Hwi : forall i, (i < length ws)%nat -> 0 <= nth i ws 0 /\ alen ws * nth i ws 0 <= amax ty).
  { intros i Hi. assert (In (nth i ws 0) ws) by (apply nth_In; auto).
    split. apply Hw0; auto. rewrite Z.mul_comm. apply Hwn; auto. }
  unfold wfA in wf.
  set (N := length ws) in *.
  set (o := map (fun w => w * alen ws) ws).
  set (s0 := {| odds := o; al := map (fun _ : Z => 0) ws; smalls := []; bigs := [] |}).
  assert (Hlo : length o = N) by (unfold o; rewrite map_length; auto).
  assert (HP : PInv (asum ws) N o (fold_left (classify (asum ws)) (seq 0 N) s0) N).
  { apply pinv_init. rewrite map_length; auto. }
  assert (HI : Inv ty (asum ws) N (fun i => alen ws * nth i ws 0)
                   (fold_left (classify (asum ws)) (seq 0 N) s0) []).
  { eapply pinv_inv; eauto.
    - intros i Hi. unfold o. rewrite geti_map_scale. destruct (Hwi i Hi). split.
      apply Z.mul_nonneg_nonneg; lia. lia.
    - rewrite <- Hlo at 1. rewrite zsumf_geti_seq. unfold o. rewrite asum_map_scale.
      unfold alen. reflexivity.
    - intros i Hi. unfold o. rewrite geti_map_scale. lia. }
  destruct (pair_loop_ok ty (asum ws) N _ wf Hsp N _ _ HI) as (s2 & dn & Epl & HI2 & Hex).
  { pose proof (Permutation_length (inv_perm _ _ _ _ _ _ HI)) as L.
    rewrite !app_length, seq_length in L. simpl in L. lia. }
  destruct (inv_exit ty (asum ws) N _ s2 dn HI2 Hex) as (Esm & Hbig).
  destruct (drain_id (asum ws) s2 Esm Hbig) as (Edo & Eda).
  destruct HI2 as [I1 I2 I3 I4 I5 I6 I7 I8].
  unfold alias_new. cbv zeta. fold (alen ws).
  assert (E1 : (alen ws =? 0) || (SENT <? alen ws) = false).
  { apply orb_false_iff. split. apply Z.eqb_neq; lia. apply Z.ltb_ge; lia. }
  rewrite E1.
  assert (E2 : forallb (fun w => (0 <=? w) && (w <=? (if alen ws <=? amax ty then amax ty / alen ws else 0))) ws = true).
  { apply forallb_forall. intros w Hi. apply Hw in Hi. unfold amaxw in Hi.
    apply andb_true_iff. split; apply Z.leb_le; lia. }
  rewrite E2. cbn [negb].
  unfold zsum_chk. rewrite (zsum_chk_ok ty ws 0) by (auto; lia). rewrite Z.add_0_l.
  assert (E3 : (asum ws =? 0) = false) by (apply Z.eqb_neq; auto).
  rewrite E3.
  assert (E4 : forallb (fun w => inra ty (w * alen ws)) ws = true).
  { apply forallb_forall. intros w Hi. apply inra_true. apply Hwn in Hi. lia. }
  rewrite E4. cbn [negb].
  fold N. fold o. fold s0. rewrite Epl.
  eexists. split. reflexivity.
  constructor; cbn [t_sum t_odds t_al]; rewrite ?Edo, ?Eda; auto.
  exists (bigs s2), dn. rewrite Esm in I3. simpl in I3. repeat split; auto; apply I6; auto.
Qed.

(* ---------- error characterisation ---------- *)

Definition bad_len (ws : list Z) : Prop := alen ws = 0 \/ alen ws > 4294967295.
Definition bad_w (ty : aty) (ws : list Z) : Prop :=
  exists w, In w ws /\ (w < 0 \/ w > amaxw ty ws).

Lemma alias_new_err_len : forall ty ws, bad_len ws -> alias_new ty ws = Err InvalidInput.
Proof.
  intros ty ws H. unfold alias_new. cbv zeta. fold (alen ws).
  assert (E1 : (alen ws =? 0) || (SENT <? alen ws) = true).
  { apply orb_true_iff. destruct H; [left; apply Z.eqb_eq | right; apply Z.ltb_lt]; auto.
    unfold SENT. lia. }
  rewrite E1. reflexivity.
Qed.

Lemma not_bad_len : forall ws, ~ bad_len ws -> 0 < alen ws /\ alen ws <= SENT.
Proof. unfold bad_len, SENT, alen. intros. lia. Qed.

Lemma alias_new_err_w : forall ty ws, ~ bad_len ws -> bad_w ty ws ->
  alias_new ty ws = Err InvalidWeight.
Proof.
  intros ty ws H (w & Hi & Hb). apply not_bad_len in H.
  unfold alias_new. cbv zeta. fold (alen ws).
  assert (E1 : (alen ws =? 0) || (SENT <? alen ws) = false).
  { apply orb_false_iff. split. apply Z.eqb_neq; lia. apply Z.ltb_ge; lia. }
  rewrite E1.
  assert (E2 : forallb (fun w => (0 <=? w) && (w <=? (if alen ws <=? amax ty then amax ty / alen ws else 0))) ws = false).
  { destruct (forallb _ ws) eqn:E; auto. exfalso.
    rewrite forallb_forall in E. specialize (E w Hi). apply andb_true_iff in E.
    destruct E as [E E']. apply Z.leb_le in E, E'. unfold amaxw in Hb. lia. }
  rewrite E2. reflexivity.
Qed.

Lemma not_bad_w : forall ty ws, ~ bad_w ty ws -> forall w, In w ws -> 0 <= w <= amaxw ty ws.
Proof.
  intros ty ws H w Hi. assert (~ (w < 0 \/ w > amaxw ty ws)).
  { intro. apply H. exists w; auto. }
  lia.
Qed.

Lemma alias_new_err_zero : forall ty ws, wfA ty -> ~ bad_len ws -> ~ bad_w ty ws -> asum ws = 0 ->
  alias_new ty ws = Err InsufficientNonZero.
Proof.
  intros ty ws wf H Hb Hz. apply not_bad_len in H. pose proof (not_bad_w ty ws Hb) as Hw.
  unfold alias_new. cbv zeta. fold (alen ws).
  assert (E1 : (alen ws =? 0) || (SENT <? alen ws) = false).
  { apply orb_false_iff. split. apply Z.eqb_neq; lia. apply Z.ltb_ge; lia. }
  rewrite E1.
  assert (E2 : forallb (fun w => (0 <=? w) && (w <=? (if alen ws <=? amax ty then amax ty / alen ws else 0))) ws = true).
  { apply forallb_forall. intros w Hi. apply Hw in Hi. unfold amaxw in Hi.
    apply andb_true_iff. split; apply Z.leb_le; lia. }
  rewrite E2. cbn [negb].
  unfold zsum_chk. rewrite (zsum_chk_ok ty ws 0); auto; try lia.
  - rewrite Z.add_0_l, Hz. reflexivity.
  - intros w Hi. apply Hw in Hi. lia.
  - unfold wfA in wf. lia.
Qed.

Theorem alias_new_errors : forall ty ws, wfA ty ->
  (bad_len ws -> alias_new ty ws = Err InvalidInput) /\
  (~ bad_len ws -> bad_w ty ws -> alias_new ty ws = Err InvalidWeight) /\
  (~ bad_len ws -> ~ bad_w ty ws -> asum ws = 0 -> alias_new ty ws = Err InsufficientNonZero) /\
  (~ bad_len ws -> ~ bad_w ty ws -> asum ws <> 0 -> exists t, alias_new ty ws = Ok t).
Proof.
  intros ty ws wf. split; [|split; [|split]].
  - apply alias_new_err_len.
  - apply alias_new_err_w.
  - apply alias_new_err_zero; auto.
  - intros H Hb Hs. apply not_bad_len in H.
    destruct (alias_new_ok ty ws wf) as (t & E & _); try tauto.
    apply not_bad_w; auto. exists t; auto.
Qed.

(* every successful construction satisfies Good *)
Lemma alias_new_good : forall ty ws t, wfA ty -> alias_new ty ws = Ok t -> Good ty ws t.
Proof.
  intros ty ws t wf E.
  assert (H1 : ~ bad_len ws).
  { intro H. rewrite (alias_new_err_len ty ws H) in E. discriminate. }
  assert (H2 : ~ bad_w ty ws).
  { intro H. rewrite (alias_new_err_w ty ws H1 H) in E. discriminate. }
  assert (H3 : asum ws <> 0).
  { intro H. rewrite (alias_new_err_zero ty ws wf H1 H2 H) in E. discriminate. }
  apply not_bad_len in H1.
  destruct (alias_new_ok ty ws wf) as (t' & E' & G); try tauto.
  apply not_bad_w; auto.
  rewrite E in E'. inversion E'; subst; auto.
Qed.
