(* Proofs/SupportDiscrete.v — property C03 on the EXECUTABLE discrete sampler models of
   Model/Discrete.v (the decision trees that the correspondence check runs against the crate):
   under the exact real semantics, for every word list, every value a model can return lies in the
   support of the distribution, and the failure code 3 (the places where the code would panic:
   u64 underflow, f64_to_u64 assertion, `1 << 64`, overflowing add) is unreachable.

   `allout P Q r` (Proofs/LoopBounds.v): every returned value satisfies P and every reachable failure
   code satisfies Q.  Failure codes 1 (the explicit word list ran out) and 2 (loop fuel of the model)
   are not panics of the code and are allowed here; C05 bounds them separately.                     *)
From Coq Require Import Reals ZArith List Lra Lia Bool.
From Interval Require Import Xreal.
From Flocq Require Import Core.
From RD Require Import Base.Expr Base.Run Model.Sampler Model.Continuous Model.Discrete
  Proofs.LawsInvCdf Proofs.RunSound Proofs.Support Proofs.LoopBounds Proofs.PmfZeta Proofs.PmfZipf.
Import ListNotations.
Open Scope Z_scope.
Open Scope sampler_scope.

Local Notation "a +. b" := (Bin Add a b) (at level 50, left associativity).
Local Notation "a -. b" := (Bin Sub a b) (at level 50, left associativity).
Local Notation "a *. b" := (Bin Mul a b) (at level 40, left associativity).
Local Notation "a /. b" := (Bin Div a b) (at level 40, left associativity).

Definition nopanic (c : Z) : Prop := c <> 3.

Lemma nopanic1 : nopanic 1. Proof. discriminate. Qed.
Lemma nopanic2 : nopanic 2. Proof. discriminate. Qed.
#[local] Hint Resolve nopanic1 nopanic2 : core.

(* ================================================================================================ *)
(* Geometric                                                                                         *)

Lemma geo_trivial_spec fuel : forall p failures ws,
  allout (fun q => failures <= fst q <= failures + Z.of_nat fuel) nopanic (geo_trivial fuel p failures ws).
Proof.
  induction fuel as [|f IH]; intros p failures ws; [exact nopanic2|].
  destruct ws as [|w ws]; cbn [geo_trivial]; lstep; [exact nopanic1|].
  intros x y _ _. destruct (rcmp CLe x y); lstep; [lia|].
  eapply allout_mono; [| |apply IH]; [|auto]. intros [r rest]; cbn [fst]. lia.
Qed.

Lemma geo_d_spec fuel : forall pi failures ws,
  allout (fun q => failures <= fst q <= failures + Z.of_nat fuel) nopanic (geo_d fuel pi failures ws).
Proof.
  induction fuel as [|f IH]; intros pi failures ws; [exact nopanic2|].
  destruct ws as [|w ws]; cbn [geo_d]; lstep; [exact nopanic1|].
  intros x y _ _. destruct (rcmp CLt x y); lstep; [|lia].
  eapply allout_mono; [| |apply IH]; [|auto]. intros [r rest]; cbn [fst]. lia.
Qed.

Lemma geo_m_spec fuel : forall p k ws, 0 <= k ->
  allout (fun q => 0 <= fst q < 2 ^ k) nopanic (geo_m fuel p k ws).
Proof.
  induction fuel as [|f IH]; intros p k ws Hk; [exact nopanic2|].
  destruct ws as [|w [|w2 ws]]; cbn [geo_m]; lstep; [exact nopanic1|exact nopanic1|].
  intros x y _ _. destruct (rcmp CLt x y); lstep.
  - apply Z.mod_pos_bound. apply Z.pow_pos_nonneg; lia.
  - apply IH, Hk.
Qed.

(* (d << k) + m with m < 2^k cannot overflow: (d * 2^k) mod 2^64 is a multiple of 2^k *)
Lemma shl_add_range d k m : 0 <= d -> 0 <= k < 64 -> 0 <= m < 2 ^ k -> 0 <= (d * 2 ^ k) mod 2 ^ 64 + m < 2 ^ 64.
Proof.
  intros Hd Hk Hm.
  replace (2 ^ 64) with (2 ^ (64 - k) * 2 ^ k) by (rewrite <- Z.pow_add_r by lia; f_equal; lia).
  assert (0 < 2 ^ k) by (apply Z.pow_pos_nonneg; lia).
  assert (0 < 2 ^ (64 - k)) by (apply Z.pow_pos_nonneg; lia).
  rewrite Z.mul_mod_distr_r by lia.
  pose proof (Z.mod_pos_bound d (2 ^ (64 - k)) ltac:(lia)). nia.
Qed.

(* Geometric(p), 0 < p <= 1: a u64 without panic (the shift `1 << k` has k <= 54; `(d << k) + m` fits) *)
Theorem geometric_support p ws : (0 < dyR p <= 1)%R ->
  allout (fun q => 0 <= fst q < 2 ^ 64) nopanic (geometric p ws).
Proof.
  intros Hp. unfold geometric. lstep. intros x y _ _. destruct (rcmp CGe x y).
  - eapply allout_mono; [| |apply geo_trivial_spec]; [|auto]. intros [r rest]; cbn [fst]. lia.
  - destruct (rounds_to_one p) eqn:R1; lstep; [unfold U64MAX; lia|].
    apply rounds_to_one_false in R1.
    eapply allout_sbind; [apply (geo_new_loop_model p ws); lra|intros c []|].
    intros [pi k] ws1; cbn [fst snd]. intros [Hk ->].
    destruct (Z.leb_spec 64 k) as [L|L]; [lia|].
    eapply allout_sbind; [apply geo_d_spec|auto|]. intros d ws2; cbn [fst]. intros Hd.
    eapply allout_sbind; [apply (geo_m_spec 256 (dyx p) k ws2); lia|auto|]. intros m ws3; cbn [fst]. intros Hm.
    pose proof (shl_add_range d k m ltac:(lia) ltac:(lia) Hm) as Hr.
    destruct (Z.ltb_spec ((d * 2 ^ k) mod 2 ^ 64 + m) (2 ^ 64)) as [L2|L2]; lstep; [cbn [fst]; lia|lia].
Qed.

(* StandardGeometric: nonnegative, below 64 * 64 (C05 gives the word count) *)
Theorem std_geometric_support ws : Forall word ws ->
  allout (fun q => 0 <= fst q < 64 * 64) nopanic (std_geometric ws).
Proof.
  intros Hw. apply allout_spec. split.
  - intros [x rest] E. apply (std_geometric_words ws x rest Hw E).
  - intros c F. destruct (allout_fails _ _ _ _ (std_geometric_loop_spec 64 0 ws Hw) F) as [(-> & _)|(-> & _)]; auto.
Qed.

(* ================================================================================================ *)
(* Zeta                                                                                              *)
Local Open Scope R_scope.

Lemma sm1_eval s : evalX (dyx s -. one) = Xreal (dyR s - 1).
Proof. cbn [evalX xbin]. rewrite dyx_eval, one_eval. reflexivity. Qed.

Lemma zeta_proposal_eval t s w v : 1 < dyR s -> word w ->
  evalX (epow (u_oc t w) (num (-1) /. (dyx s -. one))) = Xreal v -> 1 <= v.
Proof.
  intros Hs Hw. unfold epow. cbn [evalX xbin]. rewrite u_oc_eval, num_eval, dyx_eval, one_eval.
  change (Xreal (dyR s) - Xreal 1)%XR with (Xreal (dyR s - 1)). rewrite Xdiv_nz by lra.
  pose proof (uR_oc_range t w Hw) as Hu. rewrite Xpow_pos by lra. intros H. injection H as <-.
  apply (zeta_proposal_ge_1 (dyR s) (uR_oc t w)); [exact Hs|exact Hu].
Qed.

Local Open Scope Z_scope.

Lemma zeta_loop_spec fuel : forall t s b ws, (1 < dyR s)%R -> Forall word ws ->
  allout (fun q => fst q = -1 \/ 1 <= fst q) nopanic (zeta_loop fuel t (dyx s -. one) b ws).
Proof.
  induction fuel as [|f IH]; intros t s b ws Hs Hw; [exact nopanic2|].
  destruct ws as [|w ws]; cbn [zeta_loop]; lstep; [exact nopanic1|].
  inversion Hw as [|? ? Hw0 Hws]; subst.
  intros x y Ex _. destruct (rcmp CGe x y); lstep; [left; reflexivity|].
  unfold sfloor. cbn [allout bind]. intros x0 Ex0. rewrite Ex in Ex0. injection Ex0 as <-.
  pose proof (zeta_proposal_eval t s w x Hs Hw0 Ex) as Hx.
  assert (1 <= Zfloor x) by (apply Zfloor_lub; exact Hx).
  destruct ws as [|w2 ws2]; lstep; [exact nopanic1|].
  inversion Hws; subst.
  intros x1 y1 _ _. destruct (rcmp CLe x1 y1); lstep; [right; assumption|].
  apply IH; assumption.
Qed.

(* Zeta(s), s > 1: a positive integer, or -1 standing for the documented +infinity of the proposal *)
Theorem zeta_support t s ws : (1 < dyR s)%R -> Forall word ws ->
  allout (fun q => fst q = -1 \/ 1 <= fst q) nopanic (zeta t s ws).
Proof. intros Hs Hw. unfold zeta. apply zeta_loop_spec; assumption. Qed.

(* ================================================================================================ *)
(* Zipf                                                                                              *)
Local Open Scope R_scope.

(* strict versions of zipf_inv_le_n_*: below the total hat mass t the inverse stays below n *)
Lemma zipf_inv_lt_n_ne1 n s pt : s <> 1 -> 0 <= s -> 1 <= n -> 1 < pt < zipf_t_ne1 n s ->
  1 < Rpower (pt * (1 - s) + s) (1 / (1 - s)) < n.
Proof.
  intros Hs Hs0 Hn Hpt.
  assert (Hbase := zipf_inv_base_pos n s pt Hs Hs0 Hn ltac:(lra)).
  pose proof (zipf_inv_cdf_ne1 s pt Hs ltac:(lra) Hbase) as [H1 _]. unfold zipf_inv_ne1 in H1.
  destruct (Rle_dec pt 1); [lra|]. split; [exact H1|].
  unfold zipf_t_ne1 in Hpt. set (P := Rpower n (1 - s)) in * .
  assert (HP : 0 < P) by apply Rpower_pos.
  assert (Hn1 : Rpower P (1 / (1 - s)) = n).
  { unfold P. rewrite Rpower_mult. replace ((1 - s) * (1 / (1 - s))) with 1 by (field; lra).
    apply Rpower_1. lra. }
  destruct (Rlt_le_dec s 1) as [Hlt|Hge].
  - assert (HB : pt * (1 - s) + s < P).
    { destruct Hpt as [_ Hpt]. apply Rmult_lt_compat_r with (r := 1 - s) in Hpt; [|lra].
      replace ((P - s) * (1 / (1 - s)) * (1 - s)) with (P - s) in Hpt by (field; lra). lra. }
    rewrite <- Hn1. apply Rlt_Rpower_l; [|lra]. apply Rdiv_lt_0_compat; lra.
  - assert (HB : P < pt * (1 - s) + s).
    { destruct Hpt as [_ Hpt]. apply Rmult_lt_compat_r with (r := s - 1) in Hpt; [|lra].
      replace ((P - s) * (1 / (1 - s)) * (s - 1)) with (s - P) in Hpt by (field; lra). lra. }
    rewrite <- Hn1. replace (1 / (1 - s)) with (- (1 / (s - 1))) by (field; lra).
    apply Rpower_neg_lt; [|lra]. apply Rdiv_lt_0_compat; lra.
Qed.

Lemma zipf_inv_lt_n_eq1 n pt : 1 <= n -> 1 < pt < zipf_t_eq1 n -> 1 < exp (pt - 1) < n.
Proof.
  intros Hn Hpt. unfold zipf_t_eq1 in Hpt. split.
  - pose proof (exp_increasing 0 (pt - 1) ltac:(lra)) as H. rewrite exp_0 in H. exact H.
  - pose proof (exp_increasing (pt - 1) (ln n) ltac:(lra)) as H. rewrite exp_ln in H by lra. exact H.
Qed.

(* t >= 1, and t = 1 when n = 1 *)
Lemma zipf_t_ne1_ge_1 n s : s <> 1 -> 1 <= n -> 1 <= zipf_t_ne1 n s.
Proof.
  intros Hs Hn. unfold zipf_t_ne1.
  destruct (Rlt_le_dec s 1) as [Hlt|Hge].
  - assert (1 <= Rpower n (1 - s)).
    { pose proof (Rle_Rpower_l 1 n (1 - s) ltac:(lra) ltac:(lra)) as H. rewrite Rpower_1_base in H. exact H. }
    apply Rmult_le_reg_r with (1 - s); [lra|].
    replace ((Rpower n (1 - s) - s) * (1 / (1 - s)) * (1 - s)) with (Rpower n (1 - s) - s) by (field; lra). lra.
  - assert (Rpower n (1 - s) <= 1).
    { pose proof (Rpower_neg_le 1 n (s - 1) ltac:(lra) ltac:(lra)) as H. rewrite Rpower_1_base in H.
      replace (1 - s) with (- (s - 1)) by ring. exact H. }
    apply Rmult_le_reg_r with (s - 1); [lra|].
    replace ((Rpower n (1 - s) - s) * (1 / (1 - s)) * (s - 1)) with (s - Rpower n (1 - s)) by (field; lra). lra.
Qed.
Lemma zipf_t_ne1_at_1 s : s <> 1 -> zipf_t_ne1 1 s = 1.
Proof. intros Hs. unfold zipf_t_ne1. rewrite Rpower_1_base. field. lra. Qed.
Lemma zipf_t_eq1_ge_1 n : 1 <= n -> 1 <= zipf_t_eq1 n.
Proof. intros Hn. unfold zipf_t_eq1. assert (0 <= ln n); [|lra]. destruct Hn as [Hn|<-]; [|rewrite ln_1; lra]. left. rewrite <- ln_1 at 1. apply ln_increasing; lra. Qed.
Lemma zipf_t_eq1_at_1 : zipf_t_eq1 1 = 1.
Proof. unfold zipf_t_eq1. rewrite ln_1. ring. Qed.

(* floor(y + 1) for 0 <= y < N, resp. 1 < y < N *)
Lemma floor_plus1_range y (N : Z) : 0 <= y < IZR N -> (1 <= Zfloor (y + 1) <= N)%Z.
Proof.
  intros [H0 H1]. split.
  - apply Zfloor_lub. simpl. lra.
  - assert (Zfloor (y + 1) < N + 1)%Z; [|lia]. apply lt_IZR. rewrite plus_IZR.
    apply Rle_lt_trans with (y + 1); [apply Zfloor_lb|simpl; lra].
Qed.

Section Zipf.
Variables (t : fty) (n s : Z * Z) (N : Z).
Hypothesis Hn : dyR n = IZR N.
Hypothesis HN : (1 <= N)%Z.
Hypothesis Hs : 0 <= dyR s.

Let s_is_1 := dy_eqb s (1%Z, 0%Z).
Let se := dyx s.
Let oms := one -. se.
Let q := if s_is_1 then num 0 else one /. oms.
Let tt := if s_is_1 then one +. eln (dyx n) else (epow (dyx n) oms -. se) *. q.
Let T : R := if s_is_1 then zipf_t_eq1 (IZR N) else zipf_t_ne1 (IZR N) (dyR s).

Lemma HN1 : 1 <= IZR N. Proof. apply (IZR_le 1). exact HN. Qed.

Lemma s_is_1_true : s_is_1 = true -> dyR s = 1.
Proof. intros H. apply dy_eqb_true in H. rewrite H. apply dyR_int. Qed.
Lemma s_is_1_false : s_is_1 = false -> dyR s <> 1.
Proof. intros H. apply dy_eqb_false in H. rewrite dyR_int in H. exact H. Qed.

Lemma oms_eval : evalX oms = Xreal (1 - dyR s).
Proof. unfold oms, se. cbn [evalX xbin]. rewrite one_eval, dyx_eval. reflexivity. Qed.

Lemma tt_eval : evalX tt = Xreal T.
Proof.
  pose proof HN1 as H1. unfold tt, T, q. destruct s_is_1 eqn:E.
  - unfold eln. cbn [evalX xbin xun]. rewrite one_eval, dyx_eval, Hn, Xln_pos by lra. reflexivity.
  - apply s_is_1_false in E. unfold epow. cbn [evalX xbin]. rewrite oms_eval, one_eval, dyx_eval, Hn.
    rewrite Xpow_pos by lra. rewrite Xdiv_nz by lra. unfold se. rewrite dyx_eval. reflexivity.
Qed.

Lemma T_ge_1 : 1 <= T.
Proof.
  pose proof HN1. unfold T. destruct s_is_1 eqn:E.
  - apply zipf_t_eq1_ge_1. assumption.
  - apply zipf_t_ne1_ge_1; [apply s_is_1_false, E|assumption].
Qed.
Lemma T_at_1 : N = 1%Z -> T = 1.
Proof.
  intros E1. unfold T. rewrite E1. destruct s_is_1 eqn:E.
  - apply zipf_t_eq1_at_1.
  - apply zipf_t_ne1_at_1. apply s_is_1_false, E.
Qed.

(* the proposal x = floor(inv_b + 1) *)
Lemma zipf_proposal_range w (le : bool) x pt :
  word w -> evalX (u_std t w *. tt) = Xreal pt -> le = rcmp CLe pt 1 ->
  evalX ((if le then u_std t w *. tt
          else if s_is_1 then eexp (u_std t w *. tt -. one) else epow (u_std t w *. tt *. oms +. se) q) +. one)
    = Xreal x -> (1 <= Zfloor x <= N)%Z.
Proof.
  intros Hw Ept Hle. pose proof HN1 as H1. pose proof T_ge_1 as HT.
  pose proof (uR_std_range t w Hw) as Hu.
  assert (pt = uR_std t w * T) as Hpt.
  { cbn [evalX xbin] in Ept. rewrite u_std_eval, tt_eval in Ept. cbn in Ept. now injection Ept as <-. }
  assert (0 <= pt < T) as Hr by (subst pt; nra).
  unfold rcmp in Hle. destruct (Rle_dec pt 1) as [L|L]; subst le.
  - (* inv_b = pt <= 1 *)
    cbn [evalX xbin]. cbn [evalX xbin] in Ept. rewrite Ept, one_eval. cbn. intros H. injection H as <-.
    destruct (Z.eq_dec N 1) as [E1|NE].
    + rewrite (T_at_1 E1) in Hr. apply floor_plus1_range. rewrite E1. simpl. lra.
    + assert (2 <= N)%Z as H2 by lia. apply (IZR_le 2) in H2.
      destruct (Req_dec pt 1) as [->|NE1].
      * replace (1 + 1) with (IZR 2) by (simpl; lra). rewrite Zfloor_IZR. lia.
      * apply floor_plus1_range. lra.
  - destruct s_is_1 eqn:E.
    + (* exp(pt - 1) *)
      unfold eexp. cbn [evalX xbin xun]. cbn [evalX xbin] in Ept. rewrite Ept, one_eval. cbn.
      intros H. injection H as <-. unfold T in Hr.
      pose proof (zipf_inv_lt_n_eq1 (IZR N) pt H1 ltac:(lra)). apply floor_plus1_range. lra.
    + (* (pt (1-s) + s)^(1/(1-s)) *)
      pose proof (s_is_1_false E) as Hs1. unfold T in Hr.
      pose proof (zipf_inv_lt_n_ne1 (IZR N) (dyR s) pt Hs1 Hs H1 ltac:(lra)) as Hi.
      assert (Hbase := zipf_inv_base_pos (IZR N) (dyR s) pt Hs1 Hs H1 ltac:(lra)).
      unfold epow, q. cbn [evalX xbin]. cbn [evalX xbin] in Ept. rewrite Ept, oms_eval, one_eval.
      unfold se. rewrite dyx_eval. rewrite Xdiv_nz by lra.
      change (Xreal pt * Xreal (1 - dyR s) + Xreal (dyR s))%XR with (Xreal (pt * (1 - dyR s) + dyR s)).
      rewrite Xpow_pos by exact Hbase. cbn. intros H. injection H as <-.
      apply floor_plus1_range. lra.
Qed.

Lemma zipf_loop_spec fuel : forall ws, Forall word ws ->
  allout (fun r => (1 <= fst r <= N)%Z) nopanic (zipf_loop fuel t s_is_1 se oms q tt ws).
Proof.
  induction fuel as [|f IH]; intros ws Hw; [exact nopanic2|].
  destruct ws as [|w ws]; cbn [zipf_loop]; lstep; [exact nopanic1|].
  inversion Hw as [|? ? Hw0 Hws]; subst.
  intros x y Ex Ey. rewrite one_eval in Ey. injection Ey as <-.
  unfold sfloor. cbn [allout bind]. intros x0 Ex0.
  pose proof (zipf_proposal_range w (rcmp CLe x 1) x0 x Hw0 Ex eq_refl Ex0) as Hx.
  destruct ws as [|w2 ws2]; lstep; [exact nopanic1|]. inversion Hws; subst.
  intros x1 y1 _ _. destruct (rcmp CLt x1 y1); lstep; [exact Hx|]. apply IH. assumption.
Qed.

(* ---- the acceptance event of the rejection-inversion loop on the model (C02) ---- *)
Definition zipf_inv (pt : R) : R := if s_is_1 then zipf_inv_eq1 pt else zipf_inv_ne1 (dyR s) pt.

Lemma zipf_invb_eval w (le : bool) pt :
  word w -> evalX (u_std t w *. tt) = Xreal pt -> le = rcmp CLe pt 1 ->
  evalX (if le then u_std t w *. tt
         else if s_is_1 then eexp (u_std t w *. tt -. one) else epow (u_std t w *. tt *. oms +. se) q) = Xreal (zipf_inv pt)
  /\ 0 <= pt < T.
Proof.
  intros Hw Ept Hle. pose proof HN1 as H1. pose proof T_ge_1 as HT.
  pose proof (uR_std_range t w Hw) as Hu.
  assert (pt = uR_std t w * T) as Hpt.
  { cbn [evalX xbin] in Ept. rewrite u_std_eval, tt_eval in Ept. cbn in Ept. now injection Ept as <-. }
  assert (0 <= pt < T) as Hr by (subst pt; nra). split; [|exact Hr].
  unfold zipf_inv, zipf_inv_eq1, zipf_inv_ne1. unfold rcmp in Hle. destruct (Rle_dec pt 1) as [L|L]; subst le.
  - destruct s_is_1; exact Ept.
  - destruct s_is_1 eqn:E.
    + unfold eexp. cbn [evalX xbin xun]. cbn [evalX xbin] in Ept. rewrite Ept, one_eval. reflexivity.
    + pose proof (s_is_1_false E) as Hs1. unfold T in Hr.
      assert (Hbase := zipf_inv_base_pos (IZR N) (dyR s) pt Hs1 Hs H1 ltac:(lra)).
      unfold epow, q. cbn [evalX xbin]. cbn [evalX xbin] in Ept. rewrite Ept, oms_eval, one_eval.
      unfold se. rewrite dyx_eval. rewrite Xdiv_nz by lra.
      change (Xreal pt * Xreal (1 - dyR s) + Xreal (dyR s))%XR with (Xreal (pt * (1 - dyR s) + dyR s)).
      rewrite Xpow_pos by exact Hbase. reflexivity.
Qed.

Lemma zipf_loop_event fuel : forall ws, Forall word ws ->
  allout (fun r => exists P Y, 0 <= P < 1 /\ 0 <= Y < 1 /\ fst r = Zfloor (zipf_inv (P * T) + 1) /\ (1 <= fst r <= N)%Z /\
                   Y < zipf_ratio (dyR s) (IZR (fst r)) (zipf_inv (P * T)))
         nopanic (zipf_loop fuel t s_is_1 se oms q tt ws).
Proof.
  induction fuel as [|f IH]; intros ws Hw; [exact nopanic2|].
  destruct ws as [|w ws]; cbn [zipf_loop]; lstep; [exact nopanic1|].
  apply Forall_cons_iff in Hw. destruct Hw as [Hw0 Hws].
  pose proof (uR_std_range t w Hw0) as HP.
  intros pt y1 Ept Ey. rewrite one_eval in Ey. assert (y1 = 1) as -> by congruence. clear Ey.
  destruct (zipf_invb_eval w (rcmp CLe pt 1) pt Hw0 Ept eq_refl) as [Einv Hr].
  assert (pt = uR_std t w * T) as Hpt.
  { cbn [evalX xbin] in Ept. rewrite u_std_eval, tt_eval in Ept. cbn in Ept. now injection Ept as <-. }
  set (invb := if rcmp CLe pt 1 then u_std t w *. tt
               else if s_is_1 then eexp (u_std t w *. tt -. one) else epow (u_std t w *. tt *. oms +. se) q) in * .
  unfold sfloor. cbn [allout bind]. intros x0 Ex0.
  assert (x0 = zipf_inv pt + 1) as Hx0.
  { change (evalX (invb +. one)) with (Xadd (evalX invb) (evalX one)) in Ex0. rewrite Einv, one_eval in Ex0. cbn in Ex0. congruence. }
  pose proof (zipf_proposal_range w (rcmp CLe pt 1) x0 pt Hw0 Ept eq_refl) as Hx.
  assert (1 <= Zfloor x0 <= N)%Z as Hxr.
  { apply Hx. exact Ex0. }
  clear Hx. set (x := Zfloor x0) in * .
  assert (1 <= IZR x) as HxR by (apply (IZR_le 1); lia).
  (* value of the ratio *)
  assert (Eratio : evalX (if (1 <? x)%Z then epow (num x) (eneg se) *. epow invb se else epow (num x) (eneg se))
                   = Xreal (zipf_ratio (dyR s) (IZR x) (zipf_inv pt))).
  { assert (E0 : evalX (epow (num x) (eneg se)) = Xreal (Rpower (IZR x) (- dyR s))).
    { unfold epow, eneg, se. cbn [evalX xbin xun]. rewrite num_eval, dyx_eval. cbn [Xneg]. rewrite Xpow_pos by lra. reflexivity. }
    unfold zipf_ratio. destruct (Z.ltb_spec 1 x) as [L|L].
    - assert (1 < IZR x) by (apply (IZR_lt 1); exact L). destruct (Rlt_dec 1 (IZR x)); [|lra].
      assert (1 <= zipf_inv pt) as Hi.
      { assert (2 <= x)%Z as L2 by lia. apply (IZR_le 2) in L2.
        pose proof (Zfloor_lb x0). fold x in H0. lra. }
      change (evalX (epow (num x) (eneg se) *. epow invb se)) with (Xmul (evalX (epow (num x) (eneg se))) (Xpow (evalX invb) (evalX se))).
      rewrite E0, Einv. unfold se. rewrite dyx_eval, Xpow_pos by lra. reflexivity.
    - assert (IZR x <= 1) by (apply (IZR_le x 1); exact L). destruct (Rlt_dec 1 (IZR x)); [lra|]. exact E0. }
  destruct ws as [|w2 ws2]; lstep; [exact nopanic1|]. apply Forall_cons_iff in Hws. destruct Hws as [Hw2 Hws2].
  pose proof (uR_std_range t w2 Hw2) as HY.
  intros yv rv Eyv Erv. rewrite u_std_eval in Eyv. assert (yv = uR_std t w2) as -> by congruence. clear Eyv.
  fold invb in Erv. rewrite Eratio in Erv. assert (rv = zipf_ratio (dyR s) (IZR x) (zipf_inv pt)) as -> by congruence. clear Erv.
  destruct (rcmp CLt (uR_std t w2) (zipf_ratio (dyR s) (IZR x) (zipf_inv pt))) eqn:R1; lstep; [|apply IH, Hws2].
  unfold rcmp in R1. destruct (Rlt_dec (uR_std t w2) (zipf_ratio (dyR s) (IZR x) (zipf_inv pt))) as [G|]; [|discriminate].
  cbv beta. cbn [fst]. exists (uR_std t w), (uR_std t w2). rewrite <- Hpt. rewrite <- Hx0.
  split; [exact HP|]. split; [exact HY|]. split; [reflexivity|]. split; [exact Hxr|exact G].
Qed.

Theorem zipf_event ws : Forall word ws ->
  allout (fun r => exists P Y, 0 <= P < 1 /\ 0 <= Y < 1 /\ fst r = Zfloor (zipf_inv (P * T) + 1) /\ (1 <= fst r <= N)%Z /\
                   Y < zipf_ratio (dyR s) (IZR (fst r)) (zipf_inv (P * T)))
         nopanic (zipf t n s ws).
Proof. intros Hw. unfold zipf. apply zipf_loop_event. exact Hw. Qed.

(* Zipf(n, s) for an integer n >= 1 and s >= 0: an integer in [1, n] (ideal model; the float program
   can return n + 1 on the largest draws: finding F6) *)
Theorem zipf_support ws : Forall word ws ->
  allout (fun r => (1 <= fst r <= N)%Z) nopanic (zipf t n s ws).
Proof. intros Hw. unfold zipf. apply zipf_loop_spec. exact Hw. Qed.
End Zipf.
Local Open Scope Z_scope.

(* ================================================================================================ *)
(* Poisson                                                                                           *)

Lemma knuth_loop_spec fuel : forall t el p result ws,
  allout (fun q => result - 1 <= fst q) nopanic (knuth_loop fuel t el p result ws).
Proof.
  induction fuel as [|f IH]; intros t el p result ws; [exact nopanic2|].
  cbn [knuth_loop]. lstep. intros x y _ _. destruct (rcmp CGt x y); lstep; [|lia].
  destruct ws as [|w ws]; lstep; [exact nopanic1|].
  eapply allout_mono; [| |apply IH]; [|auto]. intros [r rest]; cbn [fst]. lia.
Qed.
Lemma knuth_spec t lambda ws : allout (fun q => 0 <= fst q) nopanic (knuth t lambda ws).
Proof.
  unfold knuth. destruct ws as [|w ws]; lstep; [exact nopanic1|].
  eapply allout_mono; [| |apply knuth_loop_spec]; [|auto]. intros [r rest]; cbn [fst]. lia.
Qed.

(* the ziggurat primitives of Model/Continuous.v never reach a panic leaf *)
Lemma norm_tail_spec fuel : forall ws, allout (fun _ => True) nopanic (norm_tail fuel ws).
Proof.
  induction fuel as [|f IH]; intros ws; [exact nopanic2|].
  destruct ws as [|w1 [|w2 ws]]; cbn [norm_tail]; lstep; [exact nopanic1|exact nopanic1|].
  intros x y _ _. destruct (rcmp CLt x y); lstep; [apply IH|exact I].
Qed.
Lemma norm_zero_spec um u ws : allout (fun _ => True) nopanic (norm_zero um u ws).
Proof.
  unfold norm_zero. eapply allout_sbind; [apply norm_tail_spec|auto|].
  intros x ws' _. destruct (um <? 0); lstep; exact I.
Qed.
Lemma exp_zero_spec um u ws : allout (fun _ => True) nopanic (exp_zero um u ws).
Proof. unfold exp_zero. destruct ws as [|w ws]; lstep; [exact nopanic1|exact I]. Qed.
Lemma zig_spec fuel sym X Fv pdf zc : (forall um u ws, allout (fun _ => True) nopanic (zc um u ws)) ->
  forall ws, allout (fun _ => True) nopanic (zig fuel sym X Fv pdf zc ws).
Proof.
  intros Hz. induction fuel as [|f IH]; intros ws; [exact nopanic2|].
  destruct ws as [|w ws]; cbn [zig]; lstep; [exact nopanic1|].
  intros x y _ _. destruct (rcmp CLt x y); lstep; [exact I|].
  destruct (Z.to_nat (w mod 256)) eqn:Ei; [apply Hz|].
  destruct ws as [|w2 ws2]; lstep; [exact nopanic1|].
  intros x1 y1 _ _. destruct (rcmp CLt x1 y1); lstep; [exact I|apply IH].
Qed.
Lemma std_normal_spec t ws : allout (fun _ => True) nopanic (std_normal t ws).
Proof.
  destruct t; cbn [std_normal].
  - eapply allout_sbind; [apply zig_spec, norm_zero_spec|auto|]. intros; lstep; exact I.
  - apply zig_spec, norm_zero_spec.
Qed.
Lemma exp1_spec t ws : allout (fun _ => True) nopanic (exp1 t ws).
Proof.
  destruct t; cbn [exp1].
  - eapply allout_sbind; [apply zig_spec, exp_zero_spec|auto|]. intros; lstep; exact I.
  - apply zig_spec, exp_zero_spec.
Qed.

Lemma rnd_eval e : evalX (rnd e) = evalX e. Proof. reflexivity. Qed.
Lemma cst_eval t e : evalX (cst t e) = evalX e. Proof. destruct t; reflexivity. Qed.
Lemma dec_eval d k : (0 <= k)%Z -> evalX (dec d k) = Xreal (IZR d / IZR (10 ^ k)).
Proof.
  intros Hk. unfold dec. cbn [evalX xbin]. rewrite !num_eval. apply Xdiv_nz.
  apply not_0_IZR. pose proof (Z.pow_pos_nonneg 10 k ltac:(lia) Hk). lia.
Qed.

Lemma pd_f_spec t P k ws : 0 <= k -> allout (fun _ => True) nopanic (pd_f t P k ws).
Proof.
  intros Hk. unfold pd_f. destruct (Z.ltb_spec k 0) as [L|L]; [lia|].
  destruct (k <? 10); lstep; [exact I|]. intros x y _ _. lstep. exact I.
Qed.

Section PD.
Variables (t : fty) (P : pd_consts) (L : R).
Hypothesis HL : (12 <= L)%R.
Hypothesis Hlam : evalX (pd_lambda P) = Xreal L.
Hypothesis Hs : evalX (pd_s P) = Xreal (sqrt L).

Lemma pd_floor_nonneg x : (- (6744 / 10 ^ 4) < x)%R -> (0 <= L + sqrt L * x)%R.
Proof.
  intros Hx. pose proof (sqrt_sqrt L ltac:(lra)) as SS. pose proof (sqrt_pos L) as S0.
  assert (1 <= sqrt L)%R.
  { destruct (Rle_lt_dec 1 (sqrt L)) as [H|H]; [exact H|]. exfalso. nra. }
  nra.
Qed.

Lemma pd_loop_spec fuel : forall ws, allout (fun q => 0 <= fst q) nopanic (pd_loop fuel t P ws).
Proof.
  induction fuel as [|f IH]; intros ws; [exact nopanic2|].
  cbn [pd_loop]. eapply allout_sbind; [apply exp1_spec|auto|]. intros e ws1 _.
  destruct ws1 as [|w ws2]; lstep; [exact nopanic1|].
  match goal with |- forall x y, evalX ?T = _ -> _ => remember T as tt eqn:Htt end. clear Htt.
  intros x y Ex Ey. unfold rcmp. destruct (Rlt_dec y x) as [Lt|Lt]; [|apply IH].
  rewrite cst_eval in Ey. unfold eneg in Ey. cbn [evalX xun] in Ey. rewrite dec_eval in Ey by lia.
  cbn in Ey. injection Ey as <-.
  unfold sfloor. cbn [sbind bind allout]. intros z Ez.
  cbn [evalX xbin] in Ez. rewrite Hlam, Hs, Ex in Ez. cbn in Ez. injection Ez as <-.
  assert (0 <= Zfloor (L + sqrt L * x)) as Hk.
  { apply Zfloor_lub. simpl. apply pd_floor_nonneg. simpl in Lt. lra. }
  eapply allout_sbind; [apply pd_f_spec, Hk|auto|]. intros [[[px py] fx] fy] ws3 _.
  lstep. intros x1 y1 _ _. destruct (rcmp CLe x1 y1); lstep; [exact Hk|apply IH].
Qed.

Lemma pd_sample_spec ws : allout (fun q => 0 <= fst q) nopanic (pd_sample t P ws).
Proof.
  unfold pd_sample. eapply allout_sbind; [apply std_normal_spec|auto|]. intros z ws1 _.
  lstep. intros x y Ex Ey. rewrite num_eval in Ey. injection Ey as <-.
  unfold rcmp. destruct (Rle_dec 0 x) as [G|G]; [|apply pd_loop_spec].
  unfold sfloor. cbn [sbind bind allout]. intros x' Ex'. rewrite Ex in Ex'. injection Ex' as <-.
  assert (0 <= Zfloor x) as Hk by (apply Zfloor_lub; exact G).
  destruct (pd_l P <=? Zfloor x); lstep; [exact Hk|].
  destruct ws1 as [|w ws2]; lstep; [exact nopanic1|].
  intros x1 y1 _ _. destruct (rcmp CGe x1 y1); lstep; [exact Hk|].
  eapply allout_sbind; [apply pd_f_spec, Hk|auto|]. intros [[[px py] fx] fy] ws3 _.
  lstep. intros x2 y2 _ _. destruct (rcmp CLe x2 y2); lstep; [exact Hk|apply pd_loop_spec].
Qed.
End PD.

Lemma sqrt_eval e x : evalX e = Xreal x -> (0 <= x)%R -> evalX (esqrt e) = Xreal (sqrt x).
Proof.
  intros E Hx. unfold esqrt. cbn [evalX xun]. rewrite E. unfold Xsqrt. cbn. unfold Xsqrt'.
  destruct (is_negative_spec x); [lra|reflexivity].
Qed.

(* Poisson(lambda), lambda > 0: a nonnegative integer; the factorial-table index of step F is in range *)
Theorem poisson_support t lambda ws : (0 < dyR lambda)%R ->
  allout (fun q => 0 <= fst q) nopanic (poisson t lambda ws).
Proof.
  intros Hl. unfold poisson. destruct (dy_ltb lambda (12, 0)) eqn:E; [apply knuth_spec|].
  apply dy_ltb_false in E. rewrite dyR_int in E.
  unfold pd_new. unfold sfloor at 1. cbn [sbind bind allout]. intros x _. lstep.
  apply (pd_sample_spec t _ (dyR lambda) E); cbn [pd_lambda pd_s].
  - apply dyx_eval.
  - apply sqrt_eval; [apply dyx_eval|lra].
Qed.

(* ================================================================================================ *)
(* Binomial: BINV                                                                                    *)
From RD Require Import Proofs.PmfBinomial Proofs.PmfRatioModel.
Local Open Scope R_scope.

Lemma psum_sum_f_R0 f n : psum f (S n) = sum_f_R0 f n.
Proof. induction n as [|n IH]; [cbn; ring|]. cbn [psum sum_f_R0] in * . rewrite IH. reflexivity. Qed.

Lemma binv_r_total (n : nat) p : 0 < p < 1 -> psum (binv_r n p) (S n) = 1.
Proof.
  intros Hp. rewrite <- (binom_pmf_total n p), <- psum_sum_f_R0.
  assert (forall y, (y <= S n)%nat ->
            psum (binv_r n p) y = psum (fun j => C n j * p ^ j * (1 - p) ^ (n - j)) y) as Hps.
  { induction y as [|y IH]; intros Hy; [reflexivity|]. cbn [psum].
    rewrite IH by lia. rewrite binv_recurrence by (try assumption; lia). reflexivity. }
  apply Hps. lia.
Qed.

(* in exact arithmetic the walk of BINV stops inside the support: u0 < 1 = r_0 + ... + r_n *)
Lemma binv_inner_le_n (n : nat) p : 0 < p < 1 -> forall fuel a s u r (x : nat) ws U0,
  evalX a = Xreal ((INR n + 1) * (p / (1 - p))) -> evalX s = Xreal (p / (1 - p)) ->
  evalX r = Xreal (binv_r n p x) -> evalX u = Xreal (U0 - psum (binv_r n p) x) -> U0 < 1 -> (x <= n)%nat ->
  allout (fun q => snd q = ws /\ match fst q with Some y => (Z.of_nat x <= y <= Z.of_nat n)%Z | None => True end)
         (fun c => c = 2%Z) (binv_inner fuel a s u r (Z.of_nat x) ws).
Proof.
  intros Hp. induction fuel as [|f IH]; intros a s u r x ws U0 Ea Es Er Eu HU Hx; [reflexivity|].
  cbn [binv_inner]. lstep. intros x0 y0 Ex Ey. rewrite Eu in Ex. rewrite Er in Ey.
  injection Ex as <-. injection Ey as <-. unfold rcmp.
  destruct (Rlt_dec (binv_r n p x) (U0 - psum (binv_r n p) x)) as [G|G]; lstep; [|split; [reflexivity|lia]].
  destruct (Z.ltb_spec 110 (Z.of_nat x + 1)) as [L|L]; lstep; [split; [reflexivity|exact I]|].
  assert (x < n)%nat as Hlt.
  { destruct (Nat.eq_dec x n) as [->|NE]; [|lia]. exfalso.
    pose proof (binv_r_total n p Hp) as T. cbn [psum] in T. lra. }
  replace (Z.of_nat x + 1)%Z with (Z.of_nat (S x)) by lia.
  eapply allout_mono; [| |apply (IH a s _ _ (S x) ws U0 Ea Es)]; try assumption; try lia.
  - intros [[y|] rest]; cbn [fst snd]; intros [A B]; (split; [exact A|]); [lia|exact I].
  - auto.
  - cbn [evalX xbin]. rewrite Er, Ea, Es, zf_eval, INR_Z. rewrite xdiv_real by (apply not_0_INR; lia).
    cbn [binv_r]. reflexivity.
  - cbn [evalX xbin]. rewrite Eu, Er. cbn [psum]. cbn. f_equal. ring.
Qed.

Lemma binv_outer_le_n (n : nat) p : 0 < p < 1 -> forall fuel a s r ws,
  evalX a = Xreal ((INR n + 1) * (p / (1 - p))) -> evalX s = Xreal (p / (1 - p)) ->
  evalX r = Xreal ((1 - p) ^ n) -> Forall word ws ->
  allout (fun q => (0 <= fst q <= Z.of_nat n)%Z) nopanic (binv_outer fuel r a s ws).
Proof.
  intros Hp. induction fuel as [|f IH]; intros a s r ws Ea Es Er Hw; [exact nopanic2|].
  destruct ws as [|w ws']; cbn [binv_outer]; lstep; [exact nopanic1|].
  inversion Hw as [|? ? Hw0 Hws]; subst.
  pose proof (uR_std_range F64 w Hw0) as Hu.
  eapply allout_sbind; [apply (binv_inner_le_n n p Hp 112 a s (u_std F64 w) r 0 ws' (uR_std F64 w) Ea Es)| |].
  - exact Er.
  - rewrite u_std_eval. cbn [psum]. f_equal. ring.
  - lra.
  - lia.
  - intros c ->. exact nopanic2.
  - intros [y|] ws1; cbn [fst snd]; intros [-> B]; lstep; [lia|]. apply IH; assumption.
Qed.
Local Open Scope Z_scope.

(* ================================================================================================ *)
(* Binomial: BTPE                                                                                    *)

Lemma f64_to_u64_spec e ws lo hi : 0 <= lo -> hi < U64MAX ->
  (forall x, evalX e = Xreal x -> (IZR lo <= x)%R /\ (x < IZR hi + 1)%R) ->
  allout (fun q => snd q = ws /\ lo <= fst q <= hi) (fun _ => False) (f64_to_u64 e ws).
Proof.
  intros Hlo Hhi H. unfold f64_to_u64, sfloor. cbn [sbind bind allout]. intros x Ex.
  destruct (H x Ex) as [A B].
  assert (lo <= Zfloor x) by (apply Zfloor_lub; exact A).
  assert (Zfloor x < hi + 1).
  { apply lt_IZR. rewrite plus_IZR. apply Rle_lt_trans with x; [apply Zfloor_lb|exact B]. }
  replace ((Zfloor x <? 0) || (U64MAX <=? Zfloor x)) with false
    by (symmetry; apply orb_false_iff; split; [apply Z.ltb_ge|apply Z.leb_gt]; lia).
  lstep. split; [reflexivity|lia].
Qed.

(* step 5 only ever returns the candidate it was given, and for a candidate in [0, n] it cannot
   reach the u64 underflow of step 5.3 *)
Definition step5_post (y : Z) (ws : list Z) (q : option Z * list Z) : Prop :=
  snd q = ws /\ match fst q with Some y' => y' = y | None => True end.

Lemma btpe_step5_spec n pe m x_m y v ws : 0 <= y <= n ->
  allout (step5_post y ws) (fun _ => False) (btpe_step5 n pe m x_m y v ws).
Proof.
  intros Hy. unfold btpe_step5. cbv zeta.
  assert (forall ws', ws' = ws ->
    allout (step5_post y ws) (fun _ => False)
      ((gt <- sask CGt v (btpe_f51 n pe m y) ;; if gt then sret None else sret (Some y)) ws')) as S51.
  { intros ws' ->. lstep. intros x0 y0 _ _. destruct (rcmp CGt x0 y0); lstep; split; auto; reflexivity. }
  destruct (20 <? Z.abs (y - m)); lstep.
  - intros x0 y0 _ _. destruct (rcmp CLt x0 y0); cbn [negb]; [|apply S51; reflexivity].
    lstep. intros x1 y1 _ _. destruct (rcmp CLt x1 y1); lstep; [split; reflexivity|].
    intros x2 y2 _ _. destruct (rcmp CGt x2 y2); lstep; [split; [reflexivity|exact I]|].
    destruct (Z.ltb_spec n y) as [L|L]; [lia|]. lstep.
    intros x3 y3 _ _. destruct (rcmp CGt x3 y3); lstep; split; auto; reflexivity.
  - apply S51. reflexivity.
Qed.

Local Open Scope R_scope.
Lemma u52_range w : word w -> 0 <= IZR (w / 2 ^ 12) * powerRZ 2 (-52) < 1.
Proof.
  intros [H0 H1].
  assert (0 <= w / 2 ^ 12 <= 2 ^ 52 - 1)%Z as [A B].
  { split; [apply Z.div_pos; lia|]. assert (w / 2 ^ 12 < 2 ^ 52)%Z; [|lia].
    apply Z.div_lt_upper_bound; [lia|]. change (2 ^ 12 * 2 ^ 52)%Z with (2 ^ 64)%Z. exact H1. }
  apply IZR_le in A, B. rewrite minus_IZR in B.
  assert (P : powerRZ 2 (-52) = / IZR (2 ^ 52)).
  { change (powerRZ 2 (-52)) with (/ 2 ^ 52). rewrite (pow_IZR 2 52). reflexivity. }
  rewrite P.
  assert (0 < IZR (2 ^ 52)) by (apply (IZR_lt 0); reflexivity).
  split.
  - apply Rmult_le_pos; [exact A|]. left. apply Rinv_0_lt_compat. assumption.
  - apply Rmult_lt_reg_r with (IZR (2 ^ 52)); [assumption|]. rewrite Rmult_assoc, Rinv_l by lra. simpl (IZR 1) in B. lra.
Qed.
Lemma u52_eval w : evalX (Exact (Dy (w / 2 ^ 12) (-52))) = Xreal (IZR (w / 2 ^ 12) * powerRZ 2 (-52)).
Proof. cbn [evalX]. apply xdy_real. Qed.
Lemma u52_pos w : word w -> (w / 2 ^ 12 =? 0)%Z = false -> 0 < IZR (w / 2 ^ 12) * powerRZ 2 (-52).
Proof.
  intros Hw Hz. apply Z.eqb_neq in Hz. pose proof (u52_range w Hw) as [A _].
  destruct A as [A|A]; [exact A|]. exfalso. symmetry in A. apply Rmult_integral in A. destruct A as [A|A].
  - apply eq_IZR_R0 in A. contradiction.
  - change (powerRZ 2 (-52)) with (/ 2 ^ 52) in A. assert (0 < / 2 ^ 52) by (apply Rinv_0_lt_compat, pow_lt; lra). lra.
Qed.

Section BtpeLoop.
Variables (n : Z) (pe : expr) (m : Z).
Variables (p1 x_m x_l x_r c p2 lambda_l lambda_r p3 p4 : expr).
Variables (P1 XM XL XR C P2 LL LR P3 P4 : R).
Hypothesis E_p1 : evalX p1 = Xreal P1.
Hypothesis E_xm : evalX x_m = Xreal XM.
Hypothesis E_xl : evalX x_l = Xreal XL.
Hypothesis E_xr : evalX x_r = Xreal XR.
Hypothesis E_c : evalX c = Xreal C.
Hypothesis E_p2 : evalX p2 = Xreal P2.
Hypothesis E_ll : evalX lambda_l = Xreal LL.
Hypothesis E_lr : evalX lambda_r = Xreal LR.
Hypothesis E_p3 : evalX p3 = Xreal P3.
Hypothesis E_p4 : evalX p4 = Xreal P4.
Hypothesis Hn : (0 <= n <= U64MAX)%Z.
Hypothesis HP1 : 0 < P1.
Hypothesis HXL : XL = XM - P1.
Hypothesis HXR : XR = XM + P1.
Hypothesis HXL0 : 0 <= XL.
Hypothesis HXRn : XR <= IZR n - 1.
Hypothesis HC : 0 < C.
Hypothesis HP2 : P2 = P1 * (1 + 2 * C).
Hypothesis HLL : 0 < LL.
Hypothesis HP4 : 0 <= P4.

Let post (q : Z * list Z) : Prop := (0 <= fst q <= n)%Z.

Lemma btpe_step5_ret (again : sampler Z) y v ws : (0 <= y <= n)%Z ->
  (forall ws', ws' = ws -> allout post nopanic (again ws')) ->
  allout post nopanic
    ((o <- btpe_step5 n pe m x_m y v ;; match o with Some y => sret y | None => again end) ws).
Proof.
  intros Hy Ha. eapply allout_sbind; [apply btpe_step5_spec, Hy|intros ? []|].
  intros o ws' [A B]. cbn [fst snd] in A, B. subst ws'. destruct o as [y'|].
  - subst y'. lstep. exact Hy.
  - apply Ha. reflexivity.
Qed.

Lemma btpe_loop_spec fuel : forall ws, Forall word ws ->
  allout post nopanic (btpe_loop n pe fuel m p1 x_m x_l x_r c p2 lambda_l lambda_r p3 p4 ws).
Proof.
  induction fuel as [|fu IH]; intros ws Hw; [exact nopanic2|].
  destruct ws as [|w1 [|w2 ws]]; cbn [btpe_loop]; cbv zeta; lstep; [exact nopanic1|exact nopanic1|].
  apply Forall_cons_iff in Hw. destruct Hw as [Hw1 Hw']. apply Forall_cons_iff in Hw'. destruct Hw' as [Hw2 Hws].
  pose proof (u52_range w1 Hw1) as HU1. pose proof (u52_range w2 Hw2) as HV.
  set (U1 := IZR (w1 / 2 ^ 12) * powerRZ 2 (-52)) in * .
  set (V := IZR (w2 / 2 ^ 12) * powerRZ 2 (-52)) in * .
  assert (Eu : evalX (Exact (Dy (w1 / 2 ^ 12) (-52)) *. p4) = Xreal (U1 * P4)).
  { cbn [evalX xbin]. rewrite xdy_real, E_p4. reflexivity. }
  assert (Ev : evalX (Exact (Dy (w2 / 2 ^ 12) (-52))) = Xreal V) by apply u52_eval.
  assert (0 <= U1 * P4) as HU by (apply Rmult_le_pos; lra).
  (* region select 1 *)
  intros xu xp Exu Exp. rewrite Eu in Exu. rewrite E_p1 in Exp. injection Exu as <-. injection Exp as <-.
  unfold rcmp at 1. destruct (Rlt_dec P1 (U1 * P4)) as [G1|G1]; cbn [negb].
  2: { (* region 1 *)
    assert (n - 1 < U64MAX)%Z as Hn1 by (unfold U64MAX in * ; lia).
    eapply allout_mono; [| |apply (f64_to_u64_spec _ ws 0 (n - 1) (Z.le_refl 0) Hn1)].
    - intros [y rest]; cbn [fst snd]. unfold post. cbn [fst]. lia.
    - intros ? [].
    - intros x Ex. cbn [evalX xbin] in Ex. rewrite E_xm, E_p1, xdy_real in Ex. fold V in Ex.
      rewrite E_p4 in Ex. rewrite xdy_real in Ex. fold U1 in Ex. cbn in Ex. injection Ex as <-.
      rewrite minus_IZR, Rplus_comm. simpl (IZR 0). simpl (IZR 1).
      assert (P1 * V < P1) by nra. nra. }
  (* region select 2 *)
  lstep. intros xu xp Exu Exp. rewrite Eu in Exu. rewrite E_p2 in Exp. injection Exu as <-. injection Exp as <-.
  unfold rcmp at 1. destruct (Rlt_dec P2 (U1 * P4)) as [G2|G2]; cbn [negb].
  2: { (* region 2 *)
    lstep. intros xv xo _ _. destruct (rcmp CGt xv xo); [apply IH, Hws|].
    assert (Hx : forall x, evalX (x_l +. (Exact (Dy (w1 / 2 ^ 12) (-52)) *. p4 -. p1) /. c) = Xreal x ->
                           IZR 0 <= x /\ x < IZR (n - 1) + 1).
    { intros x Ex. cbn [evalX xbin] in Ex. rewrite E_xl, E_p4, E_p1, E_c, xdy_real in Ex. fold U1 in Ex.
      change (Xreal U1 * Xreal P4 - Xreal P1)%XR with (Xreal (U1 * P4 - P1)) in Ex.
      rewrite xdiv_real in Ex by lra. cbn in Ex. injection Ex as <-.
      rewrite minus_IZR. simpl (IZR 0). simpl (IZR 1).
      assert (0 < (U1 * P4 - P1) / C) by (apply Rdiv_lt_0_compat; lra).
      assert ((U1 * P4 - P1) / C <= 2 * P1).
      { apply Rmult_le_reg_r with C; [lra|]. unfold Rdiv. rewrite Rmult_assoc, Rinv_l by lra. nra. }
      lra. }
    assert (n - 1 < U64MAX)%Z as Hn1 by (unfold U64MAX in * ; lia).
    eapply allout_sbind; [apply (f64_to_u64_spec _ ws 0 (n - 1) (Z.le_refl 0) Hn1 Hx)|intros ? []|].
    intros y ws' [A Hy]; cbn [fst snd] in A, Hy. subst ws'. apply btpe_step5_ret; [lia|]. intros ? ->. apply IH, Hws. }
  (* region select 3 *)
  lstep. intros xu xp Exu Exp. rewrite Eu in Exu. rewrite E_p3 in Exp. injection Exu as <-. injection Exp as <-.
  unfold rcmp at 1. destruct (Rlt_dec P3 (U1 * P4)) as [G3|G3]; cbn [negb].
  2: { (* region 3 *)
    destruct (w2 / 2 ^ 12 =? 0)%Z eqn:VZ; [apply IH, Hws|].
    pose proof (u52_pos w2 Hw2 VZ) as HV0. fold V in HV0.
    assert (Ey : evalX (x_l +. eln (Exact (Dy (w2 / 2 ^ 12) (-52))) /. lambda_l) = Xreal (XL + ln V / LL)).
    { unfold eln. cbn [evalX xbin xun]. rewrite E_xl, E_ll, xdy_real. fold V. rewrite Xln_pos by exact HV0.
      rewrite xdiv_real by lra. reflexivity. }
    lstep. intros xy x0 Exy Ex0. rewrite Ey in Exy. rewrite num_eval in Ex0. injection Exy as <-. injection Ex0 as <-.
    unfold rcmp at 1. destruct (Rlt_dec (XL + ln V / LL) 0) as [Ng|Ng]; [apply IH, Hws|].
    assert (ln V <= 0) by (rewrite <- ln_1; destruct HV as [_ HV1]; left; apply ln_increasing; lra).
    assert (ln V / LL <= 0).
    { unfold Rdiv. rewrite <- (Rmult_0_l (/ LL)). apply Rmult_le_compat_r; [left; apply Rinv_0_lt_compat; lra|lra]. }
    assert (n - 1 < U64MAX)%Z as Hn1 by (unfold U64MAX in * ; lia).
    eapply allout_sbind; [apply (f64_to_u64_spec _ ws 0 (n - 1) (Z.le_refl 0) Hn1)|intros ? []|].
    - intros x Ex. rewrite Ey in Ex. injection Ex as <-. rewrite minus_IZR. simpl (IZR 0). simpl (IZR 1). lra.
    - intros y ws' [A Hy]; cbn [fst snd] in A, Hy. subst ws'. apply btpe_step5_ret; [lia|]. intros ? ->. apply IH, Hws. }
  (* region 4 *)
  destruct (w2 / 2 ^ 12 =? 0)%Z eqn:VZ.
  { destruct (n <? U64MAX)%Z; [apply IH, Hws|]. lstep. discriminate. }
  unfold sfloor. cbn [sbind bind allout]. intros x0 _.
  set (y := Z.min (Z.max (Zfloor x0) 0) U64MAX).
  destruct (Z.ltb_spec n y) as [L|L]; [apply IH, Hws|].
  apply btpe_step5_ret; [unfold y in * ; unfold U64MAX in * ; lia|]. intros ? ->. apply IH, Hws.
Qed.
End BtpeLoop.
Local Open Scope Z_scope.

(* ---- the constants of the BTPE set-up ------------------------------------------------------------- *)
Local Open Scope R_scope.
Section BtpeSetupR.
Variables (N p : R).
Hypothesis Hp : 0 < p <= 1 / 2.
Hypothesis HA : 10 <= N * p.
Let q := 1 - p.
Let V := N * p * q.
Let S := sqrt V.
Let e1 := 2195 / 1000 * S - 46 / 10 * q.
Let fm := N * p + p.

Lemma btpe_N20 : 20 <= N. Proof. destruct Hp. nra. Qed.
Lemma btpe_V_bounds : 5 <= V /\ V <= N * p /\ V <= N / 4 /\ 10 * q <= V.
Proof.
  unfold V, q. destruct Hp as [Hp0 Hp1]. pose proof btpe_N20 as N20.
  assert (p * (1 - p) <= 1 / 4) as Pq by nra.
  assert (0 <= (N * p - 10) * (1 / 2 - p)) as M1 by (apply Rmult_le_pos; lra).
  assert (0 <= (N * p - 10) * (1 - p)) as M2 by (apply Rmult_le_pos; lra).
  assert (N * (p * (1 - p)) <= N * (1 / 4)) as M3 by (apply Rmult_le_compat_l; lra).
  repeat split; nra.
Qed.
Lemma btpe_S_sq : S * S = V /\ 0 <= S.
Proof. pose proof btpe_V_bounds as [H _]. split; [apply sqrt_sqrt; lra|apply sqrt_pos]. Qed.

(* p1 = floor(e1) + 1/2 >= 2.5 *)
Lemma btpe_e1_ge_2 : 2 <= e1.
Proof.
  unfold e1. pose proof btpe_S_sq as [SS S0]. pose proof btpe_V_bounds as (V5 & _ & _ & Vq).
  assert (1 / 2 <= q <= 1) by (unfold q; destruct Hp; lra).
  (* S >= (2 + 4.6 q) / 2.195 since S^2 >= 10 q >= ((2 + 4.6 q)/2.195)^2 *)
  destruct (Rle_lt_dec (2 + 46 / 10 * q) (2195 / 1000 * S)) as [G|G]; [lra|]. exfalso.
  assert ((2195 / 1000 * S) * (2195 / 1000 * S) < (2 + 46 / 10 * q) * (2 + 46 / 10 * q)) by nra.
  nra.
Qed.
(* x_l = m - floor(e1) >= 0 : e1 <= f_m - 1 < m *)
Lemma btpe_e1_le_fm : e1 <= fm - 1.
Proof.
  unfold e1, fm. pose proof btpe_S_sq as [SS S0]. pose proof btpe_V_bounds as (V5 & VA & _ & _).
  assert (1 / 2 <= q <= 1) by (unfold q; destruct Hp; lra). destruct Hp.
  destruct (Rle_lt_dec (2195 / 1000 * S) (N * p - 1)) as [G|G]; [lra|]. exfalso. nra.
Qed.
(* x_r = m + floor(e1) + 1 <= n - 1 : f_m + e1 <= N - 2 *)
Lemma btpe_xr_le : fm + e1 <= N - 2.
Proof.
  unfold e1, fm. pose proof btpe_S_sq as [SS S0]. pose proof btpe_V_bounds as (V5 & _ & V4 & _).
  pose proof btpe_N20. assert (1 / 2 <= q <= 1) by (unfold q; destruct Hp; lra). destruct Hp.
  assert (2195 / 1000 * S <= N / 2 - 2 / 10).
  { destruct (Rle_lt_dec (2195 / 1000 * S) (N / 2 - 2 / 10)) as [G|G]; [lra|]. exfalso. nra. }
  unfold q in * . nra.
Qed.
End BtpeSetupR.
Local Open Scope Z_scope.

(* ---- BTPE: the set-up of `btpe` and the complete sampler --------------------------------------------- *)
Lemma plus_half_eval k : evalX (plus_half k) = Xreal (IZR k + / 2).
Proof.
  unfold plus_half. destruct (Z.abs k <? 2 ^ 51).
  - cbn [evalX]. rewrite xdy_real. f_equal. rewrite plus_IZR, mult_IZR.
    change (powerRZ 2 (-1)) with (/ (2 * 1))%R. simpl (IZR 2). simpl (IZR 1). field.
  - cbn [evalX xbin]. rewrite zf_eval, half_eval. reflexivity.
Qed.

Lemma f64_to_u64_floor e ws :
  (forall x, evalX e = Xreal x -> (0 <= x)%R /\ (x < IZR U64MAX)%R) ->
  allout (fun q => snd q = ws /\ exists x, evalX e = Xreal x /\ fst q = Zfloor x) (fun _ => False) (f64_to_u64 e ws).
Proof.
  intros H. unfold f64_to_u64, sfloor. cbn [sbind bind allout]. intros x Ex.
  destruct (H x Ex) as [A B].
  assert (0 <= Zfloor x) by (apply Zfloor_lub; exact A).
  assert (Zfloor x < U64MAX).
  { apply lt_IZR. apply Rle_lt_trans with x; [apply Zfloor_lb|exact B]. }
  replace ((Zfloor x <? 0) || (U64MAX <=? Zfloor x)) with false
    by (symmetry; apply orb_false_iff; split; [apply Z.ltb_ge|apply Z.leb_gt]; lia).
  lstep. split; [reflexivity|]. exists x. split; [exact Ex|reflexivity].
Qed.

Local Open Scope R_scope.
Lemma floor_bounds x : IZR (Zfloor x) <= x < IZR (Zfloor x) + 1.
Proof. split; [apply Zfloor_lb|apply Zfloor_ub]. Qed.

(* BTPE(n, p) for 0 < p <= 1/2, n p >= 10, n a u64: the result is in [0, n]; neither f64_to_u64
   assertion (set-up, regions 1-3) nor the u64 subtraction of step 5.3 can fail *)
Theorem btpe_support n pe p flipped ws : evalX pe = Xreal p -> 0 < p <= 1 / 2 -> 10 <= IZR n * p ->
  (0 <= n <= U64MAX)%Z -> Forall word ws ->
  allout (fun q => (0 <= fst q <= n)%Z) nopanic (btpe n pe flipped ws).
Proof.
  intros Epe Hp HA Hn Hw. unfold btpe. set (N := IZR n) in * .
  pose proof (btpe_N20 N p Hp HA) as N20.
  pose proof (btpe_V_bounds N p Hp HA) as (V5 & VA & V4 & Vq).
  pose proof (btpe_e1_ge_2 N p Hp HA) as E2.
  pose proof (btpe_e1_le_fm N p Hp HA) as E3.
  pose proof (btpe_xr_le N p Hp HA) as E4.
  set (q := 1 - p) in * . set (V := N * p * q) in * .
  set (e1 := 2195 / 1000 * sqrt V - 46 / 10 * q) in * . set (fm := N * p + p) in * .
  assert (Enp : evalX (zf n *. pe) = Xreal (N * p)) by (cbn [evalX xbin]; rewrite zf_eval, Epe; reflexivity).
  assert (Eq : evalX (one -. pe) = Xreal q) by (cbn [evalX xbin]; rewrite one_eval, Epe; reflexivity).
  assert (Enpq : evalX (zf n *. pe *. (one -. pe)) = Xreal V).
  { change (evalX (zf n *. pe *. (one -. pe))) with (Xmul (evalX (zf n *. pe)) (evalX (one -. pe))). rewrite Enp, Eq. reflexivity. }
  assert (Efm : evalX (zf n *. pe +. pe) = Xreal fm).
  { change (evalX (zf n *. pe +. pe)) with (Xadd (evalX (zf n *. pe)) (evalX pe)). rewrite Enp, Epe. reflexivity. }
  (* p1k *)
  unfold sfloor at 1. cbn [sbind bind allout]. intros x1 Ex1.
  assert (x1 = e1) as ->.
  { change (evalX (dec 2195 3 *. esqrt (zf n *. pe *. (one -. pe)) -. dec 46 1 *. (one -. pe)))
      with (Xsub (Xmul (evalX (dec 2195 3)) (evalX (esqrt (zf n *. pe *. (one -. pe)))))
                 (Xmul (evalX (dec 46 1)) (evalX (one -. pe)))) in Ex1.
    rewrite (sqrt_eval _ V Enpq) in Ex1 by lra. rewrite Eq, !dec_eval in Ex1 by lia.
    cbn in Ex1. injection Ex1 as <-. unfold e1. simpl. lra. }
  set (p1k := Zfloor e1). pose proof (floor_bounds e1) as Fk. fold p1k in Fk.
  assert (2 <= p1k)%Z as K2 by (apply Zfloor_lub; exact E2).
  (* m *)
  eapply allout_sbind; [apply (f64_to_u64_floor _ ws)|intros ? []|].
  { intros x Ex. rewrite Efm in Ex. injection Ex as <-. split; [unfold fm; destruct Hp; nra|].
    apply Rlt_le_trans with N; [unfold fm in * ; lra|]. apply IZR_le. lia. }
  intros m ws' (A & x & Ex & Hm). cbn [fst snd] in A, Hm. subst ws'. rewrite Efm in Ex. injection Ex as <-.
  pose proof (floor_bounds fm) as Fm. rewrite <- Hm in Fm.
  set (M := IZR m) in * . set (K := IZR p1k) in * .
  assert (K <= M - 1) as KM.
  { assert (p1k < m)%Z; [|unfold K, M; rewrite <- minus_IZR; apply IZR_le; lia].
    apply lt_IZR. fold K M. lra. }
  assert (M + K + 2 <= N) as XRN.
  { assert (m + p1k + 2 <= n)%Z; [|unfold M, K, N; rewrite <- !plus_IZR; apply IZR_le; assumption].
    assert (m + p1k < n - 1)%Z; [|lia]. apply lt_IZR. rewrite plus_IZR, minus_IZR. fold M K N. simpl (IZR 1). lra. }
  assert (2 <= K) as K2' by (apply (IZR_le 2); exact K2).
  (* values of the set-up expressions *)
  set (P1 := K + / 2). set (XM := M + / 2). set (XL := XM - P1). set (XR := XM + P1).
  set (C := 134 / 1000 + 205 / 10 / (153 / 10 + M)).
  set (P2 := P1 * (1 + 2 * C)).
  set (AL := (fm - XL) / (fm - XL * p)). set (LL := AL * (1 + / 2 * AL)).
  set (AR := (XR - fm) / (XR * q)). set (LR := AR * (1 + / 2 * AR)).
  set (P3 := P2 + C / LL). set (P4 := P3 + C / LR).
  assert (0 <= M) as M0 by (unfold fm in * ; destruct Hp; nra).
  assert (0 < 153 / 10 + M) as D0 by lra.
  assert (0 < C) as C0.
  { unfold C. assert (0 < 205 / 10 / (153 / 10 + M)) by (apply Rdiv_lt_0_compat; [lra|exact D0]). lra. }
  assert (0 <= XL) as XL0 by (unfold XL, XM, P1; lra).
  assert (0 < fm - XL) as NL by (unfold XL, XM, P1; lra).
  assert (0 < fm - XL * p) as DL.
  { unfold XL, XM, P1. destruct Hp. assert ((M + / 2 - (K + / 2)) * p <= (M + / 2 - (K + / 2)) * (1 / 2)) by (apply Rmult_le_compat_l; lra). nra. }
  assert (0 < AL) as AL0 by (apply Rdiv_lt_0_compat; assumption).
  assert (0 < LL) as LL0 by (unfold LL; nra).
  assert (0 < XR - fm) as NR by (unfold XR, XM, P1; lra).
  assert (1 / 2 <= q <= 1) as Q by (unfold q; destruct Hp; lra).
  assert (0 < XR * q) as DR by (unfold XR, XM, P1; nra).
  assert (0 < AR) as AR0 by (apply Rdiv_lt_0_compat; assumption).
  assert (0 < LR) as LR0 by (unfold LR; nra).
  assert (0 < P1) as P10 by (unfold P1; lra).
  assert (0 < C / LL /\ 0 < C / LR) as [CL CR] by (split; apply Rdiv_lt_0_compat; assumption).
  assert (0 <= P4) as P40 by (unfold P4, P3, P2; nra).
  assert (Ep1 : evalX (plus_half p1k) = Xreal P1) by apply plus_half_eval.
  assert (Exm : evalX (plus_half m) = Xreal XM) by apply plus_half_eval.
  assert (Exl : evalX (plus_half m -. plus_half p1k) = Xreal XL) by (cbn [evalX xbin]; rewrite Ep1, Exm; reflexivity).
  assert (Exr : evalX (plus_half m +. plus_half p1k) = Xreal XR) by (cbn [evalX xbin]; rewrite Ep1, Exm; reflexivity).
  assert (Ec : evalX (dec 134 3 +. dec 205 1 /. (dec 153 1 +. zf m)) = Xreal C).
  { change (evalX (dec 134 3 +. dec 205 1 /. (dec 153 1 +. zf m)))
      with (Xadd (evalX (dec 134 3)) (Xdiv (evalX (dec 205 1)) (Xadd (evalX (dec 153 1)) (evalX (zf m))))).
    rewrite !dec_eval by lia. rewrite zf_eval. fold M.
    change (IZR (10 ^ 1)) with 10. change (IZR (10 ^ 3)) with 1000.
    change (Xreal (153 / 10) + Xreal M)%XR with (Xreal (153 / 10 + M)).
    rewrite xdiv_real by lra. reflexivity. }
  set (ce := dec 134 3 +. dec 205 1 /. (dec 153 1 +. zf m)) in * .
  assert (Ep2 : evalX (plus_half p1k *. (one +. num 2 *. ce)) = Xreal P2).
  { cbn [evalX xbin]. rewrite Ep1, Ec, one_eval, num_eval. reflexivity. }
  assert (Elam : forall a ra, evalX a = Xreal ra -> evalX (a *. (one +. half *. a)) = Xreal (ra * (1 + / 2 * ra))).
  { intros a ra Ea. cbn [evalX xbin]. rewrite Ea, one_eval, half_eval. reflexivity. }
  set (xle := plus_half m -. plus_half p1k) in * . set (xre := plus_half m +. plus_half p1k) in * .
  set (fme := zf n *. pe +. pe) in * .
  assert (Eal : evalX ((fme -. xle) /. (fme -. xle *. pe)) = Xreal AL).
  { cbn [evalX xbin]. rewrite Efm, Exl, Epe.
    change (Xreal fm - Xreal XL * Xreal p)%XR with (Xreal (fm - XL * p)).
    change (Xreal fm - Xreal XL)%XR with (Xreal (fm - XL)). rewrite xdiv_real by lra. reflexivity. }
  assert (Ear : evalX ((xre -. fme) /. (xre *. (one -. pe))) = Xreal AR).
  { cbn [evalX xbin] in Eq. cbn [evalX xbin]. rewrite Efm, Exr, Eq.
    change (Xreal XR * Xreal q)%XR with (Xreal (XR * q)).
    change (Xreal XR - Xreal fm)%XR with (Xreal (XR - fm)). rewrite xdiv_real by lra. reflexivity. }
  pose proof (Elam _ _ Eal) as Ell. fold LL in Ell. pose proof (Elam _ _ Ear) as Elr. fold LR in Elr.
  set (lle := (fme -. xle) /. (fme -. xle *. pe) *. (one +. half *. ((fme -. xle) /. (fme -. xle *. pe)))) in * .
  set (lre := (xre -. fme) /. (xre *. (one -. pe)) *. (one +. half *. ((xre -. fme) /. (xre *. (one -. pe))))) in * .
  set (p2e := plus_half p1k *. (one +. num 2 *. ce)) in * .
  assert (Ep3 : evalX (p2e +. ce /. lle) = Xreal P3).
  { cbn [evalX xbin]. rewrite Ep2, Ec, Ell. rewrite xdiv_real by lra. reflexivity. }
  assert (Ep4 : evalX (p2e +. ce /. lle +. ce /. lre) = Xreal P4).
  { change (evalX (p2e +. ce /. lle +. ce /. lre)) with (Xadd (evalX (p2e +. ce /. lle)) (Xdiv (evalX ce) (evalX lre))).
    rewrite Ep3, Ec, Elr. rewrite xdiv_real by lra. reflexivity. }
  (* the loop *)
  cbv zeta.
  apply allout_sbind with (P := fun q : Z * list Z => (0 <= fst q <= n)%Z) (Q := nopanic).
  - assert (XR <= IZR n - 1) as XRn by (unfold XR, XM, P1; fold N; lra).
    exact (btpe_loop_spec n pe m (plus_half p1k) (plus_half m) xle xre ce p2e lle lre (p2e +. ce /. lle)
             (p2e +. ce /. lle +. ce /. lre) P1 XM XL XR C P2 LL P3 P4 Ep1 Exm Exl Ec Ep2 Ell Ep3 Ep4 Hn P10 eq_refl eq_refl
             XL0 XRn C0 eq_refl LL0 P40 64%nat ws Hw).
  - auto.
  - intros y ws2 Hy. cbn [fst] in Hy. lstep. destruct flipped; lia.
Qed.
Local Open Scope Z_scope.

(* ================================================================================================ *)
(* Binomial: the Poisson limit (1 - p == 1.0) and the complete sampler                               *)
Local Open Scope R_scope.

(* Knuth's loop returns k only if the product of k uniforms exceeded exp(-lambda); every binary64
   uniform is at most 1 - 2^-53, so k = 0 or exp(-lambda) < (1 - 2^-53)^k *)
Definition x53 : R := / 2 ^ 53.
Lemma x53_range : 0 < x53 <= 1.
Proof.
  unfold x53. assert (1 <= 2 ^ 53) by (apply pow_R1_Rle; lra). split; [apply Rinv_0_lt_compat; lra|].
  apply Rle_trans with (/ 1); [apply Rinv_le_contravar; lra|rewrite Rinv_1; lra].
Qed.
Lemma uR_std64_le w : word w -> 0 <= uR_std F64 w <= 1 - x53.
Proof.
  intros Hw. pose proof (top53_range w Hw) as [A B]. unfold uR_std, x53.
  apply IZR_le in A, B. rewrite minus_IZR, IZR_2_53 in B. simpl (IZR 1) in B. simpl (IZR 0) in A.
  assert (0 < 2 ^ 53) by (apply pow_lt; lra). split.
  - apply div_ge_0; assumption.
  - apply Rmult_le_reg_r with (2 ^ 53); [assumption|]. unfold Rdiv. rewrite Rmult_assoc, Rinv_l by lra.
    rewrite Rmult_minus_distr_r, Rinv_l by lra. lra.
Qed.

Lemma knuth_loop_bound fuel : forall el EL p P (r : nat) ws, Forall word ws ->
  evalX el = Xreal EL -> evalX p = Xreal P -> 0 <= P <= (1 - x53) ^ r -> (1 <= r)%nat ->
  (r = 1%nat \/ EL < (1 - x53) ^ (r - 1)) ->
  allout (fun q => exists k : nat, fst q = Z.of_nat k /\ (k = 0%nat \/ EL < (1 - x53) ^ k)) nopanic
         (knuth_loop fuel F64 el p (Z.of_nat r) ws).
Proof.
  assert (0 <= 1 - x53 <= 1) as X by (pose proof x53_range; lra).
  induction fuel as [|f IH]; intros el EL p P r ws Hw Eel Ep HP Hr Hprev; [exact nopanic2|].
  cbn [knuth_loop]. lstep. intros x y Ex Ey. rewrite Ep in Ex. rewrite Eel in Ey. injection Ex as <-. injection Ey as <-.
  unfold rcmp. destruct (Rlt_dec EL P) as [G|G]; lstep.
  - destruct ws as [|w ws]; lstep; [exact nopanic1|]. apply Forall_cons_iff in Hw. destruct Hw as [Hw0 Hws].
    pose proof (uR_std64_le w Hw0) as HU.
    replace (Z.of_nat r + 1)%Z with (Z.of_nat (S r)) by lia.
    apply (IH el EL _ (P * uR_std F64 w) (S r) ws Hws Eel).
    + cbn [evalX xbin]. rewrite Ep, u_std_eval. reflexivity.
    + split; [apply Rmult_le_pos; lra|]. rewrite <- tech_pow_Rmult, Rmult_comm.
      apply Rmult_le_compat; lra.
    + lia.
    + right. replace (S r - 1)%nat with r by lia. lra.
  - exists (r - 1)%nat. split; [lia|]. destruct Hprev as [->|H]; [left; reflexivity|right; exact H].
Qed.

Lemma exp_INR_mult x (n : nat) : exp (INR n * x) = exp x ^ n.
Proof.
  induction n as [|n IH]; [simpl; rewrite Rmult_0_l; apply exp_0|].
  rewrite S_INR, Rmult_plus_distr_r, Rmult_1_l, exp_plus, IH. simpl. ring.
Qed.

(* with lambda = n p', p' <= 2^-54: exp(-lambda) < (1 - 2^-53)^k forces k <= n *)
Lemma poisson_limit_le_n (N : nat) lam (k : nat) : 0 <= lam <= INR N * / 2 ^ 54 ->
  exp (- lam) < (1 - x53) ^ k -> (k <= N)%nat.
Proof.
  intros Hl H. destruct (le_lt_dec k N) as [L|L]; [exact L|]. exfalso.
  pose proof x53_range as X.
  assert ((1 - x53) ^ k <= (1 - x53) ^ (S N)) as M1.
  { replace k with (S N + (k - S N))%nat by lia. rewrite pow_add.
    rewrite <- (Rmult_1_r ((1 - x53) ^ S N)) at 2. apply Rmult_le_compat_l; [apply pow_le; lra|].
    apply Rle_trans with (1 ^ (k - S N)); [apply pow_incr; lra|rewrite pow1; lra]. }
  assert ((1 - x53) ^ (S N) <= exp (- (x53 * INR (S N)))) as M2.
  { rewrite <- (Rmult_comm (INR (S N))). replace (- (INR (S N) * x53)) with (INR (S N) * - x53) by ring.
    rewrite exp_INR_mult. apply pow_incr. split; [lra|]. pose proof (exp_ineq1_le (- x53)). lra. }
  assert (exp (- (x53 * INR (S N))) <= exp (- lam)) as M3.
  { destruct (Req_dec (- (x53 * INR (S N))) (- lam)) as [->|NE]; [lra|]. left. apply exp_increasing.
    rewrite S_INR. pose proof (pos_INR N). unfold x53 in * .
    assert (/ 2 ^ 54 = / 2 ^ 53 / 2) as E54.
    { change (2 ^ 54) with (2 * 2 ^ 53). rewrite Rinv_mult. lra. }
    rewrite E54 in Hl. nra. }
  lra.
Qed.

Lemma dy_1m_eval p : dyR (dy_1m p) = 1 - dyR p.
Proof.
  destruct p as [m e]. unfold dy_1m, dyR. destruct (Z.ltb_spec e 0) as [L|L]; cbn [fst snd].
  - rewrite minus_IZR, Rmult_minus_distr_r. f_equal.
    rewrite (IZR_Zpower radix2) by lia. rewrite bpow_powerRZ. change (IZR radix2) with 2.
    rewrite <- powerRZ_add by lra. replace (- e + e)%Z with 0%Z by lia. reflexivity.
  - rewrite minus_IZR, mult_IZR. rewrite (IZR_Zpower radix2) by lia. rewrite bpow_powerRZ. change (IZR radix2) with 2.
    simpl (powerRZ 2 0). simpl (IZR 1). ring.
Qed.
Local Open Scope Z_scope.

Local Open Scope R_scope.
Lemma rounds_to_one_true p : rounds_to_one p = true -> dyR p <= / 2 ^ 54.
Proof.
  unfold rounds_to_one, dy_leb. rewrite dy_cmp_spec.
  destruct (Rcompare_spec (dyR p) (dyR (1, -54)%Z)) as [H|H|H]; try discriminate; intros _;
    unfold dyR at 2 in H; cbn [fst snd] in H; change (powerRZ 2 (-54)) with (/ 2 ^ 54) in H; lra.
Qed.

(* Binomial(n, p) for a u64 n and 0 <= p <= 1, every method (constant, Poisson limit, BINV, BTPE, with
   and without the p > 1/2 flip): the result is in [0, n] and no panic site is reachable *)
Theorem binomial_support n p ws : (0 <= n <= U64MAX)%Z -> 0 <= dyR p <= 1 -> Forall word ws ->
  allout (fun q => (0 <= fst q <= n)%Z) nopanic (binomial n p ws).
Proof.
  intros Hn Hp Hw. unfold binomial.
  destruct (dy_eqb p (0, 0)%Z) eqn:E0; [lstep; lia|].
  destruct (dy_eqb p (1, 0)%Z) eqn:E1; [lstep; lia|].
  apply dy_eqb_false in E0, E1. rewrite dyR_int in E0, E1.
  set (flipped := dy_ltb (1, -1)%Z p). set (p' := if flipped then dy_1m p else p).
  assert (dyR (1, -1)%Z = / 2) as Hh by (unfold dyR; cbn [fst snd]; change (powerRZ 2 (-1)) with (/ (2 * 1)); simpl (IZR 1); field).
  assert (0 < dyR p' <= 1 / 2) as Hp'.
  { unfold p', flipped. destruct (dy_ltb (1, -1)%Z p) eqn:F.
    - apply dy_ltb_true in F. rewrite Hh in F. rewrite dy_1m_eval. lra.
    - apply dy_ltb_false in F. rewrite Hh in F. lra. }
  set (N := IZR n) in * .
  assert (0 <= N) as N0 by (apply (IZR_le 0); lia).
  assert (N = INR (Z.to_nat n)) as NN by (unfold N; rewrite INR_IZR_INZ, Z2Nat.id by lia; reflexivity).
  cbv zeta.
  assert (Enp : evalX (zf n *. dyx p') = Xreal (N * dyR p')) by (cbn [evalX xbin]; rewrite zf_eval, dyx_eval; reflexivity).
  lstep. intros x y Ex Ey. rewrite Enp in Ex. rewrite num_eval in Ey. injection Ex as <-. injection Ey as <-.
  unfold rcmp. destruct (Rlt_dec (N * dyR p') 10) as [L|L].
  - destruct (rounds_to_one p') eqn:R1.
    + (* Poisson limit *)
      apply rounds_to_one_true in R1. unfold knuth.
      destruct ws as [|w ws]; lstep; [exact nopanic1|]. apply Forall_cons_iff in Hw. destruct Hw as [Hw0 Hws].
      pose proof (uR_std64_le w Hw0) as HU.
      eapply allout_mono; [| |apply (knuth_loop_bound 1024 _ (exp (- (N * dyR p'))) _ (uR_std F64 w) 1 ws Hws)].
      * intros [r rest]; cbn [fst]. intros (k & -> & Hk). split; [lia|].
        destruct Hk as [->|Hk]; [lia|].
        assert (k <= Z.to_nat n)%nat; [|lia].
        apply (poisson_limit_le_n (Z.to_nat n) (N * dyR p') k); [|exact Hk].
        rewrite <- NN. split; [nra|]. apply Rmult_le_compat_l; lra.
      * auto.
      * unfold eexp, eneg. change (evalX (Un Exp (Un Neg (zf n *. dyx p')))) with (Xexp (Xneg (evalX (zf n *. dyx p')))).
        rewrite Enp. reflexivity.
      * apply u_std_eval.
      * rewrite pow_1. exact HU.
      * lia.
      * left. reflexivity.
    + (* BINV *)
      set (P := dyR p') in * . assert (0 < P < 1) as HP by lra.
      assert (Eq : evalX (one -. dyx p') = Xreal (1 - P)) by (cbn [evalX xbin]; rewrite one_eval, dyx_eval; reflexivity).
      assert (Es : evalX (dyx p' /. (one -. dyx p')) = Xreal (P / (1 - P))).
      { change (evalX (dyx p' /. (one -. dyx p'))) with (Xdiv (evalX (dyx p')) (evalX (one -. dyx p'))).
        rewrite Eq, dyx_eval. apply xdiv_real. lra. }
      eapply allout_sbind; [apply (binv_outer_le_n (Z.to_nat n) P HP 64 _ _ _ ws)| |]; try exact Hw.
      * change (evalX ((zf n +. one) *. (dyx p' /. (one -. dyx p'))))
          with (Xmul (Xadd (evalX (zf n)) (evalX one)) (evalX (dyx p' /. (one -. dyx p')))).
        rewrite Es, zf_eval, one_eval. fold N. rewrite NN. reflexivity.
      * exact Es.
      * unfold epow. change (evalX (Bin Pow (one -. dyx p') (zf n))) with (Xpow (evalX (one -. dyx p')) (evalX (zf n))).
        rewrite Eq, zf_eval. fold N. rewrite NN. rewrite Xpow_pos by lra. f_equal. apply Rpower_pow. lra.
      * auto.
      * intros x ws' Hx. cbn [fst] in Hx. lstep. rewrite Z2Nat.id in Hx by lia. destruct flipped; lia.
  - apply btpe_support with (p := dyR p'); try assumption; [apply dyx_eval|fold N; lra].
Qed.
Local Open Scope Z_scope.
