(* Proofs/PmfModelEvents.v — property C02 on the EXECUTABLE models of Model/Discrete.v: the inversion
   events of the samplers that are exact inverse transforms.  These theorems tie the R-level identities
   of Proofs/Pmf*.v (recurrence = pmf) to the decision trees that the correspondence runs against the
   crate: the model returns x exactly when the uniform draw falls into the x-th cell of the cdf.       *)
From Coq Require Import Reals ZArith List Lra Lia Bool.
From Interval Require Import Xreal.
From Flocq Require Import Core.
From RD Require Import Base.Expr Base.Run Model.Sampler Model.Continuous Model.Discrete
  Proofs.LawsInvCdf Proofs.RunSound Proofs.Support Proofs.LoopBounds Proofs.PmfBinomial Proofs.PmfRatioModel
  Proofs.SupportDiscrete.
Import ListNotations.
Open Scope Z_scope.
Open Scope sampler_scope.

Local Notation "a +. b" := (Bin Add a b) (at level 50, left associativity).
Local Notation "a -. b" := (Bin Sub a b) (at level 50, left associativity).
Local Notation "a *. b" := (Bin Mul a b) (at level 40, left associativity).
Local Notation "a /. b" := (Bin Div a b) (at level 40, left associativity).
Local Open Scope R_scope.

(* ---- BINV: Some x  <->  cdf(x-1) < u0 <= cdf(x) ------------------------------------------------------------ *)
Definition binv_cell (n : nat) (p U0 : R) (x0 : nat) (y : Z) : Prop :=
  exists x : nat, y = Z.of_nat x /\ (x0 <= x <= n)%nat /\
    (x = x0 \/ psum (binv_r n p) x < U0) /\ U0 <= psum (binv_r n p) (S x).

Lemma binv_inner_event (n : nat) p : 0 < p < 1 -> forall fuel a s u r (x : nat) ws U0,
  evalX a = Xreal ((INR n + 1) * (p / (1 - p))) -> evalX s = Xreal (p / (1 - p)) ->
  evalX r = Xreal (binv_r n p x) -> evalX u = Xreal (U0 - psum (binv_r n p) x) -> U0 < 1 -> (x <= n)%nat ->
  allout (fun q => snd q = ws /\ match fst q with Some y => binv_cell n p U0 x y
                                              | None => psum (binv_r n p) 111 < U0 end)
         (fun c => c = 2%Z) (binv_inner fuel a s u r (Z.of_nat x) ws).
Proof.
  intros Hp. induction fuel as [|f IH]; intros a s u r x ws U0 Ea Es Er Eu HU Hx; [reflexivity|].
  cbn [binv_inner]. lstep. intros x0 y0 Ex Ey. rewrite Eu in Ex. rewrite Er in Ey.
  injection Ex as <-. injection Ey as <-. unfold rcmp.
  destruct (Rlt_dec (binv_r n p x) (U0 - psum (binv_r n p) x)) as [G|G]; lstep.
  2: { split; [reflexivity|]. exists x. split; [reflexivity|]. split; [lia|]. split; [left; reflexivity|]. cbn [psum]. lra. }
  assert (psum (binv_r n p) (S x) < U0) as Gs by (cbn [psum]; lra).
  destruct (Z.ltb_spec 110 (Z.of_nat x + 1)) as [L|L]; lstep.
  - split; [reflexivity|]. apply Rle_lt_trans with (psum (binv_r n p) (S x)); [|exact Gs].
    apply psum_mono; [apply binv_r_nonneg, Hp|lia].
  - assert (x < n)%nat as Hlt.
    { destruct (Nat.eq_dec x n) as [->|NE]; [|lia]. exfalso. pose proof (binv_r_total n p Hp) as T. lra. }
    replace (Z.of_nat x + 1)%Z with (Z.of_nat (S x)) by lia.
    eapply allout_mono; [| |apply (IH a s _ _ (S x) ws U0 Ea Es)]; try assumption; try lia.
    + intros [[y|] rest]; cbn [fst snd]; intros [A B]; (split; [exact A|]); [|exact B].
      destruct B as (x1 & -> & R1 & R2 & R3). exists x1. split; [reflexivity|]. split; [lia|]. split; [|exact R3].
      right. destruct R2 as [->|R2]; [exact Gs|exact R2].
    + auto.
    + cbn [evalX xbin]. rewrite Er, Ea, Es, zf_eval, INR_Z. rewrite xdiv_real by (apply not_0_INR; lia).
      cbn [binv_r]. reflexivity.
    + cbn [evalX xbin]. rewrite Eu, Er. cbn [psum]. cbn. f_equal. ring.
Qed.

(* the cells are disjoint and the terms are the binomial probabilities: the event above determines x *)
Lemma binv_cell_pmf (n : nat) p U0 y : 0 < p < 1 -> 0 < U0 -> binv_cell n p U0 0 y ->
  exists x : nat, y = Z.of_nat x /\ (x <= n)%nat /\
    psum (fun j => C n j * p ^ j * (1 - p) ^ (n - j)) x < U0 <= psum (fun j => C n j * p ^ j * (1 - p) ^ (n - j)) (S x).
Proof.
  intros Hp HU (x & -> & Hx & Hlo & Hhi). exists x. split; [reflexivity|]. split; [lia|].
  assert (forall y, (y <= S n)%nat ->
            psum (binv_r n p) y = psum (fun j => C n j * p ^ j * (1 - p) ^ (n - j)) y) as Hps.
  { induction y as [|y IH]; intros Hy; [reflexivity|]. cbn [psum].
    rewrite IH by lia. rewrite binv_recurrence by (try assumption; lia). reflexivity. }
  rewrite <- !Hps by lia. split; [|exact Hhi]. destruct Hlo as [->|H]; [cbn; exact HU|exact H].
Qed.

(* ---- Knuth: k  <->  u_1 ... u_k > exp(-lambda) >= u_1 ... u_(k+1) ----------------------------------------- *)
Fixpoint prodR (us : list R) : R := match us with [] => 1 | u :: r => u * prodR r end.

Lemma prodR_app us u : prodR (us ++ [u]) = prodR us * u.
Proof. induction us as [|a us IH]; cbn; [ring|rewrite IH; ring]. Qed.

(* state: `us` = the uniforms drawn so far (result = |us|), p = their product; all proper prefixes exceeded exp(-lambda) *)
Lemma knuth_loop_event fuel : forall t el EL p (us : list R) ws, Forall word ws -> us <> [] ->
  evalX el = Xreal EL -> evalX p = Xreal (prodR us) ->
  (forall j, (0 < j < length us)%nat -> EL < prodR (firstn j us)) ->
  allout (fun q => exists vs : list R,
            vs = us ++ map (uR_std t) (firstn (length vs - length us) ws) /\
            snd q = skipn (length vs - length us) ws /\ (length vs - length us <= length ws)%nat /\
            fst q = (Z.of_nat (length vs) - 1)%Z /\
            (forall j, (0 < j < length vs)%nat -> EL < prodR (firstn j vs)) /\ prodR vs <= EL)
         nopanic (knuth_loop fuel t el p (Z.of_nat (length us)) ws).
Proof.
  induction fuel as [|f IH]; intros t el EL p us ws Hw Hne Eel Ep Hpre; [exact nopanic2|].
  cbn [knuth_loop]. lstep. intros x y Ex Ey. rewrite Ep in Ex. rewrite Eel in Ey. injection Ex as <-. injection Ey as <-.
  unfold rcmp. destruct (Rlt_dec EL (prodR us)) as [G|G]; lstep.
  - destruct ws as [|w ws]; lstep; [exact nopanic1|]. apply Forall_cons_iff in Hw. destruct Hw as [Hw0 Hws].
    replace (Z.of_nat (length us) + 1)%Z with (Z.of_nat (length (us ++ [uR_std t w]))) by (rewrite app_length; cbn; lia).
    eapply allout_mono; [| |apply (IH t el EL _ (us ++ [uR_std t w]) ws Hws)]; auto.
    + intros [r rest]; cbn [fst snd]. intros (vs & Hvs & Hrest & Hlen & Hr & Hall & Hlast).
      rewrite app_length in * . cbn [length] in * .
      exists vs. assert (length vs = length us + 1 + (length vs - (length us + 1)))%nat as LV.
      { rewrite Hvs at 1. rewrite !app_length, map_length, firstn_length. cbn [length]. lia. }
      replace (length vs - length us)%nat with (S (length vs - (length us + 1))) by lia.
      cbn [firstn skipn map]. rewrite Hvs at 1. rewrite <- app_assoc. cbn [app].
      repeat split; auto; lia.
    + intros E. apply app_eq_nil in E. destruct E as [_ E]. discriminate.
    + cbn [evalX xbin]. rewrite Ep, u_std_eval, prodR_app. reflexivity.
    + intros j Hj. rewrite app_length in Hj. cbn [length] in Hj.
      destruct (Nat.eq_dec j (length us)) as [->|NE].
      * rewrite firstn_app, firstn_all, Nat.sub_diag. cbn [firstn]. rewrite app_nil_r. exact G.
      * rewrite firstn_app. replace (j - length us)%nat with 0%nat by lia. cbn [firstn]. rewrite app_nil_r. apply Hpre. lia.
  - exists us. rewrite Nat.sub_diag. cbn [firstn skipn map]. rewrite app_nil_r.
    repeat split; auto; try lia. lra.
Qed.

(* Knuth's method as called (first uniform drawn before the loop): the model returns k after reading
   exactly k+1 words w_1 .. w_(k+1) with  u_1 ... u_j > exp(-lambda) for j <= k  and  u_1 ... u_(k+1) <= exp(-lambda) *)
Theorem knuth_event t lambda LAM ws : evalX lambda = Xreal LAM -> Forall word ws ->
  allout (fun q => exists m : nat, (1 <= m <= length ws)%nat /\ fst q = (Z.of_nat m - 1)%Z /\ snd q = skipn m ws /\
            (forall j, (0 < j < m)%nat -> exp (- LAM) < prodR (map (uR_std t) (firstn j ws))) /\
            prodR (map (uR_std t) (firstn m ws)) <= exp (- LAM))
         nopanic (knuth t lambda ws).
Proof.
  intros El Hw. unfold knuth. destruct ws as [|w ws]; lstep; [exact nopanic1|].
  apply Forall_cons_iff in Hw. destruct Hw as [_ Hws].
  eapply allout_mono; [| |apply (knuth_loop_event 1024 t _ (exp (- LAM)) _ [uR_std t w] ws Hws)]; auto.
  - intros [r rest]; cbn [fst snd]. intros (vs & Hvs & Hrest & Hlen & Hr & Hall & Hlast). cbn [length] in * .
    assert (length vs = 1 + (length vs - 1))%nat as LV.
    { rewrite Hvs at 1. rewrite app_length, map_length, firstn_length. cbn [length]. lia. }
    exists (length vs). split; [lia|]. split; [exact Hr|].
    assert (forall j, (0 < j <= length vs)%nat -> firstn j vs = map (uR_std t) (firstn j (w :: ws))) as FV.
    { intros j Hj. rewrite Hvs. destruct j as [|j]; [lia|]. cbn [app firstn map]. f_equal.
      rewrite firstn_map, firstn_firstn. f_equal. f_equal. lia. }
    split; [|split].
    + replace (length vs) with (S (length vs - 1)) by lia. cbn [skipn]. exact Hrest.
    + intros j Hj. rewrite <- FV by lia. apply Hall. exact Hj.
    + rewrite <- FV by lia. rewrite firstn_all. exact Hlast.
  - discriminate.
  - unfold eexp, eneg. cbn [evalX xun]. rewrite El. reflexivity.
  - cbn [prodR]. rewrite Rmult_1_r. apply u_std_eval.
  - intros j Hj. cbn [length] in Hj. lia.
Qed.

(* ---- HIN: x  <->  cdf cell of the hypergeometric pmf (walk started at x0 with p = pmf(x0)) -------------------- *)
From RD Require Import Proofs.PmfHyper.

Section Hin.
Variables (n1 n2 k x0 : nat).
Hypothesis Hk : (k <= n2)%nat.
Let h (x : nat) : R := hyper_pmf (n1 + n2) n1 k x.
Let t : nat := Nat.min n1 k.

Definition hin_cell (U0 : R) (x : nat) (y : Z) : Prop :=
  exists z : nat, y = Z.of_nat z /\ (x <= z <= t)%nat /\
    (z = x \/ psum h z - psum h x0 < U0) /\ (U0 <= psum h (S z) - psum h x0 \/ z = t).

Lemma hin_loop_event fuel : forall u p (x : nat) ws U0,
  evalX p = Xreal (h x) -> evalX u = Xreal (U0 - (psum h x - psum h x0)) -> (x0 <= x <= t)%nat ->
  allout (fun q => snd q = ws /\ hin_cell U0 x (fst q)) (fun c => c = 2%Z)
         (hin_loop fuel (Z.of_nat n1) (Z.of_nat n2) (Z.of_nat k) u p (Z.of_nat x) ws).
Proof.
  induction fuel as [|f IH]; intros u p x ws U0 Ep Eu Hx; [reflexivity|].
  cbn [hin_loop]. lstep. intros xu xp Exu Exp. rewrite Eu in Exu. rewrite Ep in Exp.
  injection Exu as <-. injection Exp as <-. unfold rcmp.
  assert (Z.min (Z.of_nat n1) (Z.of_nat k) = Z.of_nat t) as Mt by (unfold t; lia).
  rewrite Mt.
  destruct (Rlt_dec (h x) (U0 - (psum h x - psum h x0))) as [G|G]; cbn [andb].
  - destruct (Z.ltb_spec (Z.of_nat x) (Z.of_nat t)) as [L|L].
    + assert (x < t)%nat as Lt by lia. assert (S x <= n1 /\ S x <= k)%nat as [A1 A2] by (unfold t in Lt; lia).
      replace (Z.of_nat x + 1)%Z with (Z.of_nat (S x)) by lia.
      eapply allout_mono; [| |apply (IH _ _ (S x) ws U0)]; auto; try lia.
      * intros [y rest]; cbn [fst snd]. intros [A (z & -> & R1 & R2 & R3)]. split; [exact A|].
        exists z. split; [reflexivity|]. split; [lia|]. split; [|exact R3]. right.
        destruct R2 as [->|R2]; [cbn [psum]; lra|exact R2].
      * (* p' = h (S x) *)
        change (evalX (p *. zf ((Z.of_nat n1 - Z.of_nat x) * (Z.of_nat k - Z.of_nat x)) /.
                       zf (Z.of_nat (S x) * (Z.of_nat n2 - Z.of_nat k + 1 + Z.of_nat x))))
          with (Xdiv (Xmul (evalX p) (evalX (zf ((Z.of_nat n1 - Z.of_nat x) * (Z.of_nat k - Z.of_nat x)))))
                     (evalX (zf (Z.of_nat (S x) * (Z.of_nat n2 - Z.of_nat k + 1 + Z.of_nat x))))).
        rewrite Ep, !zf_eval. rewrite !mult_IZR, !minus_IZR, !plus_IZR, !minus_IZR, !INR_Z, S_INR. simpl (IZR 1).
        assert (0 <= INR x) by apply pos_INR.
        assert (INR k <= INR n2) by (apply le_INR; exact Hk).
        change (Xreal (h x) * Xreal ((INR n1 - INR x) * (INR k - INR x)))%XR with (Xreal (h x * ((INR n1 - INR x) * (INR k - INR x)))).
        rewrite xdiv_real by (apply Rgt_not_eq, Rmult_lt_0_compat; lra).
        unfold h. rewrite (hin_recurrence n1 n2 k x A1 A2) by lia. apply f_equal. field. split; lra.
      * cbn [evalX xbin]. rewrite Eu, Ep. cbn [psum]. cbn. f_equal. ring.
    + lstep. split; [reflexivity|]. exists x. split; [reflexivity|]. split; [lia|]. split; [left; reflexivity|]. right. lia.
  - lstep. split; [reflexivity|]. exists x. split; [reflexivity|]. split; [lia|]. split; [left; reflexivity|].
    left. cbn [psum]. lra.
Qed.
End Hin.

(* ---- Geometric: the two counting loops ---------------------------------------------------------------------- *)
Local Open Scope R_scope.
(* p >= 2/3: the model returns `failures0 + d` after exactly d+1 words: the first d uniforms exceed p, the next does not *)
Lemma geo_trivial_event fuel : forall p P failures ws, evalX p = Xreal P -> Forall word ws ->
  allout (fun q => exists d : nat, (d < fuel)%nat /\ (d < length ws)%nat /\ fst q = (failures + Z.of_nat d)%Z /\ snd q = skipn (S d) ws /\
            (forall j, (j < d)%nat -> P < uR_std F64 (nth j ws 0%Z)) /\ uR_std F64 (nth d ws 0%Z) <= P)
         nopanic (geo_trivial fuel p failures ws).
Proof.
  induction fuel as [|f IH]; intros p P failures ws Ep Hw; [exact nopanic2|].
  destruct ws as [|w ws]; cbn [geo_trivial]; lstep; [exact nopanic1|].
  apply Forall_cons_iff in Hw. destruct Hw as [_ Hws].
  intros x y Ex Ey. rewrite u_std_eval in Ex. rewrite Ep in Ey. assert (Hx : uR_std F64 w = x) by congruence. clear Ex. injection Ey as <-.
  unfold rcmp. destruct (Rle_dec x P) as [G|G]; lstep.
  - cbv beta. exists 0%nat. cbn [length nth skipn fst snd]. rewrite Hx. repeat split; try lia; try (intros j Hj; lia); exact G.
  - eapply allout_mono; [| |apply (IH p P (failures + 1)%Z ws Ep Hws)]; [|auto].
    intros [r rest]; cbn [fst snd]. intros (d & D1 & D2 & -> & -> & D3 & D4).
    exists (S d). cbn [length nth skipn]. repeat split; try lia; [|exact D4].
    intros j Hj. destruct j as [|j]; [cbn [nth]; rewrite Hx; lra|cbn [nth]; apply D3; lia].
Qed.

(* the quotient part D of the power-of-two split: d = number of leading uniforms below pi = (1-p)^(2^k) *)
Lemma geo_d_event fuel : forall pi PI failures ws, evalX pi = Xreal PI -> Forall word ws ->
  allout (fun q => exists d : nat, (d < fuel)%nat /\ (d < length ws)%nat /\ fst q = (failures + Z.of_nat d)%Z /\ snd q = skipn (S d) ws /\
            (forall j, (j < d)%nat -> uR_std F64 (nth j ws 0%Z) < PI) /\ PI <= uR_std F64 (nth d ws 0%Z))
         nopanic (geo_d fuel pi failures ws).
Proof.
  induction fuel as [|f IH]; intros pi PI failures ws Ep Hw; [exact nopanic2|].
  destruct ws as [|w ws]; cbn [geo_d]; lstep; [exact nopanic1|].
  apply Forall_cons_iff in Hw. destruct Hw as [_ Hws].
  intros x y Ex Ey. rewrite u_std_eval in Ex. rewrite Ep in Ey. assert (Hx : uR_std F64 w = x) by congruence. clear Ex. injection Ey as <-.
  unfold rcmp. destruct (Rlt_dec x PI) as [G|G]; lstep.
  - eapply allout_mono; [| |apply (IH pi PI (failures + 1)%Z ws Ep Hws)]; [|auto].
    intros [r rest]; cbn [fst snd]. intros (d & D1 & D2 & -> & -> & D3 & D4).
    exists (S d). cbn [length nth skipn]. repeat split; try lia; [|exact D4].
    intros j Hj. destruct j as [|j]; [cbn [nth]; rewrite Hx; exact G|cbn [nth]; apply D3; lia].
  - cbv beta. exists 0%nat. cbn [length nth skipn fst snd]. rewrite Hx. repeat split; try lia; try (intros j Hj; lia); lra.
Qed.

(* ---- Zeta: every returned x was proposed as floor(u^(-1/(s-1))) and accepted with v <= zeta_accept (s-1) x ------ *)
From RD Require Import Proofs.PmfZeta.

Lemma zeta_loop_event fuel : forall t s ws, 1 < dyR s -> Forall word ws ->
  allout (fun q => fst q = (-1)%Z \/
            exists U V, 0 < U <= 1 /\ 0 <= V < 1 /\ fst q = Zfloor (Rpower U (- 1 / (dyR s - 1))) /\ (1 <= fst q)%Z /\
                        V <= zeta_accept (dyR s - 1) (IZR (fst q)))
         nopanic (zeta_loop fuel t (dyx s -. one) (epow (num 2) (dyx s -. one)) ws).
Proof.
  induction fuel as [|f IH]; intros t s ws Hs Hw; [exact nopanic2|].
  destruct ws as [|w ws]; cbn [zeta_loop]; lstep; [exact nopanic1|].
  apply Forall_cons_iff in Hw. destruct Hw as [Hw0 Hws].
  pose proof (uR_oc_range t w Hw0) as HU. set (SM := dyR s - 1) in * .
  assert (Exe : evalX (epow (u_oc t w) (num (-1) /. (dyx s -. one))) = Xreal (Rpower (uR_oc t w) (- 1 / SM))).
  { unfold epow. cbn [evalX xbin]. rewrite u_oc_eval, num_eval, dyx_eval, one_eval.
    change (Xreal (dyR s) - Xreal 1)%XR with (Xreal SM). rewrite Xdiv_nz by (unfold SM; lra).
    rewrite Xpow_pos by lra. reflexivity. }
  intros xv yv Ex _. rewrite Exe in Ex. assert (xv = Rpower (uR_oc t w) (- 1 / SM)) as -> by congruence. clear Ex.
  destruct (rcmp CGe (Rpower (uR_oc t w) (- 1 / SM)) yv); lstep; [left; reflexivity|].
  unfold sfloor. cbn [sbind bind allout]. intros x0 Ex0. rewrite Exe in Ex0. assert (x0 = Rpower (uR_oc t w) (- 1 / SM)) as -> by congruence. clear Ex0.
  set (x := Zfloor (Rpower (uR_oc t w) (- 1 / SM))).
  assert (1 <= x)%Z as Hx1.
  { apply Zfloor_lub. apply (zeta_proposal_ge_1 (dyR s) (uR_oc t w)); [exact Hs|exact HU]. }
  assert (1 <= IZR x) as Hx1R by (apply (IZR_le 1); exact Hx1).
  destruct ws as [|w2 ws2]; lstep; [exact nopanic1|]. apply Forall_cons_iff in Hws. destruct Hws as [Hw2 Hws2].
  pose proof (uR_std_range t w2 Hw2) as HV.
  intros lhs rhs El Er.
  (* values of the two sides of the test *)
  assert (Ett : evalX (epow (one +. one /. num x) (dyx s -. one)) = Xreal (zeta_t SM (IZR x))).
  { unfold epow. cbn [evalX xbin]. rewrite one_eval, num_eval, dyx_eval.
    rewrite Xdiv_nz by lra. change (Xreal 1 + Xreal (1 / IZR x))%XR with (Xreal (1 + 1 / IZR x)).
    change (Xreal (dyR s) - Xreal 1)%XR with (Xreal SM).
    rewrite Xpow_pos; [reflexivity|]. assert (0 < 1 / IZR x) by (apply Rdiv_lt_0_compat; lra). lra. }
  assert (Eb : evalX (epow (num 2) (dyx s -. one)) = Xreal (zeta_b SM)).
  { unfold epow. cbn [evalX xbin]. rewrite num_eval, dyx_eval, one_eval. change (Xreal (dyR s) - Xreal 1)%XR with (Xreal SM).
    rewrite Xpow_pos by lra. reflexivity. }
  set (tte := epow (one +. one /. num x) (dyx s -. one)) in * . set (be := epow (num 2) (dyx s -. one)) in * .
  assert (lhs = uR_std t w2 * IZR x * (zeta_t SM (IZR x) - 1) * zeta_b SM) as ->.
  { change (evalX (u_std t w2 *. num x *. (tte -. one) *. be))
      with (Xmul (Xmul (Xmul (evalX (u_std t w2)) (evalX (num x))) (Xsub (evalX tte) (evalX one))) (evalX be)) in El.
    rewrite u_std_eval, num_eval, Ett, one_eval, Eb in El. cbn in El. congruence. }
  assert (rhs = zeta_t SM (IZR x) * (zeta_b SM - 1)) as ->.
  { change (evalX (tte *. (be -. one))) with (Xmul (evalX tte) (Xsub (evalX be) (evalX one))) in Er.
    rewrite Ett, Eb, one_eval in Er. cbn in Er. congruence. }
  clear El Er.
  match goal with |- allout _ _ ((if rcmp CLe ?l ?r then _ else _) _) => destruct (rcmp CLe l r) eqn:R1 end; lstep; [|apply IH; assumption].
  unfold rcmp in R1.
  match type of R1 with (if Rle_dec ?l ?r then _ else _) = _ => destruct (Rle_dec l r) as [G|]; [|discriminate] end.
  cbv beta. cbn [fst]. right. exists (uR_oc t w), (uR_std t w2). repeat split; try lra; try assumption.
  apply (zeta_accept_test (dyR s) (IZR x) (uR_std t w2) Hs ltac:(lra)). exact G.
Qed.
