(* Proofs/KS.v — C13: Kolmogorov distance between the empirical measure of a finite
   sorted sample s_1 <= ... <= s_N (each point carrying mass 1/N) and a CDF F.

   Contents
     * G s x            : empirical CDF  #{k : s_k <= x} / N      (decidable count)
     * Dmax s F         : max_k max(|F s_k - k/N|, |F s_k - (k-1)/N|)
     * ks_step_formula  : |G s x - F x| <= Dmax s F   for every x   (F monotone, 0<=F<=1)
     * ks_sup_exact     : Dmax s F is the least upper bound of |G - F| when F is
                          moreover continuous (only left-approximability at the
                          sample points is used)
     * ks_from_cdf_dev / ks_from_pointwise : bound from a pointwise error analysis
     * max_dev_monotone / ks_bound_from_enclosures : bound from enclosures of F
   Everything is elementary (stdlib Reals only). *)

From Coq Require Import Reals List Lia Lra Sorted.
Import ListNotations.
Local Open Scope R_scope.

(* ------------------------------------------------------------------ *)
(** * Definitions *)

Definition mono (F : R -> R) : Prop := forall x y, x <= y -> F x <= F y.

Fixpoint count_le (x : R) (s : list R) : nat :=
  match s with
  | [] => O
  | v :: t => if Rle_dec v x then S (count_le x t) else count_le x t
  end.

(** empirical CDF of the multiset s (mass 1/N on each element, ties add up) *)
Definition G (s : list R) (x : R) : R := INR (count_le x s) / INR (length s).

(** max over the list of f (index) (element), indices starting at k; the empty max is 0 *)
Fixpoint maxl (f : nat -> R -> R) (k : nat) (s : list R) : R :=
  match s with
  | [] => 0
  | v :: t => Rmax (f k v) (maxl f (S k) t)
  end.

(** the two deviations at the (k+1)-th order statistic v (k is 0-based) *)
Definition dev (F : R -> R) (N : R) (k : nat) (v : R) : R :=
  Rmax (Rabs (F v - INR (S k) / N)) (Rabs (F v - INR k / N)).
Definition devp (F : R -> R) (N : R) (k : nat) (v : R) : R := INR (S k) / N - F v.
Definition devm (F : R -> R) (N : R) (k : nat) (v : R) : R := F v - INR k / N.

Definition Dmax (s : list R) (F : R -> R) : R := maxl (dev F (INR (length s))) 0 s.
Definition Dplus (s : list R) (F : R -> R) : R := maxl (devp F (INR (length s))) 0 s.
Definition Dminus (s : list R) (F : R -> R) : R := maxl (devm F (INR (length s))) 0 s.

(** enclosure version: Flo <= F <= Fhi *)
Definition devE (Flo Fhi : R -> R) (N : R) (k : nat) (v : R) : R :=
  Rmax (Fhi v - INR k / N) (INR (S k) / N - Flo v).
Definition Dencl (s : list R) (Flo Fhi : R -> R) : R :=
  maxl (devE Flo Fhi (INR (length s))) 0 s.

(** list version: lh_k = (lo_k, hi_k) encloses F s_k *)
Fixpoint DenclL (N : R) (k : nat) (lh : list (R * R)) : R :=
  match lh with
  | [] => 0
  | (lo, hi) :: t => Rmax (Rmax (hi - INR k / N) (INR (S k) / N - lo)) (DenclL N (S k) t)
  end.

(* ------------------------------------------------------------------ *)
(** * maxl *)

Lemma maxl_nonneg : forall f s k, 0 <= maxl f k s.
Proof.
  induction s as [|v t IH]; intros k; simpl; [lra|].
  eapply Rle_trans; [apply (IH (S k))|apply Rmax_r].
Qed.

Lemma maxl_ge : forall f s k i, (i < length s)%nat ->
  f (k + i)%nat (nth i s 0) <= maxl f k s.
Proof.
  induction s as [|v t IH]; intros k i Hi; simpl in *; [lia|].
  destruct i as [|i].
  - replace (k + 0)%nat with k by lia. apply Rmax_l.
  - replace (k + S i)%nat with (S k + i)%nat by lia.
    eapply Rle_trans; [apply IH; lia|apply Rmax_r].
Qed.

Lemma maxl_le : forall f s k B, 0 <= B ->
  (forall i, (i < length s)%nat -> f (k + i)%nat (nth i s 0) <= B) ->
  maxl f k s <= B.
Proof.
  induction s as [|v t IH]; intros k B HB H; simpl in *; [lra|].
  apply Rmax_lub.
  - specialize (H O). replace (k + 0)%nat with k in H by lia. apply H; lia.
  - apply IH; [lra|]. intros i Hi. specialize (H (S i)).
    replace (k + S i)%nat with (S k + i)%nat in H by lia. apply H; lia.
Qed.

Lemma maxl_attained : forall f s k,
  maxl f k s = 0 \/
  exists i, (i < length s)%nat /\ maxl f k s = f (k + i)%nat (nth i s 0).
Proof.
  induction s as [|v t IH]; intros k; simpl; [left; reflexivity|].
  destruct (Rle_dec (f k v) (maxl f (S k) t)) as [Hle|Hgt].
  - rewrite Rmax_right by assumption.
    destruct (IH (S k)) as [H0|[i [Hi He]]]; [left; assumption|].
    right; exists (S i); split; [lia|].
    replace (k + S i)%nat with (S k + i)%nat by lia. exact He.
  - rewrite Rmax_left by lra.
    right; exists O; split; [lia|]. replace (k + 0)%nat with k by lia. reflexivity.
Qed.

Lemma maxl_mono : forall f g s k,
  (forall i, (i < length s)%nat -> f (k + i)%nat (nth i s 0) <= g (k + i)%nat (nth i s 0)) ->
  maxl f k s <= maxl g k s.
Proof.
  intros f g s k H. apply maxl_le; [apply maxl_nonneg|].
  intros i Hi. eapply Rle_trans; [apply H; assumption|apply maxl_ge; assumption].
Qed.

(* ------------------------------------------------------------------ *)
(** * Counting in sorted lists *)

Lemma count_le_length : forall x s, (count_le x s <= length s)%nat.
Proof.
  induction s as [|v t IH]; simpl; [lia|]. destruct (Rle_dec v x); lia.
Qed.

Lemma count_zero : forall x s, (forall w, In w s -> x < w) -> count_le x s = O.
Proof.
  induction s as [|v t IH]; intros H; simpl; [reflexivity|].
  destruct (Rle_dec v x) as [Hv|Hv].
  - exfalso. specialize (H v (or_introl eq_refl)). lra.
  - apply IH. intros w Hw. apply H. right; assumption.
Qed.

Lemma Sorted_Rle_strong : forall s, Sorted Rle s -> StronglySorted Rle s.
Proof.
  intros s H. apply Sorted_StronglySorted; [|assumption].
  intros a b c; apply Rle_trans.
Qed.

(** In a sorted list the elements <= x form exactly the prefix of length count_le x s. *)
Lemma count_spec : forall x s, StronglySorted Rle s ->
  forall i, (i < length s)%nat ->
    ((i < count_le x s)%nat -> nth i s 0 <= x) /\
    ((count_le x s <= i)%nat -> x < nth i s 0).
Proof.
  intros x s Hs. induction Hs as [|v t Ht IH Hall]; intros i Hi; simpl in *; [lia|].
  rewrite Forall_forall in Hall.
  destruct (Rle_dec v x) as [Hv|Hv].
  - destruct i as [|i].
    + split; [intros _; assumption|intros; lia].
    + destruct (IH i ltac:(lia)) as [A B]. split; intros; [apply A|apply B]; lia.
  - assert (Hz : count_le x t = O).
    { apply count_zero. intros w Hw. specialize (Hall w Hw). lra. }
    rewrite Hz. split; [intros; lia|]. intros _.
    destruct i as [|i]; [lra|].
    assert (In (nth i t 0) t) by (apply nth_In; lia).
    specialize (Hall _ H). lra.
Qed.

Lemma sorted_nth_le : forall s, StronglySorted Rle s ->
  forall i j, (i <= j)%nat -> (j < length s)%nat -> nth i s 0 <= nth j s 0.
Proof.
  intros s Hs. induction Hs as [|v t Ht IH Hall]; intros i j Hij Hj; simpl in *; [lia|].
  rewrite Forall_forall in Hall.
  destruct i as [|i], j as [|j]; try lia.
  - lra.
  - apply Hall. apply nth_In. lia.
  - apply IH; lia.
Qed.

Lemma count_ge : forall x s k, (k < length s)%nat ->
  (forall i, (i <= k)%nat -> nth i s 0 <= x) -> (S k <= count_le x s)%nat.
Proof.
  intros x. induction s as [|v t IH]; intros k Hk H; simpl in *; [lia|].
  destruct (Rle_dec v x) as [Hv|Hv].
  - destruct k as [|k]; [lia|].
    assert (S k <= count_le x t)%nat; [|lia].
    apply IH; [lia|]. intros i Hi. apply (H (S i)). lia.
  - exfalso. apply Hv. apply (H O). lia.
Qed.

Lemma count_le_k : forall x s k,
  (forall i, (k <= i)%nat -> (i < length s)%nat -> x < nth i s 0) ->
  (count_le x s <= k)%nat.
Proof.
  intros x. induction s as [|v t IH]; intros k H; simpl in *; [lia|].
  destruct (Rle_dec v x) as [Hv|Hv].
  - destruct k as [|k].
    + exfalso. specialize (H O). simpl in H. assert (x < v) by (apply H; lia). lra.
    + assert (count_le x t <= k)%nat; [|lia].
      apply IH. intros i Hi Hl. apply (H (S i)); lia.
  - destruct k as [|k].
    + assert (count_le x t <= 0)%nat; [|lia].
      apply IH. intros i Hi Hl. apply (H (S i)); lia.
    + assert (count_le x t <= k)%nat; [|lia].
      apply IH. intros i Hi Hl. apply (H (S i)); lia.
Qed.

(* ------------------------------------------------------------------ *)
(** * Elementary facts on the deviations *)

Lemma Rabs_le_inv' : forall x a, Rabs x <= a -> - a <= x <= a.
Proof. intros x a. unfold Rabs. destruct (Rcase_abs x); lra. Qed.

Lemma INR_S_div : forall k N, INR (S k) / N = INR k / N + 1 / N.
Proof. intros. rewrite S_INR. unfold Rdiv. ring. Qed.

Lemma devp_le_dev : forall F N k v, devp F N k v <= dev F N k v.
Proof.
  intros. unfold devp, dev.
  eapply Rle_trans; [|apply Rmax_l].
  rewrite Rabs_minus_sym. apply Rle_abs.
Qed.

Lemma devm_le_dev : forall F N k v, devm F N k v <= dev F N k v.
Proof.
  intros. unfold devm, dev.
  eapply Rle_trans; [|apply Rmax_r]. apply Rle_abs.
Qed.

(** with k/N < (k+1)/N the absolute values are redundant *)
Lemma dev_eq : forall F N k v, 0 < N ->
  dev F N k v = Rmax (devp F N k v) (devm F N k v).
Proof.
  intros F N k v HN. unfold dev, devp, devm.
  rewrite INR_S_div.
  assert (0 < 1 / N) by (apply Rdiv_lt_0_compat; lra).
  set (a := INR k / N) in *. set (b := 1 / N) in *. set (y := F v).
  unfold Rmax, Rabs.
  repeat (match goal with
          | |- context [Rcase_abs ?p] => destruct (Rcase_abs p)
          | |- context [Rle_dec ?p ?q] => destruct (Rle_dec p q)
          end); lra.
Qed.

Lemma dev_le_devE : forall F Flo Fhi N k v, 0 < N ->
  Flo v <= F v <= Fhi v -> dev F N k v <= devE Flo Fhi N k v.
Proof.
  intros F Flo Fhi N k v HN [Hl Hh].
  rewrite dev_eq by assumption. unfold devp, devm, devE.
  apply Rmax_lub.
  - eapply Rle_trans; [|apply Rmax_r]. lra.
  - eapply Rle_trans; [|apply Rmax_l]. lra.
Qed.

Lemma Dplus_le_Dmax : forall s F, Dplus s F <= Dmax s F.
Proof. intros. apply maxl_mono. intros. apply devp_le_dev. Qed.

Lemma Dminus_le_Dmax : forall s F, Dminus s F <= Dmax s F.
Proof. intros. apply maxl_mono. intros. apply devm_le_dev. Qed.

Lemma Dmax_nonneg : forall s F, 0 <= Dmax s F.
Proof. intros. apply maxl_nonneg. Qed.

Lemma length_pos : forall (s : list R), s <> [] -> 0 < INR (length s).
Proof.
  intros s Hs. destruct s; [congruence|]. apply lt_0_INR. simpl. lia.
Qed.

(** For a non-empty sample, Dmax is the maximum of finitely many deviations: it
    dominates each of them and equals one of them. *)
Lemma Dmax_ge : forall s F k, (k < length s)%nat ->
  dev F (INR (length s)) k (nth k s 0) <= Dmax s F.
Proof. intros. apply (maxl_ge (dev F (INR (length s))) s O k). assumption. Qed.

Lemma Dmax_attained : forall s F, s <> [] ->
  exists k, (k < length s)%nat /\ Dmax s F = dev F (INR (length s)) k (nth k s 0).
Proof.
  intros s F Hs. unfold Dmax.
  destruct (maxl_attained (dev F (INR (length s))) s O) as [H0|[i [Hi He]]].
  - destruct s as [|v t]; [congruence|].
    exists O; split; [simpl; lia|].
    apply Rle_antisym.
    + rewrite H0. unfold dev. eapply Rle_trans; [apply Rabs_pos|apply Rmax_l].
    + apply (maxl_ge (dev F (INR (length (v :: t)))) (v :: t) O O). simpl; lia.
  - exists i; split; [assumption|exact He].
Qed.

Lemma Dmax_eq_max_Dplus_Dminus : forall s F, s <> [] ->
  Dmax s F = Rmax (Dplus s F) (Dminus s F).
Proof.
  intros s F Hs. pose proof (length_pos s Hs) as HN.
  apply Rle_antisym.
  - apply maxl_le.
    + eapply Rle_trans; [apply (maxl_nonneg (devp F (INR (length s))) s O)|apply Rmax_l].
    + intros i Hi. rewrite dev_eq by assumption. apply Rmax_lub.
      * eapply Rle_trans; [|apply Rmax_l].
        apply (maxl_ge (devp F (INR (length s))) s O i Hi).
      * eapply Rle_trans; [|apply Rmax_r].
        apply (maxl_ge (devm F (INR (length s))) s O i Hi).
  - apply Rmax_lub; [apply Dplus_le_Dmax|apply Dminus_le_Dmax].
Qed.

(* ------------------------------------------------------------------ *)
(** * 1. The step formula: |G - F| <= Dmax everywhere *)

Section Step.
Variable F : R -> R.
Hypothesis Fmono : mono F.
Hypothesis Frange : forall x, 0 <= F x <= 1.
Variable s : list R.
Hypothesis Hne : s <> [].
Hypothesis Hsorted : Sorted Rle s.

Let N := INR (length s).

Lemma ks_upper_aux : forall x, G s x - F x <= Dplus s F.
Proof.
  intros x. pose proof (length_pos s Hne) as HN.
  pose proof (Sorted_Rle_strong s Hsorted) as HS.
  unfold G. remember (count_le x s) as c eqn:Hc.
  destruct c as [|c].
  - simpl. unfold Rdiv. rewrite Rmult_0_l.
    pose proof (Frange x). pose proof (maxl_nonneg (devp F (INR (length s))) s O).
    unfold Dplus. lra.
  - pose proof (count_le_length x s) as Hlen.
    assert (Hc' : (c < length s)%nat) by lia.
    destruct (count_spec x s HS c Hc') as [A _].
    assert (Hx : nth c s 0 <= x) by (apply A; lia).
    pose proof (maxl_ge (devp F (INR (length s))) s O c Hc') as Hge.
    simpl in Hge. unfold devp in Hge at 1.
    pose proof (Fmono _ _ Hx). unfold Dplus. lra.
Qed.

Lemma ks_lower_aux : forall x, F x - G s x <= Dminus s F.
Proof.
  intros x. pose proof (length_pos s Hne) as HN.
  pose proof (Sorted_Rle_strong s Hsorted) as HS.
  unfold G. pose proof (count_le_length x s) as Hlen.
  remember (count_le x s) as c eqn:Hc.
  destruct (Nat.eq_dec c (length s)) as [He|Hn].
  - rewrite He. unfold Rdiv. rewrite Rinv_r by lra.
    pose proof (Frange x). pose proof (maxl_nonneg (devm F (INR (length s))) s O).
    unfold Dminus. lra.
  - assert (Hc' : (c < length s)%nat) by lia.
    destruct (count_spec x s HS c Hc') as [_ B].
    assert (Hx : x < nth c s 0) by (apply B; lia).
    pose proof (maxl_ge (devm F (INR (length s))) s O c Hc') as Hge.
    simpl in Hge. unfold devm in Hge at 1.
    assert (F x <= F (nth c s 0)) by (apply Fmono; lra).
    unfold Dminus. lra.
Qed.

Lemma ks_step_two_sided_aux : forall x, - Dmax s F <= G s x - F x <= Dmax s F.
Proof.
  intros x. pose proof (ks_upper_aux x). pose proof (ks_lower_aux x).
  pose proof (Dplus_le_Dmax s F). pose proof (Dminus_le_Dmax s F). lra.
Qed.

End Step.

(** one-sided (D+ and D-) bounds *)
Theorem ks_upper : forall (F : R -> R) (s : list R),
  mono F -> (forall x, 0 <= F x <= 1) -> s <> [] -> Sorted Rle s ->
  forall x, G s x - F x <= Dplus s F.
Proof. intros F s H1 H2 H3 H4. exact (ks_upper_aux F H1 H2 s H3 H4). Qed.

Theorem ks_lower : forall (F : R -> R) (s : list R),
  mono F -> (forall x, 0 <= F x <= 1) -> s <> [] -> Sorted Rle s ->
  forall x, F x - G s x <= Dminus s F.
Proof. intros F s H1 H2 H3 H4. exact (ks_lower_aux F H1 H2 s H3 H4). Qed.

(** the two-sided step formula (only monotonicity and range of F are used) *)
Theorem ks_step_formula : forall (F : R -> R) (s : list R),
  mono F -> (forall x, 0 <= F x <= 1) -> s <> [] -> Sorted Rle s ->
  forall x, - Dmax s F <= G s x - F x <= Dmax s F.
Proof. intros F s H1 H2 H3 H4. exact (ks_step_two_sided_aux F H1 H2 s H3 H4). Qed.

Theorem ks_step_formula_abs : forall (F : R -> R) (s : list R),
  mono F -> (forall x, 0 <= F x <= 1) -> s <> [] -> Sorted Rle s ->
  forall x, Rabs (G s x - F x) <= Dmax s F.
Proof.
  intros F s H1 H2 H3 H4 x. apply Rabs_le. apply ks_step_formula; assumption.
Qed.

(* ------------------------------------------------------------------ *)
(** * 1b. Converse: the formula is attained / approached, hence Dmax is the sup *)

(** values of F just to the left of a come arbitrarily close to F a *)
Definition left_approx (F : R -> R) (a : R) : Prop :=
  forall eps, 0 < eps -> exists x, x < a /\ F a - eps < F x.

Lemma continuity_left_approx : forall F a, continuity_pt F a -> left_approx F a.
Proof.
  intros F a Hc eps Heps.
  destruct (Hc eps Heps) as [alp [Halp H]].
  exists (a - alp / 2). split; [lra|].
  assert (Hd : dist R_met (F (a - alp / 2)) (F a) < eps).
  { apply H. split.
    - split; [exact I|lra].
    - simpl. unfold R_dist. replace (a - alp / 2 - a) with (- (alp / 2)) by ring.
      rewrite Rabs_Ropp, Rabs_pos_eq; lra. }
  simpl in Hd. unfold R_dist in Hd. apply Rabs_def2 in Hd. lra.
Qed.

Lemma G_at_sample : forall s k, Sorted Rle s -> (k < length s)%nat ->
  INR (S k) / INR (length s) <= G s (nth k s 0).
Proof.
  intros s k Hs Hk. pose proof (Sorted_Rle_strong s Hs) as HS.
  assert (HN : 0 < INR (length s)) by (apply lt_0_INR; lia).
  unfold G. apply Rmult_le_compat_r; [left; apply Rinv_0_lt_compat; assumption|].
  apply le_INR. apply count_ge; [assumption|].
  intros i Hi. apply sorted_nth_le; assumption.
Qed.

Lemma G_left_of_sample : forall s k x, Sorted Rle s -> (k < length s)%nat ->
  x < nth k s 0 -> G s x <= INR k / INR (length s).
Proof.
  intros s k x Hs Hk Hx. pose proof (Sorted_Rle_strong s Hs) as HS.
  assert (HN : 0 < INR (length s)) by (apply lt_0_INR; lia).
  unfold G. apply Rmult_le_compat_r; [left; apply Rinv_0_lt_compat; assumption|].
  apply le_INR. apply count_le_k.
  intros i Hi Hl. eapply Rlt_le_trans; [exact Hx|]. apply sorted_nth_le; assumption.
Qed.

(** D+ terms are attained at the sample points *)
Theorem ks_plus_attained : forall (F : R -> R) (s : list R) k,
  Sorted Rle s -> (k < length s)%nat ->
  INR (S k) / INR (length s) - F (nth k s 0) <= G s (nth k s 0) - F (nth k s 0).
Proof. intros F s k Hs Hk. pose proof (G_at_sample s k Hs Hk). lra. Qed.

(** D- terms are approached from the left of the sample points *)
Theorem ks_minus_approached : forall (F : R -> R) (s : list R) k,
  Sorted Rle s -> (k < length s)%nat -> left_approx F (nth k s 0) ->
  forall eps, 0 < eps ->
  exists x, F (nth k s 0) - INR k / INR (length s) - eps < F x - G s x.
Proof.
  intros F s k Hs Hk Hl eps Heps.
  destruct (Hl eps Heps) as [x [Hx Hf]].
  exists x. pose proof (G_left_of_sample s k x Hs Hk Hx). lra.
Qed.

Theorem ks_sup_approached : forall (F : R -> R) (s : list R),
  s <> [] -> Sorted Rle s ->
  (forall k, (k < length s)%nat -> left_approx F (nth k s 0)) ->
  forall eps, 0 < eps -> exists x, Dmax s F - eps < Rabs (G s x - F x).
Proof.
  intros F s Hne Hs Hl eps Heps.
  pose proof (length_pos s Hne) as HN.
  destruct (Dmax_attained s F Hne) as [k [Hk He]].
  rewrite He, dev_eq by assumption.
  unfold Rmax. destruct (Rle_dec _ _) as [Hle|Hgt].
  - destruct (ks_minus_approached F s k Hs Hk (Hl k Hk) eps Heps) as [x Hx].
    exists x. unfold devm. rewrite Rabs_minus_sym.
    eapply Rlt_le_trans; [exact Hx|apply Rle_abs].
  - exists (nth k s 0). unfold devp.
    pose proof (ks_plus_attained F s k Hs Hk).
    pose proof (Rle_abs (G s (nth k s 0) - F (nth k s 0))). lra.
Qed.

(** Exact formula: for F monotone, [0,1]-valued and continuous (left-approximable at
    the sample points suffices), Dmax s F is the supremum of |G - F|. *)
Theorem ks_sup_exact : forall (F : R -> R) (s : list R),
  mono F -> (forall x, 0 <= F x <= 1) -> s <> [] -> Sorted Rle s ->
  (forall k, (k < length s)%nat -> left_approx F (nth k s 0)) ->
  is_lub (fun d => exists x, d = Rabs (G s x - F x)) (Dmax s F).
Proof.
  intros F s H1 H2 H3 H4 Hl. split.
  - intros d [x Hd]. subst d. apply ks_step_formula_abs; assumption.
  - intros b Hb. destruct (Rle_dec (Dmax s F) b) as [Hle|Hgt]; [assumption|].
    exfalso.
    destruct (ks_sup_approached F s H3 H4 Hl (Dmax s F - b) ltac:(lra)) as [x Hx].
    assert (Rabs (G s x - F x) <= b) by (apply Hb; exists x; reflexivity).
    lra.
Qed.

Corollary ks_sup_exact_continuous : forall (F : R -> R) (s : list R),
  mono F -> (forall x, 0 <= F x <= 1) -> (forall x, continuity_pt F x) ->
  s <> [] -> Sorted Rle s ->
  is_lub (fun d => exists x, d = Rabs (G s x - F x)) (Dmax s F).
Proof.
  intros F s H1 H2 Hc H3 H4. apply ks_sup_exact; try assumption.
  intros k _. apply continuity_left_approx. apply Hc.
Qed.

(* ------------------------------------------------------------------ *)
(** * 3. Bounds from enclosures of F (used by the checker) *)

(** pointwise enclosure at the sample points suffices *)
Theorem max_dev_monotone : forall (F Flo Fhi : R -> R) (s : list R),
  (forall v, In v s -> Flo v <= F v <= Fhi v) ->
  Dmax s F <= Dencl s Flo Fhi.
Proof.
  intros F Flo Fhi s H. unfold Dmax, Dencl.
  destruct s as [|v0 t0] eqn:Es; [simpl; lra|]. rewrite <- Es in *.
  assert (HN : 0 < INR (length s)) by (apply length_pos; rewrite Es; discriminate).
  apply maxl_mono. intros i Hi. apply dev_le_devE; [assumption|].
  apply H. apply nth_In. assumption.
Qed.

Lemma DenclL_ge : forall F N, 0 < N -> forall s lh k,
  Forall2 (fun v p => fst p <= F v <= snd p) s lh ->
  maxl (dev F N) k s <= DenclL N k lh.
Proof.
  intros F N HN s lh k H. revert k.
  induction H as [|v [lo hi] t lt Hv Ht IH]; intros k; simpl; [lra|].
  simpl in Hv. apply Rmax_lub.
  - eapply Rle_trans; [|apply Rmax_l].
    apply (dev_le_devE F (fun _ => lo) (fun _ => hi) N k v HN Hv).
  - eapply Rle_trans; [apply IH|apply Rmax_r].
Qed.

Theorem max_dev_enclosure_list : forall (F : R -> R) (s : list R) (lh : list (R * R)),
  Forall2 (fun v p => fst p <= F v <= snd p) s lh ->
  Dmax s F <= DenclL (INR (length s)) 0 lh.
Proof.
  intros F s lh H. unfold Dmax.
  destruct s as [|v0 t0] eqn:Es.
  - inversion H. simpl. lra.
  - rewrite <- Es in *. apply DenclL_ge; [|assumption].
    apply length_pos. rewrite Es. discriminate.
Qed.

(** rigorous upper bound on the KS statistic from enclosures of F at the sample points *)
Theorem ks_bound_from_enclosures : forall (F Flo Fhi : R -> R) (s : list R),
  mono F -> (forall x, 0 <= F x <= 1) -> s <> [] -> Sorted Rle s ->
  (forall v, In v s -> Flo v <= F v <= Fhi v) ->
  forall x, Rabs (G s x - F x) <= Dencl s Flo Fhi.
Proof.
  intros F Flo Fhi s H1 H2 H3 H4 H x.
  eapply Rle_trans; [apply ks_step_formula_abs; assumption|].
  apply max_dev_monotone. assumption.
Qed.

Theorem ks_bound_from_enclosure_list : forall (F : R -> R) (s : list R) (lh : list (R * R)),
  mono F -> (forall x, 0 <= F x <= 1) -> s <> [] -> Sorted Rle s ->
  Forall2 (fun v p => fst p <= F v <= snd p) s lh ->
  forall x, Rabs (G s x - F x) <= DenclL (INR (length s)) 0 lh.
Proof.
  intros F s lh H1 H2 H3 H4 H x.
  eapply Rle_trans; [apply ks_step_formula_abs; assumption|].
  apply max_dev_enclosure_list. assumption.
Qed.

(* ------------------------------------------------------------------ *)
(** * 2. KS bound from a pointwise error analysis *)

(** Core: if F s_k is within c of the draw u_k and the draw u_k is within e of the
    grid point k/N, then every deviation is at most 1/N + e + c. *)
Lemma Dmax_from_cdf_dev : forall (F : R -> R) (us s : list R) (c e : R),
  s <> [] ->
  (forall k, (k < length s)%nat -> Rabs (F (nth k s 0) - nth k us 0) <= c) ->
  (forall k, (k < length s)%nat -> Rabs (nth k us 0 - INR (S k) / INR (length s)) <= e) ->
  Dmax s F <= 1 / INR (length s) + e + c.
Proof.
  intros F us s c e Hne Hc He.
  pose proof (length_pos s Hne) as HN.
  assert (HiN : 0 < 1 / INR (length s)) by (apply Rdiv_lt_0_compat; lra).
  assert (Hk0 : (0 < length s)%nat) by (destruct s; [congruence|simpl; lia]).
  assert (Hce : 0 <= e + c).
  { pose proof (Hc O Hk0) as A. pose proof (He O Hk0) as B.
    pose proof (Rabs_pos (F (nth 0 s 0) - nth 0 us 0)).
    pose proof (Rabs_pos (nth 0 us 0 - INR 1 / INR (length s))). lra. }
  apply maxl_le; [lra|].
  intros k Hk. simpl.
  pose proof (Hc k Hk) as A. pose proof (He k Hk) as B.
  apply Rabs_le_inv' in A. apply Rabs_le_inv' in B.
  unfold dev. rewrite INR_S_div in *.
  apply Rmax_lub; apply Rabs_le; lra.
Qed.

Theorem ks_from_cdf_dev : forall (F : R -> R) (us s : list R) (c e : R),
  mono F -> (forall x, 0 <= F x <= 1) -> s <> [] -> Sorted Rle s ->
  (forall k, (k < length s)%nat -> Rabs (F (nth k s 0) - nth k us 0) <= c) ->
  (forall k, (k < length s)%nat -> Rabs (nth k us 0 - INR (S k) / INR (length s)) <= e) ->
  forall x, Rabs (G s x - F x) <= 1 / INR (length s) + e + c.
Proof.
  intros F us s c e H1 H2 H3 H4 Hc He x.
  eapply Rle_trans; [apply ks_step_formula_abs; assumption|].
  apply (Dmax_from_cdf_dev F us s c e); assumption.
Qed.

(** Relative-error version.  T is the quantile function (F (T u_k) = u_k on the draw
    grid), the computed outputs s_k have relative error delta w.r.t. T u_k, and F
    moves by at most delta*M under a relative perturbation delta of its argument. *)
Theorem ks_from_pointwise : forall (T F : R -> R) (us s : list R) (delta M e : R),
  mono F -> (forall x, 0 <= F x <= 1) -> s <> [] -> Sorted Rle s ->
  (forall k, (k < length s)%nat -> F (T (nth k us 0)) = nth k us 0) ->
  (forall k, (k < length s)%nat -> Rabs (nth k us 0 - INR (S k) / INR (length s)) <= e) ->
  (forall k, (k < length s)%nat ->
     Rabs (nth k s 0 - T (nth k us 0)) <= delta * Rabs (T (nth k us 0))) ->
  (forall x h, Rabs h <= delta * Rabs x -> Rabs (F (x + h) - F x) <= delta * M) ->
  forall x, Rabs (G s x - F x) <= 1 / INR (length s) + e + delta * M.
Proof.
  intros T F us s delta M e H1 H2 H3 H4 HT He Hs HF x.
  apply (ks_from_cdf_dev F us s (delta * M) e); try assumption.
  intros k Hk. rewrite <- (HT k Hk) at 1.
  set (t := T (nth k us 0)).
  replace (nth k s 0) with (t + (nth k s 0 - t)) by ring.
  apply HF. apply Hs. assumption.
Qed.

(** The instance asked for: draws 0 < u_k < 1 within 1/N of k/N, quantile identity on
    (0,1): the Kolmogorov distance is at most 2/N + delta*M. *)
Corollary ks_from_pointwise_2N : forall (T F : R -> R) (us s : list R) (delta M : R),
  mono F -> (forall x, 0 <= F x <= 1) -> s <> [] -> Sorted Rle s ->
  (forall u, 0 < u < 1 -> F (T u) = u) ->
  (forall k, (k < length s)%nat -> 0 < nth k us 0 < 1) ->
  (forall k, (k < length s)%nat ->
     Rabs (nth k us 0 - INR (S k) / INR (length s)) <= 1 / INR (length s)) ->
  (forall k, (k < length s)%nat ->
     Rabs (nth k s 0 - T (nth k us 0)) <= delta * Rabs (T (nth k us 0))) ->
  (forall x h, Rabs h <= delta * Rabs x -> Rabs (F (x + h) - F x) <= delta * M) ->
  forall x, Rabs (G s x - F x) <= 2 / INR (length s) + delta * M.
Proof.
  intros T F us s delta M H1 H2 H3 H4 HT Hu He Hs HF x.
  replace (2 / INR (length s)) with (1 / INR (length s) + 1 / INR (length s))
    by (unfold Rdiv; ring).
  apply (ks_from_pointwise T F us s delta M (1 / INR (length s))); try assumption.
  intros k Hk. apply HT. apply Hu. assumption.
Qed.

Lemma nth_map_seq : forall (f : nat -> R) n k, (k < n)%nat ->
  nth k (map f (seq 0 n)) 0 = f k.
Proof.
  intros f n k Hk.
  rewrite (nth_indep _ 0 (f O)) by (rewrite map_length, seq_length; assumption).
  rewrite map_nth. rewrite seq_nth by assumption. reflexivity.
Qed.

(** Exact grid u_k = k/N, k = 1..N (OpenClosed01 draws): 1/N + delta*M. *)
Corollary ks_from_pointwise_grid : forall (T F : R -> R) (s : list R) (delta M : R),
  mono F -> (forall x, 0 <= F x <= 1) -> s <> [] -> Sorted Rle s ->
  (forall k, (k < length s)%nat ->
     F (T (INR (S k) / INR (length s))) = INR (S k) / INR (length s)) ->
  (forall k, (k < length s)%nat ->
     Rabs (nth k s 0 - T (INR (S k) / INR (length s)))
       <= delta * Rabs (T (INR (S k) / INR (length s)))) ->
  (forall x h, Rabs h <= delta * Rabs x -> Rabs (F (x + h) - F x) <= delta * M) ->
  forall x, Rabs (G s x - F x) <= 1 / INR (length s) + delta * M.
Proof.
  intros T F s delta M H1 H2 H3 H4 HT Hs HF x.
  set (N := INR (length s)).
  set (us := map (fun k => INR (S k) / N) (seq 0 (length s))).
  assert (Hus : forall k, (k < length s)%nat -> nth k us 0 = INR (S k) / N).
  { intros k Hk. unfold us. apply (nth_map_seq (fun k => INR (S k) / N)). assumption. }
  replace (1 / N + delta * M) with (1 / N + 0 + delta * M) by ring.
  apply (ks_from_pointwise T F us s delta M 0); try assumption.
  - intros k Hk. rewrite (Hus k Hk). apply HT. assumption.
  - intros k Hk. rewrite (Hus k Hk). fold N.
    replace (INR (S k) / N - INR (S k) / N) with 0 by ring. rewrite Rabs_R0. lra.
  - intros k Hk. rewrite (Hus k Hk). apply Hs. assumption.
Qed.

(** Absolute-error / Lipschitz version: |s_k - T u_k| <= eps and F is L-Lipschitz. *)
Corollary ks_from_pointwise_abs : forall (T F : R -> R) (us s : list R) (eps L e : R),
  mono F -> (forall x, 0 <= F x <= 1) -> s <> [] -> Sorted Rle s ->
  0 <= L ->
  (forall k, (k < length s)%nat -> F (T (nth k us 0)) = nth k us 0) ->
  (forall k, (k < length s)%nat -> Rabs (nth k us 0 - INR (S k) / INR (length s)) <= e) ->
  (forall k, (k < length s)%nat -> Rabs (nth k s 0 - T (nth k us 0)) <= eps) ->
  (forall x y, Rabs (F x - F y) <= L * Rabs (x - y)) ->
  forall x, Rabs (G s x - F x) <= 1 / INR (length s) + e + L * eps.
Proof.
  intros T F us s eps L e H1 H2 H3 H4 HL HT He Hs HF x.
  apply (ks_from_cdf_dev F us s (L * eps) e); try assumption.
  intros k Hk. rewrite <- (HT k Hk) at 1.
  eapply Rle_trans; [apply HF|]. apply Rmult_le_compat_l; [assumption|].
  apply Hs. assumption.
Qed.

(* ------------------------------------------------------------------ *)
(** * Example: the hypotheses are satisfiable (clipped U(0,1) CDF, N = 3) *)

Definition Fclip (x : R) : R := Rmax 0 (Rmin 1 x).

Ltac case_all :=
  repeat (match goal with
          | |- context [Rcase_abs ?p] => destruct (Rcase_abs p)
          | |- context [Rle_dec ?p ?q] => destruct (Rle_dec p q)
          end).

Lemma Fclip_cases : forall y,
  (y <= 0 /\ Fclip y = 0) \/ (0 <= y <= 1 /\ Fclip y = y) \/ (1 <= y /\ Fclip y = 1).
Proof.
  intros y. unfold Fclip, Rmin. destruct (Rle_dec 1 y); unfold Rmax;
  match goal with |- context [Rle_dec ?p ?q] => destruct (Rle_dec p q) end; lra.
Qed.

Lemma Fclip_mono : mono Fclip.
Proof.
  intros x y Hxy.
  destruct (Fclip_cases x) as [[A1 A2]|[[A1 A2]|[A1 A2]]];
  destruct (Fclip_cases y) as [[B1 B2]|[[B1 B2]|[B1 B2]]]; lra.
Qed.

Lemma Fclip_range : forall x, 0 <= Fclip x <= 1.
Proof. intros x. destruct (Fclip_cases x) as [[A1 A2]|[[A1 A2]|[A1 A2]]]; lra. Qed.

Lemma Fclip_id : forall x, 0 <= x <= 1 -> Fclip x = x.
Proof. intros x Hx. destruct (Fclip_cases x) as [[A1 A2]|[[A1 A2]|[A1 A2]]]; lra. Qed.

(** relative perturbation 1/10 of the argument moves Fclip by at most (1/10)*(10/9) *)
Lemma Fclip_rel : forall x h, Rabs h <= (1 / 10) * Rabs x ->
  Rabs (Fclip (x + h) - Fclip x) <= (1 / 10) * (10 / 9).
Proof.
  intros x h Hh.
  destruct (Fclip_cases x) as [[A1 A2]|[[A1 A2]|[A1 A2]]];
  destruct (Fclip_cases (x + h)) as [[B1 B2]|[[B1 B2]|[B1 B2]]];
  rewrite A2, B2; revert Hh; unfold Rabs; case_all; intros; lra.
Qed.

Definition ex_s : list R := [1 / 4; 1 / 2; 3 / 4].

Lemma ex_s_sorted : Sorted Rle ex_s.
Proof.
  unfold ex_s. repeat constructor; lra.
Qed.

Lemma ex_Dmax : Dmax ex_s Fclip = 1 / 4.
Proof.
  apply Rle_antisym.
  - apply maxl_le; [lra|]. intros i Hi. simpl in Hi.
    destruct i as [|[|[|i]]]; try lia; unfold dev, ex_s; simpl;
      rewrite Fclip_id by lra; apply Rmax_lub; apply Rabs_le; lra.
  - eapply Rle_trans; [|apply (Dmax_ge ex_s Fclip O); simpl; lia].
    unfold dev, ex_s. simpl. rewrite Fclip_id by lra.
    eapply Rle_trans; [|apply Rmax_r]. eapply Rle_trans; [|apply Rle_abs]. lra.
Qed.

Lemma ks_example_direct :
  mono Fclip /\ (forall x, 0 <= Fclip x <= 1) /\ ex_s <> [] /\ Sorted Rle ex_s /\
  Dmax ex_s Fclip = 1 / 4 /\
  forall x, Rabs (G ex_s x - Fclip x) <= 1 / 4.
Proof.
  split; [exact Fclip_mono|]. split; [exact Fclip_range|].
  split; [discriminate|]. split; [exact ex_s_sorted|]. split; [exact ex_Dmax|].
  intros x. rewrite <- ex_Dmax.
  apply ks_step_formula_abs;
    [exact Fclip_mono|exact Fclip_range|discriminate|exact ex_s_sorted].
Qed.

(** outputs computed with relative error <= 1/10 from the exact grid 1/3, 2/3, 1,
    quantile function T = identity *)
Definition ex_s2 : list R := [32 / 100; 7 / 10; 95 / 100].

Lemma ks_example_pointwise :
  let T := fun u : R => u in
  let delta := 1 / 10 in let M := 10 / 9 in
  Sorted Rle ex_s2 /\
  (forall k, (k < length ex_s2)%nat ->
     Fclip (T (INR (S k) / INR (length ex_s2))) = INR (S k) / INR (length ex_s2)) /\
  (forall k, (k < length ex_s2)%nat ->
     Rabs (nth k ex_s2 0 - T (INR (S k) / INR (length ex_s2)))
       <= delta * Rabs (T (INR (S k) / INR (length ex_s2)))) /\
  (forall x h, Rabs h <= delta * Rabs x -> Rabs (Fclip (x + h) - Fclip x) <= delta * M) /\
  forall x, Rabs (G ex_s2 x - Fclip x) <= 4 / 9.
Proof.
  intros T delta M.
  assert (Hsorted : Sorted Rle ex_s2) by (unfold ex_s2; repeat constructor; lra).
  assert (HT : forall k, (k < length ex_s2)%nat ->
     Fclip (T (INR (S k) / INR (length ex_s2))) = INR (S k) / INR (length ex_s2)).
  { intros k Hk. unfold T. simpl length in *.
    destruct k as [|[|[|k]]]; try lia; simpl INR; apply Fclip_id; lra. }
  assert (Hs : forall k, (k < length ex_s2)%nat ->
     Rabs (nth k ex_s2 0 - T (INR (S k) / INR (length ex_s2)))
       <= delta * Rabs (T (INR (S k) / INR (length ex_s2)))).
  { intros k Hk. unfold T, delta. simpl length in *.
    destruct k as [|[|[|k]]]; try lia; simpl; unfold Rabs; case_all; lra. }
  assert (HF : forall x h, Rabs h <= delta * Rabs x ->
     Rabs (Fclip (x + h) - Fclip x) <= delta * M) by exact Fclip_rel.
  repeat split; try assumption.
  intros x.
  replace (4 / 9) with (1 / INR (length ex_s2) + delta * M)
    by (unfold delta, M; simpl; lra).
  apply (ks_from_pointwise_grid T Fclip ex_s2 delta M);
    [exact Fclip_mono|exact Fclip_range|discriminate|assumption..].
Qed.
