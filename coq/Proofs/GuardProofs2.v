(* Proofs/GuardProofs2.v — C04, part 2: constructors whose validation first computes with
   constants (ChiSquared, StudentT, FisherF, Poisson).  Proved for any format in which the
   literal constants have their intended values (section hypotheses, discharged by computation
   for binary64 and binary32 at the end of the file).                                          *)
From Coq Require Import ZArith List Bool String Reals Lra Lia.
From Flocq Require Import Core.Core IEEE754.Binary IEEE754.Bits IEEE754.BinarySingleNaN.
From RD Require Import Model.Guards Model.GuardSpec Proofs.GuardLemmas Proofs.GuardArith.
Import ListNotations.
Open Scope R_scope.

Section Fmt.
Variable prec emax : Z.
Context (Hp : Prec_gt_0 prec) (Hpe : Prec_lt_emax prec emax).
Notation float := (binary_float prec emax).
Notation one := (one prec emax Hp Hpe).
Notation zero := (zero prec emax).
Notation half := (half prec emax Hp Hpe).
Notation two := (two prec emax Hp Hpe).
Notation fmul := (fmul prec emax Hp Hpe).
Notation fgt := (fgt prec emax).
Notation feq := (feq prec emax).

(* `x == 1.0` identifies x *)
Lemma feq_one_inv (k : float) : feq k one = true -> k = one.
Proof.
  unfold Guards.feq, fcmp. intros E.
  assert (N : is_nan k = false) by (destruct k; try reflexivity; discriminate).
  rewrite (Bcompare_ext prec emax Hp Hpe) in E by (trivial; apply one_nan).
  rewrite ext_one in E.
  destruct (Rcompare_spec (ext prec emax k) 1) as [|E1|]; try discriminate.
  pose proof (M_gt_1 prec emax Hp Hpe).
  assert (F : is_finite k = true).
  { destruct k as [|[|]| |]; try reflexivity; try discriminate; unfold GuardSpec.ext in E1; lra. }
  rewrite ext_finite in E1 by trivial.
  apply B2R_inj.
  - destruct k; try discriminate; simpl in E1; try lra. reflexivity.
  - apply is_finite_strict_Bone.
  - rewrite E1. symmetry. apply one_B2R.
Qed.

(* ---- ChiSquared / StudentT / FisherF ---- *)
Section ChiSq.
Hypothesis two_pos : fgt two zero = true.                     (* 2.0 > 0 *)
Hypothesis half_one_pos : fgt (fmul half one) zero = true.    (* 0.5 * 1.0 > 0 *)

(* Gamma::new(0.5 * k, 2.0).unwrap() never panics; the `k == 1` shortcut agrees with the test *)
Lemma ChiSquared_new_eq (k : float) :
  ChiSquared_new prec emax Hp Hpe k =
  if negb (fgt (fmul half k) zero) then GErr "DoFTooSmall" else GOk.
Proof.
  unfold ChiSquared_new. rewrite Gamma_new_eq, two_pos.
  destruct (feq k one) eqn:E.
  - apply feq_one_inv in E. subst k. now rewrite half_one_pos.
  - destruct (fgt (fmul half k) zero); reflexivity.
Qed.

Theorem ChiSquared_new_sound (k : float) :
  agrees (ChiSquared_new prec emax Hp Hpe k) (spec_ChiSquared_new prec emax Hp Hpe k).
Proof.
  rewrite ChiSquared_new_eq. unfold spec_ChiSquared_new.
  destruct (v_pinf _ _ k); generalize (fmul half k); intros h; fsplit h; guard_auto.
Qed.

Theorem StudentT_new_sound (nu : float) :
  agrees (StudentT_new prec emax Hp Hpe nu) (spec_StudentT_new prec emax Hp Hpe nu).
Proof. apply ChiSquared_new_sound. Qed.

Theorem FisherF_new_sound (m n : float) :
  agrees (FisherF_new prec emax Hp Hpe m n) (spec_FisherF_new prec emax Hp Hpe m n).
Proof.
  unfold FisherF_new, spec_FisherF_new. rewrite !ChiSquared_new_eq.
  destruct (v_inf _ _ m || v_inf _ _ n);
  generalize (fmul half m) (fmul half n); intros h1 h2; fsplit h1; fsplit h2; guard_auto.
Qed.
End ChiSq.

(* ---- Poisson ---- *)
Section Poisson.
Notation twelve := (twelve prec emax Hp Hpe).
Notation max_lambda := (max_lambda prec emax Hp Hpe).
Hypothesis twelve_fin : is_finite twelve = true.
Hypothesis twelve_val : B2R twelve = 12.
Hypothesis ml_fin : is_finite max_lambda = true.
(* fl(1.844e19) <= 1.844e19: equality in binary64, strict in binary32 *)
Hypothesis ml_le : B2R max_lambda <= IZR MAX_LAMBDA_Z.

Theorem Poisson_new_sound (lambda : float) :
  agrees (Poisson_new prec emax Hp Hpe lambda) (spec_Poisson_new prec emax lambda).
Proof.
  unfold Poisson_new, spec_Poisson_new.
  assert (Nt := is_finite_not_nan _ _ _ twelve_fin). assert (Nm := is_finite_not_nan _ _ _ ml_fin).
  fsplit lambda; [guard_auto; fail | guard_auto; fail | guard_auto; fail | ].
  pose proof (fc_fin _ _ _ Clambda) as F.
  rewrite (gtZ_correct prec emax lambda _ F).
  assert (H2 : B2R lambda <= IZR MAX_LAMBDA_Z -> B2R lambda <= B2R max_lambda).
  { intros L. unfold Guards.max_lambda, of_Z in *. rewrite (cdy_correct _ _ _ _ _ _ ml_fin).
    apply rnd_ge_B2R; trivial. unfold F2R; simpl Fnum; simpl Fexp; simpl bpow. lra. }
  to_R. rewrite (ext_finite _ _ twelve), (ext_finite _ _ max_lambda), twelve_val by assumption.
  add_M. unfold MAX_LAMBDA_Z in *.
  destruct (Rlt_bool_spec 18440000000000000000 (B2R lambda)); rcases; finish.
Qed.
End Poisson.

End Fmt.

(* ============================================================================================ *)
(* Instances: the constants' facts by computation *)
Ltac const_SF := vm_compute; reflexivity.

Lemma two_pos64 : fgt 53 1024 (two 53 1024 Hp64 Hpe64) (zero 53 1024) = true.
Proof. const_SF. Qed.
Lemma two_pos32 : fgt 24 128 (two 24 128 Hp32 Hpe32) (zero 24 128) = true.
Proof. const_SF. Qed.
Lemma half_one_pos64 :
  fgt 53 1024 (fmul 53 1024 Hp64 Hpe64 (half 53 1024 Hp64 Hpe64) (one 53 1024 Hp64 Hpe64)) (zero 53 1024) = true.
Proof. const_SF. Qed.
Lemma half_one_pos32 :
  fgt 24 128 (fmul 24 128 Hp32 Hpe32 (half 24 128 Hp32 Hpe32) (one 24 128 Hp32 Hpe32)) (zero 24 128) = true.
Proof. const_SF. Qed.

Theorem ChiSquared_new_sound64 (k : f64) :
  agrees (ChiSquared_new 53 1024 Hp64 Hpe64 k) (spec_ChiSquared_new 53 1024 Hp64 Hpe64 k).
Proof. apply ChiSquared_new_sound. exact two_pos64. exact half_one_pos64. Qed.
Theorem ChiSquared_new_sound32 (k : f32) :
  agrees (ChiSquared_new 24 128 Hp32 Hpe32 k) (spec_ChiSquared_new 24 128 Hp32 Hpe32 k).
Proof. apply ChiSquared_new_sound. exact two_pos32. exact half_one_pos32. Qed.
Theorem StudentT_new_sound64 (nu : f64) :
  agrees (StudentT_new 53 1024 Hp64 Hpe64 nu) (spec_StudentT_new 53 1024 Hp64 Hpe64 nu).
Proof. apply StudentT_new_sound. exact two_pos64. exact half_one_pos64. Qed.
Theorem StudentT_new_sound32 (nu : f32) :
  agrees (StudentT_new 24 128 Hp32 Hpe32 nu) (spec_StudentT_new 24 128 Hp32 Hpe32 nu).
Proof. apply StudentT_new_sound. exact two_pos32. exact half_one_pos32. Qed.
Theorem FisherF_new_sound64 (m n : f64) :
  agrees (FisherF_new 53 1024 Hp64 Hpe64 m n) (spec_FisherF_new 53 1024 Hp64 Hpe64 m n).
Proof. apply FisherF_new_sound. exact two_pos64. exact half_one_pos64. Qed.
Theorem FisherF_new_sound32 (m n : f32) :
  agrees (FisherF_new 24 128 Hp32 Hpe32 m n) (spec_FisherF_new 24 128 Hp32 Hpe32 m n).
Proof. apply FisherF_new_sound. exact two_pos32. exact half_one_pos32. Qed.

(* value of a constant: B2SF by computation, then arithmetic *)
Ltac const_val E :=
  rewrite (B2R_of_SF _ _ _ _ _ _ E); unfold F2R; simpl; lra.

Lemma twelve_SF64 : B2SF (twelve 53 1024 Hp64 Hpe64) = SpecFloat.S754_finite false 6755399441055744 (-49).
Proof. const_SF. Qed.
Lemma twelve_SF32 : B2SF (twelve 24 128 Hp32 Hpe32) = SpecFloat.S754_finite false 12582912 (-20).
Proof. const_SF. Qed.
Lemma ml_SF64 : B2SF (max_lambda 53 1024 Hp64 Hpe64) = SpecFloat.S754_finite false 9003906250000000 11.
Proof. const_SF. Qed.
Lemma ml_SF32 : B2SF (max_lambda 24 128 Hp32 Hpe32) = SpecFloat.S754_finite false 16771082 40.
Proof. const_SF. Qed.

Theorem Poisson_new_sound64 (lambda : f64) :
  agrees (Poisson_new 53 1024 Hp64 Hpe64 lambda) (spec_Poisson_new 53 1024 lambda).
Proof.
  apply Poisson_new_sound.
  - exact (finite_of_SF _ _ _ _ _ _ twelve_SF64).
  - const_val twelve_SF64.
  - exact (finite_of_SF _ _ _ _ _ _ ml_SF64).
  - unfold MAX_LAMBDA_Z. const_val ml_SF64.
Qed.
Theorem Poisson_new_sound32 (lambda : f32) :
  agrees (Poisson_new 24 128 Hp32 Hpe32 lambda) (spec_Poisson_new 24 128 lambda).
Proof.
  apply Poisson_new_sound.
  - exact (finite_of_SF _ _ _ _ _ _ twelve_SF32).
  - const_val twelve_SF32.
  - exact (finite_of_SF _ _ _ _ _ _ ml_SF32).
  - unfold MAX_LAMBDA_Z. const_val ml_SF32.
Qed.
