(* Proofs/FlConst.v — float constants used by the generated programs (Gen/FlProg.v) and the hand-written ones: 2 = 1 + 1. *)
From Coq Require Import ZArith Bool Reals Lra Lia.
From Flocq Require Import Core.Core IEEE754.BinarySingleNaN.
Open Scope R_scope.

Section Fmt.
Variable prec emax : Z.
Context (Hp : Prec_gt_0 prec) (Hpe : Prec_lt_emax prec emax).
Notation float := (binary_float prec emax).

Definition Btwo : float := Bplus mode_NE Bone Bone.

Lemma Btwo_correct : B2R Btwo = 2 /\ is_finite Btwo = true.
Proof.
  unfold Btwo. pose proof (Bplus_correct prec emax Hp Hpe mode_NE Bone Bone (is_finite_Bone prec emax Hp Hpe) (is_finite_Bone prec emax Hp Hpe)) as M.
  rewrite (Bone_correct prec emax Hp Hpe) in M.
  assert (generic_format radix2 (SpecFloat.fexp prec emax) (1 + 1)) as G.
  { replace (1 + 1) with (bpow radix2 1) by (simpl; lra). apply generic_format_bpow'; [apply (fexp_correct prec emax Hp)|].
    unfold SpecFloat.fexp, SpecFloat.emin, Prec_gt_0, Prec_lt_emax in * . lia. }
  rewrite round_generic in M by (try typeclasses eauto; exact G).
  rewrite Rlt_bool_true in M.
  - destruct M as (V & F & _). split; [rewrite V; lra|exact F].
  - rewrite Rabs_pos_eq by lra. replace (1 + 1) with (bpow radix2 1) by (simpl; lra). apply bpow_lt.
    unfold Prec_gt_0, Prec_lt_emax in * . lia.
Qed.
End Fmt.
