(* Proofs/RejectGamma.v — analytic identities behind the Marsaglia–Tsang (2000) Gamma sampler
   (gamma.rs:190-246, GammaLargeShape::new_raw / sample_unscaled) and the small-shape boost
   (gamma.rs:176-188, 264-279).

     new_raw(shape, scale):  d = shape - 1/3;  c = 1 / sqrt (9 d)
     sample_unscaled, loop:  x = StandardNormal;  v_cbrt = 1 + c x;  if v_cbrt <= 0 { continue }
                             v = v_cbrt^3;  u = Open01;
                             if u < 1 - 0.0331 x^4  ||  ln u < x^2/2 + d (1 - v + ln v) { return v }
     GammaLargeShape::sample = v * (d * scale);   GammaSmallShape::sample = (v * u^(1/shape) * d) * scale

   With k = shape, d = k - 1/3 (so k - 1 = d - 2/3):
     mt_identity   phi(x) * a(x) = K * g(d v) * |d(d v)/dx| : the accepted x, mapped to y = d v, has density
                   proportional to the Gamma(k,1) density  g(y) = y^(k-1) e^(-y)
     mt_envelope   a(x) <= 1 (a is a probability):  x^2/2 + d (1 - v + ln v) <= 0
     mt_squeeze    the quick-accept test implies the exact one, for every d >= 2/3 (shape >= 1)
     gamma_boost_form   what the small-shape branch computes                                            *)
From Coq Require Import Reals Lra Lia.
From Coquelicot Require Import Coquelicot.
From Interval Require Import Tactic.
Open Scope R_scope.

(* ---------------------------------------------------------------- definitions *)

Definition std_normal_pdf (x : R) : R := exp (- (x ^ 2 / 2)) / sqrt (2 * PI).

(* v = (1 + c x)^3 *)
Definition mt_v (c x : R) : R := (1 + c * x) ^ 3.
(* the exponent of the acceptance probability: accept iff ln u < mt_logacc d c x *)
Definition mt_logacc (d c x : R) : R := x ^ 2 / 2 + d * (1 - mt_v c x + ln (mt_v c x)).
Definition mt_accept (d c x : R) : R := exp (mt_logacc d c x).
(* unnormalised Gamma(k,1) density *)
Definition gamma_kernel (k y : R) : R := Rpower y (k - 1) * exp (- y).
(* the constant of proportionality *)
Definition mt_K (d c : R) : R := exp d / (sqrt (2 * PI) * (3 * d * c) * Rpower d (d - 2 / 3)).

(* h(t) = 9 t^2/2 + 1 - (1+t)^3 + 3 ln (1+t);  mt_logacc d c x = d * h (c x) when 9 d c^2 = 1 *)
Definition mt_h (t : R) : R := 9 * t ^ 2 / 2 + 1 - (1 + t) ^ 3 + 3 * ln (1 + t).

Lemma mt_defs : forall d c x k y,
  std_normal_pdf x = exp (- (x ^ 2 / 2)) / sqrt (2 * PI) /\
  mt_v c x = (1 + c * x) ^ 3 /\
  mt_logacc d c x = x ^ 2 / 2 + d * (1 - mt_v c x + ln (mt_v c x)) /\
  mt_accept d c x = exp (mt_logacc d c x) /\
  gamma_kernel k y = Rpower y (k - 1) * exp (- y) /\
  mt_K d c = exp d / (sqrt (2 * PI) * (3 * d * c) * Rpower d (d - 2 / 3)) /\
  mt_h x = 9 * x ^ 2 / 2 + 1 - (1 + x) ^ 3 + 3 * ln (1 + x).
Proof. intros. repeat split. Qed.

(* ---------------------------------------------------------------- small tools *)

Lemma sqrt2PI_pos : 0 < sqrt (2 * PI).
Proof. apply sqrt_lt_R0. generalize PI_RGT_0. lra. Qed.

Lemma ln_pow3 : forall y, 0 < y -> ln (y ^ 3) = 3 * ln y.
Proof.
  intros y Hy. replace (y ^ 3) with (y * (y * y)) by ring.
  rewrite !ln_mult; try lra; try (apply Rmult_lt_0_compat; lra).
Qed.

Lemma ln_pow2 : forall y, 0 < y -> ln (y ^ 2) = 2 * ln y.
Proof.
  intros y Hy. replace (y ^ 2) with (y * y) by ring. rewrite ln_mult; lra.
Qed.

Lemma mt_c_spec : forall d, 0 < d -> let c := 1 / sqrt (9 * d) in 0 < c /\ 9 * d * c ^ 2 = 1.
Proof.
  intros d Hd c. assert (Hs : 0 < sqrt (9 * d)) by (apply sqrt_lt_R0; lra).
  split.
  - unfold c. apply Rdiv_lt_0_compat; lra.
  - unfold c. replace ((1 / sqrt (9 * d)) ^ 2) with (/ (sqrt (9 * d) * sqrt (9 * d))) by (field; lra).
    rewrite sqrt_sqrt by lra. field. lra.
Qed.

Lemma mt_logacc_h : forall d c x, 9 * d * c ^ 2 = 1 -> 0 < 1 + c * x ->
  mt_logacc d c x = d * mt_h (c * x).
Proof.
  intros d c x Hc Hv. unfold mt_logacc, mt_h, mt_v. rewrite ln_pow3 by exact Hv.
  replace (x ^ 2 / 2) with (9 * d * c ^ 2 * (x ^ 2 / 2)) by (rewrite Hc; field). field.
Qed.

(* ---------------------------------------------------------------- (a) the density identity *)

(* logarithmic form: ln phi + ln a = (k-1) ln (d v) - d v + ln (3 d c (1+cx)^2) + ln K *)
Theorem mt_identity_log : forall d c x, 0 < d -> 0 < c -> 0 < 1 + c * x ->
  - (x ^ 2 / 2) + mt_logacc d c x
  = ((d - 2 / 3) * ln (d * mt_v c x) - d * mt_v c x) + 2 * ln (1 + c * x)
    + (d - (d - 2 / 3) * ln d).
Proof.
  intros d c x Hd Hc Hv. unfold mt_logacc, mt_v.
  assert (Hv3 : 0 < (1 + c * x) ^ 3) by (apply pow_lt; exact Hv).
  rewrite ln_mult by assumption. rewrite ln_pow3 by exact Hv. field.
Qed.

Theorem mt_identity : forall d c x, 0 < d -> 0 < c -> 0 < 1 + c * x ->
  std_normal_pdf x * mt_accept d c x
  = mt_K d c * gamma_kernel (d + 1 / 3) (d * mt_v c x) * (3 * d * c * (1 + c * x) ^ 2).
Proof.
  intros d c x Hd Hc Hv.
  pose proof sqrt2PI_pos as Hpi.
  assert (Hv3 : 0 < mt_v c x) by (apply pow_lt; exact Hv).
  assert (Hdv : 0 < d * mt_v c x) by (apply Rmult_lt_0_compat; assumption).
  unfold std_normal_pdf, mt_accept, mt_K, gamma_kernel.
  replace (d + 1 / 3 - 1) with (d - 2 / 3) by lra.
  assert (Hsq : (1 + c * x) ^ 2 = exp (2 * ln (1 + c * x))).
  { rewrite <- ln_pow2 by exact Hv. rewrite exp_ln; [reflexivity | apply pow_lt; exact Hv]. }
  rewrite Hsq. unfold Rpower.
  assert (E : exp (- (x ^ 2 / 2)) * exp (mt_logacc d c x) * exp ((d - 2 / 3) * ln d)
              = exp d * (exp ((d - 2 / 3) * ln (d * mt_v c x)) * exp (- (d * mt_v c x)))
                * exp (2 * ln (1 + c * x))).
  { rewrite <- !exp_plus. f_equal. pose proof (mt_identity_log d c x Hd Hc Hv) as L. lra. }
  assert (Hp : 0 < exp ((d - 2 / 3) * ln d)) by apply exp_pos.
  apply (Rmult_eq_reg_r (exp ((d - 2 / 3) * ln d) * sqrt (2 * PI))); [| nra].
  replace (exp (- (x ^ 2 / 2)) / sqrt (2 * PI) * exp (mt_logacc d c x)
           * (exp ((d - 2 / 3) * ln d) * sqrt (2 * PI)))
    with (exp (- (x ^ 2 / 2)) * exp (mt_logacc d c x) * exp ((d - 2 / 3) * ln d)) by (field; lra).
  rewrite E. field. repeat split; lra.
Qed.

(* the Jacobian really is the derivative of x |-> d * v(x) *)
Lemma mt_jacobian : forall d c x, is_derive (fun x => d * mt_v c x) x (3 * d * c * (1 + c * x) ^ 2).
Proof. intros d c x. unfold mt_v. auto_derive; [exact I | ring]. Qed.

(* ---------------------------------------------------------------- calculus tools *)

(* f(0) = 0 and f' has the sign of -t on (L, +inf), L < 0  ==>  f <= 0 on (L, +inf) *)
Lemma max_at_zero : forall (f f' : R -> R) (L : R), L < 0 ->
  (forall t, L < t -> is_derive f t (f' t)) ->
  (forall t, L < t -> t * f' t <= 0) ->
  f 0 = 0 -> forall t, L < t -> f t <= 0.
Proof.
  intros f f' L HL Hd Hs H0 t Ht.
  destruct (Rtotal_order t 0) as [Hneg | [-> | Hpos]]; [| lra |].
  - destruct (MVT_cor2 f f' t 0 Hneg) as [c [Hc1 Hc2]].
    { intros y Hy. apply is_derive_Reals. apply Hd. lra. }
    assert (Hsc := Hs c ltac:(lra)). rewrite H0 in Hc1. nra.
  - destruct (MVT_cor2 f f' 0 t Hpos) as [c [Hc1 Hc2]].
    { intros y Hy. apply is_derive_Reals. apply Hd. lra. }
    assert (Hsc := Hs c ltac:(lra)). rewrite H0 in Hc1. nra.
Qed.

(* f' <= 0 on [a,b]  ==>  f b <= f a *)
Lemma decr_on : forall (f f' : R -> R) (a b : R), a <= b ->
  (forall t, a <= t <= b -> is_derive f t (f' t)) ->
  (forall t, a <= t <= b -> f' t <= 0) ->
  f b <= f a.
Proof.
  intros f f' a b [Hab | ->] Hd Hs; [| lra].
  destruct (MVT_cor2 f f' a b Hab) as [c [Hc1 Hc2]].
  { intros y Hy. apply is_derive_Reals. apply Hd. lra. }
  assert (Hsc := Hs c ltac:(lra)). nra.
Qed.

(* ---------------------------------------------------------------- (b) the envelope *)

Definition mt_h' (t : R) : R := - 3 * t ^ 3 / (1 + t).

Lemma mt_h_deriv : forall t, -1 < t -> is_derive mt_h t (mt_h' t).
Proof.
  intros t Ht. unfold mt_h, mt_h'. auto_derive; [lra | field; lra].
Qed.

Lemma mt_h_0 : mt_h 0 = 0.
Proof. unfold mt_h. replace (1 + 0) with 1 by ring. rewrite ln_1. field. Qed.

Lemma mt_h'_sign : forall t, -1 < t -> t * mt_h' t <= 0.
Proof.
  intros t Ht. unfold mt_h'.
  replace (t * (- 3 * t ^ 3 / (1 + t))) with (- (3 * (t ^ 2) ^ 2 * / (1 + t))) by (field; lra).
  assert (0 < / (1 + t)) by (apply Rinv_0_lt_compat; lra).
  assert (0 <= (t ^ 2) ^ 2) by apply pow2_ge_0.
  assert (0 <= 3 * (t ^ 2) ^ 2 * / (1 + t)) by (apply Rmult_le_pos; lra). lra.
Qed.

Theorem mt_h_nonpos : forall t, -1 < t -> mt_h t <= 0.
Proof.
  apply (max_at_zero mt_h mt_h' (-1)); [lra | apply mt_h_deriv | apply mt_h'_sign | apply mt_h_0].
Qed.

Theorem mt_envelope_gen : forall d c x, 0 < d -> 9 * d * c ^ 2 = 1 -> 0 < 1 + c * x ->
  mt_logacc d c x <= 0.
Proof.
  intros d c x Hd Hc Hv. rewrite mt_logacc_h by assumption.
  assert (mt_h (c * x) <= 0) by (apply mt_h_nonpos; lra). nra.
Qed.

Theorem mt_envelope : forall d x, 0 < d -> let c := 1 / sqrt (9 * d) in 0 < 1 + c * x ->
  mt_logacc d c x <= 0 /\ 0 < mt_accept d c x <= 1.
Proof.
  intros d x Hd c Hv. destruct (mt_c_spec d Hd) as [_ Hc]. fold c in Hc.
  assert (H := mt_envelope_gen d c x Hd Hc Hv). split; [exact H |].
  unfold mt_accept. split; [apply exp_pos |].
  rewrite <- exp_0. destruct H as [H | H]; [left; apply exp_increasing; exact H | rewrite H; lra].
Qed.

(* the envelope touches: a(0) = 1 *)
Lemma mt_accept_at_0 : forall d c, mt_accept d c 0 = 1.
Proof.
  intros d c. unfold mt_accept, mt_logacc, mt_v.
  replace ((1 + c * 0) ^ 3) with 1 by ring. rewrite ln_1.
  replace (0 ^ 2 / 2 + d * (1 - 1 + 0)) with 0 by field. apply exp_0.
Qed.

(* ---------------------------------------------------------------- (c) the squeeze *)
(* Plan.  With t = c x and 9 d c^2 = 1:  mt_logacc d c x = h(c x) / (9 c^2) =: Phi_x(c).
   (1) Phi_x is non-increasing in c > 0 (d Phi/dc = m(c x)/(9 c^3), m(t) = t h'(t) - 2 h(t) <= 0), so
       over d >= 2/3, i.e. c <= c0 = 1/sqrt 6, the smallest value is at d = 2/3.
   (2) at d = 2/3 (t = x / sqrt 6, 0.0331 x^4 = 1.1916 t^4):
         t >= -0.58:        (2/3) h(t) >= - 1.1916 t^4 >= ln (1 - 1.1916 t^4)      (calculus)
         -1 < t <= -0.58:   exp ((2/3) h(t)) = (1+t)^2 exp (-2t + t^2 - 2t^3/3) >= 1 - 1.1916 t^4
                            (interval arithmetic; the margin is about 6e-4 near t = -0.87).          *)

Definition mt_m (t : R) : R := t * mt_h' t - 2 * mt_h t.
Definition mt_m' (t : R) : R := - 3 * t ^ 3 * (2 + t) / (1 + t) ^ 2.

Lemma mt_m_deriv : forall t, -1 < t -> is_derive mt_m t (mt_m' t).
Proof.
  intros t Ht. unfold mt_m, mt_m', mt_h', mt_h. auto_derive; [repeat split; lra | field; lra].
Qed.

Lemma mt_m_nonpos : forall t, -1 < t -> mt_m t <= 0.
Proof.
  apply (max_at_zero mt_m mt_m' (-1)); [lra | apply mt_m_deriv | |].
  - intros t Ht. unfold mt_m'.
    replace (t * (- 3 * t ^ 3 * (2 + t) / (1 + t) ^ 2))
      with (- (3 * (t ^ 2) ^ 2 * (2 + t) * / (1 + t) ^ 2)) by (field; lra).
    assert (0 < / (1 + t) ^ 2) by (apply Rinv_0_lt_compat, pow_lt; lra).
    assert (0 <= (t ^ 2) ^ 2) by apply pow2_ge_0.
    assert (0 <= 3 * (t ^ 2) ^ 2 * (2 + t) * / (1 + t) ^ 2).
    { apply Rmult_le_pos; [apply Rmult_le_pos |]; nra. }
    lra.
  - unfold mt_m. rewrite mt_h_0. unfold mt_h'. field.
Qed.

Definition mt_Phi (x c : R) : R := mt_h (c * x) / (9 * c ^ 2).

Lemma mt_Phi_deriv : forall x c, 0 < c -> 0 < 1 + c * x ->
  is_derive (mt_Phi x) c (mt_m (c * x) / (9 * c ^ 3)).
Proof.
  intros x c Hc Hv. unfold mt_Phi, mt_m, mt_h', mt_h.
  auto_derive; [repeat split; nra | field; lra].
Qed.

Lemma mt_Phi_decr : forall x c c0, 0 < c <= c0 -> 0 < 1 + c * x -> 0 < 1 + c0 * x ->
  mt_Phi x c0 <= mt_Phi x c.
Proof.
  intros x c c0 [Hc Hcc] Hv Hv0.
  assert (Hmid : forall t, c <= t <= c0 -> 0 < 1 + t * x).
  { intros t [Ht1 Ht2]. destruct (Rle_lt_dec 0 x); nra. }
  apply (decr_on (mt_Phi x) (fun t => mt_m (t * x) / (9 * t ^ 3)) c c0 Hcc).
  - intros t Ht. apply mt_Phi_deriv; [lra | apply Hmid; exact Ht].
  - intros t Ht. assert (H := mt_m_nonpos (t * x)). specialize (Hmid t Ht).
    assert (0 < 9 * t ^ 3) by (assert (0 < t ^ 3) by (apply pow_lt; lra); lra).
    unfold Rdiv. assert (0 < / (9 * t ^ 3)) by (apply Rinv_0_lt_compat; lra).
    assert (mt_m (t * x) <= 0) by (apply H; lra). nra.
Qed.

Lemma mt_logacc_Phi : forall d c x, 0 < c -> 9 * d * c ^ 2 = 1 -> 0 < 1 + c * x ->
  mt_logacc d c x = mt_Phi x c.
Proof.
  intros d c x Hc Hd Hv. rewrite mt_logacc_h by assumption. unfold mt_Phi.
  assert (d = / (9 * c ^ 2)).
  { apply (Rmult_eq_reg_r (9 * c ^ 2)); [| nra]. rewrite Rinv_l by nra. lra. }
  subst d. unfold Rdiv. ring.
Qed.

(* ---- the base case d = 2/3 *)

(* j(t) = (2/3) h(t) + (11916 / 10000) t^4 >= 0 for t >= (-58 / 100) *)
Lemma mt_base_upper : forall t, (-58 / 100) < t -> - ((11916 / 10000) * t ^ 4) <= 2 / 3 * mt_h t.
Proof.
  intros t Ht.
  set (j := fun t => - (2 / 3 * mt_h t + (11916 / 10000) * t ^ 4)).
  set (j' := fun t => - (2 / 3 * mt_h' t + (47664 / 10000) * t ^ 3)).
  assert (H : j t <= 0); [| unfold j in H; lra].
  apply (max_at_zero j j' ((-58 / 100))); [lra | | | | exact Ht].
  - intros y Hy. unfold j, j', mt_h, mt_h'. auto_derive; [lra | field; lra].
  - intros y Hy. unfold j', mt_h'.
    replace (y * - (2 / 3 * (- 3 * y ^ 3 / (1 + y)) + (47664 / 10000) * y ^ 3))
      with (- ((y ^ 2) ^ 2 * ((47664 / 10000) - 2 * / (1 + y)))) by (field; lra).
    assert (0 <= (y ^ 2) ^ 2) by apply pow2_ge_0.
    assert (/ (1 + y) <= / (42 / 100)) by (apply Rinv_le_contravar; lra).
    assert (0 <= (47664 / 10000) - 2 * / (1 + y)) by lra. nra.
  - unfold j. rewrite mt_h_0. ring.
Qed.

Lemma mt_base_lower : forall t, -1 <= t <= (-58 / 100) ->
  1 - (11916 / 10000) * t ^ 4 <= (1 + t) ^ 2 * exp (- 2 * t + t ^ 2 - 2 * t ^ 3 / 3).
Proof.
  intros t Ht. apply Rminus_le_0.
  interval with (i_bisect t, i_taylor t, i_degree 8, i_prec 50).
Qed.

Lemma mt_base : forall t, -1 < t -> 0 < 1 - (11916 / 10000) * t ^ 4 ->
  ln (1 - (11916 / 10000) * t ^ 4) <= 2 / 3 * mt_h t.
Proof.
  intros t Ht Hy. destruct (Rlt_le_dec ((-58 / 100)) t) as [Hc | Hc].
  - apply Rle_trans with (2 := mt_base_upper t Hc).
    pose proof (exp_ineq1_le (- ((11916 / 10000) * t ^ 4))) as E.
    rewrite <- (ln_exp (- ((11916 / 10000) * t ^ 4))). apply ln_le; lra.
  - assert (B := mt_base_lower t ltac:(lra)).
    assert (E : 2 / 3 * mt_h t = ln ((1 + t) ^ 2 * exp (- 2 * t + t ^ 2 - 2 * t ^ 3 / 3))).
    { rewrite ln_mult; [| apply pow_lt; lra | apply exp_pos].
      rewrite ln_exp, ln_pow2 by lra. unfold mt_h. field. }
    rewrite E. apply ln_le; lra.
Qed.

(* ---- the general statement *)

Lemma mt_squeeze_domain : forall c x, 0 < c -> c ^ 2 <= 1 / 6 -> 0 < 1 - 0.0331 * x ^ 4 ->
  -1 < c * x < 1.
Proof.
  intros c x Hc Hc6 Hx.
  assert (H6 : x ^ 2 < 6).
  { destruct (Rlt_le_dec (x ^ 2) 6) as [H | H]; [exact H | exfalso].
    assert (36 <= (x ^ 2) ^ 2) by nra. replace (x ^ 4) with ((x ^ 2) ^ 2) in Hx by ring. lra. }
  assert ((c * x) ^ 2 < 1).
  { replace ((c * x) ^ 2) with (c ^ 2 * x ^ 2) by ring. assert (0 <= x ^ 2) by apply pow2_ge_0.
    assert (0 <= c ^ 2) by apply pow2_ge_0. nra. }
  split; nra.
Qed.

Theorem mt_squeeze_gen : forall d c x, 2 / 3 <= d -> 0 < c -> 9 * d * c ^ 2 = 1 ->
  0 < 1 - 0.0331 * x ^ 4 ->
  0 < 1 + c * x /\ ln (1 - 0.0331 * x ^ 4) <= mt_logacc d c x.
Proof.
  intros d c x Hd Hc Hdc Hx.
  set (c0 := / sqrt 6).
  assert (Hs6 : 0 < sqrt 6) by (apply sqrt_lt_R0; lra).
  assert (Hc0 : 0 < c0) by (apply Rinv_0_lt_compat; exact Hs6).
  assert (Hc02 : c0 ^ 2 = 1 / 6).
  { unfold c0. replace ((/ sqrt 6) ^ 2) with (/ (sqrt 6 * sqrt 6)) by (field; lra).
    rewrite sqrt_sqrt by lra. lra. }
  assert (Hc2 : c ^ 2 <= 1 / 6).
  { assert (0 <= c ^ 2) by apply pow2_ge_0. nra. }
  assert (Hcc : c <= c0).
  { destruct (Rle_lt_dec c c0) as [H | H]; [exact H | exfalso]. nra. }
  destruct (mt_squeeze_domain c x Hc Hc2 Hx) as [Hv1 Hv2].
  destruct (mt_squeeze_domain c0 x Hc0 ltac:(lra) Hx) as [Hw1 Hw2].
  split; [lra |].
  rewrite (mt_logacc_Phi d c x Hc Hdc ltac:(lra)).
  apply Rle_trans with (mt_Phi x c0); [| apply mt_Phi_decr; lra].
  unfold mt_Phi. rewrite Hc02.
  replace (mt_h (c0 * x) / (9 * (1 / 6))) with (2 / 3 * mt_h (c0 * x)) by field.
  replace (0.0331 * x ^ 4) with (11916 / 10000 * (c0 * x) ^ 4) in *.
  - apply mt_base; lra.
  - replace ((c0 * x) ^ 4) with ((c0 ^ 2) ^ 2 * x ^ 4) by ring. rewrite Hc02. lra.
Qed.

Theorem mt_squeeze : forall d x, 2 / 3 <= d -> let c := 1 / sqrt (9 * d) in
  0 < 1 - 0.0331 * x ^ 4 ->
  0 < 1 + c * x /\ ln (1 - 0.0331 * x ^ 4) <= mt_logacc d c x.
Proof.
  intros d x Hd c Hx. destruct (mt_c_spec d ltac:(lra)) as [Hc Hdc]. fold c in Hc, Hdc.
  apply mt_squeeze_gen; assumption.
Qed.

(* in terms of the uniform u of the code: the quick test implies the exact test *)
Corollary mt_squeeze_test : forall d x u, 2 / 3 <= d -> let c := 1 / sqrt (9 * d) in
  0 < u -> u < 1 - 0.0331 * x ^ 4 -> ln u < mt_logacc d c x.
Proof.
  intros d x u Hd c Hu Hq. destruct (mt_squeeze d x Hd ltac:(lra)) as [_ H]. fold c in H.
  apply Rlt_le_trans with (2 := H). apply ln_increasing; lra.
Qed.

(* ---------------------------------------------------------------- (d) the small-shape boost *)

(* GammaSmallShape::sample (shape k < 1): a = v from the Marsaglia–Tsang loop for shape k+1 (so
   d = k + 1 - 1/3 and G = d * v is the Gamma(k+1,1) variate), b = u^(1/k); returns (a*b*d)*scale. *)
Theorem gamma_boost_form : forall k scale v u, 0 < k ->
  let d := k + 1 - 1 / 3 in
  (v * Rpower u (1 / k) * d) * scale = scale * ((d * v) * Rpower u (/ k)).
Proof. intros k scale v u Hk d. replace (1 / k) with (/ k) by (field; lra). ring. Qed.

(* GammaLargeShape::sample: v * (d * scale) = scale * (d v) *)
Theorem gamma_large_form : forall d scale v, v * (d * scale) = scale * (d * v).
Proof. intros. ring. Qed.

(* ---------------------------------------------------------------- (e) why the boost gives Gamma(k) for k < 1 *)

(* conditionally on G = t the boosted variate t * u^(1/k) is below y exactly when u <= (y/t)^k: its
   conditional cdf is min(1, (y/t)^k), whose y-derivative for y < t is k y^(k-1) t^(-k) *)
Theorem gamma_boost_event : forall k t u y, 0 < k -> 0 < t -> 0 < u -> 0 < y ->
  (t * Rpower u (1 / k) <= y <-> u <= Rpower (y / t) k).
Proof.
  intros k t u y Hk Ht Hu Hy.
  assert (0 < y / t) as Hyt by (apply Rdiv_lt_0_compat; assumption).
  assert (Rpower (Rpower u (1 / k)) k = u) as E1.
  { rewrite Rpower_mult. replace (1 / k * k) with 1 by (field; lra). apply Rpower_1. exact Hu. }
  assert (0 < Rpower u (1 / k)) as P1 by (unfold Rpower; apply exp_pos).
  split; intros H.
  - rewrite <- E1. apply Rle_Rpower_l; [lra|]. split; [exact P1|].
    apply Rmult_le_reg_l with t; [exact Ht|]. replace (t * (y / t)) with y by (field; lra). exact H.
  - destruct (Rle_lt_dec (t * Rpower u (1 / k)) y) as [L|L]; [exact L|]. exfalso.
    assert (y / t < Rpower u (1 / k)) as L2.
    { apply Rmult_lt_reg_l with t; [exact Ht|]. replace (t * (y / t)) with y by (field; lra). exact L. }
    pose proof (Rlt_Rpower_l (y / t) (Rpower u (1 / k)) k Hk (conj Hyt L2)) as L3. rewrite E1 in L3. lra.
Qed.

(* the density kernel of the boosted variate at y: integrating the Gamma(k+1) kernel t^k e^-t against the
   conditional density k y^(k-1) t^-k over t in (y, M) gives k y^(k-1) (e^-y - e^-M) ... *)
Theorem gamma_boost_kernel : forall k y M, 0 < k -> 0 < y -> y < M ->
  is_RInt (fun t => gamma_kernel (k + 1) t * (k * Rpower y (k - 1) * Rpower t (- k))) y M
          (k * Rpower y (k - 1) * (exp (- y) - exp (- M))).
Proof.
  intros k y M Hk Hy HM.
  apply (is_RInt_ext (fun t => (k * Rpower y (k - 1)) * exp (- t))).
  - intros t Ht. rewrite Rmin_left, Rmax_right in Ht by lra.
    unfold gamma_kernel. replace (k + 1 - 1) with k by ring.
    assert (Rpower t k * Rpower t (- k) = 1) as E.
    { rewrite <- Rpower_plus. replace (k + - k) with 0 by ring. apply Rpower_O. lra. }
    replace (Rpower t k * exp (- t) * (k * Rpower y (k - 1) * Rpower t (- k)))
      with (k * Rpower y (k - 1) * exp (- t) * (Rpower t k * Rpower t (- k))) by ring.
    rewrite E. symmetry. apply Rmult_1_r.
  - replace (k * Rpower y (k - 1) * (exp (- y) - exp (- M)))
      with (scal (k * Rpower y (k - 1)) (minus (- exp (- M)) (- exp (- y)))) by (unfold scal, minus, plus, opp; cbn; unfold mult; cbn; ring).
    apply (is_RInt_scal (fun t => exp (- t))).
    apply (is_RInt_derive (fun t => - exp (- t)) (fun t => exp (- t))).
    + intros t _. auto_derive; [exact I|ring].
    + intros t _. apply continuity_pt_filterlim. apply derivable_continuous_pt.
      apply (derivable_pt_comp (fun x => - x) exp); [apply derivable_pt_opp, derivable_pt_id|apply derivable_pt_exp].
Qed.

(* ... which tends to k * y^(k-1) e^-y = k * (Gamma(k) kernel at y) as M -> infinity; with Gamma(k+1) = k Gamma(k)
   the normalised density of the boosted variate is the Gamma(k) density.  (The interchange of d/dy with the
   t-integral and the passage to the law of the sampler are the bridge B1-B4, not formalised.) *)
Theorem gamma_boost_kernel_limit : forall k y, 0 < k -> 0 < y ->
  is_lim (fun M => k * Rpower y (k - 1) * (exp (- y) - exp (- M))) p_infty (k * gamma_kernel k y).
Proof.
  intros k y Hk Hy. unfold gamma_kernel.
  replace (k * (Rpower y (k - 1) * exp (- y))) with (k * Rpower y (k - 1) * (exp (- y) - 0)) by ring.
  apply (is_lim_scal_l (fun M => exp (- y) - exp (- M)) (k * Rpower y (k - 1)) p_infty (exp (- y) - 0)).
  apply (is_lim_minus' (fun _ => exp (- y)) (fun M => exp (- M)) p_infty (exp (- y)) 0).
  - apply is_lim_const.
  - apply (is_lim_comp exp Ropp p_infty 0 m_infty).
    + apply is_lim_exp_m.
    + replace m_infty with (Rbar_opp p_infty) by reflexivity. apply is_lim_opp. apply is_lim_id.
    + exists 0. intros x _. discriminate.
Qed.
