(* Proofs/GuardProofs.v — C04, part 1: constructors whose validation consists of comparisons and
   classification of the arguments only.  Every theorem is for ALL floats of ANY binary format
   (prec, emax), in particular binary32 and binary64.                                          *)
From Coq Require Import ZArith List Bool String Reals Lra Lia.
From Flocq Require Import Core.Core IEEE754.Binary IEEE754.Bits IEEE754.BinarySingleNaN.
From RD Require Import Model.Guards Model.GuardSpec Proofs.GuardLemmas Proofs.GuardArith.
Import ListNotations.
Open Scope R_scope.

Section Fmt.
Variable prec emax : Z.
Context (Hp : Prec_gt_0 prec) (Hpe : Prec_lt_emax prec emax).
Notation float := (binary_float prec emax).

Theorem Normal_new_sound (mean std_dev : float) :
  agrees (Normal_new prec emax mean std_dev) (spec_Normal_new prec emax mean std_dev).
Proof. unfold Normal_new, spec_Normal_new. fsplit std_dev; guard_auto. Qed.

Theorem Normal_from_mean_cv_sound (mean cv : float) :
  agrees (Normal_from_mean_cv prec emax mean cv) (spec_Normal_from_mean_cv prec emax mean cv).
Proof. unfold Normal_from_mean_cv, spec_Normal_from_mean_cv. fsplit cv; fsplit mean; guard_auto. Qed.

Theorem LogNormal_new_sound (mu sigma : float) :
  agrees (LogNormal_new prec emax mu sigma) (spec_LogNormal_new prec emax mu sigma).
Proof. unfold LogNormal_new, Normal_new, spec_LogNormal_new. fsplit sigma; guard_auto. Qed.

Theorem Exp_new_sound (lambda : float) :
  agrees (Exp_new prec emax lambda) (spec_Exp_new prec emax lambda).
Proof.
  unfold Exp_new, spec_Exp_new, f_is_sign_negative, f_is_nan, v_lt, v_nan, Bltb, Bcompare.
  destruct lambda as [[|]|[|]| |[|] m e H]; cbn; auto.
Qed.

Theorem Gamma_new_sound (shape scale : float) :
  agrees (Gamma_new prec emax Hp Hpe shape scale) (spec_Gamma_new prec emax shape scale).
Proof.
  rewrite Gamma_new_eq. unfold spec_Gamma_new. fsplit shape; fsplit scale; guard_auto.
Qed.

Theorem Beta_new_sound (alpha beta : float) :
  agrees (Beta_new prec emax alpha beta) (spec_Beta_new prec emax alpha beta).
Proof. unfold Beta_new, spec_Beta_new. fsplit alpha; fsplit beta; guard_auto. Qed.

Theorem Triangular_new_sound (min max mode : float) :
  agrees (Triangular_new prec emax min max mode) (spec_Triangular_new prec emax min max mode).
Proof.
  unfold Triangular_new, spec_Triangular_new. fsplit min; fsplit max; fsplit mode; guard_auto.
Qed.

Theorem Cauchy_new_sound (median scale : float) :
  agrees (Cauchy_new prec emax median scale) (spec_Cauchy_new prec emax median scale).
Proof. unfold Cauchy_new, spec_Cauchy_new. fsplit scale; guard_auto. Qed.

Theorem Pareto_new_sound (scale shape : float) :
  agrees (Pareto_new prec emax scale shape) (spec_Pareto_new prec emax scale shape).
Proof. unfold Pareto_new, spec_Pareto_new. fsplit scale; fsplit shape; guard_auto. Qed.

Theorem Weibull_new_sound (scale shape : float) :
  agrees (Weibull_new prec emax scale shape) (spec_Weibull_new prec emax scale shape).
Proof. unfold Weibull_new, spec_Weibull_new. fsplit scale; fsplit shape; guard_auto. Qed.

Theorem InverseGaussian_new_sound (mean shape : float) :
  agrees (InverseGaussian_new prec emax mean shape) (spec_InverseGaussian_new prec emax mean shape).
Proof. unfold InverseGaussian_new, spec_InverseGaussian_new. fsplit mean; fsplit shape; guard_auto. Qed.

Theorem Gumbel_new_sound (location scale : float) :
  agrees (Gumbel_new prec emax location scale) (spec_Gumbel_new prec emax location scale).
Proof. unfold Gumbel_new, spec_Gumbel_new. fsplit location; fsplit scale; guard_auto. Qed.

Theorem Frechet_new_sound (location scale shape : float) :
  agrees (Frechet_new prec emax location scale shape) (spec_Frechet_new prec emax location scale shape).
Proof.
  unfold Frechet_new, spec_Frechet_new. fsplit location; fsplit scale; fsplit shape; guard_auto.
Qed.

Theorem SkewNormal_new_sound (location scale shape : float) :
  agrees (SkewNormal_new prec emax location scale shape)
         (spec_SkewNormal_new prec emax location scale shape).
Proof.
  unfold SkewNormal_new, spec_SkewNormal_new. fsplit scale; fsplit shape; guard_auto.
Qed.

Theorem Zeta_new_sound (s : float) :
  agrees (Zeta_new prec emax Hp Hpe s) (spec_Zeta_new prec emax Hp Hpe s).
Proof. unfold Zeta_new, spec_Zeta_new. fsplit s; guard_auto. Qed.

Theorem Geometric_new_sound (p : float) :
  agrees (Geometric_new prec emax Hp Hpe p) (spec_Geometric_new prec emax Hp Hpe p).
Proof. unfold Geometric_new, spec_Geometric_new. fsplit p; guard_auto. Qed.

End Fmt.
