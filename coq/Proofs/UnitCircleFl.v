(* Proofs/UnitCircleFl.v — property C12 at the IEEE level for the first component of UnitCircle::sample (unit_circle.rs:49-63),
   libm-free:   sum = x1*x1 + x2*x2;  accepted iff sum < 1 && sum > 0;  diff = x1*x1 - x2*x2;  return [diff / sum, 2*x1*x2 / sum].
   For finite x1, x2 in [-1, 1] with a positive float sum: |diff| <= sum holds between the FLOATS (rounding is monotone and odd), so the
   first component diff / sum is a finite float in [-1, 1] exactly - never NaN, never beyond +-1; the numerator 2*x1*x2 of the second
   is a finite float of magnitude <= 2.  (The second quotient and the norm-1 clause need a rounding analysis that is not done here.) *)
From Coq Require Import ZArith Bool Reals Lra Lia.
From Flocq Require Import Core.Core IEEE754.BinarySingleNaN.
From RD Require Import Proofs.FlConst Proofs.TriangularFl.
Open Scope R_scope.

Section Fmt.
Variable prec emax : Z.
Context (Hp : Prec_gt_0 prec) (Hpe : Prec_lt_emax prec emax).
Notation float := (binary_float prec emax).
Notation fexp := (SpecFloat.fexp prec emax).
Notation rnd := (round radix2 fexp (round_mode mode_NE)).
Notation bf := (bf prec emax).
Notation Btwo := (Btwo prec emax Hp Hpe).

Local Instance cfexp_valid : Valid_exp fexp := fexp_correct prec emax Hp.

Definition circle_sum_fl (x1 x2 : float) : float := Bplus mode_NE (Bmult mode_NE x1 x1) (Bmult mode_NE x2 x2).
Definition circle_diff_fl (x1 x2 : float) : float := Bminus mode_NE (Bmult mode_NE x1 x1) (Bmult mode_NE x2 x2).
Definition circle_accept_fl (sum : float) : bool := Bltb sum Bone && Bltb (B754_zero false) sum.
Definition circle_c0_fl (diff sum : float) : float := Bdiv mode_NE diff sum.
Definition circle_c1_fl (x1 x2 sum : float) : float := Bdiv mode_NE (Bmult mode_NE (Bmult mode_NE Btwo x1) x2) sum.

Lemma emax_gt_1 : (1 < emax)%Z.
Proof. unfold Prec_gt_0, Prec_lt_emax in * . lia. Qed.

Lemma sq_bf (x : float) : is_finite x = true -> Rabs (B2R x) <= 1 -> bf 0 (Bmult mode_NE x x).
Proof.
  intros Fx Hx. pose proof (Bmult_correct prec emax Hp Hpe mode_NE x x) as M. apply Rabs_le_inv in Hx.
  assert (0 <= B2R x * B2R x <= bpow radix2 0) as Q by (simpl; split; nra).
  pose proof (rnd_range prec emax Hp Hpe _ 0 ltac:(lia) Q) as RQ. pose proof emax_gt_1 as E1.
  assert (0 <= 0)%Z as Z0 by lia. assert (0 < emax)%Z as E0 by lia.
  rewrite Rlt_bool_true in M by (apply (no_ovf prec emax Hp Hpe _ 0 Z0 E0); rewrite Rabs_pos_eq; lra).
  destruct M as (V & F & _). split; [rewrite F, Fx; reflexivity|rewrite V; exact RQ].
Qed.

Section Sample.
Variables x1 x2 : float.
Hypotheses (F1 : is_finite x1 = true) (F2 : is_finite x2 = true) (H1 : Rabs (B2R x1) <= 1) (H2 : Rabs (B2R x2) <= 1).
Hypothesis Hpos : 0 < B2R (circle_sum_fl x1 x2).

Theorem circle_c0_fl_unit :
  is_finite (circle_sum_fl x1 x2) = true /\ is_finite (circle_diff_fl x1 x2) = true /\
  Rabs (B2R (circle_diff_fl x1 x2)) <= B2R (circle_sum_fl x1 x2) /\
  is_finite (circle_c0_fl (circle_diff_fl x1 x2) (circle_sum_fl x1 x2)) = true /\
  Rabs (B2R (circle_c0_fl (circle_diff_fl x1 x2) (circle_sum_fl x1 x2))) <= 1.
Proof.
  destruct (sq_bf x1 F1 H1) as [Fa Ha]. destruct (sq_bf x2 F2 H2) as [Fb Hb]. simpl (bpow radix2 0) in Ha, Hb.
  pose proof emax_gt_1 as E1. assert (0 <= 1)%Z as Z1 by lia. assert (0 <= 0)%Z as Z0 by lia. assert (0 < emax)%Z as E0 by lia.
  unfold circle_sum_fl, circle_diff_fl in * . set (a := Bmult mode_NE x1 x1) in * . set (b := Bmult mode_NE x2 x2) in * .
  (* sum *)
  pose proof (Bplus_correct prec emax Hp Hpe mode_NE a b Fa Fb) as MS.
  assert (Rabs (B2R a + B2R b) <= bpow radix2 1) as QS by (change (bpow radix2 1) with 2; rewrite Rabs_pos_eq; lra).
  rewrite Rlt_bool_true in MS by exact (no_ovf prec emax Hp Hpe _ 1 Z1 E1 QS).
  destruct MS as (VS & FS & _).
  (* diff *)
  pose proof (Bminus_correct prec emax Hp Hpe mode_NE a b Fa Fb) as MD.
  assert (Rabs (B2R a - B2R b) <= bpow radix2 0) as QD by (simpl; apply Rabs_le; lra).
  rewrite Rlt_bool_true in MD by exact (no_ovf prec emax Hp Hpe _ 0 Z0 E0 QD).
  destruct MD as (VD & FD & _).
  (* |rnd (a - b)| <= rnd (a + b) *)
  assert (Rabs (B2R (Bminus mode_NE a b)) <= B2R (Bplus mode_NE a b)) as LE.
  { rewrite VD, VS. apply Rabs_le. split.
    - replace (- rnd (B2R a + B2R b)) with (rnd (- (B2R a + B2R b))) by (apply (round_NE_opp radix2 fexp)).
      apply round_le; [exact cfexp_valid|typeclasses eauto|lra].
    - apply round_le; [exact cfexp_valid|typeclasses eauto|lra]. }
  split; [exact FS|]. split; [exact FD|]. split; [exact LE|].
  (* the quotient *)
  set (d := Bminus mode_NE a b) in * . set (s := Bplus mode_NE a b) in * .
  assert (B2R s <> 0) as Ns by lra.
  pose proof (Bdiv_correct prec emax Hp Hpe mode_NE d s Ns) as MQ.
  assert (Rabs (B2R d / B2R s) <= bpow radix2 0) as QQ.
  { simpl. unfold Rdiv. rewrite Rabs_mult, (Rabs_pos_eq (/ B2R s)) by (left; apply Rinv_0_lt_compat; exact Hpos).
    apply Rmult_le_reg_r with (B2R s); [exact Hpos|]. rewrite Rmult_assoc, Rinv_l by exact Ns. lra. }
  rewrite Rlt_bool_true in MQ by exact (no_ovf prec emax Hp Hpe _ 0 Z0 E0 QQ).
  destruct MQ as (VQ & FQ & _). unfold circle_c0_fl. split; [rewrite FQ; exact FD|].
  rewrite VQ. change 1 with (bpow radix2 0). apply (rnd_abs_le prec emax Hp Hpe); [exact Z0|exact QQ].
Qed.
End Sample.
End Fmt.
