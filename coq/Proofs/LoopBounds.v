(* Proofs/LoopBounds.v — property C05 on the discrete sampler models of Model/Discrete.v: the inner
   loops never exhaust their fuel for valid parameters (failure code 2 is unreachable, or reachable
   only on explicitly characterised word lists) and the number of 64-bit words consumed is bounded.

   `evals r v` (Base/Run.v) says that the exact semantics of the tree r returns v; its companion
   `fails r c` (below) says that the exact semantics reaches the leaf `Fail c`.  `allout P Q r` is
   the structural predicate "every returned value satisfies P and every reachable failure code
   satisfies Q" (the two-sided version of `allsem` of Proofs/Support.v).                          *)
From Coq Require Import Reals ZArith List Lra Lia Bool.
From Interval Require Import Xreal.
From Flocq Require Import Core.
From RD Require Import Base.Expr Base.Run Model.Sampler Model.Continuous Model.Discrete Model.Multi
  Proofs.LawsInvCdf Proofs.RunSound Proofs.Support Proofs.LoopBoundsFloat.
Import ListNotations.
Open Scope Z_scope.
Open Scope sampler_scope.

Local Notation "a +. b" := (Bin Add a b) (at level 50, left associativity).
Local Notation "a -. b" := (Bin Sub a b) (at level 50, left associativity).
Local Notation "a *. b" := (Bin Mul a b) (at level 40, left associativity).
Local Notation "a /. b" := (Bin Div a b) (at level 40, left associativity).

(* ---- reachable failures ------------------------------------------------------------------------- *)
Inductive fails {A} : run A -> Z -> Prop :=
| FlFail code : fails (Fail code) code
| FlAsk c a b k x y code : evalX a = Xreal x -> evalX b = Xreal y -> fails (k (rcmp c x y)) code ->
    fails (Ask c a b k) code
| FlFloor e k x code : evalX e = Xreal x -> fails (k (Zfloor x)) code -> fails (AskFloor e k) code.

Fixpoint allout {A} (P : A -> Prop) (Q : Z -> Prop) (r : run A) : Prop :=
  match r with
  | Ret a => P a
  | Ask c a b k => forall x y, evalX a = Xreal x -> evalX b = Xreal y -> allout P Q (k (rcmp c x y))
  | AskFloor e k => forall x, evalX e = Xreal x -> allout P Q (k (Zfloor x))
  | Fail c => Q c
  end.

Lemma allout_spec {A} (P : A -> Prop) (Q : Z -> Prop) r :
  allout P Q r <-> (forall v, evals r v -> P v) /\ (forall c, fails r c -> Q c).
Proof.
  split.
  - intros H. split.
    + intros v E. induction E; cbn in H; auto.
    + intros c E. induction E; cbn in H; auto.
  - induction r as [a|c a b k IH|e k IH|c]; cbn; intros [H1 H2].
    + apply H1. constructor.
    + intros x y Hx Hy. apply IH. split.
      * intros v E. apply H1. eapply EvAsk; eauto.
      * intros c' E. apply H2. eapply FlAsk; eauto.
    + intros x Hx. apply IH. split.
      * intros v E. apply H1. eapply EvFloor; eauto.
      * intros c' E. apply H2. eapply FlFloor; eauto.
    + apply H2. constructor.
Qed.
Lemma allout_evals {A} (P : A -> Prop) Q r v : allout P Q r -> evals r v -> P v.
Proof. intros H. apply allout_spec in H. now apply H. Qed.
Lemma allout_fails {A} (P : A -> Prop) Q r c : allout P Q r -> fails r c -> Q c.
Proof. intros H. apply allout_spec in H. now apply H. Qed.
Lemma allout_mono {A} (P P' : A -> Prop) (Q Q' : Z -> Prop) r :
  (forall a, P a -> P' a) -> (forall c, Q c -> Q' c) -> allout P Q r -> allout P' Q' r.
Proof. intros H1 H2. induction r; cbn; auto. Qed.
Lemma allout_bind {A B} (P : B -> Prop) Q (r : run A) (k : A -> run B) :
  allout (fun a => allout P Q (k a)) Q r -> allout P Q (bind r k).
Proof. induction r; cbn; auto. Qed.
Lemma allout_sbind {A B} (P : A * list Z -> Prop) (P' : B * list Z -> Prop) (Q Q' : Z -> Prop) (m : sampler A) (k : A -> sampler B) ws :
  allout P Q (m ws) -> (forall c, Q c -> Q' c) -> (forall a ws', P (a, ws') -> allout P' Q' (k a ws')) ->
  allout P' Q' (sbind m k ws).
Proof.
  intros Hm HQ Hk. unfold sbind. apply allout_bind. eapply allout_mono; [| |exact Hm]; [|exact HQ].
  intros [a ws'] Ha. apply Hk, Ha.
Qed.
(* a tree is either defined, failing, or stuck on an undefined expression; never both of the first two *)
Lemma evals_fails_excl {A} (r : run A) v c : evals r v -> fails r c -> False.
Proof.
  intros E. induction E as [a|c0 a b k x y v Ea Eb E IH|e k x v Ee E IH]; intros F.
  - inversion F.
  - inversion F as [|c1 a1 b1 k1 x1 y1 code Ea1 Eb1 F1|]; subst.
    rewrite Ea in Ea1. rewrite Eb in Eb1. injection Ea1 as <-. injection Eb1 as <-. auto.
  - inversion F as [| |e1 k1 x1 code Ee1 F1]; subst.
    rewrite Ee in Ee1. injection Ee1 as <-. auto.
Qed.

Ltac lstep := cbn [sbind bind draw_open draw_std draw_oc next_word sret sask sfail allout negb fst snd].

Definition nat_lt_fuel (n : nat) (ws : list Z) : Prop := (length ws < n)%nat.

(* ---- (a) StandardGeometric ---------------------------------------------------------------------- *)
Lemma lz64_range w : word w -> 0 <= leading_zeros64 w <= 64 /\ (leading_zeros64 w = 64 <-> w = 0).
Proof.
  intros [H0 H1]. unfold leading_zeros64. destruct (Z.leb_spec w 0) as [L|L].
  - split; [lia|]. split; lia.
  - pose proof (Z.log2_nonneg w). assert (Z.log2 w < 64) by (apply Z.log2_lt_pow2; lia).
    split; [lia|]. split; lia.
Qed.

(* the loop returns result + 64 j + lz(w_j) after reading j zero words and one nonzero word; it runs
   out of fuel exactly when the first `fuel` words are all zero *)
Definition std_geo_post (fuel : nat) (result : Z) (ws : list Z) (p : Z * list Z) : Prop :=
  result <= fst p /\ (fst p - result) / 64 < Z.of_nat fuel /\
  length ws = (length (snd p) + Z.to_nat ((fst p - result) / 64) + 1)%nat.
Definition std_geo_fail (fuel : nat) (ws : list Z) (c : Z) : Prop :=
  (c = 1 /\ (length ws < fuel)%nat /\ Forall (fun w => w = 0) ws) \/
  (c = 2 /\ (fuel <= length ws)%nat /\ Forall (fun w => w = 0) (firstn fuel ws)).

Lemma std_geometric_loop_spec fuel : forall result ws, Forall word ws ->
  allout (std_geo_post fuel result ws) (std_geo_fail fuel ws) (std_geometric_loop fuel result ws).
Proof.
  induction fuel as [|f IH]; intros result ws Hw.
  - cbn. right. split; [reflexivity|]. split; [lia|constructor].
  - destruct ws as [|w ws']; cbn [std_geometric_loop]; lstep.
    + left. split; [reflexivity|]. split; [cbn; lia|constructor].
    + inversion Hw as [|? ? Hb Hws]; subst. destruct (lz64_range w Hb) as [R Z0].
      destruct (Z.ltb_spec (leading_zeros64 w) 64) as [L|L]; lstep.
      * unfold std_geo_post. cbn [fst snd length].
        replace (result + leading_zeros64 w - result) with (leading_zeros64 w) by ring.
        rewrite Z.div_small by lia. cbn. lia.
      * assert (leading_zeros64 w = 64) as E by lia. rewrite E. apply Z0 in E. subst w.
        eapply allout_mono; [| |apply (IH (result + 64) ws' Hws)].
        -- intros [x rest]. unfold std_geo_post. cbn [fst snd length]. intros (A & B & C).
           replace (x - result) with ((x - (result + 64)) + 1 * 64) by ring.
           rewrite Z.div_add by lia.
           assert (0 <= (x - (result + 64)) / 64) by (apply Z.div_pos; lia).
           split; [lia|]. split; [lia|]. rewrite C. rewrite Z2Nat.inj_add by lia. cbn. lia.
        -- intros c [(C1 & C2 & C3)|(C1 & C2 & C3)]; [left|right]; (split; [exact C1|]); cbn [length firstn];
             (split; [lia|constructor; auto]).
Qed.

(* StandardGeometric: the result x is nonnegative and exactly x / 64 + 1 words are consumed *)
Theorem std_geometric_words ws x rest : Forall word ws -> evals (std_geometric ws) (x, rest) ->
  0 <= x < 64 * 64 /\ length ws = (length rest + Z.to_nat (x / 64) + 1)%nat.
Proof.
  intros Hw E. pose proof (allout_evals _ _ _ _ (std_geometric_loop_spec 64 0 ws Hw) E) as (A & B & C).
  cbn [fst snd] in * . rewrite Z.sub_0_r in * . split; [|exact C].
  split; [exact A|]. change (Z.of_nat 64) with 64 in B.
  destruct (Z.lt_ge_cases x (64 * 64)) as [L|L]; [exact L|]. exfalso.
  assert (64 <= x / 64) by (apply Z.div_le_lower_bound; lia). lia.
Qed.
(* the fuel (64 iterations) is exhausted only by 64 consecutive zero words *)
Theorem std_geometric_fuel ws : Forall word ws -> fails (std_geometric ws) 2 ->
  (64 <= length ws)%nat /\ Forall (fun w => w = 0) (firstn 64 ws).
Proof.
  intros Hw E. destruct (allout_fails _ _ _ _ (std_geometric_loop_spec 64 0 ws Hw) E) as [(C & _)|(_ & A & B)].
  - discriminate C.
  - split; assumption.
Qed.
Corollary std_geometric_no_fuel_exhaustion ws : Forall word ws -> (exists w, In w (firstn 64 ws) /\ w <> 0) ->
  ~ fails (std_geometric ws) 2.
Proof.
  intros Hw [w [Hi Hn]] E. destruct (std_geometric_fuel ws Hw E) as [_ F].
  rewrite Forall_forall in F. apply Hn, F, Hi.
Qed.

(* ---- (b) Binomial: BINV ------------------------------------------------------------------------------ *)
(* the inner loop reads no word, cannot fail, returns Some x with x <= 110 or None, and needs at most
   111 - x evaluations of its condition: fuel >= 111 - x (the model gives 112 from x = 0) is never exhausted *)
Lemma binv_inner_spec fuel : forall a s u r x ws, 0 <= x <= 110 -> 111 - x <= Z.of_nat fuel ->
  allout (fun p => snd p = ws /\ match fst p with Some y => x <= y <= 110 | None => True end) (fun _ => False)
         (binv_inner fuel a s u r x ws).
Proof.
  induction fuel as [|f IH]; intros a s u r x ws Hx Hf; [lia|].
  cbn [binv_inner]. lstep. intros x0 y0 _ _. destruct (rcmp CGt x0 y0); lstep.
  - destruct (Z.ltb_spec 110 (x + 1)) as [L|L]; lstep.
    + split; [reflexivity|exact I].
    + eapply allout_mono; [| |apply IH; lia]; [|auto].
      intros [[y|] rest]; cbn [fst snd]; intros [A B]; (split; [exact A|]); [lia|exact I].
  - split; [reflexivity|lia].
Qed.
Theorem binv_inner_no_fuel_exhaustion fuel a s u r ws : (111 <= fuel)%nat ->
  forall c, ~ fails (binv_inner fuel a s u r 0 ws) c.
Proof.
  intros Hf c E. refine (allout_fails _ _ _ _ (binv_inner_spec fuel a s u r 0 ws _ _) E); lia.
Qed.
Theorem binv_inner_result fuel a s u r ws o rest : (111 <= fuel)%nat ->
  evals (binv_inner fuel a s u r 0 ws) (o, rest) ->
  rest = ws /\ match o with Some y => 0 <= y <= 110 | None => True end.
Proof.
  intros Hf E. refine (allout_evals _ _ _ _ (binv_inner_spec fuel a s u r 0 ws _ _) E); lia.
Qed.

(* the outer loop: every restart (x exceeded 110) consumes exactly one word; the only failures are
   running out of words, or `fuel` restarts in a row (each on a fresh word) *)
Definition words_fail (fuel : nat) (ws : list Z) (c : Z) : Prop :=
  (c = 1 /\ (length ws < fuel)%nat) \/ (c = 2 /\ (fuel <= length ws)%nat).

Lemma binv_outer_spec fuel : forall r a s ws,
  allout (fun p => 0 <= fst p <= 110 /\
                   exists j, (1 <= j <= fuel)%nat /\ length ws = (length (snd p) + j)%nat)
         (words_fail fuel ws) (binv_outer fuel r a s ws).
Proof.
  induction fuel as [|f IH]; intros r a s ws.
  - cbn. right. split; [reflexivity|lia].
  - destruct ws as [|w ws']; cbn [binv_outer]; lstep.
    + left. split; [reflexivity|cbn; lia].
    + eapply allout_sbind; [apply (binv_inner_spec 112 a s (u_std F64 w) r 0 ws'); cbn; lia| |].
      * intros c [].
      * intros [y|] ws1; cbn [fst snd]; intros [-> B]; lstep.
        -- split; [lia|]. exists 1%nat. cbn [length]. lia.
        -- eapply allout_mono; [| |apply IH].
           ++ intros [x rest]; cbn [fst snd length]. intros [A [j [J1 J2]]]. split; [exact A|].
              exists (S j). lia.
           ++ intros c [[C1 C2]|[C1 C2]]; [left|right]; cbn [length]; (split; [exact C1|lia]).
Qed.
Theorem binv_outer_words fuel r a s ws x rest : evals (binv_outer fuel r a s ws) (x, rest) ->
  0 <= x <= 110 /\ exists j, (1 <= j <= fuel)%nat /\ length ws = (length rest + j)%nat.
Proof. intros E. exact (allout_evals _ _ _ _ (binv_outer_spec fuel r a s ws) E). Qed.
Theorem binv_outer_fail fuel r a s ws c : fails (binv_outer fuel r a s ws) c ->
  (c = 1 /\ (length ws < fuel)%nat) \/ (c = 2 /\ (fuel <= length ws)%nat).
Proof. intros E. exact (allout_fails _ _ _ _ (binv_outer_spec fuel r a s ws) E). Qed.

(* ---- (c) Poisson: Knuth's product loop ---------------------------------------------------------------- *)
Lemma knuth_loop_spec fuel : forall t el p result ws,
  allout (fun q => result - 1 <= fst q /\ fst q - (result - 1) < Z.of_nat fuel /\
                   length ws = (length (snd q) + Z.to_nat (fst q - (result - 1)))%nat)
         (words_fail fuel ws) (knuth_loop fuel t el p result ws).
Proof.
  induction fuel as [|f IH]; intros t el p result ws.
  - cbn. right. split; [reflexivity|lia].
  - cbn [knuth_loop]. lstep. intros x y _ _. destruct (rcmp CGt x y); lstep.
    + destruct ws as [|w ws']; lstep.
      * left. split; [reflexivity|cbn; lia].
      * eapply allout_mono; [| |apply IH].
        -- intros [z rest]; cbn [fst snd length]. intros (A & B & C).
           split; [lia|]. split; [lia|]. rewrite C.
           replace (z - (result - 1)) with ((z - (result + 1 - 1)) + 1) by ring.
           rewrite Z2Nat.inj_add by lia. cbn. lia.
        -- intros c [[C1 C2]|[C1 C2]]; [left|right]; cbn [length]; (split; [exact C1|lia]).
    + split; [lia|]. split; [lia|]. rewrite Z.sub_diag. cbn. lia.
Qed.
(* Knuth: the result x is nonnegative, below the fuel, and exactly x + 1 words are consumed *)
Theorem knuth_words t lambda ws x rest : evals (knuth t lambda ws) (x, rest) ->
  0 <= x < 1024 /\ length ws = (length rest + Z.to_nat x + 1)%nat.
Proof.
  intros E. unfold knuth in E. destruct ws as [|w ws']; lstep; [inversion E|].
  cbn [sbind draw_std next_word bind sret] in E.
  pose proof (allout_evals _ _ _ _ (knuth_loop_spec 1024 t _ _ 1 ws') E) as (A & B & C).
  cbn [fst snd] in * . rewrite Z.sub_diag, Z.sub_0_r in * . cbn [length]. split; [|lia].
  change (Z.of_nat 1024) with 1024 in B. lia.
Qed.
Theorem knuth_fail t lambda ws c : fails (knuth t lambda ws) c ->
  (c = 1 /\ (length ws < 1025)%nat) \/ (c = 2 /\ (1025 <= length ws)%nat).
Proof.
  intros E. unfold knuth in E. destruct ws as [|w ws']; lstep.
  - cbn [sbind draw_std next_word bind] in E. inversion E; subst. left. split; [reflexivity|cbn; lia].
  - cbn [sbind draw_std next_word bind sret] in E.
    destruct (allout_fails _ _ _ _ (knuth_loop_spec 1024 t _ _ 1 ws') E) as [[C1 C2]|[C1 C2]];
      [left|right]; cbn [length]; (split; [exact C1|lia]).
Qed.

(* ---- (d) Hypergeometric: HIN ------------------------------------------------------------------------- *)
(* the loop reads no word, cannot fail when fuel > min(n1,k) - x, and returns x <= result <= max x (min n1 k) *)
Lemma hin_loop_spec fuel : forall n1 n2 k u p x ws, Z.max 0 (Z.min n1 k - x) < Z.of_nat fuel ->
  allout (fun q => snd q = ws /\ x <= fst q <= Z.max x (Z.min n1 k)) (fun _ => False)
         (hin_loop fuel n1 n2 k u p x ws).
Proof.
  induction fuel as [|f IH]; intros n1 n2 k u p x ws Hf; [lia|].
  cbn [hin_loop]. lstep. intros x0 y0 _ _. destruct (rcmp CGt x0 y0); cbn [andb]; lstep.
  - destruct (Z.ltb_spec x (Z.min n1 k)) as [L|L]; lstep.
    + eapply allout_mono; [| |apply IH; lia]; [|auto].
      intros [y rest]; cbn [fst snd]. intros [A B]. split; [exact A|lia].
    + split; [reflexivity|lia].
  - split; [reflexivity|lia].
Qed.
(* with the fuel the model supplies (min(n1,k) - x0 + 2) the loop never fails, and makes at most
   min(n1,k) - x0 iterations: x0 <= result <= min(n1,k) *)
Theorem hin_loop_no_fuel_exhaustion n1 n2 k u p x0 ws c : x0 <= Z.min n1 k ->
  ~ fails (hin_loop (Z.to_nat (Z.min n1 k - x0) + 2) n1 n2 k u p x0 ws) c.
Proof.
  intros H E. refine (allout_fails _ _ _ _ (hin_loop_spec _ n1 n2 k u p x0 ws _) E). lia.
Qed.
Theorem hin_loop_result n1 n2 k u p x0 ws x rest : x0 <= Z.min n1 k ->
  evals (hin_loop (Z.to_nat (Z.min n1 k - x0) + 2) n1 n2 k u p x0 ws) (x, rest) ->
  rest = ws /\ x0 <= x <= Z.min n1 k.
Proof.
  intros H E.
  assert (Z.max 0 (Z.min n1 k - x0) < Z.of_nat (Z.to_nat (Z.min n1 k - x0) + 2)) as Hf by lia.
  pose proof (allout_evals _ _ _ _ (hin_loop_spec _ n1 n2 k u p x0 ws Hf) E) as [A B].
  cbn [fst snd] in * . split; [exact A|lia].
Qed.

(* ---- (e) product loops of BTPE step 5.1 and H2PE step 4.1 --------------------------------------------- *)
(* btpe_up multiplies exactly cnt factors g(i+1) .. g(i+cnt), btpe_down divides by exactly cnt of them *)
Definition btpe_g (a s : expr) (j : Z) : expr := a /. zf j -. s.
Definition idx (i : Z) (cnt : nat) : list Z := map (fun j => i + Z.of_nat j) (seq 1 cnt).
Definition omul (f : option expr) (g : expr) : option expr := Some (match f with None => g | Some f0 => f0 *. g end).
Definition oget (f : option expr) : expr := match f with None => one | Some f0 => f0 end.

Lemma idx_length i cnt : length (idx i cnt) = cnt.
Proof. unfold idx. now rewrite map_length, seq_length. Qed.
Lemma idx_S i cnt : idx i (S cnt) = (i + 1) :: idx (i + 1) cnt.
Proof.
  unfold idx. cbn [seq map]. f_equal. rewrite <- seq_shift, map_map. apply map_ext.
  intros j. lia.
Qed.
Lemma btpe_up_fold cnt : forall a s i f,
  btpe_up cnt a s i f = oget (fold_left (fun acc j => omul acc (btpe_g a s j)) (idx i cnt) f).
Proof.
  induction cnt as [|c IH]; intros a s i f; [reflexivity|].
  rewrite idx_S. cbn [btpe_up fold_left]. rewrite IH. reflexivity.
Qed.
Lemma btpe_down_fold cnt : forall a s i f,
  btpe_down cnt a s i f = fold_left (fun acc j => acc /. btpe_g a s j) (idx i cnt) f.
Proof.
  induction cnt as [|c IH]; intros a s i f; [reflexivity|].
  rewrite idx_S. cbn [btpe_down fold_left]. rewrite IH. reflexivity.
Qed.
(* in step 5.1 the iteration count is |y - m| *)
Lemma btpe_51_count m y :
  (m < y -> Z.to_nat (y - m) = Z.abs_nat (y - m)) /\ (y < m -> Z.to_nat (m - y) = Z.abs_nat (y - m)).
Proof. split; intros H; lia. Qed.

(* H2PE 4.1: the product loops read no word and can only fail with the code-3 panic (u64 underflow) *)
Lemma h2pe_up_spec cnt : forall n1 n2 k i f ws,
  allout (fun q => snd q = ws) (fun c => c = 3) (h2pe_up cnt n1 n2 k i f ws).
Proof.
  induction cnt as [|c IH]; intros n1 n2 k i f ws; cbn [h2pe_up]; lstep; [reflexivity|].
  destruct ((n1 <? i + 1) || (k <? i + 1)); lstep; [reflexivity|apply IH].
Qed.
Lemma h2pe_down_spec cnt : forall n1 n2 k i f ws,
  allout (fun q => snd q = ws) (fun c => c = 3) (h2pe_down cnt n1 n2 k i f ws).
Proof.
  induction cnt as [|c IH]; intros n1 n2 k i f ws; cbn [h2pe_down]; lstep; [reflexivity|].
  destruct ((n1 <? i + 1) || (k <? i + 1)); lstep; [reflexivity|apply IH].
Qed.
(* ... and do not panic when the index range stays within min(n1,k); the result is a product of
   exactly cnt steps (structural recursion on cnt) *)
Definition h2pe_step_up (n1 n2 k : Z) (f : option expr) (i : Z) : option expr :=
  fdiv (fmul f (zf (n1 - i + 1) *. zf (k - i + 1))) (zf i *. zf (n2 - k + i)).
Definition h2pe_step_down (n1 n2 k : Z) (f : option expr) (i : Z) : option expr :=
  fdiv (fmul f (zf i *. zf (n2 - k + i))) (zf (n1 - i + 1) *. zf (k - i + 1)).
Lemma h2pe_up_value cnt : forall n1 n2 k i f ws, i + Z.of_nat cnt <= Z.min n1 k ->
  h2pe_up cnt n1 n2 k i f ws = Ret (oget (fold_left (h2pe_step_up n1 n2 k) (idx i cnt) f), ws).
Proof.
  induction cnt as [|c IH]; intros n1 n2 k i f ws H; [reflexivity|].
  rewrite idx_S. cbn [h2pe_up fold_left].
  replace ((n1 <? i + 1) || (k <? i + 1)) with false
    by (symmetry; apply orb_false_iff; split; apply Z.ltb_ge; lia).
  rewrite IH by lia. reflexivity.
Qed.
Lemma h2pe_down_value cnt : forall n1 n2 k i f ws, i + Z.of_nat cnt <= Z.min n1 k ->
  h2pe_down cnt n1 n2 k i f ws = Ret (oget (fold_left (h2pe_step_down n1 n2 k) (idx i cnt) f), ws).
Proof.
  induction cnt as [|c IH]; intros n1 n2 k i f ws H; [reflexivity|].
  rewrite idx_S. cbn [h2pe_down fold_left].
  replace ((n1 <? i + 1) || (k <? i + 1)) with false
    by (symmetry; apply orb_false_iff; split; apply Z.ltb_ge; lia).
  rewrite IH by lia. reflexivity.
Qed.

(* ---- Geometric::new on the ideal model: k <= 54, the fuel 64 is never exhausted ---------------------- *)
Lemma half_eval : evalX half = Xreal (/ 2).
Proof. unfold half. cbn [evalX]. rewrite xdy_real. f_equal. change (powerRZ 2 (-1)) with (/ (2 * 1))%R. lra. Qed.
Lemma sqr_eval a x : evalX a = Xreal x -> evalX (Un Sqr a) = Xreal (x * x).
Proof. intros H. cbn [evalX xun]. rewrite H. reflexivity. Qed.

Lemma geo_new_loop_spec fuel : forall pi k x (j : nat) ws,
  evalX pi = Xreal x -> (0 <= x)%R -> (x ^ (2 ^ j) <= / 2)%R -> (j < fuel)%nat ->
  allout (fun q => k <= snd (fst q) <= k + Z.of_nat j /\ snd q = ws) (fun _ => False)
         (geo_new_loop fuel pi k ws).
Proof.
  induction fuel as [|f IH]; intros pi k x j ws Hpi Hx Hj Hf; [lia|].
  cbn [geo_new_loop]. lstep. intros x0 y0 Ex Ey. rewrite Hpi in Ex. injection Ex as <-.
  rewrite half_eval in Ey. injection Ey as <-. unfold rcmp. destruct (Rlt_dec (/ 2) x) as [L|L]; lstep.
  - destruct j as [|j]; [cbn in Hj; lra|].
    eapply allout_mono; [| |apply (IH (Un Sqr pi) (k + 1) (x * x)%R j ws (sqr_eval _ _ Hpi))]; [|auto| | |lia].
    + intros [[p' k'] rest]; cbn [fst snd]. intros [A B]. split; [lia|exact B].
    + nra.
    + replace (x * x)%R with (x ^ 2)%R by ring. rewrite <- pow_mult.
      replace (2 * 2 ^ j)%nat with (2 ^ S j)%nat by (cbn; lia). exact Hj.
  - split; [lia|reflexivity].
Qed.

Lemma rounds_to_one_false p : rounds_to_one p = false -> (/ 2 ^ 54 < dyR p)%R.
Proof.
  unfold rounds_to_one, dy_leb. rewrite dy_cmp_spec.
  destruct (Rcompare_spec (dyR p) (dyR (1, -54))) as [H|H|H]; try discriminate. intros _.
  unfold dyR at 1 in H. cbn [fst snd] in H. change (powerRZ 2 (-54)) with (/ 2 ^ 54)%R in H. lra.
Qed.

(* the call made by `geometric`: from pi0 = 1 - p with 2^-54 <= p <= 1 the loop returns 1 <= k <= 54
   without reading a word and without failing; in particular `1 << k` does not overflow (k < 64) *)
Theorem geo_new_loop_model p ws : (/ 2 ^ 54 <= dyR p <= 1)%R ->
  allout (fun q => 1 <= snd (fst q) <= 54 /\ snd q = ws) (fun _ => False)
         (geo_new_loop 64 (Un Sqr (one -. dyx p)) 1 ws).
Proof.
  intros H.
  assert (evalX (one -. dyx p) = Xreal (1 - dyR p)) as E by (cbn [evalX xbin]; rewrite one_eval, dyx_eval; reflexivity).
  eapply allout_mono; [| |apply (geo_new_loop_spec 64 _ 1 _ 53 ws (sqr_eval _ _ E))]; [|auto| | |lia].
  - intros [[p' k'] rest]; cbn [fst snd]. intros [A B]. split; [lia|exact B].
  - nra.
  - replace ((1 - dyR p) * (1 - dyR p))%R with ((1 - dyR p) ^ 2)%R by ring. rewrite <- pow_mult.
    rewrite <- (Nat.pow_succ_r' 2 53). apply (exact_squarings_bound (1 - dyR p) 54). lra.
Qed.
Theorem geo_new_loop_model_result p ws pi k rest : (/ 2 ^ 54 <= dyR p <= 1)%R ->
  evals (geo_new_loop 64 (Un Sqr (one -. dyx p)) 1 ws) (pi, k, rest) -> 1 <= k <= 54 /\ rest = ws.
Proof. intros H E. exact (allout_evals _ _ _ _ (geo_new_loop_model p ws H) E). Qed.
Theorem geo_new_loop_model_no_fail p ws c : (/ 2 ^ 54 <= dyR p <= 1)%R ->
  ~ fails (geo_new_loop 64 (Un Sqr (one -. dyx p)) 1 ws) c.
Proof. intros H E. exact (allout_fails _ _ _ _ (geo_new_loop_model p ws H) E). Qed.

(* ---- no constant rejection: acceptance is satisfiable ------------------------------------------------ *)
Lemma rcmp_lt_true x y : (x < y)%R -> rcmp CLt x y = true.
Proof. intros H. unfold rcmp. destruct (Rlt_dec x y); [reflexivity|contradiction]. Qed.
Lemma rcmp_le_true x y : (x <= y)%R -> rcmp CLe x y = true.
Proof. intros H. unfold rcmp. destruct (Rle_dec x y); [reflexivity|contradiction]. Qed.
Lemma rcmp_lt_false x y : (y <= x)%R -> rcmp CLt x y = false.
Proof. intros H. unfold rcmp. destruct (Rlt_dec x y); [lra|reflexivity]. Qed.

Lemma powi_0 a : powi a 0 = one. Proof. reflexivity. Qed.

(* Geometric, m-loop: the word 0 gives m = 0 and p_reject = (1-p)^0 = 1 > u for every second word *)
Theorem geo_m_accepts f p k w2 ws : word w2 -> evals (geo_m (S f) p k (0 :: w2 :: ws)) (0, ws).
Proof.
  intros Hw.
  cbn [geo_m sbind bind next_word draw_std sret sask]. rewrite Zmod_0_l.
  change (0 <=? 2 ^ 31 - 1) with true. cbv iota. rewrite powi_0.
  eapply EvAsk; [apply u_std_eval|apply one_eval|].
  rewrite rcmp_lt_true by (apply (uR_std_range F64 w2 Hw)). constructor.
Qed.
(* Geometric, trivial algorithm (p >= 2/3): u = 0 <= p *)
Theorem geo_trivial_accepts f p x n ws : evalX p = Xreal x -> (0 <= x)%R ->
  evals (geo_trivial (S f) p n (0 :: ws)) (n, ws).
Proof.
  intros E Hx.
  cbn [geo_trivial sbind bind next_word draw_std sret sask].
  eapply EvAsk; [apply u_std_eval|exact E|].
  rewrite rcmp_le_true; [constructor|]. unfold uR_std. cbn. lra.
Qed.
(* Geometric, d-loop: u = 1 - 2^-53 >= pi for pi <= 1/2 *)
Theorem geo_d_accepts f pi x n ws : evalX pi = Xreal x -> (x <= / 2)%R ->
  evals (geo_d (S f) pi n ((2 ^ 64 - 1) :: ws)) (n, ws).
Proof.
  intros E Hx.
  cbn [geo_d sbind bind next_word draw_std sret sask].
  eapply EvAsk; [apply u_std_eval|exact E|].
  rewrite rcmp_lt_false; [constructor|]. unfold uR_std.
  change ((2 ^ 64 - 1) / 2 ^ 11) with (2 ^ 53 - 1). rewrite minus_IZR, IZR_2_53.
  assert (0 < 2 ^ 53)%R by (apply pow_lt; lra).
  apply Rle_trans with (/ 2)%R; [exact Hx|].
  apply Rmult_le_reg_r with (2 ^ 53)%R; [assumption|]. unfold Rdiv. rewrite Rmult_assoc, Rinv_l by lra.
  assert (2 <= 2 ^ 53)%R by (change (2 ^ 53)%R with (2 * 2 ^ 52)%R; assert (1 <= 2 ^ 52)%R by (apply pow_R1_Rle; lra); lra).
  lra.
Qed.

(* UnitDisc (Model/Multi.v): the two mid-range words give the point (0, 0), which is accepted *)
Lemma u_pm1_mid t : evalX (Multi.u_pm1 t (2 ^ 63)) = Xreal 0.
Proof.
  destruct t; unfold Multi.u_pm1; cbn [evalX]; rewrite xdy_real; f_equal.
  - change (hi32 (2 ^ 63) / 2 ^ 9 - 2 ^ 22) with 0. apply Rmult_0_l.
  - change (2 ^ 63 / 2 ^ 12 - 2 ^ 51) with 0. apply Rmult_0_l.
Qed.
Theorem unit_disc_accepts f t ws :
  evals (Multi.unit_disc_loop (S f) t (2 ^ 63 :: 2 ^ 63 :: ws))
        ([Multi.u_pm1 t (2 ^ 63); Multi.u_pm1 t (2 ^ 63)], ws).
Proof.
  cbn [Multi.unit_disc_loop Multi.draw_pm1 sbind bind next_word sret sask].
  eapply EvAsk; [|apply one_eval|].
  - cbn [evalX xbin]. rewrite u_pm1_mid. cbn [Xmul Xadd]. reflexivity.
  - rewrite rcmp_le_true by lra. constructor.
Qed.

(* ---- evals-form corollaries ------------------------------------------------------------------------------ *)
Theorem knuth_loop_words fuel t el p result ws x rest : evals (knuth_loop fuel t el p result ws) (x, rest) ->
  result - 1 <= x < result - 1 + Z.of_nat fuel /\ length ws = (length rest + Z.to_nat (x - (result - 1)))%nat.
Proof.
  intros E. pose proof (allout_evals _ _ _ _ (knuth_loop_spec fuel t el p result ws) E) as (A & B & C).
  cbn [fst snd] in A, B, C. split; [lia|exact C].
Qed.
Theorem std_geometric_loop_words fuel result ws x rest : Forall word ws ->
  evals (std_geometric_loop fuel result ws) (x, rest) ->
  result <= x /\ (x - result) / 64 < Z.of_nat fuel /\
  length ws = (length rest + Z.to_nat ((x - result) / 64) + 1)%nat.
Proof. intros Hw E. exact (allout_evals _ _ _ _ (std_geometric_loop_spec fuel result ws Hw) E). Qed.

(* HIN as called by `hypergeometric`: one uniform draw, then the loop: exactly one word is consumed, the
   only failure is the missing word, and x0 <= result <= min(n1,k) *)
Theorem hin_one_word n1 n2 k p x0 ws : x0 <= Z.min n1 k ->
  allout (fun q => length ws = S (length (snd q)) /\ x0 <= fst q <= Z.min n1 k) (fun c => c = 1 /\ ws = [])
         ((u <- draw_std F64 ;; hin_loop (Z.to_nat (Z.min n1 k - x0) + 2) n1 n2 k u p x0) ws).
Proof.
  intros H. destruct ws as [|w ws']; lstep; [split; reflexivity|].
  eapply allout_mono; [| |apply hin_loop_spec; lia].
  - intros [x rest]; cbn [fst snd length]. intros [-> B]. split; [reflexivity|lia].
  - intros c [].
Qed.
