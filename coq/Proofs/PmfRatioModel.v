(* Proofs/PmfRatioModel.v — the step-5.1 / step-4.1 expressions of the executable sampler models
   (Model/Discrete.v: btpe_f51, h2pe_f41 — the very terms the pathwise correspondence runs against
   the crate) evaluate, in exact real arithmetic, to the pmf ratio pmf(y)/pmf(m).
   This links Proofs/PmfRatio.v (loops over R) to the model terms. *)
From Coq Require Import Reals ZArith Lra Lia Arith List Bool.
From Interval Require Import Xreal.
From RD Require Import Base.Expr Base.Run Model.Sampler Model.Continuous Model.Discrete
  Proofs.PmfBinomial Proofs.PmfHyper Proofs.PmfRatio Proofs.LoopBounds.
Import ListNotations.
Open Scope R_scope.

Lemma num_eval k : evalX (num k) = Xreal (IZR k).
Proof. unfold num. cbn [evalX]. rewrite xdy_real. f_equal. simpl. ring. Qed.
Lemma zf_eval k : evalX (zf k) = Xreal (IZR k).
Proof. unfold zf. destruct (Z.abs k <=? 2 ^ 53)%Z; [apply num_eval|]. unfold rnd. cbn [evalX xun]. apply num_eval. Qed.
Lemma one_eval : evalX one = Xreal 1.
Proof. apply num_eval. Qed.

Lemma xdiv_real a b : b <> 0 -> Xdiv (Xreal a) (Xreal b) = Xreal (a / b).
Proof. intros H. cbn [Xdiv Xdiv' Xbind2]. unfold Xdiv'. unfold is_zero. rewrite Raux.Req_bool_false by exact H. reflexivity. Qed.

Lemma INR_Z (j : nat) : IZR (Z.of_nat j) = INR j.
Proof. symmetry. apply INR_IZR_INZ. Qed.

(* ---------------------------------------------------------------- BTPE *)
Lemma btpe_g_eval a s ra rs (j : nat) : (0 < j)%nat ->
  evalX a = Xreal ra -> evalX s = Xreal rs ->
  evalX (Bin Sub (Bin Div a (zf (Z.of_nat j))) s) = Xreal (ra / INR j - rs).
Proof.
  intros Hj Ha Hs. cbn [evalX xbin]. rewrite Ha, Hs, zf_eval, INR_Z.
  rewrite xdiv_real by (apply not_0_INR; lia). reflexivity.
Qed.

Lemma btpe_up_eval cnt : forall a s ra rs (i : nat) f rf,
  evalX a = Xreal ra -> evalX s = Xreal rs ->
  match f with None => rf = 1 | Some f0 => evalX f0 = Xreal rf end ->
  evalX (btpe_up cnt a s (Z.of_nat i) f) = Xreal (loop_mul (fun j => ra / INR j - rs) i cnt rf).
Proof.
  induction cnt as [|c IH]; intros a s ra rs i f rf Ha Hs Hf.
  - cbn [btpe_up loop_mul]. destruct f; [exact Hf|]. subst rf. apply one_eval.
  - cbn [btpe_up loop_mul].
    replace (Z.of_nat i + 1)%Z with (Z.of_nat (S i)) by lia.
    apply IH; [exact Ha|exact Hs|].
    pose proof (btpe_g_eval a s ra rs (S i) ltac:(lia) Ha Hs) as G.
    destruct f as [f0|].
    + cbn [evalX xbin]. cbn [evalX xbin] in G. rewrite Hf, G. reflexivity.
    + subst rf. rewrite G. f_equal. ring.
Qed.

Lemma btpe_down_eval cnt : forall a s ra rs (i : nat) f rf,
  evalX a = Xreal ra -> evalX s = Xreal rs -> evalX f = Xreal rf ->
  (forall j, (i < j <= i + cnt)%nat -> ra / INR j - rs <> 0) ->
  evalX (btpe_down cnt a s (Z.of_nat i) f) = Xreal (loop_div (fun j => ra / INR j - rs) i cnt rf).
Proof.
  induction cnt as [|c IH]; intros a s ra rs i f rf Ha Hs Hf Hnz.
  - exact Hf.
  - cbn [btpe_down loop_div].
    replace (Z.of_nat i + 1)%Z with (Z.of_nat (S i)) by lia.
    apply IH; [exact Ha|exact Hs| |intros j Hj; apply Hnz; lia].
    pose proof (btpe_g_eval a s ra rs (S i) ltac:(lia) Ha Hs) as G.
    cbn [evalX xbin]. cbn [evalX xbin] in G. rewrite Hf, G.
    apply xdiv_real. apply Hnz. lia.
Qed.

(* the factor a/j - s is pmf(j)/pmf(j-1), hence non-zero on 1..n *)
Lemma btpe_factor_nz (n : nat) (p : R) (j : nat) : 0 < p < 1 -> (0 < j <= n)%nat ->
  (p / (1 - p)) * (INR n + 1) / INR j - p / (1 - p) <> 0.
Proof.
  intros Hp Hj Z.
  pose proof (binom_pmf_step n p Hp (j - 1) ltac:(lia)) as S1.
  replace (S (j - 1)) with j in S1 by lia.
  apply (binom_pmf_nz n p Hp j ltac:(lia)). rewrite S1, Z. ring.
Qed.

(* Model/Discrete.btpe_f51 — the term `f` compared with v in step 5.1 — is pmf(y)/pmf(m) *)
Theorem btpe_f51_exact_ratio : forall (n m y : nat) (pe : expr) (p : R),
  evalX pe = Xreal p -> 0 < p < 1 -> (m <= n)%nat -> (y <= n)%nat ->
  evalX (btpe_f51 (Z.of_nat n) pe (Z.of_nat m) (Z.of_nat y))
  = Xreal ((C n y * p ^ y * (1 - p) ^ (n - y)) / (C n m * p ^ m * (1 - p) ^ (n - m))).
Proof.
  intros n m y pe p Hpe Hp Hm Hy.
  pose proof (btpe_exact_ratio n p m y Hp Hm Hy) as E. cbv zeta in E. rewrite <- E. clear E.
  unfold btpe_f51, btpe_f.
  set (s := Bin Div pe (Bin Sub one pe)).
  set (a := Bin Mul s (Bin Add (zf (Z.of_nat n)) one)).
  assert (Hs : evalX s = Xreal (p / (1 - p))).
  { unfold s. cbn [evalX xbin]. rewrite Hpe, one_eval. cbn [Xsub]. apply xdiv_real. lra. }
  assert (Ha : evalX a = Xreal (p / (1 - p) * (INR n + 1))).
  { unfold a. cbn [evalX xbin]. rewrite Hs, zf_eval, one_eval, INR_Z. reflexivity. }
  destruct (Nat.compare_spec m y) as [Eq|L|G].
  - subst y. rewrite Z.ltb_irrefl. apply one_eval.
  - replace (Z.of_nat m <? Z.of_nat y)%Z with true by (symmetry; apply Z.ltb_lt; lia).
    replace (Z.to_nat (Z.of_nat y - Z.of_nat m)) with (y - m)%nat by lia.
    apply btpe_up_eval; [exact Ha|exact Hs|reflexivity].
  - replace (Z.of_nat m <? Z.of_nat y)%Z with false by (symmetry; apply Z.ltb_ge; lia).
    replace (Z.of_nat y <? Z.of_nat m)%Z with true by (symmetry; apply Z.ltb_lt; lia).
    replace (Z.to_nat (Z.of_nat m - Z.of_nat y)) with (m - y)%nat by lia.
    apply btpe_down_eval; [exact Ha|exact Hs|apply one_eval|].
    intros j Hj. apply btpe_factor_nz; [exact Hp|lia].
Qed.

(* ---------------------------------------------------------------- H2PE *)
Definition optval (f : option expr) (rf : R) : Prop :=
  match f with None => rf = 1 | Some f0 => evalX f0 = Xreal rf end.

Lemma h2pe_num_eval (n1 k j : nat) : (j <= n1)%nat -> (j <= k)%nat ->
  evalX (Bin Mul (zf (Z.of_nat n1 - Z.of_nat j + 1)) (zf (Z.of_nat k - Z.of_nat j + 1)))
  = Xreal (h2pe_num n1 k j).
Proof.
  intros H1 H2. cbn [evalX xbin]. rewrite !zf_eval. unfold h2pe_num.
  replace (Z.of_nat n1 - Z.of_nat j + 1)%Z with (Z.of_nat (n1 - j + 1)) by lia.
  replace (Z.of_nat k - Z.of_nat j + 1)%Z with (Z.of_nat (k - j + 1)) by lia.
  rewrite !INR_Z. reflexivity.
Qed.
Lemma h2pe_den_eval (n2 k j : nat) : (k <= n2)%nat ->
  evalX (Bin Mul (zf (Z.of_nat j)) (zf (Z.of_nat n2 - Z.of_nat k + Z.of_nat j)))
  = Xreal (h2pe_den n2 k j).
Proof.
  intros H. cbn [evalX xbin]. rewrite !zf_eval. unfold h2pe_den.
  replace (Z.of_nat n2 - Z.of_nat k + Z.of_nat j)%Z with (Z.of_nat (n2 - k + j)) by lia.
  rewrite !INR_Z. reflexivity.
Qed.
Lemma h2pe_num_nz (n1 k j : nat) : (j <= n1)%nat -> (j <= k)%nat -> h2pe_num n1 k j <> 0.
Proof.
  intros H1 H2. unfold h2pe_num. apply Rmult_integral_contrapositive_currified; apply not_0_INR; lia.
Qed.

Lemma step_up_optval n1 n2 k (j : nat) f rf : (k <= n2)%nat -> (0 < j <= n1)%nat -> (j <= k)%nat ->
  optval f rf ->
  optval (h2pe_step_up (Z.of_nat n1) (Z.of_nat n2) (Z.of_nat k) f (Z.of_nat j))
         (rf * h2pe_num n1 k j / h2pe_den n2 k j).
Proof.
  intros Hk Hj Hjk Hf. unfold h2pe_step_up, fdiv, fmul, optval.
  pose proof (h2pe_num_eval n1 k j ltac:(lia) Hjk) as N.
  pose proof (h2pe_den_eval n2 k j Hk) as D.
  assert (Dnz : h2pe_den n2 k j <> 0) by (destruct j; [lia|apply h2pe_den_nz]).
  destruct f as [f0|]; unfold optval in Hf.
  - cbn [evalX xbin]. cbn [evalX xbin] in N, D. rewrite Hf, N, D. cbn [Xmul]. apply xdiv_real, Dnz.
  - subst rf. cbn [evalX xbin]. cbn [evalX xbin] in N, D. rewrite N, D.
    rewrite xdiv_real by exact Dnz. f_equal. unfold Rdiv. ring.
Qed.
Lemma step_down_optval n1 n2 k (j : nat) f rf : (k <= n2)%nat -> (0 < j <= n1)%nat -> (j <= k)%nat ->
  optval f rf ->
  optval (h2pe_step_down (Z.of_nat n1) (Z.of_nat n2) (Z.of_nat k) f (Z.of_nat j))
         (rf * h2pe_den n2 k j / h2pe_num n1 k j).
Proof.
  intros Hk Hj Hjk Hf. unfold h2pe_step_down, fdiv, fmul, optval.
  pose proof (h2pe_num_eval n1 k j ltac:(lia) Hjk) as N.
  pose proof (h2pe_den_eval n2 k j Hk) as D.
  assert (Nnz : h2pe_num n1 k j <> 0) by (apply h2pe_num_nz; lia).
  destruct f as [f0|]; unfold optval in Hf.
  - cbn [evalX xbin]. cbn [evalX xbin] in N, D. rewrite Hf, N, D. cbn [Xmul]. apply xdiv_real, Nnz.
  - subst rf. cbn [evalX xbin]. cbn [evalX xbin] in N, D. rewrite N, D.
    rewrite xdiv_real by exact Nnz. f_equal. unfold Rdiv. ring.
Qed.

Lemma oget_optval f rf : optval f rf -> evalX (oget f) = Xreal rf.
Proof. destruct f; unfold optval, oget; [auto|]. intros ->. apply one_eval. Qed.

Lemma h2pe_fold_up_eval n1 n2 k cnt : forall (i : nat) f rf, (k <= n2)%nat ->
  (i + cnt <= n1)%nat -> (i + cnt <= k)%nat -> optval f rf ->
  optval (fold_left (h2pe_step_up (Z.of_nat n1) (Z.of_nat n2) (Z.of_nat k)) (idx (Z.of_nat i) cnt) f)
         (loop_muldiv (h2pe_num n1 k) (h2pe_den n2 k) i cnt rf).
Proof.
  induction cnt as [|c IH]; intros i f rf Hk H1 H2 Hf; [exact Hf|].
  rewrite idx_S. cbn [fold_left loop_muldiv].
  replace (Z.of_nat i + 1)%Z with (Z.of_nat (S i)) by lia.
  apply IH; try lia. apply step_up_optval; try lia. exact Hf.
Qed.
Lemma h2pe_fold_down_eval n1 n2 k cnt : forall (i : nat) f rf, (k <= n2)%nat ->
  (i + cnt <= n1)%nat -> (i + cnt <= k)%nat -> optval f rf ->
  optval (fold_left (h2pe_step_down (Z.of_nat n1) (Z.of_nat n2) (Z.of_nat k)) (idx (Z.of_nat i) cnt) f)
         (loop_muldiv (h2pe_den n2 k) (h2pe_num n1 k) i cnt rf).
Proof.
  induction cnt as [|c IH]; intros i f rf Hk H1 H2 Hf; [exact Hf|].
  rewrite idx_S. cbn [fold_left loop_muldiv].
  replace (Z.of_nat i + 1)%Z with (Z.of_nat (S i)) by lia.
  apply IH; try lia. apply step_down_optval; try lia. exact Hf.
Qed.

(* Model/Discrete.h2pe_f41 — the sampler fragment computing `f` of step 4.1 — reads no word, cannot
   panic inside the support, and returns an expression whose exact value is pmf(y)/pmf(m) *)
Theorem h2pe_f41_exact_ratio : forall (n1 n2 k m y : nat) ws,
  (k <= n2)%nat -> (m <= n1)%nat -> (m <= k)%nat -> (y <= n1)%nat -> (y <= k)%nat ->
  exists f, h2pe_f41 (Z.of_nat n1) (Z.of_nat n2) (Z.of_nat k) (Z.of_nat m) (Z.of_nat y) ws = Ret (f, ws) /\
    evalX f = Xreal ((C n1 y * C n2 (k - y)) / (C n1 m * C n2 (k - m))).
Proof.
  intros n1 n2 k m y ws Hk Hm1 Hm2 Hy1 Hy2.
  rewrite <- (h2pe_exact_ratio_weights n1 n2 k m y Hk Hm1 Hm2 Hy1 Hy2).
  unfold h2pe_f41, h2pe_f. destruct (Nat.ltb_spec m y) as [L|G].
  - replace (Z.of_nat m <? Z.of_nat y)%Z with true by (symmetry; apply Z.ltb_lt; lia).
    replace (Z.to_nat (Z.of_nat y - Z.of_nat m)) with (y - m)%nat by lia.
    rewrite h2pe_up_value by lia. eexists. split; [reflexivity|].
    apply oget_optval. apply h2pe_fold_up_eval; try lia. reflexivity.
  - replace (Z.of_nat m <? Z.of_nat y)%Z with false by (symmetry; apply Z.ltb_ge; lia).
    rewrite Z.max_l by lia.
    replace (Z.to_nat (Z.of_nat m - Z.of_nat y)) with (m - y)%nat by lia.
    rewrite h2pe_down_value by lia. eexists. split; [reflexivity|].
    apply oget_optval. apply h2pe_fold_down_eval; try lia. reflexivity.
Qed.

(* non-vacuity: Binomial(40, 1/2) m = 20, y = 22: f = C(40,22)/C(40,20) *)
Example btpe_f51_example :
  evalX (btpe_f51 40 (Dy 1 (-1)) 20 22) = Xreal (C 40 22 * (/2) ^ 22 * (1 - /2) ^ 18 / (C 40 20 * (/2) ^ 20 * (1 - /2) ^ 20)).
Proof.
  apply (btpe_f51_exact_ratio 40 20 22 (Dy 1 (-1)) (/2)); try lia; try lra.
  cbn [evalX]. rewrite xdy_real. f_equal. simpl. lra.
Qed.
