(* Proofs/DirichletFl.v — property C11 at the IEEE level (Flocq, any binary format; round to nearest even): the
   stick-breaking loop of DirichletFromBeta::sample_to_slice (dirichlet.rs:163-174)
       acc = 1;  for each beta_i:  out_i = acc * beta_i;  acc = acc * (1 - beta_i);   out_last = acc
   contains no libm call.  For Beta draws that are finite floats in [0, 1] (C03_beta_final_in_unit) every output component
   is a finite float in [0, 1] - no NaN, no overflow, for vectors of any length.                                         *)
From Coq Require Import ZArith Bool Reals List Lra Lia.
From Flocq Require Import Core.Core IEEE754.BinarySingleNaN.
From RD Require Import Proofs.BetaFinalFl.
Import ListNotations.
Open Scope R_scope.

Section Fmt.
Variable prec emax : Z.
Context (Hp : Prec_gt_0 prec) (Hpe : Prec_lt_emax prec emax).
Notation float := (binary_float prec emax).
Notation fexp := (SpecFloat.fexp prec emax).
Notation rnd := (round radix2 fexp (round_mode mode_NE)).
Notation in_unit := (in_unit prec emax).

Fixpoint sticks_fl (acc : float) (betas : list float) : list float :=
  match betas with
  | [] => [acc]
  | b :: r => Bmult mode_NE acc b :: sticks_fl (Bmult mode_NE acc (Bminus mode_NE Bone b)) r
  end.

Lemma mult_in_unit (x y : float) : in_unit x -> in_unit y -> in_unit (Bmult mode_NE x y).
Proof.
  intros [Fx Hx] [Fy Hy]. pose proof (Bmult_correct prec emax Hp Hpe mode_NE x y) as M.
  assert (0 <= B2R x * B2R y <= 1) as Q by nra.
  pose proof (rnd_unit prec emax Hp Hpe _ Q) as RQ. pose proof (one_lt_emax prec emax Hp Hpe) as OE.
  rewrite Rlt_bool_true in M by (rewrite Rabs_pos_eq; lra).
  destruct M as (V & F & _). split; [rewrite F, Fx, Fy; reflexivity|rewrite V; exact RQ].
Qed.

Lemma one_minus_in_unit (b : float) : in_unit b -> in_unit (Bminus mode_NE Bone b).
Proof.
  intros [Fb Hb]. pose proof (Bminus_correct prec emax Hp Hpe mode_NE Bone b (is_finite_Bone prec emax Hp Hpe) Fb) as M.
  rewrite (Bone_correct prec emax Hp Hpe) in M.
  assert (0 <= 1 - B2R b <= 1) as Q by lra.
  pose proof (rnd_unit prec emax Hp Hpe _ Q) as RQ. pose proof (one_lt_emax prec emax Hp Hpe) as OE.
  rewrite Rlt_bool_true in M by (rewrite Rabs_pos_eq; lra).
  destruct M as (V & F & _). split; [exact F|rewrite V; exact RQ].
Qed.

Lemma one_in_unit : in_unit Bone.
Proof. split; [apply is_finite_Bone|rewrite Bone_correct; lra]. Qed.

Theorem sticks_fl_in_unit (betas : list float) : forall acc, in_unit acc -> Forall in_unit betas ->
  Forall in_unit (sticks_fl acc betas) /\ length (sticks_fl acc betas) = S (length betas).
Proof.
  induction betas as [|b r IH]; intros acc Ha Hb; cbn [sticks_fl length].
  - split; [constructor; [exact Ha|constructor]|reflexivity].
  - apply Forall_cons_iff in Hb. destruct Hb as [Hb Hr].
    destruct (IH (Bmult mode_NE acc (Bminus mode_NE Bone b))) as [I1 I2];
      [apply mult_in_unit; [exact Ha|apply one_minus_in_unit, Hb]|exact Hr|].
    split; [constructor; [apply mult_in_unit; assumption|exact I1]|rewrite I2; reflexivity].
Qed.

(* the loop as called: acc starts at 1 *)
Corollary dirichlet_sticks_fl (betas : list float) : Forall in_unit betas ->
  Forall in_unit (sticks_fl Bone betas) /\ length (sticks_fl Bone betas) = S (length betas).
Proof. apply sticks_fl_in_unit, one_in_unit. Qed.
End Fmt.
