(* Proofs/AliasBasics.v — list / sum / counting lemmas used by the alias-table proofs *)
From Coq Require Import ZArith List Bool Arith Lia Permutation.
From RD Require Import Model.Tree Model.Uniform Model.Alias.
Import ListNotations.
Open Scope Z_scope.

(* ---------- geti / seti ---------- *)

Lemma seti_length : forall l i v, length (seti l i v) = length l.
Proof. induction l; intros [|i] v; simpl; auto. Qed.

Lemma geti_seti_same : forall l i v, (i < length l)%nat -> geti (seti l i v) i = v.
Proof.
  unfold geti. induction l; intros [|i] v H; simpl in *; try lia; auto.
  apply IHl; lia.
Qed.

Lemma geti_seti_other : forall l i j v, i <> j -> geti (seti l i v) j = geti l j.
Proof.
  unfold geti. induction l; intros [|i] [|j] v H; simpl; auto; try congruence;
  try (apply IHl; lia).
Qed.

Lemma seti_id : forall l i, seti l i (geti l i) = l.
Proof.
  unfold geti. induction l; intros [|i]; simpl; auto. f_equal. apply IHl.
Qed.

Lemma geti_overflow : forall l i, (length l <= i)%nat -> geti l i = 0.
Proof. intros. unfold geti. apply nth_overflow; auto. Qed.

Lemma geti_map_const0 : forall (A : Type) (l : list A) i, geti (map (fun _ => 0) l) i = 0.
Proof. unfold geti. induction l; intros [|i]; simpl; auto. Qed.

Lemma geti_map_scale : forall (k : Z) l i, geti (map (fun w => w * k) l) i = nth i l 0 * k.
Proof. unfold geti. induction l; intros [|i]; simpl; auto. Qed.

Lemma map_nth_seq : forall (l : list Z) d, map (fun j => nth j l d) (seq 0 (length l)) = l.
Proof.
  induction l; intros d; simpl; auto. f_equal.
  rewrite <- seq_shift, map_map. simpl. apply IHl.
Qed.

(* ---------- sums over index lists ---------- *)

Definition zsumf (f : nat -> Z) (l : list nat) : Z := fold_right (fun j a => f j + a) 0 l.

Lemma zsumf_nil : forall f, zsumf f [] = 0.
Proof. reflexivity. Qed.

Lemma zsumf_cons : forall f a l, zsumf f (a :: l) = f a + zsumf f l.
Proof. reflexivity. Qed.

Lemma zsumf_app : forall f l1 l2, zsumf f (l1 ++ l2) = zsumf f l1 + zsumf f l2.
Proof. induction l1; intros; simpl app; rewrite ?zsumf_cons, ?zsumf_nil, ?IHl1; lia. Qed.

Lemma zsumf_perm : forall f l1 l2, Permutation l1 l2 -> zsumf f l1 = zsumf f l2.
Proof. induction 1; rewrite ?zsumf_cons in *; lia. Qed.

Lemma zsumf_ext : forall f g l, (forall j, In j l -> f j = g j) -> zsumf f l = zsumf g l.
Proof.
  induction l; intros H; auto. rewrite !zsumf_cons, IHl, (H a); auto.
  - left; auto.
  - intros; apply H; right; auto.
Qed.

Lemma zsumf_map : forall f (g : nat -> nat) l, zsumf f (map g l) = zsumf (fun x => f (g x)) l.
Proof. induction l; auto. simpl map. rewrite !zsumf_cons, IHl. auto. Qed.

Lemma zsumf_nonneg : forall f l, (forall j, In j l -> 0 <= f j) -> 0 <= zsumf f l.
Proof.
  induction l; intros H; rewrite ?zsumf_nil, ?zsumf_cons; try lia.
  assert (0 <= f a) by (apply H; left; auto).
  assert (0 <= zsumf f l) by (apply IHl; intros; apply H; right; auto). lia.
Qed.

Lemma zsumf_zero : forall f l, (forall j, In j l -> f j = 0) -> zsumf f l = 0.
Proof.
  induction l; intros H; rewrite ?zsumf_nil, ?zsumf_cons; try lia.
  assert (f a = 0) by (apply H; left; auto).
  assert (zsumf f l = 0) by (apply IHl; intros; apply H; right; auto). lia.
Qed.

Lemma zsumf_zero_inv : forall f l, (forall j, In j l -> 0 <= f j) -> zsumf f l = 0 ->
  forall j, In j l -> f j = 0.
Proof.
  induction l; intros H E j Hj. destruct Hj.
  rewrite zsumf_cons in E.
  assert (0 <= f a) by (apply H; left; auto).
  assert (0 <= zsumf f l) by (apply zsumf_nonneg; intros; apply H; right; auto).
  destruct Hj as [->|Hj]. lia.
  apply IHl; auto. intros; apply H; right; auto. lia.
Qed.

Lemma zsumf_le_term : forall f l, (forall j, In j l -> 0 <= f j) ->
  forall j, In j l -> f j <= zsumf f l.
Proof.
  induction l; intros H j Hj. destruct Hj.
  rewrite zsumf_cons.
  assert (0 <= f a) by (apply H; left; auto).
  assert (0 <= zsumf f l) by (apply zsumf_nonneg; intros; apply H; right; auto).
  destruct Hj as [->|Hj]. lia.
  assert (f j <= zsumf f l) by (apply IHl; auto; intros; apply H; right; auto). lia.
Qed.

(* sum of an indicator-weighted function over seq *)
Lemma zsumf_indicator : forall (g : nat -> Z) i l, NoDup l -> In i l ->
  zsumf (fun c => if Nat.eqb c i then g c else 0) l = g i.
Proof.
  induction l; intros ND Hi. destruct Hi.
  rewrite zsumf_cons. inversion ND; subst.
  destruct Hi as [->|Hi].
  - rewrite Nat.eqb_refl. rewrite zsumf_zero. lia.
    intros j Hj. destruct (Nat.eqb_spec j i); auto. subst. contradiction.
  - destruct (Nat.eqb_spec a i). subst; contradiction. rewrite IHl; auto.
Qed.

(* bounds on sums when every term is bounded *)
Lemma zsumf_lt_all : forall f (b : Z) l, l <> [] -> (forall j, In j l -> f j < b) ->
  zsumf f l < b * Z.of_nat (length l).
Proof.
  induction l; intros NE H. congruence.
  rewrite zsumf_cons. assert (f a < b) by (apply H; left; auto).
  destruct l as [|a' l'].
  - rewrite zsumf_nil. simpl length. lia.
  - assert (zsumf f (a' :: l') < b * Z.of_nat (length (a' :: l'))).
    { apply IHl. congruence. intros; apply H; right; auto. }
    change (length (a :: a' :: l')) with (S (length (a' :: l'))). lia.
Qed.

Lemma zsumf_ge_all : forall f (b : Z) l, (forall j, In j l -> b <= f j) ->
  b * Z.of_nat (length l) <= zsumf f l.
Proof.
  induction l; intros H. rewrite zsumf_nil; simpl; lia.
  rewrite zsumf_cons. assert (b <= f a) by (apply H; left; auto).
  assert (b * Z.of_nat (length l) <= zsumf f l) by (apply IHl; intros; apply H; right; auto).
  change (length (a :: l)) with (S (length l)). lia.
Qed.

Lemma zsumf_ge_all_eq : forall f (b : Z) l, (forall j, In j l -> b <= f j) ->
  zsumf f l = b * Z.of_nat (length l) -> forall j, In j l -> f j = b.
Proof.
  induction l; intros H E j Hj. destruct Hj.
  rewrite zsumf_cons in E. assert (b <= f a) by (apply H; left; auto).
  assert (b * Z.of_nat (length l) <= zsumf f l) by (apply zsumf_ge_all; intros; apply H; right; auto).
  change (length (a :: l)) with (S (length l)) in E.
  destruct Hj as [->|Hj]. lia.
  apply IHl; auto. intros; apply H; right; auto. lia.
Qed.

Definition osum (o : list Z) (l : list nat) : Z := zsumf (geti o) l.

Lemma osum_seti_notin : forall o b v l, ~ In b l -> osum (seti o b v) l = osum o l.
Proof.
  intros. unfold osum. apply zsumf_ext. intros j Hj.
  apply geti_seti_other. intro; subst; contradiction.
Qed.

(* ---------- sums of weight lists ---------- *)

Definition asum (ws : list Z) : Z := fold_right Z.add 0 ws.

Lemma zsumf_geti_seq : forall l, zsumf (geti l) (seq 0 (length l)) = asum l.
Proof.
  induction l. reflexivity.
  cbn [length seq]. rewrite zsumf_cons, <- seq_shift, zsumf_map.
  rewrite (zsumf_ext _ (geti l)) by (intros; reflexivity).
  rewrite IHl. reflexivity.
Qed.

Lemma asum_map_scale : forall (k : Z) l, asum (map (fun w => w * k) l) = asum l * k.
Proof. induction l; simpl; auto. unfold asum in *. rewrite IHl. lia. Qed.

Lemma asum_nonneg : forall l, (forall w, In w l -> 0 <= w) -> 0 <= asum l.
Proof.
  induction l; intros H; simpl. lia.
  assert (0 <= a) by (apply H; left; auto).
  assert (0 <= asum l) by (apply IHl; intros; apply H; right; auto).
  unfold asum in *. lia.
Qed.

Lemma asum_le_all : forall (m : Z) l, (forall w, In w l -> w <= m) -> asum l <= Z.of_nat (length l) * m.
Proof.
  induction l; intros H. simpl; lia.
  assert (a <= m) by (apply H; left; auto).
  assert (asum l <= Z.of_nat (length l) * m) by (apply IHl; intros; apply H; right; auto).
  change (length (a :: l)) with (S (length l)). change (asum (a :: l)) with (a + asum l). lia.
Qed.

Lemma asum_zero_all : forall l, (forall w, In w l -> 0 <= w) -> asum l = 0 -> forall w, In w l -> w = 0.
Proof.
  induction l; intros H E w Hw. destruct Hw.
  change (asum (a :: l)) with (a + asum l) in E.
  assert (0 <= a) by (apply H; left; auto).
  assert (0 <= asum l) by (apply asum_nonneg; intros; apply H; right; auto).
  destruct Hw as [->|Hw]. lia. apply IHl; auto. intros; apply H; right; auto. lia.
Qed.

(* ---------- counting thresholds ---------- *)

Definition countz (p : nat -> bool) (k : nat) : Z := Z.of_nat (length (filter p (seq 0 k))).

Lemma countz_0 : forall p, countz p 0 = 0.
Proof. reflexivity. Qed.

Lemma countz_S : forall p k, countz p (S k) = countz p k + (if p k then 1 else 0).
Proof.
  intros. unfold countz. rewrite seq_S, filter_app, app_length. simpl.
  destruct (p k); simpl; lia.
Qed.

Lemma countz_ext : forall p q k, (forall r, (r < k)%nat -> p r = q r) -> countz p k = countz q k.
Proof.
  induction k; intros H. reflexivity.
  rewrite !countz_S, IHk, (H k) by (intros; try apply H; lia). reflexivity.
Qed.

Lemma countz_true : forall k, countz (fun _ => true) k = Z.of_nat k.
Proof. induction k. reflexivity. rewrite countz_S, IHk. lia. Qed.

Lemma countz_false : forall k, countz (fun _ => false) k = 0.
Proof. induction k. reflexivity. rewrite countz_S, IHk. lia. Qed.

Lemma countz_lt : forall k a, 0 <= a ->
  countz (fun r => Z.of_nat r <? a) k = Z.min a (Z.of_nat k).
Proof.
  induction k; intros a Ha. rewrite countz_0. lia.
  rewrite countz_S, IHk by auto. destruct (Z.ltb_spec (Z.of_nat k) a); lia.
Qed.

Lemma countz_ge : forall k a, 0 <= a ->
  countz (fun r => negb (Z.of_nat r <? a)) k = Z.of_nat k - Z.min a (Z.of_nat k).
Proof.
  induction k; intros a Ha. rewrite countz_0. lia.
  rewrite countz_S, IHk by auto. destruct (Z.ltb_spec (Z.of_nat k) a); simpl negb; lia.
Qed.
