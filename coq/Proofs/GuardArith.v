(* Proofs/GuardArith.v — facts about Flocq's rounded operations used by the C04 proofs:
   NaN-ness, sign, and value as a clamped rounding on the extended-real view [ext].            *)
From Coq Require Import ZArith List Bool String Reals Lra Lia.
From Flocq Require Import Core.Core Plus_error IEEE754.Binary IEEE754.Bits IEEE754.BinarySingleNaN.
From RD Require Import Model.Guards Model.GuardSpec Proofs.GuardLemmas.
Import ListNotations.
Open Scope R_scope.

Section Fmt.
Variable prec emax : Z.
Context (Hp : Prec_gt_0 prec) (Hpe : Prec_lt_emax prec emax).
Notation float := (binary_float prec emax).
Notation one := (one prec emax Hp Hpe).
Notation zero := (zero prec emax).
Notation fdiv := (fdiv prec emax Hp Hpe).
Notation fmul := (fmul prec emax Hp Hpe).
Notation fadd := (fadd prec emax Hp Hpe).
Notation fsub := (fsub prec emax Hp Hpe).
Notation fgt := (fgt prec emax).

Lemma overflow_NE (s : bool) : binary_overflow prec emax mode_NE s = SpecFloat.S754_infinity s.
Proof. reflexivity. Qed.

Lemma B2SF_inf_inv (r : float) (s : bool) : B2SF r = SpecFloat.S754_infinity s -> r = B754_infinity s.
Proof. destruct r; simpl; intros E; try discriminate. now inversion E. Qed.

(* ---- sign and NaN-ness of a quotient / product of finite floats ---- *)
Lemma Bdiv_nan_sign (x y : float) :
  is_finite x = true -> B2R y <> 0 ->
  is_nan (fdiv x y) = false /\ Bsign (fdiv x y) = xorb (Bsign x) (Bsign y).
Proof.
  intros Fx Ny. unfold Guards.fdiv.
  generalize (Bdiv_correct prec emax Hp Hpe mode_NE x y Ny).
  destruct Rlt_bool.
  - intros (_ & F & S). rewrite Fx in F.
    assert (N := is_finite_not_nan _ _ _ F). auto.
  - rewrite overflow_NE. intros E. apply B2SF_inf_inv in E. rewrite E. auto.
Qed.

Lemma Bmult_nan_sign (x y : float) :
  is_finite x = true -> is_finite y = true ->
  is_nan (fmul x y) = false /\ Bsign (fmul x y) = xorb (Bsign x) (Bsign y).
Proof.
  intros Fx Fy. unfold Guards.fmul.
  generalize (Bmult_correct prec emax Hp Hpe mode_NE x y).
  destruct Rlt_bool.
  - intros (_ & F & S). rewrite Fx, Fy in F.
    assert (N := is_finite_not_nan _ _ _ F). auto.
  - rewrite overflow_NE. intros E. apply B2SF_inf_inv in E. rewrite E. auto.
Qed.

(* `x > 0` as a structural fact *)
Lemma fgt_zero_inv (x : float) :
  fgt x zero = true ->
  x = B754_infinity false \/ (exists m e H, x = B754_finite false m e H).
Proof.
  destruct x as [s|[|]| |[|] m e H]; unfold Guards.fgt, fcmp, Bcompare; simpl; try discriminate; eauto.
Qed.

Lemma finite_pos_B2R (m : positive) (e : Z) (H : SpecFloat.bounded prec emax m e = true) :
  0 < B2R (B754_finite false m e H : float).
Proof. simpl. apply F2R_gt_0. reflexivity. Qed.

Lemma one_struct : exists m e H, one = B754_finite false m e H.
Proof.
  generalize (is_finite_strict_Bone prec emax Hp Hpe) (Bsign_Bone prec emax Hp Hpe).
  unfold Guards.one. destruct Bone as [|?| |s m e H]; simpl; try discriminate.
  intros _ ->. eauto.
Qed.

(* Exp::new(1/scale).unwrap() inside Gamma::new cannot panic *)
Lemma Exp_new_fdiv_one (y : float) :
  fgt y zero = true -> Exp_new prec emax (fdiv one y) = GOk.
Proof.
  intros G. destruct (fgt_zero_inv y G) as [-> | (m & e & H & ->)].
  - destruct one_struct as (m1 & e1 & H1 & ->). reflexivity.
  - destruct (Bdiv_nan_sign one (B754_finite false m e H)) as (N & S).
    + apply one_fin.
    + apply Rgt_not_eq, finite_pos_B2R.
    + unfold Exp_new, f_is_sign_negative, f_is_nan. rewrite N, S.
      destruct one_struct as (m1 & e1 & H1 & ->). reflexivity.
Qed.

(* all `unwrap()`s inside Gamma::new succeed *)
Lemma Gamma_new_eq (shape scale : float) :
  Gamma_new prec emax Hp Hpe shape scale =
  if negb (fgt shape zero) then GErr "ShapeTooSmall" else
  if negb (fgt scale zero) then GErr "ScaleTooSmall" else GOk.
Proof.
  unfold Gamma_new.
  destruct (fgt shape zero); simpl; [|reflexivity].
  destruct (fgt scale zero) eqn:G; simpl; [|reflexivity].
  destruct (_ || _); [reflexivity|].
  destruct (feq _ _ _ _); [|reflexivity].
  now rewrite Exp_new_fdiv_one.
Qed.


(* ============================================================================================ *)
(* Values: rounding, clamping, and the extended-real value of each operation on finite inputs *)
Notation M := (M emax).
Notation ext := (ext prec emax).
Definition rnd (r : R) : R := round radix2 (FLT_exp (3 - emax - prec) prec) ZnearestE r.
Definition clamp (r : R) : R := Rmax (- M) (Rmin M r).

Lemma clamp_spec (r : R) :
  (r <= - M /\ clamp r = - M) \/ (- M <= r <= M /\ clamp r = r) \/ (M <= r /\ clamp r = M).
Proof.
  pose proof (M_gt_1 prec emax Hp Hpe). unfold clamp, Rmax, Rmin.
  destruct (Rle_dec M r); destruct (Rle_dec (- M) _); lra.
Qed.

Instance fexp_valid : Valid_exp (FLT_exp (3 - emax - prec) prec) := FLT_exp_valid _ _.

Lemma rnd_le (x y : R) : x <= y -> rnd x <= rnd y.
Proof. apply round_le; auto with typeclass_instances. Qed.
Lemma rnd_0 : rnd 0 = 0.
Proof. apply round_0; auto with typeclass_instances. Qed.
Lemma rnd_B2R (x : float) : rnd (B2R x) = B2R x.
Proof. apply round_generic; auto with typeclass_instances. apply generic_format_B2R. Qed.
Lemma rnd_ge0 (x : R) : 0 <= x -> 0 <= rnd x.
Proof. intros H. rewrite <- rnd_0. now apply rnd_le. Qed.
Lemma rnd_le0 (x : R) : x <= 0 -> rnd x <= 0.
Proof. intros H. rewrite <- rnd_0. now apply rnd_le. Qed.
Lemma rnd_ge_B2R (x : float) (r : R) : B2R x <= r -> B2R x <= rnd r.
Proof. intros H. rewrite <- (rnd_B2R x). now apply rnd_le. Qed.
Lemma rnd_le_B2R (x : float) (r : R) : r <= B2R x -> rnd r <= B2R x.
Proof. intros H. rewrite <- (rnd_B2R x). now apply rnd_le. Qed.

Lemma Bsign_false_ge0 (x : float) : is_finite x = true -> Bsign x = false -> 0 <= B2R x.
Proof.
  destruct x as [|?| |s m e H]; simpl; try discriminate; try lra.
  intros _ ->. apply F2R_ge_0. simpl. lia.
Qed.
Lemma Bsign_true_le0 (x : float) : is_finite x = true -> Bsign x = true -> B2R x <= 0.
Proof.
  destruct x as [|?| |s m e H]; simpl; try discriminate; try lra.
  intros _ ->. apply F2R_le_0. simpl. lia.
Qed.
Lemma B2R_pos_sign (x : float) : 0 < B2R x -> Bsign x = false.
Proof.
  destruct x as [|?| |[|] m e H]; simpl; try lra; auto.
  intros H0. exfalso. assert (F2R (Float radix2 (Z.neg m) e) < 0) by (apply F2R_lt_0; simpl; lia). lra.
Qed.
Lemma B2R_neg_sign (x : float) : B2R x < 0 -> Bsign x = true.
Proof.
  destruct x as [|?| |[|] m e H]; simpl; try lra; auto.
  intros H0. exfalso. assert (0 < F2R (Float radix2 (Z.pos m) e)) by (apply F2R_gt_0; simpl; lia). lra.
Qed.

Lemma ext_finite (x : float) : is_finite x = true -> ext x = B2R x.
Proof. intros F. apply (fc_ext _ _ _ (finite_class_of _ _ x F)). Qed.

(* the value of an overflowed result, knowing on which side the exact rounding lies *)
Lemma ext_overflow (s : bool) (r : R) :
  M <= Rabs r -> (s = false -> 0 <= r) -> (s = true -> r <= 0) ->
  ext (B754_infinity s) = clamp r.
Proof.
  intros A P N. pose proof (M_gt_1 prec emax Hp Hpe).
  destruct (clamp_spec r) as [[]|[[]|[]]]; destruct s; unfold GuardSpec.ext;
  unfold Rabs in A; destruct (Rcase_abs r); specialize (P eq_refl) || specialize (N eq_refl); lra.
Qed.

Lemma clamp_small (r : R) : Rabs r < M -> clamp r = r.
Proof.
  intros A. apply Rabs_lt_inv in A.
  destruct (clamp_spec r) as [[]|[[]|[]]]; lra.
Qed.

Lemma Bplus_ext (x y : float) :
  is_finite x = true -> is_finite y = true ->
  is_nan (fadd x y) = false /\ ext (fadd x y) = clamp (rnd (B2R x + B2R y)).
Proof.
  intros Fx Fy. unfold Guards.fadd.
  generalize (Bplus_correct prec emax Hp Hpe mode_NE x y Fx Fy). fold (rnd (B2R x + B2R y)). fold M.
  case Rlt_bool_spec; intros A.
  - intros (V & F & _). split. now apply is_finite_not_nan.
    rewrite ext_finite, V by assumption. symmetry. now apply clamp_small.
  - rewrite overflow_NE. intros (E & S). apply B2SF_inf_inv in E. rewrite E. split. reflexivity.
    apply ext_overflow; trivial; intros Sx.
    + apply rnd_ge0. pose proof (Bsign_false_ge0 x Fx Sx).
      rewrite Sx in S. pose proof (Bsign_false_ge0 y Fy (eq_sym S)). lra.
    + apply rnd_le0. pose proof (Bsign_true_le0 x Fx Sx).
      rewrite Sx in S. pose proof (Bsign_true_le0 y Fy (eq_sym S)). lra.
Qed.

Lemma Bminus_ext (x y : float) :
  is_finite x = true -> is_finite y = true ->
  is_nan (fsub x y) = false /\ ext (fsub x y) = clamp (rnd (B2R x - B2R y)).
Proof.
  intros Fx Fy. unfold Guards.fsub.
  generalize (Bminus_correct prec emax Hp Hpe mode_NE x y Fx Fy). fold (rnd (B2R x - B2R y)). fold M.
  case Rlt_bool_spec; intros A.
  - intros (V & F & _). split. now apply is_finite_not_nan.
    rewrite ext_finite, V by assumption. symmetry. now apply clamp_small.
  - rewrite overflow_NE. intros (E & S). apply B2SF_inf_inv in E. rewrite E. split. reflexivity.
    apply ext_overflow; trivial; intros Sx.
    + apply rnd_ge0. pose proof (Bsign_false_ge0 x Fx Sx).
      rewrite Sx in S. assert (Bsign y = true) by (destruct (Bsign y); simpl in S; congruence).
      pose proof (Bsign_true_le0 y Fy H0). lra.
    + apply rnd_le0. pose proof (Bsign_true_le0 x Fx Sx).
      rewrite Sx in S. assert (Bsign y = false) by (destruct (Bsign y); simpl in S; congruence).
      pose proof (Bsign_false_ge0 y Fy H0). lra.
Qed.

Lemma sign_cases (x : float) : is_finite x = true ->
  (Bsign x = false /\ 0 <= B2R x) \/ (Bsign x = true /\ B2R x <= 0).
Proof.
  intros F. destruct (Bsign x) eqn:S; [right|left]; split; trivial.
  now apply Bsign_true_le0. now apply Bsign_false_ge0.
Qed.

Lemma Bmult_ext (x y : float) :
  is_finite x = true -> is_finite y = true ->
  is_nan (fmul x y) = false /\ ext (fmul x y) = clamp (rnd (B2R x * B2R y)).
Proof.
  intros Fx Fy. unfold Guards.fmul.
  generalize (Bmult_correct prec emax Hp Hpe mode_NE x y). fold (rnd (B2R x * B2R y)). fold M.
  case Rlt_bool_spec; intros A.
  - intros (V & F & _). rewrite Fx, Fy in F. split. now apply is_finite_not_nan.
    rewrite ext_finite, V by assumption. symmetry. now apply clamp_small.
  - rewrite overflow_NE. intros E. apply B2SF_inf_inv in E. rewrite E. split. reflexivity.
    destruct (sign_cases x Fx) as [[Sx Vx]|[Sx Vx]]; destruct (sign_cases y Fy) as [[Sy Vy]|[Sy Vy]];
    rewrite Sx, Sy; apply ext_overflow; trivial; simpl; try discriminate; intros _;
    first [ apply rnd_ge0 | apply rnd_le0 ]; nra.
Qed.

Lemma Bdiv_ext (x y : float) :
  is_finite x = true -> is_finite y = true -> B2R y <> 0 ->
  is_nan (fdiv x y) = false /\ ext (fdiv x y) = clamp (rnd (B2R x / B2R y)).
Proof.
  intros Fx Fy Ny. unfold Guards.fdiv.
  generalize (Bdiv_correct prec emax Hp Hpe mode_NE x y Ny). fold (rnd (B2R x / B2R y)). fold M.
  case Rlt_bool_spec; intros A.
  - intros (V & F & _). rewrite Fx in F. split. now apply is_finite_not_nan.
    rewrite ext_finite, V by assumption. symmetry. now apply clamp_small.
  - rewrite overflow_NE. intros E. apply B2SF_inf_inv in E. rewrite E. split. reflexivity.
    assert (Q : forall a b, 0 <= a -> 0 < b -> 0 <= a / b).
    { intros a b Ha Hb. apply Rmult_le_pos. trivial. left. now apply Rinv_0_lt_compat. }
    assert (Q2 : forall a b, a <= 0 -> 0 < b -> a / b <= 0).
    { intros a b Ha Hb. replace (a / b) with (- ((- a) / b)) by (field; lra).
      assert (0 <= - a / b) by (apply Q; lra). lra. }
    assert (Q3 : forall a b, b < 0 -> a / b = (- a) / (- b)).
    { intros a b Hb. field. lra. }
    destruct (sign_cases x Fx) as [[Sx Vx]|[Sx Vx]]; destruct (sign_cases y Fy) as [[Sy Vy]|[Sy Vy]];
    rewrite Sx, Sy; apply ext_overflow; trivial; simpl; try discriminate; intros _;
    first [ apply rnd_ge0 | apply rnd_le0 ].
    + apply Q; lra.
    + rewrite Q3 by lra. apply Q2; lra.
    + apply Q2; lra.
    + rewrite Q3 by lra. apply Q; lra.
Qed.

(* sign of a non-NaN extended value *)
Lemma ext_pos_sign (x : float) : is_nan x = false -> 0 < ext x -> Bsign x = false.
Proof.
  pose proof (M_gt_1 prec emax Hp Hpe).
  destruct x as [|[|]| |]; unfold GuardSpec.ext; try discriminate; intros _ P; try reflexivity; try lra.
  simpl in P; lra. now apply B2R_pos_sign.
Qed.

(* comparisons against zero through ext *)
Lemma fgt_zero_ext (x : float) : is_nan x = false -> fgt x zero = true <-> 0 < ext x.
Proof.
  intros N. unfold Guards.fgt, fcmp. rewrite (Bcompare_ext prec emax Hp Hpe) by (trivial).
  rewrite ext_zero. destruct (Rcompare_spec (ext x) 0); split; intros; try discriminate; try lra; trivial.
Qed.

(* ---- constants built by binary_normalize ---- *)
Lemma cdy_correct (m e : Z) :
  is_finite (cdy prec emax Hp Hpe m e) = true ->
  B2R (cdy prec emax Hp Hpe m e) = rnd (F2R (Float radix2 m e)).
Proof.
  unfold cdy. generalize (binary_normalize_correct prec emax Hp Hpe mode_NE m e false). simpl.
  case Rlt_bool_spec; intros A.
  - now intros (V & _).
  - rewrite overflow_NE. intros E. apply B2SF_inf_inv in E. rewrite E. discriminate.
Qed.

Lemma B2R_of_SF (x : float) (s : bool) (m : positive) (e : Z) :
  B2SF x = SpecFloat.S754_finite s m e -> B2R x = F2R (Float radix2 (cond_Zopp s (Z.pos m)) e).
Proof. intros E. rewrite <- SF2R_B2SF, E. reflexivity. Qed.

Lemma finite_of_SF (x : float) (s : bool) (m : positive) (e : Z) :
  B2SF x = SpecFloat.S754_finite s m e -> is_finite x = true.
Proof. destruct x; simpl; intros E; try discriminate; reflexivity. Qed.

(* exact comparison with an integer *)
Lemma gtZ_correct (x : float) (z : Z) :
  is_finite x = true -> gtZ prec emax x z = Rlt_bool (IZR z) (B2R x).
Proof.
  destruct x as [s|?| |s m e H]; try discriminate; intros _; simpl.
  - case Rlt_bool_spec; intros A; [apply Z.ltb_lt | apply Z.ltb_ge].
    now apply lt_IZR. now apply le_IZR.
  - unfold F2R; simpl Fnum; simpl Fexp. set (c := cond_Zopp s (Z.pos m)).
    destruct (Z.leb_spec 0 e) as [He|He].
    + assert (W : bpow radix2 e = IZR (2 ^ e)) by (symmetry; apply (IZR_Zpower radix2); lia).
      rewrite W, <- mult_IZR.
      case Rlt_bool_spec; intros A; [apply Z.ltb_lt | apply Z.ltb_ge].
      now apply lt_IZR. now apply le_IZR.
    + assert (P : 0 < bpow radix2 (- e)) by apply bpow_gt_0.
      assert (Q : bpow radix2 e * bpow radix2 (- e) = 1).
      { rewrite <- bpow_plus. replace (e + - e)%Z with 0%Z by lia. reflexivity. }
      assert (W : bpow radix2 (- e) = IZR (2 ^ (- e))).
      { symmetry; apply (IZR_Zpower radix2); lia. }
      case Rlt_bool_spec; intros A; [apply Z.ltb_lt | apply Z.ltb_ge].
      * apply lt_IZR. rewrite mult_IZR, <- W.
        replace (IZR c) with (IZR c * bpow radix2 e * bpow radix2 (- e)) by (rewrite Rmult_assoc, Q; ring).
        apply Rmult_lt_compat_r; trivial.
      * apply le_IZR. rewrite mult_IZR, <- W.
        replace (IZR c) with (IZR c * bpow radix2 e * bpow radix2 (- e)) by (rewrite Rmult_assoc, Q; ring).
        apply Rmult_le_compat_r; lra.
Qed.

(* ---- finiteness from the extended value ---- *)
Lemma is_finite_of_ext (x : float) : is_nan x = false -> - M < ext x < M -> is_finite x = true.
Proof.
  destruct x as [|[|]| |]; unfold GuardSpec.ext; try discriminate; try reflexivity; intros _ B; lra.
Qed.

Lemma ext_clamp_finite (r : float) (v : R) :
  is_nan r = false -> ext r = clamp v -> Rabs v < M -> is_finite r = true /\ B2R r = v.
Proof.
  intros N E A. rewrite (clamp_small v A) in E. apply Rabs_lt_inv in A.
  assert (F : is_finite r = true) by (apply is_finite_of_ext; trivial; rewrite E; trivial).
  split; trivial. now rewrite <- ext_finite.
Qed.

Lemma clamp_ge0 (v : R) : 0 <= v -> 0 <= clamp v.
Proof. pose proof (M_gt_1 prec emax Hp Hpe). destruct (clamp_spec v) as [[]|[[]|[]]]; lra. Qed.
Lemma clamp_pos (v : R) : 0 < v -> 0 < clamp v.
Proof. pose proof (M_gt_1 prec emax Hp Hpe). destruct (clamp_spec v) as [[]|[[]|[]]]; lra. Qed.
Lemma clamp_ge1 (v : R) : 1 <= v -> 1 <= clamp v.
Proof. pose proof (M_gt_1 prec emax Hp Hpe). destruct (clamp_spec v) as [[]|[[]|[]]]; lra. Qed.

Lemma rnd_1 : rnd 1 = 1.
Proof. rewrite <- (one_B2R prec emax Hp Hpe). apply rnd_B2R. Qed.
Lemma rnd_m1 : rnd (-1) = -1.
Proof.
  replace (-1) with (- B2R one) by (rewrite (one_B2R prec emax Hp Hpe); lra).
  rewrite <- B2R_Bopp. apply rnd_B2R.
Qed.

(* structure of finite floats from their value *)
Lemma finite_zero_struct (x : float) : is_finite x = true -> B2R x = 0 -> x = B754_zero (Bsign x).
Proof.
  destruct x as [|?| |s m e H]; try discriminate; intros _; simpl; trivial.
  intros E. apply eq_0_F2R in E. destruct s; discriminate.
Qed.
Lemma finite_pos_struct (x : float) :
  is_finite x = true -> 0 < B2R x -> exists m e H, x = B754_finite false m e H.
Proof.
  intros F P. pose proof (B2R_pos_sign x P) as S.
  destruct x as [|?| |s m e H]; try discriminate; simpl in *; try lra. subst s. eauto.
Qed.

(* x - y with x of positive sign and y <= x has positive sign (even when the result is zero) *)
Lemma Bminus_nonneg_sign (x y : float) :
  is_finite x = true -> is_finite y = true -> Bsign x = false -> B2R y <= B2R x ->
  Bsign (fsub x y) = false.
Proof.
  intros Fx Fy Sx L. unfold Guards.fsub.
  generalize (Bminus_correct prec emax Hp Hpe mode_NE x y Fx Fy).
  destruct Rlt_bool.
  - intros (_ & _ & S). rewrite S, Sx.
    destruct (Rcompare_spec (B2R x - B2R y) 0); trivial; lra.
  - rewrite overflow_NE. intros (E & _). apply B2SF_inf_inv in E. now rewrite E, Sx.
Qed.

(* square root of a finite float of positive sign *)
Lemma Bsqrt_nonneg (t : float) :
  is_finite t = true -> Bsign t = false ->
  is_finite (fsqrt prec emax Hp Hpe t) = true /\
  B2R (fsqrt prec emax Hp Hpe t) = rnd (sqrt (B2R t)) /\
  Bsign (fsqrt prec emax Hp Hpe t) = false.
Proof.
  intros F S. unfold Guards.fsqrt.
  destruct (Bsqrt_correct prec emax Hp Hpe mode_NE t) as (V & Fs & Ss).
  assert (Fq : is_finite (Bsqrt mode_NE t) = true).
  { rewrite Fs. destruct t as [|?| |[|]]; try discriminate; reflexivity. }
  split; trivial. split. exact V.
  rewrite Ss; trivial. now apply is_finite_not_nan.
Qed.

(* difference of two distinct floats does not round to zero *)
Lemma rnd_minus_pos (x y : float) : B2R y < B2R x -> 0 < rnd (B2R x - B2R y).
Proof.
  intros L. assert (0 <= rnd (B2R x - B2R y)) by (apply rnd_ge0; lra).
  assert (rnd (B2R x + - B2R y) <> 0).
  { apply round_plus_neq_0; auto with typeclass_instances.
    apply generic_format_B2R. apply generic_format_opp, generic_format_B2R. lra. }
  unfold Rminus in *. lra.
Qed.

(* ---- comparisons of finite floats as real comparisons ---- *)
Lemma fcmp_finite (x y : float) : is_finite x = true -> is_finite y = true ->
  fcmp prec emax x y = Some (Rcompare (B2R x) (B2R y)).
Proof. intros. now apply Bcompare_correct. Qed.

Lemma flt_finite (x y : float) : is_finite x = true -> is_finite y = true ->
  (flt prec emax x y = true <-> B2R x < B2R y).
Proof.
  intros Fx Fy. unfold Guards.flt. rewrite fcmp_finite by trivial.
  destruct (Rcompare_spec (B2R x) (B2R y)); split; intros; try discriminate; try lra; trivial.
Qed.
Lemma fgt_finite (x y : float) : is_finite x = true -> is_finite y = true ->
  (fgt x y = true <-> B2R y < B2R x).
Proof.
  intros Fx Fy. unfold Guards.fgt. rewrite fcmp_finite by trivial.
  destruct (Rcompare_spec (B2R x) (B2R y)); split; intros; try discriminate; try lra; trivial.
Qed.
Lemma fge_finite (x y : float) : is_finite x = true -> is_finite y = true ->
  (fge prec emax x y = true <-> B2R y <= B2R x).
Proof.
  intros Fx Fy. unfold Guards.fge. rewrite fcmp_finite by trivial.
  destruct (Rcompare_spec (B2R x) (B2R y)); split; intros; try discriminate; try lra; trivial.
Qed.
Lemma fle_finite (x y : float) : is_finite x = true -> is_finite y = true ->
  (fle prec emax x y = true <-> B2R x <= B2R y).
Proof.
  intros Fx Fy. unfold Guards.fle. rewrite fcmp_finite by trivial.
  destruct (Rcompare_spec (B2R x) (B2R y)); split; intros; try discriminate; try lra; trivial.
Qed.

(* a constant whose exact rounding is in range is finite and has that value *)
Lemma cdy_small (m e : Z) :
  Rabs (rnd (F2R (Float radix2 m e))) < M ->
  is_finite (cdy prec emax Hp Hpe m e) = true /\
  B2R (cdy prec emax Hp Hpe m e) = rnd (F2R (Float radix2 m e)).
Proof.
  intros A. unfold cdy.
  generalize (binary_normalize_correct prec emax Hp Hpe mode_NE m e false). simpl.
  fold (rnd (F2R (Float radix2 m e))). fold M.
  rewrite Rlt_bool_true by trivial. now intros (V & F & _).
Qed.

End Fmt.
