(* Proofs/MultiRange.v — C11, Beta route of the Dirichlet model: every component of every result of the
   exact semantics lies in [0,1] (and they sum to one, Proofs/MultiDirichlet.v): the result is on the
   simplex.  Uses the description of the leaves of `beta_e` of Proofs/Support.v (property C03).        *)
From Coq Require Import Reals ZArith List Lra Lia Bool.
From Interval Require Import Xreal.
From RD Require Import Base.Expr Base.Run Model.Sampler Model.Continuous Model.Multi.
From RD Require Import Proofs.Support Proofs.MultiProofs Proofs.MultiDirichlet.
Import ListNotations.
Open Scope Z_scope.
Open Scope sampler_scope.

Local Notation "a +. b" := (Bin Add a b) (at level 50, left associativity).
Local Notation "a -. b" := (Bin Sub a b) (at level 50, left associativity).
Local Notation "a *. b" := (Bin Mul a b) (at level 40, left associativity).

Local Open Scope R_scope.

Lemma pos_dyx_dyv q : 0 < dyv q -> pos (dyx q).
Proof. intros H. exists (dyv q). split; [apply dyx_dyv|exact H]. Qed.
Lemma pos_add a b : pos a -> pos b -> pos (a +. b).
Proof. intros (x & Ex & Hx) (y & Ey & Hy). exists (x + y). cbn [evalX xbin]. rewrite Ex, Ey. split; [reflexivity|lra]. Qed.

Lemma suffix_sums_pos l : Forall pos l -> Forall pos (suffix_sums l).
Proof.
  induction 1 as [|a l Ha H IH]; [constructor|]. cbn [suffix_sums].
  destruct (suffix_sums l) as [|c q]; [constructor; [exact Ha|constructor]|].
  inversion IH; subst. constructor; [apply pos_add; assumption|exact IH].
Qed.
Lemma rev_csum_pos l : Forall pos l -> Forall pos (rev_csum l).
Proof. intros H. unfold rev_csum. apply suffix_sums_pos. destruct H; [constructor|assumption]. Qed.
Lemma combine_pos (l l' : list expr) : Forall pos l -> Forall pos l' ->
  Forall (fun p => pos (fst p) /\ pos (snd p)) (combine l l').
Proof.
  intros H. revert l'. induction H as [|a l Ha H IH]; intros l' H'; [constructor|].
  destruct H' as [|b l' Hb H']; [constructor|]. cbn [combine]. constructor; [split; assumption|apply IH, H'].
Qed.

(* every result of a Beta sampler of the chain has one of the two forms w/(b+w), b/(b+w) *)
Lemma beta_of_leaves t a b ws : msem (fun p => unit_form a b (fst p)) (beta_of t (a, b) ws).
Proof.
  unfold beta_of. cbn [sbind sask bind msem]. intros x y _ _ x' y' _ _.
  apply msem_intro. intros v E. exact (allsem_elim _ _ _ (beta_e_leaves _ _ _ _ _ _) E).
Qed.

Lemma dir_sticks_range t ab : Forall (fun p => pos (fst p) /\ pos (snd p)) ab ->
  forall acc ws, (forall A, evalX acc = Xreal A -> 0 <= A <= 1) ->
  msem (fun p => forall rs, vals (fst p) rs -> Forall (fun r => 0 <= r <= 1) rs) (dir_sticks t ab acc ws).
Proof.
  induction 1 as [|[a b] r [Pa Pb] Hr IH]; intros acc ws Hacc; cbn [fst snd] in * .
  - cbn. intros rs H. inversion H as [|e x l l' He Hl]; subst. inversion Hl; subst.
    constructor; [apply Hacc, He|constructor].
  - cbn [dir_sticks]. eapply msem_sbind; [apply beta_of_leaves|]. cbn [fst]. intros bs ws1 Hu.
    assert (HB : forall B, evalX bs = Xreal B -> 0 < B < 1) by (intros B; apply (unit_form_range a b); assumption).
    eapply msem_sbind.
    + apply IH. intros A' E'. apply MultiProofs.mul_real in E'. destruct E' as (A & C & EA & EC & ->).
      apply sub_real in EC. destruct EC as (o & B & Eo & EB & ->).
      rewrite MultiProofs.one_eval in Eo. apply Xreal_eq in Eo. subst o.
      specialize (Hacc _ EA). specialize (HB _ EB). nra.
    + intros l ws2 Hl. cbn [sret msem fst] in * . intros rs H. inversion H as [|e x l0 l' He Hrest]; subst.
      constructor; [|apply Hl, Hrest].
      apply MultiProofs.mul_real in He. destruct He as (A & B & EA & EB & ->).
      specialize (Hacc _ EA). specialize (HB _ EB). nra.
Qed.

(* the Beta route of the Dirichlet model returns points of the simplex *)
Theorem dirichlet_beta_on_simplex t alpha ws out rest : Forall (fun a => 0 < dyv a) alpha ->
  evals (dirichlet_beta t alpha ws) (out, rest) ->
  forall rs, vals out rs -> Forall (fun r => 0 <= r <= 1) rs /\ sumf rs = 1.
Proof.
  intros Hpos E rs Hrs. split; [|exact (proj2 (dirichlet_beta_simplex _ _ _ _ _ E) _ Hrs)].
  unfold dirichlet_beta in E.
  assert (P : Forall pos (map dyx alpha)).
  { apply Forall_forall. intros e He. apply in_map_iff in He. destruct He as (q & <- & Hq).
    rewrite Forall_forall in Hpos. apply pos_dyx_dyv, Hpos, Hq. }
  assert (M := dir_sticks_range t _ (combine_pos _ _ P (rev_csum_pos _ P)) one ws).
  refine (msem_elim _ _ _ (M _) E rs Hrs).
  intros A EA. rewrite MultiProofs.one_eval in EA. apply Xreal_eq in EA. lra.
Qed.
