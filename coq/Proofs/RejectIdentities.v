(* Proofs/RejectIdentities.v — algebraic identities behind the transformation samplers of rand_distr
   (ideal real arithmetic, all parameters):

   1. Inverse Gaussian, Michael–Schucany–Haas (inverse_gaussian.rs:91-112)
        v = StandardNormal;  y = mu v v;  x = mu + mu/(2 l) * (y - sqrt (4 l y + y y));
        u = StandardUniform; if u <= mu / (mu + x) { return x };  mu mu / x
      ig_roots_product, ig_x2_closed, ig_roots_solve, ig_x1_pos, ig_choice_prob_range, ig_choice_prob
   2. Skew normal (skew_normal.rs:142-161): skew_repr and the shortcuts for shape 0, 1, -1
   3. chi_squared.rs (k = 1), student_t.rs, fisher_f.rs, pert.rs, normal_inverse_gaussian.rs,
      normal.rs (Normal, LogNormal): algebraic forms and the events they define.                       *)
From Coq Require Import Reals Lra Lia.
Open Scope R_scope.

(* ================================================================ 1. Inverse Gaussian *)

Definition ig_y (mu v : R) : R := mu * v * v.
Definition ig_s (mu l v : R) : R := sqrt (4 * l * ig_y mu v + ig_y mu v * ig_y mu v).
Definition ig_x1 (mu l v : R) : R := mu + mu / (2 * l) * (ig_y mu v - ig_s mu l v).
Definition ig_x2 (mu l v : R) : R := mu * mu / ig_x1 mu l v.
(* the transformation whose square root is standard normal for X ~ IG(mu, l) *)
Definition ig_g (mu l x : R) : R := l * (x - mu) ^ 2 / (mu ^ 2 * x).

Lemma ig_defs : forall mu l v x,
  ig_y mu v = mu * v * v /\
  ig_s mu l v = sqrt (4 * l * ig_y mu v + ig_y mu v * ig_y mu v) /\
  ig_x1 mu l v = mu + mu / (2 * l) * (ig_y mu v - ig_s mu l v) /\
  ig_x2 mu l v = mu * mu / ig_x1 mu l v /\
  ig_g mu l x = l * (x - mu) ^ 2 / (mu ^ 2 * x).
Proof. intros. repeat split. Qed.

Section IG.
Variables mu l v : R.
Hypothesis Hmu : 0 < mu.
Hypothesis Hl : 0 < l.

Let y := ig_y mu v.
Let s := ig_s mu l v.

Lemma ig_y_nonneg : 0 <= y.
Proof. unfold y, ig_y. assert (0 <= v * v) by nra. nra. Qed.

Lemma ig_s_sqr : s * s = 4 * l * y + y * y.
Proof. unfold s, ig_s. fold y. apply sqrt_sqrt. pose proof ig_y_nonneg. nra. Qed.

Lemma ig_s_nonneg : 0 <= s.
Proof. unfold s, ig_s. apply sqrt_pos. Qed.

Lemma ig_s_bounds : y <= s < 2 * l + y.
Proof.
  pose proof ig_y_nonneg. pose proof ig_s_sqr. pose proof ig_s_nonneg. split; nra.
Qed.

Lemma ig_x1_pos_aux : 0 < ig_x1 mu l v <= mu.
Proof.
  pose proof ig_s_bounds as [B1 B2]. unfold ig_x1. fold y s.
  assert (Hk : 0 < mu / (2 * l)) by (apply Rdiv_lt_0_compat; lra).
  split.
  - replace (mu + mu / (2 * l) * (y - s)) with (mu / (2 * l) * (2 * l + y - s)) by (field; lra).
    apply Rmult_lt_0_compat; lra.
  - assert (mu / (2 * l) * (y - s) <= 0) by nra. lra.
Qed.

Lemma ig_x2_closed_aux : ig_x2 mu l v = mu + mu / (2 * l) * (y + s).
Proof.
  pose proof ig_x1_pos_aux as [P _]. pose proof ig_s_sqr as S2. unfold ig_x2.
  apply (Rmult_eq_reg_r (ig_x1 mu l v)); [| lra].
  replace (mu * mu / ig_x1 mu l v * ig_x1 mu l v) with (mu * mu) by (field; lra).
  unfold ig_x1. fold y s.
  assert (E : (mu + mu / (2 * l) * (y + s)) * (mu + mu / (2 * l) * (y - s)) - mu * mu
              = - (mu * mu / (4 * l * l)) * (s * s - (4 * l * y + y * y))) by (field; lra).
  rewrite S2 in E. lra.
Qed.

Lemma ig_x1_quadratic : l * (ig_x1 mu l v - mu) ^ 2 = mu ^ 2 * ig_x1 mu l v * v ^ 2.
Proof.
  pose proof ig_s_sqr as S2. unfold ig_x1. fold y s.
  assert (E : l * (mu + mu / (2 * l) * (y - s) - mu) ^ 2
              - mu * (mu + mu / (2 * l) * (y - s)) * y
              = mu * mu / (4 * l) * (s * s - (4 * l * y + y * y))) by (field; lra).
  rewrite S2 in E. unfold y at 3 in E. unfold ig_y in E. nra.
Qed.

Lemma ig_x2_quadratic : l * (ig_x2 mu l v - mu) ^ 2 = mu ^ 2 * ig_x2 mu l v * v ^ 2.
Proof.
  pose proof ig_s_sqr as S2. rewrite ig_x2_closed_aux.
  assert (E : l * (mu + mu / (2 * l) * (y + s) - mu) ^ 2
              - mu * (mu + mu / (2 * l) * (y + s)) * y
              = mu * mu / (4 * l) * (s * s - (4 * l * y + y * y))) by (field; lra).
  rewrite S2 in E. unfold y at 3 in E. unfold ig_y in E. nra.
Qed.

End IG.

Theorem ig_roots_product : forall mu l v, 0 < mu -> 0 < l ->
  ig_x1 mu l v * ig_x2 mu l v = mu ^ 2.
Proof.
  intros mu l v Hmu Hl. pose proof (ig_x1_pos_aux mu l v Hmu Hl) as [P _].
  unfold ig_x2. field. lra.
Qed.

(* x2 is the other root  mu + mu/(2l) (y + sqrt(4 l y + y^2))  of the quadratic *)
Theorem ig_x2_closed : forall mu l v, 0 < mu -> 0 < l ->
  ig_x2 mu l v = mu + mu / (2 * l) * (ig_y mu v + ig_s mu l v).
Proof. intros. apply ig_x2_closed_aux; assumption. Qed.

Theorem ig_x1_pos : forall mu l v, 0 < mu -> 0 < l -> 0 < ig_x1 mu l v <= mu.
Proof. intros. apply ig_x1_pos_aux; assumption. Qed.

Theorem ig_x2_ge : forall mu l v, 0 < mu -> 0 < l -> mu <= ig_x2 mu l v.
Proof.
  intros mu l v Hmu Hl. pose proof (ig_x1_pos mu l v Hmu Hl) as [P Q].
  pose proof (ig_roots_product mu l v Hmu Hl) as E.
  destruct (Rle_lt_dec mu (ig_x2 mu l v)) as [H | H]; [exact H | exfalso].
  assert (0 < ig_x2 mu l v).
  { unfold ig_x2. apply Rdiv_lt_0_compat; nra. }
  nra.
Qed.

Theorem ig_roots_solve : forall mu l v, 0 < mu -> 0 < l ->
  ig_g mu l (ig_x1 mu l v) = v ^ 2 /\ ig_g mu l (ig_x2 mu l v) = v ^ 2.
Proof.
  intros mu l v Hmu Hl. pose proof (ig_x1_pos mu l v Hmu Hl) as [P _].
  pose proof (ig_x2_ge mu l v Hmu Hl) as P2.
  unfold ig_g. split.
  - rewrite (ig_x1_quadratic mu l v Hmu Hl). field. split; lra.
  - rewrite (ig_x2_quadratic mu l v Hmu Hl). field. split; lra.
Qed.

(* the probability with which the code returns the smaller root *)
Theorem ig_choice_prob_range : forall mu l v, 0 < mu -> 0 < l ->
  1 / 2 <= mu / (mu + ig_x1 mu l v) < 1.
Proof.
  intros mu l v Hmu Hl. pose proof (ig_x1_pos mu l v Hmu Hl) as [P Q].
  assert (0 < mu + ig_x1 mu l v) by lra. split.
  - apply (Rmult_le_reg_r (mu + ig_x1 mu l v)); [lra |].
    replace (mu / (mu + ig_x1 mu l v) * (mu + ig_x1 mu l v)) with mu by (field; lra). lra.
  - apply (Rmult_lt_reg_r (mu + ig_x1 mu l v)); [lra |].
    replace (mu / (mu + ig_x1 mu l v) * (mu + ig_x1 mu l v)) with mu by (field; lra). lra.
Qed.

(* Why mu/(mu + x1): for a two-to-one transformation nu = g(X) the root x_i must be chosen with
   probability proportional to w_i = f(x_i)/|g'(x_i)| (Michael, Schucany, Haas 1976), f the target
   density.  With f the IG(mu,l) density and x2 = mu^2/x1 this ratio is exactly mu/(mu + x1).       *)
Definition ig_pdf (mu l x : R) : R :=
  sqrt (l / (2 * PI * x ^ 3)) * exp (- (l * (x - mu) ^ 2 / (2 * mu ^ 2 * x))).
Definition ig_g' (mu l x : R) : R := l * (x ^ 2 - mu ^ 2) / (mu ^ 2 * x ^ 2).

Lemma ig_pdf_defs : forall mu l x,
  ig_pdf mu l x = sqrt (l / (2 * PI * x ^ 3)) * exp (- (l * (x - mu) ^ 2 / (2 * mu ^ 2 * x))) /\
  ig_g' mu l x = l * (x ^ 2 - mu ^ 2) / (mu ^ 2 * x ^ 2).
Proof. intros. repeat split. Qed.

Theorem ig_choice_prob : forall mu l x1, 0 < mu -> 0 < l -> 0 < x1 < mu ->
  let x2 := mu * mu / x1 in
  let w1 := ig_pdf mu l x1 / Rabs (ig_g' mu l x1) in
  let w2 := ig_pdf mu l x2 / Rabs (ig_g' mu l x2) in
  w1 / (w1 + w2) = mu / (mu + x1).
Proof.
  intros mu l x1 Hmu Hl [Hx1 Hx1mu] x2 w1 w2.
  assert (Hx2 : 0 < x2) by (unfold x2; apply Rdiv_lt_0_compat; nra).
  assert (Hpi : 0 < PI) by apply PI_RGT_0.
  (* the exponential factors agree *)
  assert (Eexp : l * (x2 - mu) ^ 2 / (2 * mu ^ 2 * x2) = l * (x1 - mu) ^ 2 / (2 * mu ^ 2 * x1)).
  { unfold x2. field. lra. }
  (* sqrt factors: sqrt(l/(2 pi x2^3)) = sqrt(l/(2 pi x1^3)) * (x1/mu)^3 *)
  assert (Esq : sqrt (l / (2 * PI * x2 ^ 3)) = sqrt (l / (2 * PI * x1 ^ 3)) * (x1 ^ 3 / mu ^ 3)).
  { replace (l / (2 * PI * x2 ^ 3))
      with (l / (2 * PI * x1 ^ 3) * ((x1 ^ 3 / mu ^ 3) * (x1 ^ 3 / mu ^ 3)))
      by (unfold x2; field; repeat split; lra).
    assert (0 <= x1 ^ 3 / mu ^ 3).
    { apply Rlt_le, Rdiv_lt_0_compat; apply pow_lt; lra. }
    rewrite sqrt_mult_alt.
    - rewrite sqrt_square by assumption. reflexivity.
    - apply Rlt_le, Rdiv_lt_0_compat; [lra |].
      assert (0 < x1 ^ 3) by (apply pow_lt; lra). nra. }
  assert (Hd : 0 < mu ^ 2 - x1 ^ 2) by nra.
  assert (Hld : 0 < l * (mu ^ 2 - x1 ^ 2)) by (apply Rmult_lt_0_compat; assumption).
  (* the derivative factors *)
  assert (Eg1 : Rabs (ig_g' mu l x1) = l * (mu ^ 2 - x1 ^ 2) / (mu ^ 2 * x1 ^ 2)).
  { unfold ig_g'. rewrite Rabs_left.
    - field. split; lra.
    - replace (l * (x1 ^ 2 - mu ^ 2) / (mu ^ 2 * x1 ^ 2))
        with (- (l * (mu ^ 2 - x1 ^ 2) / (mu ^ 2 * x1 ^ 2))) by (field; split; lra).
      assert (0 < l * (mu ^ 2 - x1 ^ 2) / (mu ^ 2 * x1 ^ 2)); [| lra].
      apply Rdiv_lt_0_compat; [exact Hld |]. apply Rmult_lt_0_compat; apply pow_lt; lra. }
  assert (Eg2 : Rabs (ig_g' mu l x2) = l * (mu ^ 2 - x1 ^ 2) / mu ^ 4).
  { unfold ig_g'. rewrite Rabs_right.
    - unfold x2. field. split; lra.
    - replace (l * (x2 ^ 2 - mu ^ 2) / (mu ^ 2 * x2 ^ 2)) with (l * (mu ^ 2 - x1 ^ 2) / mu ^ 4)
        by (unfold x2; field; split; lra).
      apply Rle_ge, Rlt_le, Rdiv_lt_0_compat; [exact Hld | apply pow_lt; lra]. }
  set (E := exp (- (l * (x1 - mu) ^ 2 / (2 * mu ^ 2 * x1)))).
  set (Q := sqrt (l / (2 * PI * x1 ^ 3))).
  assert (HE : 0 < E) by apply exp_pos.
  assert (HQ : 0 < Q).
  { apply sqrt_lt_R0, Rdiv_lt_0_compat; [lra |]. assert (0 < x1 ^ 3) by (apply pow_lt; lra). nra. }
  unfold w1, w2, ig_pdf. rewrite Eexp, Esq, Eg1, Eg2. fold E Q.
  field. repeat split; try lra.
  assert (0 < x1 ^ 3) by (apply pow_lt; lra).
  assert (0 < (mu * x1) ^ 2) by (apply pow_lt, Rmult_lt_0_compat; lra).
  assert (0 < Q * E * (mu * x1) ^ 2 + Q * x1 ^ 3 * E * mu); [| lra].
  apply Rplus_lt_0_compat; repeat apply Rmult_lt_0_compat; first [assumption | lra].
Qed.

(* ================================================================ 2. Skew normal *)

Definition skew_normalized (a z1 z2 : R) : R :=
  ((1 + a) * Rmax z1 z2 + (1 - a) * Rmin z1 z2) / (sqrt (1 + a * a) * sqrt 2).

Lemma skew_def : forall a z1 z2,
  skew_normalized a z1 z2
  = ((1 + a) * Rmax z1 z2 + (1 - a) * Rmin z1 z2) / (sqrt (1 + a * a) * sqrt 2).
Proof. reflexivity. Qed.

Lemma sqrt2_sqr : sqrt 2 * sqrt 2 = 2.
Proof. apply sqrt_sqrt. lra. Qed.

Lemma sqrt2_pos : 0 < sqrt 2.
Proof. apply sqrt_lt_R0. lra. Qed.

Lemma Rmax_plus_Rmin : forall a b, Rmax a b + Rmin a b = a + b.
Proof.
  intros a b. destruct (Rle_dec a b).
  - rewrite Rmax_right, Rmin_left by assumption. ring.
  - rewrite Rmax_left, Rmin_right by lra. ring.
Qed.

Lemma Rmax_minus_Rmin : forall a b, Rmax a b - Rmin a b = Rabs (a - b).
Proof.
  intros a b. destruct (Rle_dec a b).
  - rewrite Rmax_right, Rmin_left by assumption. rewrite Rabs_left1 by lra. ring.
  - rewrite Rmax_left, Rmin_right by lra. rewrite Rabs_right by lra. ring.
Qed.

(* S = (z1+z2)/sqrt 2 and D = (z1-z2)/sqrt 2 are the rotation by 45 degrees of (z1,z2) *)
Theorem skew_repr : forall a z1 z2,
  skew_normalized a z1 z2
  = ((z1 + z2) / sqrt 2 + a * Rabs ((z1 - z2) / sqrt 2)) / sqrt (1 + a * a).
Proof.
  intros a z1 z2. pose proof sqrt2_pos as H2.
  assert (Ha : 0 < sqrt (1 + a * a)) by (apply sqrt_lt_R0; nra).
  unfold skew_normalized.
  replace (Rabs ((z1 - z2) / sqrt 2)) with (Rabs (z1 - z2) / sqrt 2).
  2:{ unfold Rdiv. rewrite Rabs_mult. f_equal. symmetry. apply Rabs_right.
      apply Rle_ge, Rlt_le, Rinv_0_lt_compat, H2. }
  rewrite <- Rmax_minus_Rmin, <- (Rmax_plus_Rmin z1 z2). field. split; lra.
Qed.

Theorem skew_rotation_isometry : forall z1 z2,
  ((z1 + z2) / sqrt 2) ^ 2 + ((z1 - z2) / sqrt 2) ^ 2 = z1 ^ 2 + z2 ^ 2.
Proof.
  intros z1 z2. pose proof sqrt2_pos as H2. pose proof sqrt2_sqr as H22.
  replace (((z1 + z2) / sqrt 2) ^ 2 + ((z1 - z2) / sqrt 2) ^ 2)
    with ((2 * z1 ^ 2 + 2 * z2 ^ 2) / (sqrt 2 * sqrt 2)) by (field; lra).
  rewrite H22. field.
Qed.

Theorem skew_shape_one : forall z1 z2, skew_normalized 1 z1 z2 = Rmax z1 z2.
Proof.
  intros z1 z2. unfold skew_normalized. replace (1 + 1 * 1) with 2 by ring.
  pose proof sqrt2_pos. pose proof sqrt2_sqr as E.
  replace ((1 + 1) * Rmax z1 z2 + (1 - 1) * Rmin z1 z2) with (sqrt 2 * sqrt 2 * Rmax z1 z2)
    by (rewrite E; ring).
  field. lra.
Qed.

Theorem skew_shape_minus_one : forall z1 z2, skew_normalized (-1) z1 z2 = Rmin z1 z2.
Proof.
  intros z1 z2. unfold skew_normalized. replace (1 + -1 * -1) with 2 by ring.
  pose proof sqrt2_pos. pose proof sqrt2_sqr as E.
  replace ((1 + -1) * Rmax z1 z2 + (1 - -1) * Rmin z1 z2) with (sqrt 2 * sqrt 2 * Rmin z1 z2)
    by (rewrite E; ring).
  field. lra.
Qed.

(* (S + |D|)/sqrt 2 = max,  (S - |D|)/sqrt 2 = min *)
Theorem skew_max_min_repr : forall z1 z2,
  ((z1 + z2) / sqrt 2 + Rabs ((z1 - z2) / sqrt 2)) / sqrt 2 = Rmax z1 z2 /\
  ((z1 + z2) / sqrt 2 - Rabs ((z1 - z2) / sqrt 2)) / sqrt 2 = Rmin z1 z2.
Proof.
  intros z1 z2. split.
  - rewrite <- skew_shape_one, skew_repr. replace (1 + 1 * 1) with 2 by ring.
    replace (1 * Rabs ((z1 - z2) / sqrt 2)) with (Rabs ((z1 - z2) / sqrt 2)) by ring. reflexivity.
  - rewrite <- skew_shape_minus_one, skew_repr. replace (1 + -1 * -1) with 2 by ring.
    replace (-1 * Rabs ((z1 - z2) / sqrt 2)) with (- Rabs ((z1 - z2) / sqrt 2)) by ring.
    reflexivity.
Qed.

(* shape 0: the general formula gives S = (z1+z2)/sqrt 2 (standard normal by rotation); the code
   short-cuts to z1 — another standard normal — without drawing z2 *)
Theorem skew_shape_zero : forall z1 z2, skew_normalized 0 z1 z2 = (z1 + z2) / sqrt 2.
Proof.
  intros z1 z2. rewrite skew_repr. replace (1 + 0 * 0) with 1 by ring. rewrite sqrt_1.
  unfold Rdiv. rewrite Rinv_1. ring.
Qed.

(* ================================================================ 3. Algebraic forms *)

(* chi_squared.rs, k = 1: returns z*z.  {z^2 <= x} = {-sqrt x <= z <= sqrt x}, so the CDF is
   Phi(sqrt x) - Phi(-sqrt x), the chi-square(1) CDF *)
Theorem chi1_square : forall z x, 0 <= x -> (z * z <= x <-> - sqrt x <= z <= sqrt x).
Proof.
  intros z x Hx. pose proof (sqrt_pos x) as Hs. pose proof (sqrt_sqrt x Hx) as Hss.
  split; intros H; [split |]; nra.
Qed.

(* student_t.rs: norm * sqrt (dof / chi) = norm / sqrt (chi / dof) *)
Theorem student_t_form : forall dof chi z, 0 < dof -> 0 < chi ->
  z * sqrt (dof / chi) = z / sqrt (chi / dof).
Proof.
  intros dof chi z Hd Hc.
  assert (Hq : 0 < chi / dof) by (apply Rdiv_lt_0_compat; assumption).
  replace (dof / chi) with (/ (chi / dof)) by (field; split; lra).
  rewrite sqrt_inv. reflexivity.
Qed.

(* fisher_f.rs: numer / denom * (n / m) = (numer / m) / (denom / n) *)
Theorem fisher_f_form : forall m n x y, 0 < m -> 0 < n -> 0 < y ->
  x / y * (n / m) = (x / m) / (y / n).
Proof. intros m n x y Hm Hn Hy. field. repeat split; lra. Qed.

(* pert.rs *)
Definition pert_v (mn mx mode shape : R) : R := 1 + shape * (mode - mn) / (mx - mn).
Definition pert_w (mn mx mode shape : R) : R := 1 + shape * (mx - mode) / (mx - mn).

Lemma pert_defs : forall mn mx mode shape,
  pert_v mn mx mode shape = 1 + shape * (mode - mn) / (mx - mn) /\
  pert_w mn mx mode shape = 1 + shape * (mx - mode) / (mx - mn).
Proof. intros. repeat split. Qed.

Theorem pert_affine_beta : forall mn mx mode shape, mn < mx -> mn <= mode <= mx -> 0 <= shape ->
  let v := pert_v mn mx mode shape in let w := pert_w mn mx mode shape in
  1 <= v /\ 1 <= w /\ v + w = 2 + shape /\
  (forall B, 0 <= B <= 1 -> mn <= B * (mx - mn) + mn <= mx) /\
  (* the mean of min + range * Beta(v,w) is the PERT mean *)
  mn + (mx - mn) * (v / (v + w)) = (mn + shape * mode + mx) / (shape + 2).
Proof.
  intros mn mx mode shape Hr Hm Hs v w. unfold v, w, pert_v, pert_w.
  assert (Hi : 0 < / (mx - mn)) by (apply Rinv_0_lt_compat; lra).
  assert (E : 1 + shape * (mode - mn) / (mx - mn) + (1 + shape * (mx - mode) / (mx - mn)) = 2 + shape)
    by (field; lra).
  repeat split.
  - unfold Rdiv. assert (0 <= shape * (mode - mn) * / (mx - mn)); [| lra].
    apply Rmult_le_pos; [apply Rmult_le_pos |]; lra.
  - unfold Rdiv. assert (0 <= shape * (mx - mode) * / (mx - mn)); [| lra].
    apply Rmult_le_pos; [apply Rmult_le_pos |]; lra.
  - exact E.
  - nra.
  - nra.
  - rewrite E. field. split; lra.
Qed.

(* PertBuilder::with_mean inverts the mean formula *)
Theorem pert_with_mean : forall mn mx mean shape, 0 < shape ->
  let mode := ((shape + 2) * mean - mn - mx) / shape in
  (mn + shape * mode + mx) / (shape + 2) = mean.
Proof. intros mn mx mean shape Hs mode. unfold mode. field. split; lra. Qed.

(* normal_inverse_gaussian.rs: beta * V + sqrt V * Z, conditionally on V > 0 a N(beta V, V) *)
Theorem nig_mixture_form : forall beta V z x, 0 < V ->
  (beta * V + sqrt V * z <= x <-> z <= (x - beta * V) / sqrt V).
Proof.
  intros beta V z x HV. assert (Hs : 0 < sqrt V) by (apply sqrt_lt_R0; exact HV).
  split; intros H.
  - apply (Rmult_le_reg_l (sqrt V)); [exact Hs |].
    replace (sqrt V * ((x - beta * V) / sqrt V)) with (x - beta * V) by (field; lra). lra.
  - apply (Rmult_le_compat_l (sqrt V)) in H; [| lra].
    replace (sqrt V * ((x - beta * V) / sqrt V)) with (x - beta * V) in H by (field; lra). lra.
Qed.

(* normal.rs: mean + std_dev * z *)
Theorem normal_affine_event : forall mu s z x,
  (0 < s -> (mu + s * z <= x <-> z <= (x - mu) / s)) /\
  (s < 0 -> (mu + s * z <= x <-> (x - mu) / s <= z)).
Proof.
  intros mu s z x. split; intros Hs.
  - split; intros H.
    + apply (Rmult_le_reg_l s); [exact Hs |].
      replace (s * ((x - mu) / s)) with (x - mu) by (field; lra). lra.
    + apply (Rmult_le_compat_l s) in H; [| lra].
      replace (s * ((x - mu) / s)) with (x - mu) in H by (field; lra). lra.
  - split; intros H.
    + apply (Rmult_le_reg_l (- s)); [lra |].
      replace (- s * ((x - mu) / s)) with (- (x - mu)) by (field; lra). lra.
    + apply (Rmult_le_compat_l (- s)) in H; [| lra].
      replace (- s * ((x - mu) / s)) with (- (x - mu)) in H by (field; lra). lra.
Qed.

(* negative std_dev: mu + s z = mu + |s| (-z), and -z is again standard normal *)
Theorem normal_negative_std : forall mu s z, s < 0 -> mu + s * z = mu + Rabs s * (- z).
Proof. intros mu s z Hs. rewrite Rabs_left by exact Hs. ring. Qed.

(* LogNormal: exp (mu + s z) *)
Theorem lognormal_exp : forall mu s z x, 0 < s -> 0 < x ->
  (exp (mu + s * z) <= x <-> z <= (ln x - mu) / s).
Proof.
  intros mu s z x Hs Hx.
  destruct (normal_affine_event mu s z (ln x)) as [N _]. rewrite <- (N Hs).
  split; intros H.
  - rewrite <- (ln_exp (mu + s * z)). destruct H as [H | H].
    + left. apply ln_increasing; [apply exp_pos | exact H].
    + right. rewrite H. reflexivity.
  - rewrite <- (exp_ln x Hx). destruct H as [H | H].
    + left. apply exp_increasing. exact H.
    + right. rewrite H. reflexivity.
Qed.
