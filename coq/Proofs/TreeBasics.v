(* Proofs/TreeBasics.v — arithmetic of the implicit heap layout ((i-1)/2 parent map),
   the ancestor relation, the pointwise effect of the ancestor walk, and the
   representation invariant Rep.  Stdlib only; axiom-free.                     *)
From Coq Require Import ZArith List Bool Arith Lia.
From RD Require Import Model.Tree.
Import ListNotations.
Open Scope Z_scope.

(* ---- lists --------------------------------------------------------------- *)
Lemma length_upd l : forall i v, length (upd l i v) = length l.
Proof. induction l as [|x r IH]; intros [|i] v; simpl; auto. Qed.
Lemma nthz_upd_same l : forall i v, (i < length l)%nat -> nthz (upd l i v) i = v.
Proof. unfold nthz. induction l as [|x r IH]; intros [|i] v H; simpl in *; try lia; auto. apply IH; lia. Qed.
Lemma nthz_upd_other l : forall i j v, i <> j -> nthz (upd l i v) j = nthz l j.
Proof. unfold nthz. induction l as [|x r IH]; intros [|i] [|j] v H; simpl; auto; try lia. Qed.
Lemma upd_oob l : forall i v, (length l <= i)%nat -> upd l i v = l.
Proof. induction l as [|x r IH]; intros [|i] v H; simpl in *; auto; try lia. f_equal. apply IH. lia. Qed.
Lemma sub_upd_same t i v : (i < length t)%nat -> sub (upd t i v) i = v.
Proof. intros. unfold sub. rewrite length_upd. destruct (Nat.ltb_spec i (length t)); [|lia]. now apply nthz_upd_same. Qed.
Lemma sub_upd_other t i j v : i <> j -> sub (upd t i v) j = sub t j.
Proof. intros. unfold sub. rewrite length_upd. destruct (Nat.ltb_spec j (length t)); auto. now apply nthz_upd_other. Qed.
Lemma nthz_oob l i : (length l <= i)%nat -> nthz l i = 0.
Proof. unfold nthz. intros. now apply nth_overflow. Qed.
Lemma sub_in t i : (i < length t)%nat -> sub t i = nthz t i.
Proof. unfold sub. intros. destruct (Nat.ltb_spec i (length t)); [auto|lia]. Qed.
Lemma sub_out t i : (length t <= i)%nat -> sub t i = 0.
Proof. unfold sub. intros. destruct (Nat.ltb_spec i (length t)); [lia|auto]. Qed.
Lemma nthz_app_l a b i : (i < length a)%nat -> nthz (a ++ b) i = nthz a i.
Proof. unfold nthz. intros. now apply app_nth1. Qed.
Lemma nthz_app_r a b i : (length a <= i)%nat -> nthz (a ++ b) i = nthz b (i - length a).
Proof. unfold nthz. intros. now apply app_nth2. Qed.
Lemma nthz_ext a b : length a = length b -> (forall i, (i < length a)%nat -> nthz a i = nthz b i) -> a = b.
Proof. intros L H. apply nth_ext with 0 0; auto. Qed.

(* ---- parent map ----------------------------------------------------------- *)
Lemma par_lt i : (0 < i)%nat -> (par i < i)%nat.
Proof. unfold par. intros. apply Nat.div_lt_upper_bound; lia. Qed.
Lemma par_child i c : (0 < c)%nat -> (par c = i <-> c = (2*i+1)%nat \/ c = (2*i+2)%nat).
Proof. unfold par. intros Hc. split.
  - intros H. pose proof (Nat.div_mod (c-1) 2 ltac:(lia)). pose proof (Nat.mod_upper_bound (c-1) 2 ltac:(lia)). lia.
  - intros [->| ->].
    + replace (2*i+1-1)%nat with (i*2)%nat by lia. apply Nat.div_mul. lia.
    + replace (2*i+2-1)%nat with (1 + i*2)%nat by lia. rewrite Nat.div_add by lia. reflexivity.
Qed.
Lemma par_l i : par (2*i+1) = i. Proof. apply par_child; lia. Qed.
Lemma par_r i : par (2*i+2) = i. Proof. apply par_child; lia. Qed.

(* ---- ancestor-or-self, decided with fuel ---------------------------------- *)
Fixpoint anc (fuel i j : nat) : bool :=
  (i =? j)%nat || match fuel with O => false | S f => match j with O => false | _ => anc f i (par j) end end.
(* strict ancestor *)
Definition sanc (fuel j i : nat) : bool := match i with O => false | _ => anc fuel j (par i) end.

Lemma anc_unfold f j i : anc (S f) j i = ((j =? i)%nat || sanc f j i)%bool.
Proof. destruct i; reflexivity. Qed.
Lemma anc_le : forall f c k, anc f c k = true -> (c <= k)%nat.
Proof. induction f as [|f IH]; intros c k; simpl.
  - rewrite orb_false_r. intros H. apply Nat.eqb_eq in H. lia.
  - destruct (Nat.eqb_spec c k); [lia|]. simpl. destruct k; [discriminate|]. intros H. apply IH in H.
    pose proof (par_lt (S k) ltac:(lia)). lia. Qed.
Lemma anc_refl f k : anc f k k = true.
Proof. destruct f; simpl; now rewrite Nat.eqb_refl. Qed.
Lemma sanc_lt f j i : sanc f j i = true -> (j < i)%nat.
Proof. unfold sanc. destruct i; [discriminate|]. intros H. apply anc_le in H.
  pose proof (par_lt (S i) ltac:(lia)). lia. Qed.
Lemma sanc_irrefl f i : sanc f i i = false.
Proof. destruct (sanc f i i) eqn:E; auto. apply sanc_lt in E. lia. Qed.

Definition b2z (b : bool) : Z := if b then 1 else 0.

Lemma anc_S f i k : (0 < k)%nat -> anc (S f) i k = ((i =? k)%nat || anc f i (par k))%bool.
Proof. destruct k; [lia|reflexivity]. Qed.
Lemma anc_0 f i : anc f i 0 = (i =? 0)%nat.
Proof. destruct f; cbn [anc]; now rewrite orb_false_r. Qed.

(* the path from k to the root passes through i iff it starts at i or passes through
   exactly one child of i *)
Lemma anc_split : forall f k i, (k <= f)%nat ->
  b2z (anc f i k) = b2z (i =? k)%nat + b2z (anc f (2*i+1) k) + b2z (anc f (2*i+2) k).
Proof.
  induction f as [|f IH]; intros k i Hkf.
  - assert (k = 0)%nat by lia. subst k. rewrite !anc_0.
    destruct (Nat.eqb_spec i 0), (Nat.eqb_spec (2*i+1) 0), (Nat.eqb_spec (2*i+2) 0); unfold b2z; lia.
  - destruct (Nat.eq_dec k 0) as [->|Hk0].
    + rewrite !anc_0.
      destruct (Nat.eqb_spec i 0), (Nat.eqb_spec (2*i+1) 0), (Nat.eqb_spec (2*i+2) 0); unfold b2z; lia.
    + rewrite !anc_S by lia.
      pose proof (par_child i k ltac:(lia)) as PC. pose proof (par_lt k ltac:(lia)) as PL.
      specialize (IH (par k) i ltac:(lia)).
      assert (A1 : anc f (2*i+1) (par k) = true -> (2*i+1 <= par k)%nat) by apply anc_le.
      assert (A2 : anc f (2*i+2) (par k) = true -> (2*i+2 <= par k)%nat) by apply anc_le.
      assert (A0 : anc f i (par k) = true -> (i <= par k)%nat) by apply anc_le.
      destruct (Nat.eqb_spec i k), (Nat.eqb_spec (2*i+1) k), (Nat.eqb_spec (2*i+2) k),
               (Nat.eqb_spec i (par k));
        destruct (anc f i (par k)), (anc f (2*i+1) (par k)), (anc f (2*i+2) (par k));
        unfold b2z in *; cbn [orb] in *;
        try lia;
        try (exfalso; specialize (A1 eq_refl); lia);
        try (exfalso; specialize (A2 eq_refl); lia);
        try (exfalso; specialize (A0 eq_refl); lia);
        try (exfalso; assert (k = (2*i+1)%nat \/ k = (2*i+2)%nat) by (apply PC; auto); lia);
        try (exfalso; assert (par k = i) by (apply PC; lia); lia).
Qed.

(* the root is an ancestor of every node *)
Lemma anc_root : forall f k, (k <= f)%nat -> anc f 0 k = true.
Proof. induction f as [|f IH]; intros k Hk.
  - assert (k = 0)%nat by lia. subst. reflexivity.
  - destruct k; [reflexivity|]. rewrite anc_S by lia. cbn [Nat.eqb orb]. apply IH.
    pose proof (par_lt (S k) ltac:(lia)). lia. Qed.

(* ---- effect of the ancestor walk ------------------------------------------ *)
Lemma climb_spec : forall fuel ty d t i t', (i <= fuel)%nat -> (i <= length t)%nat ->
  climb fuel ty d t i = Ok t' ->
  length t' = length t /\ forall j, nthz t' j = nthz t j + (if sanc fuel j i then d else 0).
Proof.
  induction fuel as [|f IH]; intros ty d t i t' Hf Hl H.
  - assert (i = 0)%nat by lia. subst. simpl in H. inversion H; subst. split; auto. intros; simpl; lia.
  - destruct i as [|i'].
    + simpl in H. inversion H; subst. split; auto. intros; simpl; lia.
    + remember (S i') as i eqn:Ei. pose proof (par_lt i ltac:(lia)) as Hp.
      assert (Hc : climb (S f) ty d t i =
        (let p := par i in let v := nthz t p + d in if inr ty v then climb f ty d (upd t p v) p else Panic))
        by (rewrite Ei; reflexivity).
      rewrite Hc in H. cbv zeta in H.
      destruct (inr ty (nthz t (par i) + d)) eqn:Er; [|discriminate].
      apply IH in H; [|lia|rewrite length_upd; lia].
      destruct H as [HL HN]. rewrite length_upd in HL. split; auto.
      intros j. rewrite HN.
      assert (Hs : sanc (S f) j i = anc (S f) j (par i)) by (rewrite Ei; reflexivity).
      rewrite Hs, anc_unfold.
      destruct (Nat.eqb_spec j (par i)) as [->|Hne]; cbn [orb].
      * rewrite nthz_upd_same by lia. rewrite sanc_irrefl. lia.
      * rewrite nthz_upd_other by lia. reflexivity.
Qed.

Lemma climb_not_err : forall fuel ty d t i e, climb fuel ty d t i <> Err e.
Proof. induction fuel as [|f IH]; intros ty d t i e; destruct i; simpl; try discriminate.
  destruct (inr ty _); [apply IH|discriminate]. Qed.

(* the walk succeeds when every strict ancestor stays in range *)
Lemma climb_ok : forall fuel ty d t i, (i <= fuel)%nat -> (i <= length t)%nat ->
  (forall j, sanc fuel j i = true -> inr ty (nthz t j + d) = true) ->
  exists t', climb fuel ty d t i = Ok t'.
Proof.
  induction fuel as [|f IH]; intros ty d t i Hf Hl H.
  - assert (i = 0)%nat by lia. subst. eexists; reflexivity.
  - destruct i as [|i']; [eexists; reflexivity|].
    remember (S i') as i eqn:Ei. pose proof (par_lt i ltac:(lia)) as Hp.
    assert (Hc : climb (S f) ty d t i =
      (let p := par i in let v := nthz t p + d in if inr ty v then climb f ty d (upd t p v) p else Panic))
      by (rewrite Ei; reflexivity).
    rewrite Hc. cbv zeta.
    assert (Hs : forall j, sanc (S f) j i = anc (S f) j (par i)) by (intro; rewrite Ei; reflexivity).
    rewrite (H (par i)); [|rewrite Hs; apply anc_refl].
    apply IH; [lia|rewrite length_upd; lia|].
    intros j Hj. rewrite nthz_upd_other; [|apply sanc_lt in Hj; lia].
    apply H. rewrite Hs, anc_unfold, Hj. apply orb_true_r.
Qed.

(* ---- representation invariant ---------------------------------------------- *)
Definition Rep (w t : list Z) : Prop :=
  length w = length t /\
  forall i, (i < length t)%nat -> nthz t i = nthz w i + sub t (2*i+1) + sub t (2*i+2).

Definition Nonneg (w : list Z) : Prop := forall i, 0 <= nthz w i.

Lemma rep_get w t i : Rep w t -> (i < length t)%nat -> get t i = nthz w i.
Proof. intros [_ R] Hi. unfold get. rewrite (R i Hi). lia. Qed.

Lemma rep_abs w t : Rep w t -> abs t = w.
Proof. intros R. pose proof R as [L _]. unfold abs. apply nthz_ext.
  - rewrite map_length, seq_length. lia.
  - intros i Hi. rewrite map_length, seq_length in Hi. unfold nthz at 1.
    rewrite nth_indep with (d' := get t 0%nat) by (rewrite map_length, seq_length; lia).
    rewrite map_nth with (d := 0%nat). rewrite seq_nth by lia. simpl. now apply rep_get. Qed.

(* changing the weight at k by d and adding d on the path k..root preserves Rep *)
Lemma rep_pointwise : forall f w t t' k d, Rep w t -> (k < length t)%nat -> (k <= f)%nat ->
  length t' = length t ->
  (forall j, nthz t' j = nthz t j + (if anc f j k then d else 0)) ->
  Rep (upd w k (nthz w k + d)) t'.
Proof.
  intros f w t t' k d [HL HR] Hk Hf Hlen Hn.
  split. { rewrite length_upd. lia. }
  rewrite Hlen. intros i Hi.
  assert (Hs : forall j, sub t' j = sub t j + (if anc f j k then d else 0)).
  { intros j. unfold sub. rewrite Hlen. destruct (Nat.ltb_spec j (length t)); [apply Hn|].
    destruct (anc f j k) eqn:A; [apply anc_le in A; lia|lia]. }
  rewrite Hn, !Hs, (HR i Hi).
  pose proof (anc_split f k i Hf) as SP. unfold b2z in SP.
  destruct (Nat.eqb_spec i k) as [->|NE].
  - rewrite nthz_upd_same by lia.
    destruct (anc f k k), (anc f (2*k+1) k), (anc f (2*k+2) k); lia.
  - rewrite nthz_upd_other by lia.
    destruct (anc f i k), (anc f (2*i+1) k), (anc f (2*i+2) k); lia.
Qed.

(* the structure is determined by the weight list *)
Theorem rep_unique : forall w t1 t2, Rep w t1 -> Rep w t2 -> t1 = t2.
Proof.
  intros w t1 t2 [L1 R1] [L2 R2].
  assert (Hlen : length t1 = length t2) by lia.
  assert (H : forall m i, (length t1 - i <= m)%nat -> (i < length t1)%nat -> nthz t1 i = nthz t2 i).
  { induction m as [|m IH]; intros i Hm Hi; [lia|].
    rewrite (R1 i Hi), (R2 i ltac:(lia)). unfold sub. rewrite <- Hlen.
    destruct (Nat.ltb_spec (2*i+1) (length t1)); destruct (Nat.ltb_spec (2*i+2) (length t1));
      rewrite ?(IH (2*i+1)%nat), ?(IH (2*i+2)%nat) by lia; lia. }
  apply nthz_ext; [exact Hlen|]. intros i Hi. apply (H (length t1)); lia.
Qed.

(* ---- order facts for non-negative weights ----------------------------------- *)
Lemma rep_sub_nonneg w t : Rep w t -> Nonneg w -> forall i, 0 <= sub t i.
Proof.
  intros [L R] NN.
  assert (H : forall m i, (length t - i <= m)%nat -> 0 <= sub t i).
  { induction m as [|m IH]; intros i Hm.
    - rewrite sub_out by lia. lia.
    - destruct (Nat.ltb_spec i (length t)) as [Hi|Hi]; [|rewrite sub_out by lia; lia].
      rewrite sub_in by lia. rewrite (R i Hi).
      pose proof (NN i). pose proof (IH (2*i+1)%nat ltac:(lia)). pose proof (IH (2*i+2)%nat ltac:(lia)). lia. }
  intros i. apply (H (length t)). lia.
Qed.

Lemma rep_child_le w t : Rep w t -> Nonneg w -> forall c, (0 < c)%nat -> sub t c <= sub t (par c).
Proof.
  intros Rp NN c Hc. pose proof Rp as [L R].
  destruct (Nat.ltb_spec c (length t)) as [Hl|Hl].
  2:{ rewrite (sub_out t c) by lia. now apply (rep_sub_nonneg w t). }
  pose proof (par_lt c Hc) as Hp.
  rewrite (sub_in t (par c)) by lia. rewrite (R (par c)) by lia.
  pose proof (NN (par c)).
  pose proof (rep_sub_nonneg w t Rp NN (2*par c+1)%nat).
  pose proof (rep_sub_nonneg w t Rp NN (2*par c+2)%nat).
  destruct (proj1 (par_child (par c) c Hc) eq_refl) as [E|E]; rewrite <- E in *; lia.
Qed.

Lemma rep_le_root w t : Rep w t -> Nonneg w -> forall i, sub t i <= sub t 0.
Proof.
  intros Rp NN.
  assert (H : forall m i, (i <= m)%nat -> sub t i <= sub t 0).
  { induction m as [|m IH]; intros i Hi.
    - assert (i = 0)%nat by lia. subst. lia.
    - destruct i; [lia|]. pose proof (par_lt (S i) ltac:(lia)).
      pose proof (rep_child_le w t Rp NN (S i) ltac:(lia)). pose proof (IH (par (S i)) ltac:(lia)). lia. }
  intros i. apply (H i). lia.
Qed.

Lemma rep_anc_ge w t : Rep w t -> Nonneg w -> forall f j k, anc f j k = true -> sub t k <= sub t j.
Proof.
  intros Rp NN. induction f as [|f IH]; intros j k A.
  - simpl in A. rewrite orb_false_r in A. apply Nat.eqb_eq in A. subst. lia.
  - destruct (Nat.eq_dec k 0) as [->|Hk].
    + rewrite anc_0 in A. apply Nat.eqb_eq in A. subst. lia.
    + rewrite anc_S in A by lia. apply orb_true_iff in A. destruct A as [A|A].
      * apply Nat.eqb_eq in A. subst. lia.
      * apply IH in A. pose proof (rep_child_le w t Rp NN k ltac:(lia)). lia.
Qed.

Lemma rep_weight_le w t : Rep w t -> Nonneg w -> forall i, (i < length t)%nat -> nthz w i <= sub t i.
Proof.
  intros Rp NN i Hi. pose proof Rp as [L R]. rewrite sub_in by lia. rewrite (R i Hi).
  pose proof (rep_sub_nonneg w t Rp NN (2*i+1)%nat). pose proof (rep_sub_nonneg w t Rp NN (2*i+2)%nat). lia.
Qed.

(* ---- the root is the sum of all weights -------------------------------------- *)
Fixpoint sumf (f : nat -> Z) (n : nat) : Z := match n with O => 0 | S m => sumf f m + f m end.

Lemma sumf_ext f g n : (forall i, (i < n)%nat -> f i = g i) -> sumf f n = sumf g n.
Proof. induction n; simpl; intros H; auto. rewrite IHn, H; auto. Qed.
Lemma sumf_add f g n : sumf (fun i => f i + g i) n = sumf f n + sumf g n.
Proof. induction n; simpl; lia. Qed.
Lemma sumf_zero_tail f n m : (n <= m)%nat -> (forall i, (n <= i)%nat -> f i = 0) -> sumf f m = sumf f n.
Proof. intros H Z. induction m; [assert (n = 0)%nat by lia; subst; auto|].
  destruct (Nat.eq_dec n (S m)); [subst; auto|]. simpl. rewrite Z by lia. rewrite IHm by lia. lia. Qed.
Lemma sumf_children g m : sumf (fun j => g (2*j+1)%nat + g (2*j+2)%nat) m = sumf g (2*m+1) - g 0%nat.
Proof. induction m; [simpl; lia|]. cbn [sumf]. rewrite IHm.
  replace (2 * S m + 1)%nat with (S (S (2*m+1))) by lia. cbn [sumf].
  replace (S (2*m+1)) with (2*m+2)%nat by lia. lia. Qed.
Lemma zsum_sumf l : zsum l = sumf (nthz l) (length l).
Proof. induction l as [|x r IH] using rev_ind; [reflexivity|].
  rewrite app_length. simpl length. replace (length r + 1)%nat with (S (length r)) by lia. cbn [sumf].
  rewrite nthz_app_r by lia. rewrite Nat.sub_diag. unfold nthz at 2. simpl nth.
  rewrite (sumf_ext _ (nthz r)) by (intros; now apply nthz_app_l). rewrite <- IH.
  unfold zsum. rewrite fold_right_app. simpl.
  clear. induction r; simpl; lia. Qed.

Theorem rep_root_sum w t : Rep w t -> sub t 0 = zsum w.
Proof.
  intros [L R]. rewrite zsum_sumf, L.
  assert (E : sumf (nthz t) (length t) =
              sumf (nthz w) (length t) + (sumf (sub t) (2*length t+1) - sub t 0)).
  { rewrite <- sumf_children, <- sumf_add. apply sumf_ext. intros i Hi. rewrite (R i Hi). lia. }
  rewrite (sumf_zero_tail (sub t) (length t) (2*length t+1)) in E by (try lia; intros; apply sub_out; lia).
  rewrite (sumf_ext (sub t) (nthz t) (length t)) in E by (intros; now apply sub_in). lia.
Qed.
