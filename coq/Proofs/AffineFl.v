(* Proofs/AffineFl.v — C07: Normal::from_zscore(z) = fl(mean + fl(std_dev * z)) in IEEE arithmetic
   (round-to-nearest-even), generic in the binary format (prec, emax):
     - value of the two-operation program as two nested roundings (no overflow),
     - explicit forward error bound (u = 2^-prec relative per operation, 2^(emin-1) absolute for the
       product only: the rounded sum of two floats never suffers an underflow error),
     - special values (sd = +-0, z = +-inf),
     - exactness of the multiplication by a power of two (when the product is representable).                                        *)
From Coq Require Import ZArith Bool Reals Lra Lia.
From Flocq Require Import Core.Core Relative Plus_error Mult_error IEEE754.BinarySingleNaN.
Open Scope R_scope.

Section Fmt.
Variable prec emax : Z.
Context (Hp : Prec_gt_0 prec) (Hpe : Prec_lt_emax prec emax).
Notation float := (binary_float prec emax).

(* the format of the finite floats: emin = 3 - emax - prec (binary64: -1074) *)
Definition aemin : Z := 3 - emax - prec.
Definition afexp : Z -> Z := FLT_exp aemin prec.
Definition rnd (r : R) : R := round radix2 afexp ZnearestE r.
(* unit roundoff and the half-smallest-subnormal *)
Definition u : R := bpow radix2 (- prec).
Definition eta : R := / 2 * bpow radix2 aemin.

Instance afexp_valid : Valid_exp afexp := FLT_exp_valid aemin prec.

(* ---- the program ---- *)
Definition from_zscore_fl (mean sd z : float) : float :=
  Bplus mode_NE mean (Bmult mode_NE sd z).

(* ---- value ---- *)
Theorem from_zscore_fl_value (mean sd z : float) :
  is_finite mean = true -> is_finite sd = true -> is_finite z = true ->
  Rabs (rnd (B2R sd * B2R z)) < bpow radix2 emax ->
  Rabs (rnd (B2R mean + rnd (B2R sd * B2R z))) < bpow radix2 emax ->
  B2R (from_zscore_fl mean sd z) = rnd (B2R mean + rnd (B2R sd * B2R z)) /\
  is_finite (from_zscore_fl mean sd z) = true.
Proof.
  intros Fm Fs Fz O1 O2. unfold from_zscore_fl.
  generalize (Bmult_correct prec emax Hp Hpe mode_NE sd z).
  rewrite Rlt_bool_true by exact O1.
  intros (E & F & _). rewrite Fs, Fz in F. simpl in F.
  generalize (Bplus_correct prec emax Hp Hpe mode_NE mean (Bmult mode_NE sd z) Fm F).
  rewrite E. rewrite Rlt_bool_true by exact O2.
  intros (E2 & F2 & _). split; [exact E2 | exact F2].
Qed.

(* ---- rounding error of one operation ---- *)
Lemma u_eq : u = / 2 * bpow radix2 (- prec + 1).
Proof. unfold u. rewrite bpow_plus. simpl (bpow radix2 1). lra. Qed.

Lemma u_pos : 0 < u.
Proof. apply bpow_gt_0. Qed.

Lemma eta_pos : 0 < eta.
Proof. unfold eta. generalize (bpow_gt_0 radix2 aemin). lra. Qed.

(* any real: relative error u plus absolute error eta *)
Lemma rnd_error (x : R) : Rabs (rnd x - x) <= u * Rabs x + eta.
Proof.
  destruct (error_N_FLT radix2 aemin prec Hp (fun n => negb (Z.even n)) x)
    as (e & t & He & Ht & _ & E).
  unfold rnd, afexp. rewrite E. rewrite <- u_eq in He. fold eta in Ht.
  replace (x * (1 + e) + t - x) with (x * e + t) by ring.
  eapply Rle_trans; [apply Rabs_triang|]. rewrite Rabs_mult.
  pose proof (Rabs_pos x). nra.
Qed.

(* sum of two floats: relative error u only, also in the subnormal range *)
Lemma rnd_plus_error (x y : R) :
  generic_format radix2 afexp x -> generic_format radix2 afexp y ->
  Rabs (rnd (x + y) - (x + y)) <= u * Rabs (x + y).
Proof.
  intros Fx Fy.
  destruct (@FLT_plus_error_N_ex radix2 aemin prec Hp (fun n => negb (Z.even n)) x y Fx Fy)
    as (e & He & E).
  unfold rnd, afexp. rewrite E.
  assert (He' : Rabs e <= u).
  { eapply Rle_trans; [exact He|]. rewrite u_eq. apply (u_rod1pu_ro_le_u_ro radix2 prec). }
  replace ((x + y) * (1 + e) - (x + y)) with ((x + y) * e) by ring.
  rewrite Rabs_mult. pose proof (Rabs_pos (x + y)). nra.
Qed.

Lemma rnd_format (x : R) : generic_format radix2 afexp (rnd x).
Proof. apply generic_format_round; auto with typeclass_instances. Qed.

(* ---- the affine map: fl(m + fl(s*z)) against m + s*z ---- *)
(* m a float, s*z any real product *)
Theorem affine_rounding (m s z : R) :
  generic_format radix2 afexp m ->
  Rabs (rnd (m + rnd (s * z)) - (m + s * z))
    <= u * (Rabs (s * z) + Rabs (m + rnd (s * z))) + eta.
Proof.
  intros Fm. set (p := rnd (s * z)).
  pose proof (rnd_plus_error m p Fm (rnd_format _)) as E2.
  pose proof (rnd_error (s * z)) as E1. fold p in E1.
  replace (rnd (m + p) - (m + s * z)) with ((rnd (m + p) - (m + p)) + (p - s * z)) by ring.
  eapply Rle_trans; [apply Rabs_triang|]. lra.
Qed.

(* no assumption on m: both roundings may lose eta *)
Theorem affine_rounding_gen (m s z : R) :
  Rabs (rnd (m + rnd (s * z)) - (m + s * z))
    <= u * (Rabs (s * z) + Rabs (m + rnd (s * z))) + 2 * eta.
Proof.
  set (p := rnd (s * z)).
  pose proof (rnd_error (m + p)) as E2.
  pose proof (rnd_error (s * z)) as E1. fold p in E1.
  replace (rnd (m + p) - (m + s * z)) with ((rnd (m + p) - (m + p)) + (p - s * z)) by ring.
  eapply Rle_trans; [apply Rabs_triang|]. lra.
Qed.

(* the same bound against exact quantities only *)
Theorem affine_rounding_exact (m s z : R) :
  generic_format radix2 afexp m ->
  Rabs (rnd (m + rnd (s * z)) - (m + s * z))
    <= u * Rabs (m + s * z) + u * (2 + u) * Rabs (s * z) + (1 + u) * eta.
Proof.
  intros Fm. pose proof (affine_rounding m s z Fm) as A.
  pose proof (rnd_error (s * z)) as E1. set (p := rnd (s * z)) in *.
  assert (T : Rabs (m + p) <= Rabs (m + s * z) + Rabs (p - s * z)).
  { replace (m + p) with ((m + s * z) + (p - s * z)) by ring. apply Rabs_triang. }
  pose proof u_pos. pose proof (Rabs_pos (s * z)). pose proof eta_pos.
  assert (u * Rabs (m + p) <= u * (Rabs (m + s * z) + (u * Rabs (s * z) + eta))) by nra.
  nra.
Qed.

(* the float program inherits the bound *)
Theorem from_zscore_fl_error (mean sd z : float) :
  is_finite mean = true -> is_finite sd = true -> is_finite z = true ->
  Rabs (rnd (B2R sd * B2R z)) < bpow radix2 emax ->
  Rabs (rnd (B2R mean + rnd (B2R sd * B2R z))) < bpow radix2 emax ->
  Rabs (B2R (from_zscore_fl mean sd z) - (B2R mean + B2R sd * B2R z))
    <= u * Rabs (B2R mean + B2R sd * B2R z) + u * (2 + u) * Rabs (B2R sd * B2R z) + (1 + u) * eta.
Proof.
  intros Fm Fs Fz O1 O2.
  destruct (from_zscore_fl_value mean sd z Fm Fs Fz O1 O2) as (E & _). rewrite E.
  apply affine_rounding_exact. apply (generic_format_B2R prec emax).
Qed.

(* ---- special values ---- *)
Lemma Bmult_zero_l (s : bool) (z : float) :
  is_finite z = true -> Bmult mode_NE (B754_zero s : float) z = B754_zero (xorb s (Bsign z)).
Proof. destruct z as [sz|sz| |sz mz ez Hz]; simpl; try discriminate; reflexivity. Qed.

Lemma rnd_B2R (x : float) : rnd (B2R x) = B2R x.
Proof. apply round_generic; auto with typeclass_instances. apply (generic_format_B2R prec emax). Qed.

(* std_dev = +-0, finite z, finite mean: the value is the mean, the result is finite *)
Theorem from_zscore_fl_sd_zero (mean : float) (s : bool) (z : float) :
  is_finite mean = true -> is_finite z = true ->
  B2R (from_zscore_fl mean (B754_zero s) z) = B2R mean /\
  is_finite (from_zscore_fl mean (B754_zero s) z) = true.
Proof.
  intros Fm Fz. unfold from_zscore_fl. rewrite Bmult_zero_l by exact Fz.
  generalize (Bplus_correct prec emax Hp Hpe mode_NE mean (B754_zero (xorb s (Bsign z))) Fm eq_refl).
  simpl (B2R (B754_zero _)). rewrite Rplus_0_r.
  change (round radix2 (SpecFloat.fexp prec emax) (round_mode mode_NE) (B2R mean)) with (rnd (B2R mean)).
  rewrite rnd_B2R. rewrite Rlt_bool_true by apply abs_B2R_lt_emax.
  intros (E & F & _). split; assumption.
Qed.

(* ... and it IS the mean (same sign, same bits) unless the mean is a zero *)
Theorem from_zscore_fl_sd_zero_eq (mean : float) (s : bool) (z : float) :
  is_finite mean = true -> is_finite z = true -> B2R mean <> 0 ->
  from_zscore_fl mean (B754_zero s) z = mean.
Proof.
  intros Fm Fz Nz.
  destruct (from_zscore_fl_sd_zero mean s z Fm Fz) as (E & F).
  apply B2R_Bsign_inj; try assumption.
  unfold from_zscore_fl. rewrite Bmult_zero_l by exact Fz.
  generalize (Bplus_correct prec emax Hp Hpe mode_NE mean (B754_zero (xorb s (Bsign z))) Fm eq_refl).
  simpl (B2R (B754_zero _)). rewrite Rplus_0_r.
  change (round radix2 (SpecFloat.fexp prec emax) (round_mode mode_NE) (B2R mean)) with (rnd (B2R mean)).
  rewrite rnd_B2R. rewrite Rlt_bool_true by apply abs_B2R_lt_emax.
  intros (_ & _ & S). rewrite S.
  destruct mean as [sm|sm| |sm mm em Hm]; try discriminate; simpl in *; try (now elim Nz).
  destruct sm.
  - rewrite Rcompare_Lt; [reflexivity|]. apply F2R_lt_0. reflexivity.
  - rewrite Rcompare_Gt; [reflexivity|]. apply F2R_gt_0. reflexivity.
Qed.

(* mean a zero too: the result is a zero (of either sign) *)
Corollary from_zscore_fl_all_zero (sm s : bool) (z : float) :
  is_finite z = true -> B2R (from_zscore_fl (B754_zero sm) (B754_zero s) z) = 0.
Proof. intros Fz. now destruct (from_zscore_fl_sd_zero (B754_zero sm) s z eq_refl Fz). Qed.

(* non-finite mean, sd = +-0, finite z: the mean is returned unchanged (inf or NaN) *)
Theorem from_zscore_fl_sd_zero_nonfinite (mean : float) (s : bool) (z : float) :
  is_finite mean = false -> is_finite z = true ->
  from_zscore_fl mean (B754_zero s) z = mean.
Proof.
  intros Fm Fz. unfold from_zscore_fl. rewrite Bmult_zero_l by exact Fz.
  destruct mean; try discriminate; reflexivity.
Qed.

(* z = +-inf: the result is never finite *)
Theorem from_zscore_fl_z_inf_not_finite (mean sd : float) (sz : bool) :
  is_finite (from_zscore_fl mean sd (B754_infinity sz)) = false.
Proof.
  unfold from_zscore_fl.
  destruct sd as [ss|ss| |ss ms es Hs]; destruct mean as [sm|sm| |sm mm em Hm]; simpl; try reflexivity;
    destruct sm; destruct ss; destruct sz; reflexivity.
Qed.

(* z = +-inf, sd finite and nonzero, mean finite: the infinity of sign sign(sd) xor sign(z) *)
Theorem from_zscore_fl_z_inf (mean sd : float) (sz : bool) :
  is_finite mean = true -> is_finite_strict sd = true ->
  from_zscore_fl mean sd (B754_infinity sz) = B754_infinity (xorb (Bsign sd) sz).
Proof.
  unfold from_zscore_fl.
  destruct sd as [ss|ss| |ss ms es Hs]; try discriminate.
  destruct mean as [sm|sm| |sm mm em Hm]; try discriminate; reflexivity.
Qed.

(* z = +-inf, sd = +-0 or NaN: NaN (0 * inf), whatever the mean *)
Theorem from_zscore_fl_z_inf_sd_zero (mean : float) (s sz : bool) :
  from_zscore_fl mean (B754_zero s) (B754_infinity sz) = B754_nan.
Proof. unfold from_zscore_fl. destruct mean; reflexivity. Qed.

(* z = +-inf, sd nonzero, mean infinite: mean if the signs agree, NaN (inf - inf) otherwise *)
Theorem from_zscore_fl_z_inf_mean_inf (sm : bool) (sd : float) (sz : bool) :
  is_finite_strict sd = true ->
  from_zscore_fl (B754_infinity sm) sd (B754_infinity sz) =
  if Bool.eqb sm (xorb (Bsign sd) sz) then B754_infinity sm else B754_nan.
Proof.
  unfold from_zscore_fl.
  destruct sd as [ss|ss| |ss ms es Hs]; try discriminate. intros _. reflexivity.
Qed.

(* NaN anywhere gives NaN *)
Theorem from_zscore_fl_nan (mean sd z : float) :
  is_nan mean = true \/ is_nan sd = true \/ is_nan z = true ->
  is_nan (from_zscore_fl mean sd z) = true.
Proof.
  unfold from_zscore_fl. intros [H|[H|H]].
  - destruct mean; try discriminate. reflexivity.
  - destruct sd; try discriminate. destruct mean; reflexivity.
  - destruct z; try discriminate. destruct sd; destruct mean; reflexivity.
Qed.

(* ---- multiplication by a power of two is exact ---- *)
(* reals: 2^k * x is representable when x is, unless the product falls in the subnormal range *)
Lemma pow2_scale_format (k : Z) (x : R) :
  generic_format radix2 afexp x ->
  (x = 0 \/ (0 <= k)%Z \/ bpow radix2 (aemin + prec - 1) <= Rabs (bpow radix2 k * x)) ->
  generic_format radix2 afexp (bpow radix2 k * x).
Proof.
  intros Fx H. rewrite Rmult_comm.
  destruct (Req_dec x 0) as [Zx|Nx]; [rewrite Zx, Rmult_0_l; apply generic_format_0|].
  destruct H as [H|[H|H]]; [contradiction| |].
  - now apply mult_bpow_pos_exact_FLT.
  - apply mult_bpow_exact_FLT; [exact Fx|].
    rewrite Rmult_comm in H.
    replace (aemin + prec - 1)%Z with ((aemin + prec) - 1)%Z in H by ring.
    apply mag_ge_bpow in H. rewrite mag_mult_bpow in H by exact Nx. lia.
Qed.

Theorem Bmult_pow2_exact (sd z : float) (k : Z) :
  is_finite sd = true -> is_finite z = true ->
  B2R sd = bpow radix2 k ->
  (B2R z = 0 \/ (0 <= k)%Z \/ bpow radix2 (aemin + prec - 1) <= Rabs (bpow radix2 k * B2R z)) ->
  Rabs (bpow radix2 k * B2R z) < bpow radix2 emax ->
  B2R (Bmult mode_NE sd z) = bpow radix2 k * B2R z /\ is_finite (Bmult mode_NE sd z) = true.
Proof.
  intros Fs Fz Es U O.
  assert (R : rnd (bpow radix2 k * B2R z) = bpow radix2 k * B2R z).
  { apply round_generic; auto with typeclass_instances.
    apply pow2_scale_format; [apply (generic_format_B2R prec emax) | exact U]. }
  generalize (Bmult_correct prec emax Hp Hpe mode_NE sd z). rewrite Es.
  change (round radix2 (SpecFloat.fexp prec emax) (round_mode mode_NE) (bpow radix2 k * B2R z))
    with (rnd (bpow radix2 k * B2R z)).
  rewrite R. rewrite Rlt_bool_true by exact O.
  intros (E & F & _). rewrite Fs, Fz in F. split; assumption.
Qed.

(* consequence: scaling by 2^k commutes with a rounded operation's result:
   fl(2^k * fl(x)) = 2^k * fl(x), i.e. no second rounding error is introduced *)
Corollary rnd_pow2_scale (k : Z) (x : R) :
  (rnd x = 0 \/ (0 <= k)%Z \/ bpow radix2 (aemin + prec - 1) <= Rabs (bpow radix2 k * rnd x)) ->
  rnd (bpow radix2 k * rnd x) = bpow radix2 k * rnd x.
Proof.
  intros H. apply round_generic; auto with typeclass_instances.
  apply pow2_scale_format; [apply rnd_format | exact H].
Qed.


(* ---- the subtractive form loc - scale * g (gumbel.rs:100; Frechet and SkewNormal use the additive form) ---- *)
Definition affine_sub_fl (loc scale g : float) : float :=
  Bminus mode_NE loc (Bmult mode_NE scale g).

Lemma rnd_opp (x : R) : rnd (- x) = - rnd x.
Proof. unfold rnd. apply round_NE_opp. Qed.

Theorem affine_sub_fl_value (loc scale g : float) :
  is_finite loc = true -> is_finite scale = true -> is_finite g = true ->
  Rabs (rnd (B2R scale * B2R g)) < bpow radix2 emax ->
  Rabs (rnd (B2R loc - rnd (B2R scale * B2R g))) < bpow radix2 emax ->
  B2R (affine_sub_fl loc scale g) = rnd (B2R loc - rnd (B2R scale * B2R g)) /\
  is_finite (affine_sub_fl loc scale g) = true.
Proof.
  intros Fm Fs Fz O1 O2. unfold affine_sub_fl.
  generalize (Bmult_correct prec emax Hp Hpe mode_NE scale g).
  rewrite Rlt_bool_true by exact O1.
  intros (E & F & _). rewrite Fs, Fz in F. simpl in F.
  generalize (Bminus_correct prec emax Hp Hpe mode_NE loc (Bmult mode_NE scale g) Fm F).
  rewrite E. rewrite Rlt_bool_true by exact O2.
  intros (E2 & F2 & _). split; [exact E2 | exact F2].
Qed.

Theorem affine_sub_fl_error (loc scale g : float) :
  is_finite loc = true -> is_finite scale = true -> is_finite g = true ->
  Rabs (rnd (B2R scale * B2R g)) < bpow radix2 emax ->
  Rabs (rnd (B2R loc - rnd (B2R scale * B2R g))) < bpow radix2 emax ->
  Rabs (B2R (affine_sub_fl loc scale g) - (B2R loc - B2R scale * B2R g))
    <= u * Rabs (B2R loc - B2R scale * B2R g) + u * (2 + u) * Rabs (B2R scale * B2R g) + (1 + u) * eta.
Proof.
  intros Fm Fs Fz O1 O2.
  destruct (affine_sub_fl_value loc scale g Fm Fs Fz O1 O2) as (E & _). rewrite E.
  pose proof (affine_rounding_exact (B2R loc) (B2R scale) (- B2R g) (generic_format_B2R prec emax loc)) as A.
  replace (B2R scale * - B2R g) with (- (B2R scale * B2R g)) in A by ring.
  rewrite rnd_opp, Rabs_Ropp in A.
  replace (B2R loc + - rnd (B2R scale * B2R g)) with (B2R loc - rnd (B2R scale * B2R g)) in A by ring.
  replace (B2R loc + - (B2R scale * B2R g)) with (B2R loc - B2R scale * B2R g) in A by ring.
  exact A.
Qed.

End Fmt.
