(* Proofs/GuardProofs7.v — C04, part 7: Zipf::new.  libm `powf` and `ln` are parameters with an
   explicit contract; under it `debug_assert!(t > 0)` cannot fail.                              *)
From Coq Require Import ZArith List Bool String Reals Lra Lia.
From Flocq Require Import Core.Core IEEE754.Binary IEEE754.Bits IEEE754.BinarySingleNaN.
From RD Require Import Model.Guards Model.GuardSpec Proofs.GuardLemmas Proofs.GuardArith Proofs.GuardProofs3.
Import ListNotations.
Open Scope R_scope.

Section Fmt.
Variable prec emax : Z.
Context (Hp : Prec_gt_0 prec) (Hpe : Prec_lt_emax prec emax).
Notation float := (binary_float prec emax).
Notation one := (one prec emax Hp Hpe).
Notation zero := (zero prec emax).
Notation pinf := (pinf prec emax).
Notation fmul := (fmul prec emax Hp Hpe).
Notation fdiv := (fdiv prec emax Hp Hpe).
Notation fadd := (fadd prec emax Hp Hpe).
Notation fsub := (fsub prec emax Hp Hpe).
Notation fgt := (fgt prec emax).
Notation fge := (fge prec emax).
Notation fle := (fle prec emax).
Notation feq := (feq prec emax).
Notation fne := (fne prec emax).
Notation M := (M emax).
Notation ext := (ext prec emax).
Notation rnd := (rnd prec emax).
Notation clamp := (clamp emax).
Notation nn := (nn prec emax).

Hypothesis prec_ge_3 : (3 <= prec)%Z.

Lemma rnd_opp (x : R) : rnd (- x) = - rnd x.
Proof. apply round_NE_opp. Qed.

Lemma rnd_half : rnd (/ 2) = / 2.
Proof.
  replace (/ 2) with (bpow radix2 (-1)) by (simpl; lra).
  apply round_generic; auto with typeclass_instances.
  apply generic_format_bpow. unfold FLT_exp. unfold Prec_gt_0, Prec_lt_emax in *. apply Z.max_lub; lia.
Qed.

(* rounding to nearest loses at most a factor 2 above 2^-emax *)
Lemma rnd_ge_half (x : R) : / M <= x -> x / 2 <= rnd x.
Proof.
  intros L. assert (E : / M = bpow radix2 (- emax)) by (unfold GuardSpec.M; now rewrite bpow_opp).
  assert (Px : 0 < x). { apply Rlt_le_trans with (/ M); trivial. rewrite E. apply bpow_gt_0. }
  destruct (mag radix2 x) as (e, He). specialize (He (Rgt_not_eq _ _ Px)).
  rewrite Rabs_pos_eq in He by lra. destruct He as (He1 & He2).
  assert (Hle : (- emax < e)%Z).
  { apply (lt_bpow radix2). rewrite <- E. lra. }
  assert (R : rnd (bpow radix2 (e - 1)) = bpow radix2 (e - 1)).
  { apply round_generic; auto with typeclass_instances.
    apply generic_format_bpow. unfold FLT_exp. unfold Prec_gt_0 in Hp. apply Z.max_lub; lia. }
  apply Rle_trans with (bpow radix2 (e - 1)).
  - replace e with (e - 1 + 1)%Z in He2 by lia. rewrite bpow_plus in He2. simpl bpow at 2 in He2.
    change (IZR (Z.pow_pos 2 1)) with 2 in He2. lra.
  - rewrite <- R. now apply rnd_le.
Qed.

Lemma clamp_ge (a v : R) : a <= v -> a <= M -> a <= clamp v.
Proof.
  intros. pose proof (M_gt_1 prec emax Hp Hpe).
  destruct (clamp_spec prec emax Hp Hpe v) as [[]|[[]|[]]]; lra.
Qed.
Lemma clamp_le (a v : R) : v <= a -> - M <= a -> clamp v <= a.
Proof.
  intros. pose proof (M_gt_1 prec emax Hp Hpe).
  destruct (clamp_spec prec emax Hp Hpe v) as [[]|[[]|[]]]; lra.
Qed.

Lemma nonnan_cases (a : float) :
  is_nan a = false -> is_finite a = true \/ a = B754_infinity false \/ a = B754_infinity true.
Proof. destruct a as [|[|]| |]; try discriminate; auto. Qed.

Lemma finite_neg_struct (x : float) :
  is_finite x = true -> B2R x < 0 -> exists m e H, x = B754_finite true m e H.
Proof.
  intros F P. pose proof (B2R_neg_sign _ _ x P) as S.
  destruct x as [|?| |s m e H]; try discriminate; simpl in *; try lra. subst s. eauto.
Qed.

(* u >= D > 0 and q >= 1 (either possibly +inf): u * q > 0 *)
Lemma mul_pos_lb (u q d : float) :
  is_nan u = false -> is_nan q = false -> is_finite d = true -> 0 < B2R d ->
  B2R d <= ext u -> 1 <= ext q -> fgt (fmul u q) zero = true.
Proof.
  intros Nu Nq Fd Pd Lu Lq. pose proof (M_gt_1 prec emax Hp Hpe) as HM.
  destruct (nonnan_cases u Nu) as [Fu|[-> | ->]]; destruct (nonnan_cases q Nq) as [Fq|[-> | ->]];
  try (unfold GuardSpec.ext in *; lra).
  - rewrite ext_finite in Lu, Lq by trivial.
    destruct (Bmult_ext prec emax Hp Hpe u q Fu Fq) as (N & E).
    apply (fgt_zero_ext prec emax Hp Hpe); trivial. rewrite E. apply (clamp_pos prec emax Hp Hpe).
    assert (B2R d <= rnd (B2R u * B2R q)) by (apply rnd_ge_B2R; trivial; nra). lra.
  - rewrite ext_finite in Lu by trivial.
    destruct (finite_pos_struct _ _ u Fu) as (m & e & H & ->). lra. reflexivity.
  - rewrite ext_finite in Lq by trivial.
    destruct (finite_pos_struct _ _ q Fq) as (m & e & H & ->). lra. reflexivity.
  - reflexivity.
Qed.

Lemma Zipf_core_lt1 (pwv s : float) :
  is_finite s = true -> 0 <= B2R s < 1 -> is_nan pwv = false -> 1 <= ext pwv ->
  fgt (fmul (fsub pwv s) (fdiv one (fsub one s))) zero = true.
Proof.
  intros Fs (Ls & Us) Np Lp. pose proof (M_gt_1 prec emax Hp Hpe) as HM.
  pose proof (finite_bound _ _ s Fs) as Bs.
  set (d := fsub one s).
  destruct (Bminus_ext prec emax Hp Hpe one s (one_fin _ _ _ _) Fs) as (Nd & Ed). fold d in Nd, Ed.
  rewrite (one_B2R prec emax Hp Hpe) in Ed.
  assert (Pd : 0 < rnd (1 - B2R s)).
  { rewrite <- (one_B2R prec emax Hp Hpe). apply rnd_minus_pos; trivial. rewrite (one_B2R prec emax Hp Hpe). lra. }
  assert (Ud : rnd (1 - B2R s) <= 1) by (apply (rnd_le1 prec emax Hp Hpe); lra).
  destruct (ext_clamp_finite prec emax Hp Hpe d _ Nd Ed) as (Fd & Vd). apply Rabs_lt; lra.
  (* q >= 1 *)
  destruct (Bdiv_ext prec emax Hp Hpe one d (one_fin _ _ _ _) Fd) as (Nq & Eq). lra.
  rewrite (one_B2R prec emax Hp Hpe) in Eq.
  assert (Lq : 1 <= ext (fdiv one d)).
  { rewrite Eq. apply (clamp_ge1 prec emax Hp Hpe). apply (rnd_ge1 prec emax Hp Hpe).
    rewrite Vd. rewrite <- Rinv_1 at 1. unfold Rdiv. rewrite Rmult_1_l. apply Rinv_le_contravar; lra. }
  (* u >= D *)
  assert (Hu : is_nan (fsub pwv s) = false /\ B2R d <= ext (fsub pwv s)).
  { destruct (nonnan_cases pwv Np) as [Fp|[-> | ->]].
    - rewrite ext_finite in Lp by trivial.
      destruct (Bminus_ext prec emax Hp Hpe pwv s Fp Fs) as (Nu & Eu). split; trivial.
      rewrite Eu, Vd. apply clamp_ge. apply rnd_le; trivial; lra. lra.
    - split. destruct s; try discriminate; reflexivity.
      replace (fsub (B754_infinity false) s) with (B754_infinity false : float)
        by (destruct s; try discriminate; reflexivity).
      unfold GuardSpec.ext. lra.
    - unfold GuardSpec.ext in Lp. lra. }
  destruct Hu as (Nu & Lu).
  apply (mul_pos_lb _ _ d); trivial. lra.
Qed.

(* u <= D < 0 and q < 0 (possibly -inf), with |q| >= 1/(2|D|): u * q > 0 *)
Lemma Zipf_core_gt1 (pwv s : float) :
  is_finite s = true -> 1 < B2R s -> is_nan pwv = false -> 0 <= ext pwv <= 1 ->
  fgt (fmul (fsub pwv s) (fdiv one (fsub one s))) zero = true.
Proof.
  intros Fs Ls Np (Lp & Up). pose proof (M_gt_1 prec emax Hp Hpe) as HM.
  pose proof (finite_bound _ _ s Fs) as Bs.
  assert (Fp : is_finite pwv = true) by (apply (is_finite_of_ext prec emax); trivial; lra).
  rewrite ext_finite in Lp, Up by trivial.
  set (d := fsub one s).
  destruct (Bminus_ext prec emax Hp Hpe one s (one_fin _ _ _ _) Fs) as (Nd & Ed). fold d in Nd, Ed.
  rewrite (one_B2R prec emax Hp Hpe) in Ed.
  assert (Pd : rnd (1 - B2R s) < 0).
  { replace (1 - B2R s) with (- (B2R s - 1)) by ring. rewrite rnd_opp.
    assert (0 < rnd (B2R s - B2R one)).
    { apply rnd_minus_pos; trivial. rewrite (one_B2R prec emax Hp Hpe). lra. }
    rewrite (one_B2R prec emax Hp Hpe) in H. lra. }
  assert (Ld : - B2R s <= rnd (1 - B2R s)).
  { rewrite <- B2R_Bopp. apply rnd_ge_B2R; trivial. rewrite B2R_Bopp. lra. }
  destruct (ext_clamp_finite prec emax Hp Hpe d _ Nd Ed) as (Fd & Vd). apply Rabs_lt; lra.
  (* u in [-S, D] *)
  set (u := fsub pwv s).
  destruct (Bminus_ext prec emax Hp Hpe pwv s Fp Fs) as (Nu & Eu). fold u in Nu, Eu.
  assert (Bu : - B2R s <= rnd (B2R pwv - B2R s) <= B2R d).
  { split. rewrite <- B2R_Bopp. apply rnd_ge_B2R; trivial. rewrite B2R_Bopp. lra.
    rewrite Vd. apply rnd_le; trivial. lra. }
  destruct (ext_clamp_finite prec emax Hp Hpe u _ Nu Eu) as (Fu & Vu). apply Rabs_lt; lra.
  destruct (finite_neg_struct u Fu) as (mu & eu & Hu & Eu'). lra.
  (* q *)
  set (q := fdiv one d).
  destruct (Bdiv_ext prec emax Hp Hpe one d (one_fin _ _ _ _) Fd) as (Nq & Eq). lra. fold q in Nq, Eq.
  rewrite (one_B2R prec emax Hp Hpe) in Eq.
  set (x := / - B2R d).
  assert (Px : 0 < x) by (apply Rinv_0_lt_compat; lra).
  assert (Ex : 1 / B2R d = - x) by (unfold x; field; lra).
  assert (Hx : x / 2 <= rnd x).
  { apply rnd_ge_half. unfold x. apply Rinv_le_contravar; lra. }
  rewrite Ex, rnd_opp in Eq.
  destruct (nonnan_cases q Nq) as [Fq|[Eq'|Eq']].
  - rewrite ext_finite in Eq by trivial.
    destruct (clamp_spec prec emax Hp Hpe (- rnd x)) as [[A B]|[[A B]|[A B]]]; try lra.
    + pose proof (finite_bound _ _ q Fq). lra.
    + destruct (Bmult_ext prec emax Hp Hpe u q Fu Fq) as (N & E).
      apply (fgt_zero_ext prec emax Hp Hpe); trivial. rewrite E. apply (clamp_pos prec emax Hp Hpe).
      assert (/ 2 <= rnd (B2R u * B2R q)).
      { rewrite <- rnd_half. apply rnd_le; trivial. rewrite Eq, B.
        assert (x * - B2R d = 1) by (unfold x; field; lra).
        assert (- B2R d <= - B2R u) by lra.
        assert (x / 2 * - B2R d <= rnd x * - B2R u).
        { apply Rmult_le_compat; lra. }
        nra. }
      lra.
  - rewrite Eq' in Eq. unfold GuardSpec.ext in Eq.
    destruct (clamp_spec prec emax Hp Hpe (- rnd x)) as [[A B]|[[A B]|[A B]]]; lra.
  - rewrite Eq', Eu'. reflexivity.
Qed.

(* ============================================================================================ *)
Section Zipf.
Variable powf_f : float -> float -> float.
Variable ln_f : float -> float.
Notation ge1 := (ge1 prec emax).
(* CONTRACT on libm powf and ln (what the proof uses, nothing else):
   for a base x >= 1 (possibly +inf) and a finite exponent y:
     y > 0  ==>  powf(x, y) is not NaN and >= 1 (possibly +inf);
     y < 0  ==>  powf(x, y) is not NaN and lies in [0, 1];
   for finite x >= 1: ln(x) is not NaN and >= 0 (possibly -0).                                   *)
Hypothesis pow_pos : forall x y, ge1 x -> is_finite y = true -> 0 < B2R y ->
                     is_nan (powf_f x y) = false /\ 1 <= ext (powf_f x y).
Hypothesis pow_neg : forall x y, ge1 x -> is_finite y = true -> B2R y < 0 ->
                     is_nan (powf_f x y) = false /\ 0 <= ext (powf_f x y) <= 1.
Hypothesis ln_ge1 : forall x, is_finite x = true -> 1 <= B2R x ->
                    is_nan (ln_f x) = false /\ 0 <= ext (ln_f x).

Notation Zipf_t := (Zipf_t prec emax Hp Hpe powf_f ln_f).

Lemma Zipf_t_pos (n s : float) :
  ge1 n -> is_finite s = true -> 0 <= B2R s ->
  (is_finite n = true \/ 1 < B2R s) ->
  fgt (Zipf_t n s) zero = true.
Proof.
  intros Gn Fs Ps Hn. pose proof (M_gt_1 prec emax Hp Hpe) as HM.
  pose proof (finite_bound _ _ s Fs) as Bs.
  unfold Guards.Zipf_t.
  assert (Epinf : feq s pinf = false).
  { unfold Guards.feq, fcmp. rewrite (Bcompare_ext prec emax Hp Hpe) by (trivial; now apply is_finite_not_nan).
    rewrite ext_finite by trivial. unfold Guards.pinf, GuardSpec.ext.
    rewrite Rcompare_Lt; trivial; lra. }
  rewrite Epinf.
  assert (Eone : feq s one = true <-> B2R s = 1).
  { unfold Guards.feq. rewrite fcmp_finite by (trivial; apply one_fin). rewrite (one_B2R prec emax Hp Hpe).
    destruct (Rcompare_spec (B2R s) 1); split; intros; try discriminate; try lra; trivial. }
  unfold Guards.fne. destruct (Req_dec (B2R s) 1) as [E1|E1].
  - (* s == 1: t = 1 + ln n, n finite *)
    rewrite (proj2 Eone E1). simpl negb. cbv iota.
    destruct Hn as [Fn|Hn]; [|lra].
    destruct Gn as [(_ & Ln) | ->]; [|discriminate].
    destruct (ln_ge1 n Fn Ln) as (Nl & Ll).
    apply one_plus_nn. split; trivial.
  - assert (X : feq s one = false).
    { destruct (feq s one); trivial. exfalso. apply E1. now apply Eone. }
    rewrite X. simpl negb. cbv iota.
    assert (Fd : is_finite (fsub one s) = true /\ B2R (fsub one s) = rnd (1 - B2R s)).
    { destruct (Bminus_ext prec emax Hp Hpe one s (one_fin _ _ _ _) Fs) as (Nd & Ed).
      rewrite (one_B2R prec emax Hp Hpe) in Ed.
      apply (ext_clamp_finite prec emax Hp Hpe); trivial. apply Rabs_lt.
      assert (- B2R s <= rnd (1 - B2R s)).
      { rewrite <- B2R_Bopp. apply rnd_ge_B2R; trivial. rewrite B2R_Bopp. lra. }
      assert (rnd (1 - B2R s) <= 1) by (apply (rnd_le1 prec emax Hp Hpe); lra). lra. }
    destruct Fd as (Fd & Vd).
    destruct (Rlt_or_le (B2R s) 1) as [L|L].
    + destruct (pow_pos n (fsub one s) Gn Fd) as (Np & Lp).
      { rewrite Vd, <- (one_B2R prec emax Hp Hpe). apply rnd_minus_pos; trivial.
        rewrite (one_B2R prec emax Hp Hpe). lra. }
      apply Zipf_core_lt1; trivial. lra.
    + destruct (pow_neg n (fsub one s) Gn Fd) as (Np & Lp).
      { rewrite Vd. replace (1 - B2R s) with (- (B2R s - 1)) by ring. rewrite rnd_opp.
        assert (Hq : 0 < rnd (B2R s - B2R one)).
        { apply rnd_minus_pos; trivial. rewrite (one_B2R prec emax Hp Hpe). lra. }
        rewrite (one_B2R prec emax Hp Hpe) in Hq. lra. }
      apply Zipf_core_gt1; trivial. lra.
Qed.

(* `debug_assert!(t > 0)` never fails; the errors are the documented ones *)
Theorem Zipf_new_sound (debug : bool) (n s : float) :
  agrees (Zipf_new_gen prec emax Hp Hpe debug powf_f ln_f n s) (spec_Zipf_new prec emax Hp Hpe n s).
Proof.
  unfold Zipf_new_gen, spec_Zipf_new.
  fsplit s.
  - destruct (debug && _); fsplit n; guard_auto.
  - (* s = +inf: t = 1 *)
    replace (Zipf_t n (B754_infinity false)) with one.
    2:{ unfold Guards.Zipf_t. replace (feq (B754_infinity false) pinf) with true by reflexivity. reflexivity. }
    rewrite fgt_one_zero. rewrite andb_false_r. fsplit n; guard_auto.
  - destruct (debug && _); fsplit n; guard_auto.
  - pose proof (fc_fin _ _ _ Cs) as Fs.
    fsplit n.
    + destruct (debug && _); guard_auto.
    + (* n = +inf *)
      destruct (Rlt_or_le 1 (B2R s)) as [L|L].
      * rewrite Zipf_t_pos; trivial. rewrite andb_false_r. guard_auto.
        right; reflexivity. lra. now right.
      * destruct (debug && _); guard_auto.
    + destruct (debug && _); guard_auto.
    + pose proof (fc_fin _ _ _ Cn) as Fn.
      destruct (Rle_or_lt 0 (B2R s)) as [Ls|Ls]; [destruct (Rle_or_lt 1 (B2R n)) as [Ln|Ln]|].
      * rewrite Zipf_t_pos; trivial. rewrite andb_false_r. guard_auto.
        left; auto. now left.
      * destruct (debug && _); guard_auto.
      * destruct (debug && _); guard_auto.
Qed.
End Zipf.

End Fmt.
