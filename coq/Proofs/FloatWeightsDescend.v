(* Proofs/FloatWeightsDescend.v — the descent loop of the float WeightedTreeIndex::try_sample
   (Model/FloatWeights.v) never runs out of fuel and never leaves the vector: for every non-empty
   state and every target that is not strictly negative (in particular every target drawn by
   random_range(0.0..total)), the loop stops at an in-range index with a residual that is not
   strictly negative.  Hence the model's `Panic` outcome of try_sample on a valid tree is exactly
   a failure of one of the two `assert!`s (tree_float_panic_iff).                              *)
From Coq Require Import ZArith List Bool Arith Lia Reals Lra.
From Flocq Require Import Core.Core IEEE754.Binary IEEE754.Bits IEEE754.BinarySingleNaN.
From RD Require Import Model.Tree Model.Uniform Model.FloatWeights.
From RD Require Import Proofs.FloatWeightsProofs Proofs.FloatWeightsAlias.
Import ListNotations.

Section Fmt.
Variable prec emax : Z.
Context (Hp : Prec_gt_0 prec) (Hpe : Prec_lt_emax prec emax).
Notation float := (BinarySingleNaN.binary_float prec emax).
Notation fzero := (fzero prec emax).
Notation fone := (fone prec emax Hp Hpe).
Notation fge := (fge prec emax).
Notation fgt := (fgt prec emax).
Notation flt := (flt prec emax).
Notation fle := (fle prec emax).
Notation feq := (feq prec emax).
Notation fadd := (fadd prec emax Hp Hpe).
Notation fsub := (fsub prec emax Hp Hpe).
Notation fmul := (fmul prec emax Hp Hpe).
Notation fsubt := (fsubt prec emax).
Notation fdescend := (fdescend prec emax Hp Hpe).
Notation rnd := (round radix2 (SpecFloat.fexp prec emax) (round_mode mode_NE)).

Local Instance fexp_valid' : Valid_exp (SpecFloat.fexp prec emax) := fexp_correct prec emax Hp.

(* "not strictly negative": NaN, +-0, +inf or a positive finite number *)
Definition nn (x : float) : Prop := flt x fzero = false.

Lemma nn_cases : forall x : float, nn x <->
  match x with B754_infinity true | B754_finite true _ _ _ => False | _ => True end.
Proof.
  intros [s|s| |s m e B]; unfold nn; try destruct s; simpl; split; intros H;
    try reflexivity; try exact I; try discriminate; try contradiction.
Qed.

Lemma rnd_nonneg : forall x, (0 <= x)%R -> (0 <= rnd x)%R.
Proof.
  intros x H.
  rewrite <- (round_0 radix2 (SpecFloat.fexp prec emax) (round_mode mode_NE)).
  apply round_le; auto with typeclass_instances.
Qed.

Lemma finite_nonneg_nn : forall r : float, is_finite r = true -> (0 <= B2R r)%R -> nn r.
Proof.
  intros r F H. unfold nn, FloatWeights.flt, fcmp.
  rewrite (Bcompare_correct prec emax r fzero F eq_refl).
  change (B2R fzero) with 0%R. destruct (Rcompare_spec (B2R r) 0); auto. lra.
Qed.

(* `target -= subtotal` after the guard `!(target < subtotal)` keeps the target non-negative *)
Lemma fsub_keeps_nn : forall x l : float, nn x -> flt x l = false -> nn (fsub x l).
Proof.
  intros x l Hx Hl.
  destruct x as [sx|sx| |sx mx ex Bx]; destruct l as [sl|sl| |sl ml el Bl];
    try destruct sx; try destruct sl; try discriminate; try reflexivity.
  - (* +x - (-l) *)
    unfold FloatWeights.fsub.
    set (x := B754_finite false mx ex Bx : float). set (l := B754_finite true ml el Bl : float).
    pose proof (Bminus_correct prec emax Hp Hpe mode_NE x l eq_refl eq_refl) as H.
    set (r := Bminus mode_NE x l) in *.
    assert (D : (0 <= B2R x - B2R l)%R).
    { unfold FloatWeights.flt, fcmp in Hl. fold x l in Hl.
      rewrite (Bcompare_correct prec emax x l eq_refl eq_refl) in Hl.
      destruct (Rcompare_spec (B2R x) (B2R l)); try discriminate; lra. }
    destruct (Rlt_bool _ _) in H.
    + destruct H as [E [F _]]. apply finite_nonneg_nn; auto. rewrite E. apply rnd_nonneg; auto.
    + destruct H as [H _]. change (Bsign x) with false in H. apply overflow_NE_inf in H.
      rewrite H. reflexivity.
  - (* +x - (+l) *)
    unfold FloatWeights.fsub.
    set (x := B754_finite false mx ex Bx : float). set (l := B754_finite false ml el Bl : float).
    pose proof (Bminus_correct prec emax Hp Hpe mode_NE x l eq_refl eq_refl) as H.
    set (r := Bminus mode_NE x l) in *.
    assert (D : (0 <= B2R x - B2R l)%R).
    { unfold FloatWeights.flt, fcmp in Hl. fold x l in Hl.
      rewrite (Bcompare_correct prec emax x l eq_refl eq_refl) in Hl.
      destruct (Rcompare_spec (B2R x) (B2R l)); try discriminate; lra. }
    destruct (Rlt_bool _ _) in H.
    + destruct H as [E [F _]]. apply finite_nonneg_nn; auto. rewrite E. apply rnd_nonneg; auto.
    + destruct H as [H _]. change (Bsign x) with false in H. apply overflow_NE_inf in H.
      rewrite H. reflexivity.
Qed.

Lemma fsubt_out : forall (t : list float) i, (length t <= i)%nat -> fsubt t i = fzero.
Proof. intros t i H. unfold FloatWeights.fsubt. apply Nat.ltb_ge in H. rewrite H. reflexivity. Qed.

(* descending into a child means the child is inside the vector *)
Lemma flt_child_in : forall (t : list float) x i, nn x -> flt x (fsubt t i) = true -> (i < length t)%nat.
Proof.
  intros t x i Hx H. destruct (Nat.lt_ge_cases i (length t)) as [L|L]; auto.
  rewrite (fsubt_out t i L) in H. unfold nn in Hx. rewrite Hx in H. discriminate.
Qed.

Lemma fdescend_total : forall (t : list float) fuel i target,
  (i < length t)%nat -> (length t + 1 <= fuel + i)%nat -> nn target ->
  exists j resid, fdescend fuel t i target = Some (j, resid) /\ (j < length t)%nat /\ nn resid.
Proof.
  intros t. induction fuel; intros i target Hi Hf Hn; [lia|].
  cbn [FloatWeights.fdescend].
  destruct (flt target (fsubt t (2 * i + 1))) eqn:E1.
  { pose proof (flt_child_in t target _ Hn E1). apply IHfuel; auto; lia. }
  pose proof (fsub_keeps_nn _ _ Hn E1) as Hn1.
  destruct (flt (fsub target (fsubt t (2 * i + 1))) (fsubt t (2 * i + 2))) eqn:E2.
  { pose proof (flt_child_in t _ _ Hn1 E2). apply IHfuel; auto; lia. }
  pose proof (fsub_keeps_nn _ _ Hn1 E2) as Hn2.
  eexists; eexists; split; [reflexivity|]. auto.
Qed.

(* try_sample on a non-empty state and a not-strictly-negative target: Panic iff one of the two
   assertions fails; the first one can only fail because the residual is NaN *)
Theorem tree_float_panic_iff : forall (t : list float) target, t <> [] -> nn target ->
  exists i resid,
    fdescend (S (length t)) t 0 target = Some (i, resid) /\ (i < length t)%nat /\ nn resid /\
    (ftree_sample_target prec emax Hp Hpe t target = Ok i <->
       (is_nan resid = false /\ flt resid (ftree_get prec emax Hp Hpe t i) = true)) /\
    (ftree_sample_target prec emax Hp Hpe t target = Panic <->
       (is_nan resid = true \/ flt resid (ftree_get prec emax Hp Hpe t i) = false)) /\
    (forall e, ftree_sample_target prec emax Hp Hpe t target <> Err e).
Proof.
  intros t target Ht Hn.
  assert (L : (0 < length t)%nat) by (destruct t; [congruence | simpl; lia]).
  destruct (fdescend_total t (S (length t)) 0 target L ltac:(lia) Hn) as [i [resid [E [Hi Hr]]]].
  exists i, resid. split; auto. split; auto. split; auto.
  unfold ftree_sample_target. rewrite E. unfold ftree_get_chk.
  apply Nat.ltb_lt in Hi. rewrite Hi.
  assert (G : fge resid fzero = negb (is_nan resid)).
  { rewrite fge_zero_spec. unfold fbad_w. apply nn_cases in Hr.
    destruct resid as [s|s| |s m e B]; try destruct s; simpl; auto; contradiction. }
  rewrite G, negb_involutive.
  destruct (is_nan resid); destruct (flt resid _); repeat split; intros; try discriminate; auto;
    try (destruct H; discriminate); try (destruct H as [H|H]; discriminate).
Qed.

(* ---------- the targets drawn by random_range(0.0..total) are not strictly negative ---------- *)

Lemma fadd_zero_nn : forall x : float, nn x -> nn (fadd x fzero).
Proof. intros [s|s| |s m e B]; try destruct s; intros H; try discriminate; reflexivity. Qed.

Lemma fmul_pos_nn : forall (v : float) m e B, nn v -> nn (fmul v (B754_finite false m e B)).
Proof.
  intros v m e B Hv.
  destruct v as [s|s| |s mv ev Bv]; try destruct s; try discriminate; try reflexivity.
  unfold FloatWeights.fmul.
  set (x := B754_finite false mv ev Bv : float). set (y := B754_finite false m e B : float).
  pose proof (Bmult_correct prec emax Hp Hpe mode_NE x y) as H.
  set (r := Bmult mode_NE x y) in *.
  destruct (Rlt_bool _ _) in H.
  - destruct H as [E [F _]]. apply finite_nonneg_nn; auto. rewrite E. apply rnd_nonneg.
    apply Rmult_le_pos; apply Rlt_le; apply B2R_pos_finite.
  - change (xorb (Bsign x) (Bsign y)) with false in H. apply (overflow_NE_inf prec emax) in H.
    rewrite H. reflexivity.
Qed.

Lemma value1_2_ge_one : forall w, (0 <= w)%Z ->
  nn (value1_2 prec emax Hp Hpe w) /\ flt (value1_2 prec emax Hp Hpe w) fone = false.
Proof.
  intros w Hw. unfold value1_2, fdy.
  set (mz := (2 ^ (prec - 1) + frac_of_word prec w)%Z).
  assert (Hfr : (0 <= frac_of_word prec w)%Z).
  { unfold frac_of_word. apply Z_div_nonneg_nonneg; auto. apply Z.pow_nonneg; lia. }
  assert (Hp1 : (0 <= prec - 1)%Z) by (unfold Prec_gt_0 in Hp; lia).
  pose proof (binary_normalize_correct prec emax Hp Hpe mode_NE mz (- (prec - 1)) false) as H.
  cbv zeta in H.
  set (v := binary_normalize prec emax Hp Hpe mode_NE mz (- (prec - 1)) false) in *.
  assert (X1 : (1 <= F2R (Float radix2 mz (- (prec - 1))))%R).
  { replace 1%R with (F2R (Float radix2 (2 ^ (prec - 1)) (- (prec - 1)))).
    - apply F2R_le. unfold mz. lia.
    - unfold F2R. simpl Fnum. simpl Fexp. rewrite (IZR_Zpower radix2) by exact Hp1.
      rewrite <- bpow_plus. replace (prec - 1 + - (prec - 1))%Z with 0%Z by lia. reflexivity. }
  destruct one_facts with (prec := prec) (emax := emax) (Hp := Hp) (Hpe := Hpe) as [F1 E1].
  destruct (Rlt_bool _ _) in H.
  - destruct H as [E [F _]].
    assert (R1 : (1 <= B2R v)%R).
    { rewrite E. rewrite <- E1.
      rewrite <- (round_generic radix2 (SpecFloat.fexp prec emax) (round_mode mode_NE) (B2R fone)) at 1
        by apply generic_format_B2R.
      apply round_le; auto with typeclass_instances. rewrite E1. exact X1. }
    split.
    + apply finite_nonneg_nn; auto. lra.
    + unfold FloatWeights.flt, fcmp. rewrite (Bcompare_correct prec emax v fone F F1).
      rewrite E1. destruct (Rcompare_spec (B2R v) 1); auto. lra.
  - rewrite Rlt_bool_false in H by lra. apply (overflow_NE_inf prec emax) in H.
    rewrite H. split; [reflexivity|].
    unfold FloatWeights.flt, fcmp, FloatWeights.fone.
    pose proof (is_finite_Bone prec emax Hp Hpe) as FB.
    destruct (@Bone prec emax Hp Hpe) as [s|s| |s m e B]; try discriminate; reflexivity.
Qed.

Theorem random_range_target_nn : forall (total : float) w target, (0 <= w)%Z ->
  random_range prec emax Hp Hpe fzero total w = Some target -> nn target.
Proof.
  intros total w target Hw. unfold random_range, sample_single_inclusive.
  destruct (flt fzero total) eqn:E0; [|discriminate]. simpl negb. cbv iota.
  destruct total as [s|s| |s m e B]; try destruct s; try discriminate.
  replace (FloatWeights.fsub prec emax Hp Hpe (B754_finite false m e B) fzero)
    with (B754_finite false m e B : float) by reflexivity.
  replace (f_is_finite prec emax fzero) with true by reflexivity.
  replace (f_is_finite prec emax (B754_finite false m e B)) with true by reflexivity.
  replace (FloatWeights.fle prec emax fzero (B754_finite false m e B)) with true by reflexivity.
  simpl negb. simpl orb. cbv iota.
  intros H; inversion H; clear H.
  apply fadd_zero_nn. apply fmul_pos_nn.
  destruct (value1_2_ge_one w Hw) as [A B0].
  unfold value0_1. apply fsub_keeps_nn; auto.
Qed.

(* try_sample from an RNG word on a valid tree: one word is consumed, the result is never an
   error, the loop ends inside the vector; a panic is either +inf total (random_range rejects
   a non-finite bound) or a failing assertion *)
Theorem tree_float_sample_word_valid : forall (t : list float) w, (0 <= w)%Z ->
  ftree_is_valid prec emax t = true ->
  (is_finite (ftree_total prec emax t) = false /\
     ftree_try_sample_word prec emax Hp Hpe t w = (Panic, 0%Z)) \/
  (exists target i resid,
     ftree_target_of_word prec emax Hp Hpe t w = Some target /\
     fdescend (S (length t)) t 0 target = Some (i, resid) /\ (i < length t)%nat /\
     ((is_nan resid = false /\ flt resid (ftree_get prec emax Hp Hpe t i) = true /\
         ftree_try_sample_word prec emax Hp Hpe t w = (Ok i, 1%Z)) \/
      ((is_nan resid = true \/ flt resid (ftree_get prec emax Hp Hpe t i) = false) /\
         ftree_try_sample_word prec emax Hp Hpe t w = (Panic, 1%Z)))).
Proof.
  intros t w Hw V.
  destruct t as [|r t']; [discriminate|]. simpl in V.
  unfold ftree_try_sample_word, ftree_target_of_word. cbn [ftree_total].
  assert (EZ : feq r fzero = false).
  { unfold FloatWeights.feq, FloatWeights.fgt in *. destruct (fcmp prec emax r fzero) as [[| |]|]; auto; discriminate. }
  rewrite EZ.
  destruct (random_range prec emax Hp Hpe fzero r w) as [target|] eqn:ER.
  - right. pose proof (random_range_target_nn r w target Hw ER) as Hn.
    destruct (tree_float_panic_iff (r :: t') target ltac:(discriminate) Hn)
      as [i [resid [E [Hi [Hr [A [B _]]]]]]].
    exists target, i, resid. repeat split; auto.
    destruct (is_nan resid) eqn:N.
    + right. split; auto. rewrite (proj2 B); auto.
    + destruct (flt resid (ftree_get prec emax Hp Hpe (r :: t') i)) eqn:G.
      * left. repeat split; auto. rewrite (proj2 A); auto.
      * right. split; auto. rewrite (proj2 B); auto.
  - left. split; auto.
    unfold random_range, sample_single_inclusive in ER.
    assert (E0 : flt fzero r = true).
    { unfold FloatWeights.fgt, FloatWeights.flt, fcmp in *. rewrite Bcompare_swap.
      destruct (Bcompare r fzero) as [[| |]|]; try discriminate; reflexivity. }
    rewrite E0 in ER. simpl negb in ER. cbv iota in ER.
    destruct r as [s|s| |s m e B]; try destruct s; try discriminate; try reflexivity.
Qed.

End Fmt.
