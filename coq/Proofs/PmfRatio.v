(* Proofs/PmfRatio.v — the "evaluate f(y) via the recursive relationship" loops of BTPE and H2PE
   compute the exact pmf ratio pmf(y) / pmf(m) (real-number model of the f64 loops).

   binomial.rs, btpe, step 5.1 (296-327):
       let s = btpe.p / q;  let a = s * (n as f64 + 1.);  let mut f = 1.0;
       match m.cmp(&y) {
         Less    => { let mut i = m; loop { i += 1; f *= a / (i as f64) - s; if i == y { break; } } }
         Greater => { let mut i = y; loop { i += 1; f /= a / (i as f64) - s; if i == m { break; } } }
         Equal   => {} }
       if v > f { continue; } else { break; }

   hypergeometric.rs, H2PE, step 4.1 (359-377):
       let mut f = 1.0;
       if m < y { for i in (m as u64 + 1)..=(y as u64) {
                    f *= (n1 - i + 1) as f64 * (k - i + 1) as f64;
                    f /= i as f64 * (n2 - k + i) as f64; } }
       else     { for i in (y as u64 + 1)..=(m as u64) {
                    f *= i as f64 * (n2 - k + i) as f64;
                    f /= (n1 - i + 1) as f64 * (k - i + 1) as f64; } }
       if v <= f { break y as i64; }

   The loops are modelled with the accumulator [f] as a state variable, the counter running over
   i+1 .. i+cnt exactly as coded.                                                              *)
From Coq Require Import Reals Lra Lia Arith.
From RD Require Import Proofs.PmfBinomial Proofs.PmfHyper.
Open Scope R_scope.

(* ---------------------------------------------------------------- the three loop shapes *)

(* i += 1; f *= g i      — cnt iterations starting after i *)
Fixpoint loop_mul (g : nat -> R) (i cnt : nat) (f : R) : R :=
  match cnt with
  | O => f
  | S c => loop_mul g (S i) c (f * g (S i))
  end.

(* i += 1; f /= g i *)
Fixpoint loop_div (g : nat -> R) (i cnt : nat) (f : R) : R :=
  match cnt with
  | O => f
  | S c => loop_div g (S i) c (f / g (S i))
  end.

(* for i in (i0+1)..=(i0+cnt) { f *= num i; f /= den i } *)
Fixpoint loop_muldiv (num den : nat -> R) (i cnt : nat) (f : R) : R :=
  match cnt with
  | O => f
  | S c => loop_muldiv num den (S i) c (f * num (S i) / den (S i))
  end.

Lemma loop_mul_def : forall g i f, loop_mul g i 0 f = f /\
  forall c, loop_mul g i (S c) f = loop_mul g (S i) c (f * g (S i)).
Proof. intros. split; reflexivity. Qed.
Lemma loop_div_def : forall g i f, loop_div g i 0 f = f /\
  forall c, loop_div g i (S c) f = loop_div g (S i) c (f / g (S i)).
Proof. intros. split; reflexivity. Qed.
Lemma loop_muldiv_def : forall num den i f, loop_muldiv num den i 0 f = f /\
  forall c, loop_muldiv num den i (S c) f = loop_muldiv num den (S i) c (f * num (S i) / den (S i)).
Proof. intros. split; reflexivity. Qed.

(* the loops as plain products:  f * prod_{j=i+1}^{i+cnt} g j  etc. *)
Fixpoint prod_range (g : nat -> R) (i cnt : nat) : R :=
  match cnt with
  | O => 1
  | S c => prod_range g i c * g (i + S c)%nat
  end.

Lemma prod_range_def : forall g i, prod_range g i 0 = 1 /\
  forall c, prod_range g i (S c) = prod_range g i c * g (i + S c)%nat.
Proof. intros. split; reflexivity. Qed.

Lemma prod_range_shift : forall g c i, prod_range g i (S c) = g (S i) * prod_range g (S i) c.
Proof.
  intros g c. induction c as [|c IH]; intros i.
  - simpl. replace (i + 1)%nat with (S i) by lia. ring.
  - change (prod_range g i (S (S c))) with (prod_range g i (S c) * g (i + S (S c))%nat).
    rewrite IH. cbn [prod_range]. replace (S i + S c)%nat with (i + S (S c))%nat by lia. ring.
Qed.

Lemma loop_mul_prod : forall g cnt i f, loop_mul g i cnt f = f * prod_range g i cnt.
Proof.
  intros g cnt. induction cnt as [|c IH]; intros i f.
  - simpl. ring.
  - cbn [loop_mul]. rewrite IH, prod_range_shift. ring.
Qed.

Lemma loop_div_prod : forall g cnt i f,
  (forall j, (i < j <= i + cnt)%nat -> g j <> 0) ->
  loop_div g i cnt f = f / prod_range g i cnt.
Proof.
  intros g cnt. induction cnt as [|c IH]; intros i f Hg.
  - simpl. field.
  - cbn [loop_div]. rewrite IH by (intros j Hj; apply Hg; lia). rewrite prod_range_shift.
    assert (G1 : g (S i) <> 0) by (apply Hg; lia).
    assert (G2 : prod_range g (S i) c <> 0).
    { clear IH. induction c as [|c IHc]; simpl; [lra|].
      apply Rmult_integral_contrapositive_currified.
      - apply IHc. intros j Hj. apply Hg. lia.
      - apply Hg. lia. }
    field. split; assumption.
Qed.

(* ---------------------------------------------------------------- generic ratio lemmas *)

(* if P (S j) = P j * g (S j) along the range and P does not vanish there, the multiplying loop
   returns f * P(i+cnt) / P(i) and the dividing loop f * P(i) / P(i+cnt) *)
Lemma loop_mul_ratio : forall (P g : nat -> R) cnt i f,
  (forall j, (i <= j <= i + cnt)%nat -> P j <> 0) ->
  (forall j, (i <= j < i + cnt)%nat -> P (S j) = P j * g (S j)) ->
  loop_mul g i cnt f = f * (P (i + cnt)%nat / P i).
Proof.
  intros P g cnt. induction cnt as [|c IH]; intros i f Hnz Hstep.
  - simpl. rewrite Nat.add_0_r. assert (P i <> 0) by (apply Hnz; lia). field. assumption.
  - cbn [loop_mul]. rewrite IH.
    + replace (S i + c)%nat with (i + S c)%nat by lia.
      rewrite (Hstep i) by lia.
      assert (A : P i <> 0) by (apply Hnz; lia).
      assert (B : P (S i) <> 0) by (apply Hnz; lia).
      rewrite (Hstep i) in B by lia.
      assert (G : g (S i) <> 0). { intros Z. apply B. rewrite Z. ring. }
      field. split; assumption.
    + intros j Hj. apply Hnz. lia.
    + intros j Hj. apply Hstep. lia.
Qed.

Lemma loop_div_ratio : forall (P g : nat -> R) cnt i f,
  (forall j, (i <= j <= i + cnt)%nat -> P j <> 0) ->
  (forall j, (i <= j < i + cnt)%nat -> P (S j) = P j * g (S j)) ->
  loop_div g i cnt f = f * (P i / P (i + cnt)%nat).
Proof.
  intros P g cnt. induction cnt as [|c IH]; intros i f Hnz Hstep.
  - simpl. rewrite Nat.add_0_r. assert (P i <> 0) by (apply Hnz; lia). field. assumption.
  - cbn [loop_div]. rewrite IH.
    + replace (S i + c)%nat with (i + S c)%nat by lia.
      assert (A : P i <> 0) by (apply Hnz; lia).
      assert (B : P (S i) <> 0) by (apply Hnz; lia).
      assert (E : P (i + S c)%nat <> 0) by (apply Hnz; lia).
      assert (B' := B). rewrite (Hstep i) in B' by lia.
      assert (G : g (S i) <> 0). { intros Z. apply B'. rewrite Z. ring. }
      rewrite (Hstep i) by lia.
      field. repeat split; assumption.
    + intros j Hj. apply Hnz. lia.
    + intros j Hj. apply Hstep. lia.
Qed.

Lemma loop_muldiv_ratio : forall (P num den : nat -> R) cnt i f,
  (forall j, (i <= j <= i + cnt)%nat -> P j <> 0) ->
  (forall j, (i <= j < i + cnt)%nat -> den (S j) <> 0) ->
  (forall j, (i <= j < i + cnt)%nat -> P (S j) = P j * num (S j) / den (S j)) ->
  loop_muldiv num den i cnt f = f * (P (i + cnt)%nat / P i).
Proof.
  intros P num den cnt. induction cnt as [|c IH]; intros i f Hnz Hden Hstep.
  - simpl. rewrite Nat.add_0_r. assert (P i <> 0) by (apply Hnz; lia). field. assumption.
  - cbn [loop_muldiv]. rewrite IH.
    + replace (S i + c)%nat with (i + S c)%nat by lia.
      assert (A : P i <> 0) by (apply Hnz; lia).
      assert (B : P (S i) <> 0) by (apply Hnz; lia).
      assert (D : den (S i) <> 0) by (apply Hden; lia).
      assert (B' := B). rewrite (Hstep i) in B' by lia.
      assert (G : num (S i) <> 0). { intros Z. apply B'. rewrite Z. unfold Rdiv. ring. }
      rewrite (Hstep i) by lia.
      field. repeat split; assumption.
    + intros j Hj. apply Hnz. lia.
    + intros j Hj. apply Hden. lia.
    + intros j Hj. apply Hstep. lia.
Qed.

(* the inverse update  f *= den i; f /= num i  *)
Lemma loop_muldiv_ratio_inv : forall (P num den : nat -> R) cnt i f,
  (forall j, (i <= j <= i + cnt)%nat -> P j <> 0) ->
  (forall j, (i <= j < i + cnt)%nat -> den (S j) <> 0) ->
  (forall j, (i <= j < i + cnt)%nat -> P (S j) = P j * num (S j) / den (S j)) ->
  loop_muldiv den num i cnt f = f * (P i / P (i + cnt)%nat).
Proof.
  intros P num den cnt. induction cnt as [|c IH]; intros i f Hnz Hden Hstep.
  - simpl. rewrite Nat.add_0_r. assert (P i <> 0) by (apply Hnz; lia). field. assumption.
  - cbn [loop_muldiv]. rewrite IH.
    + replace (S i + c)%nat with (i + S c)%nat by lia.
      assert (A : P i <> 0) by (apply Hnz; lia).
      assert (B : P (S i) <> 0) by (apply Hnz; lia).
      assert (E : P (i + S c)%nat <> 0) by (apply Hnz; lia).
      assert (D : den (S i) <> 0) by (apply Hden; lia).
      assert (B' := B). rewrite (Hstep i) in B' by lia.
      assert (G : num (S i) <> 0). { intros Z. apply B'. rewrite Z. unfold Rdiv. ring. }
      rewrite (Hstep i) by lia.
      field. repeat split; assumption.
    + intros j Hj. apply Hnz. lia.
    + intros j Hj. apply Hden. lia.
    + intros j Hj. apply Hstep. lia.
Qed.

(* ---------------------------------------------------------------- BTPE step 5.1 *)

(* the value of [f] after the match of step 5.1, with the constants a and s of the code *)
Definition btpe_f (a s : R) (m y : nat) : R :=
  match Nat.compare m y with
  | Lt => loop_mul (fun i => a / INR i - s) m (y - m) 1
  | Gt => loop_div (fun i => a / INR i - s) y (m - y) 1
  | Eq => 1
  end.

Lemma btpe_f_def : forall a s m y,
  btpe_f a s m y =
  match Nat.compare m y with
  | Lt => loop_mul (fun i => a / INR i - s) m (y - m) 1
  | Gt => loop_div (fun i => a / INR i - s) y (m - y) 1
  | Eq => 1
  end.
Proof. reflexivity. Qed.

(* one step of the binomial pmf: pmf(x+1) = pmf(x) * (a/(x+1) - s); this is the step of
   [binv_recurrence], read off the Fixpoint [binv_r] *)
Lemma binom_pmf_step : forall (n : nat) (p : R), 0 < p < 1 -> forall x, (S x <= n)%nat ->
  binom_pmf n p (S x)
  = binom_pmf n p x * ((p / (1 - p)) * (INR n + 1) / INR (S x) - p / (1 - p)).
Proof.
  intros n p Hp x Hx. unfold binom_pmf.
  rewrite <- (binv_recurrence n p Hp (S x) Hx).
  rewrite <- (binv_recurrence n p Hp x) by lia.
  cbn [binv_r]. rewrite (Rmult_comm (INR n + 1) (p / (1 - p))). reflexivity.
Qed.

Lemma binom_pmf_nz : forall (n : nat) (p : R), 0 < p < 1 -> forall x, (x <= n)%nat ->
  binom_pmf n p x <> 0.
Proof.
  intros n p Hp x Hx. apply Rgt_not_eq. unfold binom_pmf. apply binom_pmf_pos; assumption.
Qed.

Theorem btpe_loop_up : forall (n : nat) (p : R) (m y : nat) (f : R), 0 < p < 1 ->
  (m <= y)%nat -> (y <= n)%nat ->
  let s := p / (1 - p) in let a := s * (INR n + 1) in
  loop_mul (fun i => a / INR i - s) m (y - m) f = f * (binom_pmf n p y / binom_pmf n p m).
Proof.
  intros n p m y f Hp Hmy Hy s a.
  rewrite (loop_mul_ratio (binom_pmf n p)).
  - replace (m + (y - m))%nat with y by lia. reflexivity.
  - intros j Hj. apply binom_pmf_nz; [assumption|lia].
  - intros j Hj. apply binom_pmf_step; [assumption|lia].
Qed.

Theorem btpe_loop_down : forall (n : nat) (p : R) (m y : nat) (f : R), 0 < p < 1 ->
  (y <= m)%nat -> (m <= n)%nat ->
  let s := p / (1 - p) in let a := s * (INR n + 1) in
  loop_div (fun i => a / INR i - s) y (m - y) f = f * (binom_pmf n p y / binom_pmf n p m).
Proof.
  intros n p m y f Hp Hym Hm s a.
  rewrite (loop_div_ratio (binom_pmf n p)).
  - replace (y + (m - y))%nat with m by lia. reflexivity.
  - intros j Hj. apply binom_pmf_nz; [assumption|lia].
  - intros j Hj. apply binom_pmf_step; [assumption|lia].
Qed.

(* step 5.1 computes pmf(y) / pmf(m) exactly *)
Theorem btpe_exact_ratio : forall (n : nat) (p : R) (m y : nat), 0 < p < 1 ->
  (m <= n)%nat -> (y <= n)%nat ->
  let q := 1 - p in let s := p / q in let a := s * (INR n + 1) in
  btpe_f a s m y
  = (C n y * p ^ y * q ^ (n - y)) / (C n m * p ^ m * q ^ (n - m)).
Proof.
  intros n p m y Hp Hm Hy q s a. subst q s a. unfold btpe_f.
  change (C n y * p ^ y * (1 - p) ^ (n - y)) with (binom_pmf n p y).
  change (C n m * p ^ m * (1 - p) ^ (n - m)) with (binom_pmf n p m).
  destruct (Nat.compare_spec m y) as [E|L|G].
  - subst y. assert (H := binom_pmf_nz n p Hp m Hm). field. exact H.
  - rewrite (btpe_loop_up n p m y 1 Hp) by lia. ring.
  - rewrite (btpe_loop_down n p m y 1 Hp) by lia. ring.
Qed.

(* the two branches as explicit products, as in the informal description of the algorithm *)
Theorem btpe_exact_ratio_prod : forall (n : nat) (p : R) (m y : nat), 0 < p < 1 ->
  (m <= n)%nat -> (y <= n)%nat ->
  let q := 1 - p in let s := p / q in let a := s * (INR n + 1) in
  let pmf := fun x => C n x * p ^ x * q ^ (n - x) in
  ((m < y)%nat -> prod_range (fun i => a / INR i - s) m (y - m) = pmf y / pmf m) /\
  ((y < m)%nat -> 1 / prod_range (fun i => a / INR i - s) y (m - y) = pmf y / pmf m).
Proof.
  intros n p m y Hp Hm Hy q s a pmf. subst q s a pmf. cbv beta. split; intros H.
  - assert (E := btpe_loop_up n p m y 1 Hp ltac:(lia) Hy). cbv zeta in E.
    rewrite loop_mul_prod in E. unfold binom_pmf in E. lra.
  - assert (E := btpe_loop_down n p m y 1 Hp ltac:(lia) Hm). cbv zeta in E.
    rewrite loop_div_prod in E.
    + unfold binom_pmf in E. lra.
    + intros j Hj Z.
      assert (S1 := binom_pmf_step n p Hp (j - 1) ltac:(lia)).
      replace (S (j - 1)) with j in S1 by lia.
      assert (N1 := binom_pmf_nz n p Hp j ltac:(lia)).
      apply N1. rewrite S1. rewrite Z. ring.
Qed.

(* the acceptance test of the code:  `if v > f { continue } else { break }` *)
Theorem btpe_accept_iff : forall (n : nat) (p : R) (m y : nat) (v : R), 0 < p < 1 ->
  (m <= n)%nat -> (y <= n)%nat ->
  let q := 1 - p in let s := p / q in let a := s * (INR n + 1) in
  (~ (v > btpe_f a s m y) <->
   v * (C n m * p ^ m * q ^ (n - m)) <= C n y * p ^ y * q ^ (n - y)).
Proof.
  intros n p m y v Hp Hm Hy q s a.
  unfold a, s, q. rewrite (btpe_exact_ratio n p m y Hp Hm Hy).
  assert (Pm := binom_pmf_pos n p Hp m Hm).
  set (A := C n y * p ^ y * (1 - p) ^ (n - y)).
  set (B := C n m * p ^ m * (1 - p) ^ (n - m)) in *.
  split; intros H.
  - assert (H' : v <= A / B) by lra.
    apply Rmult_le_compat_r with (r := B) in H'; [|lra].
    unfold Rdiv in H'. rewrite Rmult_assoc, Rinv_l, Rmult_1_r in H' by lra. exact H'.
  - assert (H' : v <= A / B).
    { apply Rmult_le_reg_r with B; [exact Pm|].
      unfold Rdiv. rewrite Rmult_assoc, Rinv_l, Rmult_1_r by lra. exact H. }
    lra.
Qed.

(* ---------------------------------------------------------------- H2PE step 4.1 *)

(* the u64 expressions of the code, as naturals (truncated subtraction) cast to R *)
Definition h2pe_num (n1 k : nat) (i : nat) : R := INR (n1 - i + 1) * INR (k - i + 1).
Definition h2pe_den (n2 k : nat) (i : nat) : R := INR i * INR (n2 - k + i).

Definition h2pe_f (n1 n2 k m y : nat) : R :=
  if (m <? y)%nat
  then loop_muldiv (h2pe_num n1 k) (h2pe_den n2 k) m (y - m) 1
  else loop_muldiv (h2pe_den n2 k) (h2pe_num n1 k) y (m - y) 1.

Lemma h2pe_f_def : forall n1 n2 k m y,
  h2pe_f n1 n2 k m y =
  if (m <? y)%nat
  then loop_muldiv (fun i => INR (n1 - i + 1) * INR (k - i + 1))
                   (fun i => INR i * INR (n2 - k + i)) m (y - m) 1
  else loop_muldiv (fun i => INR i * INR (n2 - k + i))
                   (fun i => INR (n1 - i + 1) * INR (k - i + 1)) y (m - y) 1.
Proof. reflexivity. Qed.

(* one step of the hypergeometric pmf with the factors as written in step 4.1 (index i = x+1);
   this is [hin_recurrence] re-indexed *)
Lemma hyper_pmf_step : forall n1 n2 k x : nat,
  (S x <= n1)%nat -> (S x <= k)%nat -> (k <= n2)%nat ->
  hyper_pmf (n1 + n2) n1 k (S x)
  = hyper_pmf (n1 + n2) n1 k x * h2pe_num n1 k (S x) / h2pe_den n2 k (S x).
Proof.
  intros n1 n2 k x H1 Hk H2. rewrite hin_recurrence by (try assumption; lia).
  unfold h2pe_num, h2pe_den.
  replace (n1 - S x + 1)%nat with (n1 - x)%nat by lia.
  replace (k - S x + 1)%nat with (k - x)%nat by lia.
  rewrite !minus_INR by lia. rewrite plus_INR, minus_INR by lia. rewrite S_INR.
  f_equal. f_equal. ring.
Qed.

Lemma h2pe_den_nz : forall n2 k x, h2pe_den n2 k (S x) <> 0.
Proof.
  intros n2 k x. unfold h2pe_den. apply Rmult_integral_contrapositive_currified.
  - apply not_0_INR. lia.
  - apply not_0_INR. lia.
Qed.

Lemma hyper_pmf_nz : forall n1 n2 k x, (x <= n1)%nat -> (x <= k)%nat -> (k <= n2)%nat ->
  hyper_pmf (n1 + n2) n1 k x <> 0.
Proof.
  intros n1 n2 k x H1 H2 H3. apply Rgt_not_eq. apply hyper_pmf_pos; lia.
Qed.

Theorem h2pe_loop_up : forall n1 n2 k m y (f : R),
  (k <= n2)%nat -> (m <= y)%nat -> (y <= n1)%nat -> (y <= k)%nat ->
  loop_muldiv (h2pe_num n1 k) (h2pe_den n2 k) m (y - m) f
  = f * (hyper_pmf (n1 + n2) n1 k y / hyper_pmf (n1 + n2) n1 k m).
Proof.
  intros n1 n2 k m y f Hk Hmy H1 H2.
  rewrite (loop_muldiv_ratio (hyper_pmf (n1 + n2) n1 k)).
  - replace (m + (y - m))%nat with y by lia. reflexivity.
  - intros j Hj. apply hyper_pmf_nz; lia.
  - intros j Hj. apply h2pe_den_nz.
  - intros j Hj. apply hyper_pmf_step; lia.
Qed.

Theorem h2pe_loop_down : forall n1 n2 k m y (f : R),
  (k <= n2)%nat -> (y <= m)%nat -> (m <= n1)%nat -> (m <= k)%nat ->
  loop_muldiv (h2pe_den n2 k) (h2pe_num n1 k) y (m - y) f
  = f * (hyper_pmf (n1 + n2) n1 k y / hyper_pmf (n1 + n2) n1 k m).
Proof.
  intros n1 n2 k m y f Hk Hym H1 H2.
  rewrite (loop_muldiv_ratio_inv (hyper_pmf (n1 + n2) n1 k)).
  - replace (y + (m - y))%nat with m by lia. reflexivity.
  - intros j Hj. apply hyper_pmf_nz; lia.
  - intros j Hj. apply h2pe_den_nz.
  - intros j Hj. apply hyper_pmf_step; lia.
Qed.

(* step 4.1 computes pmf(y) / pmf(m) exactly; (n1, n2, k) are the reduced parameters of `new`
   (n1 <= n2, k <= (n1+n2)/2, hence k <= n2), y and m lie in the support [0, min(n1,k)] *)
Theorem h2pe_exact_ratio : forall n1 n2 k m y : nat,
  (k <= n2)%nat -> (m <= n1)%nat -> (m <= k)%nat -> (y <= n1)%nat -> (y <= k)%nat ->
  h2pe_f n1 n2 k m y
  = (C n1 y * C n2 (k - y) / C (n1 + n2) k) / (C n1 m * C n2 (k - m) / C (n1 + n2) k).
Proof.
  intros n1 n2 k m y Hk Hm1 Hm2 Hy1 Hy2.
  assert (E : forall x, C n1 x * C n2 (k - x) / C (n1 + n2) k = hyper_pmf (n1 + n2) n1 k x).
  { intros x. unfold hyper_pmf. replace (n1 + n2 - n1)%nat with n2 by lia. reflexivity. }
  rewrite !E. unfold h2pe_f. destruct (Nat.ltb_spec m y) as [L|G].
  - rewrite h2pe_loop_up by lia. ring.
  - rewrite h2pe_loop_down by lia. ring.
Qed.

(* the common normaliser cancels: the ratio of the unnormalised weights *)
Theorem h2pe_exact_ratio_weights : forall n1 n2 k m y : nat,
  (k <= n2)%nat -> (m <= n1)%nat -> (m <= k)%nat -> (y <= n1)%nat -> (y <= k)%nat ->
  h2pe_f n1 n2 k m y = (C n1 y * C n2 (k - y)) / (C n1 m * C n2 (k - m)).
Proof.
  intros n1 n2 k m y Hk Hm1 Hm2 Hy1 Hy2. rewrite h2pe_exact_ratio by assumption.
  assert (A : C (n1 + n2) k <> 0) by (apply Rgt_not_eq, C_pos; lia).
  assert (B : C n1 m <> 0) by (apply Rgt_not_eq, C_pos; lia).
  assert (D : C n2 (k - m) <> 0) by (apply Rgt_not_eq, C_pos; lia).
  field. repeat split; assumption.
Qed.

(* the acceptance test of the code:  `if v <= f { break y }` *)
Theorem h2pe_accept_iff : forall (n1 n2 k m y : nat) (v : R),
  (k <= n2)%nat -> (m <= n1)%nat -> (m <= k)%nat -> (y <= n1)%nat -> (y <= k)%nat ->
  (v <= h2pe_f n1 n2 k m y <->
   v * hyper_pmf (n1 + n2) n1 k m <= hyper_pmf (n1 + n2) n1 k y).
Proof.
  intros n1 n2 k m y v Hk Hm1 Hm2 Hy1 Hy2. rewrite h2pe_exact_ratio by assumption.
  assert (E : forall x, C n1 x * C n2 (k - x) / C (n1 + n2) k = hyper_pmf (n1 + n2) n1 k x).
  { intros x. unfold hyper_pmf. replace (n1 + n2 - n1)%nat with n2 by lia. reflexivity. }
  rewrite !E.
  assert (Pm : 0 < hyper_pmf (n1 + n2) n1 k m) by (apply hyper_pmf_pos; lia).
  set (A := hyper_pmf (n1 + n2) n1 k y). set (B := hyper_pmf (n1 + n2) n1 k m) in *.
  split; intros H.
  - apply Rmult_le_compat_r with (r := B) in H; [|lra].
    unfold Rdiv in H. rewrite Rmult_assoc, Rinv_l, Rmult_1_r in H by lra. exact H.
  - apply Rmult_le_reg_r with B; [exact Pm|].
    unfold Rdiv. rewrite Rmult_assoc, Rinv_l, Rmult_1_r by lra. exact H.
Qed.

(* ---------------------------------------------------------------- non-vacuity *)

(* Binomial(4, 1/2), m = 2, y = 3:  one iteration, f = a/3 - s = 5/3 - 1 = 2/3 = C(4,3)/C(4,2) *)
Example btpe_f_example : btpe_f (1 * (INR 4 + 1)) 1 2 3 = 2 / 3.
Proof. unfold btpe_f. simpl. lra. Qed.

(* and downwards, m = 2, y = 0:  f = 1 / (5/1 - 1) / (5/2 - 1) = 1/6 = C(4,0)/C(4,2) *)
Example btpe_f_example_down : btpe_f (1 * (INR 4 + 1)) 1 2 0 = 1 / 6.
Proof. unfold btpe_f. simpl. field. Qed.

(* Hypergeometric n1 = 3, n2 = 5, k = 4, m = 1, y = 2:
   f = (3-2+1)(4-2+1) / (2 (5-4+2)) = 6/6 = 1 = C(3,2)C(5,2) / (C(3,1)C(5,3)) = 30/30 *)
Example h2pe_f_example : h2pe_f 3 5 4 1 2 = 1.
Proof. unfold h2pe_f, h2pe_num, h2pe_den. simpl. field. Qed.
