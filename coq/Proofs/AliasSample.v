(* Proofs/AliasSample.v — consequences of the construction invariant: table shape, odds
   range, mass conservation, weights() round trip, exact sampling counts, Lemire range *)
From Coq Require Import ZArith List Bool Arith Lia Permutation.
From RD Require Import Model.Tree Model.Uniform Model.Alias Proofs.AliasBasics Proofs.AliasLoop.
Import ListNotations.
Open Scope Z_scope.

(* mass that column j hands over to outcome i *)
Definition contrib (t : atab) (i j : nat) : Z :=
  if (geti (t_odds t) j <? t_sum t) && (geti (t_al t) j =? Z.of_nat i)
  then t_sum t - geti (t_odds t) j else 0.

Lemma contrib_nonneg : forall t i j, 0 <= contrib t i j.
Proof.
  intros. unfold contrib. destruct (Z.ltb_spec (geti (t_odds t) j) (t_sum t)); simpl; try lia.
  destruct (_ =? _); lia.
Qed.

Lemma zsumf_add : forall f g l, zsumf (fun c => f c + g c) l = zsumf f l + zsumf g l.
Proof. induction l. reflexivity. rewrite !zsumf_cons, IHl. lia. Qed.

(* ghost-free specification of a constructed table *)
Record Spec (ty : aty) (ws : list Z) (t : atab) : Prop := {
  sp_sum : t_sum t = asum ws;
  sp_pos : 0 < t_sum t;
  sp_lo : length (t_odds t) = length ws;
  sp_la : length (t_al t) = length ws;
  sp_n : 0 < alen ws;
  sp_w : forall i, (i < length ws)%nat -> 0 <= nth i ws 0 /\ alen ws * nth i ws 0 <= amax ty;
  sp_range : forall c, (c < length ws)%nat ->
     0 <= geti (t_odds t) c <= t_sum t /\
     (geti (t_odds t) c < t_sum t -> 0 <= geti (t_al t) c < alen ws);
  sp_mass : forall i, (i < length ws)%nat ->
     geti (t_odds t) i + zsumf (contrib t i) (seq 0 (length ws)) = alen ws * nth i ws 0 }.

Lemma contrib_done : forall t i dn,
  (forall p, In p dn -> 0 <= geti (t_odds t) (fst p) < t_sum t /\
                        geti (t_al t) (fst p) = Z.of_nat (snd p)) ->
  zsumf (contrib t i) (map fst dn) = dsum (t_sum t) (t_odds t) dn i.
Proof.
  induction dn; intros H. reflexivity.
  simpl map. rewrite zsumf_cons. unfold dsum. cbn [fold_right].
  fold (dsum (t_sum t) (t_odds t) dn i). rewrite IHdn by (intros; apply H; right; auto).
  f_equal. destruct (H a) as [H1 H2]. left; auto.
  unfold contrib. rewrite (proj2 (Z.ltb_lt _ _)) by lia. rewrite H2. simpl andb.
  destruct (Nat.eqb_spec (snd a) i).
  - subst. rewrite Z.eqb_refl. reflexivity.
  - rewrite (proj2 (Z.eqb_neq _ _)) by lia. reflexivity.
Qed.

Lemma good_spec : forall ty ws t, Good ty ws t -> Spec ty ws t.
Proof.
  intros ty ws t [Gs Gp Glo Gla Gn Gw (lf & dn & Hperm & Hlf & Hdn & Hmass)].
  constructor; auto; try lia.
  - intros c Hc.
    assert (Hin : In c (lf ++ map fst dn)).
    { eapply Permutation_in. symmetry; exact Hperm. apply in_seq. lia. }
    apply in_app_or in Hin. destruct Hin as [Hin|Hin].
    + rewrite (Hlf c Hin). split; lia.
    + apply in_map_iff in Hin. destruct Hin as (p & <- & Hp).
      destruct (Hdn p Hp) as (H1 & H2 & H3). split. lia. intros _. rewrite H2.
      unfold alen. lia.
  - intros i Hi. rewrite <- (Hmass i Hi). f_equal.
    rewrite <- (zsumf_perm _ _ _ Hperm), zsumf_app.
    rewrite (zsumf_zero _ lf).
    + rewrite contrib_done. lia. intros p Hp. destruct (Hdn p Hp) as (H1 & H2 & H3). auto.
    + intros j Hj. unfold contrib. rewrite (Hlf j Hj), Z.ltb_irrefl. reflexivity.
Qed.

Lemma alias_new_spec : forall ty ws t, wfA ty -> alias_new ty ws = Ok t -> Spec ty ws t.
Proof. intros. apply good_spec. apply alias_new_good; auto. Qed.

(* ---------- weights() round trip ---------- *)

Definition wstep (ty : aty) (t : atab) (n : nat) (acc : option (list Z)) (j : nat) : option (list Z) :=
  match acc with
  | None => None
  | Some c =>
    if geti (t_odds t) j <? t_sum t then
      let a := Z.to_nat (geti (t_al t) j) in
      if (a <? n)%nat then
        let v := geti c a + (t_sum t - geti (t_odds t) j) in
        if inra ty v then Some (seti c a v) else None
      else None
    else Some c
  end.

Lemma alias_weights_unfold : forall ty t, alias_weights ty t =
  match fold_left (wstep ty t (length (t_al t))) (seq 0 (length (t_al t)))
                  (Some (map (fun _ : Z => 0) (t_al t))) with
  | None => None
  | Some c =>
    if forallb (fun j => inra ty (geti (t_odds t) j + geti c j)) (seq 0 (length (t_al t)))
    then Some (map (fun j => (geti (t_odds t) j + geti c j) / Z.of_nat (length (t_al t)))
                   (seq 0 (length (t_al t))))
    else None
  end.
Proof. reflexivity. Qed.

Section FromSpec.
Variable ty : aty.
Variable ws : list Z.
Variable t : atab.
Hypothesis wf : wfA ty.
Hypothesis sp : Spec ty ws t.

Let N := length ws.

Lemma wstep_ok : forall c j, length c = N -> (j < N)%nat ->
  (forall a, (a < N)%nat -> 0 <= geti c a /\ geti c a + contrib t a j <= amax ty) ->
  exists c', wstep ty t N (Some c) j = Some c' /\ length c' = N /\
             forall a, (a < N)%nat -> geti c' a = geti c a + contrib t a j.
Proof.
  intros c j Hl Hj Hb. unfold wstep. cbv zeta.
  destruct (sp_range _ _ _ sp j Hj) as [Ho Hal].
  destruct (Z.ltb_spec (geti (t_odds t) j) (t_sum t)) as [Hlt|Hge].
  - specialize (Hal Hlt). unfold alen in Hal. fold N in Hal.
    set (a := Z.to_nat (geti (t_al t) j)).
    assert (Ha : (a < N)%nat) by (unfold a; lia).
    assert (Ea : Z.of_nat a = geti (t_al t) j) by (unfold a; lia).
    rewrite (proj2 (Nat.ltb_lt a N) Ha).
    assert (Ec : contrib t a j = t_sum t - geti (t_odds t) j).
    { unfold contrib. rewrite (proj2 (Z.ltb_lt _ _) Hlt), Ea, Z.eqb_refl. reflexivity. }
    destruct (Hb a Ha) as [B1 B2]. rewrite Ec in B2. unfold wfA in wf.
    rewrite inra_true by lia.
    eexists. split. reflexivity. split. rewrite seti_length; auto.
    intros a' Ha'. destruct (Nat.eq_dec a a') as [<-|Hne].
    + rewrite geti_seti_same by lia. rewrite Ec. reflexivity.
    + rewrite geti_seti_other by auto.
      assert (contrib t a' j = 0).
      { unfold contrib. rewrite (proj2 (Z.eqb_neq _ _)). rewrite andb_false_r. reflexivity. lia. }
      lia.
  - exists c. split; auto. split; auto. intros a Ha.
    unfold contrib. rewrite (proj2 (Z.ltb_ge _ _) Hge). simpl. lia.
Qed.

Lemma wfold_ok : forall l c, length c = N -> (forall j, In j l -> (j < N)%nat) ->
  (forall a, (a < N)%nat -> 0 <= geti c a /\ geti c a + zsumf (contrib t a) l <= amax ty) ->
  exists c', fold_left (wstep ty t N) l (Some c) = Some c' /\ length c' = N /\
             forall a, (a < N)%nat -> geti c' a = geti c a + zsumf (contrib t a) l.
Proof.
  induction l as [|j l IH]; intros c Hl Hin Hb.
  - exists c. split; auto. split; auto. intros. rewrite zsumf_nil. lia.
  - assert (Hnn : forall a, 0 <= zsumf (contrib t a) l).
    { intros a. apply zsumf_nonneg. intros; apply contrib_nonneg. }
    destruct (wstep_ok c j Hl) as (c1 & E1 & L1 & G1).
    { apply Hin; left; auto. }
    { intros a Ha. destruct (Hb a Ha) as [B1 B2]. rewrite zsumf_cons in B2.
      specialize (Hnn a). lia. }
    cbn [fold_left]. rewrite E1.
    destruct (IH c1 L1) as (c' & E' & L' & G').
    { intros; apply Hin; right; auto. }
    { intros a Ha. destruct (Hb a Ha) as [B1 B2]. rewrite zsumf_cons in B2.
      rewrite (G1 a Ha). pose proof (contrib_nonneg t a j). lia. }
    exists c'. split; auto. split; auto. intros a Ha.
    rewrite (G' a Ha), (G1 a Ha), zsumf_cons. lia.
Qed.

Theorem weights_roundtrip : alias_weights ty t = Some ws.
Proof.
  pose proof (sp_la _ _ _ sp) as Hla. pose proof (sp_n _ _ _ sp) as Hn.
  rewrite alias_weights_unfold, Hla. fold N.
  destruct (wfold_ok (seq 0 N) (map (fun _ : Z => 0) (t_al t))) as (c' & E & L & G).
  - rewrite map_length. auto.
  - intros j Hj. apply in_seq in Hj. lia.
  - intros a Ha. rewrite geti_map_const0. split. lia.
    pose proof (sp_mass _ _ _ sp a Ha) as M. fold N in M.
    destruct (sp_range _ _ _ sp a Ha) as [R _]. destruct (sp_w _ _ _ sp a Ha). lia.
  - rewrite E.
    assert (Hv : forall j, (j < N)%nat -> geti (t_odds t) j + geti c' j = alen ws * nth j ws 0).
    { intros j Hj. rewrite (G j Hj), geti_map_const0, Z.add_0_l.
      apply (sp_mass _ _ _ sp j Hj). }
    assert (F : forallb (fun j => inra ty (geti (t_odds t) j + geti c' j)) (seq 0 N) = true).
    { apply forallb_forall. intros j Hj. apply in_seq in Hj.
      assert (Hj' : (j < N)%nat) by lia.
      rewrite Hv by lia. destruct (sp_w _ _ _ sp j Hj') as [W1 W2].
      unfold wfA in wf. apply inra_true.
      assert (0 <= alen ws * nth j ws 0) by (apply Z.mul_nonneg_nonneg; lia). lia. }
    rewrite F. f_equal.
    transitivity (map (fun j => nth j ws 0) (seq 0 N)).
    + apply map_ext_in. intros j Hj. apply in_seq in Hj. rewrite Hv by lia.
      fold (alen ws). rewrite Z.mul_comm, Z.div_mul by lia. reflexivity.
    + apply map_nth_seq.
Qed.

(* ---------- sampling ---------- *)

Theorem pick_in_range : forall c r, (c < N)%nat -> 0 <= r < t_sum t ->
  0 <= alias_pick t c r < alen ws.
Proof.
  intros c r Hc Hr. unfold alias_pick.
  destruct (sp_range _ _ _ sp c Hc) as [R1 R2].
  destruct (Z.ltb_spec r (geti (t_odds t) c)).
  - unfold alen. fold N. lia.
  - apply R2. lia.
Qed.

(* number of thresholds r in [0, sum) for which column c yields outcome i *)
Definition pick_count (c i : nat) : Z :=
  countz (fun r => alias_pick t c (Z.of_nat r) =? Z.of_nat i) (Z.to_nat (t_sum t)).

Theorem pick_count_eq : forall c i, (c < N)%nat ->
  pick_count c i = (if Nat.eqb c i then geti (t_odds t) c else 0) + contrib t i c.
Proof.
  intros c i Hc. unfold pick_count, contrib.
  destruct (sp_range _ _ _ sp c Hc) as [R1 _]. pose proof (sp_pos _ _ _ sp) as Hp.
  set (k := Z.to_nat (t_sum t)). assert (Ek : Z.of_nat k = t_sum t) by (unfold k; lia).
  set (oc := geti (t_odds t) c) in *. set (ac := geti (t_al t) c).
  destruct (Nat.eqb_spec c i) as [Eci|Nci]; destruct (Z.eqb_spec ac (Z.of_nat i)) as [Eai|Nai].
  - rewrite (countz_ext _ (fun _ => true)).
    + rewrite countz_true. destruct (Z.ltb_spec oc (t_sum t)); simpl; lia.
    + intros r _. unfold alias_pick. fold oc ac. subst c. rewrite Eai.
      destruct (_ <? _); apply Z.eqb_refl.
  - rewrite (countz_ext _ (fun r => Z.of_nat r <? oc)).
    + rewrite countz_lt by lia. rewrite andb_false_r. lia.
    + intros r _. unfold alias_pick. fold oc ac. subst c.
      destruct (Z.of_nat r <? oc). apply Z.eqb_refl. apply Z.eqb_neq; auto.
  - rewrite (countz_ext _ (fun r => negb (Z.of_nat r <? oc))).
    + rewrite countz_ge by lia. destruct (Z.ltb_spec oc (t_sum t)); simpl; lia.
    + intros r _. unfold alias_pick. fold oc ac.
      destruct (Z.of_nat r <? oc); simpl. apply Z.eqb_neq; lia. rewrite Eai. apply Z.eqb_refl.
  - rewrite (countz_ext _ (fun _ => false)).
    + rewrite countz_false, andb_false_r. lia.
    + intros r _. unfold alias_pick. fold oc ac.
      destruct (Z.of_nat r <? oc); apply Z.eqb_neq; auto; lia.
Qed.

(* total number of (column, threshold) pairs selecting i is n * w_i *)
Theorem pair_count : forall i, (i < N)%nat ->
  zsumf (fun c => pick_count c i) (seq 0 N) = alen ws * nth i ws 0.
Proof.
  intros i Hi.
  rewrite (zsumf_ext _ (fun c => (if Nat.eqb c i then geti (t_odds t) c else 0) + contrib t i c)).
  - rewrite zsumf_add, zsumf_indicator.
    + apply (sp_mass _ _ _ sp i Hi).
    + apply seq_NoDup.
    + apply in_seq. lia.
  - intros c Hc. apply in_seq in Hc. apply pick_count_eq. lia.
Qed.

Theorem zero_never : forall i, nth i ws 0 = 0 ->
  forall c r, (c < N)%nat -> 0 <= r < t_sum t -> alias_pick t c r <> Z.of_nat i.
Proof.
  intros i Hz c r Hc Hr.
  destruct (Nat.lt_ge_cases i N) as [Hi|Hi].
  - pose proof (sp_mass _ _ _ sp i Hi) as M. rewrite Hz, Z.mul_0_r in M. fold N in M.
    destruct (sp_range _ _ _ sp i Hi) as [[Ri _] _].
    assert (Hnn : 0 <= zsumf (contrib t i) (seq 0 N)).
    { apply zsumf_nonneg. intros; apply contrib_nonneg. }
    assert (Hc0 : contrib t i c = 0).
    { apply (zsumf_zero_inv (contrib t i) (seq 0 N)).
      intros; apply contrib_nonneg. lia. apply in_seq; lia. }
    unfold alias_pick. destruct (Z.ltb_spec r (geti (t_odds t) c)) as [H|H].
    + intro E. assert (c = i) by lia. subst c. lia.
    + intro E. unfold contrib in Hc0. rewrite E, Z.eqb_refl in Hc0.
      rewrite (proj2 (Z.ltb_lt _ _)) in Hc0 by lia. simpl in Hc0. lia.
  - pose proof (pick_in_range c r Hc Hr) as P. unfold alen in P. fold N in P. lia.
Qed.

End FromSpec.

(* ---------- Lemire rejection sampling stays in range ---------- *)

Definition words_ok (ws : list Z) : Prop := Forall (fun x => 0 <= x < 2^64) ws.

Lemma draw_range : forall b ws w r, words_ok ws -> draw b ws = Some (w, r) ->
  0 <= w < sbits_pow b /\ words_ok r.
Proof.
  unfold words_ok. intros b ws w r HF E.
  destruct b; unfold draw in E.
  - destruct ws as [|x ws']; [discriminate|]. inversion E; subst. inversion HF; subst.
    split; auto. change (sbits_pow B32) with (2^32). split.
    + apply Z.div_pos; lia.
    + apply Z.div_lt_upper_bound. lia. change (2^32 * 2^32) with (2^64). lia.
  - destruct ws as [|x ws']; [discriminate|]. inversion E; subst. inversion HF; subst.
    split; auto.
  - destruct ws as [|x [|y ws']]; try discriminate. inversion E; subst.
    inversion HF as [|? ? Hx HF']; subst. inversion HF' as [|? ? Hy HF'']; subst.
    split; auto. change (sbits_pow B128) with (2^64 * 2^64).
    assert (0 <= y * 2^64) by (apply Z.mul_nonneg_nonneg; lia).
    assert (y * 2^64 <= (2^64 - 1) * 2^64) by (apply Z.mul_le_mono_nonneg_r; lia).
    lia.
Qed.

Lemma lemire_S : forall f b range ws, lemire (S f) b range ws =
  match draw b ws with
  | None => None
  | Some (w, r) =>
    if (sbits_pow b - range) mod range <=? (w * range) mod sbits_pow b
    then Some (w * range / sbits_pow b, r) else lemire f b range r
  end.
Proof. reflexivity. Qed.

Theorem lemire_in_range : forall fuel b range ws v rest,
  words_ok ws -> 0 < range ->
  lemire fuel b range ws = Some (v, rest) -> 0 <= v < range /\ words_ok rest.
Proof.
  induction fuel; intros b range ws v rest HF Hr E. discriminate.
  rewrite lemire_S in E. destruct (draw b ws) as [[w r]|] eqn:D; [|discriminate].
  destruct (draw_range b ws w r HF D) as [Hw HF'].
  destruct (_ <=? _).
  - inversion E; subst. split; auto. split.
    + apply Z.div_pos. apply Z.mul_nonneg_nonneg; lia. lia.
    + apply Z.div_lt_upper_bound. lia. apply Z.mul_lt_mono_pos_r; lia.
  - eapply IHfuel; eauto.
Qed.

(* ---------- top-level statements about alias_new ---------- *)

Lemma contrib_nested : forall t i c,
  contrib t i c =
  if geti (t_odds t) c <? t_sum t
  then (if geti (t_al t) c =? Z.of_nat i then t_sum t - geti (t_odds t) c else 0) else 0.
Proof. intros. unfold contrib. destruct (_ <? _); reflexivity. Qed.

Theorem new_shape : forall ty ws t, wfA ty -> alias_new ty ws = Ok t ->
  length (t_al t) = length ws /\ length (t_odds t) = length ws /\
  t_sum t = asum ws /\ 0 < t_sum t.
Proof.
  intros ty ws t wf E. destruct (alias_new_spec ty ws t wf E). auto.
Qed.

Theorem new_odds_range : forall ty ws t, wfA ty -> alias_new ty ws = Ok t ->
  forall c, (c < length ws)%nat ->
  0 <= geti (t_odds t) c <= t_sum t /\
  (geti (t_odds t) c < t_sum t -> 0 <= geti (t_al t) c < alen ws).
Proof. intros ty ws t wf E. exact (sp_range _ _ _ (alias_new_spec ty ws t wf E)). Qed.

Theorem new_mass : forall ty ws t, wfA ty -> alias_new ty ws = Ok t ->
  forall i, (i < length ws)%nat ->
  geti (t_odds t) i + zsumf (contrib t i) (seq 0 (length ws)) = alen ws * nth i ws 0.
Proof. intros ty ws t wf E. exact (sp_mass _ _ _ (alias_new_spec ty ws t wf E)). Qed.

Theorem new_weights_roundtrip : forall ty ws t, wfA ty -> alias_new ty ws = Ok t ->
  alias_weights ty t = Some ws.
Proof. intros ty ws t wf E. apply weights_roundtrip; auto. apply alias_new_spec; auto. Qed.

Theorem new_pick_count : forall ty ws t, wfA ty -> alias_new ty ws = Ok t ->
  forall c i, (c < length ws)%nat ->
  pick_count t c i =
  (if Nat.eqb c i then geti (t_odds t) c else 0) +
  (if geti (t_odds t) c <? t_sum t
   then (if geti (t_al t) c =? Z.of_nat i then t_sum t - geti (t_odds t) c else 0) else 0).
Proof.
  intros ty ws t wf E c i Hc. rewrite <- contrib_nested.
  apply (pick_count_eq ty ws t (alias_new_spec ty ws t wf E)); auto.
Qed.

Theorem new_pair_count : forall ty ws t, wfA ty -> alias_new ty ws = Ok t ->
  forall i, (i < length ws)%nat ->
  zsumf (fun c => pick_count t c i) (seq 0 (length ws)) = alen ws * nth i ws 0.
Proof. intros ty ws t wf E. exact (pair_count ty ws t (alias_new_spec ty ws t wf E)). Qed.

Theorem new_zero_never : forall ty ws t, wfA ty -> alias_new ty ws = Ok t ->
  forall i, nth i ws 0 = 0 ->
  forall c r, (c < length ws)%nat -> 0 <= r < t_sum t -> alias_pick t c r <> Z.of_nat i.
Proof. intros ty ws t wf E. exact (zero_never ty ws t (alias_new_spec ty ws t wf E)). Qed.

Theorem new_pick_in_range : forall ty ws t, wfA ty -> alias_new ty ws = Ok t ->
  forall c r, (c < length ws)%nat -> 0 <= r < t_sum t -> 0 <= alias_pick t c r < alen ws.
Proof. intros ty ws t wf E. exact (pick_in_range ty ws t (alias_new_spec ty ws t wf E)). Qed.
