#!/bin/bash
# usage: dbg.sh File.v LINE [extra tactic text]  — show goals just before LINE
f=$1; n=$2; shift 2
tmp=$(dirname $f)/Dbg_$$.v
head -n $((n-1)) $f > $tmp
echo "$@" >> $tmp
echo "Show." >> $tmp
coqc -Q /verif/coq RD -w -notation-overridden $tmp 2>&1 | head -${DBGN:-60}
rm -f $tmp $(dirname $f)/Dbg_$$.vo $(dirname $f)/Dbg_$$.glob $(dirname $f)/.Dbg_$$.aux
