(* Base/Fp.v — comparing the regenerated per-function fingerprints (Gen/Consts.v) with the fingerprints of the
   tree the hand models were written against (GenBase/Consts.v), restricted to the source files a property is anchored in. *)
From Coq Require Import String ZArith List Bool.
Import ListNotations.

Fixpoint prefixb (p s : string) : bool :=
  match p, s with
  | EmptyString, _ => true
  | String a p', String b s' => Ascii.eqb a b && prefixb p' s'
  | _, _ => false
  end.

Fixpoint containsb (p s : string) : bool :=
  prefixb p s || match s with EmptyString => false | String _ s' => containsb p s' end.

(* functions that cannot influence any of the properties: the `Display` text of the error enums and the
   test-only constant RNG of utils.rs; a change there is not an obligation of any property *)
Definition irrelevant (name : string) : bool :=
  containsb "_Display__fmt" name || containsb "ConstRng_" name.

(* the entries whose name starts with one of the given file prefixes (names are <file>__<impl>__<fn>) *)
Definition fps_of (files : list string) (l : list (string * Z)) : list (string * Z) :=
  filter (fun e => existsb (fun f => prefixb (f ++ "__") (fst e)) files && negb (irrelevant (fst e))) l.

Fixpoint fp_eqb (a b : list (string * Z)) : bool :=
  match a, b with
  | [], [] => true
  | (n, h) :: r, (m, k) :: s => String.eqb n m && Z.eqb h k && fp_eqb r s
  | _, _ => false
  end.

Lemma fp_eqb_eq a : forall b, fp_eqb a b = true -> a = b.
Proof.
  induction a as [|[n h] r IH]; intros [|[m k] s] H; simpl in H; try discriminate; auto.
  apply andb_true_iff in H. destruct H as [H1 H3]. apply andb_true_iff in H1. destruct H1 as [H1 H2].
  apply String.eqb_eq in H1. apply Z.eqb_eq in H2. subst. f_equal. now apply IH.
Qed.

(* which function changed: names whose hash differs or that are missing on one side *)
Definition fp_diff (a b : list (string * Z)) : list string :=
  map fst (filter (fun e => negb (existsb (fun e' => String.eqb (fst e) (fst e') && Z.eqb (snd e) (snd e')) b)) a) ++
  map fst (filter (fun e => negb (existsb (fun e' => String.eqb (fst e) (fst e')) a)) b).
