(* Base/Expr.v — deep-embedded closed real expressions, their exact semantics in the
   extended reals, and a verified interval evaluator built from Coq-Interval's operations
   (each of which comes with a containment theorem); every rounded float operation of the
   implementation is covered by widening the node's enclosure by a relative error.      *)
From Coq Require Import Reals ZArith List Lra Lia.
From Interval Require Import Specific_bigint Specific_ops Float_full Float Xreal Basic Interval.
From Flocq Require Import Core.
From Bignums Require Import BigZ.

Module F := SpecificFloat BigIntRadix2.
Module I := FloatIntervalFull F.

Inductive uop := Neg | Abs | Sqrt | Exp | Ln | Tan | Atan | Floor | Sqr | Ln1p | Expm1 | Id.
Inductive bop := Add | Sub | Mul | Div | Pow.

(* Dy m e = m * 2^e (exact: float parameters and uniform draws); Pi = the real number pi *)
Inductive expr :=
| Dy (m e : Z)
| Pi
| Un (o : uop) (a : expr)
| Bin (o : bop) (a b : expr)
| Exact (a : expr).       (* an operation the implementation performs without rounding: no widening below *)

Definition Xpow (x y : ExtendedR) : ExtendedR := Xexp (Xmul y (Xln x)).

Definition xun (o : uop) : ExtendedR -> ExtendedR :=
  match o with
  | Neg => Xneg | Abs => Xabs | Sqrt => Xsqrt | Exp => Xexp | Ln => Xln | Tan => Xtan | Atan => Xatan
  | Floor => Xlift (Rnearbyint rnd_DN) | Sqr => Xsqr
  | Ln1p => fun x => Xln (Xadd (Xreal 1) x)
  | Expm1 => fun x => Xsub (Xexp x) (Xreal 1)
  | Id => fun x => x
  end.
Definition xbin (o : bop) : ExtendedR -> ExtendedR -> ExtendedR :=
  match o with Add => Xadd | Sub => Xsub | Mul => Xmul | Div => Xdiv | Pow => Xpow end.

(* m * 2^e *)
Definition xdy (m e : Z) : ExtendedR := Xmul (Xreal (IZR m)) (Xpower_int (Xreal 2) e).

Fixpoint evalX (e : expr) : ExtendedR :=
  match e with
  | Dy m x => xdy m x
  | Pi => Xreal PI
  | Un o a => xun o (evalX a)
  | Bin o a b => xbin o (evalX a) (evalX b)
  | Exact a => evalX a
  end.

Lemma xdy_real m e : xdy m e = Xreal (IZR m * powerRZ 2 e).
Proof.
  unfold xdy. destruct e as [|q|q]; cbn [Xpower_int Xbind Xpower_int' Xmul].
  - f_equal. simpl. reflexivity.
  - f_equal.
  - unfold is_zero. rewrite Raux.Req_bool_false by lra. cbn [Xmul]. f_equal.
Qed.

(* ---- interval evaluation ------------------------------------------------------------- *)
Section Eval.
Variable prec : F.precision.
(* widening: a node whose implementation counterpart is a rounded float operation carries a
   relative error of at most k * 2^-p (p = 24 or 53) plus an absolute error 2^eta *)
Variable p : Z.
Variable eta : Z.

Definition idy (m e : Z) : I.type := I.mul prec (I.fromZ prec m) (I.power_int prec (I.fromZ prec 2) e).

Lemma idy_correct m e : contains (I.convert (idy m e)) (xdy m e).
Proof. unfold idy, xdy. apply I.mul_correct; [apply I.fromZ_correct|].
  apply I.power_int_correct. apply I.fromZ_correct. Qed.

(* hull of i*(1-k2^-p), i, i*(1+k2^-p), then of that -/+ 2^eta *)
Definition widen (k : Z) (i : I.type) : I.type :=
  let r := I.join i (I.join (I.mul prec i (idy (2^p - k) (- p))) (I.mul prec i (idy (2^p + k) (- p)))) in
  I.join r (I.join (I.sub prec r (idy 1 eta)) (I.add prec r (idy 1 eta))).

Lemma widen_correct k i x : contains (I.convert i) x -> contains (I.convert (widen k i)) x.
Proof. intros H. unfold widen. apply I.join_correct. left. apply I.join_correct. left. exact H. Qed.

(* Interval's tan only covers enclosures inside (-pi/2, pi/2): use the period pi *)
Definition itan (i : I.type) : I.type :=
  match I.tan prec i with
  | Float.Inan =>
    match I.tan prec (I.sub prec i (I.pi prec)) with
    | Float.Inan => I.tan prec (I.add prec i (I.pi prec))
    | r => r
    end
  | r => r
  end.

Lemma Xtan_shift x k : (k = PI \/ k = - PI)%R -> Xtan (Xadd x (Xreal k)) = Xtan x.
Proof.
  intros Hk. destruct x as [|r]; [reflexivity|]. cbn [Xadd Xbind]. unfold Xtan'.
  assert (C : cos (r + k) = (- cos r)%R /\ sin (r + k) = (- sin r)%R).
  { destruct Hk as [->| ->].
    - split; [apply neg_cos|apply neg_sin].
    - pose proof (neg_cos (r + - PI)) as A. pose proof (neg_sin (r + - PI)) as B.
      replace (r + - PI + PI)%R with r in A, B by ring. split; lra. }
  destruct C as [C1 C2]. unfold is_zero. unfold tan. rewrite C1, C2.
  destruct (Req_dec (cos r) 0) as [Z|NZ].
  - rewrite !Raux.Req_bool_true by lra. reflexivity.
  - rewrite !Raux.Req_bool_false by lra. f_equal. field. exact NZ.
Qed.

Lemma itan_correct : I.extension Xtan itan.
Proof.
  intros i x H. unfold itan.
  destruct (I.tan prec i) eqn:E1.
  - destruct (I.tan prec (I.sub prec i (I.pi prec))) eqn:E2.
    + rewrite <- (Xtan_shift x PI) by auto. apply I.tan_correct.
      apply I.add_correct; [exact H|apply I.pi_correct].
    + rewrite <- E2. rewrite <- (Xtan_shift x (- PI)) by auto. apply I.tan_correct.
      replace (Xadd x (Xreal (- PI))) with (Xsub x (Xreal PI)) by (destruct x; reflexivity).
      apply I.sub_correct; [exact H|apply I.pi_correct].
  - rewrite <- E1. now apply I.tan_correct.
Qed.

Definition iun (o : uop) : I.type -> I.type :=
  match o with
  | Neg => I.neg | Abs => I.abs | Sqrt => I.sqrt prec | Exp => I.exp prec | Ln => I.ln prec
  | Tan => itan | Atan => I.atan prec | Floor => I.nearbyint rnd_DN | Sqr => I.sqr prec
  | Ln1p => fun i => I.ln prec (I.add prec (I.fromZ prec 1) i)
  | Expm1 => fun i => I.sub prec (I.exp prec i) (I.fromZ prec 1)
  | Id => fun i => i
  end.
Definition ipow (a b : I.type) : I.type := I.exp prec (I.mul prec b (I.ln prec a)).
Definition ibin (o : bop) : I.type -> I.type -> I.type :=
  match o with Add => I.add prec | Sub => I.sub prec | Mul => I.mul prec | Div => I.div prec | Pow => ipow end.

(* error budget per operation in units of 2^-p relative (fixed a priori, DESIGN.md 2.2):
   1 (= 0.5 ulp worst case) for IEEE + - * / sqrt, 4 (2 ulp) for exp/ln/ln_1p/exp_m1,
   8 (4 ulp) for powf/tan/atan; neg/abs/floor are exact *)
Definition ku (o : uop) : Z :=
  match o with Neg | Abs | Floor => 0 | Id | Sqrt | Sqr => 1 | Exp | Ln | Ln1p | Expm1 => 4 | Tan | Atan => 8 end.
Definition kb (o : bop) : Z := match o with Pow => 8 | _ => 1 end.

(* w = true: widened (float-aware) evaluation; w = false: plain enclosure of the real value *)
Fixpoint evalI (w : bool) (e : expr) : I.type :=
  match e with
  | Dy m x => idy m x
  | Pi => if w then widen 1 (I.pi prec) else I.pi prec
  | Un o a => let r := iun o (evalI w a) in if w then (if (ku o =? 0)%Z then r else widen (ku o) r) else r
  | Bin o a b => let r := ibin o (evalI w a) (evalI w b) in if w then widen (kb o) r else r
  | Exact a => evalI false a
  end.

Lemma iun_correct o : I.extension (xun o) (iun o).
Proof. destruct o; cbn [xun iun].
  - apply I.neg_correct. - apply I.abs_correct. - apply I.sqrt_correct. - apply I.exp_correct.
  - apply I.ln_correct. - apply itan_correct. - apply I.atan_correct. - apply I.nearbyint_correct.
  - apply I.sqr_correct.
  - intros b x H. apply I.ln_correct. apply I.add_correct; [apply I.fromZ_correct|exact H].
  - intros b x H. apply I.sub_correct; [apply I.exp_correct; exact H|apply I.fromZ_correct].
  - intros b x H; exact H.
Qed.
Lemma ibin_correct o : I.extension_2 (xbin o) (ibin o).
Proof. destruct o; cbn [xbin ibin].
  - apply I.add_correct. - apply I.sub_correct. - apply I.mul_correct. - apply I.div_correct.
  - intros ia ib a b Ha Hb. unfold ipow, Xpow. apply I.exp_correct. apply I.mul_correct; auto.
    apply I.ln_correct; auto.
Qed.

(* the enclosure (plain or widened) always contains the exact real value of the expression *)
Theorem evalI_sound : forall e w, contains (I.convert (evalI w e)) (evalX e).
Proof.
  induction e as [m x| |o a IH|o a IHa b IHb|a IH]; intros w; cbn [evalI evalX].
  - apply idy_correct.
  - destruct w; [apply widen_correct|]; apply I.pi_correct.
  - pose proof (iun_correct o _ _ (IH w)) as H. destruct w; auto. destruct (ku o =? 0)%Z; auto.
    now apply widen_correct.
  - pose proof (ibin_correct o _ _ _ _ (IHa w) (IHb w)) as H. destruct w; auto. now apply widen_correct.
  - apply IH.
Qed.

(* ---- verified decisions on enclosures ---------------------------------------------------- *)
Inductive tri := TT | TF | TU.

(* a < b *)
Definition ilt (ia ib : I.type) : tri :=
  match I.sign_strict (I.sub prec ib ia) with Xgt => TT | Xlt | Xeq => TF | Xund => TU end.
(* a <= b *)
Definition ile (ia ib : I.type) : tri :=
  match I.sign_strict (I.sub prec ia ib) with Xgt => TF | Xlt | Xeq => TT | Xund => TU end.

Lemma ilt_correct ia ib a b : contains (I.convert ia) (Xreal a) -> contains (I.convert ib) (Xreal b) ->
  match ilt ia ib with TT => (a < b)%R | TF => ~ (a < b)%R | TU => True end.
Proof.
  intros Ha Hb. unfold ilt. pose proof (I.sub_correct prec _ _ _ _ Hb Ha) as H. cbn [Xsub] in H.
  pose proof (I.sign_strict_correct (I.sub prec ib ia)) as S.
  destruct (I.sign_strict (I.sub prec ib ia)); auto.
  - specialize (S _ H). inversion S. lra.
  - destruct (S _ H) as [_ S2]. cbn in S2. lra.
  - destruct (S _ H) as [_ S2]. cbn in S2. lra.
Qed.
Lemma ile_correct ia ib a b : contains (I.convert ia) (Xreal a) -> contains (I.convert ib) (Xreal b) ->
  match ile ia ib with TT => (a <= b)%R | TF => ~ (a <= b)%R | TU => True end.
Proof.
  intros Ha Hb. unfold ile. pose proof (I.sub_correct prec _ _ _ _ Ha Hb) as H. cbn [Xsub] in H.
  pose proof (I.sign_strict_correct (I.sub prec ia ib)) as S.
  destruct (I.sign_strict (I.sub prec ia ib)); auto.
  - specialize (S _ H). inversion S. lra.
  - destruct (S _ H) as [_ S2]. cbn in S2. lra.
  - destruct (S _ H) as [_ S2]. cbn in S2. lra.
Qed.

(* is the dyadic m*2^e certainly inside the enclosure? *)
Definition inside (i : I.type) (m e : Z) : bool := I.subset (idy m e) i.
Lemma inside_correct i m e : inside i m e = true -> contains (I.convert i) (xdy m e).
Proof. intros H. eapply I.subset_correct; [apply idy_correct|exact H]. Qed.

End Eval.
