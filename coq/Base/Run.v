(* Base/Run.v — sampler models are decision trees over closed real expressions.
   interpI explores a tree with verified interval decisions (forking on undecidable
   comparisons); `evals` is the exact real-number semantics.                          *)
From Coq Require Import Reals ZArith List Lra Lia Bool.
From Interval Require Import Xreal Interval.
From Flocq Require Import Core.
From RD Require Import Base.Expr.
Import ListNotations.

Inductive cmpop := CLt | CLe | CGt | CGe.

Inductive run (A : Type) : Type :=
| Ret (a : A)
| Ask (c : cmpop) (a b : expr) (k : bool -> run A)      (* branch on  a c b  *)
| AskFloor (e : expr) (k : Z -> run A)                  (* continue with floor(e) as an integer *)
| Fail (code : Z).                                       (* panic / fuel or words exhausted / undefined *)
Arguments Ret {A} a. Arguments Ask {A} c a b k. Arguments AskFloor {A} e k. Arguments Fail {A} code.

Fixpoint bind {A B} (r : run A) (f : A -> run B) : run B :=
  match r with
  | Ret a => f a
  | Ask c a b k => Ask c a b (fun t => bind (k t) f)
  | AskFloor e k => AskFloor e (fun z => bind (k z) f)
  | Fail c => Fail c
  end.

(* ---- exact semantics ----------------------------------------------------------------- *)
Definition rcmp (c : cmpop) (x y : R) : bool :=
  match c with
  | CLt => if Rlt_dec x y then true else false
  | CLe => if Rle_dec x y then true else false
  | CGt => if Rlt_dec y x then true else false
  | CGe => if Rle_dec y x then true else false
  end.

Inductive evals {A} : run A -> A -> Prop :=
| EvRet a : evals (Ret a) a
| EvAsk c a b k x y v : evalX a = Xreal x -> evalX b = Xreal y -> evals (k (rcmp c x y)) v -> evals (Ask c a b k) v
| EvFloor e k x v : evalX e = Xreal x -> evals (k (Zfloor x)) v -> evals (AskFloor e k) v.

(* ---- interval exploration -------------------------------------------------------------- *)
Inductive outc (A : Type) := OVal (a : A) | OFail (code : Z) | OAmb.
Arguments OVal {A} a. Arguments OFail {A} code. Arguments OAmb {A}.

Section Interp.
Variable prec : F.precision.
Variable p eta : Z.

Definition ev (e : expr) : I.type := evalI prec p eta true e.

Definition decide (c : cmpop) (ia ib : I.type) : tri :=
  match c with
  | CLt => ilt prec ia ib
  | CLe => ile prec ia ib
  | CGt => ilt prec ib ia
  | CGe => ile prec ib ia
  end.

(* integer range [lo,hi] of floor over the enclosure; None if unbounded *)
Definition floor_range (i : I.type) : option (Z * Z) :=
  match I.nearbyint Basic.rnd_DN i with
  | Float.Ibnd l u =>
    match F.toF l, F.toF u with
    | Basic.Float false ml el, Basic.Float false mu eu =>
        Some ((Z.pos ml * 2 ^ el)%Z, (Z.pos mu * 2 ^ eu)%Z)
    | Basic.Float true ml el, Basic.Float false mu eu => Some ((- (Z.pos ml) * 2 ^ el)%Z, (Z.pos mu * 2 ^ eu)%Z)
    | Basic.Float true ml el, Basic.Float true mu eu => Some ((- (Z.pos ml) * 2 ^ el)%Z, (- (Z.pos mu) * 2 ^ eu)%Z)
    | Basic.Fzero, Basic.Float false mu eu => Some (0%Z, (Z.pos mu * 2 ^ eu)%Z)
    | Basic.Float true ml el, Basic.Fzero => Some ((- (Z.pos ml) * 2 ^ el)%Z, 0%Z)
    | Basic.Fzero, Basic.Fzero => Some (0%Z, 0%Z)
    | _, _ => None
    end
  | _ => None
  end.

(* forks: how many undecidable decisions may still be explored both ways *)
Fixpoint interpI {A} (r : run A) (forks : nat) : list (outc A) :=
  match r with
  | Ret a => [OVal a]
  | Fail c => [OFail c]
  | Ask c a b k =>
    match decide c (ev a) (ev b) with
    | TT => interpI (k true) forks
    | TF => interpI (k false) forks
    | TU => match forks with
            | O => [OAmb]
            | S f => interpI (k true) f ++ interpI (k false) f
            end
    end
  | AskFloor e k =>
    match floor_range (ev e) with
    | Some (lo, hi) =>
      if (lo =? hi)%Z then interpI (k lo) forks
      else if (hi =? lo + 1)%Z then
        match forks with O => [OAmb] | S f => interpI (k lo) f ++ interpI (k hi) f end
      else [OAmb]
    | None => [OAmb]
    end
  end.

(* the same exploration, additionally threading a signature of the decisions taken (1 / 2 = a comparison decided true /
   false, 3 = a floor node): used only to MEASURE which paths of a model the correspondence exercises; the outcomes
   are those of interpI (Proofs/RunSound.v: interpS_fst) *)
Definition hmix (h d : Z) : Z := ((h * 1000003 + d) mod 2305843009213693951)%Z.
Fixpoint interpS {A} (r : run A) (forks : nat) (h : Z) : list (outc A * Z) :=
  match r with
  | Ret a => [(OVal a, h)]
  | Fail c => [(OFail c, h)]
  | Ask c a b k =>
    match decide c (ev a) (ev b) with
    | TT => interpS (k true) forks (hmix h 1)
    | TF => interpS (k false) forks (hmix h 2)
    | TU => match forks with
            | O => [(OAmb, h)]
            | S f => interpS (k true) f (hmix h 1) ++ interpS (k false) f (hmix h 2)
            end
    end
  | AskFloor e k =>
    match floor_range (ev e) with
    | Some (lo, hi) =>
      if (lo =? hi)%Z then interpS (k lo) forks (hmix h 3)
      else if (hi =? lo + 1)%Z then
        match forks with O => [(OAmb, h)] | S f => interpS (k lo) f (hmix h 3) ++ interpS (k hi) f (hmix h 3) end
      else [(OAmb, h)]
    | None => [(OAmb, h)]
    end
  end.

Lemma interpS_fst {A} (r : run A) : forall forks h, map fst (interpS r forks h) = interpI r forks.
Proof.
  induction r as [a|c a b k IH|e k IH|c]; intros forks h; cbn [interpS interpI]; try reflexivity.
  - destruct (decide c (ev a) (ev b)); [apply IH|apply IH|].
    destruct forks as [|f]; [reflexivity|]. rewrite map_app, !IH. reflexivity.
  - destruct (floor_range (ev e)) as [[lo hi]|]; [|reflexivity].
    destruct (lo =? hi)%Z; [apply IH|]. destruct (hi =? lo + 1)%Z; [|reflexivity].
    destruct forks as [|f]; [reflexivity|]. rewrite map_app, !IH. reflexivity.
Qed.

End Interp.
